/-
General facts about `gather`, `isPermOf`, `invPerm` (Core/Perm.lean): a permutation list is
duplicate-free and covers `0..n-1`, `invPerm` is the two-sided inverse, gathering by a
permutation and by its inverse cancel, and in-bounds subscripts / cell counts are
transported along a permutation.
-/
import PyttbModel.Core.Perm
import PyttbModel.Lemmas.Idx
import Batteries.Data.List.Perm
namespace Pyttb

/-! ### `getD` helpers -/

theorem getD0_of_lt (l : List Nat) (k : Nat) (h : k < l.length) : l.getD k 0 = l[k] := by
  simp [List.getD_eq_getElem?_getD, h]

theorem getD0_of_le (l : List Nat) (k : Nat) (h : l.length ≤ k) : l.getD k 0 = 0 := by
  simp [List.getD_eq_getElem?_getD, h]

theorem getD0_mem (l : List Nat) (k : Nat) (h : k < l.length) : l.getD k 0 ∈ l := by
  rw [getD0_of_lt l k h]; exact List.getElem_mem h

/-- two lists of the same length with the same `getD` entries are equal. -/
theorem ext_getD {l₁ l₂ : List Nat} (hl : l₁.length = l₂.length)
    (h : ∀ k, k < l₁.length → l₁.getD k 0 = l₂.getD k 0) : l₁ = l₂ := by
  apply List.ext_getElem hl
  intro k h1 h2
  have := h k h1
  rwa [getD0_of_lt _ _ h1, getD0_of_lt _ _ h2] at this

/-! ### `gather` -/

@[simp] theorem length_gather (l idx : List Nat) : (gather l idx).length = idx.length := by
  simp [gather]

@[simp] theorem gather_nil (l : List Nat) : gather l [] = [] := rfl

@[simp] theorem gather_cons (l : List Nat) (k : Nat) (idx : List Nat) :
    gather l (k :: idx) = l.getD k 0 :: gather l idx := rfl

theorem gather_append (l a b : List Nat) : gather l (a ++ b) = gather l a ++ gather l b := by
  simp [gather]

theorem getD_gather (l idx : List Nat) (k : Nat) (hk : k < idx.length) :
    (gather l idx).getD k 0 = l.getD (idx.getD k 0) 0 := by
  simp [gather, List.getD_eq_getElem?_getD, hk]

theorem mem_gather {l idx : List Nat} {x : Nat} :
    x ∈ gather l idx ↔ ∃ k ∈ idx, l.getD k 0 = x := by
  simp [gather]

/-- `l[arange(len l)] = l`. -/
theorem gather_range (l : List Nat) : gather l (List.range l.length) = l := by
  apply ext_getD (by simp)
  intro k hk
  simp only [length_gather, List.length_range] at hk
  rw [getD_gather _ _ _ (by simpa using hk), getD0_of_lt (List.range _) k (by simpa using hk)]
  simp

theorem gather_range_of_length {l : List Nat} {n : Nat} (h : l.length = n) :
    gather l (List.range n) = l := by subst h; exact gather_range l

theorem gather_congr {l₁ l₂ idx : List Nat} (h : ∀ k ∈ idx, l₁.getD k 0 = l₂.getD k 0) :
    gather l₁ idx = gather l₂ idx := by
  unfold gather; exact List.map_congr_left h

/-- gathering twice is gathering by the gathered index list, as long as the inner indices
are valid positions. -/
theorem gather_gather (l p q : List Nat) (hq : ∀ x ∈ q, x < p.length) :
    gather (gather l p) q = gather l (gather p q) := by
  unfold gather
  rw [List.map_map]
  apply List.map_congr_left
  intro x hx
  have := getD_gather l p x (hq x hx)
  simpa [gather] using this

/-! ### `isPermOf` -/

theorem isPermOf_iff (p : List Nat) (n : Nat) :
    isPermOf p n = true ↔ p.length = n ∧ ∀ m, m < n → m ∈ p := by
  simp [isPermOf, List.all_eq_true]

theorem isPermOf_eq_false_iff (p : List Nat) (n : Nat) :
    isPermOf p n = false ↔ ¬ (p.length = n ∧ ∀ m, m < n → m ∈ p) := by
  rw [← isPermOf_iff]; simp

theorem isPermOf_length_eq {p : List Nat} {n : Nat} (h : isPermOf p n = true) : p.length = n :=
  ((isPermOf_iff p n).1 h).1

theorem isPermOf_mem_of_lt {p : List Nat} {n : Nat} (h : isPermOf p n = true) {m : Nat}
    (hm : m < n) : m ∈ p := ((isPermOf_iff p n).1 h).2 m hm

/-- a permutation list is a rearrangement of `0..n-1`. -/
theorem isPermOf_perm {p : List Nat} {n : Nat} (h : isPermOf p n = true) :
    (List.range n).Perm p := by
  obtain ⟨hl, hm⟩ := (isPermOf_iff p n).1 h
  apply List.Subperm.perm_of_length_le
  · apply List.subperm_of_subset List.nodup_range
    intro m hm'; exact hm m (List.mem_range.1 hm')
  · simp [hl]

theorem isPermOf_of_perm {p : List Nat} {n : Nat} (h : (List.range n).Perm p) :
    isPermOf p n = true := by
  rw [isPermOf_iff]
  refine ⟨by simpa using h.length_eq.symm, ?_⟩
  intro m hm; exact h.subset (List.mem_range.2 hm)

theorem isPermOf_iff_perm (p : List Nat) (n : Nat) :
    isPermOf p n = true ↔ (List.range n).Perm p := ⟨isPermOf_perm, isPermOf_of_perm⟩

theorem isPermOf_nodup {p : List Nat} {n : Nat} (h : isPermOf p n = true) : p.Nodup :=
  (isPermOf_perm h).nodup_iff.1 List.nodup_range

theorem isPermOf_lt_of_mem {p : List Nat} {n : Nat} (h : isPermOf p n = true) {x : Nat}
    (hx : x ∈ p) : x < n := List.mem_range.1 ((isPermOf_perm h).symm.subset hx)

theorem isPermOf_mem_iff {p : List Nat} {n : Nat} (h : isPermOf p n = true) {x : Nat} :
    x ∈ p ↔ x < n := ⟨isPermOf_lt_of_mem h, isPermOf_mem_of_lt h⟩

theorem isPermOf_getD_lt {p : List Nat} {n : Nat} (h : isPermOf p n = true) {k : Nat}
    (hk : k < n) : p.getD k 0 < n := isPermOf_lt_of_mem h (getD0_mem p k (by rw [isPermOf_length_eq h]; exact hk))

theorem isPermOf_range (n : Nat) : isPermOf (List.range n) n = true :=
  isPermOf_of_perm (List.Perm.refl _)

theorem isPermOf_nil_iff (n : Nat) : isPermOf [] n = true ↔ n = 0 := by
  rw [isPermOf_iff]; constructor
  · intro h; exact h.1.symm
  · intro h; subst h; simp

/-- two positions of a permutation holding the same value coincide. -/
theorem isPermOf_getD_inj {p : List Nat} {n : Nat} (h : isPermOf p n = true) {a b : Nat}
    (ha : a < n) (hb : b < n) (hab : p.getD a 0 = p.getD b 0) : a = b := by
  have hl := isPermOf_length_eq h
  exact (List.getD_inj (by omega) (by omega) (isPermOf_nodup h)).1 hab

/-! ### `invPerm` -/

@[simp] theorem length_invPerm (p : List Nat) : (invPerm p).length = p.length := by
  simp [invPerm]

@[simp] theorem invPerm_nil : invPerm [] = [] := rfl

theorem getD_invPerm (p : List Nat) (m : Nat) (hm : m < p.length) :
    (invPerm p).getD m 0 = p.idxOf m := by
  simp [invPerm, List.getD_eq_getElem?_getD, hm]

/-- `argsort(p)[p[k]] = k`. -/
theorem invPerm_getD_getD {p : List Nat} {n : Nat} (h : isPermOf p n = true) {k : Nat}
    (hk : k < n) : (invPerm p).getD (p.getD k 0) 0 = k := by
  have hl := isPermOf_length_eq h
  have hk' : k < p.length := by omega
  rw [getD_invPerm p _ (by rw [hl]; exact isPermOf_getD_lt h hk), getD0_of_lt p k hk']
  exact (isPermOf_nodup h).idxOf_getElem k hk'

/-- `argsort(p)[m]` is a position of `p`. -/
theorem isPermOf_invPerm_getD_lt {p : List Nat} {n : Nat} (h : isPermOf p n = true) {m : Nat}
    (hm : m < n) : (invPerm p).getD m 0 < n := by
  have hl := isPermOf_length_eq h
  rw [getD_invPerm p m (by omega), ← hl]
  exact List.idxOf_lt_length_of_mem (isPermOf_mem_of_lt h hm)

/-- `p[argsort(p)[m]] = m`. -/
theorem getD_invPerm_getD {p : List Nat} {n : Nat} (h : isPermOf p n = true) {m : Nat}
    (hm : m < n) : p.getD ((invPerm p).getD m 0) 0 = m := by
  have hl := isPermOf_length_eq h
  have hlt : p.idxOf m < p.length := List.idxOf_lt_length_of_mem (isPermOf_mem_of_lt h hm)
  rw [getD_invPerm p m (by omega), getD0_of_lt p _ hlt]
  exact List.getElem_idxOf hlt

/-- the inverse of a permutation is a permutation. -/
theorem isPermOf_invPerm {p : List Nat} {n : Nat} (h : isPermOf p n = true) :
    isPermOf (invPerm p) n = true := by
  have hl := isPermOf_length_eq h
  rw [isPermOf_iff]
  refine ⟨by simp [hl], ?_⟩
  intro k hk
  have h1 := invPerm_getD_getD h hk
  rw [← h1]
  exact getD0_mem _ _ (by rw [length_invPerm, hl]; exact isPermOf_getD_lt h hk)

/-- `argsort(argsort(p)) = p` for a permutation. -/
theorem invPerm_invPerm {p : List Nat} {n : Nat} (h : isPermOf p n = true) :
    invPerm (invPerm p) = p := by
  have hl := isPermOf_length_eq h
  have hq := isPermOf_invPerm h
  apply ext_getD (by simp)
  intro k hk
  simp only [length_invPerm] at hk
  have hk' : k < n := by omega
  -- both sides are positions `a` of `invPerm p` with `(invPerm p)[a] = k`
  apply isPermOf_getD_inj hq (isPermOf_getD_lt (isPermOf_invPerm hq) hk') (isPermOf_getD_lt h hk')
  rw [getD_invPerm_getD hq hk', invPerm_getD_getD h hk']

theorem invPerm_range (n : Nat) : invPerm (List.range n) = List.range n := by
  have h := isPermOf_range n
  apply ext_getD (by simp)
  intro k hk
  simp only [length_invPerm, List.length_range] at hk
  have h1 := invPerm_getD_getD h hk
  rw [getD0_of_lt (List.range n) k (by simpa using hk)] at h1
  simp only [List.getElem_range] at h1
  rw [h1, getD0_of_lt (List.range n) k (by simpa using hk)]
  simp

/-! ### gathering by a permutation and by its inverse -/

/-- `(gather j (invPerm p))[p[k]] = j[k]`: un-permuting puts `j[k]` at position `p[k]`. -/
theorem unperm_spec (p j : List Nat) (n : Nat) (hp : isPermOf p n = true) (_hj : j.length = n)
    (k : Nat) (hk : k < n) :
    (gather j (invPerm p)).getD (p.getD k 0) 0 = j.getD k 0 := by
  have hl := isPermOf_length_eq hp
  rw [getD_gather _ _ _ (by rw [length_invPerm, hl]; exact isPermOf_getD_lt hp hk),
    invPerm_getD_getD hp hk]

theorem gather_gather_invPerm {p i : List Nat} {n : Nat} (hp : isPermOf p n = true)
    (hi : i.length = n) : gather (gather i p) (invPerm p) = i := by
  have hl := isPermOf_length_eq hp
  apply ext_getD (by simp [hl, hi])
  intro k hk
  simp only [length_gather, length_invPerm] at hk
  have hk' : k < n := by omega
  rw [getD_gather _ _ _ (by simpa using hk),
    getD_gather _ _ _ (by rw [hl]; exact isPermOf_invPerm_getD_lt hp hk'), getD_invPerm_getD hp hk']

theorem gather_invPerm_gather {p i : List Nat} {n : Nat} (hp : isPermOf p n = true)
    (hi : i.length = n) : gather (gather i (invPerm p)) p = i := by
  have := gather_gather_invPerm (isPermOf_invPerm hp) hi
  rwa [invPerm_invPerm hp] at this

theorem gather_invPerm (p i : List Nat) (n : Nat) (hp : isPermOf p n = true) (hi : i.length = n) :
    gather (gather i p) (invPerm p) = i ∧ gather (gather i (invPerm p)) p = i :=
  ⟨gather_gather_invPerm hp hi, gather_invPerm_gather hp hi⟩

/-- for full-length lists, `gather · p = j` can be solved for the argument. -/
theorem gather_eq_iff {p r j : List Nat} {n : Nat} (hp : isPermOf p n = true)
    (hr : r.length = n) (hj : j.length = n) : gather r p = j ↔ r = gather j (invPerm p) := by
  constructor
  · intro h; rw [← h, gather_gather_invPerm hp hr]
  · intro h; rw [h, gather_invPerm_gather hp hj]

/-- gathering by a permutation is injective on full-length lists. -/
theorem gather_perm_inj {p r₁ r₂ : List Nat} {n : Nat} (hp : isPermOf p n = true)
    (h1 : r₁.length = n) (h2 : r₂.length = n) (h : gather r₁ p = gather r₂ p) : r₁ = r₂ := by
  rw [← gather_gather_invPerm hp h1, h, gather_gather_invPerm hp h2]

/-- gathering by a permutation rearranges the list. -/
theorem gather_perm_self {l p : List Nat} (hp : isPermOf p l.length = true) : (gather l p).Perm l := by
  have h1 : (gather l p).Perm (gather l (List.range l.length)) := by
    unfold gather; exact ((isPermOf_perm hp).symm).map _
  rwa [gather_range] at h1

/-! ### in-bounds subscripts and cell counts -/

theorem inBounds_iff_getD (s i : List Nat) :
    InBounds s i ↔ i.length = s.length ∧ ∀ k, k < s.length → i.getD k 0 < s.getD k 0 := by
  induction s generalizing i with
  | nil => cases i <;> simp [InBounds]
  | cons a s ih =>
    cases i with
    | nil => simp [InBounds]
    | cons b i =>
      simp only [InBounds, ih, List.length_cons, Nat.add_right_cancel_iff]
      constructor
      · rintro ⟨hb, hl, h⟩
        refine ⟨hl, ?_⟩
        intro k hk
        cases k with
        | zero => simpa using hb
        | succ k => simpa using h k (by omega)
      · rintro ⟨hl, h⟩
        refine ⟨by simpa using h 0 (by omega), hl, ?_⟩
        intro k hk
        simpa using h (k + 1) (by omega)

theorem InBounds.getD_lt {s i : List Nat} (h : InBounds s i) {k : Nat} (hk : k < s.length) :
    i.getD k 0 < s.getD k 0 := ((inBounds_iff_getD s i).1 h).2 k hk

/-- gathering shape and subscript by the same valid index list keeps the subscript in bounds. -/
theorem InBounds.gather {s i : List Nat} (h : InBounds s i) {idx : List Nat}
    (hidx : ∀ k ∈ idx, k < s.length) : InBounds (gather s idx) (gather i idx) := by
  induction idx with
  | nil => simp [InBounds]
  | cons k idx ih =>
    simp only [gather_cons, InBounds]
    exact ⟨h.getD_lt (hidx k (by simp)), ih (fun k hk => hidx k (by simp [hk]))⟩

theorem inBounds_gather_iff {s i p : List Nat} (hp : isPermOf p s.length = true)
    (hi : i.length = s.length) : InBounds (gather s p) (gather i p) ↔ InBounds s i := by
  constructor
  · intro h
    have h2 := h.gather (idx := invPerm p) (by
      intro k hk
      rw [length_gather, isPermOf_length_eq hp]
      exact isPermOf_lt_of_mem (isPermOf_invPerm hp) hk)
    rwa [gather_gather_invPerm hp rfl, gather_gather_invPerm hp hi] at h2
  · intro h; exact h.gather (fun k hk => isPermOf_lt_of_mem hp hk)

/-- a subscript of the permuted shape un-permutes to a subscript of the original shape. -/
theorem inBounds_unperm {s j p : List Nat} (hp : isPermOf p s.length = true)
    (hj : InBounds (gather s p) j) : InBounds s (gather j (invPerm p)) := by
  have hjl : j.length = s.length := by rw [hj.length_eq, length_gather, isPermOf_length_eq hp]
  rw [← inBounds_gather_iff hp (by simp [isPermOf_length_eq hp]), gather_invPerm_gather hp hjl]
  exact hj

theorem numel_perm {s t : List Nat} (h : s.Perm t) : numel s = numel t := by
  induction h with
  | nil => rfl
  | cons a _ ih => simp [ih]
  | swap a b l => simp only [numel_cons]; rw [← Nat.mul_assoc, ← Nat.mul_assoc, Nat.mul_comm b a]
  | trans _ _ ih1 ih2 => rw [ih1, ih2]

/-- permuting the modes keeps the number of cells. -/
theorem numel_gather {s p : List Nat} (hp : isPermOf p s.length = true) :
    numel (gather s p) = numel s := numel_perm (gather_perm_self hp)

end Pyttb
