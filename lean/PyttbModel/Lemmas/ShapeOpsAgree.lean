/-
Proofs for property C07, second part: the Tucker holder, agreement of the holders of one array,
round trips for every holder, the sparse reshape keeps well-formedness.
(First part: Lemmas/ShapeOps.lean.)
-/
import PyttbModel.Lemmas.ShapeOps
import PyttbModel.Lemmas.MLSums
import PyttbModel.Lemmas.MLFiber
import PyttbModel.Spec.ShapeOps
namespace Pyttb

variable {α : Type}

/-! ### "denotes the same array" -/

theorem Den.Same.refl (X : Den α) : X.Same X := ⟨rfl, fun _ _ => rfl⟩

theorem Den.Same.symm {X Y : Den α} (h : X.Same Y) : Y.Same X :=
  ⟨h.shape.symm, fun i hi => (h.get i (by rw [h.shape]; exact hi)).symm⟩

theorem Den.Same.trans {X Y Z : Den α} (h1 : X.Same Y) (h2 : Y.Same Z) : X.Same Z :=
  ⟨h1.shape.trans h2.shape, fun i hi => (h1.get i hi).trans (h2.get i (by rw [← h1.shape]; exact hi))⟩

/-- the permuted array depends only on the array. -/
theorem Spec.permute_congr {X Y : Den α} (h : X.Same Y) (p : List Nat)
    (hp : isPermOf p X.shape.length = true) : (Spec.permute X p).Same (Spec.permute Y p) :=
  ⟨by simp only [Spec.permute, h.shape], fun _ hj => h.get _ (inBounds_unperm hp hj)⟩

/-- the reshaped array depends only on the array. -/
theorem Spec.reshape_congr {X Y : Den α} (h : X.Same Y) (s' : List Nat)
    (hn : numel s' = numel X.shape) : (Spec.reshape X s').Same (Spec.reshape Y s') := by
  refine ⟨rfl, fun j hj => ?_⟩
  show X.get (ind2sub X.shape (sub2ind s' j)) = Y.get (ind2sub Y.shape (sub2ind s' j))
  rw [← h.shape]
  exact h.get _ (ind2sub_inBounds (by rw [← hn]; exact sub2ind_lt hj))

/-! ### gathering a list of anything by a permutation -/

theorem length_gatherD {β : Type} (l : List β) (idx : List Nat) (d : β) :
    (gatherD l idx d).length = idx.length := by simp [gatherD]

theorem getD_gatherD {β : Type} (l : List β) (idx : List Nat) (d : β) (k : Nat) (hk : k < idx.length) :
    (gatherD l idx d).getD k d = l.getD (idx.getD k 0) d := by
  simp [gatherD, List.getD_eq_getElem?_getD, hk]

theorem gatherD_gatherD_invPerm {β : Type} {l : List β} {p : List Nat} (d : β)
    (hp : isPermOf p l.length = true) : gatherD (gatherD l p d) (invPerm p) d = l := by
  have hl := isPermOf_length_eq hp
  apply List.ext_getElem
  · simp [length_gatherD, hl]
  · intro m h1 h2
    have hm : m < (invPerm p).length := by simpa [length_gatherD] using h1
    have h3 := getD_gatherD (gatherD l p d) (invPerm p) d m hm
    rw [getD_gatherD l p d _ (by rw [hl]; exact isPermOf_invPerm_getD_lt hp h2),
      getD_invPerm_getD hp h2] at h3
    simpa [List.getD_eq_getElem?_getD, h1, h2] using h3

theorem shape_gatherD (fs : List (Mat α)) (p : List Nat) :
    (gatherD fs p []).map List.length = gather (fs.map List.length) p := by
  simp only [gatherD, gather, List.map_map]
  apply List.map_congr_left
  intro k _
  simp only [Function.comp, List.getD_eq_getElem?_getD, List.getElem?_map]
  cases fs[k]? <;> rfl

/-- zipping two lists of one length commutes with positional lookup. -/
theorem getD_zip {β γ : Type} (a : List β) (b : List γ) (da : β) (db : γ) (h : a.length = b.length)
    (q : Nat) : (a.zip b).getD q (da, db) = (a.getD q da, b.getD q db) := by
  by_cases hq : q < a.length
  · have hq' : q < b.length := by omega
    have hz : q < (a.zip b).length := by simp; omega
    simp [List.getD_eq_getElem?_getD, List.getElem?_eq_getElem hz, List.getElem?_eq_getElem hq,
      List.getElem?_eq_getElem hq']
  · have hq' : ¬ q < b.length := by omega
    have h1 : (a.zip b)[q]? = none := by simp; omega
    have h2 : a[q]? = none := by simp; omega
    have h3 : b[q]? = none := by simp; omega
    simp [List.getD_eq_getElem?_getD, h1, h2, h3]

/-- A product of one term per mode, the factors listed in a permuted order. -/
theorem prod_zipWith_gatherD [CommSemiring α] {β γ : Type} (g : β → γ → α) (fs : List β) (xs : List γ)
    (p : List Nat) (n : Nat) (hp : isPermOf p n = true) (hf : fs.length = n) (hx : xs.length = n)
    (d : β) (dx : γ) :
    (List.zipWith g (gatherD fs p d) xs).prod =
      (List.zipWith g fs (gatherD xs (invPerm p) dx)).prod := by
  have hl := isPermOf_length_eq hp
  let G : Nat → α := fun m => g (fs.getD m d) (xs.getD ((invPerm p).getD m 0) dx)
  have h1 : List.zipWith g (gatherD fs p d) xs = p.map G := by
    rw [zipWith_eq_map_range_getD _ _ _ n d dx (by rw [length_gatherD, hl]) hx]
    conv => rhs; rw [← map_getD_range_eq p, List.map_map, hl]
    apply List.map_congr_left
    intro k hk
    have hk' := List.mem_range.1 hk
    simp only [Function.comp, G, invPerm_getD_getD hp hk']
    rw [getD_gatherD _ _ _ _ (by omega)]
  have h2 : List.zipWith g fs (gatherD xs (invPerm p) dx) = (List.range n).map G := by
    rw [zipWith_eq_map_range_getD _ _ _ n d dx hf (by rw [length_gatherD, length_invPerm, hl])]
    apply List.map_congr_left
    intro m hm
    have hm' := List.mem_range.1 hm
    simp only [G]
    rw [getD_gatherD _ _ _ _ (by rw [length_invPerm]; omega)]
  rw [h1, h2]
  exact prod_perm ((isPermOf_perm hp).symm.map G)

/-! ### Tucker permute -/

/-- for a permutation, `ttensor.permute` transposes the core and reorders the factors. -/
theorem Ttensor.permute_eq [Zero α] (T : Ttensor α) (p : List Nat) (hc : T.core.WF)
    (hlen : T.factors.length = T.core.shape.length) (hp : isPermOf p T.factors.length = true) :
    T.permute p = .ok ⟨T.core.transpose p, gatherD T.factors p []⟩ := by
  have hp' : isPermOf p T.core.shape.length = true := by rw [← hlen]; exact hp
  simp only [Ttensor.permute, hp, Dense.permute_eq_transpose T.core p hc hp']
  rfl

theorem permute_at_ttensor [CommSemiring α] (T : Ttensor α) (p : List Nat) (hc : T.core.WF)
    (hlen : T.factors.length = T.core.shape.length) (hp : isPermOf p T.factors.length = true)
    (j : List Nat) (hj : j.length = T.factors.length) :
    ∃ P, T.permute p = .ok P ∧ P.shape = gather T.shape p ∧
      P.core.shape = gather T.core.shape p ∧ P.core.WF ∧ P.factors = gatherD T.factors p [] ∧
      P.get j = T.get (gather j (invPerm p)) := by
  have hl := isPermOf_length_eq hp
  have hp' : isPermOf p T.core.shape.length = true := by rw [← hlen]; exact hp
  refine ⟨_, Ttensor.permute_eq T p hc hlen hp, shape_gatherD T.factors p, rfl,
    Dense.transpose_WF _ _, rfl, ?_⟩
  simp only [Ttensor.get]
  rw [ML.sum_allSubs_perm T.core.shape p hp'
    (fun k => T.core.get k * (List.zipWith (fun (U : Mat α) (q : Nat × Nat) => Mat.get U q.1 q.2)
      T.factors ((gather j (invPerm p)).zip k)).prod)]
  show (((allSubs (gather T.core.shape p)).map _).sum) = _
  apply ML.sum_congr
  intro k' hk'
  have hkb := mem_allSubs.1 hk'
  have hkl : k'.length = T.factors.length := by rw [hkb.length_eq, length_gather, hl]
  rw [Dense.transpose_get _ _ hkb]
  congr 1
  rw [prod_zipWith_gatherD (fun (U : Mat α) (q : Nat × Nat) => Mat.get U q.1 q.2) T.factors (j.zip k') p
    T.factors.length hp rfl (by simp [hj, hkl]) [] (0, 0)]
  congr 2
  -- un-permuting the pairs is pairing the un-permuted lists
  show (invPerm p).map (fun q => (j.zip k').getD q (0, 0)) =
    ((invPerm p).map fun q => j.getD q 0).zip ((invPerm p).map fun q => k'.getD q 0)
  rw [List.zip_map']
  apply List.map_congr_left
  intro q _
  exact getD_zip j k' 0 0 (by rw [hj, hkl]) q

/-! ### permute by `p`, then by the inverse of `p` -/

theorem Dense.transpose_transpose_invPerm [Zero α] (T : Dense α) (p : List Nat) (hT : T.WF)
    (hp : isPermOf p T.shape.length = true) : (T.transpose p).transpose (invPerm p) = T := by
  obtain ⟨P, h1, h2⟩ := permute_inverse_dense T p hT hp
  rw [Dense.permute_eq_transpose T p hT hp] at h1
  injection h1 with h1
  subst h1
  have hq : isPermOf (invPerm p) (T.transpose p).shape.length = true := by
    rw [Dense.transpose_shape, length_gather, isPermOf_length_eq hp]; exact isPermOf_invPerm hp
  rw [Dense.permute_eq_transpose _ _ (Dense.transpose_WF T p) hq] at h2
  injection h2

/-- sparse: the stored form comes back (same rows, same order, same values). -/
theorem permute_inverse_sparse (S : Sparse α) (p : List Nat) (hp : isPermOf p S.shape.length = true)
    (hS : ∀ r ∈ S.subs, r.length = S.shape.length) :
    ∃ P, S.permute p = .ok P ∧ P.permute (invPerm p) = .ok S := by
  have hl := isPermOf_length_eq hp
  refine ⟨⟨gather S.shape p, S.subs.map (fun r => gather r p), S.vals⟩, by simp [Sparse.permute, hp], ?_⟩
  have hq : isPermOf (invPerm p) (gather S.shape p).length = true := by
    rw [length_gather, hl]; exact isPermOf_invPerm hp
  have hsub : (S.subs.map (fun r => gather r p)).map (fun r => gather r (invPerm p)) = S.subs := by
    rw [List.map_map]
    conv => rhs; rw [← List.map_id S.subs]
    apply List.map_congr_left
    intro r hr
    exact gather_gather_invPerm hp (hS r hr)
  simp only [Sparse.permute, hq, hsub, gather_gather_invPerm hp rfl]
  rfl

/-- Kruskal: the very same weights and factor matrices come back. -/
theorem permute_inverse_ktensor (K : Ktensor α) (p : List Nat)
    (hp : isPermOf p K.factors.length = true) :
    ∃ P, K.permute p = .ok P ∧ P.permute (invPerm p) = .ok K := by
  have hl := isPermOf_length_eq hp
  refine ⟨⟨K.weights, gatherD K.factors p []⟩, by simp [Ktensor.permute, hp], ?_⟩
  have hq : isPermOf (invPerm p) (gatherD K.factors p []).length = true := by
    rw [length_gatherD, hl]; exact isPermOf_invPerm hp
  simp only [Ktensor.permute, hq, gatherD_gatherD_invPerm [] hp]
  rfl

/-- Tucker: the very same core and factor matrices come back. -/
theorem permute_inverse_ttensor [Zero α] (T : Ttensor α) (p : List Nat) (hc : T.core.WF)
    (hlen : T.factors.length = T.core.shape.length) (hp : isPermOf p T.factors.length = true) :
    ∃ P, T.permute p = .ok P ∧ P.permute (invPerm p) = .ok T := by
  have hl := isPermOf_length_eq hp
  have hp' : isPermOf p T.core.shape.length = true := by rw [← hlen]; exact hp
  refine ⟨_, Ttensor.permute_eq T p hc hlen hp, ?_⟩
  have hq : isPermOf (invPerm p) (gatherD T.factors p []).length = true := by
    rw [length_gatherD, hl]; exact isPermOf_invPerm hp
  rw [Ttensor.permute_eq _ (invPerm p) (Dense.transpose_WF _ _)
    (by simp [length_gatherD, Dense.transpose_shape]) hq]
  simp only [Dense.transpose_transpose_invPerm T.core p hc hp', gatherD_gatherD_invPerm [] hp]

/-! ### sparse reshape: the stored result, well-formedness, reshaping back -/

theorem ind2sub_length (s : List Nat) (n : Nat) : (ind2sub s n).length = s.length := by
  induction s generalizing n with
  | nil => rfl
  | cons a s ih => simp [ind2sub, ih]

/-- what `sptensor.reshape(s')` stores. -/
theorem Sparse.reshape_none_eq (S : Sparse α) (s' : List Nat) (hn : numel s' = numel S.shape)
    (hS : ∀ r ∈ S.subs, r.length = S.shape.length) :
    S.reshape s' none = .ok ⟨s', S.subs.map (fun r => ind2sub s' (sub2ind S.shape r)), S.vals⟩ := by
  have h1 : (List.range S.shape.length).any (fun x => decide (x ≥ S.shape.length)) = false := by
    rw [List.any_eq_false]; intro x hx; simpa using List.mem_range.1 hx
  have h2 := eraseDups_length_bne_false (List.range S.shape.length) List.nodup_range
  simp only [Sparse.reshape, Option.getD_none, gather_range, hn, bne_self_eq_false,
    Bool.false_eq_true, if_false, h1, h2, gather_nil, List.nil_append]
  congr 2
  apply List.map_congr_left
  intro r hr
  rw [gather_range_of_length (hS r hr)]

/-- what `sptensor.reshape(s', old_modes)` stores. -/
theorem Sparse.reshape_some_eq (S : Sparse α) (s' om : List Nat)
    (hom : om.Nodup ∧ ∀ m ∈ om, m < S.shape.length) (hn : numel s' = numel (gather S.shape om)) :
    S.reshape s' (some om) = .ok ⟨gather S.shape (complDims S.shape.length om) ++ s',
      S.subs.map (fun r => gather r (complDims S.shape.length om) ++
        ind2sub s' (sub2ind (gather S.shape om) (gather r om))), S.vals⟩ := by
  have h1 : om.any (fun x => decide (x ≥ S.shape.length)) = false := by
    rw [List.any_eq_false]; intro x hx; simpa using hom.2 x hx
  have h2 := eraseDups_length_bne_false om hom.1
  simp only [Sparse.reshape, Option.getD_some, hn, bne_self_eq_false, Bool.false_eq_true,
    if_false, h1, h2]

/-- reshaping all modes and reshaping back returns the stored tensor itself. -/
theorem reshape_back_sparse [Zero α] [BEq α] (S : Sparse α) (s' : List Nat) (hS : S.WF)
    (hn : numel s' = numel S.shape) :
    ∃ P, S.reshape s' none = .ok P ∧ P.shape = s' ∧ P.reshape S.shape none = .ok S := by
  have hlen : ∀ r ∈ S.subs, r.length = S.shape.length := fun r hr => (hS.inb r hr).length_eq
  refine ⟨_, Sparse.reshape_none_eq S s' hn hlen, rfl, ?_⟩
  rw [Sparse.reshape_none_eq _ S.shape hn.symm (by
    intro r hr
    obtain ⟨r0, _, rfl⟩ := List.mem_map.1 hr
    exact ind2sub_length _ _)]
  have hsub : (S.subs.map (fun r => ind2sub s' (sub2ind S.shape r))).map
      (fun r => ind2sub S.shape (sub2ind s' r)) = S.subs := by
    rw [List.map_map]
    conv => rhs; rw [← List.map_id S.subs]
    apply List.map_congr_left
    intro r hr
    have hrb := hS.inb r hr
    have hlt : sub2ind S.shape r < numel s' := by rw [hn]; exact sub2ind_lt hrb
    simp only [Function.comp, id, sub2ind_ind2sub hlt, ind2sub_sub2ind hrb]
  simp only [hsub]

/-! ### partial sparse reshape and back -/
theorem range_split (k L : Nat) : List.range (k + L) = List.range k ++ List.range' k L := by
  rw [List.range_eq_range', List.range_eq_range']
  have := List.range'_append (s := 0) (m := k) (n := L) (step := 1)
  simpa using this.symm

theorem complDims_range' (k L : Nat) : complDims (k + L) (List.range' k L) = List.range k := by
  unfold complDims
  rw [range_split, List.filter_append]
  have h1 : (List.range k).filter (fun x => !(List.range' k L).contains x) = List.range k := by
    rw [List.filter_eq_self]
    intro x hx
    have := List.mem_range.1 hx
    simp [List.mem_range'_1]; omega
  have h2 : (List.range' k L).filter (fun x => !(List.range' k L).contains x) = [] := by
    rw [List.filter_eq_nil_iff]
    intro x hx
    simp [hx]
  rw [h1, h2, List.append_nil]

theorem gather_append_left (a b : List Nat) (k : Nat) (hk : a.length = k) :
    gather (a ++ b) (List.range k) = a := by
  subst hk
  conv => rhs; rw [← gather_range a]
  apply gather_congr
  intro x hx
  have := List.mem_range.1 hx
  simp [List.getD_eq_getElem?_getD, List.getElem?_append_left this]

theorem gather_append_right (a b : List Nat) (k L : Nat) (hk : a.length = k) (hL : b.length = L) :
    gather (a ++ b) (List.range' k L) = b := by
  subst hk hL
  conv => rhs; rw [← gather_range b]
  rw [List.range'_eq_map_range]
  unfold gather
  rw [List.map_map]
  apply List.map_congr_left
  intro x hx
  simp [List.getD_eq_getElem?_getD, List.getElem?_append_right]

/-- the identity order changes nothing (stored form). -/
theorem permute_id_sparse (S : Sparse α) (hS : ∀ r ∈ S.subs, r.length = S.shape.length) :
    S.permute (List.range S.shape.length) = .ok S := by
  have hsub : S.subs.map (fun r => gather r (List.range S.shape.length)) = S.subs := by
    conv => rhs; rw [← List.map_id S.subs]
    apply List.map_congr_left
    intro r hr
    exact gather_range_of_length (hS r hr)
  simp only [Sparse.permute, isPermOf_range, hsub, gather_range]
  rfl

theorem sp_reshape_partial_back [Zero α] [BEq α] (S : Sparse α) (s' om : List Nat) (hS : S.WF)
    (hom : om.Nodup ∧ ∀ m ∈ om, m < S.shape.length) (hn : numel s' = numel (gather S.shape om)) :
    ∃ P Q, S.reshape s' (some om) = .ok P ∧
      P.reshape (gather S.shape om)
        (some (List.range' (complDims S.shape.length om).length s'.length)) = .ok Q ∧
      S.permute (complDims S.shape.length om ++ om) = .ok Q ∧
      (complDims S.shape.length om ++ om = List.range S.shape.length → Q = S) := by
  set keep := complDims S.shape.length om with hkeep
  set k := keep.length with hk
  have hperm : isPermOf (keep ++ om) S.shape.length = true :=
    ML.isPermOf_compl_append S.shape.length om hom.1 hom.2
  have hlenS : ∀ r ∈ S.subs, r.length = S.shape.length := fun r hr => (hS.inb r hr).length_eq
  let Q : Sparse α := ⟨gather S.shape (keep ++ om), S.subs.map (fun r => gather r (keep ++ om)), S.vals⟩
  refine ⟨_, Q, Sparse.reshape_some_eq S s' om hom hn, ?_, by simp [Sparse.permute, hperm, Q], ?_⟩
  · have hPlen : (gather S.shape keep ++ s').length = k + s'.length := by simp [hk]
    have hsh : gather (gather S.shape keep ++ s') (List.range' k s'.length) = s' :=
      gather_append_right _ _ _ _ (by simp [hk]) rfl
    rw [Sparse.reshape_some_eq _ (gather S.shape om) (List.range' k s'.length)
      ⟨List.nodup_range' .., by
        intro m hm
        show m < (gather S.shape keep ++ s').length
        rw [hPlen]
        have := List.mem_range'_1.1 hm
        omega⟩
      (by show numel (gather S.shape om) = numel (gather (gather S.shape keep ++ s') _)
          rw [hsh, hn])]
    show Except.ok (⟨gather (gather S.shape keep ++ s') (complDims (gather S.shape keep ++ s').length
      (List.range' k s'.length)) ++ gather S.shape om, _, S.vals⟩ : Sparse α) = .ok Q
    rw [hPlen, complDims_range', gather_append_left _ _ _ (by simp [hk]), hsh, ← gather_append]
    congr 2
    rw [List.map_map]
    apply List.map_congr_left
    intro r hr
    have hrb := hS.inb r hr
    have hro := hrb.gather hom.2
    have hlt : sub2ind (gather S.shape om) (gather r om) < numel s' := by rw [hn]; exact sub2ind_lt hro
    simp only [Function.comp]
    rw [gather_append_left _ _ _ (length_gather _ _),
      gather_append_right _ _ _ _ (length_gather _ _) (ind2sub_length _ _), sub2ind_ind2sub hlt,
      ind2sub_sub2ind hro, ← gather_append]
  · intro h
    have := permute_id_sparse S hlenS
    rw [← h] at this
    simp only [Sparse.permute, hperm] at this
    injection this

/-! ### sparse reshape keeps well-formedness -/

theorem reshape_all_wf_sparse [Zero α] [BEq α] (S : Sparse α) (s' : List Nat) (hS : S.WF)
    (hn : numel s' = numel S.shape) : ∃ P, S.reshape s' none = .ok P ∧ P.WF := by
  refine ⟨_, Sparse.reshape_none_eq S s' hn (fun r hr => (hS.inb r hr).length_eq), ?_⟩
  refine ⟨by simpa using hS.len, ?_, ?_, hS.nz⟩
  · intro i hi
    obtain ⟨r, hr, rfl⟩ := List.mem_map.1 hi
    exact ind2sub_inBounds (by rw [hn]; exact sub2ind_lt (hS.inb r hr))
  · show (S.subs.map _).Nodup
    rw [List.Nodup, List.pairwise_map]
    refine List.Pairwise.imp_of_mem ?_ hS.nodup
    intro a b ha hb hab hg
    have hab' := hS.inb a ha
    have hbb := hS.inb b hb
    exact hab (sub2ind_inj hab' hbb (ind2sub_inj (by rw [hn]; exact sub2ind_lt hab')
      (by rw [hn]; exact sub2ind_lt hbb) hg))

theorem reshape_partial_wf_sparse [Zero α] [BEq α] (S : Sparse α) (s' om : List Nat) (hS : S.WF)
    (hom : om.Nodup ∧ ∀ m ∈ om, m < S.shape.length) (hn : numel s' = numel (gather S.shape om)) :
    ∃ P, S.reshape s' (some om) = .ok P ∧ P.WF := by
  refine ⟨_, Sparse.reshape_some_eq S s' om hom hn, ?_⟩
  refine ⟨by simpa using hS.len, ?_, ?_, hS.nz⟩
  · intro i hi
    obtain ⟨r, hr, rfl⟩ := List.mem_map.1 hi
    have hrb := hS.inb r hr
    exact InBounds_append (hrb.gather (fun k hk => (mem_complDims.1 hk).1))
      (ind2sub_inBounds (by rw [hn]; exact sub2ind_lt (hrb.gather hom.2)))
  · show (S.subs.map _).Nodup
    rw [List.Nodup, List.pairwise_map]
    refine List.Pairwise.imp_of_mem ?_ hS.nodup
    intro a b ha hb hab hg
    apply hab
    have hab' := hS.inb a ha
    have hbb := hS.inb b hb
    have hao := hab'.gather hom.2
    have hbo := hbb.gather hom.2
    obtain ⟨hk, ho⟩ := List.append_inj hg (by simp)
    have ho2 := ind2sub_inj (by rw [hn]; exact sub2ind_lt hao) (by rw [hn]; exact sub2ind_lt hbo) ho
    have ho3 := sub2ind_inj hao hbo ho2
    apply ext_getD (by rw [hab'.length_eq, hbb.length_eq])
    intro k hk'
    rw [hab'.length_eq] at hk'
    by_cases hmem : k ∈ om
    · exact getD_eq_of_gather_eq ho3 hmem
    · exact getD_eq_of_gather_eq hk (mem_complDims.2 ⟨hk', hmem⟩)


/-! ### each holder's `permute` is the permutation of the array it denotes -/

theorem permute_den_dense [Zero α] (T : Dense α) (p : List Nat) (hT : T.WF)
    (hp : isPermOf p T.shape.length = true) :
    ∃ P, T.permute p = .ok P ∧ P.WF ∧ P.den.Same (Spec.permute T.den p) :=
  ⟨T.transpose p, Dense.permute_eq_transpose T p hT hp, Dense.transpose_WF T p,
    ⟨rfl, fun _ hj => Dense.transpose_get T p hj⟩⟩

theorem permute_den_sparse [Add α] [Zero α] (S : Sparse α) (p : List Nat)
    (hp : isPermOf p S.shape.length = true) (hS : ∀ r ∈ S.subs, r.length = S.shape.length) :
    ∃ P, S.permute p = .ok P ∧ P.den.Same (Spec.permute S.den p) := by
  have hl := isPermOf_length_eq hp
  refine ⟨⟨gather S.shape p, S.subs.map (fun r => gather r p), S.vals⟩, by simp [Sparse.permute, hp],
    rfl, ?_⟩
  intro j hj
  have hjl : j.length = S.shape.length := by
    rw [hj.length_eq]; show (gather S.shape p).length = _; rw [length_gather, hl]
  show (⟨gather S.shape p, S.subs.map (fun r => gather r p), S.vals⟩ : Sparse α).get j =
    S.get (gather j (invPerm p))
  apply Sparse.get_map_subs
  intro r hr
  exact gather_eq_iff hp (hS r hr) hjl

theorem permute_den_ktensor [CommSemiring α] (K : Ktensor α) (p : List Nat)
    (hp : isPermOf p K.factors.length = true) :
    ∃ P, K.permute p = .ok P ∧ P.den.Same (Spec.permute K.den p) := by
  have hl := isPermOf_length_eq hp
  have hP : K.permute p = .ok ⟨K.weights, gatherD K.factors p []⟩ := by simp [Ktensor.permute, hp]
  refine ⟨_, hP, shape_gatherD K.factors p, ?_⟩
  intro j hj
  have hjl : j.length = K.factors.length := by
    rw [hj.length_eq]; show ((gatherD K.factors p []).map List.length).length = _
    rw [List.length_map, length_gatherD, hl]
  obtain ⟨P', h1, _, _, h4⟩ := permute_at_ktensor K p hp j hjl
  rw [hP] at h1
  injection h1 with h1
  subst h1
  exact h4

theorem permute_den_ttensor [CommSemiring α] (T : Ttensor α) (p : List Nat) (hc : T.core.WF)
    (hlen : T.factors.length = T.core.shape.length) (hp : isPermOf p T.factors.length = true) :
    ∃ P, T.permute p = .ok P ∧ P.den.Same (Spec.permute T.den p) := by
  have hl := isPermOf_length_eq hp
  have hP := Ttensor.permute_eq T p hc hlen hp
  refine ⟨_, hP, shape_gatherD T.factors p, ?_⟩
  intro j hj
  have hjl : j.length = T.factors.length := by
    rw [hj.length_eq]; show ((gatherD T.factors p []).map List.length).length = _
    rw [List.length_map, length_gatherD, hl]
  obtain ⟨P', h1, _, _, _, _, h4⟩ := permute_at_ttensor T p hc hlen hp j hjl
  rw [hP] at h1
  injection h1 with h1
  subst h1
  exact h4

/-- Holders of one array: the four `permute`s all succeed and all denote the permuted array. -/
theorem permute_agree [CommSemiring α] (X : Den α) (D : Dense α) (S : Sparse α) (K : Ktensor α)
    (T : Ttensor α) (p : List Nat) (hD : D.WF) (hS : ∀ r ∈ S.subs, r.length = S.shape.length)
    (hTc : T.core.WF) (hTl : T.factors.length = T.core.shape.length)
    (hDX : D.den.Same X) (hSX : S.den.Same X) (hKX : K.den.Same X) (hTX : T.den.Same X)
    (hp : isPermOf p X.shape.length = true) :
    ∃ PD PS PK PT, D.permute p = .ok PD ∧ S.permute p = .ok PS ∧ K.permute p = .ok PK ∧
      T.permute p = .ok PT ∧ PD.den.Same (Spec.permute X p) ∧ PS.den.Same (Spec.permute X p) ∧
      PK.den.Same (Spec.permute X p) ∧ PT.den.Same (Spec.permute X p) := by
  have hpD : isPermOf p D.shape.length = true := by
    have : D.shape = X.shape := hDX.shape
    rw [this]; exact hp
  have hpS : isPermOf p S.shape.length = true := by
    have : S.shape = X.shape := hSX.shape
    rw [this]; exact hp
  have hpK : isPermOf p K.factors.length = true := by
    have : K.shape = X.shape := hKX.shape
    have := congrArg List.length this
    simp only [Ktensor.shape, List.length_map] at this
    rw [this]; exact hp
  have hpT : isPermOf p T.factors.length = true := by
    have : T.shape = X.shape := hTX.shape
    have := congrArg List.length this
    simp only [Ttensor.shape, List.length_map] at this
    rw [this]; exact hp
  obtain ⟨PD, e1, _, s1⟩ := permute_den_dense D p hD hpD
  obtain ⟨PS, e2, s2⟩ := permute_den_sparse S p hpS hS
  obtain ⟨PK, e3, s3⟩ := permute_den_ktensor K p hpK
  obtain ⟨PT, e4, s4⟩ := permute_den_ttensor T p hTc hTl hpT
  refine ⟨PD, PS, PK, PT, e1, e2, e3, e4, s1.trans (Spec.permute_congr hDX p hpD),
    s2.trans (Spec.permute_congr hSX p hpS), s3.trans (Spec.permute_congr hKX p ?_),
    s4.trans (Spec.permute_congr hTX p ?_)⟩
  · have : K.den.shape = X.shape := hKX.shape
    rw [this]; exact hp
  · have : T.den.shape = X.shape := hTX.shape
    rw [this]; exact hp

/-! ### reshape: dense and sparse holders agree -/

theorem reshape_den_dense [Zero α] (T : Dense α) (s' : List Nat) (hT : T.WF)
    (hn : numel s' = numel T.shape) :
    ∃ P, T.reshape s' = .ok P ∧ P.WF ∧ P.den.Same (Spec.reshape T.den s') := by
  have hP : T.reshape s' = .ok ⟨s', T.data⟩ := by simp [Dense.reshape, hn]
  refine ⟨_, hP, by simp only [Dense.WF, hn]; exact hT, rfl, ?_⟩
  intro j hj
  obtain ⟨P', h1, _, _, h4⟩ := reshape_at_dense T s' hT hn j hj
  rw [hP] at h1
  injection h1 with h1
  subst h1
  exact h4

theorem reshape_den_sparse [Add α] [Zero α] [BEq α] (S : Sparse α) (s' : List Nat) (hS : S.WF)
    (hn : numel s' = numel S.shape) :
    ∃ P, S.reshape s' none = .ok P ∧ P.den.Same (Spec.reshape S.den s') := by
  have hP := Sparse.reshape_none_eq S s' hn (fun r hr => (hS.inb r hr).length_eq)
  refine ⟨_, hP, rfl, ?_⟩
  intro j hj
  obtain ⟨P', h1, _, _, h4⟩ := reshape_at_sparse S s' hS hn j hj
  rw [hP] at h1
  injection h1 with h1
  subst h1
  exact h4

theorem reshape_agree_dense_sparse [Add α] [Zero α] [BEq α] (X : Den α) (D : Dense α) (S : Sparse α)
    (s' : List Nat) (hD : D.WF) (hS : S.WF) (hDX : D.den.Same X) (hSX : S.den.Same X)
    (hn : numel s' = numel X.shape) :
    ∃ PD PS, D.reshape s' = .ok PD ∧ S.reshape s' none = .ok PS ∧
      PD.den.Same (Spec.reshape X s') ∧ PS.den.Same (Spec.reshape X s') := by
  have hsD : D.shape = X.shape := hDX.shape
  have hsS : S.shape = X.shape := hSX.shape
  obtain ⟨PD, e1, _, s1⟩ := reshape_den_dense D s' hD (by rw [hsD]; exact hn)
  obtain ⟨PS, e2, s2⟩ := reshape_den_sparse S s' hS (by rw [hsS]; exact hn)
  exact ⟨PD, PS, e1, e2, s1.trans (Spec.reshape_congr hDX s' (by rw [← hsD] at hn; exact hn)),
    s2.trans (Spec.reshape_congr hSX s' (by rw [← hsS] at hn; exact hn))⟩


/-! ### squeeze: dense and sparse holders agree -/

/-- every subscript of the squeezed shape comes from a subscript of the full shape. -/
theorem exists_dropSingletons {s j : List Nat} (hpos : ∀ e ∈ s, 1 ≤ e)
    (hj : InBounds (s.filter (· > 1)) j) : ∃ i, InBounds s i ∧ dropSingletons s i = j := by
  induction s generalizing j with
  | nil =>
    cases j with
    | nil => exact ⟨[], trivial, rfl⟩
    | cons b j => simp [InBounds] at hj
  | cons a s ih =>
    have hpos' : ∀ e ∈ s, 1 ≤ e := fun e he => hpos e (by simp [he])
    by_cases ha : a > 1
    · rw [List.filter_cons_of_pos (by simpa using ha)] at hj
      cases j with
      | nil => simp [InBounds] at hj
      | cons b j =>
        simp only [InBounds] at hj
        obtain ⟨i, hi, hd⟩ := ih hpos' hj.2
        refine ⟨b :: i, ⟨hj.1, hi⟩, ?_⟩
        rw [dropSingletons_cons, if_pos ha, hd]
    · rw [List.filter_cons_of_neg (by simpa using ha)] at hj
      obtain ⟨i, hi, hd⟩ := ih hpos' hj
      have h1 := hpos a (by simp)
      refine ⟨0 :: i, ⟨by omega, hi⟩, ?_⟩
      rw [dropSingletons_cons, if_neg ha, hd]

theorem inBounds_zeros_of_pos {s : List Nat} (hpos : ∀ e ∈ s, 1 ≤ e) : InBounds s (s.map (fun _ => 0)) := by
  induction s with
  | nil => trivial
  | cons a s ih =>
    exact ⟨hpos a (by simp), ih (fun e he => hpos e (by simp [he]))⟩

/-- the positions of the non-singleton modes, gathered from the shape, are the extents > 1. -/
theorem gather_nonsingleton_shape (s : List Nat) :
    gather s ((List.range s.length).filter (fun k => s.getD k 0 > 1)) = s.filter (· > 1) := by
  rw [gather_nonsingleton_idx s s rfl, dropSingletons_self]

theorem nonsingleton_idx_nil_iff (s : List Nat) :
    (List.range s.length).filter (fun k => s.getD k 0 > 1) = [] ↔ s.filter (· > 1) = [] := by
  have h := congrArg List.length (gather_nonsingleton_shape s)
  rw [length_gather] at h
  constructor
  · intro e; rw [e] at h; exact List.length_eq_zero_iff.1 h.symm
  · intro e; rw [e] at h; exact List.length_eq_zero_iff.1 h

/-- Holders of one array: `squeeze` gives a scalar for both or an object for both, the scalars are
equal and the objects denote the same array. -/
theorem squeeze_agree_dense_sparse [AddMonoid α] [BEq α] (D : Dense α) (S : Sparse α) (hD : D.WF)
    (hS : S.WF) (hpos : ∀ e ∈ D.shape, 1 ≤ e) (hSD : S.den.Same D.den) :
    match D.squeeze, S.squeeze with
    | .scalar v, .ok (.scalar w) => v = w
    | .obj PD, .ok (.obj PS) => PS.den.Same PD.den
    | _, _ => False := by
  have hshape : S.shape = D.shape := hSD.shape
  have h1 := squeeze_at_dense D hD hpos
  have h2 := squeeze_at_sparse S hS (by rw [hshape]; exact hpos)
  by_cases hall : D.shape.all (· > 1) = true
  · have e1 : D.squeeze = .obj D := by simp only [Dense.squeeze, hall, if_true]
    have e2 : S.squeeze = .ok (.obj S) := by
      simp only [Sparse.squeeze, Sparse.squeezeG, hshape, hall, if_true]
    rw [e1, e2]; exact hSD
  · by_cases hk : D.shape.filter (· > 1) = []
    · have e1 : D.squeeze = .scalar (D.data.getD 0 0) := by
        simp only [Dense.squeeze, hall, hk]; simp
      have hidx := (nonsingleton_idx_nil_iff S.shape).2 (by rw [hshape]; exact hk)
      rw [e1] at h1
      rcases hq : S.squeeze with e | (w | PS)
      · rw [hq] at h2; exact h2.elim
      · rw [hq] at h2
        rw [e1]
        show D.data.getD 0 0 = w
        rw [h1.2, h2.2, hshape]
        exact (hSD.get _ (by show InBounds S.shape _; rw [hshape]; exact inBounds_zeros_of_pos hpos)).symm
      · exfalso
        simp only [Sparse.squeeze, Sparse.squeezeG, hshape, hall] at hq
        rw [← hshape] at hq
        simp only [hidx] at hq
        rcases hsv : S.vals with _ | ⟨v, _ | ⟨w, vs⟩⟩ <;> simp [hsv] at hq
    · have e1 : D.squeeze = .obj ⟨D.shape.filter (· > 1), D.data⟩ := by
        simp only [Dense.squeeze, hall]; simp [hk]
      have hidx : ¬ (List.range S.shape.length).filter (fun k => S.shape.getD k 0 > 1) = [] :=
        fun e => hk (by rw [← hshape]; exact (nonsingleton_idx_nil_iff S.shape).1 e)
      rw [e1] at h1
      rcases hq : S.squeeze with e | (w | PS)
      · rw [hq] at h2; exact h2.elim
      · exfalso
        have hidx' : ((List.range S.shape.length).filter (fun k => S.shape.getD k 0 > 1)).isEmpty
            = false := by simpa using hidx
        have hall' : ¬ S.shape.all (· > 1) = true := by rw [hshape]; exact hall
        simp only [Sparse.squeeze, Sparse.squeezeG, hall', hidx', Bool.false_eq_true, if_false] at hq
        cases hq
      · rw [hq] at h2
        rw [e1]
        show PS.den.Same (Dense.den ⟨D.shape.filter (· > 1), D.data⟩)
        refine ⟨by show PS.shape = _; rw [h2.1, hshape]; rfl, ?_⟩
        intro j hj
        have hj' : InBounds (D.shape.filter (· > 1)) j := by
          have : PS.den.shape = D.shape.filter (· > 1) := by show PS.shape = _; rw [h2.1, hshape]
          rw [← this]; exact hj
        obtain ⟨i, hi, rfl⟩ := exists_dropSingletons hpos hj'
        show PS.get (dropSingletons D.shape i) = Dense.get _ (dropSingletons D.shape i)
        rw [h1.2.2.2 i hi, ← hshape, h2.2.2 i (by rw [hshape]; exact hi)]
        exact hSD.get i (by show InBounds S.shape i; rw [hshape]; exact hi)

/-! ### sparse tensors with nothing stored (the code returns early for these) -/

theorem permute_empty_sparse (s p : List Nat) (hp : isPermOf p s.length = true) :
    (⟨s, [], []⟩ : Sparse α).permute p = .ok ⟨gather s p, [], []⟩ := by
  simp [Sparse.permute, hp]

theorem reshape_empty_sparse (s s' : List Nat) (hn : numel s' = numel s) :
    (⟨s, [], []⟩ : Sparse α).reshape s' none = .ok ⟨s', [], []⟩ := by
  rw [Sparse.reshape_none_eq _ s' hn (by intro r hr; simp at hr)]
  rfl

theorem reshape_partial_empty_sparse (s s' om : List Nat) (hom : om.Nodup ∧ ∀ m ∈ om, m < s.length)
    (hn : numel s' = numel (gather s om)) :
    (⟨s, [], []⟩ : Sparse α).reshape s' (some om) =
      .ok ⟨gather s (complDims s.length om) ++ s', [], []⟩ := by
  rw [Sparse.reshape_some_eq _ s' om hom hn]
  rfl

theorem squeeze_empty_sparse [Zero α] (s : List Nat) :
    (⟨s, [], []⟩ : Sparse α).squeeze =
      if s.all (· > 1) then .ok (.obj ⟨s, [], []⟩)
      else if s.filter (· > 1) = [] then .ok (.scalar 0)
      else .ok (.obj ⟨s.filter (· > 1), [], []⟩) := by
  by_cases hall : s.all (· > 1) = true
  · simp only [Sparse.squeeze, Sparse.squeezeG, hall, if_true]
  · by_cases hk : s.filter (· > 1) = []
    · have hidx := (nonsingleton_idx_nil_iff s).2 hk
      simp only [Sparse.squeeze, Sparse.squeezeG, hall, hidx, hk]; simp
    · have hidx : ((List.range s.length).filter (fun k => s.getD k 0 > 1)).isEmpty = false := by
        have := fun e => hk ((nonsingleton_idx_nil_iff s).1 e)
        simpa using this
      simp only [Sparse.squeeze, Sparse.squeezeG, hall, hidx, hk, gather_nonsingleton_shape]
      simp


end Pyttb
