/-
C06 for sparse indexing (`sptensor.__getitem__` / `__setitem__`, property C04's models and
refinement): reordering the stored entries of the tensor changes neither what a read returns
nor the array after a write; writes keep the tensor well-formed.
-/
import PyttbModel.Lemmas.SparseOrderML
import PyttbModel.Lemmas.MutArrayCor
namespace Pyttb
variable {α β : Type}

theorem indexing_perm [AddCommMonoid α] [DecidableEq α] (S S' : Sparse α) (hS : S.WF) (rS : Reorder S' S)
    (op : IdxOp α) (hp : op.provedAtSparse S.shape = true) :
    (S'.step op).2 = (S.step op).2 ∧ (S.step op).1.WF ∧ (S'.step op).1.WF ∧
      Reorder (S'.step op).1 (S.step op).1 := by
  have h : SRel S ⟨S.shape, S.get⟩ := SRel.ofSparse S hS
  have h' : SRel S' ⟨S.shape, S.get⟩ := ⟨wf_perm rS hS, rS.1, fun i => (denote_perm rS i).trans (h.cell i)⟩
  obtain ⟨r1, o1⟩ := Sparse.step_refines h op hp
  obtain ⟨r2, o2⟩ := Sparse.step_refines h' op (by rw [rS.1]; exact hp)
  refine ⟨by rw [o1, o2], r1.wf, r2.wf, ?_⟩
  apply reorder_of_get_eq _ _ r1.wf r2.wf (by rw [r1.shape, r2.shape])
  intro i _
  rw [r1.cell i, r2.cell i]

/-! ### the sptenmat constructor (`copy=True`): duplicates summed, zero sums dropped -/

section sptenmat
variable [AddMonoid α] [DecidableEq α]

theorem mkCopy_eq (subs : List (List Nat)) (vals : List α) (r c ts : List Nat) (M : Sptenmat α)
    (h : Sptenmat.mkCopy subs vals r c ts = .ok M) :
    M.tshape = ts ∧ M.rdims = r ∧ M.cdims = c ∧
    M.subs = (ML.fromAggregator subs vals M.mshape List.sum).subs ∧
    M.vals = (ML.fromAggregator subs vals M.mshape List.sum).vals ∧
    ∀ row ∈ subs, InBounds M.mshape row := by
  unfold Sptenmat.mkCopy at h
  by_cases h1 : (!isPermOf (r ++ c) ts.length) = true
  · simp [h1] at h
  by_cases h2 : (subs.any fun r => r.length != 2) = true
  · simp [h1, h2] at h
  by_cases h3 : (subs.length != vals.length) = true
  · simp [h1, h2, h3] at h
  by_cases h4 : (subs.any fun row => decide (row.getD 0 0 ≥ numel (gather ts r))) = true
  · simp only [h1, h2, h3, h4, Bool.false_eq_true, ↓reduceIte] at h
    cases h
  by_cases h5 : (subs.any fun row => decide (row.getD 1 0 ≥ numel (gather ts c))) = true
  · simp only [h1, h2, h3, h4, h5, Bool.false_eq_true, ↓reduceIte] at h
    cases h
  simp only [h1, h2, h3, h4, h5, Bool.false_eq_true, ↓reduceIte, Except.ok.injEq] at h
  subst h
  refine ⟨rfl, rfl, rfl, rfl, rfl, ?_⟩
  intro row hrow
  simp only [List.any_eq_true, not_exists, not_and, Bool.not_eq_true, bne_iff_ne, ne_eq, not_not,
    decide_eq_true_eq, decide_eq_false_iff_not, Nat.not_le] at h2 h4 h5
  have l2 := h2 row hrow
  have b0 := h4 row hrow
  have b1 := h5 row hrow
  obtain ⟨x, y, rfl⟩ : ∃ x y, row = [x, y] := by
    match row, l2 with
    | [x, y], _ => exact ⟨x, y, rfl⟩
  simp only [List.getD_cons_zero, List.getD_cons_succ] at b0 b1
  exact ⟨b0, b1, trivial⟩

/-- the matrix stored by the constructor is well-formed when the given (row, column) pairs lie
inside the matrix (the constructor of the code checks this; repeated pairs are summed, zero
sums dropped). -/
theorem mkCopy_wf (subs : List (List Nat)) (vals : List α) (r c ts : List Nat) (M : Sptenmat α)
    (h : Sptenmat.mkCopy subs vals r c ts = .ok M) :
    Sparse.WF (⟨M.mshape, M.subs, M.vals⟩ : Sparse α) ∧
    ∀ i, Sparse.get (⟨M.mshape, M.subs, M.vals⟩ : Sparse α) i = kvSum (subs.zip vals) i := by
  obtain ⟨_, _, _, e1, e2, hin⟩ := mkCopy_eq subs vals r c ts M h
  have hw := mlAgg_wf subs vals M.mshape List.sum hin
  have hg := ML.fromAggregator_get subs vals M.mshape
  have : (⟨M.mshape, M.subs, M.vals⟩ : Sparse α) = ML.fromAggregator subs vals M.mshape List.sum := by
    rw [e1, e2]; rfl
  rw [this]
  exact ⟨hw, hg⟩

/-- listing the same (row, column, value) triples in another order gives the same stored matrix
entries up to order. -/
theorem mkCopy_perm [AddCommMonoid β] [DecidableEq β] (subs subs' : List (List Nat)) (vals vals' : List β)
    (r c ts : List Nat) (M M' : Sptenmat β)
    (h : Sptenmat.mkCopy subs vals r c ts = .ok M) (h' : Sptenmat.mkCopy subs' vals' r c ts = .ok M')
    (hp : (subs'.zip vals').Perm (subs.zip vals)) :
    Reorder (⟨M'.mshape, M'.subs, M'.vals⟩ : Sparse β) ⟨M.mshape, M.subs, M.vals⟩ := by
  obtain ⟨w, g⟩ := mkCopy_wf subs vals r c ts M h
  obtain ⟨w', g'⟩ := mkCopy_wf subs' vals' r c ts M' h'
  obtain ⟨t1, t2, t3, _, _, _⟩ := mkCopy_eq subs vals r c ts M h
  obtain ⟨t1', t2', t3', _, _, _⟩ := mkCopy_eq subs' vals' r c ts M' h'
  have hsh : M'.mshape = M.mshape := by unfold Sptenmat.mshape; rw [t1, t2, t3, t1', t2', t3']
  apply reorder_of_get_eq _ _ w w' hsh
  intro i _
  rw [g i, g' i, kvSum_perm hp]

end sptenmat

end Pyttb
