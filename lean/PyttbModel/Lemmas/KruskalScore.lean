/-
C08 lemmas: whatever `score` returns is the receiver, normalised and with its components
permuted by the returned matching.
-/
import PyttbModel.Lemmas.KruskalNormalize
set_option linter.unusedSectionVars false
namespace Pyttb
namespace Ktensor

variable {α : Type}

section field
variable [Field α] [LinearOrder α] [IsStrictOrderedRing α]

theorem asPerm_some' {p : List Int} {R : Nat} {q : List Nat} (h : asPerm p R = some q) :
    q = p.map Int.toNat ∧ isPermOf (p.map Int.toNat) R = true ∧ ∀ k ∈ p, 0 ≤ k := by
  unfold asPerm at h
  split at h
  · rename_i hc
    injection h with h
    simp only [Bool.and_eq_true, List.all_eq_true, decide_eq_true_eq] at hc
    exact ⟨h.symm, hc.2, hc.1⟩
  · cases h

theorem scoreMatrix_fst (S : Services α) (K other : Ktensor α) (wp : Bool) {A B : Ktensor α} {C : Mat α}
    (h : scoreMatrix S K other wp = .ok (A, B, C)) :
    normalize S K none false .two none = .ok A := by
  unfold scoreMatrix at h
  split at h
  · rename_i A' B' hA hB
    injection h with h
    have hK : K.copy = K := rfl
    rw [hK] at hA
    rw [hA]
    congr 1
    exact (Prod.mk.inj h).1
  · cases h

theorem score_denote {S : Services α} (hS : S.Lawful) (ten : α) (thr : Nat → α) (nc : Nat → α)
    (K other : Ktensor α) (wp : Bool) (t : Option α) {r : ScoreResult α}
    (h : score S ten thr nc K other wp t = .ok r) :
    isPermOf (r.perm.map Int.toNat) K.ncomp = true ∧ (∀ k ∈ r.perm, 0 ≤ k) ∧
    r.A.ncomp = K.ncomp ∧ r.A.shape = K.shape ∧
      ∀ i : List Nat, i.length = K.factors.length → r.A.get i = K.get i := by
  unfold score at h
  split at h
  · cases h
  · simp only at h
    split at h
    · cases h
    · split at h
      · cases h
      · split at h
        · cases h
        · rename_i A B C1 hM
          have hA := scoreMatrix_fst S K other wp hM
          have r1 := normalize_reparam hS K none false .two none hA
          split at h
          · cases h
          · split at h
            · rename_i A' hArr
              injection h with h
              subst h
              simp only
              -- the permutation was accepted by `arrange`
              unfold arrange at hArr
              simp only at hArr
              split at hArr
              · rename_i q hq
                injection hArr with hArr
                subst hArr
                obtain ⟨rfl, hp, hnn⟩ := asPerm_some' hq
                have r2 := permuteComps_reparam A _ hp
                have r := r1.trans r2
                exact ⟨by rw [← r1.ncomp]; exact hp, hnn, r.ncomp, r.shape, r.get⟩
              · cases hArr
            · cases h

end field
end Ktensor
end Pyttb
