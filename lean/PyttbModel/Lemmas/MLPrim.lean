/-
C02 — entry-wise characterisation of the NumPy primitives used by the kernels
(F-order reshape to a matrix, matmul, dot, transpose, F-order ravel).
-/
import PyttbModel.Lemmas.MLSums
import PyttbModel.Lemmas.KhatriRao
import PyttbModel.Ops.MultilinearDense
namespace Pyttb
namespace ML

variable {α : Type}

theorem getD_map_range {β : Type} (f : Nat → β) (n k : Nat) (d : β) (h : k < n) :
    ((List.range n).map f).getD k d = f k := by
  simp [List.getD_eq_getElem?_getD, List.getElem?_map, List.getElem?_range h]

/-- Entry of a tabulated matrix. -/
theorem get_tab [Zero α] (m n : Nat) (f : Nat → Nat → α) (a b : Nat) (ha : a < m) (hb : b < n) :
    Mat.get ((List.range m).map fun a => (List.range n).map fun b => f a b) a b = f a b := by
  unfold Mat.get
  rw [getD_map_range _ _ _ _ ha, getD_map_range _ _ _ _ hb]

theorem length_tab {β : Type} (m : Nat) (f : Nat → β) : ((List.range m).map f).length = m := by simp

theorem reshape2_get [Zero α] (data : List α) (m n a b : Nat) (ha : a < m) (hb : b < n) :
    (reshape2 data m n).get a b = data.getD (a + m * b) 0 := get_tab m n _ a b ha hb

theorem mulD_get [Add α] [Mul α] [Zero α] (A B : Mat α) (m k n a b : Nat) (ha : a < m) (hb : b < n) :
    (A.mulD B m k n).get a b = sumRange k fun c => A.get a c * B.get c b := get_tab m n _ a b ha hb

theorem tr_get [Zero α] (A : Mat α) (m n a b : Nat) (ha : a < m) (hb : b < n) :
    (A.tr m n).get b a = A.get a b := get_tab n m _ b a hb ha

theorem mulVec_getD [Add α] [Mul α] [Zero α] (A : Mat α) (v : List α) (m k a : Nat) (ha : a < m) :
    (A.mulVec v m k).getD a 0 = sumRange k fun c => A.get a c * v.getD c 0 :=
  getD_map_range _ _ _ _ ha

theorem length_mulVec [Add α] [Mul α] [Zero α] (A : Mat α) (v : List α) (m k : Nat) :
    (A.mulVec v m k).length = m := by simp [Mat.mulVec]

theorem length_flatF [Zero α] (A : Mat α) (m n : Nat) : (A.flatF m n).length = m * n := by
  unfold Mat.flatF
  induction n with
  | zero => simp
  | succ n ih =>
    rw [List.range_succ, List.flatMap_append, List.length_append, ih]
    simp [Nat.mul_succ]

theorem flatF_getD [Zero α] (A : Mat α) (m n a b : Nat) (ha : a < m) (hb : b < n) :
    (A.flatF m n).getD (a + m * b) 0 = A.get a b := by
  unfold Mat.flatF
  induction n generalizing b with
  | zero => omega
  | succ n ih =>
    rw [List.range_succ, List.flatMap_append]
    have hlen : ((List.range n).flatMap fun b => (List.range m).map fun a => A.get a b).length = m * n :=
      length_flatF A m n
    by_cases hbn : b < n
    · rw [List.getD_eq_getElem?_getD, List.getElem?_append_left, ← List.getD_eq_getElem?_getD]
      · exact ih b hbn
      · rw [hlen]
        calc a + m * b < m + m * b := by omega
          _ = m * (b + 1) := by rw [Nat.mul_succ]; omega
          _ ≤ m * n := Nat.mul_le_mul_left m hbn
    · have hb' : b = n := by omega
      subst hb'
      rw [List.getD_eq_getElem?_getD, List.getElem?_append_right (by rw [hlen]; omega), hlen]
      simp only [List.flatMap_cons, List.flatMap_nil, List.append_nil]
      rw [show a + m * b - m * b = a by omega, ← List.getD_eq_getElem?_getD]
      exact getD_map_range _ _ _ _ ha

theorem sumRange_congr [Add α] [Zero α] (n : Nat) (f g : Nat → α) (h : ∀ k, k < n → f k = g k) :
    sumRange n f = sumRange n g := by
  unfold sumRange
  rw [List.map_congr_left]
  intro k hk
  exact h k (List.mem_range.1 hk)

end ML
end Pyttb
