/-
C08 lemmas: one step of a sequence of Kruskal calls.  A re-parameterising step keeps the array
of its receiver; every step leaves every other live object as it is (value semantics).
-/
import PyttbModel.Ops.KruskalSeq
import PyttbModel.Lemmas.KruskalSigns
set_option linter.unusedSectionVars false
namespace Pyttb
namespace Ktensor

variable {α : Type}

theorem except_error_bind {ε β γ : Type} (e : ε) (f : β → Except ε γ) :
    (Except.error e >>= f : Except ε γ) = Except.error e := rfl

theorem getK_ok {E : Env α} {k : Nat} {K : Ktensor α} (h : getK E k = .ok K) : E.ks[k]? = some K := by
  unfold getK at h
  split at h
  · rename_i K' hk; injection h with h; rw [hk, h]
  · cases h

theorem setK_other (E : Env α) (k j : Nat) (K : Ktensor α) (h : j ≠ k) : (setK E k K).ks[j]? = E.ks[j]? := by
  simp [setK, List.getElem?_set_ne (Ne.symm h)]

theorem setK_self (E : Env α) (k : Nat) (K K0 : Ktensor α) (h : E.ks[k]? = some K0) :
    (setK E k K).ks[k]? = some K := by
  have hk : k < E.ks.length := by
    by_contra hc
    rw [List.getElem?_eq_none (by omega)] at h
    cases h
  simp [setK, List.getElem?_set_self hk]

theorem pushK_old (E : Env α) (j : Nat) (K : Ktensor α) (h : j < E.ks.length) :
    (pushK E K).ks[j]? = E.ks[j]? := by
  simp [pushK, List.getElem?_append_left h]

/-- the re-parameterising calls -/
def SeqOp.isReparam : SeqOp → Bool
  | .normalize .. | .arrange .. | .fixsigns _ | .fixsignsRef .. | .redistribute .. => true
  | _ => false

section field
variable [Field α] [LinearOrder α] [IsStrictOrderedRing α]

/-- Frame: a step changes at most the slot of its receiver; vectors and factor lists that were
live stay as they are (new ones are appended). -/
theorem runStep_frame (S : Services α) (E E' : Env α) (op : SeqOp) (h : runStep S E op = .ok E') :
    (∀ j, j < E.ks.length → op.target ≠ some j → E'.ks[j]? = E.ks[j]?) ∧
    (∃ t, E'.vs = E.vs ++ t) ∧ (∃ t, E'.ls = E.ls ++ t) := by
  have inplace : ∀ (k : Nat) (K' : Ktensor α), op.target = some k → E' = setK E k K' →
      (∀ j, j < E.ks.length → op.target ≠ some j → E'.ks[j]? = E.ks[j]?) ∧
      (∃ t, E'.vs = E.vs ++ t) ∧ (∃ t, E'.ls = E.ls ++ t) := by
    intro k K' ht he
    subst he
    refine ⟨fun j _ hj => setK_other E k j K' (fun e => hj (by rw [ht, e])), ⟨[], by simp [setK]⟩, ⟨[], by simp [setK]⟩⟩
  have fresh : ∀ (K' : Ktensor α), E' = pushK E K' →
      (∀ j, j < E.ks.length → op.target ≠ some j → E'.ks[j]? = E.ks[j]?) ∧
      (∃ t, E'.vs = E.vs ++ t) ∧ (∃ t, E'.ls = E.ls ++ t) := by
    intro K' he
    subst he
    exact ⟨fun j hj _ => pushK_old E j K' hj, ⟨[], by simp [pushK]⟩, ⟨[], by simp [pushK]⟩⟩
  cases op with
  | normalize k wf sort nt mode =>
    simp only [runStep] at h
    cases hK : getK E k with
    | error e => rw [hK] at h; cases h
    | ok K =>
      rw [hK, except_ok_bind] at h
      cases hn : normalize S K wf sort nt mode with
      | error e => rw [hn] at h; cases h
      | ok K' => rw [hn, except_ok_bind] at h; injection h with h; exact inplace k K' rfl h.symm
  | arrange k wf perm =>
    simp only [runStep] at h
    cases hK : getK E k with
    | error e => rw [hK] at h; cases h
    | ok K =>
      rw [hK, except_ok_bind] at h
      cases hn : arrange S K wf perm with
      | error e => rw [hn] at h; cases h
      | ok K' => rw [hn, except_ok_bind] at h; injection h with h; exact inplace k K' rfl h.symm
  | fixsigns k =>
    simp only [runStep] at h
    cases hK : getK E k with
    | error e => rw [hK] at h; cases h
    | ok K => rw [hK, except_ok_bind] at h; injection h with h; exact inplace k _ rfl h.symm
  | fixsignsRef k o =>
    simp only [runStep] at h
    cases hK : getK E k with
    | error e => rw [hK] at h; cases h
    | ok K =>
      rw [hK, except_ok_bind] at h
      cases hO : getK E o with
      | error e => rw [hO] at h; cases h
      | ok O =>
        rw [hO, except_ok_bind] at h
        cases hn : fixsignsRef S K O with
        | error e => rw [hn] at h; cases h
        | ok K' => rw [hn, except_ok_bind] at h; injection h with h; exact inplace k K' rfl h.symm
  | redistribute k mode =>
    simp only [runStep] at h
    cases hK : getK E k with
    | error e => rw [hK] at h; cases h
    | ok K =>
      rw [hK, except_ok_bind] at h
      cases hn : redistribute K mode with
      | error e => rw [hn] at h; cases h
      | ok K' => rw [hn, except_ok_bind] at h; injection h with h; exact inplace k K' rfl h.symm
  | update k modes v =>
    simp only [runStep] at h
    cases hK : getK E k with
    | error e => rw [hK] at h; cases h
    | ok K =>
      rw [hK, except_ok_bind] at h
      split at h
      · cases h
      · rename_i data _
        cases hn : update K modes data with
        | error e => rw [hn] at h; cases h
        | ok K' => rw [hn, except_ok_bind] at h; injection h with h; exact inplace k K' rfl h.symm
  | tovec k w =>
    simp only [runStep] at h
    cases hK : getK E k with
    | error e => rw [hK] at h; cases h
    | ok K =>
      rw [hK, except_ok_bind] at h
      injection h with h
      subst h
      exact ⟨fun j _ _ => rfl, ⟨_, rfl⟩, ⟨[], by simp⟩⟩
  | fromVector v shape w =>
    simp only [runStep] at h
    split at h
    · cases h
    · rename_i data _
      cases hn : fromVector data shape w with
      | error e => rw [hn] at h; cases h
      | ok K' => rw [hn, except_ok_bind] at h; injection h with h; exact fresh K' h.symm
  | extract k idx =>
    simp only [runStep] at h
    cases hK : getK E k with
    | error e => rw [hK] at h; cases h
    | ok K =>
      rw [hK, except_ok_bind] at h
      cases hn : extract K (.list idx) with
      | error e => rw [hn] at h; cases h
      | ok K' => rw [hn, except_ok_bind] at h; injection h with h; exact fresh K' h.symm
  | copy k =>
    simp only [runStep] at h
    cases hK : getK E k with
    | error e => rw [hK] at h; cases h
    | ok K => rw [hK, except_ok_bind] at h; injection h with h; exact fresh _ h.symm
  | add a b =>
    simp only [runStep] at h
    cases hA : getK E a with
    | error e => rw [hA] at h; cases h
    | ok A =>
      rw [hA, except_ok_bind] at h
      cases hB : getK E b with
      | error e => rw [hB] at h; cases h
      | ok B =>
        rw [hB, except_ok_bind] at h
        cases hn : Ktensor.add A B with
        | error e => rw [hn] at h; cases h
        | ok C => rw [hn, except_ok_bind] at h; injection h with h; exact fresh C h.symm
  | sub a b =>
    simp only [runStep] at h
    cases hA : getK E a with
    | error e => rw [hA] at h; cases h
    | ok A =>
      rw [hA, except_ok_bind] at h
      cases hB : getK E b with
      | error e => rw [hB] at h; cases h
      | ok B =>
        rw [hB, except_ok_bind] at h
        cases hn : Ktensor.sub A B with
        | error e => rw [hn] at h; cases h
        | ok C => rw [hn, except_ok_bind] at h; injection h with h; exact fresh C h.symm
  | tolist k mode =>
    simp only [runStep] at h
    cases hK : getK E k with
    | error e => rw [hK] at h; cases h
    | ok K =>
      rw [hK, except_ok_bind] at h
      cases hn : tolist S K mode with
      | error e => rw [hn] at h; cases h
      | ok fs =>
        rw [hn, except_ok_bind] at h
        injection h with h
        subst h
        exact ⟨fun j _ _ => rfl, ⟨[], by simp⟩, ⟨_, rfl⟩⟩
  | construct l =>
    simp only [runStep] at h
    split at h
    · cases h
    · rename_i fs _
      cases hn : construct fs (none : Option (List α)) with
      | error e => rw [hn] at h; cases h
      | ok K' => rw [hn, except_ok_bind] at h; injection h with h; exact fresh K' h.symm
  | smul k c =>
    simp only [runStep] at h
    cases hK : getK E k with
    | error e => rw [hK] at h; cases h
    | ok K =>
      rw [hK, except_ok_bind] at h
      cases hn : smul (c : α) K with
      | error e => rw [hn] at h; cases h
      | ok K' => rw [hn, except_ok_bind] at h; injection h with h; exact fresh K' h.symm
  | neg k =>
    simp only [runStep] at h
    cases hK : getK E k with
    | error e => rw [hK] at h; cases h
    | ok K =>
      rw [hK, except_ok_bind] at h
      cases hn : neg K with
      | error e => rw [hn] at h; cases h
      | ok K' => rw [hn, except_ok_bind] at h; injection h with h; exact fresh K' h.symm
  | pos k =>
    simp only [runStep] at h
    cases hK : getK E k with
    | error e => rw [hK] at h; cases h
    | ok K => rw [hK, except_ok_bind] at h; injection h with h; exact fresh _ h.symm
  | permute k order =>
    simp only [runStep] at h
    cases hK : getK E k with
    | error e => rw [hK] at h; cases h
    | ok K =>
      rw [hK, except_ok_bind] at h
      cases hn : permute K order with
      | error e => rw [hn] at h; cases h
      | ok K' => rw [hn, except_ok_bind] at h; injection h with h; exact fresh K' h.symm
  | symmetrize k =>
    simp only [runStep] at h
    cases hK : getK E k with
    | error e => rw [hK] at h; cases h
    | ok K =>
      rw [hK, except_ok_bind] at h
      generalize hf : (fun K0 : Ktensor α => match normalize S K0.copy (some .all) false .two none with
        | .ok K1 => K1 | .error _ => K0) = f at h
      cases hn : Sym.ksymmetrize f K with
      | error e => rw [hn] at h; cases h
      | ok K' => rw [hn, except_ok_bind] at h; injection h with h; exact fresh K' h.symm
  | reconstruct k =>
    simp only [runStep] at h
    cases hK : getK E k with
    | error e => rw [hK] at h; cases h
    | ok K =>
      rw [hK, except_ok_bind] at h
      cases hn : construct K.factors (some K.weights) with
      | error e => rw [hn] at h; cases h
      | ok K' => rw [hn, except_ok_bind] at h; injection h with h; exact fresh K' h.symm

/-- A re-parameterising step (`normalize`, `arrange`, `fixsigns` with or without reference,
`redistribute`) replaces its receiver by a tensor of the same rank and shape that denotes the
same array. -/
theorem runStep_reparam {S : Services α} (hS : S.Lawful) (E E' : Env α) (op : SeqOp) (k : Nat)
    (hr : op.isReparam = true) (ht : op.target = some k) (h : runStep S E op = .ok E') :
    ∃ K K', E.ks[k]? = some K ∧ E'.ks[k]? = some K' ∧ Reparam K K' := by
  have fin : ∀ (K K' : Ktensor α), getK E k = .ok K → Reparam K K' → E' = setK E k K' →
      ∃ K K', E.ks[k]? = some K ∧ E'.ks[k]? = some K' ∧ Reparam K K' := by
    intro K K' hK r he
    subst he
    exact ⟨K, K', getK_ok hK, setK_self E k K' K (getK_ok hK), r⟩
  cases op with
  | normalize k0 wf sort nt mode =>
    simp only [SeqOp.target, Option.some.injEq] at ht
    subst ht
    simp only [runStep] at h
    cases hK : getK E k0 with
    | error e => rw [hK] at h; cases h
    | ok K =>
      rw [hK, except_ok_bind] at h
      cases hn : normalize S K wf sort nt mode with
      | error e => rw [hn] at h; cases h
      | ok K' =>
        rw [hn, except_ok_bind] at h; injection h with h
        exact fin K K' hK (normalize_reparam hS K wf sort nt mode hn) h.symm
  | arrange k0 wf perm =>
    simp only [SeqOp.target, Option.some.injEq] at ht
    subst ht
    simp only [runStep] at h
    cases hK : getK E k0 with
    | error e => rw [hK] at h; cases h
    | ok K =>
      rw [hK, except_ok_bind] at h
      cases hn : arrange S K wf perm with
      | error e => rw [hn] at h; cases h
      | ok K' =>
        rw [hn, except_ok_bind] at h; injection h with h
        refine fin K K' hK ?_ h.symm
        cases perm with
        | none => exact arrange_sort_reparam hS K wf hn
        | some p =>
          cases wf with
          | none => exact arrange_perm_reparam S K p hn
          | some w => rw [arrange_rejects_both] at hn; cases hn
  | fixsigns k0 =>
    simp only [SeqOp.target, Option.some.injEq] at ht
    subst ht
    simp only [runStep] at h
    cases hK : getK E k0 with
    | error e => rw [hK] at h; cases h
    | ok K =>
      rw [hK, except_ok_bind] at h; injection h with h
      exact fin K _ hK (fixsigns_reparam K) h.symm
  | fixsignsRef k0 o =>
    simp only [SeqOp.target, Option.some.injEq] at ht
    subst ht
    simp only [runStep] at h
    cases hK : getK E k0 with
    | error e => rw [hK] at h; cases h
    | ok K =>
      rw [hK, except_ok_bind] at h
      cases hO : getK E o with
      | error e => rw [hO] at h; cases h
      | ok O =>
        rw [hO, except_ok_bind] at h
        cases hn : fixsignsRef S K O with
        | error e => rw [hn] at h; cases h
        | ok K' =>
          rw [hn, except_ok_bind] at h; injection h with h
          exact fin K K' hK (fixsignsRef_reparam hS K O hn) h.symm
  | redistribute k0 mode =>
    simp only [SeqOp.target, Option.some.injEq] at ht
    subst ht
    simp only [runStep] at h
    cases hK : getK E k0 with
    | error e => rw [hK] at h; cases h
    | ok K =>
      rw [hK, except_ok_bind] at h
      cases hn : redistribute K mode with
      | error e => rw [hn] at h; cases h
      | ok K' =>
        rw [hn, except_ok_bind] at h; injection h with h
        exact fin K K' hK (redistribute_spec K mode hn).1 h.symm
  | update _ _ _ => cases hr
  | tovec _ _ => cases hr
  | fromVector _ _ _ => cases hr
  | extract _ _ => cases hr
  | copy _ => cases hr
  | add _ _ => cases hr
  | sub _ _ => cases hr
  | tolist _ _ => cases hr
  | construct _ => cases hr
  | smul _ _ => cases hr
  | neg _ => cases hr
  | pos _ => cases hr
  | permute _ _ => cases hr
  | symmetrize _ => cases hr
  | reconstruct _ => cases hr

end field
end Ktensor
end Pyttb
