/-
C10 — `hosvd` accepts every valid request (so the property theorems, which speak about
successful runs, are not vacuous): automatic ranks with `|tol| < 1` on non-zero data, and
requested ranks `≥ 1`.
-/
import PyttbModel.Lemmas.HosvdThm
namespace Pyttb
namespace Tk
open Finset

theorem foldlM_progress {σ : Type} (f : σ → Nat → Except Reject σ) (I : List Nat → σ → Prop) :
    ∀ (l done : List Nat) (st : σ), I done st →
      (∀ done' s k, (∃ rest, done' ++ k :: rest = done ++ l) → I done' s → ∃ s', f s k = .ok s' ∧ I (done' ++ [k]) s') →
      ∃ st', l.foldlM f st = .ok st' ∧ I (done ++ l) st' := by
  intro l
  induction l with
  | nil =>
    intro done st h0 _
    exact ⟨st, rfl, by simpa using h0⟩
  | cons k l ih =>
    intro done st h0 hstep
    obtain ⟨s1, hf, h1⟩ := hstep done st k ⟨l, rfl⟩ h0
    obtain ⟨st', hfold, hI⟩ := ih (done ++ [k]) s1 h1
      (by
        intro done' s k' hex hI'
        apply hstep done' s k' _ hI'
        obtain ⟨rest, hr⟩ := hex
        exact ⟨rest, by rw [hr]; simp⟩)
    refine ⟨st', ?_, by simpa using hI⟩
    simp only [List.foldlM_cons, hf]
    exact hfold

theorem lastIdxWhere_isSome {p : ℝ → Bool} {l : List ℝ} (hl : 0 < l.length) (h0 : p (l.getD 0 0) = true) :
    ∃ i, lastIdxWhere p l = some i := by
  unfold lastIdxWhere
  apply Option.isSome_iff_exists.1
  apply List.getLast?_isSome.2
  apply List.ne_nil_of_mem (a := 0)
  rw [List.mem_filter]
  refine ⟨by simpa using hl, ?_⟩
  rw [List.getD_eq_getElem?_getD, List.getElem?_eq_getElem hl] at h0
  simpa [List.getElem?_eq_getElem hl] using h0

/-- The cut-off rule finds a position as soon as the whole eigenvalue sum exceeds the threshold. -/
theorem rankCut_isSome (eig : List ℝ) (thresh : ℝ) (hne : eig ≠ []) (h : thresh < eig.sum) :
    ∃ r, Gen.rankCut realOps (Gen.eigsum eig) thresh = some r := by
  simp only [Gen.rankCut, Gen.eigsum, Option.map_eq_some_iff]
  have hl : 0 < eig.length := List.length_pos_iff.2 hne
  have h0 : Gen.cutCond realOps thresh ((revCumsum eig).getD 0 0) = true := by
    rw [revCumsum_getD eig 0 hl]
    simpa [Gen.cutCond, realOps] using h
  obtain ⟨i, hi⟩ := lastIdxWhere_isSome (by rw [revCumsum_length]; exact hl) h0
  exact ⟨i + Gen.cutOffset, i, hi, rfl⟩

theorem transpose_ncols (U : Mat ℝ) (h : 0 < U.ncols) : (Mat.transpose U).ncols = U.nrows := by
  simp only [Mat.transpose]
  conv_lhs => rw [Mat.ncols]
  rw [getD_map_range _ _ _ h]
  simp

/-- One pass of the mode loop succeeds. -/
theorem hosvdStep_succeeds {eigh : Nat → Mat ℝ → List ℝ × Mat ℝ} (hE : EighContract eigh) {X : Dense ℝ}
    {req : List Nat} {thresh : ℝ} {seq : Bool} {done : List Nat} {st : HState ℝ} {k : Nat}
    (hI : HInv X req thresh seq done st) (hk : k < X.shape.length) (hnd : k ∉ done)
    (hpos : 1 ≤ X.shape.getD k 0)
    (hrank : req.getD k 0 ≠ 0 ∨ thresh < normSq st.Y) :
    ∃ st', hosvdStep realOps eigh thresh seq st k = .ok st' := by
  have hkY : k < st.Y.shape.length := by rw [hI.lenY]; exact hk
  have hn : st.Y.shape.getD k 0 = X.shape.getD k 0 := (hI.untouched k hnd).1
  have hrk : st.ranks.getD k 0 = req.getD k 0 := (hI.untouched k hnd).2
  -- the rank
  have hr : ∃ r, chooseRank realOps thresh (stepEig eigh st k) (st.ranks.getD k 0) = some r ∧ 1 ≤ r := by
    by_cases h0 : req.getD k 0 = 0
    · have hlt : thresh < normSq st.Y := by
        rcases hrank with h | h
        · exact absurd h0 h
        · exact h
      rw [step_total hE st hI.wf k hkY] at hlt
      have hne : stepEig eigh st k ≠ [] := by
        apply List.ne_nil_of_length_pos
        rw [stepEig_length hE, hn]; omega
      obtain ⟨r, hr⟩ := rankCut_isSome _ _ hne hlt
      refine ⟨r, ?_, ?_⟩
      · rw [hrk, h0]; simpa [chooseRank, Gen.autoMarker] using hr
      · simp only [Gen.rankCut, Gen.cutOffset, Option.map_eq_some_iff] at hr
        obtain ⟨i, _, rfl⟩ := hr
        omega
    · refine ⟨req.getD k 0, ?_, by omega⟩
      rw [hrk]
      unfold chooseRank
      have : (req.getD k 0 == Gen.autoMarker) = false := by simpa [Gen.autoMarker] using h0
      rw [this]; rfl
  obtain ⟨r, hr, hr1⟩ := hr
  have hU := stepU_ortho hE st k r
  unfold hosvdStep
  simp only [sliceBound_eq]
  have hr' : chooseRank realOps thresh
      (List.map (fun i => (eigh st.trace.length (gramMode st.Y k)).1.getD i 0)
        (argsortDesc realOps (eigh st.trace.length (gramMode st.Y k)).1)) (st.ranks.getD k 0) = some r := hr
  rw [hr']
  simp only
  cases seq with
  | false => exact ⟨_, rfl⟩
  | true =>
    simp only [if_true]
    have hcols : 0 < (stepU eigh st k r).ncols := by rw [hU.ncols, hn]; omega
    have hok := ttm_eq_ok (T := st.Y) (U := Mat.transpose (stepU eigh st k r)) (n := k) (tr := false) hkY
      (by simp only [Bool.false_eq_true, if_false]; rw [transpose_ncols _ hcols, hU.nrows])
    have hok' : ttm st.Y (Mat.transpose (matCols (eigh st.trace.length (gramMode st.Y k)).2
        (List.take r (argsortDesc realOps (eigh st.trace.length (gramMode st.Y k)).1)))) k false = _ := hok
    rw [hok']
    exact ⟨_, rfl⟩

/-- `ttm(list, transpose=True)` over all modes succeeds when every matrix has as many rows as
its mode has entries. -/
theorem foldlM_ttm_succeeds (tr : Bool) :
    ∀ (l : List (Nat × Mat ℝ)) (T : Dense ℝ), (l.map Prod.fst).Nodup →
      (∀ q ∈ l, q.1 < T.shape.length ∧ (if tr then q.2.nrows else q.2.ncols) = T.shape.getD q.1 0) →
      l.foldlM (fun Y p => ttm Y p.2 p.1 tr) T = .ok (ttmFold T l tr) := by
  intro l
  induction l with
  | nil => intro T _ _; rfl
  | cons q l ih =>
    intro T hn h
    obtain ⟨k, U⟩ := q
    simp only [List.map_cons, List.nodup_cons, List.mem_map, not_exists, not_and] at hn
    have hq := h (k, U) (by simp)
    simp only [List.foldlM_cons]
    rw [ttm_eq_ok hq.1 hq.2]
    simp only [ttmFold_cons]
    apply ih _ hn.2
    intro q' hq'
    have := h q' (by simp [hq'])
    have hne : k ≠ q'.1 := fun e => hn.1 q' hq' e.symm
    refine ⟨by simpa using this.1, ?_⟩
    rw [ttmT_shape, getD_set_ne hne]
    exact this.2

theorem ttmAll_succeeds (T : Dense ℝ) (Us : List (Mat ℝ)) (hl : Us.length = T.shape.length) (hd : T.shape ≠ [])
    (h : ∀ k < T.shape.length, (Us.getD k []).nrows = T.shape.getD k 0) :
    ttmAll T Us true = .ok (ttmFold T (ascList Us T.shape.length) true) := by
  unfold ttmAll ttmDims
  rw [if_neg (by omega), if_neg (by simp [hl])]
  rw [if_neg (by simpa using List.length_pos_iff.2 hd |> Nat.pos_iff_ne_zero.1)]
  rw [ttmPairs_range]
  apply foldlM_ttm_succeeds true _ T (ascList_fst_nodup _ _)
  intro q hq
  simp only [ascList, List.mem_map, List.mem_range] at hq
  obtain ⟨k, hk, rfl⟩ := hq
  exact ⟨hk, by simpa using h k hk⟩

/-- The acceptance theorem behind `C10_hosvd_accepts`. -/
theorem hosvd_accepts {eigh : Nat → Mat ℝ → List ℝ × Mat ℝ} (hE : EighContract eigh) (X : Dense ℝ) (hX : X.WF)
    (hd : X.shape ≠ []) (hpos : ∀ k < X.shape.length, 1 ≤ X.shape.getD k 0) (tol : ℝ)
    (dimorder : Option (List Nat)) (hperm : isPermOf (modeOrder dimorder X.shape.length) X.shape.length = true)
    (seq : Bool) (ranks : Option (List Nat)) (hlen : (reqRanks ranks X.shape.length).length = X.shape.length)
    (hle : ∀ k < X.shape.length, (reqRanks ranks X.shape.length).getD k 0 ≤ X.shape.getD k 0)
    (hcase : (∀ k < X.shape.length, (reqRanks ranks X.shape.length).getD k 0 ≠ 0) ∨
      ((∀ k, (reqRanks ranks X.shape.length).getD k 0 = 0) ∧ tol ^ 2 < 1 ∧ 0 < normSq X)) :
    ∃ T, hosvd realOps eigh X tol dimorder seq ranks = .ok T := by
  set d := X.shape.length with hdd
  set req := reqRanks ranks d with hreq
  set order := modeOrder dimorder d with hord
  set thresh := Gen.eigsumthresh realOps tol (normSq X) (realOps.ofNat d) with hth
  have hdpos : 0 < d := List.length_pos_iff.2 hd
  have hth0 : 0 ≤ thresh := thresh_nonneg tol (normSq X) d (normSq_nonneg X hX)
  have hdth : (d : ℝ) * thresh = tol ^ 2 * normSq X := by
    rw [hth, thresh_eq]
    have : (d : ℝ) ≠ 0 := by exact_mod_cast hdpos.ne'
    rw [mul_div_cancel₀ _ this]
  -- the loop
  obtain ⟨st, hfold, hI⟩ := foldlM_progress (hosvdStep realOps eigh thresh seq) (HInv X req thresh seq) order []
    ⟨X, List.replicate d [], req, []⟩ (HInv.init X hX req hlen thresh seq)
    (by
      intro done' s k hex hI
      obtain ⟨rest, hrest⟩ := hex
      simp only [List.nil_append] at hrest
      have hkm : k ∈ order := by rw [← hrest]; simp
      have hk : k < d := isPermOf_lt' hperm hkm
      have hnd : k ∉ done' := by
        have := isPermOf_nodup' hperm
        rw [← hrest] at this
        have := (List.nodup_append.1 this).2.2
        intro hk'
        exact this k hk' k (by simp) rfl
      have hcount : done'.length + 1 ≤ d := by
        have := congrArg List.length hrest
        rw [(isPermOf_perm' hperm).length_eq] at this
        simp at this
        omega
      have hrank : req.getD k 0 ≠ 0 ∨ thresh < normSq s.Y := by
        rcases hcase with hg | ⟨ha, htol, hnx⟩
        · exact Or.inl (hg k hk)
        · right
          have hthlt : thresh * (done'.length + 1 : ℝ) < normSq X := by
            have h1 : thresh * (done'.length + 1 : ℝ) ≤ thresh * d := by
              apply mul_le_mul_of_nonneg_left _ hth0
              exact_mod_cast hcount
            have h2 : thresh * d = tol ^ 2 * normSq X := by rw [mul_comm]; exact hdth
            have h3 : tol ^ 2 * normSq X < normSq X := by nlinarith
            linarith
          cases hs : seq with
          | false =>
            have : s.Y = X := by have := hI.yval; rw [hs] at this; simpa using this
            rw [this]
            have : thresh * 1 ≤ thresh * (done'.length + 1 : ℝ) := by
              apply mul_le_mul_of_nonneg_left _ hth0
              have : (0 : ℝ) ≤ done'.length := by positivity
              linarith
            linarith
          | true =>
            have hen := hI.energy hs
            have hsum : (s.trace.map fun r => tail r.eig r.rank).sum ≤ (done'.length : ℝ) * thresh := by
              have := List.sum_le_card_nsmul (s.trace.map fun r => tail r.eig r.rank) thresh
                (by
                  intro x hx
                  obtain ⟨rec, hrec, rfl⟩ := List.mem_map.1 hx
                  exact (rankCut_spec rec.eig _ hth0 ((hI.recs rec hrec).1.auto (ha _))).2.2.1)
              have hl : s.trace.length = done'.length := by
                have := congrArg List.length hI.traceK
                simpa using this
              simpa [hl] using this
            nlinarith
      obtain ⟨s', hs'⟩ := hosvdStep_succeeds hE hI hk hnd (hpos k hk) hrank
      exact ⟨s', hs', hI.step hE hk hnd hs'⟩)
  simp only [List.nil_append] at hI
  -- the core and the Tucker object
  have hall : ∀ k < d, k ∈ order := fun k hk => (isPermOf_perm' hperm).mem_iff.2 (List.mem_range.2 hk)
  have hfac : ∀ k < d, OrthoCols (st.factors.getD k []) (X.shape.getD k 0) (st.factors.getD k []).ncols := by
    intro k hk
    have : k ∈ st.trace.map (·.k) := by rw [hI.traceK]; exact hall k hk
    obtain ⟨rec, hrec, rfl⟩ := List.mem_map.1 this
    obtain ⟨hok, hf⟩ := hI.recs rec hrec
    rw [hf]
    have := hok.ortho
    rw [this.ncols]; exact this
  have hG : ∃ G, (if seq = true then Except.ok st.Y else ttmAll st.Y st.factors true) = .ok G ∧
      G = ttmFold X (ascList st.factors d) true := by
    cases hs : seq with
    | true =>
      refine ⟨st.Y, by simp, ?_⟩
      have hy : st.Y = ttmFold X (order.map fun k => (k, st.factors.getD k [])) true := by
        have := hI.yval; rw [hs] at this; simpa using this
      rw [hy]
      apply ttmFold_perm ((isPermOf_perm' hperm).map _)
      simp only [List.map_map, Function.comp_def, List.map_id']
      exact isPermOf_nodup' hperm
    | false =>
      have hy : st.Y = X := by have := hI.yval; rw [hs] at this; simpa using this
      refine ⟨_, ?_, rfl⟩
      simp only [Bool.false_eq_true, if_false]
      rw [hy]
      exact ttmAll_succeeds X st.factors hI.lenF hd (fun k hk => (hfac k hk).nrows)
  obtain ⟨G, hG1, hG2⟩ := hG
  have hmk : mkTtensor G st.factors = .ok ⟨G, st.factors⟩ := by
    unfold mkTtensor
    rw [if_pos]
    simp only [Bool.and_eq_true, beq_iff_eq, List.all_eq_true, List.mem_range]
    refine ⟨by rw [hG2, ttmFold_shape_length, hI.lenF], ?_⟩
    intro i hi
    rw [hI.lenF] at hi
    rw [hG2, ttmFold_shape]
    rw [coreShape_getD_mem _ _ i (st.factors.getD i []) (ascList_fst_nodup _ _)
      (by simp only [ascList, List.mem_map, List.mem_range]; exact ⟨i, hi, rfl⟩) hi]
  refine ⟨⟨G, st.factors⟩, ?_⟩
  unfold hosvd hosvdRun
  simp only
  rw [if_neg (by simpa using hlen), if_neg (by simpa using ranksExceed_false.2 hle), if_neg (by simpa using hperm)]
  rw [hfold]
  simp only
  rw [hG1]
  simp only
  rw [hmk]
  rfl

end Tk
end Pyttb
