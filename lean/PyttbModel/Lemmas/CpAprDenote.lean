/-
Lemmas for C11 (CP-APR), part 5: the final normalisations preserve the tensor the model
denotes (`Ktensor.get`), and the sum of all entries of an L1-normalised non-negative model
with the weights absorbed in mode 0 is the sum of that factor.
-/
import PyttbModel.Lemmas.CpAprRun
import PyttbModel.Lemmas.Idx
import Mathlib.Algebra.BigOperators.Ring.List
import Mathlib.Tactic.FieldSimp
set_option linter.unusedSectionVars false
set_option linter.unusedVariables false
namespace Pyttb.CpApr
open Pyttb.CpApr.Gen

variable {α : Type} [Field α] [LinearOrder α] [IsStrictOrderedRing α]

/-! ### matrix entries -/

theorem get_of_le_length {A : Mat α} {i : Nat} (h : A.length ≤ i) (r : Nat) : A.get i r = 0 := by
  unfold Mat.get
  have e : A.getD i [] = [] := by
    rw [List.getD_eq_getElem?_getD, List.getElem?_eq_none h]; rfl
  rw [e]
  simp

theorem vget_map_range {R r : Nat} (hr : r < R) (f : Nat → α) : vget ((List.range R).map f) r = f r := by
  unfold vget
  rw [List.getD_eq_getElem?_getD]
  simp [hr]

theorem vget_of_le_length {l : List α} {k : Nat} (h : l.length ≤ k) : vget l k = 0 := by
  unfold vget
  rw [List.getD_eq_getElem?_getD, List.getElem?_eq_none h]
  simp

theorem tab_get {I R : Nat} (f : Nat → Nat → α) {i r : Nat} (hi : i < I) (hr : r < R) :
    (tab I R f).get i r = f i r := by
  unfold Mat.get tab
  rw [List.getD_eq_getElem?_getD, List.getD_eq_getElem?_getD]
  simp [hi, hr]

theorem tab_get_of_le {I R : Nat} (f : Nat → Nat → α) {i : Nat} (hi : I ≤ i) (r : Nat) :
    (tab I R f).get i r = 0 :=
  get_of_le_length (by rw [tab_length]; exact hi) r

theorem factor_set_self {fs : List (Mat α)} {w : List α} {n : Nat} (hn : n < fs.length) (B : Mat α) :
    factor (⟨w, fs.set n B⟩ : Ktensor α) n = B := by
  unfold factor
  rw [List.getD_eq_getElem?_getD, List.getElem?_set]
  simp [hn]

theorem factor_set_ne {fs : List (Mat α)} {w w' : List α} {n m : Nat} (hnm : n ≠ m) (B : Mat α) :
    factor (⟨w, fs.set n B⟩ : Ktensor α) m = factor (⟨w', fs⟩ : Ktensor α) m := by
  unfold factor
  rw [List.getD_eq_getElem?_getD, List.getD_eq_getElem?_getD, List.getElem?_set]
  simp [hnm]

/-! ### the product over the modes when one factor is rescaled -/

theorem prod_zipWith_set (g : Mat α → Nat → α) :
    ∀ (fs : List (Mat α)) (i : List Nat) (n : Nat) (B : Mat α) (c : α), n < fs.length →
      i.length = fs.length → g B (i.getD n 0) = c * g (fs.getD n []) (i.getD n 0) →
      (List.zipWith g (fs.set n B) i).prod = c * (List.zipWith g fs i).prod := by
  intro fs
  induction fs with
  | nil => intro i n B c hn; simp at hn
  | cons A fs ih =>
    intro i n B c hn hi hB
    cases i with
    | nil => simp at hi
    | cons k i =>
      cases n with
      | zero =>
        simp only [List.set_cons_zero, List.zipWith_cons_cons, List.prod_cons]
        simp only [List.getD_cons_zero] at hB
        rw [hB, mul_assoc]
      | succ n =>
        simp only [List.set_cons_succ, List.zipWith_cons_cons, List.prod_cons]
        simp only [List.getD_cons_succ] at hB
        rw [ih i n B c (by simpa using hn) (by simpa using hi) hB, mul_left_comm]

theorem prod_zipWith_eq_zero (g : Mat α → Nat → α) :
    ∀ (fs : List (Mat α)) (i : List Nat) (n : Nat), n < fs.length → i.length = fs.length →
      g (fs.getD n []) (i.getD n 0) = 0 → (List.zipWith g fs i).prod = 0 := by
  intro fs
  induction fs with
  | nil => intro i n hn; simp at hn
  | cons A fs ih =>
    intro i n hn hi h0
    cases i with
    | nil => simp at hi
    | cons k i =>
      cases n with
      | zero =>
        simp only [List.zipWith_cons_cons, List.prod_cons]
        simp only [List.getD_cons_zero] at h0
        rw [h0, zero_mul]
      | succ n =>
        simp only [List.zipWith_cons_cons, List.prod_cons]
        simp only [List.getD_cons_succ] at h0
        rw [ih i n (by simpa using hn) (by simpa using hi) h0, mul_zero]

/-- `Ktensor.get` after replacing the weights and factor `n`, when every weighted component is
unchanged. -/
theorem get_set_of_comp (K : Ktensor α) (n : Nat) (w' : List α) (B : Mat α) (i : List Nat)
    (hw : w'.length = K.weights.length)
    (h : ∀ r < K.weights.length,
      vget w' r * (List.zipWith (fun (A : Mat α) ik => A.get ik r) (K.factors.set n B) i).prod =
      vget K.weights r * (List.zipWith (fun (A : Mat α) ik => A.get ik r) K.factors i).prod) :
    Ktensor.get (⟨w', K.factors.set n B⟩ : Ktensor α) i = K.get i := by
  unfold Ktensor.get Ktensor.ncomp Ktensor.comp
  simp only [hw]
  congr 1
  apply List.map_congr_left
  intro r hr
  exact h r (List.mem_range.mp hr)

/-- Rescaling column `r` of factor `n` by `c r` and dividing it out of the weight. -/
theorem get_set_scaled (K : Ktensor α) (n : Nat) (hn : n < K.factors.length) (w' : List α) (B : Mat α)
    (c : Nat → α) (i : List Nat) (hi : i.length = K.factors.length)
    (hw : w'.length = K.weights.length)
    (hB : ∀ r < K.weights.length, ∀ k, B.get k r = c r * (factor K n).get k r)
    (hc : ∀ r < K.weights.length, vget w' r * c r = vget K.weights r) :
    Ktensor.get (⟨w', K.factors.set n B⟩ : Ktensor α) i = K.get i := by
  apply get_set_of_comp K n w' B i hw
  intro r hr
  rw [prod_zipWith_set (fun (A : Mat α) ik => A.get ik r) K.factors i n B (c r) hn hi (hB r hr _),
    ← mul_assoc, hc r hr]

/-! ### the normalisations preserve `Ktensor.get` -/

section denote
variable (log : α → α)

theorem colNorm1_eq_zero {A : Mat α} {r : Nat} (h : colNorm1 (NumOps.ofField log) A r = 0) (k : Nat) :
    A.get k r = 0 := by
  by_cases hk : k < A.length
  · unfold colNorm1 sumOver at h
    have hle : |A.get k r| ≤ ((List.range A.length).map fun i => (NumOps.ofField log).abs (A.get i r)).sum := by
      apply List.single_le_sum
      · intro x hx
        simp only [List.mem_map] at hx
        obtain ⟨_, _, rfl⟩ := hx
        exact abs_nonneg _
      · simp only [List.mem_map, List.mem_range]
        exact ⟨k, hk, rfl⟩
    rw [h] at hle
    exact abs_eq_zero.mp (le_antisymm hle (abs_nonneg _))
  · exact get_of_le_length (Nat.le_of_not_lt hk) r

theorem normalizeMode_get (K : Ktensor α) (n : Nat) (hn : n < K.factors.length) (i : List Nat)
    (hi : i.length = K.factors.length) : (normalizeMode (NumOps.ofField log) K n).get i = K.get i := by
  unfold normalizeMode
  apply get_set_of_comp K n _ _ i (by simp)
  intro r hr
  rw [vget_map_range hr]
  have hnr : vget ((List.range K.weights.length).map (colNorm1 (NumOps.ofField log) (factor K n))) r =
      colNorm1 (NumOps.ofField log) (factor K n) r := vget_map_range hr _
  by_cases hpos : 0 < colNorm1 (NumOps.ofField log) (factor K n) r
  · rw [prod_zipWith_set (fun (A : Mat α) ik => A.get ik r) K.factors i n _
      (1 / colNorm1 (NumOps.ofField log) (factor K n) r) hn hi]
    · rw [hnr]
      field_simp
    · show (tab _ _ _).get _ r = _ * (factor K n).get _ r
      by_cases hk : i.getD n 0 < (factor K n).length
      · rw [tab_get _ hk hr, hnr]
        have hlt : (NumOps.ofField log).lt 0 (colNorm1 (NumOps.ofField log) (factor K n) r) = true :=
          decide_eq_true hpos
        rw [if_pos hlt]
      · rw [tab_get_of_le _ (Nat.le_of_not_lt hk), get_of_le_length (Nat.le_of_not_lt hk), mul_zero]
  · have hz : colNorm1 (NumOps.ofField log) (factor K n) r = 0 :=
      le_antisymm (not_lt.mp hpos) (colNorm1_nonneg log _ _)
    rw [hnr, hz, mul_zero, zero_mul]
    rw [prod_zipWith_eq_zero (fun (A : Mat α) ik => A.get ik r) K.factors i n hn hi
      (colNorm1_eq_zero log hz _), mul_zero]

theorem normalizeAll_get (K : Ktensor α) (i : List Nat) (hi : i.length = K.factors.length) :
    (normalizeAll (NumOps.ofField log) K).get i = K.get i := by
  unfold normalizeAll
  have := foldl_inv_mem (fun K' : Ktensor α => K'.factors.length = K.factors.length ∧ K'.get i = K.get i)
    (normalizeMode (NumOps.ofField log)) (List.range K.factors.length) K
    (fun s n hn hs => ⟨by rw [normalizeMode_nfactors, hs.1], by
      rw [normalizeMode_get log s n (by rw [hs.1]; exact List.mem_range.mp hn) i (by rw [hs.1]; exact hi)]
      exact hs.2⟩) ⟨rfl, rfl⟩
  exact this.2

theorem normalizeAll_nfactors (o : NumOps α) (K : Ktensor α) :
    (normalizeAll o K).factors.length = K.factors.length := by
  unfold normalizeAll
  exact foldl_inv (fun K' : Ktensor α => K'.factors.length = K.factors.length) _
    (fun s n hs => by rw [normalizeMode_nfactors, hs]) _ _ rfl

theorem normalizeMode_nweights (o : NumOps α) (K : Ktensor α) (n : Nat) :
    (normalizeMode o K n).weights.length = K.weights.length := by
  simp [normalizeMode]

theorem normalizeAll_nweights (o : NumOps α) (K : Ktensor α) :
    (normalizeAll o K).weights.length = K.weights.length := by
  unfold normalizeAll
  exact foldl_inv (fun K' : Ktensor α => K'.weights.length = K.weights.length) _
    (fun s n hs => by rw [normalizeMode_nweights, hs]) _ _ rfl

theorem vget_map_const_one {l : List α} {r : Nat} (hr : r < l.length) :
    vget (l.map fun _ => (1 : α)) r = 1 := by
  unfold vget
  rw [List.getD_eq_getElem?_getD]
  simp [hr]

theorem flipNeg_get {K : Ktensor α} (h : NonnegK K) (hN : 0 < K.factors.length) (i : List Nat)
    (hi : i.length = K.factors.length) : (flipNeg (NumOps.ofField log) K).get i = K.get i := by
  obtain ⟨hw, hf⟩ := flipNeg_eq_of_nonneg log h
  have e : flipNeg (NumOps.ofField log) K = ⟨K.weights, K.factors.set 0
      (tab (factor K 0).length K.weights.length fun i r => (factor K 0).get i r)⟩ := by
    cases hfl : flipNeg (NumOps.ofField log) K with
    | mk w f => rw [hfl] at hw hf; simp only at hw hf; rw [hw, hf]
  rw [e]
  apply get_set_scaled K 0 hN _ _ (fun _ => 1) i hi rfl
  · intro r hr k
    by_cases hk : k < (factor K 0).length
    · rw [tab_get _ hk hr, one_mul]
    · rw [tab_get_of_le _ (Nat.le_of_not_lt hk), get_of_le_length (Nat.le_of_not_lt hk), mul_zero]
  · intro r _; rw [mul_one]

theorem absorb0_get (K : Ktensor α) (hN : 0 < K.factors.length) (i : List Nat)
    (hi : i.length = K.factors.length) : (absorb0 K).get i = K.get i := by
  unfold absorb0
  apply get_set_scaled K 0 hN _ _ (fun r => vget K.weights r) i hi (by simp)
  · intro r hr k
    by_cases hk : k < (factor K 0).length
    · rw [tab_get _ hk hr, mul_comm]
    · rw [tab_get_of_le _ (Nat.le_of_not_lt hk), get_of_le_length (Nat.le_of_not_lt hk), mul_zero]
  · intro r hr; rw [vget_map_const_one hr, one_mul]

theorem flipNeg_nfactors (o : NumOps α) (K : Ktensor α) : (flipNeg o K).factors.length = K.factors.length := by
  simp [flipNeg]

theorem normalize1_nfactors (o : NumOps α) (K : Ktensor α) :
    (normalize1 o K).factors.length = K.factors.length := by
  unfold normalize1
  rw [flipNeg_nfactors, normalizeAll_nfactors]

theorem normalize1_get {K : Ktensor α} (h : NonnegK K) (hN : 0 < K.factors.length) (i : List Nat)
    (hi : i.length = K.factors.length) : (normalize1 (NumOps.ofField log) K).get i = K.get i := by
  unfold normalize1
  rw [flipNeg_get log (normalizeAll_nonneg log h) (by rw [normalizeAll_nfactors]; exact hN) i
    (by rw [normalizeAll_nfactors]; exact hi)]
  exact normalizeAll_get log K i hi

theorem normalizeAbsorb0_get {K : Ktensor α} (h : NonnegK K) (hN : 0 < K.factors.length) (i : List Nat)
    (hi : i.length = K.factors.length) :
    (normalizeAbsorb0 (NumOps.ofField log) K).get i = K.get i := by
  unfold normalizeAbsorb0
  rw [absorb0_get _ (by rw [normalize1_nfactors]; exact hN) i (by rw [normalize1_nfactors]; exact hi)]
  exact normalize1_get log h hN i hi

theorem map_range_getD {β : Type} (p : List Nat) (F : Nat → β) :
    (List.range p.length).map (fun s => F (p.getD s 0)) = p.map F := by
  apply List.ext_getElem (by simp)
  intro k h1 h2
  simp only [List.getElem_map, List.getElem_range]
  congr 1
  rw [List.getD_eq_getElem?_getD, List.getElem?_eq_getElem (by simpa using h1)]
  rfl

theorem permcols_get (A : Mat α) (p : List Nat) (ik s : Nat) (hs : s < p.length) :
    Mat.get (A.map fun row => p.map (vget row)) ik s = A.get ik (p.getD s 0) := by
  unfold Mat.get
  by_cases hik : ik < A.length
  · have e1 : (A.map fun row => p.map (vget row)).getD ik [] = p.map (vget (A.getD ik [])) := by
      rw [List.getD_eq_getElem?_getD, List.getD_eq_getElem?_getD]
      simp [hik]
    rw [e1, List.getD_eq_getElem?_getD]
    simp [hs, vget]
  · have e1 : (A.map fun row => p.map (vget row)).getD ik [] = [] := by
      rw [List.getD_eq_getElem?_getD, List.getElem?_eq_none (by simpa using Nat.le_of_not_lt hik)]; rfl
    have e2 : A.getD ik [] = [] := by
      rw [List.getD_eq_getElem?_getD, List.getElem?_eq_none (Nat.le_of_not_lt hik)]; rfl
    rw [e1, e2]
    simp

/-- Re-ordering the components by a permutation of `0..R-1` does not change the tensor. -/
theorem arrange_get (K : Ktensor α) (p : List Nat) (hp : p.Perm (List.range K.weights.length))
    (i : List Nat) : (arrange K p).get i = K.get i := by
  have hlen : p.length = K.weights.length := by rw [hp.length_eq, List.length_range]
  unfold Ktensor.get Ktensor.ncomp Ktensor.comp arrange
  simp only [List.length_map]
  have e : ((List.range p.length).map fun r =>
        (p.map (vget K.weights)).getD r 0 *
          (List.zipWith (fun (A : Mat α) ik => A.get ik r)
            (K.factors.map fun A => A.map fun row => p.map (vget row)) i).prod) =
      (List.range p.length).map (fun s =>
        (fun r => K.weights.getD r 0 * (List.zipWith (fun (A : Mat α) ik => A.get ik r) K.factors i).prod)
          (p.getD s 0)) := by
    apply List.map_congr_left
    intro s hs
    have hs' : s < p.length := List.mem_range.mp hs
    congr 1
    · rw [List.getD_eq_getElem?_getD, List.getD_eq_getElem?_getD]
      simp [hs', vget]
    · rw [List.zipWith_map_left]
      congr 2
      funext A ik
      exact permcols_get A p ik s hs'
  rw [e, map_range_getD p
    (fun r => K.weights.getD r 0 * (List.zipWith (fun (A : Mat α) ik => A.get ik r) K.factors i).prod)]
  exact (hp.map _).sum_eq

theorem arrange_nfactors (K : Ktensor α) (p : List Nat) : (arrange K p).factors.length = K.factors.length := by
  simp [arrange]

theorem normalizeSort_get {K : Ktensor α} (h : NonnegK K) (hN : 0 < K.factors.length)
    (sortPerm : List α → List Nat) (hsp : ∀ w, (sortPerm w).Perm (List.range w.length)) (i : List Nat)
    (hi : i.length = K.factors.length) :
    (normalizeSort (NumOps.ofField log) sortPerm K).get i = K.get i := by
  unfold normalizeSort
  simp only
  split
  · rw [arrange_get _ _ (hsp _)]
    exact normalize1_get log h hN i hi
  · exact normalize1_get log h hN i hi

theorem normalizeSort_nfactors (o : NumOps α) (sortPerm : List α → List Nat) (K : Ktensor α) :
    (normalizeSort o sortPerm K).factors.length = K.factors.length := by
  unfold normalizeSort
  simp only
  split
  · rw [arrange_nfactors, normalize1_nfactors]
  · exact normalize1_nfactors o K

end denote

end Pyttb.CpApr
