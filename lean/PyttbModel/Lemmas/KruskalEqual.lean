/-
C08 lemmas: `isequal` decides equality of the stored weights and factor matrices.
-/
import PyttbModel.Lemmas.KruskalSigns
set_option linter.unusedSectionVars false
namespace Pyttb
namespace Ktensor

variable {α : Type}

theorem zipAll_eq_iff {β : Type} (P : β → β → Bool) (hP : ∀ a b, P a b = true ↔ a = b) (l1 l2 : List β) :
    (l1.length == l2.length && (l1.zip l2).all fun p => P p.1 p.2) = true ↔ l1 = l2 := by
  induction l1 generalizing l2 with
  | nil =>
    cases l2 with
    | nil => simp
    | cons b l2 => simp
  | cons a l1 ih =>
    cases l2 with
    | nil => simp
    | cons b l2 =>
      have := ih l2
      simp only [Bool.and_eq_true, beq_iff_eq] at this
      simp only [List.length_cons, List.zip_cons_cons, List.all_cons, Bool.and_eq_true, beq_iff_eq,
        Nat.add_right_cancel_iff, List.cons.injEq, hP]
      constructor
      · rintro ⟨h1, h2, h3⟩
        exact ⟨h2, this.1 ⟨h1, h3⟩⟩
      · rintro ⟨h1, h2⟩
        have := this.2 h2
        exact ⟨this.1, h1, this.2⟩

theorem rangeAll_eq_iff {β : Type} (Q : β → β → Bool) (hQ : ∀ a b, Q a b = true ↔ a = b) (d : β)
    (l1 l2 : List β) (hl : l1.length = l2.length) :
    ((List.range l1.length).all fun k => Q (l1.getD k d) (l2.getD k d)) = true ↔ l1 = l2 := by
  rw [List.all_eq_true]
  constructor
  · intro h
    apply List.ext_getElem hl
    intro k h1 h2
    have := (hQ _ _).1 (h k (List.mem_range.2 h1))
    simpa [List.getD_eq_getElem?_getD, h1, h2] using this
  · rintro rfl k _
    exact (hQ _ _).2 rfl

section field
variable [Field α] [LinearOrder α] [IsStrictOrderedRing α]

theorem isequal_iff (K L : Ktensor α) : isequal K L = .ok true ↔ K = L := by
  have hrow : ∀ r1 r2 : List α,
      (r1.length == r2.length && (r1.zip r2).all fun q => numEq q.1 q.2) = true ↔ r1 = r2 :=
    zipAll_eq_iff _ numEq_iff
  have hmat : ∀ A B : Mat α,
      (A.length == B.length && (A.zip B).all fun p =>
        p.1.length == p.2.length && (p.1.zip p.2).all fun q => numEq q.1 q.2) = true ↔ A = B :=
    zipAll_eq_iff _ hrow
  have hw : (K.weights.length == L.weights.length && (K.weights.zip L.weights).all fun p => numEq p.1 p.2) = true
      ↔ K.weights = L.weights := zipAll_eq_iff _ numEq_iff _ _
  constructor
  · intro h
    unfold isequal isequalG at h
    split at h
    · cases h
    · split at h
      · cases h
      · rename_i hnd
        split at h
        · cases h
        · rename_i hwt
          split at h
          · cases h
          · injection h with h
            have hnd' : K.factors.length = L.factors.length := by simpa [ndims] using hnd
            have hwt' := hw.1 (by simpa using hwt)
            have hf := (rangeAll_eq_iff _ hmat [] K.factors L.factors hnd').1 h
            cases K; cases L
            simp only at hwt' hf
            rw [hwt', hf]
  · rintro rfl
    unfold isequal isequalG
    have h1 : (K.ncomp != K.ncomp) = false := by simp
    have h2 : (true && K.ndims != K.ndims) = false := by simp
    have h3 := hw.2
    simp only [h1, h2, Bool.false_eq_true, if_false, Nat.lt_irrefl, decide_false]
    rw [if_neg (by simpa using (zipAll_eq_iff _ numEq_iff K.weights K.weights).2 rfl)]
    congr 1
    exact (rangeAll_eq_iff _ hmat [] K.factors K.factors rfl).2 rfl

/-- `isequal` never raises (the order test comes first). -/
theorem isequal_total (K L : Ktensor α) : ∃ b, isequal K L = .ok b := by
  unfold isequal isequalG
  split
  · exact ⟨_, rfl⟩
  · split
    · exact ⟨_, rfl⟩
    · rename_i hnd
      split
      · exact ⟨_, rfl⟩
      · split
        · rename_i hlt
          exfalso
          have : K.ndims = L.ndims := by simpa using hnd
          have hlt' := of_decide_eq_true hlt
          omega
        · exact ⟨_, rfl⟩

end field
end Ktensor
end Pyttb
