/-
C04, the step in front of the operation models: `get_index_variant` sends every documented
spelling of a key to the access kind of the key, `__setitem__` then runs the operation model
of that key, an unrecognised key object is refused; `sptensor.extract` answers both of its
argument conventions with the cells of the specification.
-/
import PyttbModel.Ops.IndexForms
import PyttbModel.Lemmas.MutArraySparse
set_option linter.unusedSimpArgs false
set_option linter.unusedVariables false
set_option linter.unusedSectionVars false

namespace Pyttb

variable {α : Type}

theorem any_seq_map_pyInt (is : List Int) :
    (is.map fun _ => KElem.pyInt).any (· == KElem.seq) = false := by
  induction is with
  | nil => rfl
  | cons a t ih => simp only [List.map_cons, List.any_cons, ih, Bool.or_false]; rfl

theorem getIndexVariant_of_form (k : Key) (o : KeyObj) (h : o ∈ k.forms) :
    getIndexVariant o = .ok k.variant := by
  cases k with
  | lin i =>
    simp only [Key.forms, List.mem_cons, List.mem_nil_iff, or_false] at h
    rcases h with h | h <;> subst h <;> rfl
  | linSlice a b c =>
    simp only [Key.forms, List.mem_cons, List.mem_nil_iff, or_false] at h
    subst h; rfl
  | linList is =>
    simp only [Key.forms, List.mem_cons] at h
    rcases h with h | h
    · subst h; rfl
    · cases is with
      | nil => simp at h
      | cons a t =>
        simp only [List.isEmpty_cons, Bool.false_eq_true, if_false, List.mem_cons, List.mem_nil_iff,
          or_false, List.map_cons] at h
        subst h
        simp only [getIndexVariant, any_seq_map_pyInt, Bool.false_eq_true, if_false, Key.variant]
  | subs rows =>
    simp only [Key.forms, List.mem_cons, List.mem_nil_iff, or_false] at h
    subst h; rfl
  | region parts =>
    simp only [Key.forms, List.mem_cons, List.mem_nil_iff, or_false] at h
    subst h; rfl

/-- Exactly which key objects the dispatcher does not recognise. -/
theorem getIndexVariant_unknown_iff (o : KeyObj) :
    getIndexVariant o = .ok .unknown ↔
      o = .other ∨ ∃ e es, o = .seq (e :: es) ∧ e ≠ .pyInt := by
  constructor
  · intro h
    cases o with
    | pyInt => cases h
    | npInt => cases h
    | slice => cases h
    | ndarray d =>
      simp only [getIndexVariant] at h
      split at h <;> cases h
    | tuple => cases h
    | other => exact Or.inl rfl
    | seq elems =>
      right
      cases elems with
      | nil => cases h
      | cons e es =>
        refine ⟨e, es, rfl, ?_⟩
        intro he
        subst he
        simp only [getIndexVariant] at h
        split at h <;> cases h
  · rintro (h | ⟨e, es, h, he⟩)
    · subst h; rfl
    · subst h
      cases e with
      | pyInt => exact absurd rfl he
      | npInt => rfl
      | pyFloat => rfl
      | seq => rfl
      | other => rfl

theorem Dense.setItemObj_of_form [Zero α] (T : Dense α) (k : Key) (o : KeyObj) (rhs : Rhs α)
    (h : o ∈ k.forms) : T.setItemObj o k rhs = T.setItem k rhs := by
  unfold Dense.setItemObj
  rw [getIndexVariant_of_form k o h]
  cases k <;> rfl

theorem Dense.setItemObj_unknown [Zero α] (T : Dense α) (k : Key) (o : KeyObj) (rhs : Rhs α)
    (h : getIndexVariant o = .ok .unknown) : T.setItemObj o k rhs = .error .reject := by
  unfold Dense.setItemObj
  rw [h]

theorem Sparse.setItemObj_of_form [Zero α] [BEq α] (S : Sparse α) (k : Key) (o : KeyObj) (rhs : Rhs α)
    (h : o ∈ k.forms) : S.setItemObj o k rhs = S.setItem k rhs := by
  unfold Sparse.setItemObj
  rw [getIndexVariant_of_form k o h]
  by_cases he : (S.vals.isEmpty && rhs.isEmptyValue) = true
  · rw [if_pos he]
    unfold Sparse.setItem
    rw [if_pos he]
  · rw [if_neg he]
    cases k <;> simp [Key.variant]

theorem Sparse.setItemObj_unknown [Zero α] [BEq α] (S : Sparse α) (k : Key) (o : KeyObj) (rhs : Rhs α)
    (h : getIndexVariant o = .ok .unknown) (hne : (S.vals.isEmpty && rhs.isEmptyValue) = false) :
    S.setItemObj o k rhs = .error .reject := by
  unfold Sparse.setItemObj
  rw [h, hne]
  rfl

section
variable [AddMonoid α] [DecidableEq α]

theorem Sparse.extractArg_eq {S : Sparse α} {m : MArr α} (h : SRel S m) (a : SubsArg) :
    S.extractArg a =
      if a.rows.any (fun r => !inBounds m.shape r) then .error .reject else .ok (a.rows.map m.get) :=
  Sparse.extract_eq h a.rows

end

end Pyttb
