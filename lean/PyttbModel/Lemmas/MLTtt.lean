/-
C02 — dense `ttt`: two matricizations, a matrix product, fold back.
-/
import PyttbModel.Lemmas.MLDenseOps
namespace Pyttb
namespace ML

variable {α : Type}

theorem toTenmat_cdims [Zero α] (T : Dense α) (c : List Nat) (hc : ∀ x ∈ c, x < T.shape.length) :
    T.toTenmat none (some c) none = T.toTenmat (some (complDims T.shape.length c)) (some c) none := by
  have h1 : c.all (· < T.shape.length) = true := by
    rw [List.all_eq_true]; intro x hx; simpa using hc x hx
  have h2 : (complDims T.shape.length c).all (· < T.shape.length) = true := by
    rw [List.all_eq_true]; intro x hx; simpa using (mem_complDims.1 hx).1
  unfold Dense.toTenmat
  simp [gatherWrapDims, h1, h2]

theorem gatherWrapDims_rdims (n : Nat) (r : List Nat) :
    gatherWrapDims n (some r) none none = .ok (r, complDims n r) := by
  unfold gatherWrapDims
  match r with
  | [] => rfl
  | [_] => rfl
  | _ :: _ :: _ => rfl

theorem toTenmat_rdims [Zero α] (T : Dense α) (r : List Nat) (hr : ∀ x ∈ r, x < T.shape.length) :
    T.toTenmat (some r) none none = T.toTenmat (some r) (some (complDims T.shape.length r)) none := by
  have h1 : r.all (· < T.shape.length) = true := by
    rw [List.all_eq_true]; intro x hx; simpa using hr x hx
  have h2 : (complDims T.shape.length r).all (· < T.shape.length) = true := by
    rw [List.all_eq_true]; intro x hx; simpa using (mem_complDims.1 hx).1
  have h3 : gatherWrapDims T.shape.length (some r) (some (complDims T.shape.length r)) none =
      .ok (r, complDims T.shape.length r) := rfl
  unfold Dense.toTenmat
  simp only [gatherWrapDims_rdims, h3, h1, h2, Option.isNone_some, Option.isNone_none, Bool.false_and,
    Bool.not_true, Bool.or_self, Bool.false_eq_true, if_false, Bool.not_true, Bool.or_false]


theorem gather_append_left (l1 l2 : List Nat) : gather (l1 ++ l2) (List.range l1.length) = l1 := by
  conv => rhs; rw [← gather_range l1]
  apply gather_congr
  intro k hk
  have := List.mem_range.1 hk
  rw [List.getD_eq_getElem?_getD, List.getElem?_append_left this, ← List.getD_eq_getElem?_getD]

theorem gather_append_right (l1 l2 : List Nat) :
    gather (l1 ++ l2) ((List.range l2.length).map (· + l1.length)) = l2 := by
  conv => rhs; rw [← gather_range l2]
  unfold gather
  rw [List.map_map]
  apply List.map_congr_left
  intro k _
  simp only [Function.comp_apply]
  rw [List.getD_eq_getElem?_getD, List.getElem?_append_right (by omega), Nat.add_sub_cancel,
    ← List.getD_eq_getElem?_getD]

theorem isPermOf_blocks (nr nc : Nat) :
    isPermOf (List.range nr ++ (List.range nc).map (· + nr)) (nr + nc) = true := by
  have : List.range nr ++ (List.range nc).map (· + nr) = List.range (nr + nc) := by
    rw [List.range_add]
    congr 1
    apply List.map_congr_left
    intro k _; omega
  rw [this]; exact isPermOf_range _

/-- Entry of a transposed tensor read through its F-order data, block form. -/
theorem transpose_data_getD [Zero α] (T : Dense α) (r c : List Nat) (hp : isPermOf (r ++ c) T.shape.length = true)
    (a b : List Nat) (ha : InBounds (gather T.shape r) a) (hb : InBounds (gather T.shape c) b) :
    (T.transpose (r ++ c)).data.getD (sub2ind (gather T.shape r) a + numel (gather T.shape r) * sub2ind (gather T.shape c) b) 0
      = T.get (gather (a ++ b) (invPerm (r ++ c))) := by
  have hab : InBounds (gather T.shape (r ++ c)) (a ++ b) := by
    rw [gather_append]; exact InBounds_append ha hb
  rw [← Dense.transpose_get_c01 T (r ++ c) (a ++ b) hab]
  show _ = (T.transpose (r ++ c)).data.getD (sub2ind (gather T.shape (r ++ c)) (a ++ b)) 0
  rw [gather_append, sub2ind_append _ _ _ _ ha.length_eq]

/-- **Dense `ttt`**: outer product (no modes listed), contraction over the listed pairs of modes, and
the scalar case when nothing is left. -/
theorem dense_ttt_spec [CommSemiring α] (X Y : Dense α) (hX : X.WF) (hY : Y.WF) (xd yd : List Nat)
    (hxnd : xd.Nodup) (hxlt : ∀ d ∈ xd, d < X.shape.length)
    (hynd : yd.Nodup) (hylt : ∀ d ∈ yd, d < Y.shape.length)
    (hcom : gather X.shape xd = gather Y.shape yd) :
    ∃ r, X.ttt Y xd yd = .ok r ∧ r.toRes.shape = Spec.tttShape X.shape Y.shape xd yd ∧
      ∀ a b, InBounds (gather X.shape (complDims X.shape.length xd)) a →
        InBounds (gather Y.shape (complDims Y.shape.length yd)) b →
        r.toRes.get (a ++ b) = Spec.ttt X.den Y.den xd yd a b := by
  set remX := complDims X.shape.length xd with hremX
  set remY := complDims Y.shape.length yd with hremY
  set sA := gather X.shape remX with hsA
  set sB := gather Y.shape remY with hsB
  have pX : isPermOf (remX ++ xd) X.shape.length = true := isPermOf_compl_append _ xd hxnd hxlt
  have pY' : isPermOf (remY ++ yd) Y.shape.length = true := isPermOf_compl_append _ yd hynd hylt
  have pY : isPermOf (yd ++ remY) Y.shape.length = true := by
    rw [isPermOf_iff_perm] at pY' ⊢
    exact pY'.trans List.perm_append_comm
  -- the value of the matrix product at the cell of (a, b)
  have hval : ∀ a b, InBounds sA a → InBounds sB b →
      sumRange (numel (gather X.shape xd)) (fun c =>
        (reshape2 (X.transpose (remX ++ xd)).data (numel sA) (numel (gather X.shape xd))).get (sub2ind sA a) c *
        (reshape2 (Y.transpose (yd ++ remY)).data (numel (gather X.shape xd)) (numel sB)).get c (sub2ind sB b)) =
      Spec.ttt X.den Y.den xd yd a b := by
    intro a b ha hb
    have hia : sub2ind sA a < numel sA := sub2ind_lt ha
    have hib : sub2ind sB b < numel sB := sub2ind_lt hb
    unfold sumRange
    rw [sum_range_allSubs (gather X.shape xd)]
    unfold Spec.ttt Spec.sumOver
    show _ = ((Spec.fiber X.shape remX a).map _).sum
    rw [fiber_sum X.shape remX xd a pX ha]
    apply sum_congr
    intro j hj
    have hjb := mem_allSubs.1 hj
    have hjl : sub2ind (gather X.shape xd) j < numel (gather X.shape xd) := sub2ind_lt hjb
    have hal : a.length = remX.length := by rw [ha.length_eq, length_gather]
    have hjlen : j.length = xd.length := by rw [hjb.length_eq, length_gather]
    have hbl : b.length = remY.length := by rw [hb.length_eq, length_gather]
    have hjlen' : j.length = yd.length := by rw [hjb.length_eq, hcom, length_gather]
    rw [reshape2_get _ _ _ _ _ hia hjl, reshape2_get _ _ _ _ _ hjl hib,
      transpose_data_getD X remX xd pX a j ha hjb]
    have hjbY : InBounds (gather Y.shape yd) j := by rw [← hcom]; exact hjb
    have hB := transpose_data_getD Y yd remY pY j b hjbY hb
    rw [← hcom] at hB
    rw [hB]
    -- the inner sum of the specification has exactly one term
    set kx := gather (a ++ j) (invPerm (remX ++ xd)) with hkx
    have hkxd : gather kx xd = j := (gather_unperm_left pX hal hjlen).2
    show _ = (((Spec.fiber Y.shape remY b).filter fun ky => gather ky yd == gather kx xd).map
      fun ky => X.get kx * Y.get ky).sum
    rw [sum_filter, fiber_sum Y.shape remY yd b pY' hb, hkxd]
    have hsingle := sum_single' (allSubs (gather Y.shape yd)) (allSubs_nodup _) j
      (fun j' => X.get kx * Y.get (gather (b ++ j') (invPerm (remY ++ yd)))) (mem_allSubs.2 hjbY)
    have hky : gather (b ++ j) (invPerm (remY ++ yd)) = gather (j ++ b) (invPerm (yd ++ remY)) := by
      have h1 := gather_unperm_left pY' hbl hjlen'
      have h2 := gather_unperm_left pY hjlen' hbl
      have hl1 : (gather (b ++ j) (invPerm (remY ++ yd))).length = Y.shape.length := by
        rw [length_gather, length_invPerm, isPermOf_length_eq pY']
      have hl2 : (gather (j ++ b) (invPerm (yd ++ remY))).length = Y.shape.length := by
        rw [length_gather, length_invPerm, isPermOf_length_eq pY]
      apply gather_perm_inj pY hl1 hl2
      rw [gather_append, gather_append, h1.1, h1.2, h2.1, h2.2]
    rw [← hky, ← hsingle]
    apply sum_congr
    intro j' hj'
    have hj'l : j'.length = yd.length := by rw [(mem_allSubs.1 hj').length_eq, length_gather]
    rw [(gather_unperm_left pY' hbl hj'l).2]
    by_cases h : j' = j
    · simp [h]
    · simp [h]
  -- run the model
  have hA := toTenmat_ok X remX xd hX pX
  have hB := toTenmat_ok Y yd remY hY pY
  have g1 : (xd.any (· ≥ X.shape.length) || yd.any (· ≥ Y.shape.length)) = false := by
    rw [Bool.or_eq_false_iff, List.any_eq_false, List.any_eq_false]
    exact ⟨fun d hd => by simpa using hxlt d hd, fun d hd => by simpa using hylt d hd⟩
  have g2 : (gather X.shape xd != gather Y.shape yd) = false := by rw [hcom]; exact bne_self_eq_false _
  have g3 : (numel (gather X.shape xd) != numel (gather Y.shape yd)) = false := by rw [hcom]; exact bne_self_eq_false _
  unfold Dense.ttt
  rw [g1, toTenmat_cdims X xd hxlt, toTenmat_rdims Y yd hylt, hA, hB]
  simp only [Bool.false_eq_true, if_false, g2, List.getD_cons_zero, List.getD_cons_succ, g3]
  by_cases hemp : (sA ++ sB).isEmpty = true
  · rw [if_pos hemp]
    have hnil : sA ++ sB = [] := List.isEmpty_iff.1 hemp
    have hA0 : sA = [] := (List.append_eq_nil_iff.1 hnil).1
    have hB0 : sB = [] := (List.append_eq_nil_iff.1 hnil).2
    refine ⟨_, rfl, by simp [ScalarOr.toRes, ML.Res.shape, Spec.tttShape, ← hremX, ← hremY, ← hsA, ← hsB, hnil], ?_⟩
    intro a b ha hb
    have ha0 : a = [] := by rw [hA0] at ha; cases a <;> simp_all [InBounds]
    have hb0 : b = [] := by rw [hB0] at hb; cases b <;> simp_all [InBounds]
    subst ha0; subst hb0
    simp only [ScalarOr.toRes, ML.Res.get]
    have h1 : (0 : Nat) < numel sA := by rw [hA0]; simp
    have h2 : (0 : Nat) < numel sB := by rw [hB0]; simp
    rw [mulD_get _ _ _ _ _ _ _ h1 h2]
    have := hval [] [] (by rw [hA0]; trivial) (by rw [hB0]; trivial)
    have e1 : sub2ind sA [] = 0 := by rw [hA0]; rfl
    have e2 : sub2ind sB [] = 0 := by rw [hB0]; rfl
    rw [e1, e2] at this
    exact this
  · rw [if_neg hemp]
    have hnr : remX.length = sA.length := by rw [hsA, length_gather]
    have hnc : remY.length = sB.length := by rw [hsB, length_gather]
    have hgr : gather (sA ++ sB) (List.range remX.length) = sA := by rw [hnr]; exact gather_append_left sA sB
    have hgc : gather (sA ++ sB) ((List.range remY.length).map (· + remX.length)) = sB := by
      rw [hnr, hnc]; exact gather_append_right sA sB
    have hpb : isPermOf (List.range remX.length ++ (List.range remY.length).map (· + remX.length))
        (sA ++ sB).length = true := by
      rw [List.length_append, ← hnr, ← hnc]; exact isPermOf_blocks _ _
    refine ⟨_, rfl, ?_, ?_⟩
    · simp only [ScalarOr.toRes, ML.Res.shape]
      unfold Tenmat.toTensor; simp only; split <;> rfl
    · intro a b ha hb
      simp only [ScalarOr.toRes, ML.Res.get]
      have hab : InBounds (sA ++ sB) (a ++ b) := InBounds_append ha hb
      set Cd := (Mat.mulD (reshape2 (X.transpose (remX ++ xd)).data (numel sA) (numel (gather X.shape xd)))
             (reshape2 (Y.transpose (yd ++ remY)).data (numel (gather X.shape xd)) (numel sB)) (numel sA)
             (numel (gather X.shape xd)) (numel sB)).flatF (numel sA) (numel sB) with hCd
      show (Tenmat.toTensor ⟨sA ++ sB, List.range remX.length, (List.range remY.length).map (· + remX.length),
        ⟨[numel sA, numel sB], Cd⟩⟩).get (a ++ b) = _
      have hform : (⟨[numel sA, numel sB], Cd⟩ : Dense α) =
          ⟨[numel (gather (sA ++ sB) (List.range remX.length)),
            numel (gather (sA ++ sB) ((List.range remY.length).map (· + remX.length)))], Cd⟩ := by rw [hgr, hgc]
      rw [hform, toTensor_get (sA ++ sB) _ _ _ hpb (a ++ b) hab, hgr, hgc]
      have hga : gather (a ++ b) (List.range remX.length) = a := by
        rw [hnr, ← ha.length_eq]; exact gather_append_left a b
      have hgb : gather (a ++ b) ((List.range remY.length).map (· + remX.length)) = b := by
        rw [hnr, hnc, ← ha.length_eq, ← hb.length_eq]; exact gather_append_right a b
      rw [hga, hgb, hCd, flatF_getD _ _ _ _ _ (sub2ind_lt ha) (sub2ind_lt hb),
        mulD_get _ _ _ _ _ _ _ (sub2ind_lt ha) (sub2ind_lt hb)]
      exact hval a b ha hb

end ML
end Pyttb
