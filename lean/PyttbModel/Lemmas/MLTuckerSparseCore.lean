/-
C02 — Tucker tensors with a SPARSE core: `ttv` goes through the sparse kernel (the new core may be
a scalar, dense or sparse); the result denotes what the dense-core computation denotes.
-/
import PyttbModel.Lemmas.MLTuckerSparse
namespace Pyttb
namespace MLK
open ML

variable {α : Type}

/-- What a Tucker tensor with a sparse core denotes: `Σ_j G[j] ∏ₙ Uₙ[iₙ, jₙ]`. -/
def tsGet [Add α] [Mul α] [One α] [Zero α] (T : TtensorS α) (i : List Nat) : α :=
  ((allSubs T.core.shape).map fun j =>
    T.core.get j * (List.zipWith (fun (U : Mat α) (p : Nat × Nat) => Mat.get U p.1 p.2) T.factors (i.zip j)).prod).sum

def tsShape (T : TtensorS α) : List Nat := T.factors.map List.length

/-- Denotation of a scalar / dense-core / sparse-core Tucker result. -/
def tanyGet [Add α] [Mul α] [One α] [Zero α] : ScalarOr α (TuckerAny α) → List Nat → α
  | .scalar v, _ => v
  | .obj (.denseCore t), i => t.get i
  | .obj (.sparseCore t), i => tsGet t i

/-- A Tucker tensor with a sparse core denotes what the one with the expanded core denotes. -/
theorem tsGet_eq_full [CommSemiring α] [DecidableEq α] (T : TtensorS α) (hS : T.core.WF) (i : List Nat) :
    tsGet T i = (⟨T.core.full, T.factors⟩ : Ttensor α).get i := by
  unfold tsGet Ttensor.get
  show _ = ((allSubs T.core.shape).map _).sum
  apply sum_congr
  intro j hj
  rw [(sp_full_at T.core hS j (mem_allSubs.1 hj)).1]

theorem spec_ttv_congr [CommSemiring α] (X Y : Den α) (hs : X.shape = Y.shape)
    (hg : ∀ k, InBounds X.shape k → X.get k = Y.get k) (sel : List Nat) (w : Nat → Nat → α) (i : List Nat) :
    Spec.ttv X sel w i = Spec.ttv Y sel w i := by
  unfold Spec.ttv Spec.sumOver Spec.fiber
  rw [← hs]
  apply sum_congr
  intro k hk
  rw [hg k (mem_allSubs.1 (List.mem_filter.1 hk).1)]

/-- The constructor the sparse `ttv` kernel returns is decided by whether a mode is left. -/
theorem sparse_ttvCore_ctor [Add α] [Mul α] [Zero α] [BEq α] (S : Sparse α) (pairs : List (Nat × List α)) (r : ML.Res α)
    (h : S.ttvCore pairs = .ok r) :
    ((complDims S.shape.length (pairs.map (·.1))).isEmpty = true → ∃ v, r = .scalar v) ∧
    ((complDims S.shape.length (pairs.map (·.1))).isEmpty = false → (∃ t, r = .dense t) ∨ (∃ s, r = .sparse s)) := by
  unfold Sparse.ttvCore at h
  simp only at h
  split at h
  · cases h
  · split at h
    · cases h
    · split at h
      · rename_i he
        injection h with h
        exact ⟨fun _ => ⟨_, h.symm⟩, fun hne => by rw [he] at hne; cases hne⟩
      · rename_i he
        refine ⟨fun hemp => absurd hemp he, fun _ => ?_⟩
        split at h
        · split at h
          · injection h with h; exact Or.inr ⟨_, h.symm⟩
          · split at h
            · injection h with h; exact Or.inr ⟨_, h.symm⟩
            · injection h with h; exact Or.inl ⟨_, h.symm⟩
        · split at h
          · injection h with h; exact Or.inl ⟨_, h.symm⟩
          · injection h with h; exact Or.inr ⟨_, h.symm⟩


/-- **`ttensor.ttv` with a sparse core**: the selected factors are contracted with their vectors, the
core goes through the sparse `ttv` kernel (scalar / densified / kept sparse); the result — a scalar
exactly when every mode is selected — denotes `Σ_{k ∈ fiber} ⟦T⟧[k]·∏_d v_d[k_d]`. -/
theorem tuckerS_ttvCore_spec [CommSemiring α] [DecidableEq α] (T : TtensorS α) (hS : T.core.WF)
    (hlenT : T.factors.length = T.core.shape.length)
    (hcols : ∀ d, d < T.factors.length → (T.factors.getD d []).ncols = T.core.shape.getD d 0)
    (pairs : List (Nat × List α))
    (hnd : (pairs.map (·.1)).Nodup) (hlt : ∀ p ∈ pairs, p.1 < T.factors.length)
    (hlen : ∀ p ∈ pairs, p.2.length = (T.factors.getD p.1 []).length)
    (w : Nat → Nat → α) (hw : ∀ p ∈ pairs, ∀ k, w p.1 k = p.2.getD k 0) :
    ∃ r, T.ttvCore pairs = .ok r ∧
      ((∃ v, r = .scalar v) ↔ complDims T.factors.length (pairs.map (·.1)) = []) ∧
      ∀ i, InBounds (Spec.ttvShape (tsShape T) (pairs.map (·.1))) i →
        tanyGet r i = Spec.ttv ⟨tsShape T, tsGet T⟩ (pairs.map (·.1)) w i := by
  set Td : Ttensor α := ⟨T.core.full, T.factors⟩ with hTdd
  have hTd : TuckerWF Td := ⟨full_WF T.core, hlenT, hcols⟩
  set sel := pairs.map (·.1) with hsel
  set N := T.factors.length with hN
  set rem := complDims N sel with hrem
  obtain ⟨rd, erd, shd, scd, gd⟩ := tucker_ttvCore_spec Td hTd pairs hnd hlt
    (by intro p hp; rw [tshape_getD]; exact hlen p hp) w hw
  have hden : ∀ i, Spec.ttv ⟨tsShape T, tsGet T⟩ sel w i = Spec.ttv Td.den sel w i :=
    fun i => spec_ttv_congr (⟨tsShape T, tsGet T⟩ : Den α) Td.den (by rfl) (fun k _ => tsGet_eq_full T hS k) sel w i
  set W : List (Nat × List α) :=
    pairs.map fun p => (p.1, (T.factors.getD p.1 []).tmulVec p.2 (T.core.shape.getD p.1 0)) with hW
  have hWk : W.map (·.1) = sel := by rw [hW, List.map_map]; rfl
  have hWnd : (W.map (·.1)).Nodup := by rw [hWk]; exact hnd
  have hWlt : ∀ q ∈ W, q.1 < T.core.shape.length := by
    intro q hq
    obtain ⟨p, hp, rfl⟩ := List.mem_map.1 hq
    rw [← hlenT]; exact hlt p hp
  have hWlen : ∀ q ∈ W, q.2.length = T.core.shape.getD q.1 0 := by
    intro q hq
    obtain ⟨p, hp, rfl⟩ := List.mem_map.1 hq
    simp [Mat.tmulVec]
  set wW : Nat → Nat → α := fun d k => ((W.lookup d).getD []).getD k 0 with hwW
  have hwWs : ∀ q ∈ W, ∀ k, wW q.1 k = q.2.getD k 0 := by
    intro q hq k
    rw [hwW]
    simp only
    rw [lookup_of_mem_nodup W hWnd q.1 q.2 hq]
    rfl
  obtain ⟨rs, ers, shs, gs⟩ := sparse_ttvCore_spec T.core hS W hWnd hWlt hWlen wW hwWs
  obtain ⟨rdc, erdc, shdc, gdc⟩ := dense_ttvCore_spec T.core.full (full_WF T.core) W hWnd hWlt hWlen wW hwWs
  have hcore : ∀ j, InBounds (Spec.ttvShape T.core.shape (W.map (·.1))) j → rs.get j = rdc.toRes.get j := by
    intro j hj
    rw [gs j (by rw [shs]; exact hj), gdc j (by rw [shdc]; exact hj)]
    exact spec_ttv_congr T.core.den T.core.full.den rfl (fun k hk => ((sp_full_at T.core hS k hk).1).symm) _ _ _
  have hshape : Spec.ttvShape T.core.shape (W.map (·.1)) = gather T.core.shape rem := by
    unfold Spec.ttvShape; rw [hWk, ← hlenT]
  obtain ⟨kind1, kind2⟩ := sparse_ttvCore_ctor T.core W rs ers
  rw [hWk, ← hlenT] at kind1 kind2
  have hguard : (pairs.any fun p => p.2.length != (T.factors.getD p.1 []).length) = false := by
    rw [List.any_eq_false]; intro p hp; simp [hlen p hp]
  have hevalD : Td.ttvCore pairs = (match rdc with
      | .scalar v => if rem.isEmpty then .ok (.scalar v) else .error .reject
      | .obj c => if rem.isEmpty then .error .reject else .ok (.obj ⟨c, gatherD T.factors rem []⟩)) := by
    have hguardD : (pairs.any fun p => p.2.length != (Td.factors.getD p.1 []).length) = false := hguard
    unfold Ttensor.ttvCore
    simp only [hguardD, Bool.false_eq_true, if_false]
    show (match T.core.full.ttvCore W with | .error e => _ | .ok (.scalar v) => _ | .ok (.obj c) => _) = _
    rw [erdc]
    cases rdc <;> rfl
  have hevalS : T.ttvCore pairs = (match rs with
      | .scalar v => if rem.isEmpty then .ok (.scalar v) else .error .reject
      | .dense c => if rem.isEmpty then .error .reject else .ok (.obj (.denseCore ⟨c, gatherD T.factors rem []⟩))
      | .sparse c => if rem.isEmpty then .error .reject else .ok (.obj (.sparseCore ⟨c, gatherD T.factors rem []⟩))
      | .vec v => if rem.isEmpty then .error .reject
                  else .ok (.obj (.denseCore ⟨⟨[v.length], v⟩, gatherD T.factors rem []⟩))) := by
    unfold TtensorS.ttvCore
    simp only [hguard, Bool.false_eq_true, if_false]
    show (match T.core.ttvCore W with
      | .error e => _ | .ok (.scalar v) => _ | .ok (.dense c) => _ | .ok (.sparse c) => _ | .ok (.vec v) => _) = _
    rw [ers]
    cases rs <;> rfl
  rw [hevalD] at erd
  by_cases hre : rem.isEmpty = true
  · -- every mode selected: scalars
    obtain ⟨vs, hvs⟩ := kind1 hre
    have hrem0 : rem = [] := List.isEmpty_iff.1 hre
    subst hvs
    cases rdc with
    | obj c => simp only [hre, if_true] at erd; cases erd
    | scalar vd =>
      simp only [hre, if_true] at erd
      injection erd with erd
      refine ⟨.scalar vs, by rw [hevalS]; simp only [hre, if_true], ⟨fun _ => hrem0, fun _ => ⟨vs, rfl⟩⟩, ?_⟩
      intro i hi
      have hi0 : i = [] := by
        have : Spec.ttvShape (tsShape T) sel = [] := by
          unfold Spec.ttvShape tsShape
          rw [List.length_map, ← hN, ← hrem, hrem0]; rfl
        rw [this] at hi
        cases i <;> simp_all [InBounds]
      subst hi0
      have h1 := hcore [] (by rw [hshape, hrem0]; trivial)
      have h2 := gd [] (by rw [← erd]; trivial)
      rw [← erd] at h2
      show vs = _
      rw [hden, ← h2]
      exact h1
  · -- a mode is left: Tucker results
    have hre' : rem.isEmpty = false := by simpa using hre
    have hne : rem ≠ [] := fun h => by rw [h] at hre'; cases hre'
    cases rdc with
    | scalar vd => simp only [hre', Bool.false_eq_true, if_false] at erd; cases erd
    | obj cd =>
      simp only [hre', Bool.false_eq_true, if_false] at erd
      injection erd with erd
      have hcdshape : cd.shape = gather T.core.shape rem :=
        (show cd.shape = Spec.ttvShape T.core.shape (W.map (·.1)) from shdc).trans hshape
      -- the two Tucker results denote the same array when their cores do
      have hsame : ∀ (cshape : List Nat) (cget : List Nat → α), cshape = gather T.core.shape rem →
          (∀ j, InBounds (gather T.core.shape rem) j → cget j = cd.get j) → ∀ i,
          ((allSubs cshape).map fun j => cget j *
            (List.zipWith (fun (U : Mat α) (p : Nat × Nat) => Mat.get U p.1 p.2) (gatherD T.factors rem []) (i.zip j)).prod).sum =
          (⟨cd, gatherD T.factors rem []⟩ : Ttensor α).get i := by
        intro cshape cget hcs hcg i
        unfold Ttensor.get
        show _ = ((allSubs cd.shape).map _).sum
        rw [hcs, hcdshape]
        apply sum_congr
        intro j hj
        rw [hcg j (mem_allSubs.1 hj)]
      have hfin : ∀ i, InBounds (Spec.ttvShape (tsShape T) sel) i →
          (⟨cd, gatherD T.factors rem []⟩ : Ttensor α).get i = Spec.ttv ⟨tsShape T, tsGet T⟩ sel w i := by
        intro i hi
        have := gd i (by rw [shd]; exact hi)
        rw [← erd] at this
        rw [hden]; exact this
      rcases kind2 hre' with ⟨c, hc⟩ | ⟨c, hc⟩
      · subst hc
        have hcs : c.shape = gather T.core.shape rem := by rw [← hshape, ← shs]; rfl
        refine ⟨.obj (.denseCore ⟨c, gatherD T.factors rem []⟩), by rw [hevalS]; simp only [hre', Bool.false_eq_true, if_false],
          ⟨fun ⟨_, h⟩ => (by cases h), fun h => absurd h hne⟩, ?_⟩
        intro i hi
        rw [← hfin i hi]
        exact hsame c.shape c.get hcs (fun j hj => hcore j (by rw [hshape]; exact hj)) i
      · subst hc
        have hcs : c.shape = gather T.core.shape rem := by rw [← hshape, ← shs]; rfl
        refine ⟨.obj (.sparseCore ⟨c, gatherD T.factors rem []⟩), by rw [hevalS]; simp only [hre', Bool.false_eq_true, if_false],
          ⟨fun ⟨_, h⟩ => (by cases h), fun h => absurd h hne⟩, ?_⟩
        intro i hi
        rw [← hfin i hi]
        exact hsame c.shape c.get hcs (fun j hj => hcore j (by rw [hshape]; exact hj)) i

end MLK
end Pyttb
