/-
A concrete instance for the non-vacuity example of `C18_relabel_hosvd`: the `2 × 1` array `[[3], [4]]`, the
relabelling `p = [1, 0]`, requested ranks `[1, 1]`, and a service `eighE1` that is deliberately NOT an
eigen-solver (the theorem assumes nothing about `eigh`); both variants of the run return.
-/
import PyttbModel.Lemmas.PresentationHosvd

set_option linter.unusedSimpArgs false
namespace Pyttb
namespace Tk

/-- one "eigenvalue", the first unit vector — whatever the matrix -/
noncomputable def eighE1 : Nat → Mat ℝ → List ℝ × Mat ℝ := fun _ Z =>
  ([1], (List.range Z.length).map fun i => [if i = 0 then 1 else 0])

/-- the `2 × 1` array `[[3], [4]]` -/
def X21 : Dense ℝ := ⟨[2, 1], [3, 4]⟩

theorem X21_WF : X21.WF := by
  show [(3 : ℝ), 4].length = numel [2, 1]
  decide

theorem allSubs_11 : allSubs [1, 1] = [[0, 0]] := by decide
theorem allSubs_21 : allSubs [2, 1] = [[0, 0], [1, 0]] := by decide

theorem hosvd21_ok (seq : Bool) : ∃ out, hosvdRun realOps eighE1 X21 0 (some [1, 0]) seq (some [1, 1]) = .ok out := by
  cases seq with
  | true =>
    cases h : hosvdRun realOps eighE1 X21 0 (some [1, 0]) true (some [1, 1]) with
    | ok out => exact ⟨out, rfl⟩
    | error e =>
      exfalso
      simp [hosvdRun, X21, reqRanks, ranksExceed, modeOrder, isPermOf, hosvdStep, eighE1, gramMode, argsortDesc,
        chooseRank, Gen.autoMarker, Gen.sliceBound, matCols, ttm, ttmT, Mat.transpose, Mat.nrows, Mat.ncols, Dense.ofFn,
        allSubs_11, allSubs_21, List.range_succ, mkTtensor, bind, Except.bind, pure, Except.pure, List.foldlM,
        Mat.get, Dense.get, sub2ind] at h
  | false =>
    cases h : hosvdRun realOps eighE1 X21 0 (some [1, 0]) false (some [1, 1]) with
    | ok out => exact ⟨out, rfl⟩
    | error e =>
      exfalso
      simp [hosvdRun, X21, reqRanks, ranksExceed, modeOrder, isPermOf, hosvdStep, eighE1, gramMode, argsortDesc,
        chooseRank, Gen.autoMarker, Gen.sliceBound, matCols, ttm, ttmT, ttmAll, ttmDims, ttmPairs, Mat.transpose,
        Mat.nrows, Mat.ncols, Dense.ofFn, allSubs_11, allSubs_21, List.range_succ, mkTtensor, bind, Except.bind, pure,
        Except.pure, List.foldlM, Mat.get, Dense.get, sub2ind] at h

end Tk
end Pyttb
