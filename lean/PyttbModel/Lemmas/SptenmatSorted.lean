/-
C06, canonical stored order of a sparse matricized tensor: `np.unique(axis=0)` (copying
constructor, `copy`, `+M`, `-M`) and the `np.lexsort` of `__setitem__` leave the triples sorted
by (row, column), so two receivers that store the same triples in different orders get
LITERALLY the same result — the same lists in the same order.
-/
import PyttbModel.Lemmas.SptenmatOps
set_option linter.unusedSimpArgs false
set_option linter.unusedVariables false
set_option linter.unusedSectionVars false
namespace Pyttb
variable {α : Type}

/-! ### `lexLt` is a strict total order on subscript rows -/

theorem lexLt_irrefl (a : List Nat) : lexLt a a = false := by
  induction a with
  | nil => rfl
  | cons x a ih => simp [lexLt, ih]

theorem lexLt_asymm {a b : List Nat} (h : lexLt a b = true) : lexLt b a = false := by
  induction a generalizing b with
  | nil => cases b <;> simp [lexLt] at h ⊢
  | cons x a ih =>
    cases b with
    | nil => simp [lexLt] at h
    | cons y b =>
      simp only [lexLt, Bool.or_eq_true, decide_eq_true_eq, Bool.and_eq_true, beq_iff_eq] at h
      simp only [lexLt, Bool.or_eq_false_iff, decide_eq_false_iff_not, Bool.and_eq_false_iff, beq_eq_false_iff_ne]
      rcases h with h | ⟨rfl, h⟩
      · exact ⟨by omega, Or.inl (by omega)⟩
      · exact ⟨by omega, Or.inr (ih h)⟩

theorem lexLt_trans {a b c : List Nat} (h1 : lexLt a b = true) (h2 : lexLt b c = true) : lexLt a c = true := by
  induction a generalizing b c with
  | nil =>
    cases b with
    | nil => simp [lexLt] at h1
    | cons y b => cases c with
      | nil => simp [lexLt] at h2
      | cons z c => simp [lexLt]
  | cons x a ih =>
    cases b with
    | nil => simp [lexLt] at h1
    | cons y b =>
      cases c with
      | nil => simp [lexLt] at h2
      | cons z c =>
        simp only [lexLt, Bool.or_eq_true, decide_eq_true_eq, Bool.and_eq_true, beq_iff_eq] at h1 h2 ⊢
        rcases h1 with h1 | ⟨rfl, h1⟩ <;> rcases h2 with h2 | ⟨rfl, h2⟩
        · exact Or.inl (by omega)
        · exact Or.inl h1
        · exact Or.inl h2
        · exact Or.inr ⟨rfl, ih h1 h2⟩

theorem lexLt_trichotomy {a b : List Nat} (h1 : lexLt a b = false) (h2 : lexLt b a = false) : a = b := by
  induction a generalizing b with
  | nil => cases b with
    | nil => rfl
    | cons y b => simp [lexLt] at h1
  | cons x a ih =>
    cases b with
    | nil => simp [lexLt] at h2
    | cons y b =>
      simp only [lexLt, Bool.or_eq_false_iff, decide_eq_false_iff_not, Bool.and_eq_false_iff,
        beq_eq_false_iff_ne, ne_eq] at h1 h2
      have hxy : x = y := by omega
      subst hxy
      have e1 : lexLt a b = false := by
        rcases h1.2 with h | h
        · exact absurd rfl h
        · exact h
      have e2 : lexLt b a = false := by
        rcases h2.2 with h | h
        · exact absurd rfl h
        · exact h
      rw [ih e1 e2]

/-- the order `np.unique` / `np.lexsort` sort by: "not after". -/
def rowLe (a b : List Nat) : Bool := !lexLt b a

theorem rowLe_trans (a b c : List Nat) (h1 : rowLe a b = true) (h2 : rowLe b c = true) : rowLe a c = true := by
  simp only [rowLe, Bool.not_eq_true'] at h1 h2 ⊢
  cases hca : lexLt c a with
  | false => rfl
  | true =>
    exfalso
    cases hab : lexLt a b with
    | true =>
      have := lexLt_trans hca hab
      rw [h2] at this; cases this
    | false =>
      have e := lexLt_trichotomy hab h1
      subst e
      rw [h2] at hca; cases hca

theorem rowLe_total (a b : List Nat) : (rowLe a b || rowLe b a) = true := by
  simp only [rowLe, Bool.or_eq_true, Bool.not_eq_true']
  cases h : lexLt b a with
  | false => exact Or.inl rfl
  | true => exact Or.inr (lexLt_asymm h)

theorem rowLe_antisymm {a b : List Nat} (h1 : rowLe a b = true) (h2 : rowLe b a = true) : a = b := by
  simp only [rowLe, Bool.not_eq_true'] at h1 h2
  exact lexLt_trichotomy h2 h1

/-! ### sorting is canonical -/

/-- `np.unique(axis=0)` of the same rows in another order is the same list. -/
theorem uniqueRowsSorted_of_perm {l l' : List (List Nat)} (h : l'.Perm l) :
    uniqueRowsSorted l' = uniqueRowsSorted l := by
  unfold uniqueRowsSorted
  congr 1
  have hs : ∀ m : List (List Nat), (m.mergeSort fun a b => !lexLt b a).Pairwise (fun a b => rowLe a b = true) :=
    fun m => List.pairwise_mergeSort (le := fun a b => !lexLt b a) rowLe_trans rowLe_total m
  apply List.Perm.eq_of_pairwise (le := fun a b => rowLe a b = true) (fun a b _ _ h1 h2 => rowLe_antisymm h1 h2) (hs l') (hs l)
  exact (List.mergeSort_perm _ _).trans (h.trans (List.mergeSort_perm _ _).symm)

/-- the stable sort of `__setitem__` on triples with pairwise distinct (row, column) pairs:
the same triples in another order give the same list. -/
theorem sortEntries_of_perm {es es' : List (List Nat × α)} (h : es'.Perm es) (hn : (es.map (·.1)).Nodup) :
    Sptenmat.sortEntries es' = Sptenmat.sortEntries es := by
  unfold Sptenmat.sortEntries
  have htr : ∀ a b c : List Nat × α, (!lexLt b.1 a.1) = true → (!lexLt c.1 b.1) = true → (!lexLt c.1 a.1) = true :=
    fun a b c h1 h2 => rowLe_trans a.1 b.1 c.1 h1 h2
  have hto : ∀ a b : List Nat × α, ((!lexLt b.1 a.1) || (!lexLt a.1 b.1)) = true := fun a b => rowLe_total a.1 b.1
  have hs : ∀ m : List (List Nat × α), (m.mergeSort fun a b => !lexLt b.1 a.1).Pairwise
      (fun a b => rowLe a.1 b.1 = true) :=
    fun m => by
      have := List.pairwise_mergeSort (le := fun (a b : List Nat × α) => !lexLt b.1 a.1) htr hto m
      exact this
  have hp : (es'.mergeSort fun a b => !lexLt b.1 a.1).Perm (es.mergeSort fun a b => !lexLt b.1 a.1) :=
    (List.mergeSort_perm _ _).trans (h.trans (List.mergeSort_perm _ _).symm)
  apply List.Perm.eq_of_pairwise (le := fun a b => rowLe a.1 b.1 = true) _ (hs es') (hs es) hp
  intro a b ha hb h1 h2
  have hk : a.1 = b.1 := rowLe_antisymm h1 h2
  have ha' : a ∈ es := (List.mergeSort_perm _ _).subset (hp.subset ha)
  have hb' : b ∈ es := (List.mergeSort_perm _ _).subset hb
  obtain ⟨a1, a2⟩ := a
  obtain ⟨b1, b2⟩ := b
  simp only at hk
  subst hk
  rw [nodup_keys_unique hn ha' hb']

namespace Sptenmat

/-! ### `copy` is literally the same for every stored order -/

section copy
variable [AddCommMonoid α] [DecidableEq α]

theorem aggregateSum_of_perm {subs subs' : List (List Nat)} {vals vals' : List α}
    (hp : (subs'.zip vals').Perm (subs.zip vals)) (hs : subs'.Perm subs) :
    aggregateSum subs' vals' = aggregateSum subs vals := by
  unfold aggregateSum
  rw [uniqueRowsSorted_of_perm hs]
  apply List.map_congr_left
  intro r _
  congr 1
  exact ((hp.filter _).map _).sum_eq

/-- `M.copy()` (hence `+M`, `-M`, `copy.deepcopy(M)`) returns literally the same object — or
the same refusal — for every stored order of the receiver's triples. -/
theorem copy_eq_of_sameUpToOrder (M M' : Sptenmat α) (hl : M.subs.length = M.vals.length)
    (hs : SameUpToOrder M' M) : M'.copy = M.copy := by
  obtain ⟨t1, t2, t3, _, hl', hp⟩ := hs
  have hps : M'.subs.Perm M.subs := perm_subs_of_entries (S' := M'.mat) (S := M.mat) hl' hl hp
  have hpv : M'.vals.Perm M.vals := perm_vals_of_entries (S' := M'.mat) (S := M.mat) hl' hl hp
  have hany : ∀ f : List Nat → Bool, M'.subs.any f = M.subs.any f := by
    intro f
    rw [Bool.eq_iff_iff, List.any_eq_true, List.any_eq_true]
    constructor
    · rintro ⟨x, hx, h⟩; exact ⟨x, hps.mem_iff.1 hx, h⟩
    · rintro ⟨x, hx, h⟩; exact ⟨x, hps.mem_iff.2 hx, h⟩
  unfold copy Sptenmat.mkCopy
  rw [t1, t2, t3, hany, hany, hany, hps.length_eq, hpv.length_eq,
    aggregateSum_of_perm (subs := M.subs) (subs' := M'.subs) (vals := M.vals) (vals' := M'.vals) hp hps]

end copy

theorem neg_eq_of_sameUpToOrder [Ring α] [DecidableEq α] (M M' : Sptenmat α) (hl : M.subs.length = M.vals.length)
    (hs : SameUpToOrder M' M) : M'.neg = M.neg := by
  unfold neg
  rw [copy_eq_of_sameUpToOrder M M' hl hs]

/-! ### `isequal` -/

section iseq
variable [AddCommMonoid α] [DecidableEq α]

/-- `isequal` gives the same answer (or raises alike) whatever the stored order of the
receiver and of the argument. -/
theorem isequal_of_sameUpToOrder (M M' N N' : Sptenmat α) (hlM : M.subs.length = M.vals.length)
    (hlN : N.subs.length = N.vals.length) (hM : SameUpToOrder M' M) (hN : SameUpToOrder N' N) :
    M'.isequal N' = M.isequal N := by
  unfold isequal
  rw [copy_eq_of_sameUpToOrder M M' hlM hM, copy_eq_of_sameUpToOrder N N' hlN hN, hM.1, hM.2.1, hM.2.2.1,
    hN.1, hN.2.1, hN.2.2.1]

/-- For well-formed operands with proper mode splits `isequal` answers, and it says `True`
exactly when the two objects have the same tensor shape, the same mode split and denote the
same matrix. -/
theorem isequal_spec (M N : Sptenmat α) (hM : M.mat.WF) (hN : N.mat.WF)
    (hpM : isPermOf (M.rdims ++ M.cdims) M.tshape.length = true)
    (hpN : isPermOf (N.rdims ++ N.cdims) N.tshape.length = true) :
    ∃ b, M.isequal N = .ok b ∧
      (b = true ↔ M.tshape = N.tshape ∧ M.rdims = N.rdims ∧ M.cdims = N.cdims ∧
        ∀ i, M.mat.get i = N.mat.get i) := by
  obtain ⟨A, hA⟩ := copy_ok M hM hpM
  obtain ⟨B, hB⟩ := copy_ok N hN hpN
  obtain ⟨wA, a1, a2, a3, gA⟩ := copy_spec M A hA
  obtain ⟨wB, b1, b2, b3, gB⟩ := copy_spec N B hB
  refine ⟨_, by unfold isequal; rw [hA, hB], ?_⟩
  simp only [Bool.and_eq_true, beq_iff_eq]
  constructor
  · rintro ⟨⟨⟨⟨hv, hs⟩, ht⟩, hc⟩, hr⟩
    refine ⟨ht, hr, hc, fun i => ?_⟩
    rw [← gA i, ← gB i]
    have hsh : A.mshape = B.mshape := by unfold Sptenmat.mshape; rw [a1, a2, a3, b1, b2, b3, ht, hr, hc]
    show Sparse.get ⟨A.mshape, A.subs, A.vals⟩ i = Sparse.get ⟨B.mshape, B.subs, B.vals⟩ i
    rw [hv, hs, hsh]
  · rintro ⟨ht, hr, hc, hg⟩
    -- same matrix, both well-formed: the same triples up to order, hence the same copy
    have hsh : N.mshape = M.mshape := by unfold Sptenmat.mshape; rw [ht, hr, hc]
    have hre : Reorder N.mat M.mat :=
      reorder_of_get_eq M.mat N.mat hM hN hsh (fun i _ => (hg i).symm)
    have hsame : SameUpToOrder N M := ⟨ht.symm, hr.symm, hc.symm, hre⟩
    have hcopy := copy_eq_of_sameUpToOrder M N hM.len hsame
    rw [hA, hB] at hcopy
    cases hcopy
    exact ⟨⟨⟨⟨rfl, rfl⟩, ht⟩, hc⟩, hr⟩

end iseq

/-! ### `__setitem__` that appends a pair leaves literally the same object -/

/-- When the assignment appends at least one pair (so the triples are re-sorted), the stored
result does not depend on the stored order of the receiver. -/
theorem setApply_eq_of_appended [Zero α] [BEq α] (M M' : Sptenmat α) (cvs : List (List Nat × α)) (hM : M.mat.WF)
    (hs : SameUpToOrder M' M) (hnew : freshOf M.subs cvs ≠ []) :
    M'.setApply cvs = M.setApply cvs := by
  have hl : M.subs.length = M.vals.length := hM.len
  obtain ⟨t1, t2, t3, r⟩ := hs
  have hl' : M'.subs.length = M'.vals.length := r.2.1
  have hperm := (loopResult_perm M M' cvs hl r).2.2
  rw [loopResult_entries M' cvs hl', loopResult_entries M cvs hl] at hperm
  have hps : M'.subs.Perm M.subs := perm_subs_of_entries (S' := M'.mat) (S := M.mat) hl' hl r.2.2
  have hf : freshOf M'.subs cvs = freshOf M.subs cvs := freshOf_perm hps cvs
  -- keys of the loop result are pairwise distinct
  have hkeys : (((M.mat.entries.map fun e => (e.1, updVal cvs e.1 e.2)) ++ newOf M.subs cvs).map (·.1)).Nodup := by
    rw [← loopResult_entries M cvs hl, (loopResult M cvs).entries_keys (loopResult_len M cvs hl)]
    exact loopResult_keys_nodup M cvs hM
  have hne : (newOf M.subs cvs).isEmpty = false := by
    have : newOf M.subs cvs ≠ [] := fun h => hnew ((newOf_eq_nil_iff _ _).1 h)
    simpa using this
  have hsort := sortEntries_of_perm hperm hkeys
  unfold setApply
  simp only [setLoop, setLoop_fold M'.subs cvs M'.vals [] hl', setLoop_fold M.subs cvs M.vals [] hl, hf]
  have hne' : (List.foldl addNew [] (freshOf M.subs cvs)).isEmpty = false := hne
  simp only [hne', Bool.false_eq_true, if_false]
  rw [zip_zipWith_left, zip_zipWith_left]
  have hf' : newOf M'.subs cvs = newOf M.subs cvs := by unfold newOf; rw [hf]
  rw [hf'] at hsort
  simp only [mat, Sparse.entries, newOf] at hsort
  rw [hsort, t1, t2, t3]

end Sptenmat
end Pyttb
