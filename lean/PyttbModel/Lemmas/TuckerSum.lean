/-
C10 — sums over all subscripts of a shape as nested finite sums, and how such a sum splits
off one mode.  Everything here is about `ℝ`-valued functions of subscripts.
-/
import PyttbModel.Lemmas.Idx
import PyttbModel.Lemmas.Arr
import Mathlib.Algebra.BigOperators.Group.Finset.Basic
import Mathlib.Algebra.BigOperators.Ring.Finset
import Mathlib.Algebra.Order.BigOperators.Group.Finset
import Mathlib.Data.Real.Basic
import Mathlib.Tactic.Ring
import Mathlib.Tactic.Linarith
namespace Pyttb
namespace Tk
open Finset

/-- Sum of `f` over all subscripts of shape `s`, as nested sums (first mode outermost). -/
def sumSubs : List Nat → (List Nat → ℝ) → ℝ
  | [], f => f []
  | a :: s, f => ∑ i ∈ range a, sumSubs s (fun t => f (i :: t))

theorem list_sum_range (n : Nat) (f : Nat → ℝ) : ((List.range n).map f).sum = ∑ i ∈ range n, f i := by
  induction n with
  | zero => simp
  | succ n ih => simp [List.range_succ, Finset.sum_range_succ, ih]

theorem list_sum_map_finset_sum {β : Type} (l : List β) (S : Finset Nat) (g : Nat → β → ℝ) :
    (l.map fun t => ∑ i ∈ S, g i t).sum = ∑ i ∈ S, (l.map (g i)).sum := by
  induction l with
  | nil => simp
  | cons x l ih => simp [ih, Finset.sum_add_distrib]

theorem list_sum_flatMap {β γ : Type} (l : List β) (g : β → List γ) (f : γ → ℝ) :
    ((l.flatMap g).map f).sum = (l.map fun t => ((g t).map f).sum).sum := by
  induction l with
  | nil => simp
  | cons x l ih => simp [ih]

/-- The list sum over `allSubs s` is the nested sum. -/
theorem sum_allSubs (s : List Nat) (f : List Nat → ℝ) : ((allSubs s).map f).sum = sumSubs s f := by
  induction s generalizing f with
  | nil => simp [allSubs, numel, ind2sub, sumSubs]
  | cons a s ih =>
    rw [allSubs_cons, list_sum_flatMap]
    simp only [List.map_map, Function.comp_def, list_sum_range]
    rw [list_sum_map_finset_sum]
    simp only [sumSubs]
    apply Finset.sum_congr rfl
    intro i _
    exact ih _

theorem sumSubs_congr {s : List Nat} {f g : List Nat → ℝ} (h : ∀ j, InBounds s j → f j = g j) :
    sumSubs s f = sumSubs s g := by
  induction s generalizing f g with
  | nil => exact h [] (by simp [InBounds])
  | cons a s ih =>
    simp only [sumSubs]
    apply Finset.sum_congr rfl
    intro i hi
    apply ih
    intro t ht
    exact h (i :: t) ⟨Finset.mem_range.1 hi, ht⟩

theorem sumSubs_add (s : List Nat) (f g : List Nat → ℝ) :
    sumSubs s (fun j => f j + g j) = sumSubs s f + sumSubs s g := by
  induction s generalizing f g with
  | nil => rfl
  | cons a s ih => simp only [sumSubs, ih, Finset.sum_add_distrib]

theorem sumSubs_sub (s : List Nat) (f g : List Nat → ℝ) :
    sumSubs s (fun j => f j - g j) = sumSubs s f - sumSubs s g := by
  induction s generalizing f g with
  | nil => rfl
  | cons a s ih => simp only [sumSubs, ih, Finset.sum_sub_distrib]

theorem sumSubs_mul_left (s : List Nat) (c : ℝ) (f : List Nat → ℝ) :
    sumSubs s (fun j => c * f j) = c * sumSubs s f := by
  induction s generalizing f with
  | nil => rfl
  | cons a s ih => simp only [sumSubs, ih, Finset.mul_sum]

theorem sumSubs_finset_sum (s : List Nat) (S : Finset Nat) (g : Nat → List Nat → ℝ) :
    sumSubs s (fun j => ∑ x ∈ S, g x j) = ∑ x ∈ S, sumSubs s (g x) := by
  induction s generalizing g with
  | nil => rfl
  | cons a s ih =>
    simp only [sumSubs, ih]
    exact Finset.sum_comm

theorem sumSubs_nonneg {s : List Nat} {f : List Nat → ℝ} (h : ∀ j, 0 ≤ f j) : 0 ≤ sumSubs s f := by
  induction s generalizing f with
  | nil => exact h []
  | cons a s ih =>
    simp only [sumSubs]
    exact Finset.sum_nonneg fun i _ => ih fun t => h (i :: t)

theorem sumSubs_le {s : List Nat} {f g : List Nat → ℝ} (h : ∀ j, InBounds s j → f j ≤ g j) :
    sumSubs s f ≤ sumSubs s g := by
  induction s generalizing f g with
  | nil => exact h [] (by simp [InBounds])
  | cons a s ih =>
    simp only [sumSubs]
    apply Finset.sum_le_sum
    intro i hi
    apply ih
    intro t ht
    exact h (i :: t) ⟨Finset.mem_range.1 hi, ht⟩

/-- Splitting off mode `k`: a sum over all subscripts is the sum over the subscripts of the
other modes (mode `k` frozen at extent 1) of the sum over the `k`-th coordinate. -/
theorem sumSubs_split (s : List Nat) (k : Nat) (hk : k < s.length) (F : List Nat → ℝ) :
    sumSubs s F = sumSubs (s.set k 1) (fun j0 => ∑ a ∈ range (s.getD k 0), F (j0.set k a)) := by
  induction s generalizing k F with
  | nil => simp at hk
  | cons b s ih =>
    cases k with
    | zero =>
      simp only [List.set_cons_zero, sumSubs, List.getD_cons_zero, Finset.range_one, Finset.sum_singleton]
      rw [sumSubs_finset_sum]
    | succ k =>
      simp only [List.length_cons, Nat.add_lt_add_iff_right] at hk
      simp only [List.set_cons_succ, sumSubs, List.getD_cons_succ]
      apply Finset.sum_congr rfl
      intro i _
      exact ih k hk _

/-! ### subscripts and `set` -/

theorem inBounds_set {s j : List Nat} {k x y b : Nat} (h : InBounds (s.set k x) j) (hb : b < y) :
    InBounds (s.set k y) (j.set k b) := by
  induction s generalizing j k with
  | nil => cases j <;> simp_all [InBounds]
  | cons a s ih =>
    cases j with
    | nil => cases k <;> simp [InBounds] at h
    | cons c j =>
      cases k with
      | zero => simp only [List.set_cons_zero, InBounds] at h ⊢; exact ⟨hb, h.2⟩
      | succ k => simp only [List.set_cons_succ, InBounds] at h ⊢; exact ⟨h.1, ih h.2⟩

theorem inBounds_set' {s j : List Nat} {k y b : Nat} (h : InBounds s j) (hb : b < y) :
    InBounds (s.set k y) (j.set k b) := by
  have : InBounds (s.set k (s.getD k 0)) j := by
    have e : s.set k (s.getD k 0) = s := by
      apply List.ext_getElem (by simp)
      intro i h1 h2
      simp only [List.getElem_set]
      split
      · subst_vars; simp [List.getD_eq_getElem?_getD, List.getElem?_eq_getElem (by simpa using h2)]
      · rfl
    rw [e]; exact h
  exact inBounds_set this hb

theorem inBounds_getD {s j : List Nat} {k : Nat} (h : InBounds s j) (hk : k < s.length) :
    j.getD k 0 < s.getD k 0 := by
  induction s generalizing j k with
  | nil => simp at hk
  | cons a s ih =>
    cases j with
    | nil => simp [InBounds] at h
    | cons c j =>
      cases k with
      | zero => simpa using h.1
      | succ k =>
        simp only [List.length_cons, Nat.add_lt_add_iff_right] at hk
        simpa using ih h.2 hk

theorem getD_set_self {l : List Nat} {k x : Nat} (hk : k < l.length) : (l.set k x).getD k 0 = x := by
  simp [List.getD_eq_getElem?_getD, List.getElem?_set, hk]

theorem getD_set_ne {l : List Nat} {k m x : Nat} (h : k ≠ m) : (l.set k x).getD m 0 = l.getD m 0 := by
  simp [List.getD_eq_getElem?_getD, List.getElem?_set, h]

theorem ofFn_congr {s : List Nat} {f g : List Nat → ℝ} (h : ∀ j, InBounds s j → f j = g j) :
    Dense.ofFn s f = Dense.ofFn s g := by
  simp only [Dense.ofFn]
  congr 1
  apply List.map_congr_left
  intro j hj
  exact h j (mem_allSubs.1 hj)

end Tk
end Pyttb
