/-
C02 — `ttv` as the user calls it: mode designation + kernel, dense and sparse.
-/
import PyttbModel.Lemmas.MLModes
import PyttbModel.Lemmas.MLSparse
namespace Pyttb
namespace ML

variable {α : Type}

theorem complDims_perm {N : Nat} {a b : List Nat} (h : a.Perm b) : complDims N a = complDims N b := by
  unfold complDims
  apply List.filter_congr
  intro k _
  have : a.contains k = b.contains k := by
    rw [Bool.eq_iff_iff, List.contains_iff_mem, List.contains_iff_mem]
    exact h.mem_iff
  rw [this]

/-- The value of `ttv` depends on the SET of selected modes, not on their order. -/
theorem spec_ttv_perm [CommSemiring α] (X : Den α) {a b : List Nat} (h : a.Perm b) (w : Nat → Nat → α)
    (i : List Nat) : Spec.ttv X a w i = Spec.ttv X b w i := by
  unfold Spec.ttv
  rw [complDims_perm h]
  unfold Spec.sumOver
  apply sum_congr
  intro k _
  unfold Spec.selProd
  rw [(h.map _).prod_eq]

theorem spec_ttvShape_perm (s : List Nat) {a b : List Nat} (h : a.Perm b) :
    Spec.ttvShape s a = Spec.ttvShape s b := by
  unfold Spec.ttvShape
  rw [complDims_perm h]

/-- Facts about resolved pairs that every `ttv` kernel needs, from the user-level facts. -/
theorem pairs_facts {β : Type} (shape : List Nat) (sizeOf : β → Nat) (d : List Nat) (vs : List β)
    (pairs : List (Nat × β)) (hd : d.Nodup) (hN : ∀ x ∈ d, x < shape.length) (hl : vs.length = d.length)
    (hsz : ∀ p ∈ d.zip vs, sizeOf p.2 = shape.getD p.1 0)
    (hs : (pairs.map (·.1)).Pairwise (· < ·)) (hp : pairs.Perm (d.zip vs)) :
    (pairs.map (·.1)).Nodup ∧ (∀ p ∈ pairs, p.1 < shape.length) ∧
    (∀ p ∈ pairs, sizeOf p.2 = shape.getD p.1 0) ∧ (pairs.map (·.1)).Perm d := by
  have hfst : (pairs.map (·.1)).Perm d := by
    have := hp.map Prod.fst
    rwa [List.map_fst_zip (Nat.le_of_eq hl.symm)] at this
  refine ⟨hs.imp (fun h => Nat.ne_of_lt h), ?_, ?_, hfst⟩
  · intro p hp'
    exact hN p.1 (hfst.subset (List.mem_map_of_mem hp'))
  · intro p hp'
    exact hsz p (hp.subset hp')

/-- **Dense `ttv`, one vector per listed mode** (`dims` in any order). -/
theorem dense_ttv_dims [CommSemiring α] (T : Dense α) (hT : T.WF) (d : List Nat) (vs : List (List α))
    (hd : d.Nodup) (hN : ∀ x ∈ d, x < T.shape.length) (hl : vs.length = d.length)
    (hsz : ∀ p ∈ d.zip vs, p.2.length = T.shape.getD p.1 0)
    (w : Nat → Nat → α) (hw : ∀ p ∈ d.zip vs, ∀ k, w p.1 k = p.2.getD k 0) :
    ∃ r, T.ttv vs (some (d.map Int.ofNat)) none = .ok r ∧ r.toRes.shape = Spec.ttvShape T.shape d ∧
      ∀ i, InBounds r.toRes.shape i → r.toRes.get i = Spec.ttv T.den d w i := by
  obtain ⟨pairs, e, hs, hp⟩ := resolve_dims_P T.shape.length vs d hd hN hl
  obtain ⟨f1, f2, f3, f4⟩ := pairs_facts T.shape List.length d vs pairs hd hN hl hsz hs hp
  obtain ⟨r, hr, hsh, hg⟩ := dense_ttvCore_spec T hT pairs f1 f2 f3 w (fun p hp' => hw p (hp.subset hp'))
  refine ⟨r, by unfold Dense.ttv; rw [e]; exact hr, by rw [hsh, spec_ttvShape_perm _ f4], ?_⟩
  intro i hi
  rw [hg i hi, spec_ttv_perm _ f4]

/-- **Sparse `ttv`, one vector per listed mode** (`dims` in any order), all result kinds. -/
theorem sparse_ttv_dims [CommSemiring α] [DecidableEq α] (S : Sparse α) (hS : S.WF) (d : List Nat)
    (vs : List (List α))
    (hd : d.Nodup) (hN : ∀ x ∈ d, x < S.shape.length) (hl : vs.length = d.length)
    (hsz : ∀ p ∈ d.zip vs, p.2.length = S.shape.getD p.1 0)
    (w : Nat → Nat → α) (hw : ∀ p ∈ d.zip vs, ∀ k, w p.1 k = p.2.getD k 0) :
    ∃ r, S.ttv vs (some (d.map Int.ofNat)) none = .ok r ∧ r.shape = Spec.ttvShape S.shape d ∧
      ∀ i, InBounds r.shape i → r.get i = Spec.ttv S.den d w i := by
  obtain ⟨pairs, e, hs, hp⟩ := resolve_dims_P S.shape.length vs d hd hN hl
  obtain ⟨f1, f2, f3, f4⟩ := pairs_facts S.shape List.length d vs pairs hd hN hl hsz hs hp
  obtain ⟨r, hr, hsh, hg⟩ := sparse_ttvCore_spec S hS pairs f1 f2 f3 w (fun p hp' => hw p (hp.subset hp'))
  refine ⟨r, by unfold Sparse.ttv; rw [e]; exact hr, by rw [hsh, spec_ttvShape_perm _ f4], ?_⟩
  intro i hi
  rw [hg i hi, spec_ttv_perm _ f4]

end ML
end Pyttb
