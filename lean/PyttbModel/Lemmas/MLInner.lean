/-
C02 — inner products and norms (dense, sparse).
-/
import PyttbModel.Lemmas.MLSparse
namespace Pyttb
namespace ML

variable {α : Type}

theorem zipWith_map_map {β γ δ ε : Type} (f : γ → δ → ε) (g : β → γ) (h : β → δ) (l : List β) :
    List.zipWith f (l.map g) (l.map h) = l.map fun x => f (g x) (h x) := by
  induction l with
  | nil => rfl
  | cons a l ih => simp [ih]

/-- **Dense inner product** `Σ_k A[k]·B[k]`. -/
theorem dense_innerprod_spec [CommSemiring α] (A B : Dense α) (hA : A.WF) (hB : B.WF) (hs : A.shape = B.shape) :
    A.innerprod B = .ok (Spec.inner A.den B.den) := by
  unfold Dense.innerprod
  have : (A.shape != B.shape) = false := by simp [hs]
  rw [this]
  simp only [Bool.false_eq_true, if_false]
  congr 1
  rw [Dense.data_eq_map_get A hA, Dense.data_eq_map_get B hB, ← hs, zipWith_map_map]
  rfl

theorem dense_innerprod_rejects [Add α] [Mul α] [Zero α] (A B : Dense α) (hs : A.shape ≠ B.shape) :
    A.innerprod B = .error .reject := by
  unfold Dense.innerprod
  have : (A.shape != B.shape) = true := by simp [hs]
  rw [this]; rfl

/-- **Dense norm**: the square of `norm()` is `Σ_k A[k]²`. -/
theorem dense_normSq_spec [CommSemiring α] (A : Dense α) (hA : A.WF) : A.normSq = Spec.normSq A.den := by
  unfold Dense.normSq
  rw [Dense.data_eq_map_get A hA, List.map_map]
  rfl

/-- Summing `S[k]·W(k)` over all cells, entry by entry of the stored list. -/
theorem sparse_all_sum [CommSemiring α] (E : List (List Nat × α)) (s : List Nat)
    (hinb : ∀ e ∈ E, InBounds s e.1) (W : List Nat → α) :
    ((allSubs s).map fun k => kvSum E k * W k).sum = (E.map fun e => e.2 * W e.1).sum := by
  have h := sparse_fiber_sum E s [] [] hinb W
  have hf : Spec.fiber s [] [] = allSubs s := by
    unfold Spec.fiber
    rw [List.filter_eq_self]; intro k _; rfl
  rw [hf] at h
  rw [h, kvSum_map_entries]
  have : E.filter (fun e => gather e.1 [] == []) = E := by
    rw [List.filter_eq_self]; intro e _; rfl
  rw [this]

theorem entries_inb [Zero α] [BEq α] (S : Sparse α) (hS : S.WF) : ∀ e ∈ S.entries, InBounds S.shape e.1 := by
  intro e he
  exact hS.inb e.1 (List.of_mem_zip (a := e.1) (b := e.2) he).1

theorem entries_nil_of_nnz [Zero α] [BEq α] (S : Sparse α) (h : (S.nnz == 0) = true) : S.entries = [] := by
  have : S.subs = [] := by
    have : S.subs.length = 0 := by simpa [Sparse.nnz] using h
    exact List.length_eq_zero_iff.1 this
  simp [Sparse.entries, this]

theorem lookup_eq_get [AddMonoid α] [DecidableEq α] (S : Sparse α) (hS : S.WF) (i : List Nat) :
    S.lookup i = S.get i := by
  show kvLast S.entries i = kvSum S.entries i
  apply kvLast_eq_kvSum
  rw [S.entries_keys hS.len]
  exact hS.nodup

/-- **Sparse · dense inner product**. -/
theorem sparse_innerprodDense_spec [CommSemiring α] [DecidableEq α] (S : Sparse α) (hS : S.WF) (D : Dense α)
    (hs : S.shape = D.shape) : S.innerprodDense D = .ok (Spec.inner S.den D.den) := by
  unfold Sparse.innerprodDense
  have hspec : Spec.inner S.den D.den = (S.entries.map fun e => e.2 * D.get e.1).sum :=
    sparse_all_sum S.entries S.shape (entries_inb S hS) D.get
  have : (S.shape != D.shape) = false := by simp [hs]
  rw [this]
  simp only [Bool.false_eq_true, if_false]
  by_cases h0 : (S.nnz == 0) = true
  · rw [if_pos h0, hspec, entries_nil_of_nnz S h0]; rfl
  · rw [if_neg h0]
    rw [hspec]
    congr 2
    apply List.map_congr_left
    intro e _
    exact mul_comm _ _

/-- **Sparse · sparse inner product**, both look-up directions. -/
theorem sparse_innerprodSparse_spec [CommSemiring α] [DecidableEq α] (S O : Sparse α) (hS : S.WF) (hO : O.WF)
    (hs : S.shape = O.shape) : S.innerprodSparse O = .ok (Spec.inner S.den O.den) := by
  unfold Sparse.innerprodSparse
  have hspec : Spec.inner S.den O.den = (S.entries.map fun e => e.2 * O.get e.1).sum :=
    sparse_all_sum S.entries S.shape (entries_inb S hS) O.get
  have hspec' : Spec.inner S.den O.den = (O.entries.map fun e => e.2 * S.get e.1).sum := by
    have := sparse_all_sum O.entries O.shape (entries_inb O hO) S.get
    rw [← this]
    show ((allSubs S.shape).map fun k => S.get k * O.get k).sum = _
    rw [hs]
    apply sum_congr
    intro k _
    exact mul_comm _ _
  have : (S.shape != O.shape) = false := by simp [hs]
  rw [this]
  simp only [Bool.false_eq_true, if_false]
  by_cases h0 : (S.nnz == 0) = true
  · rw [if_pos h0, hspec, entries_nil_of_nnz S h0]; rfl
  · rw [if_neg h0]
    by_cases h1 : (O.nnz == 0) = true
    · rw [if_pos h1, hspec', entries_nil_of_nnz O h1]; rfl
    · rw [if_neg h1]
      by_cases h2 : S.nnz < O.nnz
      · rw [if_pos h2, hspec]
        congr 2
        apply List.map_congr_left
        intro e _
        rw [lookup_eq_get O hO, mul_comm]
      · rw [if_neg h2, hspec']
        congr 2
        apply List.map_congr_left
        intro e _
        rw [lookup_eq_get S hS]

/-- A function of the stored value, for duplicate-free keys. -/
theorem map_kvSum {β : Type} [AddMonoid α] [AddCommMonoid β] (G : α → β) (hG : G 0 = 0)
    (E : List (List Nat × α)) (hn : (E.map (·.1)).Nodup) (k : List Nat) :
    G (kvSum E k) = (E.map fun e => if e.1 = k then G e.2 else 0).sum := by
  induction E with
  | nil => simpa [kvSum_nil] using hG
  | cons e E ih =>
    simp only [List.map_cons, List.nodup_cons] at hn
    rw [kvSum_cons, List.map_cons, List.sum_cons]
    by_cases h : e.1 = k
    · rw [if_pos h, if_pos h, kvSum_of_not_mem E k (h ▸ hn.1), add_zero]
      have : (E.map fun e => if e.1 = k then G e.2 else 0).sum = 0 := by
        apply List.sum_eq_zero
        intro x hx
        obtain ⟨e', he', rfl⟩ := List.mem_map.1 hx
        have : e'.1 ≠ k := by
          intro h'
          apply hn.1
          rw [h, ← h']
          exact List.mem_map_of_mem he'
        rw [if_neg this]
      rw [this, add_zero]
    · rw [if_neg h, if_neg h, zero_add, zero_add, ih hn.2]

/-- **Sparse norm**: the square of `norm()` is `Σ_k S[k]²`. -/
theorem sparse_normSq_spec [CommSemiring α] [DecidableEq α] (S : Sparse α) (hS : S.WF) :
    S.normSq = Spec.normSq S.den := by
  have hkeys : (S.entries.map (·.1)).Nodup := by rw [S.entries_keys hS.len]; exact hS.nodup
  show _ = ((allSubs S.shape).map fun k => kvSum S.entries k * kvSum S.entries k).sum
  rw [List.map_congr_left (fun k _ => map_kvSum (fun v => v * v) (by simp) S.entries hkeys k)]
  rw [sum_comm]
  unfold Sparse.normSq
  have hv : S.vals = S.entries.map (·.2) := (List.map_snd_zip (Nat.le_of_eq hS.len.symm)).symm
  rw [hv, List.map_map]
  apply sum_congr
  intro e he
  have := sum_single' (allSubs S.shape) (allSubs_nodup _) e.1 (fun _ => e.2 * e.2)
    (mem_allSubs.2 (entries_inb S hS e he))
  show e.2 * e.2 = _
  conv => lhs; rw [← this]
  apply sum_congr
  intro k _
  by_cases h : e.1 = k
  · rw [if_pos h, if_pos h.symm]
  · rw [if_neg h, if_neg (fun h' => h h'.symm)]

end ML
end Pyttb
