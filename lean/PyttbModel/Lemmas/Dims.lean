import PyttbModel.Core.Rows
import PyttbModel.Core.Dims
import PyttbModel.Core.Arr
import PyttbModel.Lemmas.EraseDups
/-!
Lemmas about `argsortInt` and `dimscheck` (`tt_dimscheck`).  Core Lean only.
-/
namespace Pyttb

/-- the sorted (index,key) pairs behind `argsortInt`. -/
def sortedPairs (xs : List Int) : List (Nat × Int) :=
  ((List.range xs.length).zip xs).mergeSort (fun a b => a.2 ≤ b.2)

theorem argsortInt_eq (xs : List Int) : argsortInt xs = (sortedPairs xs).map (·.1) := rfl

theorem sortedPairs_perm (xs : List Int) : (sortedPairs xs).Perm ((List.range xs.length).zip xs) :=
  List.mergeSort_perm _ _

theorem sortedPairs_pairwise (xs : List Int) : (sortedPairs xs).Pairwise (fun a b => a.2 ≤ b.2) := by
  have := List.pairwise_mergeSort (le := fun (a b : Nat × Int) => decide (a.2 ≤ b.2))
    (fun a b c hab hbc => by simp only [decide_eq_true_eq] at *; omega)
    (fun a b => by simp only [Bool.or_eq_true, decide_eq_true_eq]; omega)
    ((List.range xs.length).zip xs)
  unfold sortedPairs
  exact this.imp (fun h => by simpa using h)

theorem zip_range_getD (xs : List Int) : ∀ p ∈ (List.range xs.length).zip xs, xs.getD p.1 0 = p.2 := by
  intro p hp
  obtain ⟨i, hi, rfl⟩ := List.mem_iff_getElem.1 hp
  simp only [List.length_zip, List.length_range, Nat.min_self] at hi
  simp [List.getD_eq_getElem?_getD, List.getElem?_eq_getElem hi]

theorem zip_range_map_snd (xs : List Int) : ((List.range xs.length).zip xs).map (·.2) = xs := by
  rw [List.map_snd_zip]; simp

theorem zip_range_map_fst (xs : List Int) : ((List.range xs.length).zip xs).map (·.1) = List.range xs.length := by
  rw [List.map_fst_zip]; simp

theorem argsortInt_perm (xs : List Int) : (argsortInt xs).Perm (List.range xs.length) := by
  rw [argsortInt_eq, ← zip_range_map_fst xs]
  exact (sortedPairs_perm xs).map _

/-- gathering the keys through the sorting permutation = second components of sorted pairs -/
theorem argsortInt_gather (xs : List Int) (f : Int → Nat) :
    (argsortInt xs).map (fun k => f (xs.getD k 0)) = (sortedPairs xs).map (fun p => f p.2) := by
  rw [argsortInt_eq, List.map_map]
  apply List.map_congr_left
  intro p hp
  have := zip_range_getD xs p ((sortedPairs_perm xs).mem_iff.1 hp)
  simp only [Function.comp, this]

theorem gather_perm (xs : List Int) (f : Int → Nat) :
    ((argsortInt xs).map (fun k => f (xs.getD k 0))).Perm (xs.map f) := by
  rw [argsortInt_gather]
  have := (sortedPairs_perm xs).map (fun p => f p.2)
  have e : ((List.range xs.length).zip xs).map (fun p => f p.2) = xs.map f := by
    conv => rhs; rw [← zip_range_map_snd xs, List.map_map]
    rfl
  rwa [e] at this

theorem gather_sorted (xs : List Int) :
    ((argsortInt xs).map (fun k => (xs.getD k 0).toNat)).Pairwise (· ≤ ·) := by
  rw [argsortInt_gather xs Int.toNat, List.pairwise_map]
  exact (sortedPairs_pairwise xs).imp (fun h => Int.toNat_le_toNat h)

/-- on an already sorted key list `argsortInt` is the identity permutation -/
theorem argsortInt_of_sorted (xs : List Int) (h : xs.Pairwise (· ≤ ·)) :
    argsortInt xs = List.range xs.length := by
  rw [argsortInt_eq]
  unfold sortedPairs
  rw [List.mergeSort_of_pairwise, zip_range_map_fst]
  have : (((List.range xs.length).zip xs).map (·.2)).Pairwise (· ≤ ·) := by
    rw [zip_range_map_snd]; exact h
  rw [List.pairwise_map] at this
  exact this.imp (fun h => by simpa using h)


theorem any_neg_ofNat (d : List Nat) : (d.map Int.ofNat).any (· < 0) = false := by
  rw [List.any_eq_false]
  intro x hx
  obtain ⟨n, _, rfl⟩ := List.mem_map.1 hx
  simp

theorem any_ge_ofNat (N : Nat) (d : List Nat) (hN : ∀ x ∈ d, x < N) :
    (d.map Int.ofNat).any (fun x => decide ((N : Int) ≤ x)) = false := by
  rw [List.any_eq_false]
  intro x hx
  obtain ⟨n, hn, rfl⟩ := List.mem_map.1 hx
  have := hN n hn
  simp; omega

theorem nodup_map_ofNat (d : List Nat) (hd : d.Nodup) : (d.map Int.ofNat).Nodup := by
  unfold List.Nodup
  rw [List.pairwise_map]
  exact hd.imp (fun h e => h (Int.ofNat.inj e))

theorem dups_ofNat (d : List Nat) (hd : d.Nodup) :
    ((d.map Int.ofNat).eraseDups.length != (d.map Int.ofNat).length) = false :=
  eraseDups_length_bne_false _ (nodup_map_ofNat d hd)

/-- a repetition-free list of numbers below `N` has at most `N` entries -/
theorem length_le_of_nodup_lt (N : Nat) (d : List Nat) (hd : d.Nodup) (hN : ∀ x ∈ d, x < N) :
    d.length ≤ N := by
  have := hd.length_le_of_subset (l₂ := List.range N) (fun x hx => List.mem_range.2 (hN x hx))
  simpa using this

theorem dimscheck_dims_none (N : Nat) (M : Option Nat) (d : List Int) :
    dimscheck N M (some d) none =
      if d.any (· < 0) then .error .reject else
      if d.any (fun x => decide ((N : Int) ≤ x)) then .error .reject else
      if d.eraseDups.length != d.length then .error .reject else
      match M with
      | none => .ok ⟨(argsortInt d).map (fun k => (d.getD k 0).toNat), none⟩
      | some m =>
        if m > N then .error .reject
        else if m ≠ N ∧ m ≠ d.length then .error .reject
        else if d.length = m then .ok ⟨(argsortInt d).map (fun k => (d.getD k 0).toNat), some (argsortInt d)⟩
        else .ok ⟨(argsortInt d).map (fun k => (d.getD k 0).toNat), some ((argsortInt d).map (fun k => (d.getD k 0).toNat))⟩ := by
  unfold dimscheck
  rfl

/-- `dimscheck_dims_none` once the three validity tests on `dims` are known to pass -/
theorem dimscheck_dims_valid (N : Nat) (M : Option Nat) (d : List Nat) (hd : d.Nodup)
    (hN : ∀ x ∈ d, x < N) :
    dimscheck N M (some (d.map Int.ofNat)) none =
      match M with
      | none => .ok ⟨(argsortInt (d.map Int.ofNat)).map (fun k => ((d.map Int.ofNat).getD k 0).toNat), none⟩
      | some m =>
        if m > N then .error .reject
        else if m ≠ N ∧ m ≠ (d.map Int.ofNat).length then .error .reject
        else if (d.map Int.ofNat).length = m then
          .ok ⟨(argsortInt (d.map Int.ofNat)).map (fun k => ((d.map Int.ofNat).getD k 0).toNat),
            some (argsortInt (d.map Int.ofNat))⟩
        else .ok ⟨(argsortInt (d.map Int.ofNat)).map (fun k => ((d.map Int.ofNat).getD k 0).toNat),
            some ((argsortInt (d.map Int.ofNat)).map (fun k => ((d.map Int.ofNat).getD k 0).toNat))⟩ := by
  rw [dimscheck_dims_none, any_neg_ofNat, any_ge_ofNat N d hN, dups_ofNat d hd]
  rfl


theorem map_toNat_ofNat (d : List Nat) : (d.map Int.ofNat).map Int.toNat = d := by
  rw [List.map_map]
  conv => rhs; rw [← List.map_id d]
  apply List.map_congr_left
  intro n _; simp

/-- sorted dims of a natural-number `dims` vector -/
def sdimsOf (d : List Nat) : List Nat :=
  (argsortInt (d.map Int.ofNat)).map (fun k => ((d.map Int.ofNat).getD k 0).toNat)

theorem sdimsOf_sorted (d : List Nat) : (sdimsOf d).Pairwise (· ≤ ·) := gather_sorted _

theorem sdimsOf_perm (d : List Nat) : (sdimsOf d).Perm d := by
  have := gather_perm (d.map Int.ofNat) Int.toNat
  rwa [map_toNat_ofNat] at this

/-- without repetitions the sorted dims are strictly increasing -/
theorem sdimsOf_strict (d : List Nat) (hd : d.Nodup) : (sdimsOf d).Pairwise (· < ·) := by
  have hnd : (sdimsOf d).Nodup := (sdimsOf_perm d).nodup_iff.2 hd
  exact (sdimsOf_sorted d).imp₂ (fun a b hle hne => Nat.lt_of_le_of_ne hle hne) hnd

theorem dimscheck_dims (N : Nat) (d : List Nat) (hd : d.Nodup) (hN : ∀ x ∈ d, x < N) :
    ∃ sd, dimscheck N none (some (d.map Int.ofNat)) none = .ok ⟨sd, none⟩ ∧
      sd.Pairwise (· < ·) ∧ sd.Perm d := by
  refine ⟨sdimsOf d, ?_, sdimsOf_strict d hd, sdimsOf_perm d⟩
  rw [dimscheck_dims_valid N none d hd hN]
  rfl

theorem dimscheck_vidx_N (N : Nat) (d : List Nat) (hne : d.length ≠ N) (hd : d.Nodup)
    (hN : ∀ x ∈ d, x < N) :
    ∃ sd, dimscheck N (some N) (some (d.map Int.ofNat)) none = .ok ⟨sd, some sd⟩ ∧
      sd.Pairwise (· < ·) ∧ sd.Perm d := by
  refine ⟨sdimsOf d, ?_, sdimsOf_strict d hd, sdimsOf_perm d⟩
  rw [dimscheck_dims_valid N (some N) d hd hN]
  simp only [List.length_map]
  rw [if_neg (by omega), if_neg (by omega), if_neg hne]
  rfl

theorem getD_map_ofNat_toNat (d : List Nat) (k : Nat) :
    ((d.map Int.ofNat).getD k 0).toNat = d.getD k 0 := by
  simp only [List.getD_eq_getElem?_getD, List.getElem?_map]
  cases d[k]? <;> simp

theorem dimscheck_vidx_P (N : Nat) (d : List Nat) (hd : d.Nodup) (hN : ∀ x ∈ d, x < N) :
    ∃ sd vi, dimscheck N (some d.length) (some (d.map Int.ofNat)) none = .ok ⟨sd, some vi⟩ ∧
      vi.Perm (List.range d.length) ∧ sd = vi.map (fun k => d.getD k 0) ∧
      sd.Pairwise (· < ·) := by
  have hP : d.length ≤ N := length_le_of_nodup_lt N d hd hN
  refine ⟨sdimsOf d, argsortInt (d.map Int.ofNat), ?_, ?_, ?_, sdimsOf_strict d hd⟩
  · rw [dimscheck_dims_valid N (some d.length) d hd hN]
    simp only [List.length_map]
    rw [if_neg (by omega), if_neg (by omega), if_pos trivial]
    rfl
  · have := argsortInt_perm (d.map Int.ofNat)
    rwa [List.length_map] at this
  · unfold sdimsOf
    apply List.map_congr_left
    intro k _
    exact getD_map_ofNat_toNat d k

theorem map_getD_range (l : List Nat) : (List.range l.length).map (fun k => l.getD k 0) = l := by
  apply List.ext_getElem
  · simp
  · intro i h1 h2
    simp at h1
    simp [List.getD_eq_getElem?_getD, List.getElem?_eq_getElem h1]

theorem sdimsOf_of_sorted (l : List Nat) (h : l.Pairwise (· ≤ ·)) : sdimsOf l = l := by
  unfold sdimsOf
  rw [argsortInt_of_sorted, List.length_map]
  · conv => rhs; rw [← map_getD_range l]
    apply List.map_congr_left
    intro k _
    exact getD_map_ofNat_toNat l k
  · rw [List.pairwise_map]
    exact h.imp (fun hab => by simpa using hab)

theorem dimscheck_none_none (N : Nat) :
    dimscheck N none none none = dimscheck N none (some ((List.range N).map Int.ofNat)) none := rfl

theorem dimscheck_all (N : Nat) : dimscheck N none none none = .ok ⟨List.range N, none⟩ := by
  rw [dimscheck_none_none,
    dimscheck_dims_valid N none (List.range N) List.nodup_range (fun x hx => List.mem_range.1 hx)]
  show Except.ok (DimsCheck.mk (sdimsOf _) none) = _
  rw [sdimsOf_of_sorted]
  exact List.pairwise_le_range

theorem ite_swap4 {α : Type} (a b c d : Bool) (R X : α) :
    (if a then R else if b then R else if c then R else if d then R else X) =
      (if d then R else if a then R else if b then R else if c then R else X) := by
  cases a <;> cases b <;> cases c <;> cases d <;> rfl

theorem dimscheck_none_excl (N : Nat) (M : Option Nat) (e : List Int) :
    dimscheck N M none (some e) =
      if e.all (fun x => decide (0 ≤ x) && decide (x < (N : Int))) then
        if e.eraseDups.length != e.length then .error .reject else
        dimscheck N M (some (((List.range N).filter (fun (k : Nat) => !e.contains (Int.ofNat k))).map
          (fun (k : Nat) => Int.ofNat k))) none
      else .error .reject := by
  by_cases h : e.all (fun x => decide (0 ≤ x) && decide (x < (N : Int))) = true
  · rw [if_pos h, dimscheck_dims_none]
    unfold dimscheck
    simp only [h, if_true]
    exact ite_swap4 _ _ _ _ _ _
  · rw [if_neg h]
    unfold dimscheck
    simp only [h]
    rfl

theorem contains_map_ofNat (e : List Nat) (k : Nat) :
    (e.map Int.ofNat).contains (Int.ofNat k) = e.contains k := by
  induction e with
  | nil => rfl
  | cons a e ih =>
    simp only [List.map_cons, List.contains_cons, ih]
    congr 1
    by_cases h : k = a
    · subst h; simp
    · have : Int.ofNat k ≠ Int.ofNat a := fun hh => h (Int.ofNat.inj hh)
      rw [beq_eq_false_iff_ne.2 this, beq_eq_false_iff_ne.2 h]

theorem dimscheck_exclude (N : Nat) (e : List Nat) (he : ∀ x ∈ e, x < N) (hn : e.Nodup) :
    dimscheck N none none (some (e.map Int.ofNat)) =
      .ok ⟨(List.range N).filter (fun k => !e.contains k), none⟩ := by
  rw [dimscheck_none_excl]
  have hall : (e.map Int.ofNat).all (fun x => decide (0 ≤ x) && decide (x < (N : Int))) = true := by
    rw [List.all_eq_true]
    intro x hx
    obtain ⟨n, hn, rfl⟩ := List.mem_map.1 hx
    have := he n hn
    simp; omega
  rw [if_pos hall, dups_ofNat e hn]
  simp only [contains_map_ofNat, Bool.false_eq_true, if_false]
  rw [dimscheck_dims_valid N none _ (List.nodup_range.filter _)
    (fun x hx => List.mem_range.1 (List.mem_filter.1 hx).1)]
  show Except.ok (DimsCheck.mk (sdimsOf _) none) = _
  rw [sdimsOf_of_sorted]
  exact List.Pairwise.filter _ List.pairwise_le_range


theorem dimscheck_rejects (N : Nat) (M : Option Nat) (d e : List Int) :
    dimscheck N M (some d) (some e) = .error .reject ∧
    ((∃ x ∈ e, x < 0 ∨ (N : Int) ≤ x) → dimscheck N M none (some e) = .error .reject) ∧
    ((∃ x ∈ d, x < 0) → dimscheck N M (some d) none = .error .reject) ∧
    ((∃ x ∈ d, (N : Int) ≤ x) → dimscheck N M (some d) none = .error .reject) ∧
    (¬ d.Nodup → dimscheck N M (some d) none = .error .reject) ∧
    (¬ e.Nodup → dimscheck N M none (some e) = .error .reject) ∧
    (∀ m, N < m → dimscheck N (some m) (some d) none = .error .reject) ∧
    (∀ m, m ≠ N → m ≠ d.length → dimscheck N (some m) (some d) none = .error .reject) := by
  refine ⟨rfl, ?_, ?_, ?_, ?_, ?_, ?_, ?_⟩
  · rintro ⟨x, hx, hbad⟩
    rw [dimscheck_none_excl, if_neg]
    intro hall
    rw [List.all_eq_true] at hall
    have := hall x hx
    simp at this
    omega
  · rintro ⟨x, hx, hneg⟩
    rw [dimscheck_dims_none, if_pos]
    rw [List.any_eq_true]
    exact ⟨x, hx, by simpa using hneg⟩
  · rintro ⟨x, hx, hge⟩
    rw [dimscheck_dims_none]
    have : d.any (fun x => decide ((N : Int) ≤ x)) = true := by
      rw [List.any_eq_true]
      exact ⟨x, hx, by simpa using hge⟩
    rw [this]
    split <;> rfl
  · intro hnd
    rw [dimscheck_dims_none, eraseDups_length_bne_true d hnd]
    split
    · rfl
    · split <;> rfl
  · intro hnd
    rw [dimscheck_none_excl, eraseDups_length_bne_true e hnd]
    split <;> rfl
  · intro m hm
    rw [dimscheck_dims_none]
    split
    · rfl
    · split
      · rfl
      · split
        · rfl
        · simp only []
          rw [if_pos hm]
  · intro m h1 h2
    rw [dimscheck_dims_none]
    split
    · rfl
    · split
      · rfl
      · split
        · rfl
        · simp only []
          by_cases hm : m > N
          · rw [if_pos hm]
          · rw [if_neg hm, if_pos ⟨h1, h2⟩]

/-- Non-vacuity witness used by `Props/C17.lean`.  `decide` cannot evaluate `List.mergeSort`
(well-founded recursion), so the sort is unfolded by `simp`. -/
theorem dimscheck_example :
    dimscheck 4 (some 2) (some [3, 1]) none = .ok ⟨[1, 3], some [1, 0]⟩ := by
  have h : argsortInt [3, 1] = [1, 0] := by
    simp [argsortInt, List.range, List.range.loop, List.mergeSort, List.MergeSort.Internal.splitInTwo]
  have := dimscheck_dims_valid 4 (some 2) [3, 1] (by decide) (by decide)
  simp only [List.map_cons, List.map_nil] at this
  rw [show ([Int.ofNat 3, Int.ofNat 1] : List Int) = [3, 1] from rfl] at this
  rw [this]
  simp [h]

end Pyttb
