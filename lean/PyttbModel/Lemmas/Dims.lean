import PyttbModel.Core.Rows
import PyttbModel.Core.Dims
import PyttbModel.Core.Arr
namespace Pyttb
end Pyttb
