/-
`fg.evaluate` with a 0/1 mask as its weights: the objective is the loss summed over the unmasked
entries only, and the gradients are the partial derivatives of that masked objective (the handles
need to be a (loss, derivative) pair at the unmasked entries only).
-/
import PyttbModel.Lemmas.GcpFg
import PyttbModel.Spec.GcpSampled
namespace Pyttb
variable {α : Type}

/-- a sum of terms multiplied by 0/1 factors is the sum of the terms whose factor is not zero -/
theorem sum_map_mul_mask [Semiring α] [DecidableEq α] {ι : Type} (l : List ι) (y w : ι → α)
    (hw : ∀ i ∈ l, w i = 0 ∨ w i = 1) :
    (l.map fun i => y i * w i).sum = ((l.filter fun i => decide (w i ≠ 0)).map y).sum := by
  induction l with
  | nil => rfl
  | cons x xs ih =>
    have ih' := ih (fun i hi => hw i (by simp [hi]))
    rcases hw x (by simp) with h0 | h1
    · simp [h0, ih']
    · by_cases h : (1 : α) = 0
      · -- the trivial ring: everything is zero
        have hz : ∀ v : α, v = 0 := fun v => by rw [← mul_one v, h, mul_zero]
        rw [hz (List.sum _), hz (List.sum _)]
      · simp [h1, h, ih']

section mask
variable [DecidableEq α]

theorem unmasked_eq [Zero α] (W : Dense α) (s : List Nat) (hs : W.shape = s) :
    unmasked W = (allSubs s).filter fun i => decide (W.get i ≠ 0) := by
  subst hs; rfl

/-- the entries a 0/1 mask keeps are exactly those where it is `1` -/
theorem mem_unmasked [Zero α] [One α] [NeZero (1 : α)] (W : Dense α) (hmask : IsMask W) (i : List Nat) :
    i ∈ unmasked W ↔ InBounds W.shape i ∧ W.get i = 1 := by
  unfold unmasked
  rw [List.mem_filter, mem_allSubs]
  constructor
  · rintro ⟨hi, h⟩
    refine ⟨hi, ?_⟩
    rcases hmask i (mem_allSubs.2 hi) with h0 | h1
    · simp [h0] at h
    · exact h1
  · rintro ⟨hi, h1⟩
    exact ⟨hi, by simp [h1]⟩

/-- with a 0/1 mask as weights the GCP objective is the loss summed over the unmasked entries -/
theorem objective_mask [CommSemiring α] (K : Ktensor α) (X W : Dense α) (f : Handle α)
    (hW : W.shape = K.shape) (hmask : IsMask W) :
    gcpObjective K X (some W) f = maskedObjective K X W f := by
  unfold gcpObjective maskedObjective
  rw [unmasked_eq W K.shape hW]
  simp only [wterm]
  exact sum_map_mul_mask (allSubs K.shape) (fun i => f (X.get i) (K.get i)) W.get
    (fun i hi => hmask i (by rw [hW]; exact hi))

end mask

/-- one entry of the loss tensor as a function of one factor entry -/
theorem hasDerivAt_entry (K : Ktensor ℝ) (X : Dense ℝ) (f g : ℝ → ℝ → ℝ) (k a r : Nat) (hWF : K.WF)
    (hk : k < K.factors.length) (ha : a < (K.factors.getD k []).length) (hr : r < K.ncomp)
    (i : List Nat) (hib : InBounds K.shape i)
    (hfg : HasDerivAt (f (X.get i)) (g (X.get i) (K.get i)) (K.get i)) :
    HasDerivAt (fun t => f (X.get i) ((K.setEntry k a r t).get i))
      (K.weights.getD r 0 * (if i.getD k 0 = a then g (X.get i) (K.get i) * compExcept K.factors k r i else 0))
      ((K.factors.getD k []).get a r) := by
  have hrow := row_length_of_WF K hWF k a hk ha
  have hr' : r < ((K.factors.getD k []).getD a []).length := by rw [hrow]; exact hr
  set t0 := (K.factors.getD k []).get a r with ht0
  have hil : i.length = K.factors.length := by rw [hib.length_eq, length_shape]
  have hm := hasDerivAt_get_setEntry K k a r i hk hil ha hr' hr t0
  have hval : (K.setEntry k a r t0).get i = K.get i := by
    rw [ht0, Ktensor.setEntry_self K k a r hk ha hr']
  rw [← hval] at hfg
  refine (HasDerivAt.comp t0 hfg hm).congr_deriv ?_
  rw [hval]
  by_cases h : i.getD k 0 = a
  · rw [if_pos h, if_pos h]; ring
  · rw [if_neg h, if_neg h]; ring

/-- **masked gradient = partial derivative of the masked objective** -/
theorem masked_gradient_is_partial (K : Ktensor ℝ) (X W : Dense ℝ) (f g : ℝ → ℝ → ℝ) (k a r : Nat)
    (hWF : K.WF) (hW : W.shape = K.shape) (hmask : IsMask W)
    (hk : k < K.factors.length) (ha : a < (K.factors.getD k []).length) (hr : r < K.ncomp)
    (hfg : ∀ i ∈ unmasked W, HasDerivAt (f (X.get i)) (g (X.get i) (K.get i)) (K.get i)) :
    HasDerivAt (fun t => maskedObjective (K.setEntry k a r t) X W f)
      (K.weights.getD r 0 * (mttkrpDef ⟨K.shape, wY K X (some W) g⟩ K.factors K.ncomp k).get a r)
      ((K.factors.getD k []).get a r) := by
  unfold maskedObjective
  have hsum := hasDerivAt_list_sum (unmasked W)
    (fun i t => f (X.get i) ((K.setEntry k a r t).get i))
    (fun i => K.weights.getD r 0 * (if i.getD k 0 = a then g (X.get i) (K.get i) * compExcept K.factors k r i else 0))
    ((K.factors.getD k []).get a r) (by
      intro i hi
      have hib : InBounds K.shape i := by
        rw [unmasked_eq W K.shape hW] at hi
        exact mem_allSubs.1 (List.mem_filter.1 hi).1
      exact hasDerivAt_entry K X f g k a r hWF hk ha hr i hib (hfg i hi))
  refine hsum.congr_deriv ?_
  rw [List.sum_map_mul_left]
  congr 1
  have hak : a < (Dense.mk K.shape (wY K X (some W) g)).shape.getD k 0 := by
    simp only [Ktensor.shape]
    simp [List.getD_eq_getElem?_getD, List.getElem?_eq_getElem hk] at ha ⊢
    simpa [List.getElem?_eq_getElem hk] using ha
  rw [mttkrpDef_get _ _ _ _ _ _ hak hr, unmasked_eq W K.shape hW]
  have key := sum_map_mul_mask (allSubs K.shape)
    (fun i => if i.getD k 0 = a then g (X.get i) (K.get i) * compExcept K.factors k r i else 0) W.get
    (fun i hi => hmask i (by rw [hW]; exact hi))
  rw [← key]
  apply congrArg
  apply List.map_congr_left
  intro i hi
  have hib : InBounds K.shape i := mem_allSubs.1 hi
  by_cases h : i.getD k 0 = a
  · simp only [if_pos h]
    rw [wY, Dense.get_mk_map K.shape _ i hib, wterm]
    ring
  · simp only [if_neg h, zero_mul]

end Pyttb
