/-
Lemmas about the sampler model (C13).
-/
import PyttbModel.Alg.Samplers
import PyttbModel.Lemmas.Idx
import Mathlib.Algebra.Order.Field.Basic
import Mathlib.Algebra.Order.Ring.Cast
import Mathlib.Algebra.BigOperators.Group.List.Basic
import Mathlib.Tactic.FieldSimp
import Mathlib.Tactic.Linarith
import Mathlib.Tactic.Positivity

namespace Pyttb
namespace Samp

/-! ### integer subscripts -/

/-- Integer subscript inside a shape (Prop form). -/
def InBoundsI : List Nat → List Int → Prop
  | [], [] => True
  | s :: ss, i :: is => (0 ≤ i ∧ i < (s : Int)) ∧ InBoundsI ss is
  | _, _ => False

theorem inBoundsI_iff (s : List Nat) (i : List Int) : inBoundsI s i = true ↔ InBoundsI s i := by
  induction s generalizing i with
  | nil => cases i <;> simp [inBoundsI, InBoundsI]
  | cons a s ih =>
    cases i with
    | nil => simp [inBoundsI, InBoundsI]
    | cons k i => simp [inBoundsI, InBoundsI, ih, and_assoc]

theorem InBoundsI.length_eq {s : List Nat} {i : List Int} (h : InBoundsI s i) : i.length = s.length := by
  induction s generalizing i with
  | nil => cases i <;> simp_all [InBoundsI]
  | cons a s ih =>
    cases i with
    | nil => simp [InBoundsI] at h
    | cons k i => simp [InBoundsI] at h; simp [ih h.2]

/-- Natural subscripts read as integers. -/
theorem inBoundsI_ofNat (s i : List Nat) : InBoundsI s (i.map Int.ofNat) ↔ InBounds s i := by
  induction s generalizing i with
  | nil => cases i <;> simp [InBoundsI, InBounds]
  | cons a s ih =>
    cases i with
    | nil => simp [InBoundsI, InBounds]
    | cons k i => simp [InBoundsI, InBounds, ih]

/-- An in-range integer subscript is the cast of an in-range natural subscript. -/
theorem InBoundsI.toNat {s : List Nat} {i : List Int} (h : InBoundsI s i) :
    InBounds s (i.map Int.toNat) ∧ (i.map Int.toNat).map Int.ofNat = i := by
  induction s generalizing i with
  | nil => cases i <;> simp_all [InBoundsI, InBounds]
  | cons a s ih =>
    cases i with
    | nil => simp [InBoundsI] at h
    | cons k i =>
      simp only [InBoundsI] at h
      obtain ⟨⟨h0, h1⟩, h2⟩ := h
      have := ih h2
      refine ⟨?_, ?_⟩
      · simp only [List.map_cons, InBounds]
        exact ⟨by omega, this.1⟩
      · simp only [List.map_cons, List.cons.injEq]
        exact ⟨by simp [Int.toNat_of_nonneg h0], this.2⟩

/-! ### drawing one row -/

section draw
variable {α : Type} [Field α] [LinearOrder α] [IsStrictOrderedRing α]

/-- Contract of `np.floor`. -/
def FloorOk (floor : α → Int) : Prop := ∀ x : α, ((floor x : Int) : α) ≤ x ∧ x < ((floor x : Int) : α) + 1

/-- Contract of `np.ceil`. -/
def CeilOk (ceil : α → Int) : Prop := ∀ x : α, ((ceil x : Int) : α) - 1 < x ∧ x ≤ ((ceil x : Int) : α)

/-- A row of draws as `np.random.uniform(0, 1, …)` produces them: one number in `[0, 1)`
per mode. -/
def RowOk (shape : List Nat) (row : List α) : Prop :=
  row.length = shape.length ∧ ∀ u ∈ row, 0 ≤ u ∧ u < 1

theorem drawSub_range {floor : α → Int} (hf : FloorOk floor) {u : α} (h0 : 0 ≤ u) (h1 : u < 1)
    {s : Nat} (hs : 0 < s) : 0 ≤ drawSub floor u s ∧ drawSub floor u s < (s : Int) := by
  unfold drawSub
  obtain ⟨hle, hlt⟩ := hf (u * (s : α))
  have hspos : (0 : α) < (s : α) := by exact_mod_cast hs
  have hx0 : (0 : α) ≤ u * (s : α) := mul_nonneg h0 hspos.le
  have hx1 : u * (s : α) < (s : α) := by nlinarith
  constructor
  · have : ((-1 : Int) : α) < ((floor (u * (s : α)) : Int) : α) := by
      push_cast; linarith
    have := Int.cast_lt.mp this
    omega
  · have : ((floor (u * (s : α)) : Int) : α) < ((s : Int) : α) := by
      push_cast; linarith
    exact Int.cast_lt.mp this

theorem drawSub_nonneg {floor : α → Int} (hf : FloorOk floor) {u : α} (h0 : 0 ≤ u) (s : Nat) :
    0 ≤ drawSub floor u s := by
  unfold drawSub
  obtain ⟨_, hlt⟩ := hf (u * (s : α))
  have hx0 : (0 : α) ≤ u * (s : α) := mul_nonneg h0 (Nat.cast_nonneg s)
  have : ((-1 : Int) : α) < ((floor (u * (s : α)) : Int) : α) := by
    push_cast; linarith
  have := Int.cast_lt.mp this
  omega

theorem drawSubSemi_range {ceil : α → Int} (hc : CeilOk ceil) {u : α} (h0 : 0 ≤ u) (h1 : u < 1)
    {s : Nat} (hs : 0 < s) : 0 ≤ drawSubSemi ceil u s ∧ drawSubSemi ceil u s < (s : Int) := by
  unfold drawSubSemi
  set x : α := u * ((((s : Int) - 1 : Int)) : α) with hx
  obtain ⟨hgt, hle⟩ := hc x
  have hs1 : (0 : α) ≤ ((((s : Int) - 1 : Int)) : α) := by
    have : (0 : Int) ≤ (s : Int) - 1 := by omega
    exact_mod_cast this
  have hx0 : (0 : α) ≤ x := mul_nonneg h0 hs1
  have hx1 : x ≤ ((((s : Int) - 1 : Int)) : α) := by
    have : u * ((((s : Int) - 1 : Int)) : α) ≤ 1 * ((((s : Int) - 1 : Int)) : α) :=
      mul_le_mul_of_nonneg_right h1.le hs1
    simpa [hx] using this
  constructor
  · have : ((-1 : Int) : α) < ((ceil x : Int) : α) := by
      push_cast; linarith
    have := Int.cast_lt.mp this
    omega
  · have : ((ceil x : Int) : α) < (((s : Int) : Int) : α) := by
      have h2 : ((((s : Int) - 1 : Int)) : α) = ((s : Int) : α) - 1 := by push_cast; rfl
      rw [h2] at hx1
      linarith
    exact Int.cast_lt.mp this

/-- A row drawn from numbers in `[0,1)` lies inside a shape without empty modes. -/
theorem drawRow_inBounds (f : α → Nat → Int)
    (hf : ∀ u : α, 0 ≤ u → u < 1 → ∀ s : Nat, 0 < s → 0 ≤ f u s ∧ f u s < (s : Int))
    {shape : List Nat} (hpos : ∀ s ∈ shape, 0 < s) {row : List α} (hr : RowOk shape row) :
    InBoundsI shape (drawRow f shape row) := by
  obtain ⟨hl, hu⟩ := hr
  induction shape generalizing row with
  | nil =>
    cases row with
    | nil => simp [drawRow, InBoundsI]
    | cons a r => simp at hl
  | cons s ss ih =>
    cases row with
    | nil => simp at hl
    | cons u r =>
      simp only [drawRow, List.zipWith_cons_cons, InBoundsI]
      refine ⟨?_, ?_⟩
      · exact hf u (hu u (by simp)).1 (hu u (by simp)).2 s (hpos s (by simp))
      · exact ih (fun s hs => hpos s (by simp [hs])) (by simpa using hl)
          (fun v hv => hu v (by simp [hv]))

theorem drawRow_nonneg (f : α → Nat → Int) (hf : ∀ u : α, 0 ≤ u → ∀ s : Nat, 0 ≤ f u s)
    (shape : List Nat) {row : List α} (hu : ∀ u ∈ row, 0 ≤ u) :
    ∀ k ∈ drawRow f shape row, (0 : Int) ≤ k := by
  induction shape generalizing row with
  | nil => cases row <;> simp [drawRow]
  | cons s ss ih =>
    cases row with
    | nil => simp [drawRow]
    | cons u r =>
      intro k hk
      simp only [drawRow, List.zipWith_cons_cons, List.mem_cons] at hk
      rcases hk with rfl | hk
      · exact hf u (hu u (by simp)) s
      · exact ih (fun v hv => hu v (by simp [hv])) k hk

end draw

/-! ### `tt_sub2ind` on integer subscripts -/

theorem ttSub2indI_ok {shape : List Nat} {subs : List (List Int)} {l : List Nat}
    (h : ttSub2indI shape subs = .ok l) :
    (∀ i ∈ subs, InBoundsI shape i) ∧ l = subs.map fun r => sub2ind shape (r.map Int.toNat) := by
  unfold ttSub2indI at h
  split at h
  · rename_i hall
    injection h with h
    refine ⟨fun i hi => (inBoundsI_iff _ _).mp (List.all_eq_true.mp hall i hi), h.symm⟩
  · cases h

theorem ttSub2indI_of_inBounds {shape : List Nat} {subs : List (List Int)}
    (h : ∀ i ∈ subs, InBoundsI shape i) :
    ttSub2indI shape subs = .ok (subs.map fun r => sub2ind shape (r.map Int.toNat)) := by
  unfold ttSub2indI
  rw [if_pos]
  exact List.all_eq_true.mpr fun i hi => (inBoundsI_iff _ _).mpr (h i hi)

/-! ### stored entries of a sparse tensor -/

section sparse
variable {α : Type}

theorem filterMap_getElem?_of_lt {β : Type} (l : List β) (idx : List Nat) (h : ∀ k ∈ idx, k < l.length) :
    idx.filterMap (l[·]?) = idx.attach.map fun k => l[k.1]'(h k.1 k.2) := by
  induction idx with
  | nil => rfl
  | cons k ks ih =>
    have hk : k < l.length := h k (by simp)
    simp only [List.filterMap_cons, List.getElem?_eq_getElem hk, List.attach_cons, List.map_cons,
      List.map_map]
    congr 1
    rw [ih (fun j hj => h j (by simp [hj]))]
    simp [Function.comp_def]

/-- The pairs picked by index are stored entries. -/
theorem pick_mem_zip {β γ : Type} (xs : List β) (ys : List γ) (hlen : ys.length = xs.length)
    (idx : List Nat) (h : ∀ k ∈ idx, k < xs.length) :
    (idx.filterMap (xs[·]?)).length = idx.length ∧ (idx.filterMap (ys[·]?)).length = idx.length ∧
    ∀ p ∈ (idx.filterMap (xs[·]?)).zip (idx.filterMap (ys[·]?)), p ∈ xs.zip ys := by
  induction idx with
  | nil => simp
  | cons k ks ih =>
    have hk : k < xs.length := h k (by simp)
    have hk' : k < ys.length := by omega
    obtain ⟨i1, i2, i3⟩ := ih (fun j hj => h j (by simp [hj]))
    simp only [List.filterMap_cons, List.getElem?_eq_getElem hk, List.getElem?_eq_getElem hk',
      List.length_cons, i1, i2, List.zip_cons_cons, List.mem_cons, true_and]
    rintro p (rfl | hp)
    · rw [List.mem_iff_getElem]
      refine ⟨k, by simp [hk, hk'], by simp⟩
    · exact i3 p hp

theorem map_fst_zip_sublist' {β γ : Type} (l₁ : List β) (l₂ : List γ) :
    ((l₁.zip l₂).map Prod.fst).Sublist l₁ := by
  induction l₁ generalizing l₂ with
  | nil => simp
  | cons a l ih =>
    cases l₂ with
    | nil => simp
    | cons b l₂ => simpa using ih l₂

variable [AddMonoid α]

theorem sum_filter_fst_of_nodup {β : Type} [BEq β] [LawfulBEq β] (l : List (β × α))
    (hn : (l.map Prod.fst).Nodup) {i : β} {v : α} (h : (i, v) ∈ l) :
    ((l.filter fun e => e.1 == i).map (·.2)).sum = v := by
  induction l with
  | nil => simp at h
  | cons e l ih =>
    simp only [List.map_cons, List.nodup_cons] at hn
    rcases List.mem_cons.mp h with h | h
    · subst h
      have : l.filter (fun e => e.1 == i) = [] := by
        rw [List.filter_eq_nil_iff]
        intro e' he
        simp only [beq_iff_eq]
        intro heq
        exact hn.1 (List.mem_map.mpr ⟨e', he, heq⟩)
      simp [this]
    · have hne : ¬ (e.1 = i) := by
        intro heq
        exact hn.1 (by rw [heq]; exact List.mem_map.mpr ⟨(i, v), h, rfl⟩)
      have : (e.1 == i) = false := by simpa using hne
      simp only [List.filter_cons, this]
      exact ih hn.2 h

theorem sum_filter_fst_of_not_mem {β : Type} [BEq β] [LawfulBEq β] (l : List (β × α)) {i : β}
    (h : i ∉ l.map Prod.fst) : ((l.filter fun e => e.1 == i).map (·.2)).sum = 0 := by
  have : l.filter (fun e => e.1 == i) = [] := by
    rw [List.filter_eq_nil_iff]
    intro e he
    simp only [beq_iff_eq]
    intro heq
    exact h (by rw [← heq]; exact List.mem_map_of_mem he)
  simp [this]

/-- A stored entry of a tensor with distinct subscripts is its value there. -/
theorem Sparse.get_of_mem (S : Sparse α) (hn : S.subs.Nodup) {i : List Nat} {v : α}
    (h : (i, v) ∈ S.subs.zip S.vals) : S.get i = v := by
  unfold Sparse.get Sparse.entries
  apply sum_filter_fst_of_nodup _ _ h
  exact List.Nodup.sublist (map_fst_zip_sublist' ..) hn

/-- A subscript that is not stored denotes zero. -/
theorem Sparse.get_of_not_mem (S : Sparse α) {i : List Nat} (h : i ∉ S.subs) : S.get i = 0 := by
  unfold Sparse.get Sparse.entries
  apply sum_filter_fst_of_not_mem
  intro hm
  exact h ((map_fst_zip_sublist' ..).subset hm)

end sparse

/-! ### the samplers -/

theorem mapM_except_ok {β γ ε : Type} (f : β → Except ε γ) (g : β → γ) :
    ∀ (l : List β) (r : List γ), l.mapM f = .ok r → (∀ a ∈ l, ∀ b, f a = .ok b → b = g a) →
      r = l.map g ∧ ∀ a ∈ l, f a = .ok (g a) := by
  intro l
  induction l with
  | nil => intro r h _; simp [pure, Except.pure] at h; subst h; simp
  | cons a l ih =>
    intro r h hg
    simp only [List.mapM_cons, bind, Except.bind] at h
    cases hfa : f a with
    | error e => simp [hfa] at h
    | ok b =>
      simp only [hfa] at h
      cases hl : l.mapM f with
      | error e => simp [hl] at h
      | ok bs =>
        simp only [hl, pure, Except.pure] at h
        injection h with h
        subst h
        have hb := hg a (by simp) b hfa
        obtain ⟨i1, i2⟩ := ih bs hl (fun a' ha' => hg a' (by simp [ha']))
        subst hb i1
        refine ⟨by simp, ?_⟩
        intro a' ha'
        rcases List.mem_cons.mp ha' with rfl | ha'
        · exact hfa
        · exact i2 a' ha'

theorem mem_zip_map_self {β γ : Type} (f : β → γ) (l : List β) :
    ∀ p ∈ l.zip (l.map f), p.2 = f p.1 := by
  induction l with
  | nil => simp
  | cons a l ih =>
    intro p hp
    simp only [List.map_cons, List.zip_cons_cons, List.mem_cons] at hp
    rcases hp with rfl | hp
    · rfl
    · exact ih p hp

theorem mapM_except_of_forall {β γ ε : Type} (f : β → Except ε γ) (g : β → γ) :
    ∀ (l : List β), (∀ a ∈ l, f a = .ok (g a)) → l.mapM f = .ok (l.map g) := by
  intro l
  induction l with
  | nil => intro _; rfl
  | cons a l ih =>
    intro h
    simp only [List.mapM_cons, bind, Except.bind, h a (by simp),
      ih (fun b hb => h b (by simp [hb])), pure, Except.pure, List.map_cons]

section samplers
variable {α : Type}

theorem nonzerosS_ok {S : Sparse α} {samples : Nat} {withRepl : Bool} {idx : List Nat}
    {r : List (List Nat) × List α} (h : nonzerosS S samples withRepl idx = .ok r) :
    r.1.length = samples ∧ r.2.length = samples ∧ (∀ p ∈ r.1.zip r.2, p ∈ S.subs.zip S.vals) ∧
      0 < S.subs.length := by
  unfold nonzerosS at h
  simp only at h
  split at h
  · cases h
  rename_i hnnz
  split at h
  · cases h
  rename_i hlen
  have hlen' : S.vals.length = S.subs.length := by simpa using hlen
  have hpos : 0 < S.subs.length := by
    have : S.subs.length ≠ 0 := by simpa using hnnz
    omega
  split at h
  · rename_i hs
    have hs' : samples = S.subs.length := by simpa using hs
    injection h with h
    subst h
    obtain ⟨a, b, c⟩ := pick_mem_zip S.subs S.vals hlen' (List.range S.subs.length)
      (fun k hk => List.mem_range.mp hk)
    simp only [List.length_range] at a b
    exact ⟨by simp only [a, hs'], by simp only [b, hs'], c, hpos⟩
  · split at h
    · split at h
      · rename_i hc
        injection h with h
        subst h
        unfold choiceOk at hc
        simp only [Bool.and_eq_true, beq_iff_eq, List.all_eq_true, decide_eq_true_eq] at hc
        obtain ⟨⟨hl, hlt⟩, _⟩ := hc
        obtain ⟨a, b, c⟩ := pick_mem_zip S.subs S.vals hlen' idx hlt
        exact ⟨by simp only [a, hl], by simp only [b, hl], c, hpos⟩
      · cases h
    · cases h

theorem nonzerosS_ok' {S : Sparse α} {samples : Nat} {withRepl : Bool} {idx : List Nat}
    {nsubs : List (List Nat)} {nvals : List α}
    (h : nonzerosS S samples withRepl idx = .ok (nsubs, nvals)) :
    nsubs.length = samples ∧ nvals.length = samples ∧ (∀ p ∈ nsubs.zip nvals, p ∈ S.subs.zip S.vals) ∧
      0 < S.subs.length := nonzerosS_ok h

section zeros
variable [Field α] [LinearOrder α] [IsStrictOrderedRing α]

theorem zerosS_ok {floor ceil : α → Int} {shape nzIdx : List Nat} {samples : Nat} {rate : α}
    {draws : List (List α)} {z : List (List Int)}
    (h : zerosS floor ceil shape nzIdx samples rate draws = .ok z) :
    z.length ≤ samples ∧ z.length ≤ draws.length ∧
    ∀ i ∈ z, InBoundsI shape i ∧ sub2ind shape (i.map Int.toNat) ∉ nzIdx := by
  unfold zerosS at h
  simp only [bind, Except.bind] at h
  split at h
  · cases h
  split at h
  · cases h
  rename_i tmpidx hidx
  injection h with h
  subst h
  obtain ⟨hin, hmap⟩ := ttSub2indI_ok hidx
  refine ⟨by simp only [List.length_take]; omega, ?_, ?_⟩
  · simp only [List.length_take, List.length_map]
    refine le_trans (Nat.min_le_right _ _) (le_trans (List.length_filter_le _ _) ?_)
    simp [List.length_zip]
  · intro i hi
    have hi := List.mem_of_mem_take hi
    simp only [List.mem_map, List.mem_filter] at hi
    obtain ⟨p, ⟨hp, hnot⟩, rfl⟩ := hi
    have h1 : p.1 ∈ draws.map (drawRow (drawSub floor) shape) := (List.of_mem_zip hp).1
    refine ⟨hin _ h1, ?_⟩
    have h2 : p.2 = sub2ind shape (p.1.map Int.toNat) := by
      subst hmap
      exact mem_zip_map_self _ _ p hp
    rw [← h2]
    simpa using hnot

/-- `zeros` accepts every stream the generator can produce, as long as the tensor has a zero,
no empty mode, and the rate is admissible. -/
theorem zerosS_accepts {floor ceil : α → Int} (hf : FloorOk floor) {shape nzIdx : List Nat}
    (samples : Nat) {rate : α} {draws : List (List α)}
    (hrate : ¬ rate < ((11 : Nat) : α) / ((10 : Nat) : α)) (hz : nzIdx.length < numel shape)
    (hpos : ∀ s ∈ shape, 0 < s) (hrows : ∀ row ∈ draws, RowOk shape row) :
    ∃ z, zerosS floor ceil shape nzIdx samples rate draws = .ok z := by
  unfold zerosS zerosNeed
  have hz' : ¬ (numel shape - nzIdx.length == 0) = true := by
    simp only [beq_iff_eq]; omega
  simp only [bind, Except.bind, if_neg hrate, if_neg hz']
  rw [ttSub2indI_of_inBounds]
  · exact ⟨_, rfl⟩
  · intro i hi
    simp only [List.mem_map] at hi
    obtain ⟨row, hrow, rfl⟩ := hi
    exact drawRow_inBounds _ (fun u h0 h1 s hs => drawSub_range hf h0 h1 hs) hpos (hrows row hrow)

end zeros

theorem wrap_of_nonneg (shape : List Nat) (i : List Int) (hl : i.length = shape.length)
    (h : ∀ k ∈ i, (0 : Int) ≤ k) :
    List.zipWith (fun (k : Int) (s : Nat) => if k < 0 then k + (s : Int) else k) i shape = i := by
  induction shape generalizing i with
  | nil => cases i <;> simp_all
  | cons s ss ih =>
    cases i with
    | nil => simp at hl
    | cons k i =>
      have hk : ¬ k < 0 := by have := h k (by simp); omega
      simp only [List.zipWith_cons_cons, if_neg hk, List.cons.injEq, true_and]
      exact ih i (by simpa using hl) (fun j hj => h j (by simp [hj]))

theorem denseGetI_ok [Zero α] {T : Dense α} {i : List Int} {v : α} (h0 : ∀ k ∈ i, (0 : Int) ≤ k)
    (h : denseGetI T i = .ok v) : InBoundsI T.shape i ∧ v = T.get (i.map Int.toNat) := by
  unfold denseGetI at h
  simp only at h
  split at h
  · rename_i hc
    simp only [Bool.and_eq_true, beq_iff_eq] at hc
    rw [wrap_of_nonneg _ _ hc.1 h0] at hc h
    injection h with h
    exact ⟨(inBoundsI_iff _ _).mp hc.2, h.symm⟩
  · cases h

theorem denseGetI_of_inBounds [Zero α] {T : Dense α} {i : List Int} (h : InBoundsI T.shape i) :
    denseGetI T i = .ok (T.get (i.map Int.toNat)) := by
  have h0 : ∀ k ∈ i, (0 : Int) ≤ k := by
    have := h.toNat.2
    intro k hk
    rw [← this] at hk
    simp only [List.mem_map] at hk
    obtain ⟨n, _, rfl⟩ := hk
    exact Int.natCast_nonneg n
  unfold denseGetI
  simp only
  rw [wrap_of_nonneg _ _ h.length_eq h0, if_pos]
  simp [h.length_eq, (inBoundsI_iff _ _).mpr h]

section uniform
variable [Field α] [LinearOrder α] [IsStrictOrderedRing α]

theorem uniformS_ok {floor : α → Int} (hf : FloorOk floor) {T : Dense α} {samples : Nat}
    {draws : List (List α)} (hrows : ∀ row ∈ draws, ∀ u ∈ row, 0 ≤ u) {s : Sample α}
    (h : uniformS floor T samples draws = .ok s) :
    s.subs = draws.map (drawRow (drawSub floor) T.shape) ∧
    (∀ i ∈ s.subs, InBoundsI T.shape i) ∧
    s.vals = s.subs.map (fun i => T.get (i.map Int.toNat)) ∧
    s.wgts = List.replicate samples ((numel T.shape : α) / (samples : α)) := by
  unfold uniformS at h
  simp only [bind, Except.bind] at h
  split at h
  · cases h
  rename_i vals hv
  injection h with h
  subst h
  have hnn : ∀ i ∈ draws.map (drawRow (drawSub floor) T.shape), ∀ k ∈ i, (0 : Int) ≤ k := by
    intro i hi
    simp only [List.mem_map] at hi
    obtain ⟨row, hrow, rfl⟩ := hi
    exact drawRow_nonneg _ (fun u h0 s => drawSub_nonneg hf h0 s) _ (hrows row hrow)
  obtain ⟨h1, h2⟩ := mapM_except_ok (denseGetI T) (fun i => T.get (i.map Int.toNat)) _ _ hv
    (fun i hi b hb => (denseGetI_ok (hnn i hi) hb).2)
  refine ⟨rfl, ?_, h1, rfl⟩
  intro i hi
  exact (denseGetI_ok (hnn i hi) (h2 i hi)).1

theorem uniformS_accepts {floor : α → Int} (hf : FloorOk floor) (T : Dense α) (samples : Nat)
    {draws : List (List α)} (hpos : ∀ s ∈ T.shape, 0 < s) (hrows : ∀ row ∈ draws, RowOk T.shape row) :
    ∃ s, uniformS floor T samples draws = .ok s := by
  unfold uniformS
  simp only [bind, Except.bind]
  rw [mapM_except_of_forall (denseGetI T) (fun i => T.get (i.map Int.toNat))]
  · exact ⟨_, rfl⟩
  · intro i hi
    simp only [List.mem_map] at hi
    obtain ⟨row, hrow, rfl⟩ := hi
    exact denseGetI_of_inBounds
      (drawRow_inBounds _ (fun u h0 h1 s hs => drawSub_range hf h0 h1 hs) hpos (hrows row hrow))

end uniform

section strat
variable [Field α] [LinearOrder α] [IsStrictOrderedRing α]

/-- Shape of an accepted `stratified` sample. -/
theorem stratifiedS_ok {floor ceil : α → Int} {S : Sparse α} {nzIdx : List Nat} {a b : Nat} {rate : α}
    {idx : List Nat} {draws : List (List α)} {s : Sample α}
    (h : stratifiedS floor ceil S nzIdx a b rate idx draws = .ok s) :
    ∃ nsubs nvals z, nonzerosS S a true idx = .ok (nsubs, nvals) ∧
      zerosS floor ceil S.shape nzIdx b rate draws = .ok z ∧
      s = ⟨nsubs.map (·.map Int.ofNat) ++ z, nvals ++ List.replicate z.length 0,
           List.replicate a ((S.subs.length : α) / (a : α)) ++
           List.replicate z.length (((numel S.shape - S.subs.length : Nat) : α) / (z.length : α))⟩ := by
  unfold stratifiedS at h
  simp only [bind, Except.bind] at h
  split at h
  · cases h
  rename_i r hr
  split at h
  · cases h
  rename_i z hz
  injection h with h
  exact ⟨r.1, r.2, z, hr, hz, h.symm⟩

/-- Shape of an accepted `semistrat` sample. -/
theorem semistratS_ok {ceil : α → Int} {S : Sparse α} {a b : Nat} {idx : List Nat}
    {draws : List (List α)} {s : Sample α} (h : semistratS ceil S a b idx draws = .ok s) :
    ∃ nsubs nvals, nonzerosS S a true idx = .ok (nsubs, nvals) ∧ 0 < a ∧
      s = ⟨nsubs.map (·.map Int.ofNat) ++ draws.map (drawRow (drawSubSemi ceil) S.shape),
           nvals ++ List.replicate b 0,
           List.replicate a ((S.subs.length : α) / (a : α)) ++
           List.replicate b ((numel S.shape : α) / (b : α))⟩ := by
  unfold semistratS at h
  simp only [bind, Except.bind] at h
  split at h
  · cases h
  rename_i r hr
  split at h
  · cases h
  rename_i ha
  injection h with h
  refine ⟨r.1, r.2, hr, ?_, h.symm⟩
  have : a ≠ 0 := by simpa using ha
  omega

theorem sum_replicate_div (n : Nat) (t : α) (hn : 0 < n) :
    (List.replicate n (t / (n : α))).sum = t := by
  rw [List.sum_replicate, nsmul_eq_mul]
  have : (n : α) ≠ 0 := by positivity
  field_simp

/-- The nonzero part of a stratified / semi-stratified sample: stored entries. -/
theorem nonzero_part_values {S : Sparse α} (hn : S.subs.Nodup) {nsubs : List (List Nat)}
    {nvals : List α} (hmem : ∀ p ∈ nsubs.zip nvals, p ∈ S.subs.zip S.vals) :
    ∀ p ∈ (nsubs.map (·.map Int.ofNat)).zip nvals, S.get (p.1.map Int.toNat) = p.2 := by
  intro p hp
  rw [List.zip_map_left] at hp
  simp only [List.mem_map] at hp
  obtain ⟨q, hq, rfl⟩ := hp
  have : (q.1.map Int.ofNat).map Int.toNat = q.1 := by
    simp [Function.comp_def]
  simp only [Prod.map_fst, Prod.map_snd, id_eq, this]
  exact Sparse.get_of_mem S hn (hmem q hq)

end strat
end samplers

end Samp
end Pyttb
