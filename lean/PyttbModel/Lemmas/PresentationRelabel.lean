/-
C18, whole-run mode relabelling of CP-ALS (the model of C09: `Alg/CpAls.lean`).

Two runs are compared: data `D` denoting the array `X` of shape `s`, and data `D'` denoting
`permute X p`, i.e. the array of shape `gather s p` with entries `X' j' = X (gather j' (invPerm p))`
(mode `k` of the second problem is mode `p[k]` of the first).  The start is relabelled
(`U'[k] = U[p[k]]`), `dimorder` and `optdims` are mapped through `invPerm p`.

Unlike scaling, relabelling is an exact symmetry of every step: the state of the second run is the
relabelling `relabelSt p st` of the state of the first run after every mode update, the reported
numbers are the SAME numbers, and the returned model is the relabelling of the other returned model —
except for `fixsigns()`, whose choice of the modes that absorb an odd number of sign flips depends on
the mode ORDER (`relabel_fixsigns_counterexample`).
-/
import PyttbModel.Lemmas.PresentationRun
import PyttbModel.Lemmas.MLSums
import PyttbModel.Lemmas.Perm

set_option linter.unusedSectionVars false
set_option linter.unusedSimpArgs false
set_option linter.unnecessarySeqFocus false
set_option linter.unusedVariables false
namespace Pyttb.CpAls
open Pyttb

/-! ## 1. gathering a list by a permutation -/

section gatherD
variable {β : Type}

theorem length_gatherD (l : List β) (p : List Nat) (d : β) : (gatherD l p d).length = p.length := by
  simp [gatherD]

theorem getD_gatherD (l : List β) (p : List Nat) (d : β) {k : Nat} (hk : k < p.length) :
    (gatherD l p d).getD k d = l.getD (p.getD k 0) d := by
  simp [gatherD, List.getD_eq_getElem?_getD, hk]

/-- writing position `k` of the relabelled list = relabelling after writing position `p[k]` -/
theorem gatherD_set {p : List Nat} {N : Nat} (hp : isPermOf p N = true) (l : List β) (hl : l.length = N)
    (d x : β) {k : Nat} (hk : k < N) :
    (gatherD l p d).set k x = gatherD (l.set (p.getD k 0) x) p d := by
  have hpl := isPermOf_length_eq hp
  apply List.ext_getElem
  · simp [gatherD]
  · intro m h1 h2
    simp only [gatherD, List.length_set, List.length_map] at h1
    have hm : m < N := by omega
    simp only [gatherD, List.getElem_set, List.getElem_map]
    by_cases hkm : k = m
    · subst hkm
      simp only [if_true]
      have : p[k] = p.getD k 0 := (getD0_of_lt p k h1).symm
      rw [this, getD_set_eq _ _ _ _ (by rw [hl]; exact isPermOf_getD_lt hp hk)]
    · rw [if_neg hkm]
      have hne : p.getD k 0 ≠ p[m] := by
        rw [← getD0_of_lt p m h1]
        exact fun e => hkm (isPermOf_getD_inj hp hk hm e)
      rw [getD_set_ne _ _ _ hne]

theorem gatherD_map {γ : Type} (l : List β) (p : List Nat) (d : β) (d' : γ) (f : β → γ) (hf : f d = d') :
    (gatherD l p d).map f = gatherD (l.map f) p d' := by
  simp only [gatherD, List.map_map]
  refine List.map_congr_left fun k _ => ?_
  simp only [Function.comp, List.getD_eq_getElem?_getD, List.getElem?_map]
  cases l[k]? <;> simp [hf]

theorem map_getD_range_perm {p : List Nat} {N : Nat} (hp : isPermOf p N = true) :
    (List.range N).map (fun k => p.getD k 0) = p := by
  have hpl := isPermOf_length_eq hp
  apply List.ext_getElem
  · simp [hpl]
  · intro k h1 h2
    simp [List.getD_eq_getElem?_getD, h2]

end gatherD

/-! ## 2. products over the modes, reindexed -/

section prods
variable {M : Type} [CommMonoid M]

theorem prod_range_relabel {p : List Nat} {N : Nat} (hp : isPermOf p N = true) (f : Nat → M) :
    ((List.range N).map fun k => f (p.getD k 0)).prod = ((List.range N).map f).prod := by
  have h1 : (List.range N).map (fun k => f (p.getD k 0)) = p.map f := by
    conv_rhs => rw [← map_getD_range_perm hp, List.map_map]
    rfl
  rw [h1]
  exact ((isPermOf_perm hp).symm.map f).prod_eq

theorem prod_filter_relabel {p : List Nat} {N : Nat} (hp : isPermOf p N = true) (f : Nat → M) {k : Nat} (hk : k < N) :
    (((List.range N).filter (· != k)).map fun m => f (p.getD m 0)).prod =
      (((List.range N).filter (· != p.getD k 0)).map f).prod := by
  rw [← prod_map_ite_ne, ← prod_map_ite_ne]
  rw [← prod_range_relabel hp (fun m => if m = p.getD k 0 then 1 else f m)]
  congr 1
  refine List.map_congr_left fun m hm => ?_
  have hm' := List.mem_range.1 hm
  by_cases h : m = k
  · subst h; simp
  · rw [if_neg h, if_neg (fun e => h (isPermOf_getD_inj hp hm' hk e))]

end prods

/-! ## 3. component products, Kruskal entries and inner products under relabelling -/

section comp
variable {α : Type} [Field α]

theorem compOf_eq_prodN (U : List (Mat α)) (j : List Nat) (r : Nat) (hj : j.length = U.length) :
    compOf U r j = prodN U.length fun m => (U.getD m []).get (j.getD m 0) r := by
  induction U generalizing j with
  | nil =>
    cases j with
    | nil => simp [compOf, prodN]
    | cons _ _ => simp at hj
  | cons A U ih =>
    cases j with
    | nil => simp at hj
    | cons i j =>
      simp only [List.length_cons, Nat.add_right_cancel_iff] at hj
      have ih' := ih j hj
      unfold compOf at ih' ⊢
      unfold prodN at ih' ⊢
      simp only [List.zipWith_cons_cons, List.prod_cons, List.length_cons]
      rw [ih', List.range_succ_eq_map, List.map_cons, List.prod_cons, List.map_map]
      simp [Function.comp_def]

/-- the component product of the relabelled factors at a subscript of the relabelled shape is the
component product of the original factors at the un-permuted subscript -/
theorem compOf_relabel {p : List Nat} {N : Nat} (hp : isPermOf p N = true) (U : List (Mat α)) (hU : U.length = N)
    (j' : List Nat) (hj : j'.length = N) (r : Nat) :
    compOf (gatherD U p []) r j' = compOf U r (gather j' (invPerm p)) := by
  have hpl := isPermOf_length_eq hp
  rw [compOf_eq_prodN _ _ _ (by rw [length_gatherD, hpl, hj]),
    compOf_eq_prodN _ _ _ (by rw [length_gather, length_invPerm, hpl, hU]), length_gatherD, hpl, hU]
  unfold prodN
  rw [← prod_range_relabel hp (fun m => (U.getD m []).get ((gather j' (invPerm p)).getD m 0) r)]
  congr 1
  refine List.map_congr_left fun k hk => ?_
  have hk' := List.mem_range.1 hk
  rw [getD_gatherD _ _ _ (by rw [hpl]; exact hk'), unperm_spec p j' N hp hj k hk']

theorem ktensor_get_relabel {p : List Nat} {N : Nat} (hp : isPermOf p N = true) (w : List α) (U : List (Mat α))
    (hU : U.length = N) (j' : List Nat) (hj : j'.length = N) :
    Ktensor.get ⟨w, gatherD U p []⟩ j' = Ktensor.get ⟨w, U⟩ (gather j' (invPerm p)) := by
  rw [ktensor_get_eq, ktensor_get_eq]
  refine Finset.sum_congr rfl fun r _ => ?_
  rw [compOf_relabel hp U hU j' hj r]

/-- inner products of arrays of the relabelled shape are inner products of the un-permuted arrays -/
theorem ip_relabel {p s : List Nat} (hp : isPermOf p s.length = true) (X f : List Nat → α) :
    ip (gather s p) (fun j' => X (gather j' (invPerm p))) (fun j' => f (gather j' (invPerm p))) = ip s X f := by
  unfold ip
  exact (ML.sum_allSubs_perm s p hp (fun j => X j * f j)).symm

theorem getD_gather' (s p : List Nat) {k : Nat} (hk : k < p.length) : (gather s p).getD k 0 = s.getD (p.getD k 0) 0 :=
  getD_gather s p k hk

theorem shapeOK_relabel {p s : List Nat} (hp : isPermOf p s.length = true) {R : Nat} {U : List (Mat α)}
    (hU : ShapeOK s R U) : ShapeOK (gather s p) R (gatherD U p []) := by
  have hpl := isPermOf_length_eq hp
  refine ⟨by rw [length_gatherD, length_gather], fun k hk => ?_⟩
  rw [length_gather, hpl] at hk
  rw [getD_gatherD _ _ _ (by rw [hpl]; exact hk), getD_gather' _ _ (by rw [hpl]; exact hk)]
  exact hU.2 _ (isPermOf_getD_lt hp hk)

end comp

/-! ## 4. the interface law `mttkrp (permute X p) (U ∘ p) k = mttkrp X U p[k]`, from the data laws -/

section mttkrp
variable {α : Type} [Field α]

/-- `mttkrp` returns a matrix of the documented size (`shape[n] × R`). -/
def MttkrpShaped (D : Data α) : Prop :=
  ∀ (U : List (Mat α)) (n R : Nat), n < D.shape.length → ShapeOK D.shape R U →
    IsMat (D.shape.getD n 0) R (D.mttkrp U n)

theorem mat_ext {I R : Nat} {A B : Mat α} (hA : IsMat I R A) (hB : IsMat I R B)
    (h : ∀ i < I, ∀ r < R, A.get i r = B.get i r) : A = B := by
  apply List.ext_getElem (by rw [hA.1, hB.1])
  intro i h1 h2
  have hi : i < I := by rw [← hA.1]; exact h1
  have hra := hA.2 _ (List.getElem_mem h1)
  have hrb := hB.2 _ (List.getElem_mem h2)
  apply List.ext_getElem (by rw [hra, hrb])
  intro r h3 h4
  have hr : r < R := by rw [← hra]; exact h3
  have := h i hi r hr
  simpa [Mat.get, List.getD_eq_getElem?_getD, h1, h2, h3, h4] using this

/-- **The relabelling law of `mttkrp`, entry by entry**, derived from the two interface laws of
`DataLaws` for `X` and for `permute X p`. -/
theorem mttkrp_relabel_entry {D D' : Data α} {X : List Nat → α} {p : List Nat}
    (hp : isPermOf p D.shape.length = true) (hD : DataLaws D X)
    (hD' : DataLaws D' (fun j' => X (gather j' (invPerm p)))) (hs : D'.shape = gather D.shape p)
    {R : Nat} {U : List (Mat α)} (hU : ShapeOK D.shape R U) {k i r : Nat} (hk : k < D.shape.length)
    (hi : i < D.shape.getD (p.getD k 0) 0) (hr : r < R) :
    (D'.mttkrp (gatherD U p []) k).get i r = (D.mttkrp U (p.getD k 0)).get i r := by
  have hpl := isPermOf_length_eq hp
  have hkp : k < p.length := by rw [hpl]; exact hk
  have hsk : D'.shape.getD k 0 = D.shape.getD (p.getD k 0) 0 := by rw [hs, getD_gather' _ _ hkp]
  have hN' : D'.shape.length = D.shape.length := by rw [hs, length_gather, hpl]
  rw [mttkrp_entry hD' (by rw [hs]; exact shapeOK_relabel hp hU) (by rw [hN']; exact hk) (by rw [hsk]; exact hi) hr,
    mttkrp_entry hD hU (isPermOf_getD_lt hp hk) hi hr, hsk, hs,
    gatherD_set hp U hU.1 [] _ hk, ← ip_relabel hp X]
  refine ip_congr _ _ _ _ fun j' hj' => ?_
  rw [length_gather, hpl] at hj'
  exact compOf_relabel hp _ (by rw [List.length_set, hU.1]) j' hj' r

/-- …and as an equality of matrices, for data whose `mttkrp` returns matrices of the documented size. -/
theorem mttkrp_relabel {D D' : Data α} {X : List Nat → α} {p : List Nat}
    (hp : isPermOf p D.shape.length = true) (hD : DataLaws D X)
    (hD' : DataLaws D' (fun j' => X (gather j' (invPerm p)))) (hs : D'.shape = gather D.shape p)
    (hm : MttkrpShaped D) (hm' : MttkrpShaped D')
    {R : Nat} {U : List (Mat α)} (hU : ShapeOK D.shape R U) {k : Nat} (hk : k < D.shape.length) :
    D'.mttkrp (gatherD U p []) k = D.mttkrp U (p.getD k 0) := by
  have hpl := isPermOf_length_eq hp
  have hkp : k < p.length := by rw [hpl]; exact hk
  have hsk : D'.shape.getD k 0 = D.shape.getD (p.getD k 0) 0 := by rw [hs, getD_gather' _ _ hkp]
  have hN' : D'.shape.length = D.shape.length := by rw [hs, length_gather, hpl]
  have h1 := hm' (gatherD U p []) k R (by rw [hN']; exact hk) (by rw [hs]; exact shapeOK_relabel hp hU)
  rw [hsk] at h1
  exact mat_ext h1 (hm U _ R (isPermOf_getD_lt hp hk) hU)
    (fun i hi r hr => mttkrp_relabel_entry hp hD hD' hs hU hk hi hr)

end mttkrp

/-! ## 5. Gram matrices, the coefficient matrix, the model norm -/

section coefs
variable {α : Type} [Field α]

theorem coef_relabel {p : List Nat} {N : Nat} (hp : isPermOf p N = true) (UtU : List (Mat α)) (R : Nat)
    {k : Nat} (hk : k < N) :
    coef (gatherD UtU p []) N R k = coef UtU N R (p.getD k 0) := by
  have hpl := isPermOf_length_eq hp
  unfold coef tab
  refine List.map_congr_left fun a _ => List.map_congr_left fun b _ => ?_
  show prodOver _ _ = prodOver _ _
  rw [prodOver_eq, prodOver_eq, ← prod_filter_relabel hp (fun m => (UtU.getD m []).get a b) hk]
  congr 1
  refine List.map_congr_left fun m hm => ?_
  have hm' : m < N := List.mem_range.1 (List.mem_filter.1 hm).1
  rw [getD_gatherD _ _ _ (by rw [hpl]; exact hm')]

theorem knorm_relabel {p : List Nat} {N : Nat} (hp : isPermOf p N = true) (o : NumOps α) (w : List α)
    (U : List (Mat α)) (hU : U.length = N) : knorm o w (gatherD U p []) = knorm o w U := by
  have hpl := isPermOf_length_eq hp
  unfold knorm knormSq
  simp only [length_gatherD, hpl, hU]
  congr 2
  unfold sumRange
  congr 1
  refine List.map_congr_left fun a _ => ?_
  congr 1
  refine List.map_congr_left fun b _ => ?_
  congr 1
  rw [prodOver_eq, prodOver_eq, ← prod_range_relabel hp (fun n => (gram (U.getD n []) w.length).get a b)]
  congr 1
  refine List.map_congr_left fun k hk => ?_
  rw [getD_gatherD _ _ _ (by rw [hpl]; exact List.mem_range.1 hk)]

end coefs

/-! ## 6. the state of the relabelled run is the relabelling of the state -/

section steps
variable {α : Type} [Field α]

/-- the loop variables with the per-mode lists (`U`, `UtU`) relabelled; everything else as it is -/
def relabelSt (p : List Nat) (st : State α) : State α :=
  { st with U := gatherD st.U p [], UtU := gatherD st.UtU p [] }

/-- What the second problem is, relative to the first: `p` a permutation of the modes, the shape
relabelled, the same `norm()`, the relabelling law of `mttkrp` (`mttkrp_relabel`: a consequence of the
data laws for `X` and `permute X p`), and a solver that answers the request of mode `k` the way the first
run's solver answers the request of mode `p[k]` (for a solver that ignores the mode tag: the same solver —
the solver is a FUNCTION of the system it is given). -/
structure RelabelHyp (D D' : Data α) (S S' : Services α) (p : List Nat) : Prop where
  perm : isPermOf p D.shape.length = true
  shape : D'.shape = gather D.shape p
  norm : D'.norm = D.norm
  mttkrp : ∀ (R : Nat) (U : List (Mat α)), ShapeOK D.shape R U → ∀ k < D.shape.length,
    D'.mttkrp (gatherD U p []) k = D.mttkrp U (p.getD k 0)
  solve : ∀ k < D.shape.length, ∀ Y B, S'.solve k Y B = S.solve (p.getD k 0) Y B

/-- the per-mode lists of the state have one entry per mode, the factors have the right sizes -/
def StOK (D : Data α) (rank : Nat) (st : State α) : Prop :=
  ShapeOK D.shape rank st.U ∧ st.UtU.length = D.shape.length

theorem RelabelHyp.ndims {D D' : Data α} {S S' : Services α} {p : List Nat} (h : RelabelHyp D D' S S' p) :
    D'.shape.length = D.shape.length := by
  rw [h.shape, length_gather, isPermOf_length_eq h.perm]

theorem RelabelHyp.extent {D D' : Data α} {S S' : Services α} {p : List Nat} (h : RelabelHyp D D' S S' p)
    {k : Nat} (hk : k < D.shape.length) : D'.shape.getD k 0 = D.shape.getD (p.getD k 0) 0 := by
  rw [h.shape, getD_gather' _ _ (by rw [isPermOf_length_eq h.perm]; exact hk)]

theorem stOK_modeUpdate {D : Data α} {S : Services α} {o : NumOps α} {rank it last n : Nat} {st st1 : State α}
    (hst : StOK D rank st) (h : modeUpdate D S o rank it last n st = .ok st1) : StOK D rank st1 := by
  refine ⟨(modeUpdate_shape h hst.1).1, ?_⟩
  obtain ⟨A0, _, rfl⟩ := modeUpdate_ok h
  simp [applyUpdate, hst.2]

/-- **One mode update**: updating mode `k` of the relabelled problem in the relabelled state gives the
relabelling of what updating mode `p[k]` of the original problem gives (and succeeds when that does). -/
theorem modeUpdate_relabel {D D' : Data α} {S S' : Services α} {o : NumOps α} {p : List Nat}
    (h : RelabelHyp D D' S S' p) {rank it last last' k : Nat} (hk : k < D.shape.length)
    (hlast : (k == last') = (p.getD k 0 == last)) {st st1 : State α} (hst : StOK D rank st)
    (hmu : modeUpdate D S o rank it last (p.getD k 0) st = .ok st1) :
    modeUpdate D' S' o rank it last' k (relabelSt p st) = .ok (relabelSt p st1) := by
  obtain ⟨A0, hA0, rfl⟩ := modeUpdate_ok hmu
  have e2 : D'.mttkrp (gatherD st.U p []) k = D.mttkrp st.U (p.getD k 0) := h.mttkrp rank st.U hst.1 k hk
  have e3 : coef (gatherD st.UtU p []) D'.shape.length rank k = coef st.UtU D.shape.length rank (p.getD k 0) := by
    rw [h.ndims]; exact coef_relabel h.perm st.UtU rank hk
  unfold modeUpdate
  dsimp only [relabelSt]
  rw [h.extent hk, e2, e3]
  have e4 : solveStep S' o (D.shape.getD (p.getD k 0) 0) rank k (coef st.UtU D.shape.length rank (p.getD k 0))
      (D.mttkrp st.U (p.getD k 0)) = .ok A0 := by
    rw [← hA0]; unfold solveStep; rw [h.solve k hk]
  rw [e4]
  show Except.ok _ = Except.ok _
  congr 1
  simp only [applyUpdate, relabelSt]
  rw [gatherD_set h.perm st.U hst.1.1 [] _ hk, gatherD_set h.perm st.UtU hst.2 [] _ hk, hlast]

theorem getLastD_map (f : Nat → Nat) {l : List Nat} (hne : l ≠ []) : (l.map f).getLastD 0 = f (l.getLastD 0) := by
  rw [List.getLastD_eq_getLast?, List.getLastD_eq_getLast?, List.getLast?_map,
    List.getLast?_eq_some_getLast hne]
  rfl

theorem invPerm_eq_iff {p : List Nat} {N : Nat} (hp : isPermOf p N = true) {a b : Nat} (ha : a < N) (hb : b < N) :
    ((invPerm p).getD a 0 == (invPerm p).getD b 0) = (a == b) := by
  have hq := isPermOf_invPerm hp
  by_cases hab : a = b
  · subst hab; simp
  · have : (invPerm p).getD a 0 ≠ (invPerm p).getD b 0 := fun e => hab (isPermOf_getD_inj hq ha hb e)
    rw [beq_eq_false_iff_ne.2 this, beq_eq_false_iff_ne.2 hab]

/-- **A sweep** over `dims` (modes of the original problem) corresponds to the sweep over the relabelled
modes `invPerm p [n]`. -/
theorem sweep_relabel {D D' : Data α} {S S' : Services α} {o : NumOps α} {p : List Nat}
    (h : RelabelHyp D D' S S' p) {rank it last : Nat} (hlast : last < D.shape.length) (dims : List Nat)
    (hdims : ∀ n ∈ dims, n < D.shape.length) {st st1 : State α} (hst : StOK D rank st)
    (hf : dims.foldlM (fun s n => modeUpdate D S o rank it last n s) st = .ok st1) :
    (dims.map fun n => (invPerm p).getD n 0).foldlM
        (fun s k => modeUpdate D' S' o rank it ((invPerm p).getD last 0) k s) (relabelSt p st) =
      .ok (relabelSt p st1) ∧ StOK D rank st1 := by
  induction dims generalizing st with
  | nil =>
    simp [List.foldlM] at hf
    cases hf
    exact ⟨rfl, hst⟩
  | cons n rest ih =>
    rw [List.foldlM_cons] at hf
    cases hm : modeUpdate D S o rank it last n st with
    | error e => rw [hm] at hf; cases hf
    | ok s2 =>
      rw [hm] at hf
      have hn := hdims n (List.mem_cons_self ..)
      have hqn := isPermOf_invPerm_getD_lt h.perm hn
      have hpq : p.getD ((invPerm p).getD n 0) 0 = n := getD_invPerm_getD h.perm hn
      have hs2 := stOK_modeUpdate hst hm
      have step := modeUpdate_relabel (o := o) (rank := rank) (it := it) (last := last)
        (last' := (invPerm p).getD last 0) h hqn
        (by rw [hpq]; exact invPerm_eq_iff h.perm hn hlast) hst (by rw [hpq]; exact hm)
      obtain ⟨r1, r2⟩ := ih (fun m hm => hdims m (List.mem_cons_of_mem _ hm)) hs2 hf
      refine ⟨?_, r2⟩
      rw [List.map_cons, List.foldlM_cons, step]
      exact r1

theorem closePass_relabel (o : NumOps α) (p : List Nat) (stoptol : α) (it : Nat) (fo nr ft : α) (st : State α) :
    closePass o stoptol it fo nr ft (relabelSt p st) = relabelSt p (closePass o stoptol it fo nr ft st) := rfl

theorem stOK_closePass {D : Data α} {o : NumOps α} {rank : Nat} (stoptol : α) (it : Nat) (fo nr ft : α) {st : State α}
    (h : StOK D rank st) : StOK D rank (closePass o stoptol it fo nr ft st) := h

/-- **One pass**: same fit, same residual, same stop decision; the state is the relabelled state. -/
theorem iterStep_relabel {D D' : Data α} {S S' : Services α} {o : NumOps α} {p : List Nat}
    (h : RelabelHyp D D' S S' p) {rank it : Nat} {stoptol : α} {dims : List Nat} (hne : dims ≠ [])
    (hdims : ∀ n ∈ dims, n < D.shape.length) {st st2 : State α} (hst : StOK D rank st)
    (hi : iterStep D S o rank stoptol dims it st = .ok st2) :
    iterStep D' S' o rank stoptol (dims.map fun n => (invPerm p).getD n 0) it (relabelSt p st) =
      .ok (relabelSt p st2) ∧ StOK D rank st2 := by
  obtain ⟨st1, hf, rfl⟩ := iterStep_ok hi
  have hlast : dims.getLastD 0 < D.shape.length := hdims _ (getLastD_mem hne)
  obtain ⟨r1, r2⟩ := sweep_relabel (o := o) (rank := rank) (it := it) h hlast dims hdims hst hf
  refine ⟨?_, stOK_closePass _ _ _ _ _ r2⟩
  have hpl := isPermOf_length_eq h.perm
  have hql := isPermOf_invPerm_getD_lt h.perm hlast
  have hpq : p.getD ((invPerm p).getD (dims.getLastD 0) 0) 0 = dims.getLastD 0 := getD_invPerm_getD h.perm hlast
  unfold iterStep
  dsimp only
  rw [getLastD_map _ hne, r1]
  show Except.ok _ = Except.ok _
  congr 1
  rw [← closePass_relabel]
  have eU : (relabelSt p st1).U.getD ((invPerm p).getD (dims.getLastD 0) 0) [] = st1.U.getD (dims.getLastD 0) [] := by
    show (gatherD st1.U p []).getD _ [] = _
    rw [getD_gatherD _ _ _ (by rw [hpl]; exact hql), hpq]
  have eK : knorm o (relabelSt p st1).weights (relabelSt p st1).U = knorm o st1.weights st1.U :=
    knorm_relabel h.perm o st1.weights st1.U r2.1.1
  rw [h.extent hql, hpq, eU, eK, h.norm]
  rfl

/-- **The loop**: the same number of passes, the final state is the relabelled final state. -/
theorem loop_relabel {D D' : Data α} {S S' : Services α} {o : NumOps α} {p : List Nat}
    (h : RelabelHyp D D' S S' p) {rank : Nat} {stoptol : α} {dims : List Nat} (hne : dims ≠ [])
    (hdims : ∀ n ∈ dims, n < D.shape.length) :
    ∀ (fuel k : Nat) {st stF : State α}, StOK D rank st →
      loopFrom (iterStep D S o rank stoptol dims) fuel k st = .ok stF →
      loopFrom (iterStep D' S' o rank stoptol (dims.map fun n => (invPerm p).getD n 0)) fuel k (relabelSt p st) =
        .ok (relabelSt p stF) ∧ StOK D rank stF := by
  intro fuel
  induction fuel with
  | zero =>
    intro k st stF hst hl
    simp only [loopFrom, Except.ok.injEq] at hl
    subst hl
    exact ⟨rfl, hst⟩
  | succ fuel ih =>
    intro k st stF hst hl
    unfold loopFrom at hl ⊢
    cases hs1 : iterStep D S o rank stoptol dims k st with
    | error e => rw [hs1] at hl; cases hl
    | ok s1 =>
      rw [hs1] at hl
      obtain ⟨r1, r2⟩ := iterStep_relabel h hne hdims hst hs1
      rw [r1]
      have hstop : (relabelSt p s1).stop = s1.stop := rfl
      by_cases hb : s1.stop = true
      · simp only [bind, Except.bind, hb, if_true, Except.ok.injEq] at hl
        subst hl
        refine ⟨?_, r2⟩
        simp only [bind, Except.bind, hstop, hb, if_true]
      · simp only [bind, Except.bind, hb, if_false] at hl
        simp only [bind, Except.bind, hstop, hb, if_false]
        exact ih (k + 1) r2 hl

end steps

end Pyttb.CpAls
