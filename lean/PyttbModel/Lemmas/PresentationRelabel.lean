/-
C18, whole-run mode relabelling of CP-ALS (the model of C09: `Alg/CpAls.lean`).

Two runs are compared: data `D` denoting the array `X` of shape `s`, and data `D'` denoting
`permute X p`, i.e. the array of shape `gather s p` with entries `X' j' = X (gather j' (invPerm p))`
(mode `k` of the second problem is mode `p[k]` of the first).  The start is relabelled
(`U'[k] = U[p[k]]`), `dimorder` and `optdims` are mapped through `invPerm p`.

Unlike scaling, relabelling is an exact symmetry of every step: the state of the second run is the
relabelling `relabelSt p st` of the state of the first run after every mode update, the reported
numbers are the SAME numbers, and the returned model is the relabelling of the other returned model —
except for `fixsigns()`, whose choice of the modes that absorb an odd number of sign flips depends on
the mode ORDER (`relabel_fixsigns_counterexample`).
-/
import PyttbModel.Lemmas.PresentationRun
import PyttbModel.Alg.PresentationRelabel
import PyttbModel.Lemmas.MLSums
import PyttbModel.Lemmas.Perm
import PyttbModel.Lemmas.EraseDups

set_option linter.unusedSectionVars false
set_option linter.unusedSimpArgs false
set_option linter.unnecessarySeqFocus false
set_option linter.unusedVariables false
namespace Pyttb.CpAls
open Pyttb

/-! ## 1. gathering a list by a permutation -/

section gatherD
variable {β : Type}

theorem length_gatherD (l : List β) (p : List Nat) (d : β) : (gatherD l p d).length = p.length := by
  simp [gatherD]

theorem getD_gatherD (l : List β) (p : List Nat) (d : β) {k : Nat} (hk : k < p.length) :
    (gatherD l p d).getD k d = l.getD (p.getD k 0) d := by
  simp [gatherD, List.getD_eq_getElem?_getD, hk]

/-- writing position `k` of the relabelled list = relabelling after writing position `p[k]` -/
theorem gatherD_set {p : List Nat} {N : Nat} (hp : isPermOf p N = true) (l : List β) (hl : l.length = N)
    (d x : β) {k : Nat} (hk : k < N) :
    (gatherD l p d).set k x = gatherD (l.set (p.getD k 0) x) p d := by
  have hpl := isPermOf_length_eq hp
  apply List.ext_getElem
  · simp [gatherD]
  · intro m h1 h2
    simp only [gatherD, List.length_set, List.length_map] at h1
    have hm : m < N := by omega
    simp only [gatherD, List.getElem_set, List.getElem_map]
    by_cases hkm : k = m
    · subst hkm
      simp only [if_true]
      have : p[k] = p.getD k 0 := (getD0_of_lt p k h1).symm
      rw [this, getD_set_eq _ _ _ _ (by rw [hl]; exact isPermOf_getD_lt hp hk)]
    · rw [if_neg hkm]
      have hne : p.getD k 0 ≠ p[m] := by
        rw [← getD0_of_lt p m h1]
        exact fun e => hkm (isPermOf_getD_inj hp hk hm e)
      rw [getD_set_ne _ _ _ hne]

theorem gatherD_map {γ : Type} (l : List β) (p : List Nat) (d : β) (d' : γ) (f : β → γ) (hf : f d = d') :
    (gatherD l p d).map f = gatherD (l.map f) p d' := by
  simp only [gatherD, List.map_map]
  refine List.map_congr_left fun k _ => ?_
  simp only [Function.comp, List.getD_eq_getElem?_getD, List.getElem?_map]
  cases l[k]? <;> simp [hf]

theorem gatherD_map_of_lt {γ : Type} (l : List β) (p : List Nat) (d : β) (d' : γ) (f : β → γ)
    (hlt : ∀ k ∈ p, k < l.length) : (gatherD l p d).map f = gatherD (l.map f) p d' := by
  simp only [gatherD, List.map_map]
  refine List.map_congr_left fun k hk => ?_
  have := hlt k hk
  simp [Function.comp, List.getD_eq_getElem?_getD, this]

theorem map_getD_range_perm {p : List Nat} {N : Nat} (hp : isPermOf p N = true) :
    (List.range N).map (fun k => p.getD k 0) = p := by
  have hpl := isPermOf_length_eq hp
  apply List.ext_getElem
  · simp [hpl]
  · intro k h1 h2
    simp [List.getD_eq_getElem?_getD, h2]

end gatherD

/-! ## 2. products over the modes, reindexed -/

section prods
variable {M : Type} [CommMonoid M]

theorem prod_range_relabel {p : List Nat} {N : Nat} (hp : isPermOf p N = true) (f : Nat → M) :
    ((List.range N).map fun k => f (p.getD k 0)).prod = ((List.range N).map f).prod := by
  have h1 : (List.range N).map (fun k => f (p.getD k 0)) = p.map f := by
    conv_rhs => rw [← map_getD_range_perm hp, List.map_map]
    rfl
  rw [h1]
  exact ((isPermOf_perm hp).symm.map f).prod_eq

theorem prod_filter_relabel {p : List Nat} {N : Nat} (hp : isPermOf p N = true) (f : Nat → M) {k : Nat} (hk : k < N) :
    (((List.range N).filter (· != k)).map fun m => f (p.getD m 0)).prod =
      (((List.range N).filter (· != p.getD k 0)).map f).prod := by
  rw [← prod_map_ite_ne, ← prod_map_ite_ne]
  rw [← prod_range_relabel hp (fun m => if m = p.getD k 0 then 1 else f m)]
  congr 1
  refine List.map_congr_left fun m hm => ?_
  have hm' := List.mem_range.1 hm
  by_cases h : m = k
  · subst h; simp
  · rw [if_neg h, if_neg (fun e => h (isPermOf_getD_inj hp hm' hk e))]

end prods

/-! ## 3. component products, Kruskal entries and inner products under relabelling -/

section comp
variable {α : Type} [Field α]

theorem compOf_eq_prodN (U : List (Mat α)) (j : List Nat) (r : Nat) (hj : j.length = U.length) :
    compOf U r j = prodN U.length fun m => (U.getD m []).get (j.getD m 0) r := by
  induction U generalizing j with
  | nil =>
    cases j with
    | nil => simp [compOf, prodN]
    | cons _ _ => simp at hj
  | cons A U ih =>
    cases j with
    | nil => simp at hj
    | cons i j =>
      simp only [List.length_cons, Nat.add_right_cancel_iff] at hj
      have ih' := ih j hj
      unfold compOf at ih' ⊢
      unfold prodN at ih' ⊢
      simp only [List.zipWith_cons_cons, List.prod_cons, List.length_cons]
      rw [ih', List.range_succ_eq_map, List.map_cons, List.prod_cons, List.map_map]
      simp [Function.comp_def]

/-- the component product of the relabelled factors at a subscript of the relabelled shape is the
component product of the original factors at the un-permuted subscript -/
theorem compOf_relabel {p : List Nat} {N : Nat} (hp : isPermOf p N = true) (U : List (Mat α)) (hU : U.length = N)
    (j' : List Nat) (hj : j'.length = N) (r : Nat) :
    compOf (gatherD U p []) r j' = compOf U r (gather j' (invPerm p)) := by
  have hpl := isPermOf_length_eq hp
  rw [compOf_eq_prodN _ _ _ (by rw [length_gatherD, hpl, hj]),
    compOf_eq_prodN _ _ _ (by rw [length_gather, length_invPerm, hpl, hU]), length_gatherD, hpl, hU]
  unfold prodN
  rw [← prod_range_relabel hp (fun m => (U.getD m []).get ((gather j' (invPerm p)).getD m 0) r)]
  congr 1
  refine List.map_congr_left fun k hk => ?_
  have hk' := List.mem_range.1 hk
  rw [getD_gatherD _ _ _ (by rw [hpl]; exact hk'), unperm_spec p j' N hp hj k hk']

theorem ktensor_get_relabel {p : List Nat} {N : Nat} (hp : isPermOf p N = true) (w : List α) (U : List (Mat α))
    (hU : U.length = N) (j' : List Nat) (hj : j'.length = N) :
    Ktensor.get ⟨w, gatherD U p []⟩ j' = Ktensor.get ⟨w, U⟩ (gather j' (invPerm p)) := by
  rw [ktensor_get_eq, ktensor_get_eq]
  refine Finset.sum_congr rfl fun r _ => ?_
  rw [compOf_relabel hp U hU j' hj r]

/-- inner products of arrays of the relabelled shape are inner products of the un-permuted arrays -/
theorem ip_relabel {p s : List Nat} (hp : isPermOf p s.length = true) (X f : List Nat → α) :
    ip (gather s p) (fun j' => X (gather j' (invPerm p))) (fun j' => f (gather j' (invPerm p))) = ip s X f := by
  unfold ip
  exact (ML.sum_allSubs_perm s p hp (fun j => X j * f j)).symm

theorem getD_gather' (s p : List Nat) {k : Nat} (hk : k < p.length) : (gather s p).getD k 0 = s.getD (p.getD k 0) 0 :=
  getD_gather s p k hk

theorem shapeOK_relabel {p s : List Nat} (hp : isPermOf p s.length = true) {R : Nat} {U : List (Mat α)}
    (hU : ShapeOK s R U) : ShapeOK (gather s p) R (gatherD U p []) := by
  have hpl := isPermOf_length_eq hp
  refine ⟨by rw [length_gatherD, length_gather], fun k hk => ?_⟩
  rw [length_gather, hpl] at hk
  rw [getD_gatherD _ _ _ (by rw [hpl]; exact hk), getD_gather' _ _ (by rw [hpl]; exact hk)]
  exact hU.2 _ (isPermOf_getD_lt hp hk)

end comp

/-! ## 4. the interface law `mttkrp (permute X p) (U ∘ p) k = mttkrp X U p[k]`, from the data laws -/

section mttkrp
variable {α : Type} [Field α]

/-- `mttkrp` returns a matrix of the documented size (`shape[n] × R`). -/
def MttkrpShaped (D : Data α) : Prop :=
  ∀ (U : List (Mat α)) (n R : Nat), n < D.shape.length → ShapeOK D.shape R U →
    IsMat (D.shape.getD n 0) R (D.mttkrp U n)

theorem mat_ext {I R : Nat} {A B : Mat α} (hA : IsMat I R A) (hB : IsMat I R B)
    (h : ∀ i < I, ∀ r < R, A.get i r = B.get i r) : A = B := by
  apply List.ext_getElem (by rw [hA.1, hB.1])
  intro i h1 h2
  have hi : i < I := by rw [← hA.1]; exact h1
  have hra := hA.2 _ (List.getElem_mem h1)
  have hrb := hB.2 _ (List.getElem_mem h2)
  apply List.ext_getElem (by rw [hra, hrb])
  intro r h3 h4
  have hr : r < R := by rw [← hra]; exact h3
  have := h i hi r hr
  simpa [Mat.get, List.getD_eq_getElem?_getD, h1, h2, h3, h4] using this

/-- **The relabelling law of `mttkrp`, entry by entry**, derived from the two interface laws of
`DataLaws` for `X` and for `permute X p`. -/
theorem mttkrp_relabel_entry {D D' : Data α} {X : List Nat → α} {p : List Nat}
    (hp : isPermOf p D.shape.length = true) (hD : DataLaws D X)
    (hD' : DataLaws D' (fun j' => X (gather j' (invPerm p)))) (hs : D'.shape = gather D.shape p)
    {R : Nat} {U : List (Mat α)} (hU : ShapeOK D.shape R U) {k i r : Nat} (hk : k < D.shape.length)
    (hi : i < D.shape.getD (p.getD k 0) 0) (hr : r < R) :
    (D'.mttkrp (gatherD U p []) k).get i r = (D.mttkrp U (p.getD k 0)).get i r := by
  have hpl := isPermOf_length_eq hp
  have hkp : k < p.length := by rw [hpl]; exact hk
  have hsk : D'.shape.getD k 0 = D.shape.getD (p.getD k 0) 0 := by rw [hs, getD_gather' _ _ hkp]
  have hN' : D'.shape.length = D.shape.length := by rw [hs, length_gather, hpl]
  rw [mttkrp_entry hD' (by rw [hs]; exact shapeOK_relabel hp hU) (by rw [hN']; exact hk) (by rw [hsk]; exact hi) hr,
    mttkrp_entry hD hU (isPermOf_getD_lt hp hk) hi hr, hsk, hs,
    gatherD_set hp U hU.1 [] _ hk, ← ip_relabel hp X]
  refine ip_congr _ _ _ _ fun j' hj' => ?_
  rw [length_gather, hpl] at hj'
  exact compOf_relabel hp _ (by rw [List.length_set, hU.1]) j' hj' r

/-- …and as an equality of matrices, for data whose `mttkrp` returns matrices of the documented size. -/
theorem mttkrp_relabel {D D' : Data α} {X : List Nat → α} {p : List Nat}
    (hp : isPermOf p D.shape.length = true) (hD : DataLaws D X)
    (hD' : DataLaws D' (fun j' => X (gather j' (invPerm p)))) (hs : D'.shape = gather D.shape p)
    (hm : MttkrpShaped D) (hm' : MttkrpShaped D')
    {R : Nat} {U : List (Mat α)} (hU : ShapeOK D.shape R U) {k : Nat} (hk : k < D.shape.length) :
    D'.mttkrp (gatherD U p []) k = D.mttkrp U (p.getD k 0) := by
  have hpl := isPermOf_length_eq hp
  have hkp : k < p.length := by rw [hpl]; exact hk
  have hsk : D'.shape.getD k 0 = D.shape.getD (p.getD k 0) 0 := by rw [hs, getD_gather' _ _ hkp]
  have hN' : D'.shape.length = D.shape.length := by rw [hs, length_gather, hpl]
  have h1 := hm' (gatherD U p []) k R (by rw [hN']; exact hk) (by rw [hs]; exact shapeOK_relabel hp hU)
  rw [hsk] at h1
  exact mat_ext h1 (hm U _ R (isPermOf_getD_lt hp hk) hU)
    (fun i hi r hr => mttkrp_relabel_entry hp hD hD' hs hU hk hi hr)

end mttkrp

/-! ## 5. Gram matrices, the coefficient matrix, the model norm -/

section coefs
variable {α : Type} [Field α]

theorem coef_relabel {p : List Nat} {N : Nat} (hp : isPermOf p N = true) (UtU : List (Mat α)) (R : Nat)
    {k : Nat} (hk : k < N) :
    coef (gatherD UtU p []) N R k = coef UtU N R (p.getD k 0) := by
  have hpl := isPermOf_length_eq hp
  unfold coef tab
  refine List.map_congr_left fun a _ => List.map_congr_left fun b _ => ?_
  show prodOver _ _ = prodOver _ _
  rw [prodOver_eq, prodOver_eq, ← prod_filter_relabel hp (fun m => (UtU.getD m []).get a b) hk]
  congr 1
  refine List.map_congr_left fun m hm => ?_
  have hm' : m < N := List.mem_range.1 (List.mem_filter.1 hm).1
  rw [getD_gatherD _ _ _ (by rw [hpl]; exact hm')]

theorem knorm_relabel {p : List Nat} {N : Nat} (hp : isPermOf p N = true) (o : NumOps α) (w : List α)
    (U : List (Mat α)) (hU : U.length = N) : knorm o w (gatherD U p []) = knorm o w U := by
  have hpl := isPermOf_length_eq hp
  unfold knorm knormSq
  simp only [length_gatherD, hpl, hU]
  congr 2
  unfold sumRange
  congr 1
  refine List.map_congr_left fun a _ => ?_
  congr 1
  refine List.map_congr_left fun b _ => ?_
  congr 1
  rw [prodOver_eq, prodOver_eq, ← prod_range_relabel hp (fun n => (gram (U.getD n []) w.length).get a b)]
  congr 1
  refine List.map_congr_left fun k hk => ?_
  rw [getD_gatherD _ _ _ (by rw [hpl]; exact List.mem_range.1 hk)]

end coefs

/-! ## 6. the state of the relabelled run is the relabelling of the state -/

section steps
variable {α : Type} [Field α]

/-- What the second problem is, relative to the first: `p` a permutation of the modes, the shape
relabelled, the same `norm()`, the relabelling law of `mttkrp` (`mttkrp_relabel`: a consequence of the
data laws for `X` and `permute X p`), and a solver that answers the request of mode `k` the way the first
run's solver answers the request of mode `p[k]` (for a solver that ignores the mode tag: the same solver —
the solver is a FUNCTION of the system it is given). -/
structure RelabelHyp (D D' : Data α) (S S' : Services α) (p : List Nat) : Prop where
  perm : isPermOf p D.shape.length = true
  shape : D'.shape = gather D.shape p
  norm : D'.norm = D.norm
  mttkrp : ∀ (R : Nat) (U : List (Mat α)), ShapeOK D.shape R U → ∀ k < D.shape.length,
    D'.mttkrp (gatherD U p []) k = D.mttkrp U (p.getD k 0)
  solve : ∀ k < D.shape.length, ∀ Y B, S'.solve k Y B = S.solve (p.getD k 0) Y B

/-- the per-mode lists of the state have one entry per mode, the factors have the right sizes -/
def StOK (D : Data α) (rank : Nat) (st : State α) : Prop :=
  ShapeOK D.shape rank st.U ∧ st.UtU.length = D.shape.length

theorem RelabelHyp.ndims {D D' : Data α} {S S' : Services α} {p : List Nat} (h : RelabelHyp D D' S S' p) :
    D'.shape.length = D.shape.length := by
  rw [h.shape, length_gather, isPermOf_length_eq h.perm]

theorem RelabelHyp.extent {D D' : Data α} {S S' : Services α} {p : List Nat} (h : RelabelHyp D D' S S' p)
    {k : Nat} (hk : k < D.shape.length) : D'.shape.getD k 0 = D.shape.getD (p.getD k 0) 0 := by
  rw [h.shape, getD_gather' _ _ (by rw [isPermOf_length_eq h.perm]; exact hk)]

theorem stOK_modeUpdate {D : Data α} {S : Services α} {o : NumOps α} {rank it last n : Nat} {st st1 : State α}
    (hst : StOK D rank st) (h : modeUpdate D S o rank it last n st = .ok st1) : StOK D rank st1 := by
  refine ⟨(modeUpdate_shape h hst.1).1, ?_⟩
  obtain ⟨A0, _, rfl⟩ := modeUpdate_ok h
  simp [applyUpdate, hst.2]

/-- **One mode update**: updating mode `k` of the relabelled problem in the relabelled state gives the
relabelling of what updating mode `p[k]` of the original problem gives (and succeeds when that does). -/
theorem modeUpdate_relabel {D D' : Data α} {S S' : Services α} {o : NumOps α} {p : List Nat}
    (h : RelabelHyp D D' S S' p) {rank it last last' k : Nat} (hk : k < D.shape.length)
    (hlast : (k == last') = (p.getD k 0 == last)) {st st1 : State α} (hst : StOK D rank st)
    (hmu : modeUpdate D S o rank it last (p.getD k 0) st = .ok st1) :
    modeUpdate D' S' o rank it last' k (relabelSt p st) = .ok (relabelSt p st1) := by
  obtain ⟨A0, hA0, rfl⟩ := modeUpdate_ok hmu
  have e2 : D'.mttkrp (gatherD st.U p []) k = D.mttkrp st.U (p.getD k 0) := h.mttkrp rank st.U hst.1 k hk
  have e3 : coef (gatherD st.UtU p []) D'.shape.length rank k = coef st.UtU D.shape.length rank (p.getD k 0) := by
    rw [h.ndims]; exact coef_relabel h.perm st.UtU rank hk
  unfold modeUpdate
  dsimp only [relabelSt]
  rw [h.extent hk, e2, e3]
  have e4 : solveStep S' o (D.shape.getD (p.getD k 0) 0) rank k (coef st.UtU D.shape.length rank (p.getD k 0))
      (D.mttkrp st.U (p.getD k 0)) = .ok A0 := by
    rw [← hA0]; unfold solveStep; rw [h.solve k hk]
  rw [e4]
  show Except.ok _ = Except.ok _
  congr 1
  simp only [applyUpdate, relabelSt]
  rw [gatherD_set h.perm st.U hst.1.1 [] _ hk, gatherD_set h.perm st.UtU hst.2 [] _ hk, hlast]

theorem getLastD_map (f : Nat → Nat) {l : List Nat} (hne : l ≠ []) : (l.map f).getLastD 0 = f (l.getLastD 0) := by
  rw [List.getLastD_eq_getLast?, List.getLastD_eq_getLast?, List.getLast?_map,
    List.getLast?_eq_some_getLast hne]
  rfl

theorem invPerm_eq_iff {p : List Nat} {N : Nat} (hp : isPermOf p N = true) {a b : Nat} (ha : a < N) (hb : b < N) :
    ((invPerm p).getD a 0 == (invPerm p).getD b 0) = (a == b) := by
  have hq := isPermOf_invPerm hp
  by_cases hab : a = b
  · subst hab; simp
  · have : (invPerm p).getD a 0 ≠ (invPerm p).getD b 0 := fun e => hab (isPermOf_getD_inj hq ha hb e)
    rw [beq_eq_false_iff_ne.2 this, beq_eq_false_iff_ne.2 hab]

/-- **A sweep** over `dims` (modes of the original problem) corresponds to the sweep over the relabelled
modes `invPerm p [n]`. -/
theorem sweep_relabel {D D' : Data α} {S S' : Services α} {o : NumOps α} {p : List Nat}
    (h : RelabelHyp D D' S S' p) {rank it last : Nat} (hlast : last < D.shape.length) (dims : List Nat)
    (hdims : ∀ n ∈ dims, n < D.shape.length) {st st1 : State α} (hst : StOK D rank st)
    (hf : dims.foldlM (fun s n => modeUpdate D S o rank it last n s) st = .ok st1) :
    (dims.map fun n => (invPerm p).getD n 0).foldlM
        (fun s k => modeUpdate D' S' o rank it ((invPerm p).getD last 0) k s) (relabelSt p st) =
      .ok (relabelSt p st1) ∧ StOK D rank st1 := by
  induction dims generalizing st with
  | nil =>
    simp [List.foldlM] at hf
    cases hf
    exact ⟨rfl, hst⟩
  | cons n rest ih =>
    rw [List.foldlM_cons] at hf
    cases hm : modeUpdate D S o rank it last n st with
    | error e => rw [hm] at hf; cases hf
    | ok s2 =>
      rw [hm] at hf
      have hn := hdims n (List.mem_cons_self ..)
      have hqn := isPermOf_invPerm_getD_lt h.perm hn
      have hpq : p.getD ((invPerm p).getD n 0) 0 = n := getD_invPerm_getD h.perm hn
      have hs2 := stOK_modeUpdate hst hm
      have step := modeUpdate_relabel (o := o) (rank := rank) (it := it) (last := last)
        (last' := (invPerm p).getD last 0) h hqn
        (by rw [hpq]; exact invPerm_eq_iff h.perm hn hlast) hst (by rw [hpq]; exact hm)
      obtain ⟨r1, r2⟩ := ih (fun m hm => hdims m (List.mem_cons_of_mem _ hm)) hs2 hf
      refine ⟨?_, r2⟩
      rw [List.map_cons, List.foldlM_cons, step]
      exact r1

theorem closePass_relabel (o : NumOps α) (p : List Nat) (stoptol : α) (it : Nat) (fo nr ft : α) (st : State α) :
    closePass o stoptol it fo nr ft (relabelSt p st) = relabelSt p (closePass o stoptol it fo nr ft st) := rfl

theorem stOK_closePass {D : Data α} {o : NumOps α} {rank : Nat} (stoptol : α) (it : Nat) (fo nr ft : α) {st : State α}
    (h : StOK D rank st) : StOK D rank (closePass o stoptol it fo nr ft st) := h

/-- **One pass**: same fit, same residual, same stop decision; the state is the relabelled state. -/
theorem iterStep_relabel {D D' : Data α} {S S' : Services α} {o : NumOps α} {p : List Nat}
    (h : RelabelHyp D D' S S' p) {rank it : Nat} {stoptol : α} {dims : List Nat} (hne : dims ≠ [])
    (hdims : ∀ n ∈ dims, n < D.shape.length) {st st2 : State α} (hst : StOK D rank st)
    (hi : iterStep D S o rank stoptol dims it st = .ok st2) :
    iterStep D' S' o rank stoptol (dims.map fun n => (invPerm p).getD n 0) it (relabelSt p st) =
      .ok (relabelSt p st2) ∧ StOK D rank st2 := by
  obtain ⟨st1, hf, rfl⟩ := iterStep_ok hi
  have hlast : dims.getLastD 0 < D.shape.length := hdims _ (getLastD_mem hne)
  obtain ⟨r1, r2⟩ := sweep_relabel (o := o) (rank := rank) (it := it) h hlast dims hdims hst hf
  refine ⟨?_, stOK_closePass _ _ _ _ _ r2⟩
  have hpl := isPermOf_length_eq h.perm
  have hql := isPermOf_invPerm_getD_lt h.perm hlast
  have hpq : p.getD ((invPerm p).getD (dims.getLastD 0) 0) 0 = dims.getLastD 0 := getD_invPerm_getD h.perm hlast
  unfold iterStep
  dsimp only
  rw [getLastD_map _ hne, r1]
  show Except.ok _ = Except.ok _
  congr 1
  rw [← closePass_relabel]
  have eU : (relabelSt p st1).U.getD ((invPerm p).getD (dims.getLastD 0) 0) [] = st1.U.getD (dims.getLastD 0) [] := by
    show (gatherD st1.U p []).getD _ [] = _
    rw [getD_gatherD _ _ _ (by rw [hpl]; exact hql), hpq]
  have eK : knorm o (relabelSt p st1).weights (relabelSt p st1).U = knorm o st1.weights st1.U :=
    knorm_relabel h.perm o st1.weights st1.U r2.1.1
  rw [h.extent hql, hpq, eU, eK, h.norm]
  rfl

/-- **The loop**: the same number of passes, the final state is the relabelled final state. -/
theorem loop_relabel {D D' : Data α} {S S' : Services α} {o : NumOps α} {p : List Nat}
    (h : RelabelHyp D D' S S' p) {rank : Nat} {stoptol : α} {dims : List Nat} (hne : dims ≠ [])
    (hdims : ∀ n ∈ dims, n < D.shape.length) :
    ∀ (fuel k : Nat) {st stF : State α}, StOK D rank st →
      loopFrom (iterStep D S o rank stoptol dims) fuel k st = .ok stF →
      loopFrom (iterStep D' S' o rank stoptol (dims.map fun n => (invPerm p).getD n 0)) fuel k (relabelSt p st) =
        .ok (relabelSt p stF) ∧ StOK D rank stF := by
  intro fuel
  induction fuel with
  | zero =>
    intro k st stF hst hl
    simp only [loopFrom, Except.ok.injEq] at hl
    subst hl
    exact ⟨rfl, hst⟩
  | succ fuel ih =>
    intro k st stF hst hl
    unfold loopFrom at hl ⊢
    cases hs1 : iterStep D S o rank stoptol dims k st with
    | error e => rw [hs1] at hl; cases hl
    | ok s1 =>
      rw [hs1] at hl
      obtain ⟨r1, r2⟩ := iterStep_relabel h hne hdims hst hs1
      rw [r1]
      have hstop : (relabelSt p s1).stop = s1.stop := rfl
      by_cases hb : s1.stop = true
      · simp only [bind, Except.bind, hb, if_true, Except.ok.injEq] at hl
        subst hl
        refine ⟨?_, r2⟩
        simp only [bind, Except.bind, hstop, hb, if_true]
      · simp only [bind, Except.bind, hb, if_false] at hl
        simp only [bind, Except.bind, hstop, hb, if_false]
        exact ih (k + 1) r2 hl

end steps

/-! ## 7. the final clean-up: `arrange()` commutes with the relabelling -/

section cleanup
variable {α : Type} [Field α] [LinearOrder α] [IsStrictOrderedRing α]

theorem tab_congr (I R : Nat) (f g : Nat → Nat → α) (h : ∀ i < I, ∀ r < R, f i r = g i r) : tab I R f = tab I R g := by
  unfold tab
  exact List.map_congr_left fun i hi => List.map_congr_left fun r hr => h i (List.mem_range.1 hi) r (List.mem_range.1 hr)

theorem getD_map_range' {β : Type} (n : Nat) (f : Nat → β) (d : β) {a : Nat} (ha : a < n) :
    ((List.range n).map f).getD a d = f a := by
  simp [List.getD_eq_getElem?_getD, List.getElem?_map, List.getElem?_range ha]

/-- `normalizeMode` with the auxiliary vector of column norms spelled out -/
theorem normalizeMode_eq (o : NumOps α) (K : Ktensor α) (n : Nat) :
    normalizeMode o K n =
      ⟨(List.range K.weights.length).map fun r => K.weights.getD r 0 * colNorm2 o (K.factors.getD n []) r,
       K.factors.set n (tab (K.factors.getD n []).length K.weights.length fun i r =>
         if o.lt 0 (colNorm2 o (K.factors.getD n []) r)
         then (o.ofNat 1 / colNorm2 o (K.factors.getD n []) r) * (K.factors.getD n []).get i r
         else (K.factors.getD n []).get i r)⟩ := by
  unfold normalizeMode
  simp only
  congr 1
  · refine List.map_congr_left fun r hr => ?_
    rw [getD_map_range' _ _ _ (List.mem_range.1 hr)]
  · congr 1
    refine tab_congr _ _ _ _ fun i _ r hr => ?_
    rw [getD_map_range' _ _ _ hr]

theorem normalizeMode_relabel {p : List Nat} {N : Nat} (hp : isPermOf p N = true) (o : NumOps α) (K : Ktensor α)
    (hK : K.factors.length = N) {k : Nat} (hk : k < N) :
    normalizeMode o (relabelK p K) k = relabelK p (normalizeMode o K (p.getD k 0)) := by
  have hpl := isPermOf_length_eq hp
  rw [normalizeMode_eq, normalizeMode_eq]
  have e : (gatherD K.factors p []).getD k [] = K.factors.getD (p.getD k 0) [] :=
    getD_gatherD _ _ _ (by rw [hpl]; exact hk)
  simp only [relabelK, e]
  rw [gatherD_set hp K.factors hK [] _ hk]

theorem normalizeMode_comm (o : NumOps α) (K : Ktensor α) (a b : Nat) :
    normalizeMode o (normalizeMode o K a) b = normalizeMode o (normalizeMode o K b) a := by
  by_cases hab : a = b
  · subst hab; rfl
  · have hba : b ≠ a := fun e => hab e.symm
    rw [normalizeMode_eq o (normalizeMode o K a) b, normalizeMode_eq o (normalizeMode o K b) a,
      normalizeMode_eq o K a, normalizeMode_eq o K b]
    simp only [List.length_map, List.length_range, getD_set_ne _ _ _ hab, getD_set_ne _ _ _ hba]
    congr 1
    · refine List.map_congr_left fun r hr => ?_
      rw [getD_map_range' _ _ _ (List.mem_range.1 hr), getD_map_range' _ _ _ (List.mem_range.1 hr)]
      ring
    · exact List.set_comm _ _ hab

theorem normFold_relabel_list {p : List Nat} {N : Nat} (hp : isPermOf p N = true) (o : NumOps α) (L : List Nat)
    (hL : ∀ k ∈ L, k < N) (K : Ktensor α) (hK : K.factors.length = N) :
    L.foldl (normalizeMode o) (relabelK p K) =
      relabelK p ((L.map fun k => p.getD k 0).foldl (normalizeMode o) K) := by
  induction L generalizing K with
  | nil => rfl
  | cons k L ih =>
    rw [List.foldl_cons, List.map_cons, List.foldl_cons,
      normalizeMode_relabel hp o K hK (hL k (List.mem_cons_self ..))]
    exact ih (fun m hm => hL m (List.mem_cons_of_mem _ hm)) _
      (by rw [(normalizeMode_lengths o K _).1]; exact hK)

/-- normalising every mode of the relabelled tensor = relabelling after normalising every mode -/
theorem normFold_relabel {p : List Nat} {N : Nat} (hp : isPermOf p N = true) (o : NumOps α) (K : Ktensor α)
    (hK : K.factors.length = N) :
    (List.range N).foldl (normalizeMode o) (relabelK p K) =
      relabelK p ((List.range N).foldl (normalizeMode o) K) := by
  rw [normFold_relabel_list hp o _ (fun k hk => List.mem_range.1 hk) K hK, map_getD_range_perm hp]
  congr 1
  exact (isPermOf_perm hp).symm.foldl_eq' (fun x _ y _ z => normalizeMode_comm o z x y) K

/-- no weight is negative -/
def NoNeg (K : Ktensor α) : Prop := ∀ w ∈ K.weights, 0 ≤ w

theorem colNorm2_nonneg {o : NumOps α} (ho : o.Lawful) (A : Mat α) (r : Nat) : 0 ≤ colNorm2 o A r := by
  rw [colNorm2_eq]
  exact ho.sqrt_nonneg _ (List.sum_nonneg (by
    intro y hy; simp only [List.mem_map] at hy; obtain ⟨i, _, rfl⟩ := hy; exact mul_self_nonneg _))

theorem noNeg_getD {K : Ktensor α} (h : NoNeg K) (r : Nat) : 0 ≤ K.weights.getD r 0 := by
  by_cases hr : r < K.weights.length
  · have : K.weights.getD r 0 = K.weights[r] := by simp [List.getD_eq_getElem?_getD, hr]
    rw [this]; exact h _ (List.getElem_mem hr)
  · simp [List.getD_eq_getElem?_getD, List.getElem?_eq_none (Nat.le_of_not_lt hr)]

theorem normalizeMode_noNeg {o : NumOps α} (ho : o.Lawful) (K : Ktensor α) (n : Nat) (h : NoNeg K) :
    NoNeg (normalizeMode o K n) := by
  rw [normalizeMode_eq]
  intro w hw
  simp only [List.mem_map] at hw
  obtain ⟨r, _, rfl⟩ := hw
  exact mul_nonneg (noNeg_getD h r) (colNorm2_nonneg ho _ _)

theorem normalizeMode_WF (o : NumOps α) (K : Ktensor α) (n : Nat) (h : K.WF) : (normalizeMode o K n).WF := by
  rw [normalizeMode_eq]
  intro A hA row hrow
  simp only [List.length_map, List.length_range]
  simp only at hA
  rcases List.mem_or_eq_of_mem_set hA with hA | rfl
  · exact h A hA row hrow
  · exact tab_row_length _ _ _ row hrow

theorem normFold_inv {o : NumOps α} (ho : o.Lawful) (L : List Nat) (K : Ktensor α) (hw : NoNeg K) (hwf : K.WF) :
    NoNeg (L.foldl (normalizeMode o) K) ∧ (L.foldl (normalizeMode o) K).WF := by
  induction L generalizing K with
  | nil => exact ⟨hw, hwf⟩
  | cons n L ih => exact ih _ (normalizeMode_noNeg ho K n hw) (normalizeMode_WF o K n hwf)

theorem tab_get_self (A : Mat α) (R : Nat) (h : ∀ row ∈ A, row.length = R) :
    tab A.length R (fun i r => A.get i r) = A :=
  mat_ext (isMat_tab _ _ _) ⟨rfl, h⟩ (fun i hi r hr => get_tab _ _ _ hi hr)

/-- With non-negative weights the sign step of `normalize()` does nothing. -/
theorem normalize_of_noNeg {o : NumOps α} (ho : o.Lawful) (K : Ktensor α)
    (hw : NoNeg ((List.range K.factors.length).foldl (normalizeMode o) K))
    (hwf : ((List.range K.factors.length).foldl (normalizeMode o) K).WF) :
    normalize o K = (List.range K.factors.length).foldl (normalizeMode o) K := by
  unfold normalize
  simp only
  set K1 := (List.range K.factors.length).foldl (normalizeMode o) K with hK1
  have hlt : ∀ r, o.lt (K1.weights.getD r 0) 0 = false := by
    intro r
    rw [Bool.eq_false_iff, Ne, ho.lt_iff]
    exact not_lt.2 (noNeg_getD hw r)
  have e1 : (K1.weights.map fun w => if o.lt w 0 = true then -w else w) = K1.weights := by
    conv_rhs => rw [← List.map_id K1.weights]
    refine List.map_congr_left fun w hw' => ?_
    have : o.lt w 0 = false := by
      rw [Bool.eq_false_iff, Ne, ho.lt_iff]; exact not_lt.2 (hw w hw')
    simp [this]
  have e2 : K1.factors.set 0 (tab (K1.factors.getD 0 []).length K1.weights.length fun i r =>
      if o.lt (K1.weights.getD r 0) 0 = true then -(K1.factors.getD 0 []).get i r
      else (K1.factors.getD 0 []).get i r) = K1.factors := by
    have e3 : (tab (K1.factors.getD 0 []).length K1.weights.length fun i r =>
        if o.lt (K1.weights.getD r 0) 0 = true then -(K1.factors.getD 0 []).get i r
        else (K1.factors.getD 0 []).get i r) =
        tab (K1.factors.getD 0 []).length K1.weights.length fun i r => (K1.factors.getD 0 []).get i r :=
      tab_congr _ _ _ _ fun i _ r _ => by rw [hlt r]; simp
    rw [e3]
    by_cases h0 : 0 < K1.factors.length
    · have hmem : K1.factors.getD 0 [] ∈ K1.factors := by
        have : K1.factors.getD 0 [] = K1.factors[0] := by simp [List.getD_eq_getElem?_getD, h0]
        rw [this]; exact List.getElem_mem h0
      rw [tab_get_self _ _ (hwf _ hmem)]
      apply List.ext_getElem (by simp)
      intro m h1 h2
      by_cases hm : m = 0
      · subst hm; simp [List.getD_eq_getElem?_getD, h0]
      · simp [List.getElem_set, Ne.symm hm]
    · have : K1.factors = [] := List.length_eq_zero_iff.1 (by omega)
      rw [this]; rfl
  rw [e1, e2]

theorem relabelK_WF (p : List Nat) (K : Ktensor α) (h : K.WF) : (relabelK p K).WF := by
  intro A hA row hrow
  simp only [relabelK, gatherD, List.mem_map] at hA
  obtain ⟨k, _, rfl⟩ := hA
  by_cases hk : k < K.factors.length
  · have : K.factors.getD k [] = K.factors[k] := by simp [List.getD_eq_getElem?_getD, hk]
    rw [this] at hrow
    exact h _ (List.getElem_mem hk) row hrow
  · simp [List.getD_eq_getElem?_getD, List.getElem?_eq_none (Nat.le_of_not_lt hk)] at hrow

theorem permuteComponents_relabel (p : List Nat) (K : Ktensor α) (π : List Nat) :
    permuteComponents (relabelK p K) π = relabelK p (permuteComponents K π) := by
  simp only [permuteComponents, relabelK]
  congr 1
  exact gatherD_map K.factors p [] [] _ rfl

/-- **`arrange()` commutes with the relabelling** when no weight is negative (the weights CP-ALS
produces are column scales: 2-norms or `max(max|·|, 1)`), whatever order the sort leaves equal
weights in: both runs sort the same weight vector. -/
theorem arrange_relabel {p : List Nat} {N : Nat} (hp : isPermOf p N = true) {o : NumOps α} (ho : o.Lawful)
    (K : Ktensor α) (hK : K.factors.length = N) (hw : NoNeg K) (hwf : K.WF) :
    arrange o (relabelK p K) = relabelK p (arrange o K) := by
  have hpl := isPermOf_length_eq hp
  have hnorm : normalize o (relabelK p K) = relabelK p (normalize o K) := by
    have i1 := normFold_inv ho (List.range N) K hw hwf
    have i2 := normFold_inv ho (List.range N) (relabelK p K) hw (relabelK_WF p K hwf)
    have l1 : (relabelK p K).factors.length = N := by simp [relabelK, length_gatherD, hpl]
    rw [normalize_of_noNeg ho (relabelK p K) (by rw [l1]; exact i2.1) (by rw [l1]; exact i2.2),
      normalize_of_noNeg ho K (by rw [hK]; exact i1.1) (by rw [hK]; exact i1.2), l1, hK]
    exact normFold_relabel hp o K hK
  unfold arrange
  simp only
  rw [hnorm]
  exact permuteComponents_relabel p _ _

/-! ### `fixsigns()` -/

theorem flippedModes_eq (o : NumOps α) (K : Ktensor α) (r : Nat) :
    flippedModes o K r = (negModes o K r).take (2 * ((negModes o K r).length / 2)) := rfl

/-- The choice `fixsigns()` makes does not depend on the mode order: in every component the number of
modes with a negative dominant entry is even (all of them are flipped) or at most one (none is). -/
def ParityOK (o : NumOps α) (K : Ktensor α) : Prop :=
  ∀ r < K.weights.length, (negModes o K r).length % 2 = 0 ∨ (negModes o K r).length ≤ 1

/-- the executable form (`Alg/PresentationRelabel.lean`, run by the driver) decides it -/
theorem parityOK_iff (o : NumOps α) (K : Ktensor α) : parityOK o K = true ↔ ParityOK o K := by
  simp [parityOK, ParityOK, List.all_eq_true]

theorem isNegMode_relabel {p : List Nat} {N : Nat} (hp : isPermOf p N = true) (o : NumOps α) (K : Ktensor α)
    (r : Nat) {k : Nat} (hk : k < N) : isNegMode o (relabelK p K) r k = isNegMode o K r (p.getD k 0) := by
  have e : (gatherD K.factors p []).getD k [] = K.factors.getD (p.getD k 0) [] :=
    getD_gatherD _ _ _ (by rw [isPermOf_length_eq hp]; exact hk)
  simp only [isNegMode, relabelK, e]

theorem negModes_length_relabel {p : List Nat} {N : Nat} (hp : isPermOf p N = true) (o : NumOps α) (K : Ktensor α)
    (hK : K.factors.length = N) (r : Nat) : (negModes o (relabelK p K) r).length = (negModes o K r).length := by
  have hpl := isPermOf_length_eq hp
  unfold negModes
  rw [← List.countP_eq_length_filter, ← List.countP_eq_length_filter]
  have l1 : (relabelK p K).factors.length = N := by simp [relabelK, length_gatherD, hpl]
  rw [l1, hK]
  have e1 : List.countP (isNegMode o (relabelK p K) r) (List.range N) =
      List.countP (fun k => isNegMode o K r (p.getD k 0)) (List.range N) :=
    List.countP_congr fun k hk => by rw [isNegMode_relabel hp o K r (List.mem_range.1 hk)]
  have e2 : List.countP (fun k => isNegMode o K r (p.getD k 0)) (List.range N) =
      List.countP (isNegMode o K r) ((List.range N).map fun k => p.getD k 0) := by
    rw [List.countP_map]; rfl
  rw [e1, e2, map_getD_range_perm hp]
  exact (isPermOf_perm hp).symm.countP_eq _

theorem mem_negModes {o : NumOps α} {K : Ktensor α} {r n : Nat} :
    n ∈ negModes o K r ↔ n < K.factors.length ∧ isNegMode o K r n = true := by
  simp [negModes]

/-- Under the parity condition `fixsigns()` flips mode `k` of the relabelled tensor exactly when it flips
mode `p[k]` of the original one. -/
theorem flippedModes_relabel {p : List Nat} {N : Nat} (hp : isPermOf p N = true) (o : NumOps α) (K : Ktensor α)
    (hK : K.factors.length = N) {r : Nat} (hpar : (negModes o K r).length % 2 = 0 ∨ (negModes o K r).length ≤ 1)
    {k : Nat} (hk : k < N) :
    (flippedModes o (relabelK p K) r).contains k = (flippedModes o K r).contains (p.getD k 0) := by
  have hpl := isPermOf_length_eq hp
  have hlen := negModes_length_relabel hp o K hK r
  rw [flippedModes_eq, flippedModes_eq, hlen]
  rcases hpar with he | h1
  · have e : 2 * ((negModes o K r).length / 2) = (negModes o K r).length := by omega
    rw [e]
    have t1 : (negModes o (relabelK p K) r).take (negModes o K r).length = negModes o (relabelK p K) r := by
      rw [← hlen]; exact List.take_length
    rw [t1, List.take_length]
    have l1 : (relabelK p K).factors.length = N := by simp [relabelK, length_gatherD, hpl]
    have hpk := isPermOf_getD_lt hp hk
    rw [Bool.eq_iff_iff, List.contains_iff_mem, List.contains_iff_mem, mem_negModes, mem_negModes, l1, hK,
      isNegMode_relabel hp o K r hk]
    exact ⟨fun h => ⟨hpk, h.2⟩, fun h => ⟨hk, h.2⟩⟩
  · have e : 2 * ((negModes o K r).length / 2) = 0 := by omega
    rw [e]
    simp

theorem gatherD_map_range {β : Type} {p : List Nat} {N : Nat} (hp : isPermOf p N = true) (G : Nat → β) (d : β) :
    gatherD ((List.range N).map G) p d = (List.range N).map fun k => G (p.getD k 0) := by
  have hpl := isPermOf_length_eq hp
  apply List.ext_getElem
  · simp [gatherD, hpl]
  · intro k h1 h2
    simp only [gatherD, List.length_map] at h1
    have hk : k < N := by omega
    simp only [gatherD, List.getElem_map, List.getElem_range]
    rw [getD_map_range' _ _ _ (by rw [← getD0_of_lt p k h1]; exact isPermOf_getD_lt hp hk), getD0_of_lt p k h1]

/-- **`fixsigns()` commutes with the relabelling under the parity condition.** -/
theorem fixsigns_relabel {p : List Nat} {N : Nat} (hp : isPermOf p N = true) (o : NumOps α) (K : Ktensor α)
    (hK : K.factors.length = N) (hpar : ParityOK o K) :
    fixsigns o (relabelK p K) = relabelK p (fixsigns o K) := by
  have hpl := isPermOf_length_eq hp
  have l1 : (relabelK p K).factors.length = N := by simp [relabelK, length_gatherD, hpl]
  unfold fixsigns
  rw [l1, hK]
  simp only [relabelK]
  congr 1
  rw [gatherD_map_range hp]
  refine List.map_congr_left fun k hk => ?_
  have hk' := List.mem_range.1 hk
  have hpk := isPermOf_getD_lt hp hk'
  have e : (gatherD K.factors p []).getD k [] = K.factors.getD (p.getD k 0) [] :=
    getD_gatherD _ _ _ (by rw [hpl]; exact hk')
  simp only [e]
  refine tab_congr _ _ _ _ fun i _ r hr => ?_
  have := flippedModes_relabel hp o K hK (hpar r hr) hk'
  simp only [relabelK] at this
  rw [this]

end cleanup

/-! ## 8. the set-up -/

section setup
variable {α : Type} [Field α] [LinearOrder α] [IsStrictOrderedRing α]

theorem isPermOf_qmap {p di : List Nat} {N : Nat} (hp : isPermOf p N = true) (hd : isPermOf di N = true) :
    isPermOf (qmap p di) N = true := by
  have hq := isPermOf_invPerm hp
  apply isPermOf_of_perm
  have h1 : ((List.range N).map fun n => (invPerm p).getD n 0).Perm (qmap p di) := (isPermOf_perm hd).map _
  rw [map_getD_range_perm hq] at h1
  exact (isPermOf_perm hq).trans h1

theorem q_inj {p : List Nat} {N : Nat} (hp : isPermOf p N = true) {a b : Nat} (ha : a < N) (hb : b < N)
    (h : (invPerm p).getD a 0 = (invPerm p).getD b 0) : a = b :=
  isPermOf_getD_inj (isPermOf_invPerm hp) ha hb h

theorem optdimsOK_qmap {p od : List Nat} {N : Nat} (hp : isPermOf p N = true) (h : optdimsOK od N = true) :
    optdimsOK (qmap p od) N = true := by
  unfold optdimsOK at h ⊢
  simp only [Bool.and_eq_true, List.all_eq_true, decide_eq_true_eq, beq_iff_eq] at h ⊢
  obtain ⟨h1, h2⟩ := h
  refine ⟨?_, ?_⟩
  · intro d hd
    simp only [qmap, List.mem_map] at hd
    obtain ⟨n, hn, rfl⟩ := hd
    exact isPermOf_invPerm_getD_lt hp (h1 n hn)
  · rw [eraseDups_length_eq_iff] at h2 ⊢
    exact List.Nodup.map_on (fun a ha b hb e => q_inj hp (h1 a ha) (h1 b hb) e) h2

theorem contains_qmap {p od : List Nat} {N : Nat} (hp : isPermOf p N = true) (hod : ∀ d ∈ od, d < N) {n : Nat}
    (hn : n < N) : (qmap p od).contains ((invPerm p).getD n 0) = od.contains n := by
  rw [Bool.eq_iff_iff, List.contains_iff_mem, List.contains_iff_mem]
  simp only [qmap, List.mem_map]
  constructor
  · rintro ⟨m, hm, e⟩
    rw [← q_inj hp (hod m hm) hn e]; exact hm
  · intro h; exact ⟨n, h, rfl⟩

theorem resolveInit_relabel {D D' : Data α} {S S' : Services α} {p : List Nat} (h : RelabelHyp D D' S S' p)
    (rank : Nat) {di : List Nat} (hdi : ∀ n ∈ di, n < D.shape.length) (init : Init α)
    (hnv : init = .nvecs → D'.nvecs = D.nvecs.map fun f k r => f (p.getD k 0) r) {K : Ktensor α}
    (hk : resolveInit D rank di init = .ok K) :
    resolveInit D' rank (qmap p di) (relabelInit p init) = .ok (relabelK p K) := by
  have hpl := isPermOf_length_eq h.perm
  cases init with
  | given K0 =>
    simp only [resolveInit] at hk
    split at hk
    · cases hk
    rename_i hlen
    split at hk
    · cases hk
    rename_i hwl
    split at hk
    · rename_i hall
      simp only [pure, Except.pure, Except.ok.injEq] at hk
      subst hk
      have hlen' : K0.factors.length = D.shape.length := by simpa using hlen
      simp only [relabelInit, resolveInit]
      have c1 : ((relabelK p K0).factors.length != D'.shape.length) = false := by
        simp [relabelK, length_gatherD, hpl, h.ndims]
      have c2 : ((relabelK p K0).weights.length != rank) = false := by
        simpa [relabelK] using hwl
      have c3 : ((qmap p di).all fun n =>
          ((relabelK p K0).factors.getD n []).length == D'.shape.getD n 0 &&
            ((relabelK p K0).factors.getD n []).all fun row => row.length == rank) = true := by
        rw [List.all_eq_true] at hall ⊢
        intro k hk
        simp only [qmap, List.mem_map] at hk
        obtain ⟨n, hn, rfl⟩ := hk
        have hn' := hdi n hn
        have hq := isPermOf_invPerm_getD_lt h.perm hn'
        have e : (relabelK p K0).factors.getD ((invPerm p).getD n 0) [] = K0.factors.getD n [] := by
          show (gatherD K0.factors p []).getD _ [] = _
          rw [getD_gatherD _ _ _ (by rw [hpl]; exact hq), getD_invPerm_getD h.perm hn']
        rw [e, h.extent hq, getD_invPerm_getD h.perm hn']
        exact hall n hn
      simp only [c1, c2, c3, Bool.false_eq_true, if_false, if_true]
      rfl
    · cases hk
  | random draws =>
    simp only [resolveInit, pure, Except.pure, Except.ok.injEq] at hk
    subst hk
    simp only [relabelInit, resolveInit, pure, Except.pure, Except.ok.injEq, relabelK, h.ndims]
    congr 1
    rw [gatherD_map_range h.perm]
    refine List.map_congr_left fun k hk => ?_
    rw [getD_gatherD _ _ _ (by rw [hpl]; exact List.mem_range.1 hk)]
  | nvecs =>
    simp only [resolveInit] at hk
    cases hf : D.nvecs with
    | none => rw [hf] at hk; cases hk
    | some f =>
      rw [hf] at hk
      simp only [pure, Except.pure, Except.ok.injEq] at hk
      subst hk
      have := hnv rfl
      rw [hf] at this
      simp only [relabelInit, resolveInit, this, Option.map_some, pure, Except.pure, Except.ok.injEq, relabelK,
        h.ndims]
      congr 1
      rw [gatherD_map_range h.perm]
  | unsupported => simp only [resolveInit] at hk; cases hk

/-- **The set-up of the second run succeeds when that of the first does**, with everything relabelled. -/
theorem setup_relabel {D D' : Data α} {S S' : Services α} {p : List Nat} (h : RelabelHyp D D' S S' p)
    {P : Params α} {init : Init α}
    (hnv : init = .nvecs → D'.nvecs = D.nvecs.map fun f k r => f (p.getD k 0) r)
    {di od dims : List Nat} {K : Ktensor α} (hsu : setup D P init = .ok (di, od, dims, K)) :
    setup D' (relabelParams p D.shape.length P) (relabelInit p init) =
      .ok (qmap p di, relabelOd p P.optdims od, qmap p dims, relabelK p K) := by
  obtain ⟨hdi, hperm, hod, hrank, hk, hdims, hne⟩ := setup_ok hsu
  have hdlt : ∀ n ∈ di, n < D.shape.length := isPermOf_lt hperm
  have e1 : (relabelParams p D.shape.length P).dimorder.getD (List.range D'.shape.length) = qmap p di := by
    simp [relabelParams, hdi]
  have e2 : (!isPermOf (qmap p di) D'.shape.length) = false := by
    rw [h.ndims, isPermOf_qmap h.perm hperm]; rfl
  have hodlt : ∀ d ∈ od, d < D.shape.length := by
    cases ho : P.optdims with
    | none =>
      rw [ho] at hod
      simp only [resolveOptdims, pure, Except.pure, Except.ok.injEq] at hod
      subst hod
      intro d hd; exact List.mem_range.1 hd
    | some od0 =>
      rw [ho] at hod
      simp only [resolveOptdims] at hod
      split at hod
      · rename_i hok
        simp only [pure, Except.pure, Except.ok.injEq] at hod
        subst hod
        unfold optdimsOK at hok
        simp only [Bool.and_eq_true, List.all_eq_true, decide_eq_true_eq] at hok
        exact hok.1
      · cases hod
  have e3 : resolveOptdims D'.shape.length (relabelParams p D.shape.length P).optdims =
      .ok (relabelOd p P.optdims od) := by
    rw [h.ndims]
    cases ho : P.optdims with
    | none =>
      rw [ho] at hod
      simp only [resolveOptdims, pure, Except.pure, Except.ok.injEq] at hod
      subst hod
      simp [relabelParams, ho, resolveOptdims, relabelOd, pure, Except.pure]
    | some od0 =>
      rw [ho] at hod
      simp only [resolveOptdims] at hod
      split at hod
      · rename_i hok
        simp only [pure, Except.pure, Except.ok.injEq] at hod
        subst hod
        simp [relabelParams, ho, resolveOptdims, relabelOd, pure, Except.pure, optdimsOK_qmap h.perm hok]
      · cases hod
  have e4 : ((relabelParams p D.shape.length P).rank == 0) = false := by
    simpa [relabelParams] using hrank
  have e5 : resolveInit D' (relabelParams p D.shape.length P).rank (qmap p di) (relabelInit p init) =
      .ok (relabelK p K) := resolveInit_relabel h P.rank hdlt init hnv hk
  have hcont : ∀ n < D.shape.length,
      (relabelOd p P.optdims od).contains ((invPerm p).getD n 0) = od.contains n := by
    intro n hn
    cases ho : P.optdims with
    | none =>
      rw [ho] at hod
      simp only [resolveOptdims, pure, Except.pure, Except.ok.injEq] at hod
      subst hod
      have := isPermOf_invPerm_getD_lt h.perm hn
      simp only [relabelOd]
      rw [List.contains_iff_mem.2 (List.mem_range.2 this) |> id, List.contains_iff_mem.2 (List.mem_range.2 hn) |> id]
    | some od0 =>
      simp only [relabelOd]
      exact contains_qmap h.perm hodlt hn
  have e6 : (qmap p di).filter (fun d => (relabelOd p P.optdims od).contains d) = qmap p dims := by
    rw [hdims]
    unfold qmap
    rw [List.filter_map]
    congr 1
    refine List.filter_congr fun n hn => ?_
    exact hcont n (hdlt n hn)
  have e7 : (qmap p dims).isEmpty = false := by
    cases hd : dims with
    | nil => exact absurd hd hne
    | cons a l => rfl
  unfold setup
  simp only [e1, e2, e3, e4, e5, e6, e7, Bool.false_eq_true, if_false]

end setup

/-! ## 9. the whole run -/

section wholerun
variable {α : Type} [Field α] [LinearOrder α] [IsStrictOrderedRing α]

theorem colWeight_nonneg {o : NumOps α} (ho : o.Lawful) (it I r : Nat) (A : Mat α) :
    0 ≤ Gen.colWeight o it (col A I r) := by
  by_cases hit : it = 0
  · subst hit
    rw [colWeight_zero]
    exact ho.sqrt_nonneg _ (colSum_nonneg I r A)
  · have := colWeight_later_ge ho hit (col A I r)
    linarith

/-- after a pass over a non-empty mode list the weights are the column scales of the last update:
`rank` of them, none negative -/
theorem iterStep_weights {D : Data α} {S : Services α} {o : NumOps α} (ho : o.Lawful) {rank it : Nat} {stoptol : α}
    {dims : List Nat} (hne : dims ≠ []) {st st2 : State α}
    (h : iterStep D S o rank stoptol dims it st = .ok st2) :
    st2.weights.length = rank ∧ ∀ w ∈ st2.weights, 0 ≤ w := by
  obtain ⟨st1, hf, rfl⟩ := iterStep_ok h
  obtain ⟨smid, _, hm⟩ := sweep_last dims hne hf
  obtain ⟨A0, _, rfl⟩ := modeUpdate_ok hm
  show (colWeights o it _ rank A0).length = rank ∧ ∀ w ∈ colWeights o it _ rank A0, 0 ≤ w
  refine ⟨length_colWeights _ _ _ _ _, fun w hw => ?_⟩
  simp only [colWeights, List.mem_map] at hw
  obtain ⟨r, _, rfl⟩ := hw
  exact colWeight_nonneg ho _ _ _ _

theorem loop_weights {D : Data α} {S : Services α} {o : NumOps α} (ho : o.Lawful) {rank : Nat} {stoptol : α}
    {dims : List Nat} (hne : dims ≠ []) {fuel k : Nat} (hfuel : 0 < fuel) {st stF : State α}
    (h : loopFrom (iterStep D S o rank stoptol dims) fuel k st = .ok stF) :
    stF.weights.length = rank ∧ ∀ w ∈ stF.weights, 0 ≤ w := by
  obtain ⟨_, _, _, _, sprev, _, hs⟩ := loopFrom_spec (iterStep D S o rank stoptol dims) (fun _ => True)
    (fun k s s' _ hs => ⟨trivial, by obtain ⟨st1, _, rfl⟩ := iterStep_ok hs; rfl⟩) fuel k st stF hfuel trivial h
  exact iterStep_weights ho hne hs

theorem initState_relabel {D D' : Data α} {S S' : Services α} {p : List Nat} (h : RelabelHyp D D' S S' p)
    (rank : Nat) {dims : List Nat} (hne : dims ≠ []) (hdims : ∀ n ∈ dims, n < D.shape.length) (K : Ktensor α)
    (hK : K.factors.length = D.shape.length) :
    initState D' rank (qmap p dims) (relabelK p K) = relabelSt p (initState D rank dims K) := by
  have hlast : dims.getLastD 0 < D.shape.length := hdims _ (getLastD_mem hne)
  have hql := isPermOf_invPerm_getD_lt h.perm hlast
  unfold initState relabelSt
  simp only [relabelK, qmap]
  rw [getLastD_map _ hne, h.extent hql, getD_invPerm_getD h.perm hlast,
    gatherD_map_of_lt K.factors p [] [] (fun A => gram A rank)
      (fun k hk => by rw [hK]; exact isPermOf_lt_of_mem h.perm hk)]

theorem stOK_init {D : Data α} {rank : Nat} (dims : List Nat) {K : Ktensor α} (hK : ShapeOK D.shape rank K.factors) :
    StOK D rank (initState D rank dims K) :=
  ⟨hK, by simp [initState, hK.1]⟩

theorem shapeOK_WF {s : List Nat} {w : List α} {U : List (Mat α)} (h : ShapeOK s w.length U) :
    (⟨w, U⟩ : Ktensor α).WF := by
  intro A hA row hrow
  obtain ⟨m, hm, rfl⟩ := List.mem_iff_getElem.1 hA
  have := h.2 m (by rw [← h.1]; exact hm)
  have e : U.getD m [] = U[m] := by simp [List.getD_eq_getElem?_getD, hm]
  rw [e] at this
  exact this.2 row hrow

/-- equal squares of non-negative numbers -/
theorem eq_of_mul_self_eq' {a b : α} (ha : 0 ≤ a) (hb : 0 ≤ b) (h : a * a = b * b) : a = b := by
  rcases mul_self_eq_mul_self_iff.1 h with e | e
  · exact e
  · rw [e] at ha ⊢
    have : b = 0 := by linarith
    rw [this]; simp

/-- **Whole-run mode relabelling of CP-ALS** (lemma form; see `C18_relabel_cpals_run`). -/
theorem run_relabel {D D' : Data α} {S S' : Services α} {o : NumOps α} {X : List Nat → α} {p : List Nat}
    (ho : o.Lawful) (h : RelabelHyp D D' S S' p) (hD : DataLaws D X)
    (hD' : DataLaws D' (fun j' => X (gather j' (invPerm p)))) {P : Params α} {init : Init α}
    (hnv : init = .nvecs → D'.nvecs = D.nvecs.map fun f k r => f (p.getD k 0) r)
    (hi : InitOK D P.rank init) {out : Output α} (hrun : run D S o P init = .ok out) :
    ∃ out' : Output α, run D' S' o (relabelParams p D.shape.length P) (relabelInit p init) = .ok out' ∧
      out'.iters = out.iters ∧ out'.fit = out.fit ∧ out'.normresidual = out.normresidual ∧
      out'.dimorder = qmap p out.dimorder ∧ out'.optdims = relabelOd p P.optdims out.optdims ∧
      out'.init = relabelK p out.init ∧ out'.M.weights = out.M.weights ∧
      (∀ j', j'.length = D.shape.length → out'.M.get j' = out.M.get (gather j' (invPerm p))) ∧
      ∃ M1 : Ktensor α, M1.factors.length = D.shape.length ∧
        out.M = (if P.fixsigns then fixsigns o M1 else M1) ∧
        out'.M = (if P.fixsigns then fixsigns o (relabelK p M1) else relabelK p M1) ∧
        (P.fixsigns = false ∨ ParityOK o M1 → out'.M = relabelK p out.M) := by
  obtain ⟨di, od, dims, K, st, hsu, hm, hl, rfl⟩ := run_ok hrun
  obtain ⟨hK, _, hne, _, hperm, hdimsEq, _⟩ := setup_spec hsu hi
  have hdims : ∀ n ∈ dims, n < D.shape.length := by
    intro n hn
    rw [hdimsEq] at hn
    exact isPermOf_lt hperm _ (List.mem_filter.1 hn).1
  have hN : 0 < D.shape.length := by
    have := hdims _ (getLastD_mem hne); omega
  have hpl := isPermOf_length_eq h.perm
  have hsu' := setup_relabel h hnv hsu
  obtain ⟨hl', hstF⟩ := loop_relabel (o := o) (stoptol := P.stoptol) h hne hdims P.maxiters 0
    (stOK_init dims hK) hl
  rw [← initState_relabel h P.rank hne hdims K hK.1] at hl'
  obtain ⟨hwl, hwnn⟩ := loop_weights ho hne (Nat.pos_of_ne_zero hm) hl
  -- the second run returns
  have hrun' : run D' S' o (relabelParams p D.shape.length P) (relabelInit p init) =
      .ok (finish D' o (relabelParams p D.shape.length P) (qmap p di) (relabelOd p P.optdims od)
        (relabelK p K) (relabelSt p st)) := by
    unfold run
    rw [hsu']
    have hm' : ((relabelParams p D.shape.length P).maxiters == 0) = false := by simpa [relabelParams] using hm
    simp only [bind, Except.bind, hm', Bool.false_eq_true, if_false, pure, Except.pure]
    have e : loopFrom (iterStep D' S' o (relabelParams p D.shape.length P).rank (relabelParams p D.shape.length P).stoptol
        (qmap p dims)) (relabelParams p D.shape.length P).maxiters 0
        (initState D' (relabelParams p D.shape.length P).rank (qmap p dims) (relabelK p K)) =
        .ok (relabelSt p st) := hl'
    rw [e]
  refine ⟨_, hrun', ?_⟩
  -- the models before the clean-up
  set M0 : Ktensor α := ⟨st.weights, st.U⟩ with hM0
  have hM0len : M0.factors.length = D.shape.length := hstF.1.1
  have hM0sh : ShapeOK D.shape M0.weights.length M0.factors := by
    show ShapeOK D.shape st.weights.length st.U
    rw [hwl]; exact hstF.1
  have hM0' : (⟨(relabelSt p st).weights, (relabelSt p st).U⟩ : Ktensor α) = relabelK p M0 := rfl
  have hM0'sh : ShapeOK D'.shape (relabelK p M0).weights.length (relabelK p M0).factors := by
    rw [h.shape]; exact shapeOK_relabel h.perm hM0sh
  have hfix : (relabelParams p D.shape.length P).fixsigns = P.fixsigns := rfl
  set M := cleanup o P.fixsigns M0 with hM
  set M' := cleanup o P.fixsigns (relabelK p M0) with hM'
  have hMsh : ShapeOK D.shape M.weights.length M.factors := cleanup_shape ho _ _ hM0sh
  have hM'sh : ShapeOK D'.shape M'.weights.length M'.factors := cleanup_shape ho _ _ hM0'sh
  have hten : ∀ j', j'.length = D.shape.length → M'.get j' = M.get (gather j' (invPerm p)) := by
    intro j' hj'
    rw [cleanup_get ho _ _ (by simp [relabelK, length_gatherD, hpl, hN]) j'
        (by simp [relabelK, length_gatherD, hpl, hj']),
      cleanup_get ho _ _ (by rw [hM0len]; exact hN) _ (by rw [hM0len, length_gather, length_invPerm, hpl])]
    exact ktensor_get_relabel h.perm _ _ hM0len j' hj'
  -- `arrange` commutes with the relabelling
  have harr : arrange o (relabelK p M0) = relabelK p (arrange o M0) :=
    arrange_relabel h.perm ho M0 hM0len hwnn (shapeOK_WF hM0sh)
  have hM1len : (arrange o M0).factors.length = D.shape.length := by rw [(arrange_spec ho M0).1, hM0len]
  have hMeq : M = (if P.fixsigns then fixsigns o (arrange o M0) else arrange o M0) := rfl
  have hM'eq : M' = (if P.fixsigns then fixsigns o (relabelK p (arrange o M0)) else relabelK p (arrange o M0)) := by
    show cleanup o P.fixsigns (relabelK p M0) = _
    unfold cleanup
    rw [harr]
  have hfactors : P.fixsigns = false ∨ ParityOK o (arrange o M0) → M' = relabelK p M := by
    intro hc
    rw [hM'eq, hMeq]
    rcases hc with hc | hc
    · simp [hc]
    · cases hf : P.fixsigns with
      | false => simp
      | true =>
        simp only [if_true]
        exact fixsigns_relabel h.perm o _ hM1len hc
  have hweights : M'.weights = M.weights := by
    rw [hM'eq, hMeq]
    cases hf : P.fixsigns <;> simp [fixsigns, relabelK]
  -- the reported numbers
  have hrep : ((finish D' o (relabelParams p D.shape.length P) (qmap p di) (relabelOd p P.optdims od)
        (relabelK p K) (relabelSt p st)).normresidual,
      (finish D' o (relabelParams p D.shape.length P) (qmap p di) (relabelOd p P.optdims od)
        (relabelK p K) (relabelSt p st)).fit) =
      ((finish D o P di od K st).normresidual, (finish D o P di od K st).fit) := by
    rw [finish_report, finish_report, hfix, hM0']
    have hpr : (relabelParams p D.shape.length P).printing = P.printing := rfl
    rw [hpr]
    cases hp : P.printing with
    | false => rfl
    | true =>
      simp only [if_true]
      have hkn : knorm o M'.weights M'.factors = knorm o M.weights M.factors := by
        apply eq_of_mul_self_eq' (knorm_nonneg ho _ _) (knorm_nonneg ho _ _)
        rw [knorm_mul_self ho (knormLaw D'.shape) _ _ hM'sh, knorm_mul_self ho (knormLaw D.shape) _ _ hMsh,
          h.shape, ← ip_relabel h.perm (fun j => M.get j) (fun j => M.get j)]
        have hpt : ∀ j' ∈ allSubs (gather D.shape p), M'.get j' = M.get (gather j' (invPerm p)) := by
          intro j' hj'
          have := (mem_allSubs.1 hj').length_eq
          rw [length_gather, hpl] at this
          exact hten j' this
        unfold ip
        congr 1
        refine List.map_congr_left fun j' hj' => ?_
        show M'.get j' * M'.get j' = _
        rw [hpt j' hj']
      have hip : D'.innerprod M' = D.innerprod M := by
        rw [hD'.innerprod_eq M' hM'sh, hD.innerprod_eq M hMsh, h.shape, ← ip_relabel h.perm X (fun j => M.get j)]
        refine ip_congr _ _ _ _ fun j' hj' => ?_
        rw [length_gather, hpl] at hj'
        exact hten j' hj'
      rw [h.norm, hkn, hip]
  simp only [Prod.mk.injEq] at hrep
  refine ⟨rfl, hrep.2, hrep.1, rfl, rfl, rfl, hweights, hten, arrange o M0, hM1len, hMeq, hM'eq, hfactors⟩

/-- the hypotheses on the second problem, from the data laws of C02 for `X` and `permute X p` -/
theorem relabelHyp_of_laws {D D' : Data α} {S S' : Services α} {X : List Nat → α} {p : List Nat}
    (hp : isPermOf p D.shape.length = true) (hD : DataLaws D X)
    (hD' : DataLaws D' (fun j' => X (gather j' (invPerm p)))) (hs : D'.shape = gather D.shape p)
    (hnorm : D'.norm = D.norm) (hm : MttkrpShaped D) (hm' : MttkrpShaped D')
    (hsolve : ∀ k < D.shape.length, ∀ Y B, S'.solve k Y B = S.solve (p.getD k 0) Y B) :
    RelabelHyp D D' S S' p :=
  ⟨hp, hs, hnorm, fun R U hU k hk => mttkrp_relabel hp hD hD' hs hm hm' hU hk, hsolve⟩

end wholerun

/-! ## 10. `fixsigns()` is not relabelling-equivariant -/

section counterexample

/-- ℚ as the number system (only `<` and `abs` matter for `fixsigns`) -/
def ratOps : NumOps ℚ :=
  { sqrt := id, abs := fun x => if x < 0 then -x else x, lt := fun a b => decide (a < b),
    isZero := fun a => decide (a = 0), ofNat := fun n => (n : ℚ) }

/-- a one-component model (positive weight) whose three columns all have a negative dominant entry — the
sign pattern CP-ALS arrives at for data `−a∘b∘c`, `a, b, c > 0`, from an all-negative start -/
def negK : Ktensor ℚ := ⟨[2], [[[-1]], [[-3], [-4]], [[-4], [-3]]]⟩

/-- `fixsigns()` flips the first two of the three negative modes — of `negK` modes 0 and 1, of its
relabelling by `p = [2, 0, 1]` the modes `p[0] = 2` and `p[1] = 0`: the results are not relabellings of
each other, although both denote the same array. -/
theorem relabel_fixsigns_counterexample :
    fixsigns ratOps (relabelK [2, 0, 1] negK) ≠ relabelK [2, 0, 1] (fixsigns ratOps negK) ∧
    (fixsigns ratOps negK).factors = [[[1]], [[3], [4]], [[-4], [-3]]] ∧
    (fixsigns ratOps (relabelK [2, 0, 1] negK)).factors = [[[4], [3]], [[1]], [[-3], [-4]]] ∧
    (negModes ratOps negK 0).length = 3 := by
  decide

end counterexample

end Pyttb.CpAls
