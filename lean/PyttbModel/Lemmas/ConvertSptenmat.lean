/-
C01, sparse matricization: `sptensor.to_sptenmat`, `sptenmat.to_sptensor`, `sptenmat.full`.
For a well-formed tensor the matrix subscripts are pairwise distinct, so `np.unique` + `accumarray`
only reorders the entries; the denotation does not depend on the order.
-/
import PyttbModel.Lemmas.ConvertSparse
import PyttbModel.Lemmas.ConvertTenmat
import PyttbModel.Ops.SptenmatGet
namespace Pyttb
variable {α : Type}

/-! ### the matrix subscript of a tensor subscript -/

/-- matrix cell of tensor subscript `j` under the split `r`, `c` of shape `s`. -/
def matSub (s r c j : List Nat) : List Nat :=
  [sub2ind (gather s r) (gather j r), sub2ind (gather s c) (gather j c)]

/-- tensor subscript of a matrix cell (what `sptenmat.to_sptensor` computes). -/
def unmatSub (s r c rc : List Nat) : List Nat :=
  let ri := ind2sub (gather s r) (rc.getD 0 0)
  let ci := ind2sub (gather s c) (rc.getD 1 0)
  (List.range s.length).map fun m =>
    match r.idxOf? m with
    | some k => ri.getD k 0
    | none => ci.getD (c.idxOf m) 0

theorem sub2ind_inj_c01 {s i j : List Nat} (hi : InBounds s i) (hj : InBounds s j)
    (h : sub2ind s i = sub2ind s j) : i = j := by
  rw [← ind2sub_sub2ind hi, h, ind2sub_sub2ind hj]

theorem isPermOf_append_lt {r c : List Nat} {n : Nat} (hp : isPermOf (r ++ c) n = true) :
    (∀ k ∈ r, k < n) ∧ (∀ k ∈ c, k < n) :=
  ⟨fun _ hk => isPermOf_lt_of_mem hp (List.mem_append_left _ hk),
   fun _ hk => isPermOf_lt_of_mem hp (List.mem_append_right _ hk)⟩

theorem matSub_inBounds {s r c j : List Nat} (hp : isPermOf (r ++ c) s.length = true)
    (hj : InBounds s j) :
    InBounds [numel (gather s r), numel (gather s c)] (matSub s r c j) := by
  obtain ⟨hr, hc⟩ := isPermOf_append_lt hp
  simp only [matSub, InBounds, and_true]
  exact ⟨sub2ind_lt (hj.gather hr), sub2ind_lt (hj.gather hc)⟩

theorem matSub_inj {s r c i j : List Nat} (hp : isPermOf (r ++ c) s.length = true)
    (hi : InBounds s i) (hj : InBounds s j) (h : matSub s r c i = matSub s r c j) : i = j := by
  obtain ⟨hr, hc⟩ := isPermOf_append_lt hp
  simp only [matSub, List.cons.injEq, and_true] at h
  have h1 := sub2ind_inj_c01 (hi.gather hr) (hj.gather hr) h.1
  have h2 := sub2ind_inj_c01 (hi.gather hc) (hj.gather hc) h.2
  apply gather_perm_inj hp hi.length_eq hj.length_eq
  rw [gather_append, gather_append, h1, h2]

theorem idxOf?_of_mem {l : List Nat} {m : Nat} (h : m ∈ l) : l.idxOf? m = some (l.idxOf m) := by
  unfold List.idxOf? List.idxOf
  rw [List.findIdx?_eq_some_iff_findIdx_eq]
  exact ⟨List.idxOf_lt_length_of_mem h, rfl⟩

theorem idxOf?_of_not_mem {l : List Nat} {m : Nat} (h : m ∉ l) : l.idxOf? m = none :=
  List.idxOf?_eq_none_iff.2 h

theorem getD_gather_idxOf (j l : List Nat) (m : Nat) (h : m ∈ l) :
    (gather j l).getD (l.idxOf m) 0 = j.getD m 0 := by
  have hlt := List.idxOf_lt_length_of_mem h
  rw [getD_gather _ _ _ hlt, getD0_of_lt l _ hlt, List.getElem_idxOf hlt]

theorem unmatSub_matSub {s r c j : List Nat} (hp : isPermOf (r ++ c) s.length = true)
    (hj : InBounds s j) : unmatSub s r c (matSub s r c j) = j := by
  obtain ⟨hr, hc⟩ := isPermOf_append_lt hp
  simp only [unmatSub, matSub, List.getD_cons_zero, List.getD_cons_succ,
    ind2sub_sub2ind (hj.gather hr), ind2sub_sub2ind (hj.gather hc)]
  conv => rhs; rw [← gather_range_of_length hj.length_eq]
  unfold gather
  apply List.map_congr_left
  intro m hm
  have hm' := isPermOf_mem_of_lt hp (List.mem_range.1 hm)
  by_cases hmr : m ∈ r
  · rw [idxOf?_of_mem hmr]
    exact getD_gather_idxOf j r m hmr
  · rw [idxOf?_of_not_mem hmr]
    have hmc : m ∈ c := by
      rcases List.mem_append.1 hm' with h | h
      · exact absurd h hmr
      · exact h
    exact getD_gather_idxOf j c m hmc

/-- every cell of the matrix is the cell of an in-bounds tensor subscript. -/
theorem matSub_surj {s r c : List Nat} (hp : isPermOf (r ++ c) s.length = true) (a b : Nat)
    (ha : a < numel (gather s r)) (hb : b < numel (gather s c)) :
    ∃ j, InBounds s j ∧ matSub s r c j = [a, b] := by
  have h1 := ind2sub_inBounds ha
  have h2 := ind2sub_inBounds hb
  have h12 : InBounds (gather s (r ++ c)) (ind2sub (gather s r) a ++ ind2sub (gather s c) b) := by
    rw [gather_append]; exact InBounds_append h1 h2
  refine ⟨gather (ind2sub (gather s r) a ++ ind2sub (gather s c) b) (invPerm (r ++ c)),
    inBounds_unperm hp h12, ?_⟩
  have hl : (ind2sub (gather s r) a ++ ind2sub (gather s c) b).length = s.length := by
    rw [h12.length_eq, length_gather, isPermOf_length_eq hp]
  have hg := gather_invPerm_gather hp hl
  rw [gather_append] at hg
  have hlen : (gather (gather (ind2sub (gather s r) a ++ ind2sub (gather s c) b) (invPerm (r ++ c))) r).length
      = (ind2sub (gather s r) a).length := by
    rw [length_gather, h1.length_eq, length_gather]
  obtain ⟨e1, e2⟩ := List.append_inj hg hlen
  simp only [matSub, e1, e2, sub2ind_ind2sub ha, sub2ind_ind2sub hb]


/-! ### `np.unique` on duplicate-free rows, order independence of the denotation -/

theorem eraseDups_of_nodup' {β : Type} [BEq β] [LawfulBEq β] (l : List β) (h : l.Nodup) :
    l.eraseDups = l := by
  induction l with
  | nil => simp
  | cons a l ih =>
    rw [List.nodup_cons] at h
    rw [List.eraseDups_cons]
    have : l.filter (fun b => !b == a) = l := by
      rw [List.filter_eq_self]
      intro b hb
      have : b ≠ a := fun e => h.1 (e ▸ hb)
      simpa using this
    rw [this, ih h.2]

theorem uniqueRowsSorted_perm (ms : List (List Nat)) (h : ms.Nodup) :
    (uniqueRowsSorted ms).Perm ms := by
  unfold uniqueRowsSorted
  have hp := List.mergeSort_perm ms (fun a b => !lexLt b a)
  rw [eraseDups_of_nodup' _ (hp.nodup_iff.2 h)]
  exact hp

theorem kvSum_perm [AddCommMonoid α] {es es' : List (List Nat × α)} (h : es.Perm es') (i : List Nat) :
    kvSum es i = kvSum es' i := by
  induction h with
  | nil => rfl
  | cons e _ ih =>
    by_cases he : e.1 = i
    · obtain ⟨a, v⟩ := e; simp only at he; subst he
      rw [kvSum_cons_eq, kvSum_cons_eq, ih]
    · rw [kvSum_cons_ne _ _ _ he, kvSum_cons_ne _ _ _ he, ih]
  | swap e e' l =>
    by_cases he : e.1 = i <;> by_cases he' : e'.1 = i
    · obtain ⟨a, v⟩ := e; obtain ⟨a', v'⟩ := e'; simp only at he he'; subst he; subst he'
      rw [kvSum_cons_eq, kvSum_cons_eq, kvSum_cons_eq, kvSum_cons_eq, ← add_assoc, ← add_assoc, add_comm v']
    · obtain ⟨a, v⟩ := e; simp only at he; subst he
      rw [kvSum_cons_ne _ _ _ he', kvSum_cons_eq, kvSum_cons_eq, kvSum_cons_ne _ _ _ he']
    · obtain ⟨a', v'⟩ := e'; simp only at he'; subst he'
      rw [kvSum_cons_eq, kvSum_cons_ne _ _ _ he, kvSum_cons_ne _ _ _ he, kvSum_cons_eq]
    · rw [kvSum_cons_ne _ _ _ he', kvSum_cons_ne _ _ _ he, kvSum_cons_ne _ _ _ he, kvSum_cons_ne _ _ _ he']
  | trans _ _ ih1 ih2 => rw [ih1, ih2]

/-- re-keying by a map that is injective on the keys (and the queried key) keeps the sums. -/
theorem kvSum_map_key [Add α] [Zero α] (es : List (List Nat × α)) (φ : List Nat → List Nat) (i : List Nat)
    (hinj : ∀ e ∈ es, φ e.1 = φ i → e.1 = i) :
    kvSum (es.map fun e => (φ e.1, e.2)) (φ i) = kvSum es i := by
  unfold kvSum
  rw [List.filter_map, List.map_map]
  have : es.filter ((fun e : List Nat × α => e.1 == φ i) ∘ fun e => (φ e.1, e.2))
      = es.filter (fun e => e.1 == i) := by
    apply List.filter_congr
    intro e he
    simp only [Function.comp]
    by_cases h : e.1 = i
    · simp [h]
    · have : φ e.1 ≠ φ i := fun h' => h (hinj e he h')
      simp [h, this]
  rw [this]
  rfl

/-- entries of a well-formed sparse tensor: each stored subscript with the value it denotes. -/
theorem Sparse.entries_eq_map_get [AddMonoid α] [DecidableEq α] (S : Sparse α) (hS : S.WF) :
    S.entries = S.subs.map (fun j => (j, S.get j)) := by
  have hk := S.entries_keys hS.len
  have hn : (S.entries.map (·.1)).Nodup := by rw [hk]; exact hS.nodup
  conv => rhs; rw [← hk, List.map_map]
  conv => lhs; rw [← List.map_id S.entries]
  apply List.map_congr_left
  intro e he
  simp only [Function.comp, id]
  rw [Sparse.get_eq_kvSum, kvSum_of_mem _ e.1 e.2 hn he]

theorem Sparse.get_ne_zero_of_mem [AddMonoid α] [DecidableEq α] (S : Sparse α) (hS : S.WF) (j : List Nat)
    (hj : j ∈ S.subs) : S.get j ≠ 0 := by
  have hk := S.entries_keys hS.len
  have hn : (S.entries.map (·.1)).Nodup := by rw [hk]; exact hS.nodup
  rw [← hk] at hj
  obtain ⟨e, he, rfl⟩ := List.mem_map.1 hj
  rw [Sparse.get_eq_kvSum, kvSum_of_mem _ e.1 e.2 hn he]
  have := hS.nz e.2 (List.of_mem_zip (a := e.1) (b := e.2) he).2
  simpa using this


/-! ### `to_sptenmat` -/

/-- matrix subscripts of the stored entries (before `np.unique`). -/
def msOf (S : Sparse α) (r c : List Nat) : List (List Nat) := S.subs.map (matSub S.shape r c)

/-- value of the aggregated matrix at a matrix subscript. -/
def mval [Add α] [Zero α] (S : Sparse α) (r c : List Nat) (u : List Nat) : α :=
  kvSum ((msOf S r c).zip S.vals) u

section sptenmat
variable [AddCommMonoid α] [DecidableEq α]

theorem msOf_nodup (S : Sparse α) (r c : List Nat) (hS : S.WF)
    (hp : isPermOf (r ++ c) S.shape.length = true) : (msOf S r c).Nodup := by
  have hn := hS.nodup
  unfold msOf List.Nodup at *
  rw [List.pairwise_map]
  apply List.Pairwise.imp_of_mem _ hn
  intro a b ha hb hab he
  exact hab (matSub_inj hp (hS.inb a ha) (hS.inb b hb) he)

omit [AddCommMonoid α] [DecidableEq α] in
theorem mem_msOf {S : Sparse α} {r c u : List Nat} :
    u ∈ msOf S r c ↔ ∃ j ∈ S.subs, matSub S.shape r c j = u := by
  simp [msOf]

theorem mval_matSub (S : Sparse α) (r c : List Nat) (hS : S.WF)
    (hp : isPermOf (r ++ c) S.shape.length = true) (j : List Nat) (hj : InBounds S.shape j) :
    mval S r c (matSub S.shape r c j) = S.get j := by
  unfold mval msOf
  rw [List.zip_map_left]
  exact kvSum_map_key S.entries (matSub S.shape r c) j (fun e he h =>
    matSub_inj hp (hS.inb e.1 (List.of_mem_zip (a := e.1) (b := e.2) he).1) hj h)

omit [DecidableEq α] in
theorem mval_of_not_mem (S : Sparse α) (r c u : List Nat) (h : u ∉ msOf S r c) : mval S r c u = 0 := by
  apply kvSum_of_not_mem
  intro hm
  obtain ⟨e, he, rfl⟩ := List.mem_map.1 hm
  exact h (List.of_mem_zip (a := e.1) (b := e.2) he).1

theorem mval_ne_zero (S : Sparse α) (r c : List Nat) (hS : S.WF)
    (hp : isPermOf (r ++ c) S.shape.length = true) (u : List Nat) (hu : u ∈ msOf S r c) :
    mval S r c u ≠ 0 := by
  obtain ⟨j, hj, rfl⟩ := mem_msOf.1 hu
  rw [mval_matSub S r c hS hp j (hS.inb j hj)]
  exact S.get_ne_zero_of_mem hS j hj

/-- the object `to_sptenmat` builds from a well-formed tensor. -/
def sptenmatOf (S : Sparse α) (r c : List Nat) : Sptenmat α :=
  ⟨S.shape, r, c, uniqueRowsSorted (msOf S r c), (uniqueRowsSorted (msOf S r c)).map (mval S r c)⟩

theorem toSptenmat_ok (S : Sparse α) (r c : List Nat) (hS : S.WF)
    (hp : isPermOf (r ++ c) S.shape.length = true) :
    S.toSptenmat (some r) (some c) none = .ok (sptenmatOf S r c) := by
  have hU := uniqueRowsSorted_perm _ (msOf_nodup S r c hS hp)
  have hl2 : (msOf S r c).any (fun u => u.length != 2) = false := by
    rw [List.any_eq_false]
    intro u hu
    obtain ⟨j, _, rfl⟩ := mem_msOf.1 hu
    simp [matSub]
  have hlen : ((msOf S r c).length != S.vals.length) = false := by
    have : (msOf S r c).length = S.vals.length := by
      simp only [msOf, List.length_map]; exact hS.len
    rw [this]; simp
  have h0 : (msOf S r c).any (fun u => u.getD 0 0 ≥ numel (gather S.shape r)) = false := by
    rw [List.any_eq_false]
    intro u hu
    obtain ⟨j, hj, rfl⟩ := mem_msOf.1 hu
    have := matSub_inBounds hp (hS.inb j hj)
    simp only [matSub, InBounds] at this
    simp only [matSub, List.getD_cons_zero, ge_iff_le, decide_eq_true_eq]
    omega
  have h1 : (msOf S r c).any (fun u => u.getD 1 0 ≥ numel (gather S.shape c)) = false := by
    rw [List.any_eq_false]
    intro u hu
    obtain ⟨j, hj, rfl⟩ := mem_msOf.1 hu
    have := matSub_inBounds hp (hS.inb j hj)
    simp only [matSub, InBounds] at this
    simp only [matSub, List.getD_cons_succ, List.getD_cons_zero, ge_iff_le, decide_eq_true_eq]
    omega
  have hagg0 : aggregateSum (msOf S r c) S.vals =
      (uniqueRowsSorted (msOf S r c)).map (fun u => (u, mval S r c u)) := rfl
  have hagg : (aggregateSum (msOf S r c) S.vals).filter (fun e => !(e.2 == 0)) =
      (uniqueRowsSorted (msOf S r c)).map (fun u => (u, mval S r c u)) := by
    rw [hagg0]
    apply List.filter_eq_self.2
    intro e he
    obtain ⟨u, hu, rfl⟩ := List.mem_map.1 he
    have := mval_ne_zero S r c hS hp u (hU.mem_iff.1 hu)
    simpa using this
  have hmk : S.toSptenmat (some r) (some c) none = Sptenmat.mkCopy (msOf S r c) S.vals r c S.shape := by
    unfold Sparse.toSptenmat
    simp only [gatherWrapDims, hp, Bool.not_true, Bool.false_eq_true, if_false]
    rfl
  rw [hmk]
  unfold Sptenmat.mkCopy
  simp only [hp, Bool.not_true, Bool.false_eq_true, if_false, hl2, hlen, h0, h1, hagg, List.map_map, sptenmatOf]
  congr 2
  exact List.map_id _

theorem zip_self_map {β γ : Type} (l : List β) (g : β → γ) :
    l.zip (l.map g) = l.map (fun u => (u, g u)) := by
  induction l with
  | nil => rfl
  | cons a l ih => simp [ih]

omit [DecidableEq α] in
theorem sptenmatOf_entries (S : Sparse α) (r c : List Nat) :
    (⟨(sptenmatOf S r c).mshape, (sptenmatOf S r c).subs, (sptenmatOf S r c).vals⟩ : Sparse α).entries =
      (uniqueRowsSorted (msOf S r c)).map (fun u => (u, mval S r c u)) :=
  zip_self_map _ _

theorem sptenmatOf_get (S : Sparse α) (r c : List Nat) (hS : S.WF)
    (hp : isPermOf (r ++ c) S.shape.length = true) (a b : Nat) :
    (sptenmatOf S r c).get a b = mval S r c [a, b] := by
  have hn := msOf_nodup S r c hS hp
  have hU := uniqueRowsSorted_perm _ hn
  unfold Sptenmat.get
  rw [Sparse.get_eq_kvSum, sptenmatOf_entries, kvSum_map _ _ _ (hU.nodup_iff.2 hn)]
  split
  · rfl
  · next h => exact (mval_of_not_mem S r c _ (fun h' => h (hU.mem_iff.2 h'))).symm

theorem sptenmatOf_wf (S : Sparse α) (r c : List Nat) (hS : S.WF)
    (hp : isPermOf (r ++ c) S.shape.length = true) :
    Sparse.WF (⟨(sptenmatOf S r c).mshape, (sptenmatOf S r c).subs, (sptenmatOf S r c).vals⟩ : Sparse α) := by
  have hn := msOf_nodup S r c hS hp
  have hU := uniqueRowsSorted_perm _ hn
  refine ⟨?_, ?_, ?_, ?_⟩
  · simp [sptenmatOf]
  · intro u hu
    obtain ⟨j, hj, rfl⟩ := mem_msOf.1 (hU.mem_iff.1 hu)
    exact matSub_inBounds hp (hS.inb j hj)
  · exact hU.nodup_iff.2 hn
  · intro v hv
    obtain ⟨u, hu, rfl⟩ := List.mem_map.1 hv
    have := mval_ne_zero S r c hS hp u (hU.mem_iff.1 hu)
    simpa using this

theorem sptenmat_entry (S : Sparse α) (r c : List Nat) (hS : S.WF)
    (hp : isPermOf (r ++ c) S.shape.length = true) (i : List Nat) (hi : InBounds S.shape i) :
    ∃ M, S.toSptenmat (some r) (some c) none = .ok M ∧ M.tshape = S.shape ∧ M.rdims = r ∧ M.cdims = c ∧
      Sparse.WF (⟨M.mshape, M.subs, M.vals⟩ : Sparse α) ∧
      M.get (sub2ind (gather S.shape r) (gather i r)) (sub2ind (gather S.shape c) (gather i c)) = S.get i := by
  refine ⟨_, toSptenmat_ok S r c hS hp, rfl, rfl, rfl, sptenmatOf_wf S r c hS hp, ?_⟩
  rw [sptenmatOf_get S r c hS hp]
  exact mval_matSub S r c hS hp i hi

/-! ### `to_sptensor` of the matricization -/

omit [DecidableEq α] in
theorem sptenmatOf_toSparse (S : Sparse α) (r c : List Nat) :
    (sptenmatOf S r c).toSparse =
      ⟨S.shape, (uniqueRowsSorted (msOf S r c)).map (unmatSub S.shape r c),
        (uniqueRowsSorted (msOf S r c)).map (mval S r c)⟩ := rfl

theorem sptenmatOf_toSparse_entries_perm (S : Sparse α) (r c : List Nat) (hS : S.WF)
    (hp : isPermOf (r ++ c) S.shape.length = true) :
    (sptenmatOf S r c).toSparse.entries.Perm (S.subs.map fun j => (j, S.get j)) := by
  have hU := uniqueRowsSorted_perm _ (msOf_nodup S r c hS hp)
  rw [sptenmatOf_toSparse]
  unfold Sparse.entries
  simp only
  rw [zip_map_map]
  refine (hU.map _).trans ?_
  unfold msOf
  rw [List.map_map]
  apply List.Perm.of_eq
  apply List.map_congr_left
  intro j hj
  have hjb := hS.inb j hj
  simp only [Function.comp, unmatSub_matSub hp hjb, mval_matSub S r c hS hp j hjb]

theorem sptenmatOf_toSparse_subs_perm (S : Sparse α) (r c : List Nat) (hS : S.WF)
    (hp : isPermOf (r ++ c) S.shape.length = true) :
    ((uniqueRowsSorted (msOf S r c)).map (unmatSub S.shape r c)).Perm S.subs := by
  have hU := uniqueRowsSorted_perm _ (msOf_nodup S r c hS hp)
  refine (hU.map _).trans ?_
  unfold msOf
  rw [List.map_map]
  apply List.Perm.of_eq
  conv => rhs; rw [← List.map_id S.subs]
  apply List.map_congr_left
  intro j hj
  simp only [Function.comp, unmatSub_matSub hp (hS.inb j hj), id]

theorem sptenmat_roundtrip (S : Sparse α) (r c : List Nat) (hS : S.WF)
    (hp : isPermOf (r ++ c) S.shape.length = true) (i : List Nat) (_hi : InBounds S.shape i) :
    ∃ M, S.toSptenmat (some r) (some c) none = .ok M ∧ M.toSparse.get i = S.get i ∧
      M.toSparse.shape = S.shape ∧ M.toSparse.WF := by
  have hn := msOf_nodup S r c hS hp
  have hU := uniqueRowsSorted_perm _ hn
  have hsp := sptenmatOf_toSparse_subs_perm S r c hS hp
  refine ⟨_, toSptenmat_ok S r c hS hp, ?_, rfl, ?_⟩
  · rw [Sparse.get_eq_kvSum, kvSum_perm (sptenmatOf_toSparse_entries_perm S r c hS hp),
      kvSum_map _ _ _ hS.nodup]
    split
    · rfl
    · next h => exact (S.get_of_not_mem i h).symm
  · rw [sptenmatOf_toSparse]
    refine ⟨?_, ?_, ?_, ?_⟩
    · simp
    · intro j hj
      exact hS.inb j (hsp.mem_iff.1 hj)
    · exact hsp.nodup_iff.2 hS.nodup
    · intro v hv
      obtain ⟨u, hu, rfl⟩ := List.mem_map.1 hv
      have := mval_ne_zero S r c hS hp u (hU.mem_iff.1 hu)
      simpa using this

/-! ### `sptenmat.full` -/

theorem sptenmat_full (S : Sparse α) (r c : List Nat) (hS : S.WF)
    (hp : isPermOf (r ++ c) S.shape.length = true) (_hpos : ∀ e ∈ S.shape, 1 ≤ e) :
    ∃ M D, S.toSptenmat (some r) (some c) none = .ok M ∧
      S.full.toTenmat (some r) (some c) none = .ok D ∧ M.full = D := by
  have hF : S.full.WF := Dense.ofFn_WF _ _
  have hpF : isPermOf (r ++ c) S.full.shape.length = true := hp
  refine ⟨_, _, toSptenmat_ok S r c hS hp, toTenmat_ok S.full r c hF hpF, ?_⟩
  have hX := sptenmatOf_wf S r c hS hp
  unfold Sptenmat.full
  show Tenmat.mk S.shape r c _ = Tenmat.mk S.shape r c _
  congr 1
  refine Dense.ext_get (Dense.ofFn_WF _ _) (tenmat_data_WF S.full r c) rfl ?_
  intro i hi
  have hi' : InBounds [numel (gather S.shape r), numel (gather S.shape c)] i := hi
  match i, hi' with
  | [a, b], hi' =>
    simp only [InBounds, and_true] at hi'
    obtain ⟨j, hj, hjab⟩ := matSub_surj hp a b hi'.1 hi'.2
    refine ((sp_full_at _ hX [a, b] hi).1).trans ?_
    have h1 : Sparse.get ⟨(sptenmatOf S r c).mshape, (sptenmatOf S r c).subs, (sptenmatOf S r c).vals⟩ [a, b]
        = mval S r c [a, b] := sptenmatOf_get S r c hS hp a b
    rw [h1, ← hjab, mval_matSub S r c hS hp j hj, ← (sp_full_at S hS j hj).1]
    exact (tenmat_data_get S.full r c hpF j hj).symm

end sptenmat

end Pyttb
