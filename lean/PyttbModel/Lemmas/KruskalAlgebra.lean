/-
C08 lemmas: absorbing weights into one mode (`redistribute`), permuting / selecting components
(`arrange(permutation)`, `extract`), and `+`, `-`, unary `-`, scalar `*`.
-/
import PyttbModel.Lemmas.KruskalBasic
namespace Pyttb
namespace Ktensor

variable {α : Type}

/-! ### structure facts -/

@[simp] theorem ncomp_mk (w : List α) (fs : List (Mat α)) : (⟨w, fs⟩ : Ktensor α).ncomp = w.length := rfl
@[simp] theorem ndims_mk (w : List α) (fs : List (Mat α)) : (⟨w, fs⟩ : Ktensor α).ndims = fs.length := rfl
theorem ndims_eq (K : Ktensor α) : K.ndims = K.factors.length := rfl
theorem ncomp_eq (K : Ktensor α) : K.ncomp = K.weights.length := rfl

theorem shape_set (fs : List (Mat α)) (n : Nat) (A' : Mat α) (h : A'.length = (fs.getD n []).length) :
    (fs.set n A').map List.length = fs.map List.length := by
  induction fs generalizing n with
  | nil => simp
  | cons A fs ih =>
    cases n with
    | zero => simpa using h
    | succ n => simpa using ih n (by simpa using h)

/-! ### absorbing the weights into one mode -/

section absorb
variable [CommSemiring α]

theorem absorbMode_ncomp (K : Ktensor α) (n : Nat) : (K.absorbMode n).ncomp = K.ncomp := by
  simp [absorbMode, ncomp]

theorem absorbMode_ndims (K : Ktensor α) (n : Nat) : (K.absorbMode n).ndims = K.ndims := by
  simp [absorbMode, ndims]

theorem absorbMode_shape (K : Ktensor α) (n : Nat) : (K.absorbMode n).shape = K.shape := by
  unfold absorbMode Ktensor.shape
  exact shape_set _ _ _ (Mat.length_scaleR _ _)

theorem absorbMode_weights (K : Ktensor α) (n : Nat) : ∀ w ∈ (K.absorbMode n).weights, w = 1 := by
  intro w hw
  simp only [absorbMode, List.mem_map] at hw
  obtain ⟨_, _, rfl⟩ := hw
  rfl

theorem absorbMode_get (K : Ktensor α) (n : Nat) (i : List Nat) (hn : n < K.factors.length)
    (hi : i.length = K.factors.length) : (K.absorbMode n).get i = K.get i := by
  apply get_congr i (absorbMode_ncomp K n)
  intro r hr
  have h1 : (K.absorbMode n).weights.getD r 0 = 1 := by
    unfold absorbMode
    simp only
    rw [getD_map_of_lt _ _ _ 0 _ hr]
  have h2 : (K.absorbMode n).comp r i = K.comp r i * K.weights.getD r 0 :=
    comp_set K _ n _ r _ i hn hi (fun j => Mat.get_scaleR _ _ _ _)
  rw [h1, h2]
  ring

end absorb

/-! ### permuting and selecting components -/

section perm
variable [CommSemiring α]

theorem permuteComps_ncomp (K : Ktensor α) (p : List Nat) : (K.permuteComps p).ncomp = p.length := by
  simp [permuteComps, ncomp, gatherD]

theorem permuteComps_ndims (K : Ktensor α) (p : List Nat) : (K.permuteComps p).ndims = K.ndims := by
  simp [permuteComps, ndims]

theorem permuteComps_shape (K : Ktensor α) (p : List Nat) : (K.permuteComps p).shape = K.shape := by
  simp [permuteComps, Ktensor.shape, Mat.gatherCols, Function.comp_def]

theorem permuteComps_comp (K : Ktensor α) (p : List Nat) (k : Nat) (hk : k < p.length) (i : List Nat) :
    (K.permuteComps p).comp k i = K.comp (p.getD k 0) i := by
  unfold permuteComps Ktensor.comp
  simp only
  rw [zipWith_map_congr (fun A ik => Mat.get A ik (p.getD k 0)) (fun A ik => Mat.get A ik k)]
  intro A j
  exact Mat.get_gatherCols A p j k hk

theorem permuteComps_weight (K : Ktensor α) (p : List Nat) (k : Nat) (hk : k < p.length) :
    (K.permuteComps p).weights.getD k 0 = K.weights.getD (p.getD k 0) 0 := by
  unfold permuteComps gatherD
  simp only
  rw [getD_map_of_lt _ _ _ 0 _ hk]

/-- Selecting components `p` (any list of indices) gives the sum of those components. -/
theorem permuteComps_get (K : Ktensor α) (p : List Nat) (i : List Nat) :
    (K.permuteComps p).get i = (p.map fun r => K.weights.getD r 0 * K.comp r i).sum := by
  unfold Ktensor.get
  rw [permuteComps_ncomp]
  have : (List.range p.length).map (fun k => (K.permuteComps p).weights.getD k 0 * (K.permuteComps p).comp k i)
      = (List.range p.length).map (fun k => (fun r => K.weights.getD r 0 * K.comp r i) (p.getD k 0)) := by
    apply List.map_congr_left
    intro k hk
    have hk' := List.mem_range.1 hk
    rw [permuteComps_weight K p k hk', permuteComps_comp K p k hk' i]
  rw [this]
  have e : (List.range p.length).map (fun k => p.getD k 0) = p := gather_range p
  conv_rhs => rw [← e]
  rw [List.map_map]
  rfl

/-- A permutation of the components does not change the tensor. -/
theorem permuteComps_get_perm (K : Ktensor α) (p : List Nat) (i : List Nat)
    (hp : isPermOf p K.ncomp = true) : (K.permuteComps p).get i = K.get i := by
  rw [permuteComps_get]
  unfold Ktensor.get
  exact ((isPermOf_perm hp).map _).sum_eq.symm

end perm

/-! ### scalar multiples -/

section smul
variable [CommRing α]

theorem get_map_weights_mul (c : α) (w : List α) (fs : List (Mat α)) (i : List Nat) :
    (⟨w.map (c * ·), fs⟩ : Ktensor α).get i = c * (⟨w, fs⟩ : Ktensor α).get i := by
  unfold Ktensor.get
  simp only [ncomp_mk, List.length_map]
  rw [← List.sum_map_mul_left]
  congr 1
  apply List.map_congr_left
  intro r hr
  rw [getD_map_of_lt _ _ _ 0 _ (List.mem_range.1 hr), mul_assoc]
  rfl

theorem get_map_weights_neg (w : List α) (fs : List (Mat α)) (i : List Nat) :
    (⟨w.map (- ·), fs⟩ : Ktensor α).get i = - (⟨w, fs⟩ : Ktensor α).get i := by
  have : w.map (- ·) = w.map ((-1 : α) * ·) := by
    apply List.map_congr_left
    intro x _
    simp
  rw [this, get_map_weights_mul]
  simp

end smul

/-! ### sums -/

section add
variable [CommSemiring α]

theorem Mat.get_hcat (A B : Mat α) (RA : Nat) (hl : A.length = B.length) (hA : ∀ row ∈ A, row.length = RA)
    (i r : Nat) :
    Mat.get (Mat.hcat A B) i r = if r < RA then Mat.get A i r else Mat.get B i (r - RA) := by
  unfold Mat.hcat Mat.get
  by_cases h : i < A.length
  · have hB : i < B.length := by omega
    have e : (List.zipWith (· ++ ·) A B).getD i [] = A[i] ++ B[i] := by
      simp [List.getD_eq_getElem?_getD, h, hB]
    have ea : A.getD i [] = A[i] := by simp [List.getD_eq_getElem?_getD, h]
    have eb : B.getD i [] = B[i] := by simp [List.getD_eq_getElem?_getD, hB]
    have hlen : (A[i]).length = RA := hA _ (List.getElem_mem h)
    rw [e, ea, eb]
    split
    · rename_i hr
      simp [List.getD_eq_getElem?_getD, List.getElem?_append_left (by omega : r < (A[i]).length)]
    · rename_i hr
      simp [List.getD_eq_getElem?_getD, List.getElem?_append_right (by omega : (A[i]).length ≤ r), hlen]
  · have hA' : A.length ≤ i := by omega
    have hB' : B.length ≤ i := by omega
    rw [getD_ge _ i [] (by simp; omega), getD_ge A i [] hA', getD_ge B i [] hB']
    simp

theorem comp_hcat_left (fa fb : List (Mat α)) (w w' : List α) (RA r : Nat) (i : List Nat) (hr : r < RA)
    (hs : fa.map List.length = fb.map List.length) (hA : ∀ A ∈ fa, ∀ row ∈ A, row.length = RA) :
    (⟨w', List.zipWith Mat.hcat fa fb⟩ : Ktensor α).comp r i = (⟨w, fa⟩ : Ktensor α).comp r i := by
  unfold Ktensor.comp
  simp only
  induction fa generalizing fb i with
  | nil => simp
  | cons A fa ih =>
    cases fb with
    | nil => simp at hs
    | cons B fb =>
      cases i with
      | nil => simp
      | cons j i =>
        simp only [List.map_cons, List.cons.injEq] at hs
        simp only [List.zipWith_cons_cons, List.prod_cons]
        rw [ih fb i hs.2 (fun A' h => hA A' (List.mem_cons_of_mem _ h)),
          Mat.get_hcat A B RA hs.1 (hA A (List.mem_cons_self ..)), if_pos hr]

theorem comp_hcat_right (fa fb : List (Mat α)) (w w' : List α) (RA s : Nat) (i : List Nat)
    (hs : fa.map List.length = fb.map List.length) (hA : ∀ A ∈ fa, ∀ row ∈ A, row.length = RA) :
    (⟨w', List.zipWith Mat.hcat fa fb⟩ : Ktensor α).comp (RA + s) i = (⟨w, fb⟩ : Ktensor α).comp s i := by
  unfold Ktensor.comp
  simp only
  induction fa generalizing fb i with
  | nil =>
    cases fb with
    | nil => simp
    | cons B fb => simp at hs
  | cons A fa ih =>
    cases fb with
    | nil => simp at hs
    | cons B fb =>
      cases i with
      | nil => simp
      | cons j i =>
        simp only [List.map_cons, List.cons.injEq] at hs
        simp only [List.zipWith_cons_cons, List.prod_cons]
        rw [ih fb i hs.2 (fun A' h => hA A' (List.mem_cons_of_mem _ h)),
          Mat.get_hcat A B RA hs.1 (hA A (List.mem_cons_self ..)), if_neg (by omega)]
        congr 2
        omega

/-- Concatenating weights and factor columns adds the tensors. -/
theorem get_concat (K L : Ktensor α) (hK : K.WF) (hs : K.shape = L.shape) (i : List Nat) :
    (⟨K.weights ++ L.weights, List.zipWith Mat.hcat K.factors L.factors⟩ : Ktensor α).get i
      = K.get i + L.get i := by
  unfold Ktensor.get
  simp only [List.length_append, ncomp_eq]
  rw [List.range_add, List.map_append, List.sum_append, List.map_map]
  congr 1
  · congr 1
    apply List.map_congr_left
    intro r hr
    have hr' := List.mem_range.1 hr
    rw [comp_hcat_left K.factors L.factors K.weights _ K.weights.length r i hr' hs hK]
    congr 1
    simp [List.getD_eq_getElem?_getD, List.getElem?_append_left hr']
  · congr 1
    apply List.map_congr_left
    intro s _
    simp only [Function.comp]
    rw [comp_hcat_right K.factors L.factors L.weights _ K.weights.length s i hs hK]
    congr 1
    simp [List.getD_eq_getElem?_getD, List.getElem?_append_right]

end add

/-! ### `extract` -/

section extract
variable [Zero α]

theorem extract_go_ok (K : Ktensor α) (l : List Int) (h1 : l ≠ []) (h2 : l.length ≤ K.ncomp)
    (h3 : ∀ k ∈ l, 0 ≤ k ∧ k < (K.ncomp : Int)) (hN : K.factors ≠ []) :
    extract.go K l = .ok (K.permuteComps (l.map Int.toNat)) := by
  unfold extract.go
  have a : (l.length == 0 || decide (l.length > K.ncomp)) = false := by
    have : l.length ≠ 0 := fun h => h1 (List.eq_nil_of_length_eq_zero h)
    simp [this]; omega
  have b : (l.all fun c => inRange c K.ncomp) = true := by
    rw [List.all_eq_true]
    intro k hk
    exact (inRange_iff _ _).2 (h3 k hk)
  have c : (K.ndims == 0) = false := by simp [ndims]; exact hN
  simp [a, b, c]

theorem extract_go_rejects (K : Ktensor α) (l : List Int)
    (h : l = [] ∨ K.ncomp < l.length ∨ ∃ k ∈ l, k < 0 ∨ (K.ncomp : Int) ≤ k) :
    extract.go K l = .error .reject := by
  unfold extract.go
  rcases h with rfl | h | ⟨k, hk, hbad⟩
  · simp
  · have : (l.length == 0 || decide (l.length > K.ncomp)) = true := by simp; right; exact h
    simp [this]
  · by_cases a : (l.length == 0 || decide (l.length > K.ncomp)) = true
    · simp [a]
    · have b : (l.all fun c => inRange c K.ncomp) = false := by
        rw [List.all_eq_false]
        refine ⟨k, hk, ?_⟩
        intro hin
        have := (inRange_iff _ _).1 hin
        omega
      simp [a, b]

end extract

end Ktensor
end Pyttb
