/-
C01, Kruskal: `ktensor.full()` denotes `Σ_r λ_r ∏ₙ Aₙ[iₙ, r]`.
-/
import PyttbModel.Lemmas.KhatriRao
import PyttbModel.Ops.Kruskal
import PyttbModel.Lemmas.ConvertTenmat
namespace Pyttb
variable {α : Type}

theorem prod_append' [Monoid α] (l l' : List α) : (l ++ l').prod = l.prod * l'.prod := by
  induction l with
  | nil => simp
  | cons a l ih => simp [ih, mul_assoc]

theorem prod_reverse' [CommMonoid α] (l : List α) : l.reverse.prod = l.prod := by
  induction l with
  | nil => rfl
  | cons a l ih => rw [List.reverse_cons, prod_append', ih]; simp [mul_comm]

theorem length_foldl_kr2 [Mul α] (rest : List (Mat α)) (P : Mat α) :
    (rest.foldl kr2 P).length = P.length * numel (rest.map List.length) := by
  induction rest generalizing P with
  | nil => simp
  | cons M rest ih => simp [ih, length_kr2, Nat.mul_assoc]

theorem khatrirao_ok [Mul α] (Ms : List (Mat α)) (R : Nat) (hne : Ms ≠ [])
    (hR : ∀ M ∈ Ms, ∀ row ∈ M, row.length = R) (hpos : ∀ M ∈ Ms, 0 < M.length) :
    ∃ K, khatrirao Ms false = .ok K ∧ K.length = numel (Ms.map List.length) := by
  cases Ms with
  | nil => exact absurd rfl hne
  | cons M0 rest =>
    have hall : rest.all (fun M => M.ncols == M0.ncols) = true := by
      rw [List.all_eq_true]
      intro M hM
      rw [ncols_eq M R (hR M (List.mem_cons_of_mem _ hM)) (hpos M (List.mem_cons_of_mem _ hM)),
        ncols_eq M0 R (hR M0 List.mem_cons_self) (hpos M0 List.mem_cons_self)]
      simp
    exact ⟨rest.foldl kr2 M0, by rw [khatrirao_cons, if_pos hall], by simp [length_foldl_kr2]⟩

/-- `khatrirao(Ms, reverse=True)`: row `sub2ind dims i` holds `∏ₖ Mₖ[iₖ, r]`. -/
theorem khatrirao_rev_spec [CommSemiring α] (Ms : List (Mat α)) (R : Nat) (i : List Nat)
    (hne : Ms ≠ []) (hR : ∀ M ∈ Ms, ∀ row ∈ M, row.length = R)
    (hi : InBounds (Ms.map List.length) i) :
    ∃ K, khatrirao Ms true = .ok K ∧ K.length = numel (Ms.map List.length) ∧
      ∀ r, r < R → K.get (sub2ind (Ms.map List.length) i) r =
        (List.zipWith (fun M ik => M.get ik r) Ms i).prod := by
  have hne' : Ms.reverse ≠ [] := by simpa using hne
  have hR' : ∀ M ∈ Ms.reverse, ∀ row ∈ M, row.length = R := fun M hM => hR M (List.mem_reverse.1 hM)
  have hpos := pos_length_of_inBounds Ms i hi
  have hi' : InBounds (Ms.reverse.map List.length) i.reverse := by
    rw [List.map_reverse]; exact InBounds_reverse hi
  obtain ⟨K, hK, hlen⟩ := khatrirao_ok Ms.reverse R hne' hR' (fun M hM => hpos M (List.mem_reverse.1 hM))
  refine ⟨K, hK, by rw [hlen, List.map_reverse, numel_reverse], ?_⟩
  intro r hr
  obtain ⟨K', hK', _, hent⟩ := khatrirao_entry Ms.reverse R i.reverse r hne' hR' hr hi'
  have hKK : K' = K := by
    have : (Except.ok K' : Except Reject (Mat α)) = .ok K := by rw [← hK', ← hK]
    exact Except.ok.inj this
  subst hKK
  have hl : Ms.length = i.length := by simpa using hi.length_eq.symm
  rw [List.map_reverse, List.reverse_reverse, List.reverse_reverse] at hent
  rw [hent, ← List.reverse_zipWith hl, prod_reverse']

theorem argminNat_go_lt (l : List Nat) (best bi k : Nat) (hbi : bi < k) :
    argminNat.go best bi k l < k + l.length := by
  induction l generalizing best bi k with
  | nil => simp [argminNat.go]; exact hbi
  | cons y ys ih =>
    simp only [argminNat.go, List.length_cons]
    split
    · have := ih y k (k + 1) (by omega); omega
    · have := ih best bi (k + 1) (by omega); omega

theorem argminNat_lt (l : List Nat) (h : l ≠ []) : argminNat l < l.length := by
  cases l with
  | nil => exact absurd rfl h
  | cons x xs =>
    have := argminNat_go_lt xs x 0 1 (by omega)
    simp only [argminNat, List.length_cons]; omega

theorem minSplitDims_bounds (dims : List Nat) (h : 2 ≤ dims.length) :
    1 ≤ minSplitDims dims ∧ minSplitDims dims < dims.length := by
  unfold minSplitDims
  have hne : ((List.range (dims.length - 1)).map fun k =>
      numel (dims.take (k + 1)) + numel (dims.drop (k + 1))) ≠ [] := by
    intro h0
    have := congrArg List.length h0
    simp at this; omega
  have := argminNat_lt _ hne
  simp only [List.length_map, List.length_range] at this
  omega


theorem flatMap_map_getElem? {β γ δ : Type} (P : List β) (M : List γ) (f : β → γ → δ) (a b : Nat)
    (ha : a < P.length) (hb : b < M.length) :
    (P.flatMap fun p => M.map (f p))[a * M.length + b]? = some (f P[a] M[b]) := by
  induction P generalizing a with
  | nil => simp at ha
  | cons p P ih =>
    rw [List.flatMap_cons]
    cases a with
    | zero =>
      rw [Nat.zero_mul, Nat.zero_add, List.getElem?_append_left (by simpa using hb)]
      simp [List.getElem?_eq_getElem hb]
    | succ a =>
      have ha' : a < P.length := by simpa using ha
      rw [List.getElem?_append_right (by rw [List.length_map, Nat.succ_mul]; omega)]
      have e : (a + 1) * M.length + b - (M.map (f p)).length = a * M.length + b := by
        rw [List.length_map, Nat.succ_mul]; omega
      rw [e, ih a ha']
      simp

theorem length_flatMap_map {β γ δ : Type} (P : List β) (M : List γ) (f : β → γ → δ) :
    (P.flatMap fun p => M.map (f p)).length = P.length * M.length := by
  induction P with
  | nil => simp
  | cons p P ih => rw [List.flatMap_cons, List.length_append, ih, List.length_map, List.length_cons, Nat.succ_mul]; omega

theorem getD_zipWith_mul_c01 [MulZeroClass α] (a b : List α) (r : Nat) :
    (List.zipWith (· * ·) a b).getD r 0 = a.getD r 0 * b.getD r 0 := by
  simp only [List.getD_eq_getElem?_getD, List.getElem?_zipWith]
  cases a[r]? <;> cases b[r]? <;> simp

theorem sum_zipWith_eq_range [Add α] [Zero α] [Mul α] (a b : List α) (R : Nat) (ha : a.length = R) (hb : b.length = R) :
    (List.zipWith (· * ·) a b).sum = ((List.range R).map fun r => a.getD r 0 * b.getD r 0).sum := by
  congr 1
  apply List.ext_getElem (by simp [ha, hb])
  intro n h1 h2
  simp only [List.length_zipWith, ha, hb, Nat.min_self] at h1
  simp [List.getD_eq_getElem?_getD, ha, hb, h1]

theorem Mat.get_eq_getD_row [Zero α] (A : Mat α) (a r : Nat) (ha : a < A.length) :
    A.get a r = (A[a]).getD r 0 := by
  simp [Mat.get, List.getD_eq_getElem?_getD, ha]


theorem kruskal_full_one [CommSemiring α] (w : List α) (A : Mat α)
    (hK : (⟨w, [A]⟩ : Ktensor α).WF) (i : List Nat) (hi : InBounds (⟨w, [A]⟩ : Ktensor α).shape i) :
    ∃ D, (⟨w, [A]⟩ : Ktensor α).full = .ok D ∧ D.shape = (⟨w, [A]⟩ : Ktensor α).shape ∧ D.WF ∧
      D.get i = (⟨w, [A]⟩ : Ktensor α).get i := by
  refine ⟨⟨[A.length], A.map fun row => (List.zipWith (· * ·) row w).sum⟩, rfl, rfl, ?_, ?_⟩
  · simp [Dense.WF]
  · match i, hi with
    | [a], hi =>
      have ha : a < A.length := by simpa [Ktensor.shape, InBounds] using hi
      have hrow : (A[a]).length = w.length := hK A (by simp) _ (List.getElem_mem ha)
      simp only [Dense.get, sub2ind, Nat.mul_zero, Nat.add_zero, List.getD_eq_getElem?_getD,
        List.getElem?_map, List.getElem?_eq_getElem ha, Option.map_some, Option.getD_some]
      rw [sum_zipWith_eq_range _ _ w.length hrow rfl]
      simp only [Ktensor.get, Ktensor.ncomp, Ktensor.comp, List.zipWith_cons_cons, List.zipWith_nil_right,
        List.prod_cons, List.prod_nil, mul_one, Mat.get_eq_getD_row A a _ ha]
      congr 1
      apply List.map_congr_left
      intro r _
      simp only [List.getD_eq_getElem?_getD]
      exact mul_comm _ _


theorem kruskal_full_many [CommSemiring α] (K : Ktensor α) (hK : K.WF) (hN : 2 ≤ K.factors.length)
    (i : List Nat) (hi : InBounds K.shape i) :
    ∃ D, K.full = .ok D ∧ D.shape = K.shape ∧ D.WF ∧ D.get i = K.get i := by
  have hsl : K.shape.length = K.factors.length := by simp [Ktensor.shape]
  obtain ⟨hs1, hs2⟩ := minSplitDims_bounds K.shape (by omega)
  generalize hsdef : minSplitDims K.shape = s at hs1 hs2
  obtain ⟨hiT, hiD⟩ := InBounds_take_drop hi s
  have hshT : K.shape.take s = (K.factors.take s).map List.length := by
    simp [Ktensor.shape, List.map_take]
  have hshD : K.shape.drop s = (K.factors.drop s).map List.length := by
    simp [Ktensor.shape, List.map_drop]
  rw [hshT] at hiT
  rw [hshD] at hiD
  have hneT : K.factors.take s ≠ [] := by
    intro h; have := congrArg List.length h
    rw [List.length_take, List.length_nil] at this; omega
  have hneD : K.factors.drop s ≠ [] := by
    intro h; have := congrArg List.length h
    rw [List.length_drop, List.length_nil] at this; omega
  obtain ⟨L, hL, hLlen, hLent⟩ := khatrirao_rev_spec (K.factors.take s) K.weights.length (i.take s) hneT
    (fun M hM => hK M (List.mem_of_mem_take hM)) hiT
  obtain ⟨Rm, hRm, hRlen, hRent⟩ := khatrirao_rev_spec (K.factors.drop s) K.weights.length (i.drop s) hneD
    (fun M hM => hK M (List.mem_of_mem_drop hM)) hiD
  have h0 : (K.shape.length == 0) = false := by rw [beq_eq_false_iff_ne]; omega
  have h1 : (K.shape.length == 1) = false := by rw [beq_eq_false_iff_ne]; omega
  have hfull : K.full = .ok ⟨K.shape, Rm.flatMap fun rrow =>
      (L.map fun row => List.zipWith (· * ·) row K.weights).map fun lrow =>
        ((List.range K.ncomp).map fun r => lrow.getD r 0 * rrow.getD r 0).sum⟩ := by
    unfold Ktensor.full Ktensor.fullG
    simp only [h0, h1, Bool.false_eq_true, if_false, hsdef, hL, hRm]
  refine ⟨_, hfull, rfl, ?_, ?_⟩
  · simp only [Dense.WF, length_flatMap_map, List.length_map, hLlen, hRlen, ← hshT, ← hshD]
    rw [Nat.mul_comm, ← numel_append, List.take_append_drop]
  · have ha : sub2ind (K.shape.take s) (i.take s) < L.length := by
      rw [hLlen, ← hshT]; rw [← hshT] at hiT; exact sub2ind_lt hiT
    have hb : sub2ind (K.shape.drop s) (i.drop s) < Rm.length := by
      rw [hRlen, ← hshD]; rw [← hshD] at hiD; exact sub2ind_lt hiD
    have hidx : sub2ind K.shape i =
        sub2ind (K.shape.drop s) (i.drop s) * (L.map fun row => List.zipWith (· * ·) row K.weights).length
          + sub2ind (K.shape.take s) (i.take s) := by
      conv => lhs; rw [← List.take_append_drop s K.shape, ← List.take_append_drop s i]
      rw [sub2ind_append _ _ _ _ (by rw [List.length_take, List.length_take, hi.length_eq]),
        List.length_map, hLlen, ← hshT, Nat.mul_comm, Nat.add_comm]
    simp only [Dense.get]
    rw [hidx, List.getD_eq_getElem?_getD,
      flatMap_map_getElem? Rm _ _ _ _ hb (by rw [List.length_map]; exact ha), Option.getD_some]
    simp only [List.getElem_map, getD_zipWith_mul_c01, Ktensor.get]
    congr 1
    apply List.map_congr_left
    intro r hr
    have hr' : r < K.weights.length := by simpa [Ktensor.ncomp] using hr
    rw [← Mat.get_eq_getD_row L _ r ha, ← Mat.get_eq_getD_row Rm _ r hb]
    rw [hshT, hLent r hr', hshD, hRent r hr']
    simp only [Ktensor.comp]
    conv => rhs; rw [← List.take_append_drop s K.factors, ← List.take_append_drop s i]
    rw [List.zipWith_append (by rw [List.length_take, List.length_take, hi.length_eq, hsl]), prod_append']
    rw [mul_comm _ (K.weights.getD r 0), mul_assoc]

theorem kruskal_full [CommSemiring α] (K : Ktensor α) (hK : K.WF) (hN : 1 ≤ K.factors.length)
    (i : List Nat) (hi : InBounds K.shape i) :
    ∃ D, K.full = .ok D ∧ D.shape = K.shape ∧ D.WF ∧ D.get i = K.get i := by
  by_cases h2 : 2 ≤ K.factors.length
  · exact kruskal_full_many K hK h2 i hi
  · obtain ⟨w, fs⟩ := K
    match fs, hN, h2 with
    | [A], _, _ => exact kruskal_full_one w A hK i hi
    | _ :: _ :: _, _, h2 => exact absurd (by simp) h2

end Pyttb
