/-
C02 — `ttm` with a list of matrices: one single-mode product per selected mode; the
sum-over-the-fiber definition satisfies the same recursion.
-/
import PyttbModel.Lemmas.MLDenseTtm
import Mathlib.Data.List.Induction
namespace Pyttb
namespace ML

variable {α : Type}

theorem gather_eq_iff_forall (a b l : List Nat) :
    gather a l = gather b l ↔ ∀ m ∈ l, a.getD m 0 = b.getD m 0 := by
  unfold gather
  exact List.map_inj_left

theorem mem_complDims_snoc {N : Nat} {sel : List Nat} {n m : Nat} :
    m ∈ complDims N (sel ++ [n]) ↔ m ∈ complDims N sel ∧ m ≠ n := by
  rw [mem_complDims, mem_complDims]
  simp only [List.mem_append, List.mem_singleton, not_or]
  tauto

/-- `Spec.ttm` as an indicator sum over all cells. -/
theorem spec_ttm_eq_ite [CommSemiring α] (X : Den α) (sel : List Nat) (M : Nat → Nat → Nat → α) (i : List Nat) :
    Spec.ttm X sel M i = ((allSubs X.shape).map fun k =>
      if gather k (complDims X.shape.length sel) = gather i (complDims X.shape.length sel)
      then X.get k * (sel.map fun d => M d (i.getD d 0) (k.getD d 0)).prod else 0).sum := by
  unfold Spec.ttm Spec.sumOver Spec.fiber
  rw [sum_filter]
  apply sum_congr
  intro k _
  by_cases h : gather k (complDims X.shape.length sel) = gather i (complDims X.shape.length sel)
  · simp [h]
  · simp [h]

/-- The definition of a multi-mode product peels off one mode at a time. -/
theorem spec_ttm_snoc [CommSemiring α] (X : Den α) (sel : List Nat) (n : Nat) (M : Nat → Nat → Nat → α)
    (i : List Nat) (hn : n < X.shape.length) (hns : n ∉ sel) (hil : i.length = X.shape.length) :
    Spec.ttm X (sel ++ [n]) M i =
      sumRange (X.shape.getD n 0) fun x => M n (i.getD n 0) x * Spec.ttm X sel M (i.set n x) := by
  set N := X.shape.length with hN
  set rem' := complDims N sel with hrem'
  set rem := complDims N (sel ++ [n]) with hrem
  have hnrem' : n ∈ rem' := mem_complDims.2 ⟨hn, hns⟩
  unfold sumRange
  rw [spec_ttm_eq_ite]
  have h2 : ∀ x, M n (i.getD n 0) x * Spec.ttm X sel M (i.set n x) =
      ((allSubs X.shape).map fun k => M n (i.getD n 0) x *
        (if gather k rem' = gather (i.set n x) rem'
         then X.get k * (sel.map fun d => M d ((i.set n x).getD d 0) (k.getD d 0)).prod else 0)).sum := by
    intro x
    rw [spec_ttm_eq_ite, List.sum_map_mul_left]
  rw [List.map_congr_left (fun x _ => h2 x), sum_comm]
  apply sum_congr
  intro k hk
  have hkb := mem_allSubs.1 hk
  have hkn : k.getD n 0 < X.shape.getD n 0 := hkb.getD_lt hn
  -- products
  have hprod : ∀ x, (sel.map fun d => M d ((i.set n x).getD d 0) (k.getD d 0)).prod =
      (sel.map fun d => M d (i.getD d 0) (k.getD d 0)).prod := by
    intro x
    congr 1
    apply List.map_congr_left
    intro d hd
    rw [getD_set_ne' i n d x (fun h => hns (h ▸ hd))]
  have hprod2 : ((sel ++ [n]).map fun d => M d (i.getD d 0) (k.getD d 0)).prod =
      (sel.map fun d => M d (i.getD d 0) (k.getD d 0)).prod * M n (i.getD n 0) (k.getD n 0) := by
    rw [List.map_append, List.prod_append]; simp
  -- the fiber condition
  have hcond : ∀ x, (gather k rem' = gather (i.set n x) rem') ↔ (gather k rem = gather i rem ∧ x = k.getD n 0) := by
    intro x
    rw [gather_eq_iff_forall, gather_eq_iff_forall]
    constructor
    · intro h
      refine ⟨?_, ?_⟩
      · intro m hm
        obtain ⟨hm1, hm2⟩ := mem_complDims_snoc.1 hm
        rw [h m hm1, getD_set_ne' i n m x (fun e => hm2 e.symm)]
      · rw [h n hnrem', getD_set_eq' i n x (by omega)]
    · rintro ⟨h, rfl⟩ m hm
      by_cases hmn : m = n
      · subst hmn; rw [getD_set_eq' i m _ (by omega)]
      · rw [getD_set_ne' i n m _ (fun e => hmn e.symm)]
        exact h m (mem_complDims_snoc.2 ⟨hm, hmn⟩)
  simp only [← hN, ← hrem, ← hrem']
  by_cases hc : gather k rem = gather i rem
  · rw [if_pos hc, hprod2]
    have := sum_single' (List.range (X.shape.getD n 0)) List.nodup_range (k.getD n 0)
      (fun x => M n (i.getD n 0) x * (X.get k * (sel.map fun d => M d (i.getD d 0) (k.getD d 0)).prod))
      (List.mem_range.2 hkn)
    rw [show X.get k * ((sel.map fun d => M d (i.getD d 0) (k.getD d 0)).prod * M n (i.getD n 0) (k.getD n 0)) =
      M n (i.getD n 0) (k.getD n 0) * (X.get k * (sel.map fun d => M d (i.getD d 0) (k.getD d 0)).prod) by
        rw [mul_comm (List.prod _), ← mul_assoc, mul_comm (X.get k), mul_assoc], ← this]
    apply sum_congr
    intro x _
    rw [hprod x]
    by_cases hx : x = k.getD n 0
    · rw [if_pos hx, if_pos ((hcond x).2 ⟨hc, hx⟩)]
    · rw [if_neg hx, if_neg (fun h => hx ((hcond x).1 h).2), mul_zero]
  · rw [if_neg hc]
    symm
    apply List.sum_eq_zero
    intro v hv
    obtain ⟨x, _, rfl⟩ := List.mem_map.1 hv
    rw [if_neg (fun h => hc ((hcond x).1 h).1), mul_zero]

/-- With nothing selected the product is the operand. -/
theorem spec_ttm_nil [CommSemiring α] (X : Den α) (M : Nat → Nat → Nat → α) (i : List Nat)
    (hi : InBounds X.shape i) : Spec.ttm X [] M i = X.get i := by
  rw [spec_ttm_eq_ite]
  have hrem : complDims X.shape.length [] = List.range X.shape.length := by
    unfold complDims; rw [List.filter_eq_self]; intro k _; rfl
  rw [hrem]
  have := sum_single' (allSubs X.shape) (allSubs_nodup _) i (fun k => X.get k) (mem_allSubs.2 hi)
  rw [← this]
  apply sum_congr
  intro k hk
  have hkl := (mem_allSubs.1 hk).length_eq
  rw [gather_range_of_length hkl, gather_range_of_length hi.length_eq]
  simp

/-- **Dense `ttm` with a list of matrices** (distinct in-range modes, matching sizes):
`Y[i] = Σ_{k = i off sel} X[k] · ∏_{d ∈ sel} M_d[i_d, k_d]`; the extents of the selected modes become
the row counts of the (effective) matrices, the others are kept. -/
theorem dense_ttmList_spec [CommSemiring α] (T : Dense α) (hT : T.WF) (tr : Bool)
    (Mf : Nat → Nat → Nat → α) :
    ∀ (pairs : List (Nat × Dense.MatArg α)), (pairs.map (·.1)).Nodup → (∀ p ∈ pairs, p.1 < T.shape.length) →
      (∀ p ∈ pairs, (if tr then p.2.m else p.2.n) = T.shape.getD p.1 0) →
      (∀ p ∈ pairs, ∀ a b, Mf p.1 a b = if tr then p.2.rows.get b a else p.2.rows.get a b) →
      ∃ Y, T.ttmList pairs tr = .ok Y ∧ Y.WF ∧ Y.shape.length = T.shape.length ∧
        (∀ d, d ∉ pairs.map (·.1) → Y.shape.getD d 0 = T.shape.getD d 0) ∧
        (∀ p ∈ pairs, Y.shape.getD p.1 0 = if tr then p.2.n else p.2.m) ∧
        ∀ i, InBounds Y.shape i → Y.get i = Spec.ttm T.den (pairs.map (·.1)) Mf i := by
  intro pairs
  induction pairs using List.reverseRecOn with
  | nil =>
    intro _ _ _ _
    refine ⟨T, rfl, hT, rfl, fun _ _ => rfl, by simp, ?_⟩
    intro i hi
    exact (spec_ttm_nil T.den _ i hi).symm
  | append_singleton ps p ih =>
    intro hnd hlt hsz hM
    have hnd' : (ps.map (·.1)).Nodup := by
      rw [List.map_append, List.nodup_append] at hnd; exact hnd.1
    have hpn : p.1 ∉ ps.map (·.1) := by
      rw [List.map_append, List.nodup_append] at hnd
      intro h
      exact hnd.2.2 _ h _ (by simp) rfl
    obtain ⟨Y0, e0, w0, l0, k0, r0, g0⟩ := ih hnd' (fun q hq => hlt q (List.mem_append_left _ hq))
      (fun q hq => hsz q (List.mem_append_left _ hq)) (fun q hq => hM q (List.mem_append_left _ hq))
    have hp_mem : p ∈ ps ++ [p] := by simp
    have hn : p.1 < Y0.shape.length := by rw [l0]; exact hlt p hp_mem
    have hsn : Y0.shape.getD p.1 0 = T.shape.getD p.1 0 := k0 p.1 hpn
    obtain ⟨Y, e1, w1, s1, g1⟩ := dense_ttmMode_spec Y0 w0 p.2.rows p.2.m p.2.n p.1 tr hn
      (by rw [hsn]; exact hsz p hp_mem)
    refine ⟨Y, ?_, w1, by rw [s1, List.length_set, l0], ?_, ?_, ?_⟩
    · unfold Dense.ttmList at e0 ⊢
      rw [List.foldlM_append, e0]
      simp only [List.foldlM_cons, List.foldlM_nil]
      show (Y0.ttmMode p.2.rows p.2.m p.2.n p.1 tr >>= pure) = _
      rw [e1]
      rfl
    · intro d hd
      rw [List.map_append, List.mem_append, not_or] at hd
      have hdn : p.1 ≠ d := by
        intro h; apply hd.2; simp [h]
      rw [s1, getD_set_ne' _ _ _ _ hdn, k0 d hd.1]
    · intro q hq
      rcases List.mem_append.1 hq with hq | hq
      · have hqn : p.1 ≠ q.1 := fun h => hpn (h ▸ List.mem_map_of_mem hq)
        rw [s1, getD_set_ne' _ _ _ _ hqn, r0 q hq]
      · have : q = p := by simpa using hq
        subst this
        rw [s1, getD_set_eq' _ _ _ hn]
    · intro i hi
      rw [g1 i hi, List.map_append]
      have hil : i.length = T.shape.length := by rw [hi.length_eq, s1, List.length_set, l0]
      show _ = Spec.ttm T.den (ps.map (·.1) ++ [p.1]) Mf i
      rw [spec_ttm_snoc T.den (ps.map (·.1)) p.1 Mf i (hlt p hp_mem) hpn hil, hsn]
      apply sumRange_congr
      intro x hx
      rw [hM p hp_mem]
      congr 1
      apply g0
      have hi2 : InBounds (Y0.shape.set p.1 (if tr then p.2.n else p.2.m)) i := s1 ▸ hi
      have := inBounds_set hi2 p.1 (Y0.shape.getD p.1 0) x (by rw [hsn]; exact hx)
      rwa [set_set, set_getD_self] at this

end ML
end Pyttb
