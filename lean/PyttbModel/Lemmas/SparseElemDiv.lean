/-
C03: refinement lemmas for `/` of Ops/SparseElem over an abstract division, and the IEEE facts
about division at zero for the extended rationals the driver executes the model at.
-/
import PyttbModel.Lemmas.SparseElemCmp
import PyttbModel.Core.XRat
import Mathlib.Algebra.Group.Defs
namespace Pyttb
open SpElem
variable {α : Type}

section div
variable [AddMonoid α] [Div α] [DecidableEq α]

/-- a tensor that stores `f` on `U₁ ++ U₂`, the second part written as a constant column. -/
theorem tab_append (s : List Nat) (U₁ U₂ : List (List Nat)) (f : List Nat → α) (nan : α)
    (h2 : ∀ r ∈ U₂, f r = nan) :
    (⟨s, U₁ ++ U₂, U₁.map f ++ List.replicate U₂.length nan⟩ : Sparse α)
      = ⟨s, U₁ ++ U₂, (U₁ ++ U₂).map f⟩ := by
  congr 1
  rw [List.map_append]
  congr 1
  rw [← List.map_const']
  apply List.map_congr_left
  intro r hr
  exact (h2 r hr).symm

theorem div_scalar_spec (nan : α) (A : Sparse α) (hA : A.WF) (c : α)
    (h00 : (0 : α) / 0 = nan) (h0c : c ≠ 0 → (0 : α) / c = 0)
    (hnan : nan ≠ 0) (hnz : ∀ x ∈ A.vals, x / c ≠ 0) :
    ∃ R, div nan A (.scalar c) = .ok R ∧ R.WF ∧ R.shape = A.shape ∧
      ∀ i, InBounds A.shape i → R.get i = A.get i / c := by
  unfold div
  have hv : A.vals.map (fun x => x / c) = A.subs.map (fun r => A.get r / c) := by
    rw [Sparse.vals_eq_map_get A hA, List.map_map]; rfl
  have hnz' : ∀ r ∈ A.subs, A.get r / c ≠ 0 := by
    intro r hr
    apply hnz
    rw [Sparse.vals_eq_map_get A hA]
    exact List.mem_map.2 ⟨r, hr, rfl⟩
  by_cases hc : c = 0
  · subst hc
    simp only [beq_self_eq_true, ↓reduceIte, hv]
    rw [tab_append _ _ _ (fun r => A.get r / 0) nan (fun r hr => by
      rw [((mem_zeroSubs A hA r).1 hr).2, h00])]
    have hU : (A.subs ++ zeroSubs A).Nodup := by
      rw [List.nodup_append]
      refine ⟨hA.nodup, zeroSubs_nodup A, ?_⟩
      intro a ha b hb hab
      subst hab
      exact A.get_ne_zero_of_mem hA a ha ((mem_zeroSubs A hA a).1 hb).2
    refine ⟨_, rfl, wf_tab _ _ _ hU ?_ ?_, rfl, fun i hi => ?_⟩
    · intro u hu
      rcases List.mem_append.1 hu with h | h
      · exact hA.inb u h
      · exact ((mem_zeroSubs A hA u).1 h).1
    · intro u hu
      rcases List.mem_append.1 hu with h | h
      · exact hnz' u h
      · rw [((mem_zeroSubs A hA u).1 h).2, h00]; exact hnan
    · rw [get_tab _ _ _ hU]
      have : i ∈ A.subs ++ zeroSubs A := by
        by_cases ha : i ∈ A.subs
        · exact List.mem_append_left _ ha
        · exact List.mem_append_right _ ((mem_zeroSubs A hA i).2 ⟨hi, A.get_of_not_mem i ha⟩)
      simp [this]
  · have hcb : (c == 0) = false := by simpa using hc
    simp only [hcb, Bool.false_eq_true, ↓reduceIte, hv]
    refine ⟨_, rfl, wf_tab _ _ _ hA.nodup hA.inb hnz', rfl, fun i _ => ?_⟩
    rw [get_tab _ _ _ hA.nodup]
    split
    · rfl
    · next h => rw [A.get_of_not_mem i h, h0c hc]

theorem divSp_eq (nan : α) (A B : Sparse α) (hA : A.WF) (hB : B.WF) (hs : A.shape = B.shape) :
    divSp nan A B = .ok ⟨A.shape, A.subs ++ (zeroSubs A).filter (fun r => !B.subs.contains r),
      A.subs.map (fun r => A.get r / B.get r) ++
        List.replicate ((zeroSubs A).filter (fun r => !B.subs.contains r)).length nan⟩ := by
  unfold divSp
  rw [extract_eq B hB A.subs (fun r hr => hs ▸ hA.inb r hr), diffRows_eq _ _ (zeroSubs_nodup A)]
  by_cases hn : A.nnz > 0
  · simp only [hn, ↓reduceIte]
    rw [Sparse.vals_eq_map_get A hA, zipWith_map_map]
  · have h0 : A.subs = [] := by
      simp only [Sparse.nnz, gt_iff_lt, Nat.not_lt, Nat.le_zero, List.length_eq_zero_iff] at hn
      exact hn
    simp [hn, h0]

theorem divSp_spec (nan : α) (A B : Sparse α) (hA : A.WF) (hB : B.WF) (hs : A.shape = B.shape)
    (h00 : (0 : α) / 0 = nan) (h0y : ∀ y ∈ B.vals, (0 : α) / y = 0)
    (hnan : nan ≠ 0) (hnz : ∀ x ∈ A.vals, ∀ y, (y ∈ B.vals ∨ y = 0) → x / y ≠ 0) :
    ∃ R, divSp nan A B = .ok R ∧ R.WF ∧ R.shape = A.shape ∧
      ∀ i, InBounds A.shape i → R.get i = A.get i / B.get i := by
  have hBv : ∀ r, r ∈ B.subs → B.get r ∈ B.vals := by
    intro r hr
    rw [Sparse.vals_eq_map_get B hB]
    exact List.mem_map.2 ⟨r, hr, rfl⟩
  have hAv : ∀ r, r ∈ A.subs → A.get r ∈ A.vals := by
    intro r hr
    rw [Sparse.vals_eq_map_get A hA]
    exact List.mem_map.2 ⟨r, hr, rfl⟩
  rw [divSp_eq nan A B hA hB hs]
  have hmemz : ∀ r, r ∈ (zeroSubs A).filter (fun r => !B.subs.contains r) ↔
      InBounds A.shape r ∧ A.get r = 0 ∧ B.get r = 0 := by
    intro r
    simp only [List.mem_filter, mem_zeroSubs A hA, Bool.not_eq_true', List.contains_eq_mem,
      decide_eq_false_iff_not]
    constructor
    · rintro ⟨⟨hi, ha⟩, hb⟩; exact ⟨hi, ha, B.get_of_not_mem r hb⟩
    · rintro ⟨hi, ha, hb⟩
      exact ⟨⟨hi, ha⟩, fun h => B.get_ne_zero_of_mem hB r h hb⟩
  rw [tab_append _ _ _ (fun r => A.get r / B.get r) nan (fun r hr => by
    obtain ⟨_, ha, hb⟩ := (hmemz r).1 hr
    rw [ha, hb, h00])]
  have hU : (A.subs ++ (zeroSubs A).filter (fun r => !B.subs.contains r)).Nodup := by
    rw [List.nodup_append]
    refine ⟨hA.nodup, List.Nodup.filter _ (zeroSubs_nodup A), ?_⟩
    intro a ha b hb hab
    subst hab
    exact A.get_ne_zero_of_mem hA a ha ((hmemz a).1 hb).2.1
  refine ⟨_, rfl, wf_tab _ _ _ hU ?_ ?_, rfl, fun i hi => ?_⟩
  · intro u hu
    rcases List.mem_append.1 hu with h | h
    · exact hA.inb u h
    · exact ((hmemz u).1 h).1
  · intro u hu
    rcases List.mem_append.1 hu with h | h
    · apply hnz _ (hAv u h)
      by_cases hb : u ∈ B.subs
      · left; exact hBv u hb
      · right; exact B.get_of_not_mem u hb
    · obtain ⟨_, ha, hb⟩ := (hmemz u).1 h
      rw [ha, hb, h00]; exact hnan
  · rw [get_tab _ _ _ hU]
    split
    · rfl
    · next h =>
      rw [List.mem_append, not_or] at h
      have ha : A.get i = 0 := A.get_of_not_mem i h.1
      have hb : i ∈ B.subs := by
        by_contra hb
        exact h.2 ((hmemz i).2 ⟨hi, ha, B.get_of_not_mem i hb⟩)
      rw [ha, h0y _ (hBv i hb)]

theorem div_sparse_spec (nan : α) (A B : Sparse α) (hA : A.WF) (hB : B.WF) (hs : A.shape = B.shape)
    (h00 : (0 : α) / 0 = nan) (h0y : ∀ y ∈ B.vals, (0 : α) / y = 0)
    (hnan : nan ≠ 0) (hnz : ∀ x ∈ A.vals, ∀ y, (y ∈ B.vals ∨ y = 0) → x / y ≠ 0) :
    ∃ R, div nan A (.sparse B) = .ok R ∧ R.WF ∧ R.shape = A.shape ∧
      ∀ i, InBounds A.shape i → R.get i = A.get i / B.get i := by
  obtain ⟨R, e, w, sh, g⟩ := divSp_spec nan A B hA hB hs h00 h0y hnan hnz
  refine ⟨R, ?_, w, sh, g⟩
  unfold div
  simp only [hs, bne_self_eq_false, Bool.false_eq_true, ↓reduceIte]
  exact e

theorem div_dense_spec (nan : α) (A : Sparse α) (hA : A.WF) (D : Dense α) (hD : D.WF) (hs : A.shape = D.shape)
    (h00 : (0 : α) / 0 = nan) (h0y : ∀ y ∈ D.data, y ≠ 0 → (0 : α) / y = 0)
    (hnan : nan ≠ 0) (hnz : ∀ x ∈ A.vals, ∀ y, (y ∈ D.data ∨ y = 0) → x / y ≠ 0) :
    ∃ R, div nan A (.dense D) = .ok R ∧ R.WF ∧ R.shape = A.shape ∧
      ∀ i, InBounds A.shape i → R.get i = A.get i / D.get i := by
  obtain ⟨tw, tsh⟩ := toSparse_wf D hD
  have hsub : ∀ y ∈ D.toSparse.vals, y ∈ D.data ∧ y ≠ 0 := by
    intro y hy
    refine ⟨?_, by simpa using tw.nz y hy⟩
    rw [toSparse_eq] at hy
    simp only [List.mem_map] at hy
    obtain ⟨k, hk, rfl⟩ := hy
    have hk' := ((mem_nzIdx D k).1 hk).1
    rw [List.getD_eq_getElem?_getD, List.getElem?_eq_getElem hk']
    simp
  obtain ⟨R, e, w, sh, g⟩ := divSp_spec nan A D.toSparse hA tw (hs.trans tsh.symm) h00
    (fun y hy => h0y y (hsub y hy).1 (hsub y hy).2) hnan
    (fun x hx y hy => hnz x hx y (hy.elim (fun h => Or.inl (hsub y h).1) Or.inr))
  refine ⟨R, ?_, w, sh, fun i hi => ?_⟩
  · unfold div
    simp only [hs, bne_self_eq_false, Bool.false_eq_true, ↓reduceIte]
    exact e
  · rw [g i hi, toSparse_get D hD i (hs ▸ hi)]

theorem rdiv_spec (c : α) (A : Sparse α) (hA : A.WF) :
    (rdiv c A).WF ∧ (rdiv c A).shape = A.shape ∧ ∀ i, InBounds A.shape i → (rdiv c A).get i = c / A.get i := by
  refine ⟨mapData_wf _ _ (full_wf A), rfl, fun i hi => ?_⟩
  obtain ⟨g, sh, w⟩ := sp_full_at A hA i hi
  unfold rdiv
  rw [mapData_get _ _ w (by rw [sh]; exact hi), g]

end div

/-! ### the extended rationals -/

namespace XRat

theorem zero_def : (0 : XRat) = .fin 0 := rfl

theorem add_def (a b : XRat) : a + b = XRat.add a b := rfl
theorem div_def (a b : XRat) : a / b = XRat.div a b := rfl

instance : AddCommMonoid XRat where
  add_assoc a b c := by
    cases a <;> cases b <;> cases c <;> simp [add_def, XRat.add, Rat.add_assoc]
  zero_add a := by cases a <;> simp [add_def, zero_def, XRat.add]
  add_zero a := by cases a <;> simp [add_def, zero_def, XRat.add]
  add_comm a b := by cases a <;> cases b <;> simp [add_def, XRat.add, Rat.add_comm]
  nsmul := nsmulRec

/-- IEEE: `0/0` is NaN. -/
theorem zero_div_zero : (0 : XRat) / 0 = .nan := by simp [div_def, zero_def, XRat.div]

/-- IEEE: a finite non-zero number divided by zero is the infinity of its sign. -/
theorem fin_div_zero (q : Rat) (hq : q ≠ 0) : (.fin q : XRat) / 0 = if q < 0 then .ninf else .pinf := by
  simp [div_def, zero_def, XRat.div, hq, infOfSign]

/-- zero divided by a finite non-zero number is zero. -/
theorem zero_div_fin (q : Rat) (hq : q ≠ 0) : (0 : XRat) / .fin q = 0 := by
  simp [div_def, zero_def, XRat.div, hq]

/-- a finite non-zero number divided by a finite number (zero included) is not zero. -/
theorem fin_div_fin_ne_zero (p q : Rat) (hp : p ≠ 0) : (.fin p : XRat) / .fin q ≠ 0 := by
  by_cases hq : q = 0
  · subst hq
    have := fin_div_zero p hp
    rw [zero_def] at this
    rw [this]
    split <;> simp [zero_def]
  · simp only [div_def, XRat.div, beq_iff_eq, hq, ↓reduceIte, zero_def, ne_eq, fin.injEq]
    exact div_ne_zero hp hq

theorem nan_ne_zero : (XRat.nan : XRat) ≠ 0 := by simp [zero_def]

end XRat

/-- `S / S2` at the extended rationals with finite stored values: no hypothesis is left. -/
theorem div_sparse_xrat (A B : Sparse XRat) (hA : A.WF) (hB : B.WF) (hs : A.shape = B.shape)
    (hfa : ∀ x ∈ A.vals, ∃ q : Rat, x = .fin q) (hfb : ∀ y ∈ B.vals, ∃ q : Rat, y = .fin q) :
    ∃ R, div .nan A (.sparse B) = .ok R ∧ R.WF ∧ R.shape = A.shape ∧
      ∀ i, InBounds A.shape i → R.get i = A.get i / B.get i := by
  refine div_sparse_spec .nan A B hA hB hs XRat.zero_div_zero ?_ XRat.nan_ne_zero ?_
  · intro y hy
    obtain ⟨q, rfl⟩ := hfb y hy
    have : q ≠ 0 := fun h => by
      have := hB.nz _ hy
      rw [h] at this
      exact (by simpa using this : ¬ XRat.fin 0 = 0) XRat.zero_def.symm
    exact XRat.zero_div_fin q this
  · intro x hx y hy
    obtain ⟨p, rfl⟩ := hfa x hx
    have hp : p ≠ 0 := fun h => by
      have := hA.nz _ hx
      rw [h] at this
      exact (by simpa using this : ¬ XRat.fin 0 = 0) XRat.zero_def.symm
    rcases hy with hy | hy
    · obtain ⟨q, rfl⟩ := hfb y hy
      exact XRat.fin_div_fin_ne_zero p q hp
    · rw [hy]; exact XRat.fin_div_fin_ne_zero p 0 hp

end Pyttb
