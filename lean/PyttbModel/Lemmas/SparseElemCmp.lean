/-
C03: refinement lemmas for the order comparisons `<  <=  >  >=` (`_compare`) of Ops/SparseElem.
The sparse code hard-wires four facts about the comparison at zero; they are hypotheses of the
generic lemmas and are proved for the four operators over any linear order.
-/
import PyttbModel.Lemmas.SparseElemNe
import Mathlib.Order.Defs.LinearOrder
import Mathlib.Order.Basic
namespace Pyttb
open SpElem
variable {α : Type}

section cmp
variable [AddMonoid α] [One α] [DecidableEq α]

theorem compare_scalar_spec (op opp : α → α → Bool) (iz : Bool) (A : Sparse α) (hA : A.WF) (c : α)
    (h1 : (1 : α) ≠ 0) (H1 : ∀ c, op 0 c = opp c 0) :
    ∃ R, SpElem.compare op opp iz A (.scalar c) = .ok R ∧ R.WF ∧ R.shape = A.shape ∧
      ∀ i, InBounds A.shape i → R.get i = if op (A.get i) c = true then 1 else 0 := by
  unfold SpElem.compare
  have hs1 : (if A.nnz > 0 then maskSel (A.vals.map (fun v => op v c)) A.subs else [])
      = A.subs.filter (fun r => op (A.get r) c) := by
    split
    · rw [Sparse.vals_eq_map_get A hA, List.map_map, maskSel_map]; rfl
    · next h =>
      simp only [Sparse.nnz, gt_iff_lt, Nat.not_lt, Nat.le_zero, List.length_eq_zero_iff] at h
      simp [h]
  simp only [hs1]
  split
  · next ho =>
    refine ⟨_, rfl, ofSubs_char _ _ ?_ h1 (fun i => op (A.get i) c = true) (fun i => ?_)⟩
    · rw [List.nodup_append]
      refine ⟨List.Nodup.filter _ hA.nodup, zeroSubs_nodup A, ?_⟩
      intro a ha b hb hab
      subst hab
      exact A.get_ne_zero_of_mem hA a (List.mem_filter.1 ha).1 ((mem_zeroSubs A hA a).1 hb).2
    · simp only [List.mem_append, List.mem_filter, mem_zeroSubs A hA]
      constructor
      · rintro (⟨h, e⟩ | ⟨hi, e⟩)
        · exact ⟨hA.inb i h, e⟩
        · exact ⟨hi, by rw [e, H1, ho]⟩
      · rintro ⟨hi, e⟩
        by_cases ha : i ∈ A.subs
        · left; exact ⟨ha, e⟩
        · right; exact ⟨hi, A.get_of_not_mem i ha⟩
  · next ho =>
    refine ⟨_, rfl, ofSubs_char _ _ (List.Nodup.filter _ hA.nodup) h1 (fun i => op (A.get i) c = true)
      (fun i => ?_)⟩
    simp only [List.mem_filter]
    constructor
    · rintro ⟨h, e⟩; exact ⟨hA.inb i h, e⟩
    · rintro ⟨_, e⟩
      refine ⟨?_, e⟩
      by_contra hn
      rw [A.get_of_not_mem i hn, H1] at e
      exact ho e

theorem compare_dense_spec (op opp : α → α → Bool) (iz : Bool) (A : Sparse α) (hA : A.WF) (D : Dense α)
    (hD : D.WF) (hs : A.shape = D.shape) (h1 : (1 : α) ≠ 0) (H1 : ∀ c, op 0 c = opp c 0) :
    ∃ R, SpElem.compare op opp iz A (.dense D) = .ok R ∧ R.WF ∧ R.shape = A.shape ∧
      ∀ i, InBounds A.shape i → R.get i = if op (A.get i) (D.get i) = true then 1 else 0 := by
  unfold SpElem.compare
  simp only [hs, bne_self_eq_false, Bool.false_eq_true, ↓reduceIte]
  have hs2 : (if A.nnz > 0 then maskSel (List.zipWith op A.vals (A.subs.map D.get)) A.subs else [])
      = A.subs.filter (fun r => op (A.get r) (D.get r)) := by
    split
    · rw [Sparse.vals_eq_map_get A hA, zipWith_map_map, maskSel_map]
    · next h =>
      simp only [Sparse.nnz, gt_iff_lt, Nat.not_lt, Nat.le_zero, List.length_eq_zero_iff] at h
      simp [h]
  rw [hs2, diffRows_eq _ _ (findWhere_nodup _ D hD)]
  refine ⟨_, rfl, ?_⟩
  rw [← hs]
  apply ofSubs_char _ _ _ h1 (fun i => op (A.get i) (D.get i) = true)
  · intro i
    simp only [List.mem_append, List.mem_filter, mem_findWhere _ D hD, Bool.not_eq_true',
      List.contains_eq_mem, decide_eq_false_iff_not, ← hs]
    constructor
    · rintro (⟨⟨hi, e⟩, ha⟩ | ⟨ha, e⟩)
      · exact ⟨hi, by rw [A.get_of_not_mem i ha, H1, e]⟩
      · exact ⟨hA.inb i ha, e⟩
    · rintro ⟨hi, e⟩
      by_cases ha : i ∈ A.subs
      · right; exact ⟨ha, e⟩
      · left
        rw [A.get_of_not_mem i ha, H1] at e
        exact ⟨⟨hi, e⟩, ha⟩
  · rw [List.nodup_append]
    refine ⟨List.Nodup.filter _ (findWhere_nodup _ D hD), List.Nodup.filter _ hA.nodup, ?_⟩
    intro a ha b hb hab
    subst hab
    have h2 := (List.mem_filter.1 ha).2
    have h3 := (List.mem_filter.1 hb).1
    simp [h3] at h2

/-- a masked selection guarded by the code's emptiness tests is a plain filter. -/
theorem guarded_filter (n : Nat) (d : List (List Nat)) (m : List (List Nat) → List Bool) (p : List Nat → Bool)
    (hm : maskSel (m d) d = d.filter p) (hn : n = 0 → d = []) :
    (if n > 0 then (if d.length > 0 then maskSel (m d) d else d) else []) = d.filter p := by
  split
  · split
    · exact hm
    · next h =>
      simp only [gt_iff_lt, Nat.not_lt, Nat.le_zero, List.length_eq_zero_iff] at h
      simp [h]
  · next h =>
    have : n = 0 := by omega
    simp [hn this]

theorem compare_sparse_spec (op opp : α → α → Bool) (iz : Bool) (A B : Sparse α) (hA : A.WF) (hB : B.WF)
    (hs : A.shape = B.shape) (h1 : (1 : α) ≠ 0)
    (H2 : ∀ a, a ≠ 0 → op a 0 = !opp a 0) (H3 : ∀ b, b ≠ 0 → op 0 b = !op b 0) (H4 : op 0 0 = iz) :
    ∃ R, SpElem.compare op opp iz A (.sparse B) = .ok R ∧ R.WF ∧ R.shape = A.shape ∧
      ∀ i, InBounds A.shape i → R.get i = if op (A.get i) (B.get i) = true then 1 else 0 := by
  unfold SpElem.compare
  simp only [hs, bne_self_eq_false, Bool.false_eq_true, ↓reduceIte]
  have e1 : (if A.nnz > 0 then
        (if (diffRows A.subs B.subs).length > 0 then
          maskSel ((extractD A (diffRows A.subs B.subs)).map (fun v => !(opp v 0))) (diffRows A.subs B.subs)
         else diffRows A.subs B.subs) else [])
      = (A.subs.filter (fun r => !B.subs.contains r)).filter (fun r => !(opp (A.get r) 0)) := by
    rw [← diffRows_eq _ _ hA.nodup]
    apply guarded_filter A.nnz (diffRows A.subs B.subs)
      (fun d => (extractD A d).map (fun v => !(opp v 0))) (fun r => !(opp (A.get r) 0))
    · rw [extractD_eq A hA, List.map_map, maskSel_map]; rfl
    · intro h
      simp only [Sparse.nnz, List.length_eq_zero_iff] at h
      rw [diffRows_eq _ _ hA.nodup, h]; rfl
  have e2 : (if B.nnz > 0 then
        (if (diffRows B.subs A.subs).length > 0 then
          maskSel ((extractD B (diffRows B.subs A.subs)).map (fun v => !(op v 0))) (diffRows B.subs A.subs)
         else diffRows B.subs A.subs) else [])
      = (B.subs.filter (fun r => !A.subs.contains r)).filter (fun r => !(op (B.get r) 0)) := by
    rw [← diffRows_eq _ _ hB.nodup]
    apply guarded_filter B.nnz (diffRows B.subs A.subs)
      (fun d => (extractD B d).map (fun v => !(op v 0))) (fun r => !(op (B.get r) 0))
    · rw [extractD_eq B hB, List.map_map, maskSel_map]; rfl
    · intro h
      simp only [Sparse.nnz, List.length_eq_zero_iff] at h
      rw [diffRows_eq _ _ hB.nodup, h]; rfl
  have e3 : (if A.nnz > 0 then
        (if (interRows A.subs B.subs).length > 0 then
          maskSel (List.zipWith op (extractD A (interRows A.subs B.subs)) (extractD B (interRows A.subs B.subs)))
            (interRows A.subs B.subs)
         else interRows A.subs B.subs) else [])
      = (B.subs.filter (fun r => A.subs.contains r)).filter (fun r => op (A.get r) (B.get r)) := by
    rw [← interRows_eq _ _ hB.nodup]
    apply guarded_filter A.nnz (interRows A.subs B.subs)
      (fun d => List.zipWith op (extractD A d) (extractD B d)) (fun r => op (A.get r) (B.get r))
    · rw [extractD_eq A hA, extractD_eq B hB, zipWith_map_map, maskSel_map]
    · intro h
      simp only [Sparse.nnz, List.length_eq_zero_iff] at h
      rw [interRows_eq _ _ hB.nodup, h]; simp
  have e4 : interRows (zeroSubs A) (zeroSubs B) = (zeroSubs B).filter (fun r => (zeroSubs A).contains r) :=
    interRows_eq _ _ (zeroSubs_nodup B)
  rw [e1, e2, e3, e4]
  -- the three groups are duplicate-free and pairwise disjoint
  have n1 := List.Nodup.filter (fun r => !(opp (A.get r) 0)) (List.Nodup.filter (fun r => !B.subs.contains r) hA.nodup)
  have n2 := List.Nodup.filter (fun r => !(op (B.get r) 0)) (List.Nodup.filter (fun r => !A.subs.contains r) hB.nodup)
  have n3 := List.Nodup.filter (fun r => op (A.get r) (B.get r)) (List.Nodup.filter (fun r => A.subs.contains r) hB.nodup)
  have n4 := List.Nodup.filter (fun r => (zeroSubs A).contains r) (zeroSubs_nodup B)
  have n123 : ((A.subs.filter (fun r => !B.subs.contains r)).filter (fun r => !(opp (A.get r) 0)) ++
      (B.subs.filter (fun r => !A.subs.contains r)).filter (fun r => !(op (B.get r) 0)) ++
      (B.subs.filter (fun r => A.subs.contains r)).filter (fun r => op (A.get r) (B.get r))).Nodup := by
    rw [List.nodup_append, List.nodup_append]
    refine ⟨⟨n1, n2, ?_⟩, n3, ?_⟩
    · intro a ha b hb hab
      subst hab
      have x1 := (List.mem_filter.1 (List.mem_filter.1 ha).1)
      have x2 := (List.mem_filter.1 (List.mem_filter.1 hb).1)
      simp [x1.1] at x2
    · intro a ha b hb hab
      subst hab
      have x3 := (List.mem_filter.1 (List.mem_filter.1 hb).1)
      rcases List.mem_append.1 ha with h | h
      · have x1 := (List.mem_filter.1 (List.mem_filter.1 h).1)
        simp [x3.1] at x1
      · have x2 := (List.mem_filter.1 (List.mem_filter.1 h).1)
        simp at x2 x3
        exact x2.2 x3.2
  have hmem123 : ∀ i, (i ∈ (A.subs.filter (fun r => !B.subs.contains r)).filter (fun r => !(opp (A.get r) 0)) ++
      (B.subs.filter (fun r => !A.subs.contains r)).filter (fun r => !(op (B.get r) 0)) ++
      (B.subs.filter (fun r => A.subs.contains r)).filter (fun r => op (A.get r) (B.get r)))
      ↔ (i ∈ A.subs ∨ i ∈ B.subs) ∧ op (A.get i) (B.get i) = true := by
    intro i
    simp only [List.mem_append, List.mem_filter, Bool.not_eq_true', List.contains_eq_mem,
      decide_eq_false_iff_not, decide_eq_true_eq]
    by_cases ha : i ∈ A.subs <;> by_cases hb : i ∈ B.subs
    · simp [ha, hb]
    · simp [ha, hb, B.get_of_not_mem i hb, H2 _ (A.get_ne_zero_of_mem hA i ha)]
    · simp [ha, hb, A.get_of_not_mem i ha, H3 _ (B.get_ne_zero_of_mem hB i hb)]
    · simp [ha, hb]
  cases iz with
  | false =>
    simp only [Bool.false_eq_true, ↓reduceIte]
    refine ⟨_, rfl, ?_⟩
    rw [← hs]
    apply ofSubs_char _ _ n123 h1 (fun i => op (A.get i) (B.get i) = true)
    intro i
    rw [hmem123]
    constructor
    · rintro ⟨h, e⟩
      refine ⟨?_, e⟩
      rcases h with h | h
      · exact hA.inb i h
      · rw [hs]; exact hB.inb i h
    · rintro ⟨_, e⟩
      refine ⟨?_, e⟩
      by_contra hn
      rw [not_or] at hn
      rw [A.get_of_not_mem i hn.1, B.get_of_not_mem i hn.2, H4] at e
      exact Bool.false_ne_true e
  | true =>
    simp only [↓reduceIte]
    refine ⟨_, rfl, ?_⟩
    rw [← hs]
    apply ofSubs_char _ _ _ h1 (fun i => op (A.get i) (B.get i) = true)
    · intro i
      rw [List.mem_append, hmem123]
      simp only [List.mem_filter, List.contains_eq_mem, decide_eq_true_eq, mem_zeroSubs A hA,
        mem_zeroSubs B hB, ← hs]
      constructor
      · rintro (⟨h, e⟩ | ⟨⟨hi, hb⟩, _, ha⟩)
        · refine ⟨?_, e⟩
          rcases h with h | h
          · exact hA.inb i h
          · rw [hs]; exact hB.inb i h
        · exact ⟨hi, by rw [ha, hb, H4]⟩
      · rintro ⟨hi, e⟩
        by_cases hab : i ∈ A.subs ∨ i ∈ B.subs
        · left; exact ⟨hab, e⟩
        · right
          rw [not_or] at hab
          exact ⟨⟨hi, B.get_of_not_mem i hab.2⟩, hi, A.get_of_not_mem i hab.1⟩
    · rw [List.nodup_append]
      refine ⟨n123, n4, ?_⟩
      intro a ha b hb hab
      subst hab
      have hz := (List.mem_filter.1 hb)
      simp only [List.contains_eq_mem, decide_eq_true_eq, mem_zeroSubs A hA, mem_zeroSubs B hB] at hz
      rcases ((hmem123 a).1 ha).1 with h | h
      · exact A.get_ne_zero_of_mem hA a h hz.2.2
      · exact B.get_ne_zero_of_mem hB a h hz.1.2

end cmp

/-! ### the four operators over a linear order -/

section order
variable [AddMonoid α] [One α] [LinearOrder α]

theorem lt_zero_facts :
    (∀ c : α, decide ((0 : α) < c) = decide ((0 : α) < c)) ∧
    (∀ a : α, a ≠ 0 → decide (a < 0) = !decide ((0 : α) < a)) ∧
    (∀ b : α, b ≠ 0 → decide ((0 : α) < b) = !decide (b < 0)) ∧
    decide ((0 : α) < 0) = false := by
  refine ⟨fun _ => rfl, fun a ha => ?_, fun b hb => ?_, by simp⟩
  · rcases lt_or_gt_of_ne ha with h | h
    · simp [h, lt_asymm h]
    · simp [h, lt_asymm h]
  · rcases lt_or_gt_of_ne hb with h | h
    · simp [h, lt_asymm h]
    · simp [h, lt_asymm h]

theorem le_zero_facts :
    (∀ a : α, a ≠ 0 → decide (a ≤ 0) = !decide ((0 : α) ≤ a)) ∧
    (∀ b : α, b ≠ 0 → decide ((0 : α) ≤ b) = !decide (b ≤ 0)) ∧
    decide ((0 : α) ≤ 0) = true := by
  refine ⟨fun a ha => ?_, fun b hb => ?_, by simp⟩
  · rcases lt_or_gt_of_ne ha with h | h
    · simp [h.le, not_le.2 h]
    · simp [h.le, not_le.2 h]
  · rcases lt_or_gt_of_ne hb with h | h
    · simp [h.le, not_le.2 h]
    · simp [h.le, not_le.2 h]

end order

end Pyttb
