/-
Lemmas for C11 (CP-APR), part 9: the majorisation lemma applied to the model's row functions
(`rowNegLL`, `rowPhi`, the multiplicative step `lsFallback`).
-/
import PyttbModel.Lemmas.CpAprMajorise
import PyttbModel.Lemmas.CpAprDenote
set_option linter.unusedSectionVars false
set_option linter.unusedVariables false
namespace Pyttb.CpApr
open Pyttb.CpApr.Gen Finset

variable {α : Type} [Field α] [LinearOrder α] [IsStrictOrderedRing α]

theorem sumOver_eq_finset (n : ℕ) (f : ℕ → α) : sumOver n f = ∑ i ∈ range n, f i := by
  unfold sumOver
  induction n with
  | zero => simp
  | succ n ih => rw [List.range_succ, List.map_append, List.sum_append, ih, Finset.sum_range_succ]; simp

variable (log : α → α)

theorem llTermDense_eq (x m : α) :
    llTermDense (NumOps.ofField log).log (NumOps.ofField log).isZero x m = x * log m := by
  unfold llTermDense NumOps.ofField
  simp only [decide_eq_true_eq]
  split
  · next h => rw [h, zero_mul]
  · rfl

/-- The row objective as a plain formula: `Σ_r m_r − Σ_j x_j log v_j`. -/
theorem rowNegLL_eq (sparse : Bool) (x : List α) (Pi : Mat α) (m : List α) (R : ℕ) :
    rowNegLL (NumOps.ofField log) sparse x Pi m R =
      (∑ r ∈ range R, vget m r) - ∑ j ∈ range Pi.length, vget x j * log (rowV Pi m R j) := by
  unfold rowNegLL
  simp only [sumOver_eq_finset]
  have e : ∀ j, (if sparse = true then llTermSparse (NumOps.ofField log).log (vget x j) (rowV Pi m R j)
      else llTermDense (NumOps.ofField log).log (NumOps.ofField log).isZero (vget x j) (rowV Pi m R j)) =
      vget x j * log (rowV Pi m R j) := by
    intro j
    split
    · rfl
    · exact llTermDense_eq log _ _
  simp only [e]
  ring

/-- One multiplicative step `m ↦ m ⊙ phi_row` (an MU inner update of one row of the factor; the
fall-back of the line search before its projection) does not increase the negative row
log-likelihood, when `epsDivZero` is not active (`eps ≤ v_j`, `0 < v_j` for all data columns). -/
theorem mu_step_not_worse
    (hL1 : ∀ t, 0 < t → log t ≤ t - 1)
    (hL2 : ∀ s t, 0 < s → 0 < t → log (s * t) = log s + log t)
    (eps : α) (sparse : Bool) (x : List α) (Pi : Mat α) (m : List α) (R : ℕ)
    (hm : NonnegL m) (hPi : NonnegM Pi) (hx : NonnegL x)
    (hv : ∀ j < Pi.length, eps ≤ rowV Pi m R j ∧ 0 < rowV Pi m R j) :
    rowNegLL (NumOps.ofField log) sparse x Pi
      ((List.range R).map fun k =>
        lsFallback (vget m k) (vget (rowPhi (NumOps.ofField log) eps x Pi m R) k)) R ≤
    rowNegLL (NumOps.ofField log) sparse x Pi m R := by
  rw [rowNegLL_eq, rowNegLL_eq]
  -- the quantities of the abstract lemma
  have hphi : ∀ r < R, vget (rowPhi (NumOps.ofField log) eps x Pi m R) r =
      ∑ j ∈ range Pi.length, vget x j / rowV Pi m R j * Pi.get j r := by
    intro r hr
    unfold rowPhi
    rw [vget_map_range hr, sumOver_eq_finset]
    apply Finset.sum_congr rfl
    intro j hj
    rw [maximum_eq_max, max_eq_left (hv j (mem_range.mp hj)).1]
  have hnew : ∀ r < R, vget ((List.range R).map fun k =>
      lsFallback (vget m k) (vget (rowPhi (NumOps.ofField log) eps x Pi m R) k)) r =
      vget m r * ∑ j ∈ range Pi.length, vget x j / rowV Pi m R j * Pi.get j r := by
    intro r hr
    rw [vget_map_range hr]
    unfold lsFallback
    rw [hphi r hr]
  have hsum1 : ∑ r ∈ range R, vget ((List.range R).map fun k =>
      lsFallback (vget m k) (vget (rowPhi (NumOps.ofField log) eps x Pi m R) k)) r =
      ∑ r ∈ range R, vget m r * ∑ j ∈ range Pi.length, vget x j / rowV Pi m R j * Pi.get j r :=
    Finset.sum_congr rfl fun r hr => hnew r (mem_range.mp hr)
  have hv' : ∀ j, rowV Pi ((List.range R).map fun k =>
      lsFallback (vget m k) (vget (rowPhi (NumOps.ofField log) eps x Pi m R) k)) R j =
      ∑ r ∈ range R, vget m r * (∑ i ∈ range Pi.length, vget x i / rowV Pi m R i * Pi.get i r) * Pi.get j r := by
    intro j
    unfold rowV
    rw [sumOver_eq_finset]
    apply Finset.sum_congr rfl
    intro r hr
    rw [hnew r (mem_range.mp hr)]
    rfl
  rw [hsum1]
  simp only [hv']
  exact mu_majorise log hL1 hL2 R Pi.length (fun r => vget m r) (fun j r => Pi.get j r) (fun j => vget x j)
    (fun r => vget_nonneg hm r) (fun j r => get_nonneg hPi j r) (fun j => vget_nonneg hx j)
    (fun j => rowV Pi m R j) (fun j => by unfold rowV; rw [sumOver_eq_finset])
    (fun j hj => (hv j hj).2)
    (fun r => ∑ j ∈ range Pi.length, vget x j / rowV Pi m R j * Pi.get j r) (fun r => rfl)
    (fun j => ∑ r ∈ range R, vget m r * (∑ i ∈ range Pi.length, vget x i / rowV Pi m R i * Pi.get i r) * Pi.get j r)
    (fun j => rfl)

end Pyttb.CpApr
