/-
C01, second batch: what the converted objects report (`tshape`, `rindices` / `cindices`, matrix
shape, `shape` / `ndims` properties, `nnz`), the `tenmat` constructor, and `ktensor.to_tenmat`.
-/
import PyttbModel.Lemmas.ConvertChain
namespace Pyttb
variable {α : Type}

/-! ### nonzero counts -/

section nnz
variable [AddMonoid α] [DecidableEq α]

/-- a well-formed sparse tensor stores exactly the subscripts at which it is non-zero. -/
theorem Sparse.mem_subs_iff_c01 (S : Sparse α) (hS : S.WF) (i : List Nat) :
    i ∈ S.subs ↔ InBounds S.shape i ∧ S.get i ≠ 0 := by
  constructor
  · intro h
    exact ⟨hS.inb i h, by
      have hk := S.entries_keys hS.len
      have hn : (S.entries.map (·.1)).Nodup := by rw [hk]; exact hS.nodup
      rw [← hk] at h
      obtain ⟨e, he, rfl⟩ := List.mem_map.1 h
      rw [Sparse.get_eq_kvSum, kvSum_of_mem _ e.1 e.2 hn he]
      have := hS.nz e.2 (List.of_mem_zip (a := e.1) (b := e.2) he).2
      simpa using this⟩
  · rintro ⟨_, h⟩
    by_contra hn
    exact h (S.get_of_not_mem i hn)

/-- **`nnz` of a well-formed sparse tensor** is the number of cells at which the denoted array is
non-zero. -/
theorem Sparse.nnz_eq_count (S : Sparse α) (hS : S.WF) :
    S.nnz = ((allSubs S.shape).filter (fun i => !(S.get i == 0))).length := by
  unfold Sparse.nnz
  apply List.Perm.length_eq
  rw [List.perm_ext_iff_of_nodup hS.nodup ((ML.allSubs_nodup _).filter _)]
  intro i
  rw [Sparse.mem_subs_iff_c01 S hS, List.mem_filter, mem_allSubs]
  simp

/-- two well-formed sparse tensors of one shape that denote the same array store equally many
entries. -/
theorem Sparse.nnz_congr (A B : Sparse α) (hA : A.WF) (hB : B.WF) (hs : A.shape = B.shape)
    (hg : ∀ i, InBounds A.shape i → A.get i = B.get i) : A.nnz = B.nnz := by
  rw [Sparse.nnz_eq_count A hA, Sparse.nnz_eq_count B hB, hs]
  congr 1
  apply List.filter_congr
  intro i hi
  rw [hg i (by rw [hs]; exact mem_allSubs.1 hi)]

/-- **`to_sptensor` reports**: `tensor.to_sptensor()` keeps the shape and stores as many entries
as the tensor has non-zero cells (`= tensor.nnz`); `sptensor.full()` has as many non-zero cells
as the sparse tensor stores, and converting back stores as many again. -/
theorem toSptensor_reports (T : Dense α) (hT : T.WF) (S : Sparse α) (hS : S.WF) :
    (T.toSparse.shape = T.shape ∧ T.toSparse.nnz = T.nnz ∧
      T.nnz = ((allSubs T.shape).filter (fun i => !(T.get i == 0))).length) ∧
    (S.full.shape = S.shape ∧ S.full.nnz = S.nnz ∧ S.full.toSparse.nnz = S.nnz ∧
      S.nnz = ((allSubs S.shape).filter (fun i => !(S.get i == 0))).length) := by
  have h1 := toSparse_nnz T hT
  have hF : S.full.WF := Dense.ofFn_WF _ _
  have h2 := toSparse_nnz S.full hF
  have hcount : S.full.nnz = S.nnz := by
    rw [h2.2, Sparse.nnz_eq_count S hS]
    show ((allSubs S.shape).filter _).length = _
    congr 1
    apply List.filter_congr
    intro i hi
    rw [(sp_full_at S hS i (mem_allSubs.1 hi)).1]
  exact ⟨⟨(toSparse_wf T hT).2, h1.1, h1.2⟩, rfl, hcount, h2.1.trans hcount, Sparse.nnz_eq_count S hS⟩

end nnz

/-! ### `to_tenmat` reports -/

theorem numel_split_c01 {s r c : List Nat} (hp : isPermOf (r ++ c) s.length = true) :
    numel (gather s r) * numel (gather s c) = numel s := by
  rw [← numel_append, ← gather_append, numel_gather hp]

/-- **`to_tenmat` reports**: whenever `T.to_tenmat(rdims, cdims, cdims_cyclic)` is accepted, the
object reports the tensor's shape as `tshape`, the pair that `gather_wrap_dims` derives from the
arguments as `rindices` / `cindices` (a permutation of the modes), a matrix of shape
`(prod tshape[rindices], prod tshape[cindices])` with one value per cell and as many cells as the
tensor, and — when the tensor has a cell — that shape as `shape` and `ndims = 2`. -/
theorem tenmat_reports [Zero α] (T : Dense α) (hT : T.WF) (rd cd : Option (List Nat)) (cyc : Option Cyclic)
    (M : Tenmat α) (h : T.toTenmat rd cd cyc = .ok M) :
    ∃ r c, gatherWrapDims T.shape.length rd cd cyc = .ok (r, c) ∧
      isPermOf (r ++ c) T.shape.length = true ∧
      M.tshape = T.shape ∧ M.rdims = r ∧ M.cdims = c ∧ M.WF ∧
      M.data.shape = [numel (gather T.shape r), numel (gather T.shape c)] ∧
      numel M.data.shape = numel T.shape ∧
      (0 < numel T.shape →
        M.shapeProp = [numel (gather T.shape r), numel (gather T.shape c)] ∧ M.ndims = 2) := by
  rcases toTenmat_general T hT rd cd cyc with he | ⟨r, c, hg, hp, hok⟩
  · rw [he] at h; cases h
  · rw [hok] at h
    have hM := (Except.ok.inj h).symm
    subst hM
    have hn : numel [numel (gather T.shape r), numel (gather T.shape c)] = numel T.shape := by
      rw [numel_pair_c01, numel_split_c01 hp]
    refine ⟨r, c, hg, hp, rfl, rfl, rfl, tenmatOf_wf T r c hp, rfl, hn, ?_⟩
    intro hpos
    have h0 : (numel [numel (gather T.shape r), numel (gather T.shape c)] == 0) = false := by
      rw [hn]; simp; omega
    have hsp : Tenmat.shapeProp (⟨T.shape, r, c, ⟨[numel (gather T.shape r), numel (gather T.shape c)],
        (T.transpose (r ++ c)).data⟩⟩ : Tenmat α) = [numel (gather T.shape r), numel (gather T.shape c)] := by
      unfold Tenmat.shapeProp
      simp only [h0, Bool.false_eq_true, if_false]
    exact ⟨hsp, by unfold Tenmat.ndims; rw [hsp]; rfl⟩

/-! ### `to_sptenmat` reports -/

section spreports
variable [AddCommMonoid α] [DecidableEq α]

/-- **`to_sptenmat` reports**: whenever `S.to_sptenmat(rdims, cdims, cdims_cyclic)` of a
well-formed sparse tensor is accepted, the object reports the tensor's shape as `tshape`, the pair
that `gather_wrap_dims` derives from the arguments as `rdims` / `cdims` (a permutation of the
modes), the matrix shape `(prod tshape[rdims], prod tshape[cdims])` as `shape` (when the tensor
has a mode), and as `nnz` the number of stored triples = the number of non-zero cells of the
denoted matrix = `nnz` of the sparse tensor. -/
theorem sptenmat_reports (S : Sparse α) (hS : S.WF) (rd cd : Option (List Nat)) (cyc : Option Cyclic)
    (M : Sptenmat α) (h : S.toSptenmat rd cd cyc = .ok M) :
    ∃ r c, gatherWrapDims S.shape.length rd cd cyc = .ok (r, c) ∧
      isPermOf (r ++ c) S.shape.length = true ∧
      M.tshape = S.shape ∧ M.rdims = r ∧ M.cdims = c ∧ M.WF ∧
      M.mshape = [numel (gather S.shape r), numel (gather S.shape c)] ∧
      (1 ≤ S.shape.length → M.shapeProp = [numel (gather S.shape r), numel (gather S.shape c)]) ∧
      M.nnz = M.subs.length ∧ M.nnz = S.nnz ∧
      M.nnz = ((allSubs M.mshape).filter
        (fun u => !(M.get (u.getD 0 0) (u.getD 1 0) == 0))).length := by
  rcases toSptenmat_general S hS rd cd cyc with he | ⟨r, c, hg, hp, hok⟩
  · rw [he] at h; cases h
  · rw [hok] at h
    have hM := (Except.ok.inj h).symm
    subst hM
    have hW := sptenmatOf_WF S r c hS hp
    have hU := uniqueRowsSorted_perm _ (msOf_nodup S r c hS hp)
    have hnnz : (sptenmatOf S r c).nnz = (sptenmatOf S r c).subs.length := by
      simp [Sptenmat.nnz, sptenmatOf]
    refine ⟨r, c, hg, hp, rfl, rfl, rfl, hW, rfl, ?_, hnnz, ?_, ?_⟩
    · intro hN
      have : (sptenmatOf S r c).tshape.isEmpty = false := by
        show S.shape.isEmpty = false
        cases hsh : S.shape with
        | nil => rw [hsh] at hN; simp at hN
        | cons _ _ => rfl
      simp only [Sptenmat.shapeProp, this, Bool.false_eq_true, if_false]
      rfl
    · rw [hnnz]
      show (uniqueRowsSorted (msOf S r c)).length = S.subs.length
      rw [hU.length_eq]
      simp [msOf]
    · rw [hnnz]
      have := Sparse.nnz_eq_count (⟨(sptenmatOf S r c).mshape, (sptenmatOf S r c).subs,
        (sptenmatOf S r c).vals⟩ : Sparse α) hW.mat
      rw [show (sptenmatOf S r c).subs.length = Sparse.nnz (⟨(sptenmatOf S r c).mshape,
        (sptenmatOf S r c).subs, (sptenmatOf S r c).vals⟩ : Sparse α) from rfl, this]
      congr 1
      apply List.filter_congr
      intro u hu
      have hu' : InBounds [numel (gather S.shape r), numel (gather S.shape c)] u := mem_allSubs.1 hu
      match u, hu' with
      | [a, b], _ => rfl

end spreports

/-! ### the `tenmat` constructor -/

/-- the part of the constructor after the matrix is known. -/
theorem tenmat_mkCore_spec (d : Dense α) (w : Bool) (rd cd ts : Option (List Nat)) (M : Tenmat α)
    (h : Tenmat.mkCore d w rd cd ts = .ok M) :
    M.data.data = d.data ∧ M.tshape = ts.getD d.shape ∧
    gatherWrapDims M.tshape.length rd cd none = .ok (M.rdims, M.cdims) ∧
    isPermOf (M.rdims ++ M.cdims) M.tshape.length = true ∧
    M.data.shape = [numel (gather M.tshape M.rdims), numel (gather M.tshape M.cdims)] ∧
    numel M.data.shape = numel d.shape ∧ (w = false → M.data = d) := by
  unfold Tenmat.mkCore at h
  simp only at h
  by_cases hn : numel d.shape = numel (ts.getD d.shape)
  · have hn' : (numel d.shape != numel (ts.getD d.shape)) = false := by simp [hn]
    rw [hn'] at h
    simp only [Bool.false_eq_true, if_false] at h
    cases hg : gatherWrapDims (ts.getD d.shape).length rd cd none with
    | error e => rw [hg] at h; cases h
    | ok rc =>
      obtain ⟨r, c⟩ := rc
      rw [hg] at h
      simp only at h
      by_cases hr : (!(r.all (· < (ts.getD d.shape).length)) || !(c.all (· < (ts.getD d.shape).length))) = true
      · rw [if_pos hr] at h; cases h
      · rw [if_neg hr] at h
        -- the matrix that is kept
        generalize hd' : (if (w && numel [numel (gather (ts.getD d.shape) r), numel (gather (ts.getD d.shape) c)]
            == numel d.shape) = true then
            (⟨[numel (gather (ts.getD d.shape) r), numel (gather (ts.getD d.shape) c)], d.data⟩ : Dense α) else d) = d' at h
        have hdata : d'.data = d.data := by rw [← hd']; split <;> rfl
        have hnum : numel d'.shape = numel d.shape := by
          rw [← hd']
          split
          · next hc =>
            simp only [Bool.and_eq_true, beq_iff_eq] at hc
            exact hc.2
          · rfl
        have hw : w = false → d' = d := by
          intro hw; rw [← hd', hw]; simp
        by_cases hq : d'.shape = [numel (gather (ts.getD d.shape) r), numel (gather (ts.getD d.shape) c)]
        · have hq' : (d'.shape != [numel (gather (ts.getD d.shape) r), numel (gather (ts.getD d.shape) c)]) = false := by
            simp [hq]
          rw [hq'] at h
          simp only [Bool.false_eq_true, if_false] at h
          by_cases hp : isPermOf (r ++ c) (ts.getD d.shape).length = true
          · simp only [hp, Bool.not_true, Bool.false_eq_true, if_false] at h
            have hM := (Except.ok.inj h).symm
            subst hM
            exact ⟨hdata, rfl, hg, hp, hq, hnum, hw⟩
          · simp only [hp, Bool.not_false, if_true] at h; cases h
        · have hq' : (d'.shape != [numel (gather (ts.getD d.shape) r), numel (gather (ts.getD d.shape) c)]) = true := by
            simp [hq]
          rw [hq'] at h
          simp only [if_true] at h
          cases h
  · have hn' : (numel d.shape != numel (ts.getD d.shape)) = true := by simp [hn]
    rw [hn'] at h
    simp only [if_true] at h
    cases h

theorem tenmat_mk_cases (data : Dense α) (rd cd ts : Option (List Nat)) (M : Tenmat α)
    (hpos : numel data.shape ≠ 0) (h : Tenmat.mk? data rd cd ts = .ok M) :
    ∃ d w, Tenmat.dataMatrix data ts = .ok (d, w) ∧ Tenmat.mkCore d w rd cd ts = .ok M := by
  unfold Tenmat.mk? at h
  have h0 : (numel data.shape == 0) = false := by simpa using hpos
  simp only [h0, Bool.false_eq_true, if_false] at h
  cases hd : Tenmat.dataMatrix data ts with
  | error e => rw [hd] at h; cases h
  | ok dw => obtain ⟨d, w⟩ := dw; rw [hd] at h; exact ⟨d, w, rfl, h⟩

theorem tenmat_dataMatrix_spec (data : Dense α) (ts : Option (List Nat)) (d : Dense α) (w : Bool)
    (h : Tenmat.dataMatrix data ts = .ok (d, w)) :
    d.data = data.data ∧ numel d.shape = numel data.shape ∧
      ((w = false ∧ d = data ∧ data.shape.length = 2) ∨
       (w = true ∧ ∃ n t, data.shape = [n] ∧ ts = some t ∧ d.shape = [1, n])) := by
  obtain ⟨sh, dt⟩ := data
  unfold Tenmat.dataMatrix at h
  match sh, h with
  | [], h => simp at h
  | [n], h =>
    cases ts with
    | none => simp at h
    | some t =>
      simp only [Except.ok.injEq, Prod.mk.injEq] at h
      obtain ⟨rfl, rfl⟩ := h
      exact ⟨rfl, by simp [numel], .inr ⟨rfl, n, t, rfl, rfl, rfl⟩⟩
  | [a, b], h =>
    simp only [Except.ok.injEq, Prod.mk.injEq] at h
    obtain ⟨rfl, rfl⟩ := h
    exact ⟨rfl, rfl, .inl ⟨rfl, rfl, rfl⟩⟩
  | _ :: _ :: _ :: _, h => simp at h

/-- **The `tenmat` constructor reports** (data with at least one cell, repaired code): whenever
`tenmat(data, rdims, cdims, tshape)` is accepted, the object holds the given values, reports the
given `tshape` (default: the shape of the matrix), the pair `gather_wrap_dims` derives from the
arguments as `rindices` / `cindices` — a permutation of the modes —, its matrix has exactly the
shape `(prod tshape[rindices], prod tshape[cindices])` (a matrix argument is kept as it is, a
vector is reshaped to it), with as many cells as the data. -/
theorem tenmat_ctor_spec (data : Dense α) (rd cd ts : Option (List Nat)) (M : Tenmat α)
    (hpos : numel data.shape ≠ 0) (h : Tenmat.mk? data rd cd ts = .ok M) :
    M.data.data = data.data ∧
    (data.shape.length = 2 → M.data = data) ∧
    M.tshape = ts.getD data.shape ∧
    gatherWrapDims M.tshape.length rd cd none = .ok (M.rdims, M.cdims) ∧
    isPermOf (M.rdims ++ M.cdims) M.tshape.length = true ∧
    M.data.shape = [numel (gather M.tshape M.rdims), numel (gather M.tshape M.cdims)] ∧
    numel M.data.shape = numel data.shape ∧
    M.shapeProp = [numel (gather M.tshape M.rdims), numel (gather M.tshape M.cdims)] ∧ M.ndims = 2 := by
  obtain ⟨d, w, hdm, hcore⟩ := tenmat_mk_cases data rd cd ts M hpos h
  obtain ⟨e1, e2, e3⟩ := tenmat_dataMatrix_spec data ts d w hdm
  obtain ⟨c1, c2, c3, c4, c5, c6, c7⟩ := tenmat_mkCore_spec d w rd cd ts M hcore
  have hts : M.tshape = ts.getD data.shape := by
    rw [c2]
    rcases e3 with ⟨_, hd, _⟩ | ⟨_, n, t, _, ht, _⟩
    · rw [hd]
    · rw [ht]; rfl
  have hnum : numel M.data.shape = numel data.shape := c6.trans e2
  have hsp : M.shapeProp = [numel (gather M.tshape M.rdims), numel (gather M.tshape M.cdims)] := by
    unfold Tenmat.shapeProp
    have : (numel M.data.shape == 0) = false := by rw [hnum]; simpa using hpos
    simp only [this, Bool.false_eq_true, if_false]
    exact c5
  refine ⟨c1.trans e1, ?_, hts, c3, c4, c5, hnum, hsp, by unfold Tenmat.ndims; rw [hsp]; rfl⟩
  intro h2
  rcases e3 with ⟨hw, hd, _⟩ | ⟨_, n, t, hn, _, _⟩
  · rw [c7 hw, hd]
  · rw [hn] at h2; simp at h2

/-- … hence, for data with one value per cell, the constructed `tenmat` is well-formed (so
`tenmat_toTensor_spec` applies to it). -/
theorem tenmat_ctor_wf (data : Dense α) (rd cd ts : Option (List Nat)) (M : Tenmat α)
    (hpos : numel data.shape ≠ 0) (hd : data.WF) (h : Tenmat.mk? data rd cd ts = .ok M) : M.WF := by
  obtain ⟨h1, _, _, _, hp, hs, hn, _, _⟩ := tenmat_ctor_spec data rd cd ts M hpos h
  refine ⟨hp, hs, ?_⟩
  unfold Dense.WF at *
  rw [h1, hd, hn]

/-- **A matrix of another shape is refused**: 2-d data whose shape is not
`(prod tshape[r], prod tshape[c])` for the pair `(r, c)` that `gather_wrap_dims` derives. -/
theorem tenmat_ctor_rejects_shape (data : Dense α) (rd cd ts : Option (List Nat)) (r c : List Nat)
    (hpos : numel data.shape ≠ 0) (h2 : data.shape.length = 2)
    (hg : gatherWrapDims (ts.getD data.shape).length rd cd none = .ok (r, c))
    (hne : data.shape ≠ [numel (gather (ts.getD data.shape) r), numel (gather (ts.getD data.shape) c)]) :
    Tenmat.mk? data rd cd ts = .error .reject := by
  cases hm : Tenmat.mk? data rd cd ts with
  | error e => cases e; rfl
  | ok M =>
    exfalso
    obtain ⟨_, hkeep, hts, hgw, _, hs, _, _, _⟩ := tenmat_ctor_spec data rd cd ts M hpos hm
    rw [hts, hg] at hgw
    simp only [Except.ok.injEq, Prod.mk.injEq] at hgw
    apply hne
    have e : M.data.shape = data.shape := by rw [hkeep h2]
    have := hs
    rw [e, hts, ← hgw.1, ← hgw.2] at this
    exact this

/-! ### `ktensor.to_tenmat` -/

/-- **`ktensor.to_tenmat(rdims, cdims)`** for every ordered partition of the modes: the code
expands the Kruskal tensor and matricizes the result, so the object is exactly
`K.full().to_tenmat(rdims, cdims)`, reports shape and split, and its entry in row
`sub2ind shape[r] i[r]`, column `sub2ind shape[c] i[c]` is `Σ_q λ_q ∏ₙ Aₙ[iₙ, q]`. -/
theorem kruskal_tenmat_entry [CommSemiring α] (K : Ktensor α) (hK : K.WF) (hN : 1 ≤ K.factors.length)
    (r c : List Nat) (hp : isPermOf (r ++ c) K.factors.length = true) (i : List Nat)
    (hi : InBounds K.shape i) :
    ∃ D M, K.full = .ok D ∧ D.toTenmat (some r) (some c) none = .ok M ∧
      K.toTenmat (some r) (some c) none = .ok M ∧
      M.tshape = K.shape ∧ M.rdims = r ∧ M.cdims = c ∧ M.WF ∧
      M.data.shape = [numel (gather K.shape r), numel (gather K.shape c)] ∧
      M.data.get [sub2ind (gather K.shape r) (gather i r), sub2ind (gather K.shape c) (gather i c)]
        = K.get i := by
  obtain ⟨D, hD, hs, hW, hg⟩ := kruskal_full K hK hN i hi
  have hp' : isPermOf (r ++ c) D.shape.length = true := by
    rw [hs, Ktensor.shape]; simpa using hp
  have hok := toTenmat_ok D r c hW hp'
  refine ⟨D, _, hD, hok, ?_, hs, rfl, rfl, tenmatOf_wf D r c hp', by rw [hs], ?_⟩
  · unfold Ktensor.toTenmat; rw [hD]; exact hok
  · rw [← hg, ← hs]
    exact tenmat_data_get D r c hp' i (hs ▸ hi)

end Pyttb

namespace Pyttb
variable {α : Type}

/-! ### the Khatri-Rao form of the Kruskal matricization -/

theorem map_length_gatherD_c01 (fs : List (Mat α)) (r : List Nat) :
    (gatherD fs r []).map List.length = gather (fs.map List.length) r := by
  unfold gatherD gather
  rw [List.map_map]
  apply List.map_congr_left
  intro k _
  simp only [Function.comp, List.getD_eq_getElem?_getD, List.getElem?_map]
  cases fs[k]? <;> rfl

theorem zipWith_gatherD_gather_c01 [Zero α] (fs : List (Mat α)) (i r : List Nat) (q : Nat) :
    List.zipWith (fun (M : Mat α) ik => M.get ik q) (gatherD fs r []) (gather i r) =
      r.map fun k => (fs.getD k []).get (i.getD k 0) q := by
  unfold gatherD gather
  induction r with
  | nil => rfl
  | cons k r ih => simp [ih]

theorem zipWith_get_eq_map_range_c01 [Zero α] (fs : List (Mat α)) (i : List Nat) (q : Nat)
    (hl : i.length = fs.length) :
    List.zipWith (fun (M : Mat α) ik => M.get ik q) fs i =
      (List.range fs.length).map fun k => (fs.getD k []).get (i.getD k 0) q := by
  apply List.ext_getElem
  · simp [hl]
  · intro k h1 h2
    simp only [List.length_map, List.length_range] at h2
    simp [List.getD_eq_getElem?_getD, List.getElem?_eq_getElem h2, List.getElem?_eq_getElem (hl ▸ h2)]

/-- **Khatri-Rao form of `ktensor.to_tenmat`**: for an ordered partition with both sides
non-empty, the matrix the code produces (by expanding and matricizing) is
`(khatrirao(A[r], reverse) · diag λ) · khatrirao(A[c], reverse)ᵀ` — entry `(a, b)` is
`Σ_q λ_q L[a, q] Rm[b, q]` with `L`, `Rm` the reversed Khatri-Rao products of the row and of the
column factors. -/
theorem kruskal_tenmat_khatrirao [CommSemiring α] (K : Ktensor α) (hK : K.WF) (r c : List Nat)
    (hr : r ≠ []) (hc : c ≠ []) (hp : isPermOf (r ++ c) K.factors.length = true) (i : List Nat)
    (hi : InBounds K.shape i) :
    ∃ L Rm M, khatrirao (gatherD K.factors r []) true = .ok L ∧
      khatrirao (gatherD K.factors c []) true = .ok Rm ∧
      K.toTenmat (some r) (some c) none = .ok M ∧
      L.length = numel (gather K.shape r) ∧ Rm.length = numel (gather K.shape c) ∧
      M.data.get [sub2ind (gather K.shape r) (gather i r), sub2ind (gather K.shape c) (gather i c)] =
        ((List.range K.ncomp).map fun q => K.weights.getD q 0 *
          (L.get (sub2ind (gather K.shape r) (gather i r)) q *
            Rm.get (sub2ind (gather K.shape c) (gather i c)) q)).sum := by
  have hN : 1 ≤ K.factors.length := by
    have hl := isPermOf_length_eq hp
    cases r with
    | nil => exact absurd rfl hr
    | cons a r => simp at hl; omega
  obtain ⟨hrl, hcl⟩ := isPermOf_append_lt hp
  have hsl : K.shape.length = K.factors.length := by simp [Ktensor.shape]
  have hmem : ∀ (l : List Nat), (∀ k ∈ l, k < K.factors.length) →
      ∀ M ∈ gatherD K.factors l [], ∀ row ∈ M, row.length = K.weights.length := by
    intro l hl M hM
    obtain ⟨k, hk, rfl⟩ := List.mem_map.1 hM
    have hk' := hl k hk
    have : K.factors.getD k [] ∈ K.factors := by
      simp [List.getD_eq_getElem?_getD, List.getElem?_eq_getElem hk']
    exact hK _ this
  have hne : ∀ (l : List Nat), l ≠ [] → gatherD K.factors l [] ≠ [] := by
    intro l hl h
    apply hl
    have := congrArg List.length h
    simpa [gatherD] using this
  have hib : ∀ (l : List Nat), (∀ k ∈ l, k < K.factors.length) →
      InBounds ((gatherD K.factors l []).map List.length) (gather i l) := by
    intro l hl
    rw [map_length_gatherD_c01]
    exact hi.gather (fun k hk => by rw [hsl]; exact hl k hk)
  obtain ⟨L, hL, hLlen, hLent⟩ := khatrirao_rev_spec (gatherD K.factors r []) K.weights.length (gather i r)
    (hne r hr) (hmem r hrl) (hib r hrl)
  obtain ⟨Rm, hRm, hRlen, hRent⟩ := khatrirao_rev_spec (gatherD K.factors c []) K.weights.length (gather i c)
    (hne c hc) (hmem c hcl) (hib c hcl)
  obtain ⟨D, M, _, _, hM, _, _, _, _, _, hget⟩ := kruskal_tenmat_entry K hK hN r c hp i hi
  rw [map_length_gatherD_c01] at hLlen hRlen hLent hRent
  refine ⟨L, Rm, M, hL, hRm, hM, hLlen, hRlen, ?_⟩
  rw [hget]
  unfold Ktensor.get
  congr 1
  apply List.map_congr_left
  intro q hq
  have hq' : q < K.weights.length := by simpa [Ktensor.ncomp] using hq
  congr 1
  have hL' := hLent q hq'
  have hR' := hRent q hq'
  show _ = L.get (sub2ind (gather K.shape r) (gather i r)) q * Rm.get (sub2ind (gather K.shape c) (gather i c)) q
  have e1 : gather K.shape r = gather (K.factors.map List.length) r := rfl
  have e2 : gather K.shape c = gather (K.factors.map List.length) c := rfl
  rw [e1, e2, hL', hR', zipWith_gatherD_gather_c01, zipWith_gatherD_gather_c01]
  unfold Ktensor.comp
  rw [zipWith_get_eq_map_range_c01 K.factors i q (by rw [hi.length_eq, hsl])]
  have hperm := isPermOf_perm hp
  rw [(hperm.map _).prod_eq, List.map_append, prod_append']

end Pyttb

namespace Pyttb
variable {α : Type}

/-! ### `double()` of any holder -/

/-- the cell of the `double()` array that belongs to tensor subscript `i`: `i` itself for the
five tensor classes, (row, column) for the matricized classes. -/
def Holder.cell : Holder α → List Nat → List Nat
  | .tenmat M, i => matSub M.tshape M.rdims M.cdims i
  | .sptenmat M, i => matSub M.tshape M.rdims M.cdims i
  | _, i => i

/-- the shape of the `double()` array. -/
def Holder.dshape : Holder α → List Nat
  | .tenmat M => [numel (gather M.tshape M.rdims), numel (gather M.tshape M.cdims)]
  | .sptenmat M => [numel (gather M.tshape M.rdims), numel (gather M.tshape M.cdims)]
  | h => h.shape

/-- **`double()` of any well-formed holder** is accepted and yields a well-formed array of the
tensor shape (matrix shape for the matricized classes) holding, at the cell of every subscript
`i`, the entry the holder denotes. -/
theorem holder_double [CommSemiring α] [DecidableEq α] (h : Holder α) (hw : h.WF) :
    ∃ D, h.double = .ok D ∧ D.shape = h.dshape ∧ D.WF ∧
      ∀ i, InBounds h.shape i → D.get (h.cell i) = h.get i := by
  cases h with
  | dense T => exact ⟨T, rfl, rfl, hw.1, fun _ _ => rfl⟩
  | sparse S =>
    refine ⟨S.full, sp_double_eq_full S hw.1.inb hw.1.len, rfl, Dense.ofFn_WF _ _, ?_⟩
    intro i hi
    exact (sp_full_at S hw.1 i hi).1
  | kruskal K =>
    obtain ⟨D, hD, hs, hW, hg⟩ := kruskal_full_denoted K hw
    exact ⟨D, by show K.double = _; rw [Ktensor.double_eq_full]; exact hD, hs, hW, hg⟩
  | tucker T =>
    obtain ⟨D, hD, hs, hW, hg⟩ := tucker_full_denoted T hw
    exact ⟨D, by show T.double = _; rw [Ttensor.double_eq_full]; exact hD, hs, hW, hg⟩
  | sum P =>
    obtain ⟨D, hD, hs, hW, hg⟩ := sum_full_denoted P hw
    exact ⟨D, by show ML.Sumtensor.double P = _; rw [Sumtensor.double_eq_full]; exact hD, hs, hW, hg⟩
  | tenmat M =>
    refine ⟨M.data, rfl, hw.1.mshape, hw.1.data, fun _ _ => rfl⟩
  | sptenmat M =>
    refine ⟨M.full.data, sptenmat_double_eq_full M hw.1 hw.2.1, rfl, Dense.ofFn_WF _ _, ?_⟩
    exact (sptenmat_full_spec M hw.1).2.2.2.2

/-! ### the executable Khatri-Rao form -/

/-- **`Ktensor.krTenmat`** — `(khatrirao(A[r], reverse) · diag λ) · khatrirao(A[c], reverse)ᵀ`
laid out as a matrix — IS the matrix of `K.to_tenmat(r, c)` for every ordered partition with
both sides non-empty (positive extents). -/
theorem kruskal_krTenmat [CommSemiring α] (K : Ktensor α) (hK : K.WF) (r c : List Nat)
    (hr : r ≠ []) (hc : c ≠ []) (hp : isPermOf (r ++ c) K.factors.length = true)
    (hpos : ∀ e ∈ K.shape, 0 < e) :
    ∃ M, K.toTenmat (some r) (some c) none = .ok M ∧ K.krTenmat r c = .ok M.data := by
  have hsl : K.shape.length = K.factors.length := by simp [Ktensor.shape]
  have hp' : isPermOf (r ++ c) K.shape.length = true := by rw [hsl]; exact hp
  have h0 := ML.zeros_inBounds K.shape hpos
  obtain ⟨L, Rm, M, hL, hRm, hM, hLlen, hRlen, _⟩ := kruskal_tenmat_khatrirao K hK r c hr hc hp _ h0
  have hN : 1 ≤ K.factors.length := by
    have hl := isPermOf_length_eq hp
    cases r with
    | nil => exact absurd rfl hr
    | cons a r => simp at hl; omega
  obtain ⟨_, M0, _, _, hM0, _, _, _, hMW, hMs, _⟩ := kruskal_tenmat_entry K hK hN r c hp _ h0
  have hMM : M0 = M := by
    have : (Except.ok M0 : Except Reject (Tenmat α)) = .ok M := by rw [← hM0, ← hM]
    exact Except.ok.inj this
  subst hMM
  refine ⟨M0, hM, ?_⟩
  unfold Ktensor.krTenmat
  simp only [hL, hRm]
  congr 1
  symm
  refine Dense.ext_get hMW.data ?_ (by rw [hMs, hLlen, hRlen]) ?_
  · show (Rm.flatMap fun rrow => L.map fun lrow => _).length = numel [L.length, Rm.length]
    rw [length_flatMap_map, numel_pair_c01, Nat.mul_comm]
  · intro u hu
    rw [hMs] at hu
    match u, hu with
    | [a, b], hu =>
      have hab : a < numel (gather K.shape r) ∧ b < numel (gather K.shape c) := by
        simpa [InBounds] using hu
      obtain ⟨j, hj, hjab⟩ := matSub_surj hp' a b hab.1 hab.2
      obtain ⟨L', Rm', M', hL', hRm', hM', _, _, hget⟩ := kruskal_tenmat_khatrirao K hK r c hr hc hp j hj
      have e1 : L' = L := by
        have : (Except.ok L' : Except Reject (Mat α)) = .ok L := by rw [← hL', ← hL]
        exact Except.ok.inj this
      have e2 : Rm' = Rm := by
        have : (Except.ok Rm' : Except Reject (Mat α)) = .ok Rm := by rw [← hRm', ← hRm]
        exact Except.ok.inj this
      have e3 : M' = M0 := by
        have : (Except.ok M' : Except Reject (Tenmat α)) = .ok M0 := by rw [← hM', ← hM]
        exact Except.ok.inj this
      subst e1; subst e2; subst e3
      simp only [matSub, List.cons.injEq, and_true] at hjab
      rw [hjab.1, hjab.2] at hget
      rw [hget]
      have ha : a < L'.length := by rw [hLlen]; exact hab.1
      have hb : b < Rm'.length := by rw [hRlen]; exact hab.2
      simp only [Dense.get, sub2ind_pair_c01]
      rw [show a + L'.length * b = b * L'.length + a by rw [Nat.mul_comm]; omega,
        List.getD_eq_getElem?_getD, flatMap_map_getElem? Rm' L' _ b a hb ha, Option.getD_some]
      congr 1
      apply List.map_congr_left
      intro q _
      rw [Mat.get_eq_getD_row L' a q ha, Mat.get_eq_getD_row Rm' b q hb]

end Pyttb

namespace Pyttb
variable {α : Type}

/-! ### what is refused -/

/-- the modes named in the arguments all appear in the pair `gather_wrap_dims` returns. -/
theorem gatherWrapDims_mem (n : Nat) (rd cd : Option (List Nat)) (cyc : Option Cyclic) (r c : List Nat)
    (h : gatherWrapDims n rd cd cyc = .ok (r, c)) :
    (∀ l, rd = some l → ∀ x ∈ l, x ∈ r ++ c) ∧ (∀ l, cd = some l → ∀ x ∈ l, x ∈ r ++ c) := by
  unfold gatherWrapDims at h
  cases rd with
  | none =>
    cases cd with
    | none => cases h
    | some c' =>
      simp only [Except.ok.injEq, Prod.mk.injEq] at h
      obtain ⟨rfl, rfl⟩ := h
      exact ⟨fun l hl => (by cases hl), fun l hl x hx => by cases hl; exact List.mem_append_right _ hx⟩
  | some r' =>
    cases cd with
    | some c' =>
      simp only [Except.ok.injEq, Prod.mk.injEq] at h
      obtain ⟨rfl, rfl⟩ := h
      exact ⟨fun l hl x hx => by cases hl; exact List.mem_append_left _ hx,
        fun l hl x hx => by cases hl; exact List.mem_append_right _ hx⟩
    | none =>
      refine ⟨?_, fun l hl => (by cases hl)⟩
      intro l hl x hx
      cases hl
      simp only at h
      split at h
      · simp only [Except.ok.injEq, Prod.mk.injEq] at h
        obtain ⟨rfl, rfl⟩ := h
        exact List.mem_append_right _ hx
      · simp only [Except.ok.injEq, Prod.mk.injEq] at h
        obtain ⟨rfl, rfl⟩ := h
        exact List.mem_append_left _ hx
      · simp only [Except.ok.injEq, Prod.mk.injEq] at h
        obtain ⟨rfl, rfl⟩ := h
        exact List.mem_append_left _ hx
      · simp only [Except.ok.injEq, Prod.mk.injEq] at h
        obtain ⟨rfl, rfl⟩ := h
        exact List.mem_append_left _ hx

/-- the range test is implied by the permutation test: a split is acceptable iff
`gather_wrap_dims` yields a pair whose concatenation is a permutation of the modes. -/
theorem splitValid_iff_perm (n : Nat) (rd cd : Option (List Nat)) (cyc : Option Cyclic) :
    splitValid n rd cd cyc = true ↔
      ∃ r c, gatherWrapDims n rd cd cyc = .ok (r, c) ∧ isPermOf (r ++ c) n = true := by
  rw [splitValid_iff]
  constructor
  · rintro ⟨_, _, h⟩; exact h
  · rintro ⟨r, c, hg, hp⟩
    obtain ⟨h1, h2⟩ := gatherWrapDims_mem n rd cd cyc r c hg
    refine ⟨?_, ?_, r, c, hg, hp⟩
    · cases rd with
      | none => rfl
      | some l =>
        simp only [inRangeOpt, List.all_eq_true, decide_eq_true_eq]
        exact fun x hx => isPermOf_lt_of_mem hp (h1 l rfl x hx)
    · cases cd with
      | none => rfl
      | some l =>
        simp only [inRangeOpt, List.all_eq_true, decide_eq_true_eq]
        exact fun x hx => isPermOf_lt_of_mem hp (h2 l rfl x hx)

section rejects
variable [CommSemiring α] [DecidableEq α]

theorem toTenmat_invalid (T : Dense α) (hT : T.WF) (rd cd : Option (List Nat)) (cyc : Option Cyclic)
    (hv : splitValid T.shape.length rd cd cyc = false) : T.toTenmat rd cd cyc = .error .reject := by
  rcases toTenmat_general T hT rd cd cyc with h | ⟨r, c, hg, hp, _⟩
  · exact h
  · have := (splitValid_iff_perm _ rd cd cyc).2 ⟨r, c, hg, hp⟩
    rw [this] at hv; cases hv

theorem toSptenmat_invalid (S : Sparse α) (hS : S.WF) (rd cd : Option (List Nat)) (cyc : Option Cyclic)
    (hv : splitValid S.shape.length rd cd cyc = false) : S.toSptenmat rd cd cyc = .error .reject := by
  rcases toSptenmat_general S hS rd cd cyc with h | ⟨r, c, hg, hp, _⟩
  · exact h
  · have := (splitValid_iff_perm _ rd cd cyc).2 ⟨r, c, hg, hp⟩
    rw [this] at hv; cases hv

/-- **One ill-typed step is refused**: a method the class does not have, or a mode split that is
not a partition of the modes. -/
theorem step_rejects (c : Conv) (h : Holder α) (hw : h.WF)
    (hbad : c.target h.kind = none ∨ c.argsValid h.shape.length = false) :
    c.apply h = .error .reject := by
  cases c with
  | full =>
    cases h <;> first | rfl | (rcases hbad with hb | hb <;> cases hb)
  | toTensor =>
    cases h <;> first | rfl | (rcases hbad with hb | hb <;> cases hb)
  | toSptensor =>
    cases h <;> first | rfl | (rcases hbad with hb | hb <;> cases hb)
  | toTenmat rd cd cyc =>
    cases h with
    | dense T =>
      rcases hbad with hb | hb
      · cases hb
      · show liftTenmat (T.toTenmat rd cd cyc) = _
        rw [toTenmat_invalid T hw.1 rd cd cyc hb]; rfl
    | kruskal K =>
      rcases hbad with hb | hb
      · cases hb
      · obtain ⟨D, hD, hs, hW, _⟩ := kruskal_full_denoted K hw
        show liftTenmat (K.toTenmat rd cd cyc) = _
        have hK : K.toTenmat rd cd cyc = D.toTenmat rd cd cyc := by unfold Ktensor.toTenmat; rw [hD]
        have hb' : splitValid D.shape.length rd cd cyc = false := by rw [hs]; exact hb
        rw [hK, toTenmat_invalid D hW rd cd cyc hb']; rfl
    | sparse S => rfl
    | tucker T => rfl
    | sum P => rfl
    | tenmat M => rfl
    | sptenmat M => rfl
  | toSptenmat rd cd cyc =>
    cases h with
    | sparse S =>
      rcases hbad with hb | hb
      · cases hb
      · show liftSptenmat (S.toSptenmat rd cd cyc) = _
        rw [toSptenmat_invalid S hw.1 rd cd cyc hb]; rfl
    | dense T => rfl
    | kruskal K => rfl
    | tucker T => rfl
    | sum P => rfl
    | tenmat M => rfl
    | sptenmat M => rfl

/-- **A chain from a well-formed holder is accepted exactly when it is well-typed.** -/
theorem chain_ok_iff (cs : List Conv) (h : Holder α) (hw : h.WF) :
    (∃ h', runChain cs h = .ok h') ↔ chainValid h.shape.length cs h.kind = true := by
  constructor
  · intro hex
    induction cs generalizing h with
    | nil => rfl
    | cons c cs ih =>
      obtain ⟨h', he⟩ := hex
      unfold runChain at he
      cases hc : c.apply h with
      | error e => rw [hc] at he; cases he
      | ok h1 =>
        rw [hc] at he
        unfold chainValid
        cases ht : c.target h.kind with
        | none =>
          rw [step_rejects c h hw (.inl ht)] at hc; cases hc
        | some k' =>
          simp only [Bool.and_eq_true]
          cases hv : c.argsValid h.shape.length with
          | false => rw [step_rejects c h hw (.inr hv)] at hc; cases hc
          | true =>
            obtain ⟨h1', hc', hk⟩ := step_ok c h hw k' ht hv
            rw [hc] at hc'
            have := Except.ok.inj hc'
            subst this
            obtain ⟨hs1, hw1, _⟩ := step_sound c h h1 hw hc
            refine ⟨rfl, ?_⟩
            have := ih h1 hw1 ⟨h', he⟩
            rw [hs1, hk] at this
            exact this
  · exact chain_ok cs h hw

end rejects

end Pyttb
