/-
C10 — `tucker_als`: contracts of the `nvecs` service, one HOOI sweep, the iteration.
-/
import PyttbModel.Lemmas.HosvdThm
namespace Pyttb
namespace Tk
open Finset

/-- Contract of `tensor.nvecs`: `W.nvecs(n, r)` has as many rows as mode `n` of `W`, `r` columns,
and the columns are orthonormal (for `r` within the mode size). -/
def NvecsContract (nvecs : Nat → Dense ℝ → Nat → Nat → Mat ℝ) : Prop :=
  ∀ c W n r, W.WF → n < W.shape.length → r ≤ W.shape.getD n 0 →
    OrthoCols (nvecs c W n r) (W.shape.getD n 0) r

/-- Stronger contract of `tensor.nvecs`: up to the sign of each column (`flipsign`), the columns
are the eigenvectors of the `r` largest eigenvalues of the Gram matrix of the mode-`n` unfolding. -/
def NvecsLeading (nvecs : Nat → Dense ℝ → Nat → Nat → Mat ℝ) : Prop :=
  ∀ c W n r, W.WF → n < W.shape.length → r ≤ W.shape.getD n 0 →
    ∃ (D : List ℝ) (V : Mat ℝ) (ε : Nat → ℝ), EighOK (gramMode W n) (W.shape.getD n 0) D V ∧
      (∀ i < r, ε i * ε i = 1) ∧
      ∀ a < W.shape.getD n 0, ∀ i < r,
        (nvecs c W n r).get a i = ε i * V.get a ((argsortDesc realOps D).getD i 0)

/-- Ky Fan's maximum principle, as a statement (NOT proved in this development): for a symmetric
matrix with orthonormal eigenpairs `(D, V)` and any `m × r` matrix `Q` with orthonormal columns,
`trace(Qᵀ Z Q)` is at most the sum of the `r` largest eigenvalues. -/
def KyFan : Prop :=
  ∀ (Z : Mat ℝ) (m : Nat) (D : List ℝ) (V Q : Mat ℝ) (r : Nat), IsSymmSq Z m → EighOK Z m D V → OrthoCols Q m r →
    ∑ c ∈ range r, ∑ a ∈ range m, ∑ b ∈ range m, Q.get a c * Q.get b c * Z.get a b ≤
      (((argsortDesc realOps D).map fun i => D.getD i 0).take r).sum

/-- Under Ky Fan's principle, the output of `nvecs` captures at least as much energy as any
other orthonormal matrix of the same size. -/
theorem nvecs_dominant {nvecs : Nat → Dense ℝ → Nat → Nat → Mat ℝ} (hC : NvecsContract nvecs)
    (hL : NvecsLeading nvecs) (hK : KyFan) (c : Nat) (W : Dense ℝ) (n r : Nat) (hW : W.WF) (hn : n < W.shape.length)
    (hr : r ≤ W.shape.getD n 0) (Q : Mat ℝ) (hQ : OrthoCols Q (W.shape.getD n 0) r) :
    normSq (ttmT W Q n true) ≤ normSq (ttmT W (nvecs c W n r) n true) := by
  obtain ⟨D, V, ε, hEV, hε, hU⟩ := hL c W n r hW hn hr
  have hO := hC c W n r hW hn hr
  have hlen : (argsortDesc realOps D).length = W.shape.getD n 0 := by rw [argsortDesc_length, hEV.len]
  have e1 := normSq_ttmT_quad W Q n hn
  rw [hQ.ncols] at e1
  have e2 := normSq_ttmT_eigcols_signed W n hn D V (nvecs c W n r) hEV
    (fun i => (argsortDesc realOps D).getD i 0) ε
    (by rw [hO.ncols]; exact hε)
    (by
      intro i hi
      rw [hO.ncols] at hi
      have hi' : i < (argsortDesc realOps D).length := by rw [hlen]; omega
      have := argsortDesc_lt D ((argsortDesc realOps D).getD i 0)
        (by rw [List.getD_eq_getElem?_getD, List.getElem?_eq_getElem hi']; simp)
      rwa [hEV.len] at this)
    (by rw [hO.ncols]; exact hU)
  rw [e1, e2, hO.ncols]
  refine le_trans (hK _ _ D V Q r (gramMode_symm W n) hEV hQ) (le_of_eq ?_)
  rw [sum_take_eq, List.length_map, hlen, Nat.min_eq_left hr]
  apply Finset.sum_congr rfl
  intro i hi
  have hi' : i < (argsortDesc realOps D).length := by rw [hlen]; exact lt_of_lt_of_le (Finset.mem_range.1 hi) hr
  simp [List.getD_eq_getElem?_getD, List.getElem?_map, List.getElem?_eq_getElem hi']

/-! ### lists of modes -/

/-- The (mode, factor) pairs of every mode but `n`, increasing. -/
def exclList (U : List (Mat ℝ)) (N n : Nat) : List (Nat × Mat ℝ) :=
  (complDims N [n]).map fun m => (m, U.getD m [])

theorem mem_complDims {N n m : Nat} : m ∈ complDims N [n] ↔ m < N ∧ m ≠ n := by
  simp [complDims]

theorem exclList_set (U : List (Mat ℝ)) (N n : Nat) (A : Mat ℝ) : exclList (U.set n A) N n = exclList U N n := by
  apply List.map_congr_left
  intro m hm
  rw [getD_set_ne' _ _ _ (Ne.symm (mem_complDims.1 hm).2)]

theorem filter_eq_range (N n : Nat) (hn : n < N) : (List.range N).filter (fun k => k == n) = [n] := by
  induction N with
  | zero => omega
  | succ N ih =>
    rw [List.range_succ, List.filter_append]
    by_cases h : n < N
    · rw [ih h]
      have : (N == n) = false := by simp; omega
      simp [this]
    · have hN : n = N := by omega
      subst hN
      have : (List.range n).filter (fun k => k == n) = [] := by
        apply List.filter_eq_nil_iff.2
        intro a ha
        have := List.mem_range.1 ha
        simp; omega
      simp [this]

theorem ascList_perm_excl (U : List (Mat ℝ)) (N n : Nat) (hn : n < N) :
    (ascList U N).Perm (exclList U N n ++ [(n, U.getD n [])]) := by
  have h1 : (List.range N).Perm (complDims N [n] ++ [n]) := by
    have := (List.filter_append_perm (fun k => !([n].contains k)) (List.range N)).symm
    have e : (List.range N).filter (fun x => !(fun k => !([n].contains k)) x) = [n] := by
      have : (fun x => !(fun k => !([n].contains k)) x) = fun k => k == n := by
        funext k; by_cases hk : k = n <;> simp [hk]
      rw [this]; exact filter_eq_range N n hn
    rw [e] at this
    exact this
  have := h1.map (fun m => (m, U.getD m []))
  simpa [ascList, exclList] using this

theorem exclList_fst_nodup (U : List (Mat ℝ)) (N n : Nat) : ((exclList U N n).map Prod.fst).Nodup := by
  simp only [exclList, List.map_map, Function.comp_def, List.map_id']
  exact List.nodup_range.filter _

/-- `X` projected on all factors = (`X` projected on all but mode `n`) projected in mode `n`. -/
theorem ttmFold_asc_eq (X : Dense ℝ) (U : List (Mat ℝ)) (N n : Nat) (hn : n < N) :
    ttmFold X (ascList U N) true = ttmT (ttmFold X (exclList U N n) true) (U.getD n []) n true := by
  rw [ttmFold_perm (ascList_perm_excl U N n hn) (ascList_fst_nodup U N), ttmFold_append]
  rfl

/-- Energy of the projection of `X` on the factors `U`. -/
noncomputable def energy (X : Dense ℝ) (U : List (Mat ℝ)) : ℝ := normSq (ttmFold X (ascList U X.shape.length) true)

/-! ### one sweep -/

theorem rankAt_ok {rank : List Nat} {n r : Nat} (h : rankAt rank n = .ok r) : r = rank.getD n 0 := by
  unfold rankAt at h
  split at h
  · rename_i r' hr
    cases h
    simp [List.getD_eq_getElem?_getD, hr]
  · cases h

theorem length_complDims (N n : Nat) (hn : n < N) : (complDims N [n]).length + 1 = N := by
  have h1 : (List.range N).Perm (complDims N [n] ++ [n]) := by
    have := (List.filter_append_perm (fun k => !([n].contains k)) (List.range N)).symm
    have e : (List.range N).filter (fun x => !(fun k => !([n].contains k)) x) = [n] := by
      have : (fun x => !(fun k => !([n].contains k)) x) = fun k => k == n := by
        funext k; by_cases hk : k = n <;> simp [hk]
      rw [this]; exact filter_eq_range N n hn
    rw [e] at this
    exact this
  have := h1.length_eq
  simpa using this.symm

theorem ttmExcl_ok {T Y : Dense ℝ} {Us : List (Mat ℝ)} {n : Nat} {tr : Bool} (hU : Us.length = T.shape.length)
    (h : ttmExcl T Us n tr = .ok Y) :
    n < T.shape.length ∧ Y = ttmFold T (exclList Us T.shape.length n) tr := by
  unfold ttmExcl at h
  split at h
  · rename_i hn
    refine ⟨hn, ?_⟩
    have := (ttmDims_ok h).1
    rw [ttmPairs_by_mode] at this
    · exact this
    · have := length_complDims T.shape.length n hn
      omega
  · cases h

/-- The monotonicity hypotheses: the strong `nvecs` contract, Ky Fan's principle, and an
orthonormal starting point. -/
def MonoHyp (nvecs : Nat → Dense ℝ → Nat → Nat → Mat ℝ) (X : Dense ℝ) (rank : List Nat) (U0 : List (Mat ℝ)) : Prop :=
  NvecsLeading nvecs ∧ KyFan ∧ ∀ n < X.shape.length, OrthoCols (U0.getD n []) (X.shape.getD n 0) (rank.getD n 0)

/-- Invariant of `for n in dimorder:` inside one iteration. -/
structure SInv (nvecs : Nat → Dense ℝ → Nat → Nat → Mat ℝ) (X : Dense ℝ) (rank : List Nat) (U0 : List (Mat ℝ))
    (done : List Nat) (st : SweepSt ℝ) : Prop where
  lenU : st.U.length = X.shape.length
  ortho : ∀ m ∈ done, OrthoCols (st.U.getD m []) (X.shape.getD m 0) (rank.getD m 0)
  unchanged : ∀ m, m ∉ done → st.U.getD m [] = U0.getD m []
  last : match done.getLast? with
    | none => st.Utilde = none
    | some n => st.Utilde = some (ttmFold X (exclList st.U X.shape.length n) true, n)
  mono : MonoHyp nvecs X rank U0 → energy X U0 ≤ energy X st.U

theorem SInv.step {nvecs : Nat → Dense ℝ → Nat → Nat → Mat ℝ} (hC : NvecsContract nvecs) {X : Dense ℝ} (hX : X.WF)
    {rank : List Nat} (hR : ∀ n < X.shape.length, rank.getD n 0 ≤ X.shape.getD n 0) {U0 : List (Mat ℝ)}
    {done : List Nat} {st st' : SweepSt ℝ} {n : Nat} (hI : SInv nvecs X rank U0 done st) (hn : n < X.shape.length)
    (hnd : n ∉ done) (h : sweepStep nvecs X rank st n = .ok st') : SInv nvecs X rank U0 (done ++ [n]) st' := by
  unfold sweepStep at h
  split at h
  · cases h
  rename_i Ut hUt
  split at h
  · cases h
  rename_i r hr
  cases h
  have hr' := rankAt_ok hr
  subst hr'
  obtain ⟨_, hUtv⟩ := ttmExcl_ok hI.lenU hUt
  have hUtw : Ut.WF := by rw [hUtv]; exact ttmFold_WF X hX _ _
  have hUtl : Ut.shape.length = X.shape.length := by rw [hUtv]; exact ttmFold_shape_length _ _ _
  have hUtn : Ut.shape.getD n 0 = X.shape.getD n 0 := by
    rw [hUtv, ttmFold_shape]
    apply coreShape_getD_notin
    simp only [exclList, List.map_map, Function.comp_def, List.map_id']
    intro hm
    exact (mem_complDims.1 hm).2 rfl
  have hA : OrthoCols (nvecs st.calls Ut n (rank.getD n 0)) (X.shape.getD n 0) (rank.getD n 0) := by
    have := hC st.calls Ut n (rank.getD n 0) hUtw (by rw [hUtl]; exact hn) (by rw [hUtn]; exact hR n hn)
    rwa [hUtn] at this
  have hne : ∀ m ∈ done, n ≠ m := fun m hm e => hnd (e ▸ hm)
  have hnl : n < st.U.length := by rw [hI.lenU]; exact hn
  refine ⟨by simpa using hI.lenU, ?_, ?_, ?_, ?_⟩
  · intro m hm
    rcases List.mem_append.1 hm with h1 | h1
    · simp only
      rw [getD_set_ne' _ _ _ (hne m h1)]
      exact hI.ortho m h1
    · have : m = n := by simpa using h1
      subst this
      simp only
      rw [getD_set_self' _ _ _ hnl]
      exact hA
  · intro m hm
    simp only [List.mem_append, List.mem_singleton, not_or] at hm
    simp only
    rw [getD_set_ne' _ _ _ (Ne.symm hm.2)]
    exact hI.unchanged m hm.1
  · simp only [List.getLast?_append, List.getLast?_singleton, Option.some_or]
    rw [exclList_set, hUtv]
  · intro hM
    refine le_trans (hI.mono hM) ?_
    obtain ⟨hL, hK, h0⟩ := hM
    have hQ : OrthoCols (st.U.getD n []) (Ut.shape.getD n 0) (rank.getD n 0) := by
      rw [hUtn, hI.unchanged n hnd]; exact h0 n hn
    have := nvecs_dominant hC hL hK st.calls Ut n (rank.getD n 0) hUtw (by rw [hUtl]; exact hn)
      (by rw [hUtn]; exact hR n hn) _ hQ
    unfold energy
    rw [ttmFold_asc_eq X st.U _ n hn, ttmFold_asc_eq X (st.U.set n _) _ n hn, exclList_set,
      getD_set_self' _ _ _ hnl, ← hUtv]
    exact this

/-- What one iteration body establishes. -/
theorem sweep_ok {nvecs : Nat → Dense ℝ → Nat → Nat → Mat ℝ} (hC : NvecsContract nvecs) {X : Dense ℝ} (hX : X.WF)
    {rank : List Nat} (hR : ∀ n < X.shape.length, rank.getD n 0 ≤ X.shape.getD n 0) {order : List Nat}
    (hp : isPermOf order X.shape.length = true) {U U' : List (Mat ℝ)} (hU : U.length = X.shape.length)
    {calls calls' : Nat} {core : Dense ℝ} (h : sweep nvecs X rank order U calls = .ok (U', core, calls')) :
    U'.length = X.shape.length ∧
    (∀ n < X.shape.length, OrthoCols (U'.getD n []) (X.shape.getD n 0) (rank.getD n 0)) ∧
    core = ttmFold X (ascList U' X.shape.length) true ∧
    (MonoHyp nvecs X rank U → energy X U ≤ normSq core) := by
  unfold sweep at h
  split at h
  · cases h
  rename_i st hf
  have hI : SInv nvecs X rank U order st := by
    have := foldlM_inv (sweepStep nvecs X rank) (SInv nvecs X rank U) order [] ⟨U, none, calls⟩ st
      ⟨hU, fun _ hm => by simp at hm, fun _ _ => rfl, rfl, fun _ => le_refl _⟩
      (by
        intro done' s k s' hex hI hs
        obtain ⟨rest, hrest⟩ := hex
        simp only [List.nil_append] at hrest
        have hkm : k ∈ order := by rw [← hrest]; simp
        have hnd : k ∉ done' := by
          have := isPermOf_nodup' hp
          rw [← hrest] at this
          have := (List.nodup_append.1 this).2.2
          intro hk
          exact this k hk k (by simp) rfl
        exact hI.step hC hX hR (isPermOf_lt' hp hkm) hnd hs)
      hf
    simpa using this
  split at h
  · cases h
  rename_i Ut n hUt
  split at h
  · cases h
  rename_i core' hcore
  simp only [Except.ok.injEq, Prod.mk.injEq] at h
  obtain ⟨hU'e, hce, _⟩ := h
  subst hU'e
  subst hce
  have hlast := hI.last
  rw [hUt] at hlast
  cases hgl : order.getLast? with
  | none => rw [hgl] at hlast; cases hlast
  | some n' =>
    rw [hgl] at hlast
    simp only [Option.some.injEq, Prod.mk.injEq] at hlast
    obtain ⟨hUtv, hnn⟩ := hlast
    subst hnn
    have hnm : n ∈ order := List.mem_of_getLast? hgl
    have hn : n < X.shape.length := isPermOf_lt' hp hnm
    have hall : ∀ m < X.shape.length, m ∈ order := fun m hm =>
      (isPermOf_perm' hp).mem_iff.2 (List.mem_range.2 hm)
    have hc : core' = ttmFold X (ascList st.U X.shape.length) true := by
      have := (ttmDims_ok hcore).1
      rw [ttmPairs_single _ _ (by rw [hI.lenU]; exact hn)] at this
      rw [this, ttmFold_asc_eq X st.U _ n hn, hUtv]
      rfl
    refine ⟨hI.lenU, fun m hm => hI.ortho m (hall m hm), hc, ?_⟩
    intro hM
    rw [hc]
    exact hI.mono hM

end Tk
end Pyttb
