/-
Lemmas for the generators of property C20 (dense part, sparse generators, aggregator).
-/
import PyttbModel.Ops.Generators
import PyttbModel.Lemmas.Arr
import PyttbModel.Lemmas.Perm
import Mathlib.Data.List.Nodup
import Mathlib.Tactic.Linarith
import Mathlib.Algebra.Order.Ring.Rat
import Mathlib.Data.List.Perm.Subperm
import Mathlib.Algebra.Group.Defs
namespace Pyttb
variable {α : Type}

/-! ### point-wise writes -/

theorem foldl_set_length (es : List (Nat × α)) (d : List α) :
    (es.foldl (fun d e => d.set e.1 e.2) d).length = d.length := by
  induction es generalizing d with
  | nil => rfl
  | cons e es ih => simp [ih]

theorem foldl_set_getD_of_not_mem (es : List (Nat × α)) (d : List α) (p : Nat) (z : α)
    (h : ∀ e ∈ es, e.1 ≠ p) :
    (es.foldl (fun d e => d.set e.1 e.2) d).getD p z = d.getD p z := by
  induction es generalizing d with
  | nil => rfl
  | cons e es ih =>
    simp only [List.foldl_cons]
    rw [ih _ (fun e' he' => h e' (List.mem_cons_of_mem _ he'))]
    have := h e (List.mem_cons_self ..)
    simp [List.getD_eq_getElem?_getD, this]

theorem foldl_set_getD_const (es : List (Nat × α)) (d : List α) (p : Nat) (z v : α)
    (hv : ∀ e ∈ es, e.2 = v) (hp : ∃ e ∈ es, e.1 = p) (hl : p < d.length) :
    (es.foldl (fun d e => d.set e.1 e.2) d).getD p z = v := by
  induction es generalizing d with
  | nil => simp at hp
  | cons e es ih =>
    simp only [List.foldl_cons]
    by_cases h' : ∃ e' ∈ es, e'.1 = p
    · exact ih _ (fun e' he' => hv e' (List.mem_cons_of_mem _ he')) h' (by simpa using hl)
    · have he : e.1 = p := by
        obtain ⟨e', he', hp'⟩ := hp
        rcases List.mem_cons.1 he' with rfl | h2
        · exact hp'
        · exact absurd ⟨e', h2, hp'⟩ h'
      rw [foldl_set_getD_of_not_mem _ _ _ _ (fun e' he' hh => h' ⟨e', he', hh⟩)]
      have := hv e (List.mem_cons_self ..)
      simp [List.getD_eq_getElem?_getD, he, hl, this]

theorem foldl_set_getD_nodup (es : List (Nat × α)) (d : List α) (p : Nat) (z v : α)
    (hn : (es.map (·.1)).Nodup) (hp : (p, v) ∈ es) (hl : p < d.length) :
    (es.foldl (fun d e => d.set e.1 e.2) d).getD p z = v := by
  induction es generalizing d with
  | nil => simp at hp
  | cons e es ih =>
    simp only [List.foldl_cons]
    simp only [List.map_cons, List.nodup_cons] at hn
    rcases List.mem_cons.1 hp with rfl | h2
    · rw [foldl_set_getD_of_not_mem]
      · simp [List.getD_eq_getElem?_getD, hl]
      · intro e' he' hh
        apply hn.1
        rw [← hh]
        exact List.mem_map_of_mem (f := (·.1)) he'
    · exact ih _ hn.2 h2 (by simpa using hl)

namespace Dense

theorem setSubs_eq (T : Dense α) (subs : List (List Nat)) (vals : List α) :
    T.setSubs subs vals =
      ⟨T.shape, ((subs.zip vals).map fun e => (sub2ind T.shape e.1, e.2)).foldl
        (fun d e => d.set e.1 e.2) T.data⟩ := by
  simp [setSubs, List.foldl_map]

@[simp] theorem setSubs_shape (T : Dense α) (subs : List (List Nat)) (vals : List α) :
    (T.setSubs subs vals).shape = T.shape := rfl

theorem setSubs_WF (T : Dense α) (h : T.WF) (subs : List (List Nat)) (vals : List α) :
    (T.setSubs subs vals).WF := by
  rw [setSubs_eq]
  simp only [WF, foldl_set_length]
  exact h

theorem sub2ind_inj {s i j : List Nat} (hi : InBounds s i) (hj : InBounds s j)
    (h : sub2ind s i = sub2ind s j) : i = j := by
  rw [← ind2sub_sub2ind hi, ← ind2sub_sub2ind hj, h]

/-- An in-bounds subscript that is not written keeps its value. -/
theorem setSubs_get_of_not_mem [Zero α] (T : Dense α) (subs : List (List Nat)) (vals : List α)
    (hs : ∀ r ∈ subs, InBounds T.shape r) {i : List Nat} (hi : InBounds T.shape i) (hni : i ∉ subs) :
    (T.setSubs subs vals).get i = T.get i := by
  rw [setSubs_eq]
  simp only [get]
  apply foldl_set_getD_of_not_mem
  intro e he
  simp only [List.mem_map] at he
  obtain ⟨⟨r, v⟩, hrv, rfl⟩ := he
  intro hh
  have hr : r ∈ subs := (List.of_mem_zip hrv).1
  exact hni (sub2ind_inj hi (hs r hr) hh.symm ▸ hr)

/-- Writing one value at a list of in-bounds subscripts. -/
theorem setSubs_get_const [Zero α] (T : Dense α) (hT : T.WF) (subs : List (List Nat)) (v : α)
    {i : List Nat} (hi : InBounds T.shape i) (hmem : i ∈ subs) :
    (T.setSubs subs (List.replicate subs.length v)).get i = v := by
  rw [setSubs_eq]
  simp only [get]
  apply foldl_set_getD_const
  · intro e he
    simp only [List.mem_map] at he
    obtain ⟨⟨r, w⟩, hrw, rfl⟩ := he
    exact List.eq_of_mem_replicate (List.of_mem_zip hrw).2
  · obtain ⟨k, hk, rfl⟩ := List.getElem_of_mem hmem
    refine ⟨(sub2ind T.shape subs[k], v), ?_, rfl⟩
    simp only [List.mem_map]
    refine ⟨(subs[k], v), ?_, rfl⟩
    rw [List.mem_iff_getElem]
    refine ⟨k, by simpa using hk, by simp⟩
  · rw [hT]; exact sub2ind_lt hi

/-- Writing distinct in-bounds subscripts: each receives its own value. -/
theorem setSubs_get_nodup [Zero α] (T : Dense α) (hT : T.WF) (subs : List (List Nat)) (vals : List α)
    (hs : ∀ r ∈ subs, InBounds T.shape r) (hn : subs.Nodup) (hl : subs.length = vals.length)
    (k : Nat) (hk : k < subs.length) :
    (T.setSubs subs vals).get (subs[k]) = vals[k]'(hl ▸ hk) := by
  rw [setSubs_eq]
  simp only [get]
  apply foldl_set_getD_nodup
  · rw [List.map_map]
    have : ((fun e : Nat × α => e.1) ∘ fun e : List Nat × α => (sub2ind T.shape e.1, e.2)) =
        (fun r => sub2ind T.shape r) ∘ (fun e : List Nat × α => e.1) := rfl
    rw [this, ← List.map_map, List.map_fst_zip (by omega)]
    exact List.Nodup.map_on (fun a ha b hb hab => sub2ind_inj (hs a ha) (hs b hb) hab) hn
  · simp only [List.mem_map]
    refine ⟨(subs[k], vals[k]'(hl ▸ hk)), ?_, rfl⟩
    rw [List.mem_iff_getElem]
    exact ⟨k, by simp only [List.length_zip]; omega, by simp⟩
  · rw [hT]; exact sub2ind_lt (hs _ (List.getElem_mem hk))

end Dense

/-! ### dense generators -/
namespace Dense

theorem fromFunction_ok (s : List Nat) (out : Dense α) (hs : s ≠ []) (hn : out.data.length = numel s) :
    fromFunction s out = .ok ⟨s, out.data⟩ := by
  cases s with
  | nil => exact absurd rfl hs
  | cons a s => simp [fromFunction, hn]

theorem fromFunction_rejects (s : List Nat) (out : Dense α) :
    (s = [] → out.data ≠ [] → fromFunction s out = .error .reject) ∧
    (s ≠ [] → out.data.length ≠ numel s → fromFunction s out = .error .reject) := by
  constructor
  · rintro rfl h
    have : 0 < out.data.length := List.length_pos_iff.2 h
    simp [fromFunction, this]
  · intro hs hn
    cases s with
    | nil => exact absurd rfl hs
    | cons a s =>
      have : ¬ (a * numel s = out.data.length) := fun h => hn h.symm
      simp [fromFunction, this]

theorem tenones_ok [One α] (s : List Nat) (hs : s ≠ []) : tenones s = .ok (ofFn s fun _ => (1 : α)) := by
  unfold tenones
  rw [fromFunction_ok s _ hs (by simp [ofFn, length_allSubs])]
  rfl

theorem tenzeros_ok [Zero α] (s : List Nat) (hs : s ≠ []) : tenzeros s = .ok (ofFn s fun _ => (0 : α)) := by
  unfold tenzeros
  rw [fromFunction_ok s _ hs (by simp [ofFn, length_allSubs])]
  rfl

theorem tenrand_ok (s : List Nat) (draws : List α) (hs : s ≠ []) (hn : draws.length = numel s) :
    tenrand s draws = .ok ⟨s, draws⟩ := by
  unfold tenrand
  cases s with
  | nil => exact absurd rfl hs
  | cons a s => simp only [List.isEmpty_cons]; exact fromFunction_ok _ _ hs hn

end Dense

theorem inBounds_replicate (cs : List Nat) (k : Nat) :
    InBounds cs (List.replicate cs.length k) ↔ ∀ e ∈ cs, k < e := by
  induction cs with
  | nil => simp [InBounds]
  | cons a cs ih => simp [List.replicate_succ, InBounds, ih]

theorem diagShape_ge (N : Nat) (shape : Option (List Nat)) : ∀ e ∈ diagShape N shape, N ≤ e := by
  cases shape with
  | none => intro e he; simp [diagShape] at he; omega
  | some s =>
    intro e he
    simp only [diagShape, List.mem_map] at he
    obtain ⟨d, _, rfl⟩ := he
    exact Nat.le_max_left ..

theorem mem_diagSubs {N n : Nat} {i : List Nat} : i ∈ diagSubs N n ↔ ∃ k < N, i = List.replicate n k := by
  simp [diagSubs, eq_comm]

theorem replicate_inj_of_pos {n a b : Nat} (hn : 0 < n) (h : List.replicate n a = List.replicate n b) : a = b := by
  cases n with
  | zero => omega
  | succ n => simp [List.replicate_succ] at h; exact h.1

theorem diagSubs_nodup (N n : Nat) (hn : 0 < n) : (diagSubs N n).Nodup := by
  unfold diagSubs
  exact List.Nodup.map_on (fun a _ b _ h => replicate_inj_of_pos hn h) List.nodup_range

/-- `tendiag`: shape rule, diagonal entries, zero elsewhere. -/
theorem tendiag_spec [Zero α] (elements : List α) (shape : Option (List Nat))
    (hN : elements ≠ []) (hs : diagShape elements.length shape ≠ []) :
    ∃ T, Dense.tendiag elements shape = .ok T ∧ T.shape = diagShape elements.length shape ∧ T.WF ∧
      (∀ k (hk : k < elements.length), T.get (List.replicate T.shape.length k) = elements[k]) ∧
      (∀ i, InBounds T.shape i → (∀ k < elements.length, i ≠ List.replicate T.shape.length k) → T.get i = 0) := by
  have hN' : elements.length ≠ 0 := fun h => hN (List.length_eq_zero_iff.1 h)
  set cs := diagShape elements.length shape with hcs
  have hpos : 0 < cs.length := List.length_pos_iff.2 hs
  have hin : ∀ r ∈ diagSubs elements.length cs.length, InBounds cs r := by
    intro r hr
    obtain ⟨k, hk, rfl⟩ := mem_diagSubs.1 hr
    exact (inBounds_replicate cs k).2 fun e he => Nat.lt_of_lt_of_le hk (diagShape_ge _ _ e he)
  have hX : (Dense.ofFn cs fun _ => (0 : α)).WF := Dense.ofFn_WF _ _
  refine ⟨(Dense.ofFn cs fun _ => (0 : α)).setSubs (diagSubs elements.length cs.length) elements, ?_, rfl,
    Dense.setSubs_WF _ hX _ _, ?_, ?_⟩
  · simp only [Dense.tendiag, ← hcs, Dense.tenzeros_ok cs hs]
    simp [hN']
  · intro k hk
    have hlen : (diagSubs elements.length cs.length).length = elements.length := by simp [diagSubs]
    have := Dense.setSubs_get_nodup (Dense.ofFn cs fun _ => (0 : α)) hX (diagSubs elements.length cs.length)
      elements hin (diagSubs_nodup _ _ hpos) hlen k (by omega)
    simpa [diagSubs] using this
  · intro i hi hne
    have hi' : InBounds cs i := hi
    rw [Dense.setSubs_get_of_not_mem (Dense.ofFn cs fun _ => (0 : α)) _ _ hin hi']
    · exact Dense.ofFn_get _ _ hi'
    · intro hmem
      obtain ⟨k, hk, rfl⟩ := mem_diagSubs.1 hmem
      exact hne k hk rfl



/-! ### `np.unique(axis=0)` -/

theorem mem_eraseDups {β : Type} [BEq β] [LawfulBEq β] (l : List β) (x : β) : x ∈ l.eraseDups ↔ x ∈ l := by
  generalize hn : l.length = n
  induction n using Nat.strongRecOn generalizing l with
  | _ n ih =>
    cases l with
    | nil => simp
    | cons a as =>
      rw [List.eraseDups_cons]
      have hlen : (as.filter fun b => !b == a).length < n := by
        subst hn
        exact Nat.lt_succ_of_le (List.length_filter_le ..)
      rw [List.mem_cons, ih _ hlen _ rfl, List.mem_cons, List.mem_filter]
      constructor
      · rintro (h | ⟨h, _⟩)
        · exact Or.inl h
        · exact Or.inr h
      · rintro (h | h)
        · exact Or.inl h
        · by_cases hx : x = a
          · exact Or.inl hx
          · exact Or.inr ⟨h, by simpa using hx⟩

theorem nodup_eraseDups {β : Type} [BEq β] [LawfulBEq β] (l : List β) : l.eraseDups.Nodup := by
  generalize hn : l.length = n
  induction n using Nat.strongRecOn generalizing l with
  | _ n ih =>
    cases l with
    | nil => simp
    | cons a as =>
      rw [List.eraseDups_cons]
      have hlen : (as.filter fun b => !b == a).length < n := by
        subst hn
        exact Nat.lt_succ_of_le (List.length_filter_le ..)
      rw [List.nodup_cons]
      refine ⟨?_, ih _ hlen _ rfl⟩
      rw [mem_eraseDups, List.mem_filter]
      simp

theorem mem_uniqueRowsSorted (subs : List (List Nat)) (r : List Nat) :
    r ∈ uniqueRowsSorted subs ↔ r ∈ subs := by
  unfold uniqueRowsSorted
  rw [mem_eraseDups]
  exact (List.mergeSort_perm _ _).mem_iff

theorem nodup_uniqueRowsSorted (subs : List (List Nat)) : (uniqueRowsSorted subs).Nodup :=
  nodup_eraseDups _

/-! ### aggregation -/

/-- Sum of the values filed under key `i` in a list of key/value pairs. -/
def kvGet [Add α] [Zero α] (es : List (List Nat × α)) (i : List Nat) : α :=
  ((es.filter (fun e => e.1 == i)).map (·.2)).sum

theorem zip_map_fst_snd {β γ : Type} (l : List (β × γ)) : (l.map (·.1)).zip (l.map (·.2)) = l := by
  induction l with
  | nil => rfl
  | cons a l ih => simp [ih]

theorem Sparse.get_of_pairs [Add α] [Zero α] (s : List Nat) (es : List (List Nat × α)) (i : List Nat) :
    (⟨s, es.map (·.1), es.map (·.2)⟩ : Sparse α).get i = kvGet es i := by
  simp [Sparse.get, Sparse.entries, zip_map_fst_snd, kvGet]

/-- Lookup in the filtered tabulation of `g` over distinct keys. -/
theorem kvGet_filter_map [AddMonoid α] [BEq α] [LawfulBEq α] (U : List (List Nat)) (hU : U.Nodup)
    (g : List Nat → α) (i : List Nat) :
    kvGet ((U.map fun r => (r, g r)).filter fun e => !(e.2 == 0)) i = if i ∈ U then g i else 0 := by
  induction U with
  | nil => simp [kvGet]
  | cons u U ih =>
    rw [List.nodup_cons] at hU
    have ih := ih hU.2
    simp only [kvGet] at ih ⊢
    simp only [List.map_cons, List.filter_cons]
    by_cases hz : g u == 0
    · have hz' : g u = 0 := by simpa using hz
      simp only [hz, Bool.not_true, Bool.false_eq_true, if_false]
      rw [ih]
      by_cases hui : u = i
      · subst hui; simp [hU.1, hz']
      · have : i ≠ u := fun h => hui h.symm
        simp [List.mem_cons, this]
    · simp only [hz, Bool.not_false, if_true, List.filter_cons]
      by_cases hui : u = i
      · subst hui
        have hnot : ((List.map (fun r => (r, g r)) U).filter fun e => !(e.2 == 0)).filter (fun e => e.1 == u) = [] := by
          rw [List.filter_eq_nil_iff]
          intro e he
          simp only [List.mem_filter, List.mem_map] at he
          obtain ⟨⟨r, hr, rfl⟩, _⟩ := he
          simp only [beq_iff_eq]
          intro h; exact hU.1 (h ▸ hr)
        simp [hnot]
      · have : i ≠ u := fun h => hui h.symm
        have hb : ((u, g u).1 == i) = false := by simpa using hui
        simp only [hb, Bool.false_eq_true, if_false]
        rw [ih]
        simp [List.mem_cons, this]



theorem map_toNat_ofNat (r : List Nat) : (r.map Int.ofNat).map Int.toNat = r := by
  induction r with
  | nil => rfl
  | cons a r ih => simp [ih]

theorem map_map_toNat_ofNat (subs : List (List Nat)) :
    (subs.map fun r => r.map Int.ofNat).map (fun r => r.map Int.toNat) = subs := by
  induction subs with
  | nil => rfl
  | cons a r ih => simp only [List.map_cons, ih, map_toNat_ofNat]

theorem InBounds.pos {s i : List Nat} (h : InBounds s i) : ∀ e ∈ s, 0 < e := by
  induction s generalizing i with
  | nil => simp
  | cons a s ih =>
    cases i with
    | nil => simp [InBounds] at h
    | cons b i =>
      simp only [InBounds] at h
      intro e he
      rcases List.mem_cons.1 he with rfl | he
      · omega
      · exact ih h.2 e he

/-- The aggregating constructor on a validated request. -/
theorem fromAggregator_spec [AddMonoid α] [BEq α] [LawfulBEq α]
    (subs : List (List Nat)) (vals : List α) (s : List Nat) (r : List α → α)
    (hne : subs ≠ []) (hs : s ≠ []) (hin : ∀ i ∈ subs, InBounds s i) (hl : vals.length = subs.length) :
    ∃ S, Sparse.fromAggregator (subs.map fun i => i.map Int.ofNat) vals (some s) r = .ok S ∧
      S.shape = s ∧ S.WF ∧
      (∀ i, i ∈ S.subs ↔ i ∈ subs ∧ (r (groupVals subs vals i) == 0) = false) ∧
      ∀ i, S.get i = if i ∈ subs then r (groupVals subs vals i) else 0 := by
  obtain ⟨r0, rest, rfl⟩ := List.exists_cons_of_ne_nil hne
  have hr0 : InBounds s r0 := hin r0 (List.mem_cons_self ..)
  have hlen0 : r0.length = s.length := hr0.length_eq
  have hspos : 0 < s.length := List.length_pos_iff.2 hs
  have hpos : ∀ e ∈ s, 0 < e := hr0.pos
  set agg := (aggregateWith r (r0 :: rest) vals).filter fun e => !(e.2 == 0) with hagg
  have hsubs : agg.map (·.1) = (uniqueRowsSorted (r0 :: rest)).filter
      (fun u => !(r (groupVals (r0 :: rest) vals u) == 0)) := by
    simp only [hagg, aggregateWith, List.filter_map, List.map_map]
    conv => rhs; rw [← List.map_id (List.filter _ _)]
    rfl
  refine ⟨⟨s, agg.map (·.1), agg.map (·.2)⟩, ?_, rfl, ?_, ?_, ?_⟩
  · unfold Sparse.fromAggregator
    simp only [map_map_toNat_ofNat]
    have h1 : ((List.map (fun i => List.map Int.ofNat i) (r0 :: rest)).headD []).length = s.length := by
      simp [hlen0]
    have h2 : (List.map (fun i => List.map Int.ofNat i) (r0 :: rest)).length = (r0 :: rest).length := by simp
    have h3 : (List.map (fun i => List.map Int.ofNat i) (r0 :: rest)).any (fun r => r.any (· < 0)) = false := by
      rw [List.any_eq_false]
      intro x hx
      simp only [List.mem_map] at hx
      obtain ⟨i, _, rfl⟩ := hx
      simp
    have h4 : s.all (· > 0) = true := by simpa using hpos
    have h5 : (r0 :: rest).all (inBounds s) = true := by
      rw [List.all_eq_true]; intro i hi; exact (inBounds_iff s i).2 (hin i hi)
    have h6 : ((r0 :: rest).length == 0) = false := by simp
    have h7 : (s.length == 0) = false := by simpa using Nat.ne_of_gt hspos
    simp only [h1, h2, h3, h4, h6, h7, hl]
    simp [hagg]
    exact ⟨(inBounds_iff s r0).2 hr0, fun x hx => (inBounds_iff s x).2 (hin x (List.mem_cons_of_mem _ hx))⟩
  · have hsub : (agg.map (·.1)).Sublist (uniqueRowsSorted (r0 :: rest)) := by
      have : agg.map (·.1) = (uniqueRowsSorted (r0 :: rest)).filter
          (fun u => !(r (groupVals (r0 :: rest) vals u) == 0)) := by
        simp only [hagg, aggregateWith, List.filter_map, List.map_map]
        conv => rhs; rw [← List.map_id (List.filter _ _)]
        rfl
      rw [this]
      exact List.filter_sublist
    refine ⟨by simp, ?_, hsub.nodup (nodup_uniqueRowsSorted _), ?_⟩
    · intro i hi
      exact hin i ((mem_uniqueRowsSorted _ _).1 (hsub.subset hi))
    · intro v hv
      simp only [List.mem_map] at hv
      obtain ⟨e, he, rfl⟩ := hv
      have := (List.mem_filter.1 he).2
      simpa using this
  · intro i
    show i ∈ agg.map (·.1) ↔ _
    rw [hsubs, List.mem_filter, mem_uniqueRowsSorted]
    simp
  · intro i
    rw [Sparse.get_of_pairs, hagg]
    unfold aggregateWith
    rw [kvGet_filter_map _ (nodup_uniqueRowsSorted _)]
    simp only [mem_uniqueRowsSorted]



theorem groupVals_of_not_mem (subs : List (List Nat)) (vals : List α) (i : List Nat) (h : i ∉ subs) :
    groupVals subs vals i = [] := by
  unfold groupVals
  rw [List.map_eq_nil_iff, List.filter_eq_nil_iff]
  intro e he
  have := (List.of_mem_zip (a := e.1) (b := e.2) he).1
  simp only [beq_iff_eq]
  intro hh; exact h (hh ▸ this)

/-- With the summing reducer the result denotes the sum of the values stored under each
subscript, i.e. the denotation of the raw coordinate list. -/
theorem fromAggregator_sum [AddMonoid α] [BEq α] [LawfulBEq α]
    (subs : List (List Nat)) (vals : List α) (s : List Nat)
    (hne : subs ≠ []) (hs : s ≠ []) (hin : ∀ i ∈ subs, InBounds s i) (hl : vals.length = subs.length) :
    ∃ S, Sparse.fromAggregator (subs.map fun i => i.map Int.ofNat) vals (some s) List.sum = .ok S ∧
      S.shape = s ∧ S.WF ∧ ∀ i, S.get i = (⟨s, subs, vals⟩ : Sparse α).get i := by
  obtain ⟨S, h1, h2, h3, _, h5⟩ := fromAggregator_spec subs vals s List.sum hne hs hin hl
  refine ⟨S, h1, h2, h3, fun i => ?_⟩
  rw [h5 i]
  by_cases hi : i ∈ subs
  · simp [hi, Sparse.get, Sparse.entries, groupVals]
  · have := groupVals_of_not_mem subs vals i hi
    simp only [hi, if_false, Sparse.get, Sparse.entries]
    unfold groupVals at this
    rw [this]; rfl

theorem groupVals_perm {subs subs' : List (List Nat)} {vals vals' : List α}
    (hp : (subs'.zip vals').Perm (subs.zip vals)) (i : List Nat) :
    (groupVals subs' vals' i).Perm (groupVals subs vals i) :=
  (hp.filter _).map _

theorem mem_of_zip_perm {subs subs' : List (List Nat)} {vals vals' : List α}
    (hl : vals.length = subs.length) (hl' : vals'.length = subs'.length)
    (hp : (subs'.zip vals').Perm (subs.zip vals)) (i : List Nat) : i ∈ subs' ↔ i ∈ subs := by
  have h1 : subs = (subs.zip vals).map (·.1) := (List.map_fst_zip (by omega)).symm
  have h2 : subs' = (subs'.zip vals').map (·.1) := (List.map_fst_zip (by omega)).symm
  rw [h1, h2]
  exact (hp.map _).mem_iff

/-- For a reducer that does not depend on the order of its arguments, listing the same
(subscript, value) pairs in another order gives a tensor with the same entries. -/
theorem fromAggregator_perm [AddMonoid α] [BEq α] [LawfulBEq α]
    (subs subs' : List (List Nat)) (vals vals' : List α) (s : List Nat) (r : List α → α)
    (hr : ∀ l₁ l₂ : List α, l₁.Perm l₂ → r l₁ = r l₂)
    (hne : subs ≠ []) (hs : s ≠ []) (hin : ∀ i ∈ subs, InBounds s i) (hl : vals.length = subs.length)
    (hl' : vals'.length = subs'.length) (hp : (subs'.zip vals').Perm (subs.zip vals)) :
    ∃ S S', Sparse.fromAggregator (subs.map fun i => i.map Int.ofNat) vals (some s) r = .ok S ∧
      Sparse.fromAggregator (subs'.map fun i => i.map Int.ofNat) vals' (some s) r = .ok S' ∧
      S'.WF ∧ ∀ i, S'.get i = S.get i := by
  have hmem := mem_of_zip_perm hl hl' hp
  have hne' : subs' ≠ [] := by
    obtain ⟨a, l, rfl⟩ := List.exists_cons_of_ne_nil hne
    have : a ∈ subs' := (hmem a).2 (List.mem_cons_self ..)
    exact List.ne_nil_of_mem this
  have hin' : ∀ i ∈ subs', InBounds s i := fun i hi => hin i ((hmem i).1 hi)
  obtain ⟨S, h1, _, _, _, h5⟩ := fromAggregator_spec subs vals s r hne hs hin hl
  obtain ⟨S', h1', _, h3', _, h5'⟩ := fromAggregator_spec subs' vals' s r hne' hs hin' hl'
  refine ⟨S, S', h1, h1', h3', fun i => ?_⟩
  rw [h5 i, h5' i]
  simp only [hmem i]
  rw [hr _ _ (groupVals_perm hp i)]

/-- No rows (or no columns): the empty tensor of the given shape. -/
theorem fromAggregator_empty [Zero α] [BEq α] (vals : List α) (s : List Nat) (r : List α → α)
    (hpos : ∀ e ∈ s, 0 < e) :
    Sparse.fromAggregator [] vals (some s) r = .ok ⟨s, [], []⟩ := by
  have h4 : s.all (· > 0) = true := by simpa using hpos
  simp [Sparse.fromAggregator, h4]



/-- A negative subscript is refused. -/
theorem fromAggregator_rejects_neg [Zero α] [BEq α] (subs : List (List Int)) (vals : List α)
    (shape : Option (List Nat)) (r : List α → α) (hne : subs ≠ []) (hc : (subs.headD []).length ≠ 0)
    (hneg : ∃ row ∈ subs, ∃ x ∈ row, x < 0) :
    Sparse.fromAggregator subs vals shape r = .error .reject := by
  have h1 : (subs.length == 0) = false := by
    simpa using fun h => hne (List.length_eq_zero_iff.1 h)
  have h2 : ((subs.headD []).length == 0) = false := by simpa using hc
  have h3 : subs.any (fun r => r.any (· < 0)) = true := by
    obtain ⟨row, hrow, x, hx, hlt⟩ := hneg
    rw [List.any_eq_true]
    exact ⟨row, hrow, List.any_eq_true.2 ⟨x, hx, by simpa using hlt⟩⟩
  simp only [Sparse.fromAggregator, h1, h2, h3, Bool.or_self, Bool.not_false, Bool.and_self, if_true]

/-- A subscript outside the given shape (wrong number of columns included), or a value list
of another length than the subscript list, is refused. -/
theorem fromAggregator_rejects [Zero α] [BEq α] (subs : List (List Nat)) (vals : List α)
    (s : List Nat) (r : List α → α) (hne : subs ≠ []) (hc : (subs.headD []).length ≠ 0)
    (hbad : (¬ ∀ i ∈ subs, InBounds s i) ∨ vals.length ≠ subs.length) :
    Sparse.fromAggregator (subs.map fun i => i.map Int.ofNat) vals (some s) r = .error .reject := by
  obtain ⟨r0, rest, rfl⟩ := List.exists_cons_of_ne_nil hne
  have h1 : ((List.map (fun i => List.map Int.ofNat i) (r0 :: rest)).headD []).length = r0.length := by simp
  have h2 : (List.map (fun i => List.map Int.ofNat i) (r0 :: rest)).length = (r0 :: rest).length := by simp
  have h6 : ((r0 :: rest).length == 0) = false := by simp
  have h7 : (r0.length == 0) = false := by simpa using hc
  simp only [Sparse.fromAggregator, map_map_toNat_ofNat, h1, h2, h6, h7, Bool.or_self, Bool.not_false,
    Bool.true_and]
  cases hall : s.all (· > 0)
  · simp only [Bool.false_eq_true, if_false]
    repeat' split
    all_goals rfl
  simp only [if_true]
  by_cases hv : vals.length = (r0 :: rest).length
  · have hin : ¬ ∀ i ∈ r0 :: rest, InBounds s i := by
      rcases hbad with h | h
      · exact h
      · exact absurd hv h
    have h5 : (r0 :: rest).all (inBounds s) = false := by
      rw [List.all_eq_false]
      simp only [not_forall] at hin
      obtain ⟨i, hi, hni⟩ := hin
      exact ⟨i, hi, by rw [inBounds_iff]; exact hni⟩
    have hv' : (vals.length != (r0 :: rest).length) = false := by simp [hv]
    simp only [hv', h5, Bool.and_false, Bool.false_eq_true, if_false, Bool.not_false, if_true]
    repeat' split
    all_goals rfl
  · have hv' : (vals.length != (r0 :: rest).length) = true := by
      simpa using hv
    simp only [hv', Bool.and_true, if_true]
    repeat' split
    all_goals first | rfl | (exfalso; simp_all)



theorem groupVals_nodup (subs : List (List Nat)) (vals : List α) (hn : subs.Nodup)
    (hl : subs.length = vals.length) (k : Nat) (hk : k < subs.length) :
    groupVals subs vals subs[k] = [vals[k]'(hl ▸ hk)] := by
  induction subs generalizing vals k with
  | nil => simp at hk
  | cons a subs ih =>
    cases vals with
    | nil => simp at hl
    | cons v vals =>
      rw [List.nodup_cons] at hn
      simp only [List.length_cons, Nat.add_right_cancel_iff] at hl
      cases k with
      | zero =>
        have := groupVals_of_not_mem subs vals a hn.1
        simp only [groupVals] at this ⊢
        simp [this]
      | succ k =>
        simp only [List.length_cons, Nat.add_lt_add_iff_right] at hk
        have hne : (a == subs[k]) = false := by
          simp only [beq_eq_false_iff_ne, ne_eq]
          intro h; exact hn.1 (h ▸ List.getElem_mem hk)
        have := ih vals hn.2 hl k hk
        simp only [groupVals] at this ⊢
        simp [hne, this]

/-- `sptendiag`: same shape rule and denotation as `tendiag`, well-formed, zero elements are
not stored. -/
theorem sptendiag_spec [AddMonoid α] [BEq α] [LawfulBEq α] (elements : List α) (shape : Option (List Nat))
    (hN : elements ≠ []) (hs : diagShape elements.length shape ≠ []) :
    ∃ S, Sparse.sptendiag elements shape = .ok S ∧ S.shape = diagShape elements.length shape ∧ S.WF ∧
      (∀ k (hk : k < elements.length), S.get (List.replicate S.shape.length k) = elements[k]) ∧
      (∀ i, (∀ k < elements.length, i ≠ List.replicate S.shape.length k) → S.get i = 0) ∧
      (∀ k (hk : k < elements.length),
        List.replicate S.shape.length k ∈ S.subs ↔ (elements[k] == 0) = false) ∧
      (∀ i ∈ S.subs, ∃ k < elements.length, i = List.replicate S.shape.length k) := by
  have hN' : 0 < elements.length := List.length_pos_iff.2 hN
  set cs := diagShape elements.length shape with hcs
  have hpos : 0 < cs.length := List.length_pos_iff.2 hs
  have hin : ∀ r ∈ diagSubs elements.length cs.length, InBounds cs r := by
    intro r hr
    obtain ⟨k, hk, rfl⟩ := mem_diagSubs.1 hr
    exact (inBounds_replicate cs k).2 fun e he => Nat.lt_of_lt_of_le hk (diagShape_ge _ _ e he)
  have hlen : (diagSubs elements.length cs.length).length = elements.length := by simp [diagSubs]
  have hne : diagSubs elements.length cs.length ≠ [] := by
    intro h; rw [h] at hlen; simp at hlen; omega
  obtain ⟨S, h1, h2, h3, h4, h5⟩ := fromAggregator_spec (diagSubs elements.length cs.length) elements cs
    List.sum hne hs hin hlen.symm
  have hnd := diagSubs_nodup elements.length cs.length hpos
  have hgv : ∀ k (hk : k < elements.length),
      groupVals (diagSubs elements.length cs.length) elements (List.replicate cs.length k) = [elements[k]] := by
    intro k hk
    have := groupVals_nodup (diagSubs elements.length cs.length) elements hnd hlen k (by omega)
    simpa [diagSubs] using this
  refine ⟨S, ?_, h2, h3, ?_, ?_, ?_, ?_⟩
  · simp only [Sparse.sptendiag, ← hcs]; exact h1
  · intro k hk
    rw [h2, h5, if_pos (mem_diagSubs.2 ⟨k, hk, rfl⟩), hgv k hk]
    simp
  · intro i hne
    rw [h5, if_neg]
    intro hmem
    obtain ⟨k, hk, rfl⟩ := mem_diagSubs.1 hmem
    exact hne k hk (by rw [h2])
  · intro k hk
    rw [h2, h4, hgv k hk]
    simp [mem_diagSubs.2 ⟨k, hk, rfl⟩]
  · intro i hi
    rw [h2]
    exact mem_diagSubs.1 ((h4 i).1 hi).1



/-! ### the redraw loop of `sptensor.from_function` -/

/-- Rows of the final state come from the initial state or from one of the draws consumed. -/
theorem drawLoop_mem (nz : Nat) (draw : Nat → List (List Nat)) (fuel : Nat) (st : DrawState) (r : List Nat)
    (h : r ∈ (drawLoop nz draw fuel st).subs ∨ r ∈ (drawLoop nz draw fuel st).pooled) :
    (r ∈ st.subs ∨ r ∈ st.pooled) ∨ ∃ k, st.cnt ≤ k ∧ k < st.cnt + fuel ∧ r ∈ draw k := by
  induction fuel generalizing st with
  | zero => exact Or.inl h
  | succ fuel ih =>
    unfold drawLoop at h
    split at h
    · rcases ih _ h with h' | ⟨k, hk1, hk2, hk3⟩
      · simp only [mem_uniqueRowsSorted, List.mem_append] at h'
        rcases h' with h' | h' | h'
        · exact Or.inr ⟨st.cnt, Nat.le_refl _, by omega, h'⟩
        · exact Or.inl (Or.inr h')
        · exact Or.inr ⟨st.cnt, Nat.le_refl _, by omega, h'⟩
      · exact Or.inr ⟨k, by simp at hk1; omega, by simp at hk2; omega, hk3⟩
    · exact Or.inl h

theorem drawLoop_nodup (nz : Nat) (draw : Nat → List (List Nat)) (fuel : Nat) (st : DrawState)
    (h1 : st.subs.Nodup) (h2 : st.pooled.Nodup) :
    (drawLoop nz draw fuel st).subs.Nodup ∧ (drawLoop nz draw fuel st).pooled.Nodup := by
  induction fuel generalizing st with
  | zero => exact ⟨h1, h2⟩
  | succ fuel ih =>
    unfold drawLoop
    split
    · exact ih _ (nodup_uniqueRowsSorted _) (nodup_uniqueRowsSorted _)
    · exact ⟨h1, h2⟩

theorem drawLoop_cnt_le (nz : Nat) (draw : Nat → List (List Nat)) (fuel : Nat) (st : DrawState) :
    (drawLoop nz draw fuel st).cnt ≤ st.cnt + fuel := by
  induction fuel generalizing st with
  | zero => exact Nat.le_refl _
  | succ fuel ih =>
    unfold drawLoop
    split
    · refine Nat.le_trans (ih _) ?_
      simp only; omega
    · omega

/-- If the loop ends with too few rows it has used all its draws, none of which had enough
distinct rows on its own, and the pool holds every row drawn. -/
theorem drawLoop_short (nz : Nat) (draw : Nat → List (List Nat)) (fuel : Nat) (st : DrawState)
    (h : (drawLoop nz draw fuel st).subs.length < nz) :
    (drawLoop nz draw fuel st).cnt = st.cnt + fuel ∧
    (∀ r ∈ st.pooled, r ∈ (drawLoop nz draw fuel st).pooled) ∧
    ∀ k, st.cnt ≤ k → k < st.cnt + fuel →
      (uniqueRowsSorted (draw k)).length < nz ∧ ∀ r ∈ draw k, r ∈ (drawLoop nz draw fuel st).pooled := by
  induction fuel generalizing st with
  | zero => exact ⟨rfl, fun r hr => hr, fun k h1 h2 => by omega⟩
  | succ fuel ih =>
    unfold drawLoop at h ⊢
    split at h
    · rename_i hlt
      simp only [hlt, if_true]
      obtain ⟨a, b, c⟩ := ih _ h
      simp only at a b c
      refine ⟨by omega, ?_, ?_⟩
      · intro r hr
        exact b r (by simp [mem_uniqueRowsSorted, hr])
      · intro k hk1 hk2
        by_cases hk : k = st.cnt
        · subst hk
          refine ⟨?_, fun r hr => b r (by simp [mem_uniqueRowsSorted, hr])⟩
          -- the first draw of this round: either it is the final candidate or it was replaced
          cases fuel with
          | zero => simpa [drawLoop] using h
          | succ f =>
            by_contra hge
            have hge' : ¬ (uniqueRowsSorted (draw st.cnt)).length < nz := hge
            unfold drawLoop at h
            simp only [hge', if_false] at h
        · exact c k (by omega) (by omega)
    · rename_i hge
      exact absurd h hge



/-- Facts about the subscripts `from_function` settles on. -/
theorem chooseSubs_spec (nz : Nat) (draw : Nat → List (List Nat)) :
    let res := chooseSubs true nz draw
    res.1.Nodup ∧ res.1.length ≤ nz ∧ res.2 ≤ 10 ∧
    (∀ r ∈ res.1, ∃ k < 10, r ∈ draw k) ∧
    ((∃ k < 10, nz ≤ (uniqueRowsSorted (draw k)).length) → res.1.length = nz) ∧
    (∀ R : List (List Nat), R.Nodup → (∀ r ∈ R, ∃ k < 10, r ∈ draw k) → nz ≤ R.length → res.1.length = nz) ∧
    (∀ R : List (List Nat), R.Nodup → (∀ r ∈ R, ∃ k < 10, r ∈ draw k) → R.length < nz →
      (∀ k < 10, ∀ r ∈ draw k, r ∈ R) → res.1.length = R.length) := by
  intro res
  set st := drawLoop nz draw 10 ⟨[], [], 0⟩ with hst
  have hnd := drawLoop_nodup nz draw 10 ⟨[], [], 0⟩ List.nodup_nil List.nodup_nil
  have hmem := drawLoop_mem nz draw 10 ⟨[], [], 0⟩
  have hcnt := drawLoop_cnt_le nz draw 10 ⟨[], [], 0⟩
  have hshort := drawLoop_short nz draw 10 ⟨[], [], 0⟩
  rw [← hst] at hnd hmem hcnt hshort
  simp only [Nat.zero_add, Nat.zero_le, true_and, List.not_mem_nil, or_self, false_or, forall_const,
    false_implies, implies_true] at hmem hcnt hshort
  set subs0 := if st.subs.length < nz then st.pooled else st.subs with hs0
  have hres1 : res.1 = subs0.take (min nz subs0.length) := by
    simp [res, chooseSubs, ← hst, hs0]
  have hres2 : res.2 = st.cnt := rfl
  have hnd0 : subs0.Nodup := by
    rw [hs0]; split
    · exact hnd.2
    · exact hnd.1
  have hmem0 : ∀ r ∈ subs0, ∃ k < 10, r ∈ draw k := by
    intro r hr
    rw [hs0] at hr
    split at hr
    · exact hmem r (Or.inr hr)
    · exact hmem r (Or.inl hr)
  have hlen : res.1.length = min nz subs0.length := by
    rw [hres1, List.length_take]; omega
  refine ⟨?_, by omega, by omega, ?_, ?_, ?_, ?_⟩
  · rw [hres1]; exact hnd0.sublist (List.take_sublist _ _)
  · intro r hr
    rw [hres1] at hr
    exact hmem0 r (List.mem_of_mem_take hr)
  · rintro ⟨k, hk, hge⟩
    by_cases hsh : st.subs.length < nz
    · have := (hshort hsh).2 k hk
      omega
    · have : subs0 = st.subs := by rw [hs0, if_neg hsh]
      rw [hlen, this]; omega
  · intro R hR hRmem hRlen
    by_cases hsh : st.subs.length < nz
    · have hs : subs0 = st.pooled := by rw [hs0, if_pos hsh]
      have hsub : R ⊆ st.pooled := by
        intro r hr
        obtain ⟨k, hk, hrk⟩ := hRmem r hr
        exact ((hshort hsh).2 k hk).2 r hrk
      have := (List.subperm_of_subset hR hsub).length_le
      rw [hlen, hs]; omega
    · have : subs0 = st.subs := by rw [hs0, if_neg hsh]
      rw [hlen, this]; omega
  · intro R hR hRmem hRlen hall
    have hsh : st.subs.length < nz := by
      by_contra hge
      have hsub : st.subs ⊆ R := by
        intro r hr
        obtain ⟨k, hk, hrk⟩ := hmem r (Or.inl hr)
        exact hall k hk r hrk
      have := (List.subperm_of_subset hnd.1 hsub).length_le
      omega
    have hs : subs0 = st.pooled := by rw [hs0, if_pos hsh]
    have h1 : st.pooled ⊆ R := by
      intro r hr
      obtain ⟨k, hk, hrk⟩ := hmem r (Or.inr hr)
      exact hall k hk r hrk
    have h2 : R ⊆ st.pooled := by
      intro r hr
      obtain ⟨k, hk, hrk⟩ := hRmem r hr
      exact ((hshort hsh).2 k hk).2 r hrk
    have l1 := (List.subperm_of_subset hnd.2 h1).length_le
    have l2 := (List.subperm_of_subset hR h2).length_le
    rw [hlen, hs]; omega



theorem numel_pos_iff (s : List Nat) : 0 < numel s ↔ ∀ e ∈ s, 0 < e := by
  induction s with
  | nil => simp
  | cons a s ih =>
    simp only [Nat.pos_iff_ne_zero] at ih
    simp only [numel_cons, List.mem_cons, forall_eq_or_imp, Nat.pos_iff_ne_zero, ne_eq,
      Nat.mul_eq_zero, not_or, ih]

theorem scale_lt (u : Rat) (s : Nat) (_h0 : 0 ≤ u) (h1 : u < 1) (hs : 0 < s) :
    (u * (s : Rat)).floor.toNat < s := by
  have hs' : (0 : Rat) < (s : Rat) := by exact_mod_cast hs
  have hlt : (u * (s : Rat)).floor < (s : Int) := by
    rw [Rat.floor_lt_iff]
    have : u * (s : Rat) < 1 * (s : Rat) := mul_lt_mul_of_pos_right h1 hs'
    simpa using this
  omega

theorem scaleDraw_inBounds (shape : List Nat) (hpos : ∀ e ∈ shape, 0 < e) (U : List (List Rat))
    (hU : ∀ row ∈ U, row.length = shape.length ∧ ∀ u ∈ row, 0 ≤ u ∧ u < 1) :
    ∀ r ∈ scaleDraw shape U, InBounds shape r := by
  intro r hr
  simp only [scaleDraw, List.mem_map] at hr
  obtain ⟨row, hrow, rfl⟩ := hr
  obtain ⟨hl, hu⟩ := hU row hrow
  clear hrow hU
  induction shape generalizing row with
  | nil => cases row <;> simp_all [InBounds]
  | cons a s ih =>
    cases row with
    | nil => simp at hl
    | cons u row =>
      simp only [List.zipWith_cons_cons, InBounds]
      refine ⟨scale_lt u a (hu u (List.mem_cons_self ..)).1 (hu u (List.mem_cons_self ..)).2
        (hpos a (List.mem_cons_self ..)), ?_⟩
      exact ih (fun e he => hpos e (List.mem_cons_of_mem _ he)) row (by simpa using hl)
        (fun v hv => hu v (List.mem_cons_of_mem _ hv))

/-- The request as a count never exceeds the number of cells. -/
theorem nonzerosRequest_le (shape : List Nat) (q : Rat) (nz : Nat)
    (h : nonzerosRequest true shape q = .ok nz) : nz ≤ numel shape := by
  unfold nonzerosRequest at h
  simp only [Bool.not_true, Bool.false_and, Bool.or_false] at h
  split at h
  · cases h
  · rename_i hc
    simp only [Bool.or_eq_true, decide_eq_true_eq, not_or, not_lt] at hc
    obtain ⟨h0, hsz⟩ := hc
    split at h
    · rename_i h1
      injection h with h
      subst h
      have : ((numel shape : Nat) : Rat) * q ≤ ((numel shape : Nat) : Rat) := by
        have hn : (0 : Rat) ≤ ((numel shape : Nat) : Rat) := by exact_mod_cast Nat.zero_le _
        nlinarith
      have hc : (((numel shape : Nat) : Rat) * q).ceil ≤ ((numel shape : Nat) : Int) := by
        rw [Rat.ceil_le_iff]; exact_mod_cast this
      omega
    · injection h with h
      subst h
      have hf : q.floor ≤ ((numel shape : Nat) : Int) := by
        have h1 := Rat.floor_le q
        have h2 : ((q.floor : Int) : Rat) ≤ (((numel shape : Nat) : Int) : Rat) := by
          refine le_trans h1 ?_
          exact_mod_cast hsz
        exact_mod_cast h2
      omega

/-- A whole number of nonzeros within the tensor size is taken as it is. -/
theorem nonzerosRequest_nat (shape : List Nat) (k : Nat) (hk : k ≤ numel shape) :
    nonzerosRequest true shape (k : Rat) = .ok k := by
  unfold nonzerosRequest
  have h0 : ¬ ((k : Rat) < 0) := by
    have : (0 : Rat) ≤ (k : Rat) := by exact_mod_cast Nat.zero_le k
    exact not_lt.2 this
  have h1 : ¬ ((k : Rat) > ((numel shape : Nat) : Rat)) := by
    have : (k : Rat) ≤ ((numel shape : Nat) : Rat) := by exact_mod_cast hk
    exact not_lt.2 this
  simp only [Bool.not_true, Bool.false_and, Bool.or_false, h0, h1, decide_false, Bool.or_self,
    Bool.false_eq_true, if_false]
  rcases Nat.eq_zero_or_pos k with rfl | hpos
  · have : Rat.ceil 0 = 0 := by decide
    simp [this]
  · have : ¬ ((k : Rat) < 1) := by
      have : (1 : Rat) ≤ (k : Rat) := by exact_mod_cast hpos
      exact not_lt.2 this
    simp only [this, decide_false, Bool.false_eq_true, if_false]
    have : (k : Rat) = ((k : Int) : Rat) := by simp
    rw [this, Rat.floor_intCast]
    simp



/-- `sptensor.from_function` on an accepted request with draws in `[0,1)` and a function that
returns as many non-zero values as it is asked for. -/
theorem fromFunction_spec [Zero α] [BEq α] (shape : List Nat) (q : Rat) (nz : Nat)
    (draw : Nat → List (List Rat)) (fh : Nat → List α)
    (hq : nonzerosRequest true shape q = .ok nz)
    (hdraw : ∀ k < 10, ∀ row ∈ draw k, row.length = shape.length ∧ ∀ u ∈ row, 0 ≤ u ∧ u < 1)
    (hfh : ∀ n, (fh n).length = n ∧ ∀ v ∈ fh n, (v == 0) = false) :
    ∃ S cnt, Sparse.fromFunction shape q draw fh = .ok (S, cnt) ∧ S.shape = shape ∧ S.WF ∧ cnt ≤ 10 ∧
      S.vals = fh S.subs.length ∧
      S.subs = (chooseSubs true nz fun k => scaleDraw shape (draw k)).1 := by
  obtain ⟨hnd, hle, hcnt, hmem, -, -, -⟩ := chooseSubs_spec nz fun k => scaleDraw shape (draw k)
  set res := chooseSubs true nz fun k => scaleDraw shape (draw k) with hres
  have hin : ∀ r ∈ res.1, InBounds shape r := by
    intro r hr
    obtain ⟨k, hk, hrk⟩ := hmem r hr
    have hnz : 0 < nz := by
      have : 0 < res.1.length := List.length_pos_of_mem hr
      omega
    have hpos : ∀ e ∈ shape, 0 < e :=
      (numel_pos_iff shape).1 (Nat.lt_of_lt_of_le hnz (nonzerosRequest_le shape q nz hq))
    exact scaleDraw_inBounds shape hpos (draw k) (hdraw k hk) r hrk
  have hall : res.1.all (inBounds shape) = true := by
    rw [List.all_eq_true]; intro r hr; exact (inBounds_iff shape r).2 (hin r hr)
  refine ⟨⟨shape, res.1, fh res.1.length⟩, res.2, ?_, rfl, ?_, hcnt, rfl, rfl⟩
  · simp only [Sparse.fromFunction, Sparse.fromFunctionG, hq]
    rw [← hres]
    obtain ⟨a, b⟩ := res
    simp only at hall
    simp [hall]
  · exact ⟨by simp [(hfh _).1], hin, hnd, (hfh _).2⟩

/-- Refused requests: negative, or more nonzeros than cells. -/
theorem fromFunction_rejects (shape : List Nat) (q : Rat) (draw : Nat → List (List Rat)) (fh : Nat → List α)
    (h : q < 0 ∨ ((numel shape : Nat) : Rat) < q) :
    Sparse.fromFunction shape q draw fh = .error .reject := by
  have : (decide (q < 0) || decide (q > ((numel shape : Nat) : Rat))) = true := by
    rcases h with h | h <;> simp [h]
  simp [Sparse.fromFunction, Sparse.fromFunctionG, nonzerosRequest, this]

theorem sptenrand_rejects (shape : List Nat) (d nz : Option Rat) (draw : Nat → List (List Rat))
    (vd : Nat → List α) :
    (d = none → nz = none → Sparse.sptenrand shape d nz draw vd = .error .reject) ∧
    (d ≠ none → nz ≠ none → Sparse.sptenrand shape d nz draw vd = .error .reject) ∧
    (∀ x, d = some x → nz = none → (x ≤ 0 ∨ 1 < x) → Sparse.sptenrand shape d nz draw vd = .error .reject) := by
  refine ⟨?_, ?_, ?_⟩
  · rintro rfl rfl; rfl
  · intro h1 h2
    cases d with
    | none => exact absurd rfl h1
    | some x => cases nz with
      | none => exact absurd rfl h2
      | some y => rfl
  · rintro x rfl rfl hx
    have : (decide (0 < x) && decide (x ≤ 1)) = false := by
      rcases hx with h | h
      · have : ¬ (0 < x) := not_lt.2 h
        simp [this]
      · have : ¬ (x ≤ 1) := not_le.2 h
        simp [this]
    simp [Sparse.sptenrand, Sparse.sptenrandG, this]

/-- The result is a function of the first ten draws only. -/
theorem drawLoop_congr (nz : Nat) (draw draw' : Nat → List (List Nat)) (fuel : Nat) (st : DrawState)
    (h : ∀ k, st.cnt ≤ k → k < st.cnt + fuel → draw k = draw' k) :
    drawLoop nz draw fuel st = drawLoop nz draw' fuel st := by
  induction fuel generalizing st with
  | zero => rfl
  | succ fuel ih =>
    unfold drawLoop
    split
    · rw [h st.cnt (Nat.le_refl _) (by omega)]
      exact ih _ (fun k h1 h2 => h k (by simp at h1; omega) (by simp at h2; omega))
    · rfl

theorem fromFunction_congr (shape : List Nat) (q : Rat) (draw draw' : Nat → List (List Rat)) (fh : Nat → List α)
    (h : ∀ k < 10, draw k = draw' k) :
    Sparse.fromFunction shape q draw fh = Sparse.fromFunction shape q draw' fh := by
  have : ∀ nz, chooseSubs true nz (fun k => scaleDraw shape (draw k)) =
      chooseSubs true nz (fun k => scaleDraw shape (draw' k)) := by
    intro nz
    unfold chooseSubs
    rw [drawLoop_congr nz _ (fun k => scaleDraw shape (draw' k)) 10 ⟨[], [], 0⟩
      (fun k _ hk => by simp at hk; simp [h k hk])]
  simp only [Sparse.fromFunction, Sparse.fromFunctionG, this]



/-- `ktensor.from_function`: unit weights, the produced matrices as factors in mode order. -/
theorem ktensor_fromFunction_spec [One α] (shape : List Nat) (R : Nat) (outs : List (Mat α))
    (hs : shape ≠ []) (hl : outs.length = shape.length)
    (hc : ∀ A ∈ outs, ∀ row ∈ A, row.length = R) :
    ∃ K, Ktensor.fromFunction shape R outs = .ok K ∧ K.weights = List.replicate R 1 ∧
      K.factors = outs ∧ K.WF ∧ K.ncomp = R ∧ (outs.map List.length = shape → K.shape = shape) := by
  refine ⟨⟨List.replicate R 1, outs⟩, ?_, rfl, rfl, ?_, by simp [Ktensor.ncomp], fun h => h⟩
  · have h1 : shape.isEmpty = false := by cases shape <;> simp_all
    have h2 : (outs.length != shape.length) = false := by simp [hl]
    have h3 : outs.all (fun A => A.all (fun row => row.length == R)) = true := by
      simp only [List.all_eq_true, beq_iff_eq]
      exact hc
    simp [Ktensor.fromFunction, h1, h2, h3]
  · intro A hA row hrow
    simpa using hc A hA row hrow

theorem ktensor_fromFunction_rejects [One α] (shape : List Nat) (R : Nat) (outs : List (Mat α)) :
    (shape = [] → Ktensor.fromFunction shape R outs = .error .reject) ∧
    ((∃ A ∈ outs, ∃ row ∈ A, row.length ≠ R) → Ktensor.fromFunction shape R outs = .error .reject) := by
  constructor
  · rintro rfl; rfl
  · rintro ⟨A, hA, row, hrow, hne⟩
    have h3 : outs.all (fun A => A.all (fun row => row.length == R)) = false := by
      rw [List.all_eq_false]
      refine ⟨A, hA, ?_⟩
      rw [Bool.not_eq_true, List.all_eq_false]
      exact ⟨row, hrow, by simpa using hne⟩
    unfold Ktensor.fromFunction
    split
    · rfl
    · simp [h3]



theorem nonzerosRequest_ok (shape : List Nat) (q : Rat) (h0 : 0 ≤ q) (h1 : q ≤ ((numel shape : Nat) : Rat)) :
    ∃ nz, nonzerosRequest true shape q = .ok nz := by
  unfold nonzerosRequest
  have a : ¬ (q < 0) := not_lt.2 h0
  have b : ¬ (q > ((numel shape : Nat) : Rat)) := not_lt.2 h1
  simp only [Bool.not_true, Bool.false_and, Bool.or_false, a, b, decide_false, Bool.or_self,
    Bool.false_eq_true, if_false]
  split
  · exact ⟨_, rfl⟩
  · exact ⟨_, rfl⟩

/-- A density in `(0,1]` of a tensor with at least one cell is a request for
`max(1, ⌊size · density⌋)` nonzeros. -/
theorem densityRequest_count (shape : List Nat) (d : Rat) (h0 : 0 < d) (h1 : d ≤ 1) (hs : 0 < numel shape) :
    nonzerosRequest true shape (densityRequest true shape d) =
      .ok (max 1 (((numel shape : Nat) : Rat) * d).floor.toNat) := by
  have hsz : (1 : Rat) ≤ ((numel shape : Nat) : Rat) := by exact_mod_cast hs
  have hq0 : 0 ≤ ((numel shape : Nat) : Rat) * d := by
    have : (0 : Rat) ≤ ((numel shape : Nat) : Rat) := by linarith
    exact mul_nonneg this (le_of_lt h0)
  have hq1 : ((numel shape : Nat) : Rat) * d ≤ ((numel shape : Nat) : Rat) := by
    have : (0 : Rat) ≤ ((numel shape : Nat) : Rat) := by linarith
    nlinarith
  unfold densityRequest
  by_cases hlt : ((numel shape : Nat) : Rat) * d < 1
  · simp only [hlt, decide_true, Bool.and_self, if_true]
    have hfl : (((numel shape : Nat) : Rat) * d).floor.toNat = 0 := by
      have : (((numel shape : Nat) : Rat) * d).floor < 1 := by
        rw [Rat.floor_lt_iff]; exact_mod_cast hlt
      omega
    rw [hfl]
    have := nonzerosRequest_nat shape 1 hs
    simpa using this
  · simp only [hlt, decide_false, Bool.and_false, Bool.false_eq_true, if_false]
    unfold nonzerosRequest
    have a : ¬ (((numel shape : Nat) : Rat) * d < 0) := not_lt.2 hq0
    have b : ¬ (((numel shape : Nat) : Rat) * d > ((numel shape : Nat) : Rat)) := not_lt.2 hq1
    simp only [Bool.not_true, Bool.false_and, Bool.or_false, a, b, hlt, decide_false, Bool.or_self,
      Bool.false_eq_true, if_false]
    have hge : 1 ≤ (((numel shape : Nat) : Rat) * d).floor := by
      rw [Rat.le_floor_iff]; exact_mod_cast not_lt.1 hlt
    congr 1
    omega

theorem sptenrand_eq (shape : List Nat) (draw : Nat → List (List Rat)) (vd : Nat → List α) :
    (∀ d : Rat, 0 < d → d ≤ 1 → Sparse.sptenrand shape (some d) none draw vd =
      Sparse.fromFunction shape (densityRequest true shape d) draw vd) ∧
    (∀ q : Rat, Sparse.sptenrand shape none (some q) draw vd = Sparse.fromFunction shape q draw vd) := by
  constructor
  · intro d h0 h1
    simp [Sparse.sptenrand, Sparse.sptenrandG, Sparse.fromFunction, h0, h1]
  · intro q; rfl

/-- Distinct rows among a draw are counted by `np.unique`. -/
theorem le_unique_length (rows R : List (List Nat)) (hR : R.Nodup) (hsub : ∀ r ∈ R, r ∈ rows) :
    R.length ≤ (uniqueRowsSorted rows).length :=
  (List.subperm_of_subset hR (fun r hr => (mem_uniqueRowsSorted rows r).2 (hsub r hr))).length_le


end Pyttb
