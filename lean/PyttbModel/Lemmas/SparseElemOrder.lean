/-
C03: the four order comparisons and the dense fall-backs of `logical_or` / `logical_xor` in
their final form; look-ups (`extract`, `mask`) and the two constructors.
-/
import PyttbModel.Lemmas.SparseElemDiv
namespace Pyttb
open SpElem
variable {α : Type}

section order
variable [AddMonoid α] [One α] [LinearOrder α]

theorem lt_scalar_spec (A : Sparse α) (hA : A.WF) (c : α) (h1 : (1 : α) ≠ 0) :
    ∃ R, SpElem.lt A (.scalar c) = .ok R ∧ R.WF ∧ R.shape = A.shape ∧
      ∀ i, InBounds A.shape i → R.get i = if A.get i < c then 1 else 0 := by
  obtain ⟨R, e, w, sh, g⟩ := compare_scalar_spec (fun a b => decide (a < b)) (fun a b => decide (b < a)) false
    A hA c h1 (fun _ => rfl)
  exact ⟨R, e, w, sh, fun i hi => by rw [g i hi]; simp⟩

theorem gt_scalar_spec (A : Sparse α) (hA : A.WF) (c : α) (h1 : (1 : α) ≠ 0) :
    ∃ R, SpElem.gt A (.scalar c) = .ok R ∧ R.WF ∧ R.shape = A.shape ∧
      ∀ i, InBounds A.shape i → R.get i = if c < A.get i then 1 else 0 := by
  obtain ⟨R, e, w, sh, g⟩ := compare_scalar_spec (fun a b => decide (b < a)) (fun a b => decide (a < b)) false
    A hA c h1 (fun _ => rfl)
  exact ⟨R, e, w, sh, fun i hi => by rw [g i hi]; simp⟩

theorem le_scalar_spec (A : Sparse α) (hA : A.WF) (c : α) (h1 : (1 : α) ≠ 0) :
    ∃ R, SpElem.le A (.scalar c) = .ok R ∧ R.WF ∧ R.shape = A.shape ∧
      ∀ i, InBounds A.shape i → R.get i = if A.get i ≤ c then 1 else 0 := by
  obtain ⟨R, e, w, sh, g⟩ := compare_scalar_spec (fun a b => decide (a ≤ b)) (fun a b => decide (b ≤ a)) true
    A hA c h1 (fun _ => rfl)
  exact ⟨R, e, w, sh, fun i hi => by rw [g i hi]; simp⟩

theorem ge_scalar_spec (A : Sparse α) (hA : A.WF) (c : α) (h1 : (1 : α) ≠ 0) :
    ∃ R, SpElem.ge A (.scalar c) = .ok R ∧ R.WF ∧ R.shape = A.shape ∧
      ∀ i, InBounds A.shape i → R.get i = if c ≤ A.get i then 1 else 0 := by
  obtain ⟨R, e, w, sh, g⟩ := compare_scalar_spec (fun a b => decide (b ≤ a)) (fun a b => decide (a ≤ b)) true
    A hA c h1 (fun _ => rfl)
  exact ⟨R, e, w, sh, fun i hi => by rw [g i hi]; simp⟩

theorem lt_dense_spec (A : Sparse α) (hA : A.WF) (D : Dense α) (hD : D.WF) (hs : A.shape = D.shape)
    (h1 : (1 : α) ≠ 0) :
    ∃ R, SpElem.lt A (.dense D) = .ok R ∧ R.WF ∧ R.shape = A.shape ∧
      ∀ i, InBounds A.shape i → R.get i = if A.get i < D.get i then 1 else 0 := by
  obtain ⟨R, e, w, sh, g⟩ := compare_dense_spec (fun a b => decide (a < b)) (fun a b => decide (b < a)) false
    A hA D hD hs h1 (fun _ => rfl)
  exact ⟨R, e, w, sh, fun i hi => by rw [g i hi]; simp⟩

theorem gt_dense_spec (A : Sparse α) (hA : A.WF) (D : Dense α) (hD : D.WF) (hs : A.shape = D.shape)
    (h1 : (1 : α) ≠ 0) :
    ∃ R, SpElem.gt A (.dense D) = .ok R ∧ R.WF ∧ R.shape = A.shape ∧
      ∀ i, InBounds A.shape i → R.get i = if D.get i < A.get i then 1 else 0 := by
  obtain ⟨R, e, w, sh, g⟩ := compare_dense_spec (fun a b => decide (b < a)) (fun a b => decide (a < b)) false
    A hA D hD hs h1 (fun _ => rfl)
  exact ⟨R, e, w, sh, fun i hi => by rw [g i hi]; simp⟩

theorem le_dense_spec (A : Sparse α) (hA : A.WF) (D : Dense α) (hD : D.WF) (hs : A.shape = D.shape)
    (h1 : (1 : α) ≠ 0) :
    ∃ R, SpElem.le A (.dense D) = .ok R ∧ R.WF ∧ R.shape = A.shape ∧
      ∀ i, InBounds A.shape i → R.get i = if A.get i ≤ D.get i then 1 else 0 := by
  obtain ⟨R, e, w, sh, g⟩ := compare_dense_spec (fun a b => decide (a ≤ b)) (fun a b => decide (b ≤ a)) true
    A hA D hD hs h1 (fun _ => rfl)
  exact ⟨R, e, w, sh, fun i hi => by rw [g i hi]; simp⟩

theorem ge_dense_spec (A : Sparse α) (hA : A.WF) (D : Dense α) (hD : D.WF) (hs : A.shape = D.shape)
    (h1 : (1 : α) ≠ 0) :
    ∃ R, SpElem.ge A (.dense D) = .ok R ∧ R.WF ∧ R.shape = A.shape ∧
      ∀ i, InBounds A.shape i → R.get i = if D.get i ≤ A.get i then 1 else 0 := by
  obtain ⟨R, e, w, sh, g⟩ := compare_dense_spec (fun a b => decide (b ≤ a)) (fun a b => decide (a ≤ b)) true
    A hA D hD hs h1 (fun _ => rfl)
  exact ⟨R, e, w, sh, fun i hi => by rw [g i hi]; simp⟩

theorem lt_sparse_spec (A B : Sparse α) (hA : A.WF) (hB : B.WF) (hs : A.shape = B.shape) (h1 : (1 : α) ≠ 0) :
    ∃ R, SpElem.lt A (.sparse B) = .ok R ∧ R.WF ∧ R.shape = A.shape ∧
      ∀ i, InBounds A.shape i → R.get i = if A.get i < B.get i then 1 else 0 := by
  obtain ⟨_, f2, f3, f4⟩ := lt_zero_facts (α := α)
  obtain ⟨R, e, w, sh, g⟩ := compare_sparse_spec (fun a b => decide (a < b)) (fun a b => decide (b < a)) false
    A B hA hB hs h1 f2 f3 f4
  exact ⟨R, e, w, sh, fun i hi => by rw [g i hi]; simp⟩

theorem gt_sparse_spec (A B : Sparse α) (hA : A.WF) (hB : B.WF) (hs : A.shape = B.shape) (h1 : (1 : α) ≠ 0) :
    ∃ R, SpElem.gt A (.sparse B) = .ok R ∧ R.WF ∧ R.shape = A.shape ∧
      ∀ i, InBounds A.shape i → R.get i = if B.get i < A.get i then 1 else 0 := by
  obtain ⟨_, f2, f3, f4⟩ := lt_zero_facts (α := α)
  obtain ⟨R, e, w, sh, g⟩ := compare_sparse_spec (fun a b => decide (b < a)) (fun a b => decide (a < b)) false
    A B hA hB hs h1 f3 f2 f4
  exact ⟨R, e, w, sh, fun i hi => by rw [g i hi]; simp⟩

theorem le_sparse_spec (A B : Sparse α) (hA : A.WF) (hB : B.WF) (hs : A.shape = B.shape) (h1 : (1 : α) ≠ 0) :
    ∃ R, SpElem.le A (.sparse B) = .ok R ∧ R.WF ∧ R.shape = A.shape ∧
      ∀ i, InBounds A.shape i → R.get i = if A.get i ≤ B.get i then 1 else 0 := by
  obtain ⟨f2, f3, f4⟩ := le_zero_facts (α := α)
  obtain ⟨R, e, w, sh, g⟩ := compare_sparse_spec (fun a b => decide (a ≤ b)) (fun a b => decide (b ≤ a)) true
    A B hA hB hs h1 f2 f3 f4
  exact ⟨R, e, w, sh, fun i hi => by rw [g i hi]; simp⟩

theorem ge_sparse_spec (A B : Sparse α) (hA : A.WF) (hB : B.WF) (hs : A.shape = B.shape) (h1 : (1 : α) ≠ 0) :
    ∃ R, SpElem.ge A (.sparse B) = .ok R ∧ R.WF ∧ R.shape = A.shape ∧
      ∀ i, InBounds A.shape i → R.get i = if B.get i ≤ A.get i then 1 else 0 := by
  obtain ⟨f2, f3, f4⟩ := le_zero_facts (α := α)
  obtain ⟨R, e, w, sh, g⟩ := compare_sparse_spec (fun a b => decide (b ≤ a)) (fun a b => decide (a ≤ b)) true
    A B hA hB hs h1 f3 f2 f4
  exact ⟨R, e, w, sh, fun i hi => by rw [g i hi]; simp⟩

end order

/-! ### dense fall-backs of `logical_or`, `logical_xor` -/

section logicdense
variable [AddMonoid α] [One α] [DecidableEq α]

theorem or_scalar_spec (A : Sparse α) (hA : A.WF) (c : α) :
    ∃ R, logicalOr A (.scalar c) = .ok (.dn R) ∧ R.WF ∧ R.shape = A.shape ∧
      ∀ i, InBounds A.shape i → R.get i = if A.get i ≠ 0 ∨ c ≠ 0 then 1 else 0 := by
  obtain ⟨R, e, w, sh, g⟩ := denseLogic_scalar_spec (fun a b => a || b) A hA c
  refine ⟨R, e, w, sh, fun i hi => ?_⟩
  rw [g i hi]
  by_cases ha : A.get i = 0 <;> by_cases hc : c = 0 <;> simp [ha, hc, b2n]

theorem xor_scalar_spec (A : Sparse α) (hA : A.WF) (c : α) :
    ∃ R, logicalXor A (.scalar c) = .ok (.dn R) ∧ R.WF ∧ R.shape = A.shape ∧
      ∀ i, InBounds A.shape i → R.get i = if (A.get i ≠ 0) ≠ (c ≠ 0) then 1 else 0 := by
  obtain ⟨R, e, w, sh, g⟩ := denseLogic_scalar_spec (fun a b => a != b) A hA c
  refine ⟨R, e, w, sh, fun i hi => ?_⟩
  rw [g i hi]
  by_cases ha : A.get i = 0 <;> by_cases hc : c = 0 <;> simp [ha, hc, b2n]

theorem or_dense_spec (A : Sparse α) (hA : A.WF) (D : Dense α) (hD : D.WF) (hs : A.shape = D.shape) :
    ∃ R, logicalOr A (.dense D) = .ok (.dn R) ∧ R.WF ∧ R.shape = A.shape ∧
      ∀ i, InBounds A.shape i → R.get i = if A.get i ≠ 0 ∨ D.get i ≠ 0 then 1 else 0 := by
  obtain ⟨R, e, w, sh, g⟩ := denseLogic_dense_spec (fun a b => a || b) A hA D hD hs
  refine ⟨R, e, w, sh, fun i hi => ?_⟩
  rw [g i hi]
  by_cases ha : A.get i = 0 <;> by_cases hc : D.get i = 0 <;> simp [ha, hc, b2n]

theorem xor_dense_spec (A : Sparse α) (hA : A.WF) (D : Dense α) (hD : D.WF) (hs : A.shape = D.shape) :
    ∃ R, logicalXor A (.dense D) = .ok (.dn R) ∧ R.WF ∧ R.shape = A.shape ∧
      ∀ i, InBounds A.shape i → R.get i = if (A.get i ≠ 0) ≠ (D.get i ≠ 0) then 1 else 0 := by
  obtain ⟨R, e, w, sh, g⟩ := denseLogic_dense_spec (fun a b => a != b) A hA D hD hs
  refine ⟨R, e, w, sh, fun i hi => ?_⟩
  rw [g i hi]
  by_cases ha : A.get i = 0 <;> by_cases hc : D.get i = 0 <;> simp [ha, hc, b2n]

/-! ### look-ups -/

theorem mask_spec (X W : Sparse α) (hX : X.WF) (hl : W.shape.length = X.shape.length)
    (hle : ∀ p ∈ W.shape.zip X.shape, p.1 ≤ p.2) :
    mask X W = .ok (W.subs.map X.get) := by
  have h := extractD_eq X hX W.subs
  unfold extractD at h
  unfold mask
  have h2 : (W.shape.zip X.shape).any (fun p => decide (p.1 > p.2)) = false := by
    rw [List.any_eq_false]
    intro p hp
    have := hle p hp
    simp only [gt_iff_lt, decide_eq_true_eq, Nat.not_lt]
    exact this
  simp only [hl, bne_self_eq_false, Bool.false_eq_true, ↓reduceIte, h2, h]

theorem mask_rejects (X W : Sparse α)
    (h : W.shape.length ≠ X.shape.length ∨ ∃ p ∈ W.shape.zip X.shape, p.1 > p.2) :
    mask X W = .error .reject := by
  unfold mask
  rcases h with h | ⟨p, hp, hgt⟩
  · have : (W.shape.length != X.shape.length) = true := by simpa using h
    simp [this]
  · have h2 : (W.shape.zip X.shape).any (fun p => decide (p.1 > p.2)) = true := by
      rw [List.any_eq_true]; exact ⟨p, hp, by simpa using hgt⟩
    split
    · rfl
    · simp [h2]

theorem extract_rejects (S : Sparse α) (q : List (List Nat)) (r : List Nat) (hr : r ∈ q)
    (hbad : ¬ InBounds S.shape r) : extract S q = .error .reject := by
  unfold extract
  have : q.all (inBounds S.shape) = false := by
    rw [List.all_eq_false]
    refine ⟨r, hr, ?_⟩
    rw [inBounds_iff]; exact hbad
  simp [this]

end logicdense

/-! ### the two constructors -/

section ctor

/-- The plain constructor stores exactly what it is given, provided there is one value per
subscript row and every row lies inside the shape. -/
theorem ctor_keeps (subs : List (List Nat)) (vals : List α) (s : List Nat)
    (hl : vals.length = subs.length) (hin : ∀ r ∈ subs, InBounds s r) :
    mk? subs vals s = .ok ⟨s, subs, vals⟩ := by
  unfold mk?
  cases subs with
  | nil =>
    have : vals = [] := List.length_eq_zero_iff.1 (by simpa using hl)
    simp [this]
  | cons r rest =>
    have hall : (r :: rest).all (inBounds s) = true := by
      rw [List.all_eq_true]; intro x hx; exact (inBounds_iff _ _).2 (hin x hx)
    have hl' : (vals.length != (r :: rest).length) = false := by simp [hl]
    simp only [List.isEmpty_cons, Bool.false_eq_true, ↓reduceIte, hl', hall, Bool.not_true]

/-- … and refuses everything else; in particular it never checks for repeated subscripts or
explicit zeros (those are accepted and kept). -/
theorem ctor_rejects (subs : List (List Nat)) (vals : List α) (s : List Nat)
    (h : vals.length ≠ subs.length ∨ ∃ r ∈ subs, ¬ InBounds s r) :
    mk? subs vals s = .error .reject := by
  unfold mk?
  cases subs with
  | nil =>
    rcases h with h | ⟨r, hr, _⟩
    · have : vals.isEmpty = false := by
        cases vals with
        | nil => simp at h
        | cons _ _ => rfl
      simp [this]
    · cases hr
  | cons r rest =>
    simp only [List.isEmpty_cons, Bool.false_eq_true, ↓reduceIte]
    rcases h with h | ⟨x, hx, hbad⟩
    · have : (vals.length != (r :: rest).length) = true := by simpa using h
      rw [if_pos this]
    · split
      · rfl
      · have : (r :: rest).all (inBounds s) = false := by
          rw [List.all_eq_false]
          refine ⟨x, hx, ?_⟩
          rw [inBounds_iff]; exact hbad
        simp [this]

end ctor

end Pyttb
