/-
C10 ⟵ C14 bridge: Ky Fan's maximum principle, which `Lemmas/TuckerAls.lean` states as the
proposition `Tk.KyFan` (a hypothesis of the Tucker-ALS monotonicity theorem), is PROVED here from
the C14 development (`ky_fan_list` of `Lemmas/NvecsEnergy.lean`, the statement behind
`C14_max_energy`).

The two developments describe the same objects with different vocabulary:

* C10: `Tk.OrthoCols Q m r` (shape + `Finset` sums), `Tk.EighOK Z m D V` (eigenvalues `D` in ANY
  order, the sorted list is `(argsortDesc realOps D).map (D.getD · 0)`), the quadratic form
  `Σ_c Σ_a Σ_b Q[a,c] Q[b,c] Z[a,b]`;
* C14: `OrthonormalCols Q m r` (list sums, no shape), `EigContract Z m m q Q'` with `q` DECREASING,
  `energy Z Q m r = Σ_k Σ_i Q[i,k] (Z Q)[i,k]`.

The bridge therefore (1) translates orthonormality, (2) re-orders the eigenbasis of `EighOK` by
`argsortDesc` into a sorted `EigContract`, (3) identifies the two quadratic forms, (4) shows that
`r` orthonormal columns of height `m` force `r ≤ m` (C14 assumes it, `KyFan` does not).
Everything lives in `namespace Pyttb.KF`; nothing of either development is changed.
-/
import PyttbModel.Lemmas.NvecsEnergy
import PyttbModel.Lemmas.TuckerAls
namespace Pyttb
namespace KF
open Tk Finset Matrix

/-! ### (1) orthonormal columns: C10 vocabulary → C14 vocabulary -/

theorem orthonormalCols_of_orthoCols {Q : Mat ℝ} {m r : Nat} (h : OrthoCols Q m r) : OrthonormalCols Q m r := by
  intro j k hj hk
  unfold colDot
  rw [sum_map_range]
  exact h.orth j hj k hk

/-! ### (4) `r` orthonormal columns of height `m` ⇒ `r ≤ m` -/

/-- trace argument: `P = W Wᵀ` is a symmetric idempotent, so `0 ≤ P j j ≤ 1`, and `trace P = r`. -/
theorem le_of_orthonormal_matrix {m r : ℕ} (W : Matrix (Fin m) (Fin r) ℝ) (hW : Wᵀ * W = 1) : r ≤ m := by
  set P := W * Wᵀ with hP
  have hPP : P * P = P := by
    calc P * P = W * (Wᵀ * W) * Wᵀ := by rw [hP]; simp only [Matrix.mul_assoc]
      _ = P := by rw [hW, Matrix.mul_one]
  have hPt : ∀ j l, P j l = P l j := by
    intro j l
    have : Pᵀ = P := by rw [hP, Matrix.transpose_mul, Matrix.transpose_transpose]
    have h := congrFun (congrFun this l) j
    rw [Matrix.transpose_apply] at h
    exact h
  have hc0 : ∀ j, 0 ≤ P j j := by
    intro j
    rw [hP, Matrix.mul_apply]
    apply Finset.sum_nonneg
    intro k _
    rw [Matrix.transpose_apply]
    exact mul_self_nonneg _
  have hc1 : ∀ j, P j j ≤ 1 := by
    intro j
    have h1 : P j j = ∑ l, P j l * P j l := by
      have := congrFun (congrFun hPP j) j
      rw [Matrix.mul_apply] at this
      rw [← this]
      apply Finset.sum_congr rfl
      intro l _
      rw [hPt l j]
    have h2 : P j j * P j j ≤ ∑ l, P j l * P j l :=
      Finset.single_le_sum (f := fun l => P j l * P j l) (fun l _ => mul_self_nonneg _) (Finset.mem_univ j)
    rw [← h1] at h2
    nlinarith [hc0 j]
  have hsum : ∑ j : Fin m, P j j = r := by
    have : trace P = trace (Wᵀ * W) := by rw [hP, Matrix.trace_mul_comm]
    rw [hW, Matrix.trace_one, Fintype.card_fin] at this
    exact this
  have hle : ∑ j : Fin m, P j j ≤ ∑ _j : Fin m, (1 : ℝ) := Finset.sum_le_sum fun j _ => hc1 j
  rw [hsum] at hle
  simp only [Finset.sum_const, Finset.card_univ, Fintype.card_fin, nsmul_eq_mul, mul_one] at hle
  exact_mod_cast hle

theorem OrthoCols_le {Q : Mat ℝ} {m r : Nat} (h : OrthoCols Q m r) : r ≤ m :=
  le_of_orthonormal_matrix (toMatrix Q m r) (toMatrix_orthonormal Q m r (orthonormalCols_of_orthoCols h))

/-! ### (2) the eigenbasis of `EighOK`, re-ordered by decreasing eigenvalue, as an `EigContract` -/

/-- eigenvalues in the order of `argsortDesc` (the list on the right of `KyFan`). -/
noncomputable def sortedEig (D : List ℝ) : List ℝ := (argsortDesc realOps D).map fun i => D.getD i 0

/-- the eigenvector columns in the same order. -/
noncomputable def sortedVec (D : List ℝ) (V : Mat ℝ) : Mat ℝ := matCols V (argsortDesc realOps D)

theorem argsortDesc_getD_lt (D : List ℝ) {k : Nat} (hk : k < D.length) :
    (argsortDesc realOps D).getD k 0 < D.length := by
  apply argsortDesc_lt D
  have hk' : k < (argsortDesc realOps D).length := by rw [argsortDesc_length]; exact hk
  rw [List.getD_eq_getElem?_getD, List.getElem?_eq_getElem hk']
  simp

theorem sortedEig_getD (D : List ℝ) {k : Nat} (hk : k < D.length) :
    (sortedEig D).getD k 0 = D.getD ((argsortDesc realOps D).getD k 0) 0 := by
  have hk' : k < (argsortDesc realOps D).length := by rw [argsortDesc_length]; exact hk
  simp [sortedEig, List.getD_eq_getElem?_getD, List.getElem?_map, List.getElem?_eq_getElem hk']

theorem sortedEig_sorted (D : List ℝ) (i j : Nat) (hij : i ≤ j) (hj : j < D.length) :
    (sortedEig D).getD j 0 ≤ (sortedEig D).getD i 0 := by
  rcases Nat.eq_or_lt_of_le hij with rfl | hlt
  · exact le_refl _
  have hi : i < D.length := lt_trans hlt hj
  rw [sortedEig_getD D hi, sortedEig_getD D hj]
  have hi' : i < (argsortDesc realOps D).length := by rw [argsortDesc_length]; exact hi
  have hj' : j < (argsortDesc realOps D).length := by rw [argsortDesc_length]; exact hj
  have := List.pairwise_iff_getElem.1 (argsortDesc_sorted D) i j hi' hj' hlt
  simpa [List.getD_eq_getElem?_getD, List.getElem?_eq_getElem hi', List.getElem?_eq_getElem hj'] using this

theorem sortedVec_get (D : List ℝ) (V : Mat ℝ) {m a k : Nat} (hV : V.length = m) (hD : D.length = m)
    (ha : a < m) (hk : k < m) : (sortedVec D V).get a k = V.get a ((argsortDesc realOps D).getD k 0) :=
  matCols_get V _ a k (by rw [hV]; exact ha) (by rw [argsortDesc_length, hD]; exact hk)

theorem eigContract_of_eighOK {Z : Mat ℝ} {m : Nat} {D : List ℝ} {V : Mat ℝ} (h : EighOK Z m D V) :
    EigContract Z m m (sortedEig D) (sortedVec D V) := by
  have hlen : (argsortDesc realOps D).length = m := by rw [argsortDesc_length, h.len]
  have hO : OrthoCols (sortedVec D V) m m := by
    have := h.ortho.matCols (argsortDesc realOps D)
      (fun c hc => by have := argsortDesc_lt D c hc; rwa [h.len] at this) (argsortDesc_nodup D)
    rwa [hlen] at this
  refine ⟨by simp [sortedEig, hlen], hO.rows, hO.cols, ?_, orthonormalCols_of_orthoCols hO⟩
  intro k hk i hi
  have hσ : (argsortDesc realOps D).getD k 0 < m := by
    have := argsortDesc_getD_lt D (k := k) (by rw [h.len]; exact hk)
    rwa [h.len] at this
  unfold mulCol
  rw [sum_map_range, sortedEig_getD D (by rw [h.len]; exact hk), sortedVec_get D V h.ortho.rows h.len hi hk,
    ← h.eig i hi _ hσ]
  apply Finset.sum_congr rfl
  intro l hl
  rw [sortedVec_get D V h.ortho.rows h.len (Finset.mem_range.1 hl) hk]

/-! ### (3) the two quadratic forms agree -/

theorem energy_eq_quad (Z Q : Mat ℝ) (m r : Nat) :
    Pyttb.energy Z Q m r = ∑ c ∈ range r, ∑ a ∈ range m, ∑ b ∈ range m, Q.get a c * Q.get b c * Z.get a b := by
  unfold Pyttb.energy
  apply Finset.sum_congr rfl; intro c _
  apply Finset.sum_congr rfl; intro a _
  unfold mulCol
  rw [sum_map_range, Finset.mul_sum]
  apply Finset.sum_congr rfl; intro b _
  ring

/-! ### Ky Fan's maximum principle in the shape C10 asks for -/

/-- `Tk.KyFan` holds: for a matrix `Z` with a complete orthonormal eigenbasis `(D, V)` (`EighOK`) and any
`m × r` matrix `Q` with orthonormal columns, `trace(Qᵀ Z Q)` is at most the sum of the `r` largest
eigenvalues.  (The symmetry hypothesis of `KyFan` is not even needed: it follows from `EighOK`.) -/
theorem kyFan : KyFan := by
  intro Z m D V Q r _ hEV hQ
  have hr : r ≤ m := OrthoCols_le hQ
  have h := ky_fan_list Z (sortedVec D V) Q (sortedEig D) m r hr (eigContract_of_eighOK hEV)
    (fun i j hij hj => sortedEig_sorted D i j hij (by rw [hEV.len]; exact hj)) (orthonormalCols_of_orthoCols hQ)
  rw [energy_eq_quad] at h
  refine h.trans_eq ?_
  show _ = ((sortedEig D).take r).sum
  rw [sum_take_eq]
  have : (sortedEig D).length = m := by simp [sortedEig, argsortDesc_length, hEV.len]
  rw [this, Nat.min_eq_left hr]

end KF
end Pyttb
