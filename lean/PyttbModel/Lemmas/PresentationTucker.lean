/-
C18, whole-run scale equivariance of Tucker-ALS (the model of C10: `Alg/TuckerAls.lean`).

Two runs: data `X` and data `c • X` (`dscale c X`), `c > 0`, same start, same `nvecs` service.
`tensor.nvecs` is a service; what the theorem assumes about it is a CONTRACT that does not mention scaling:
whenever the Gram matrix `Z` of the unfolding it is asked about has a matrix `A` of leading eigenvectors in
the sense of `LeadSpec` (orthonormal columns, eigenvectors, eigenvalues in decreasing order, every other
eigenvalue dominated, sign convention), the answer is such a matrix.  `LeadSpec Z … A ↔ LeadSpec (t • Z) … A`
for `t > 0` is a THEOREM (`leadSpec_scale`).  So where the contract pins the answer down (`∃! A, LeadSpec …`,
the generic case: distinct leading eigenvalues), the answers for `Z` and `c² Z` are the same matrix — the
factor matrices of the two runs coincide, the cores differ by the factor `c`, the fits are equal.
-/
import PyttbModel.Lemmas.TuckerRank
import PyttbModel.Alg.PresentationRelabel

set_option linter.unusedSectionVars false
set_option linter.unusedSimpArgs false
set_option linter.unusedVariables false
namespace Pyttb
namespace Tk
open Finset

/-! ## 1. scaling a dense tensor -/

@[simp] theorem dscale_shape (c : ℝ) (T : Dense ℝ) : (dscale c T).shape = T.shape := rfl

theorem getD_map_mul (c : ℝ) (l : List ℝ) (i : Nat) : (l.map (c * ·)).getD i 0 = c * l.getD i 0 := by
  simp only [List.getD_eq_getElem?_getD, List.getElem?_map]
  cases l[i]? <;> simp

theorem dscale_get (c : ℝ) (T : Dense ℝ) (j : List Nat) : (dscale c T).get j = c * T.get j := by
  simp only [Dense.get, dscale, getD_map_mul]

theorem dscale_ofFn (c : ℝ) (s : List Nat) (f : List Nat → ℝ) :
    Dense.ofFn s (fun j => c * f j) = dscale c (Dense.ofFn s f) := by
  simp [Dense.ofFn, dscale, List.map_map, Function.comp_def]

theorem list_sum_map_mul_left {β : Type} (l : List β) (c : ℝ) (f : β → ℝ) :
    (l.map fun x => c * f x).sum = c * (l.map f).sum := by
  induction l with
  | nil => simp
  | cons a l ih => simp only [List.map_cons, List.sum_cons, ih]; ring

theorem normSq_dscale (c : ℝ) (T : Dense ℝ) : normSq (dscale c T) = c * c * normSq T := by
  simp only [normSq, dscale, List.map_map, Function.comp_def]
  rw [← list_sum_map_mul_left]
  congr 1
  refine List.map_congr_left fun x _ => ?_
  ring

theorem tnorm_dscale {c : ℝ} (hc : 0 < c) (T : Dense ℝ) : tnorm realOps (dscale c T) = c * tnorm realOps T := by
  simp only [tnorm, realOps, normSq_dscale]
  rw [Real.sqrt_mul (mul_self_nonneg c), Real.sqrt_mul_self hc.le]

theorem ttmT_dscale (c : ℝ) (T : Dense ℝ) (U : Mat ℝ) (n : Nat) (tr : Bool) :
    ttmT (dscale c T) U n tr = dscale c (ttmT T U n tr) := by
  unfold ttmT
  simp only [dscale_shape]
  rw [← dscale_ofFn]
  congr 1
  funext j
  rw [← list_sum_map_mul_left]
  congr 1
  refine List.map_congr_left fun a _ => ?_
  rw [dscale_get]
  ring

theorem ttm_dscale (c : ℝ) (T : Dense ℝ) (U : Mat ℝ) (n : Nat) (tr : Bool) :
    ttm (dscale c T) U n tr = (ttm T U n tr).map (dscale c) := by
  unfold ttm
  by_cases h : (decide (n < T.shape.length) && (if tr = true then U.nrows else U.ncols) == T.shape.getD n 0) = true
  · have h' : (decide (n < (dscale c T).shape.length) &&
        (if tr = true then U.nrows else U.ncols) == (dscale c T).shape.getD n 0) = true := h
    rw [if_pos h, if_pos h', ttmT_dscale]; rfl
  · have h' : ¬ (decide (n < (dscale c T).shape.length) &&
        (if tr = true then U.nrows else U.ncols) == (dscale c T).shape.getD n 0) = true := h
    rw [if_neg h, if_neg h']; rfl

theorem foldlM_ttm_dscale (c : ℝ) (tr : Bool) (l : List (Nat × Mat ℝ)) (T : Dense ℝ) :
    l.foldlM (fun Y p => ttm Y p.2 p.1 tr) (dscale c T) =
      (l.foldlM (fun Y p => ttm Y p.2 p.1 tr) T).map (dscale c) := by
  induction l generalizing T with
  | nil => rfl
  | cons p l ih =>
    rw [List.foldlM_cons, List.foldlM_cons, ttm_dscale]
    cases h : ttm T p.2 p.1 tr with
    | error e => rfl
    | ok Y => exact ih Y

theorem ttmDims_dscale (c : ℝ) (T : Dense ℝ) (Us : List (Mat ℝ)) (dims : List Nat) (tr : Bool) :
    ttmDims (dscale c T) Us dims tr = (ttmDims T Us dims tr).map (dscale c) := by
  unfold ttmDims
  by_cases h1 : Us.length > T.shape.length
  · have h1' : Us.length > (dscale c T).shape.length := h1
    rw [if_pos h1, if_pos h1']; rfl
  have h1' : ¬ Us.length > (dscale c T).shape.length := h1
  rw [if_neg h1, if_neg h1']
  by_cases h2 : (Us.length != T.shape.length && Us.length != dims.length) = true
  · have h2' : (Us.length != (dscale c T).shape.length && Us.length != dims.length) = true := h2
    rw [if_pos h2, if_pos h2']; rfl
  have h2' : ¬ (Us.length != (dscale c T).shape.length && Us.length != dims.length) = true := h2
  rw [if_neg h2, if_neg h2']
  by_cases h3 : dims.isEmpty = true
  · rw [if_pos h3, if_pos h3]; rfl
  rw [if_neg h3, if_neg h3]
  exact foldlM_ttm_dscale c tr _ T

theorem ttmExcl_dscale (c : ℝ) (T : Dense ℝ) (Us : List (Mat ℝ)) (n : Nat) (tr : Bool) :
    ttmExcl (dscale c T) Us n tr = (ttmExcl T Us n tr).map (dscale c) := by
  unfold ttmExcl
  by_cases h : n < T.shape.length
  · have h' : n < (dscale c T).shape.length := h
    rw [if_pos h, if_pos h']; exact ttmDims_dscale c T Us _ tr
  · have h' : ¬ n < (dscale c T).shape.length := h
    rw [if_neg h, if_neg h']; rfl

theorem mscale_get (t : ℝ) (Z : Mat ℝ) (a b : Nat) : (mscale t Z).get a b = t * Z.get a b := by
  simp only [Mat.get, mscale, List.getD_eq_getElem?_getD, List.getElem?_map]
  cases Z[a]? with
  | none => simp
  | some row =>
    simp only [Option.map_some, Option.getD_some, List.getElem?_map]
    cases row[b]? <;> simp

/-- the Gram matrix of an unfolding of `c • Y` is `c²` times that of `Y` -/
theorem gramMode_dscale (c : ℝ) (Y : Dense ℝ) (k : Nat) : gramMode (dscale c Y) k = mscale (c * c) (gramMode Y k) := by
  simp only [gramMode, mscale, dscale_shape, List.map_map, Function.comp_def]
  refine List.map_congr_left fun a _ => List.map_congr_left fun b _ => ?_
  rw [← list_sum_map_mul_left]
  congr 1
  refine List.map_congr_left fun j0 _ => ?_
  rw [dscale_get, dscale_get]
  ring

/-! ## 2. the contract of `nvecs`, and why scaling the Gram matrix does not change the answer -/

/-- **`A` is an `m × r` matrix of leading eigenvectors of the `m × m` matrix `Z`**, with the sign convention
of `tensor.nvecs(…, flipsign=True)`: orthonormal columns; column `i` is an eigenvector for an eigenvalue
`μ i`; `μ` is decreasing; every eigenvalue that has an eigenvector orthogonal to all columns is at most
every `μ i`; in every column an entry of largest magnitude is positive.  Nothing here mentions scaling. -/
structure LeadSpec (Z : Mat ℝ) (m r : Nat) (A : Mat ℝ) : Prop where
  rows : A.length = m
  cols : ∀ row ∈ A, row.length = r
  orth : ∀ i < r, ∀ j < r, ∑ a ∈ range m, A.get a i * A.get a j = if i = j then 1 else 0
  eig : ∃ μ : Nat → ℝ,
    (∀ i < r, ∀ a < m, ∑ b ∈ range m, Z.get a b * A.get b i = μ i * A.get a i) ∧
    (∀ i j, i ≤ j → j < r → μ j ≤ μ i) ∧
    (∀ (v : Nat → ℝ) (ν : ℝ), (∃ a < m, v a ≠ 0) →
      (∀ a < m, ∑ b ∈ range m, Z.get a b * v b = ν * v a) →
      (∀ i < r, ∑ a ∈ range m, v a * A.get a i = 0) → ∀ i < r, ν ≤ μ i)
  sign : ∀ i < r, ∃ a < m, (∀ b < m, |A.get b i| ≤ |A.get a i|) ∧ 0 < A.get a i

/-- Leading eigenvectors of `Z` are leading eigenvectors of `t • Z`, `t > 0` (eigenvalues `t μ`, same order). -/
theorem leadSpec_scale {Z Z' : Mat ℝ} {m r : Nat} {A : Mat ℝ} {t : ℝ} (ht : 0 < t)
    (hZ : ∀ a < m, ∀ b < m, Z'.get a b = t * Z.get a b) (h : LeadSpec Z m r A) : LeadSpec Z' m r A := by
  obtain ⟨μ, h1, h2, h3⟩ := h.eig
  refine ⟨h.rows, h.cols, h.orth, ⟨fun i => t * μ i, ?_, ?_, ?_⟩, h.sign⟩
  · intro i hi a ha
    have e : ∑ b ∈ range m, Z'.get a b * A.get b i = t * ∑ b ∈ range m, Z.get a b * A.get b i := by
      rw [Finset.mul_sum]
      refine Finset.sum_congr rfl fun b hb => ?_
      rw [hZ a ha b (Finset.mem_range.1 hb)]; ring
    rw [e, h1 i hi a ha]; ring
  · intro i j hij hj
    exact mul_le_mul_of_nonneg_left (h2 i j hij hj) ht.le
  · intro v ν hv hev horth i hi
    have hev' : ∀ a < m, ∑ b ∈ range m, Z.get a b * v b = (ν / t) * v a := by
      intro a ha
      have e : ∑ b ∈ range m, Z'.get a b * v b = t * ∑ b ∈ range m, Z.get a b * v b := by
        rw [Finset.mul_sum]
        refine Finset.sum_congr rfl fun b hb => ?_
        rw [hZ a ha b (Finset.mem_range.1 hb)]; ring
      have := hev a ha
      rw [e] at this
      field_simp
      linarith
    have := h3 v (ν / t) hv hev' horth i hi
    rwa [div_le_iff₀ ht, mul_comm] at this

theorem leadSpec_scale_iff {Z : Mat ℝ} {m r : Nat} {A : Mat ℝ} {t : ℝ} (ht : 0 < t) :
    LeadSpec (mscale t Z) m r A ↔ LeadSpec Z m r A := by
  constructor
  · intro h
    refine leadSpec_scale (t := 1 / t) (by positivity) (fun a _ b _ => ?_) h
    rw [mscale_get]; field_simp
  · exact leadSpec_scale ht (fun a _ b _ => mscale_get t Z a b)

/-- **Contract of the `nvecs` service**: whenever the Gram matrix of the requested unfolding has a matrix of
`r` leading eigenvectors at all, the answer is one (call number `k`, tensor `W`, mode `n`, rank `r`). -/
def NvecsSpec (nvecs : Nat → Dense ℝ → Nat → Nat → Mat ℝ) : Prop :=
  ∀ k W n r, (∃ A, LeadSpec (gramMode W n) (W.shape.getD n 0) r A) →
    LeadSpec (gramMode W n) (W.shape.getD n 0) r (nvecs k W n r)

/-- **Where the contract determines the answer, `nvecs` of `c • W` is `nvecs` of `W`** — a consequence of
the contract and `leadSpec_scale`, not an assumption. -/
theorem nvecs_dscale {nvecs : Nat → Dense ℝ → Nat → Nat → Mat ℝ} (hC : NvecsSpec nvecs) {c : ℝ} (hc : 0 < c)
    (k : Nat) (W : Dense ℝ) (n r : Nat)
    (hdet : ∃! A, LeadSpec (gramMode W n) (W.shape.getD n 0) r A) :
    nvecs k (dscale c W) n r = nvecs k W n r := by
  obtain ⟨A, hA, huniq⟩ := hdet
  have hcc : 0 < c * c := mul_pos hc hc
  have h1 := hC k W n r ⟨A, hA⟩
  have h2 := hC k (dscale c W) n r ⟨A, by
    rw [gramMode_dscale, dscale_shape]; exact (leadSpec_scale_iff hcc).2 hA⟩
  rw [gramMode_dscale, dscale_shape] at h2
  have h2' := (leadSpec_scale_iff hcc).1 h2
  rw [huniq _ h1, huniq _ h2']

/-! ## 3. the sweep, the iteration, the run -/

/-- the state of the mode loop with the kept projection scaled -/
def scaleSw (c : ℝ) (st : SweepSt ℝ) : SweepSt ℝ :=
  ⟨st.U, st.Utilde.map fun q => (dscale c q.1, q.2), st.calls⟩

/-- the request `nvecs` gets in this step of the first run has exactly one admissible answer -/
def DetStep (X : Dense ℝ) (rank : List Nat) (st : SweepSt ℝ) (n : Nat) : Prop :=
  ∀ Ut r, ttmExcl X st.U n true = .ok Ut → rankAt rank n = .ok r →
    ∃! A, LeadSpec (gramMode Ut n) (Ut.shape.getD n 0) r A

theorem sweepStep_dscale {nvecs : Nat → Dense ℝ → Nat → Nat → Mat ℝ} (hC : NvecsSpec nvecs) {c : ℝ} (hc : 0 < c)
    (X : Dense ℝ) (rank : List Nat) (st : SweepSt ℝ) (n : Nat) (hdet : DetStep X rank st n) :
    sweepStep nvecs (dscale c X) rank (scaleSw c st) n = (sweepStep nvecs X rank st n).map (scaleSw c) := by
  unfold sweepStep
  simp only [scaleSw]
  rw [ttmExcl_dscale]
  cases hU : ttmExcl X st.U n true with
  | error e => rfl
  | ok Ut =>
    cases hr : rankAt rank n with
    | error e => rfl
    | ok r =>
      show Except.ok _ = Except.ok _
      rw [nvecs_dscale hC hc st.calls Ut n r (hdet Ut r hU hr)]
      rfl

/-- every request of the sweep of the FIRST run has exactly one admissible answer -/
def DetSweep (nvecs : Nat → Dense ℝ → Nat → Nat → Mat ℝ) (X : Dense ℝ) (rank : List Nat) :
    List Nat → SweepSt ℝ → Prop
  | [], _ => True
  | n :: rest, st => DetStep X rank st n ∧
      ∀ st1, sweepStep nvecs X rank st n = .ok st1 → DetSweep nvecs X rank rest st1

theorem foldlM_sweepStep_dscale {nvecs : Nat → Dense ℝ → Nat → Nat → Mat ℝ} (hC : NvecsSpec nvecs) {c : ℝ}
    (hc : 0 < c) (X : Dense ℝ) (rank : List Nat) (order : List Nat) (st : SweepSt ℝ)
    (hdet : DetSweep nvecs X rank order st) :
    order.foldlM (sweepStep nvecs (dscale c X) rank) (scaleSw c st) =
      (order.foldlM (sweepStep nvecs X rank) st).map (scaleSw c) := by
  induction order generalizing st with
  | nil => rfl
  | cons n rest ih =>
    rw [List.foldlM_cons, List.foldlM_cons, sweepStep_dscale hC hc X rank st n hdet.1]
    cases h : sweepStep nvecs X rank st n with
    | error e => rfl
    | ok st1 => exact ih st1 (hdet.2 st1 h)

theorem sweep_dscale {nvecs : Nat → Dense ℝ → Nat → Nat → Mat ℝ} (hC : NvecsSpec nvecs) {c : ℝ} (hc : 0 < c)
    (X : Dense ℝ) (rank order : List Nat) (U : List (Mat ℝ)) (calls : Nat)
    (hdet : DetSweep nvecs X rank order ⟨U, none, calls⟩) :
    sweep nvecs (dscale c X) rank order U calls =
      (sweep nvecs X rank order U calls).map fun t => (t.1, dscale c t.2.1, t.2.2) := by
  unfold sweep
  have h := foldlM_sweepStep_dscale hC hc X rank order ⟨U, none, calls⟩ hdet
  have e : scaleSw c ⟨U, none, calls⟩ = ⟨U, none, calls⟩ := rfl
  rw [e] at h
  rw [h]
  cases hf : order.foldlM (sweepStep nvecs X rank) ⟨U, none, calls⟩ with
  | error e => rfl
  | ok st =>
    obtain ⟨U1, Ut, calls1⟩ := st
    cases Ut with
    | none => rfl
    | some q =>
      obtain ⟨Ut, n⟩ := q
      simp only [Except.map, scaleSw, Option.map]
      rw [ttmDims_dscale]
      cases ttmDims Ut U1 [n] true with
      | error e => rfl
      | ok core => rfl

theorem npow_two (x : ℝ) : npow x 2 = x * x := by simp [npow]

theorem normresidual_scale {c : ℝ} (hc : 0 < c) (nx g : ℝ) :
    Gen.normresidual realOps (c * nx) (c * g) = c * Gen.normresidual realOps nx g := by
  simp only [Gen.normresidual, realOps, npow_two]
  have e : c * nx * (c * nx) - c * g * (c * g) = c * c * (nx * nx - g * g) := by ring
  rw [e, abs_mul, abs_mul_self, Real.sqrt_mul (mul_self_nonneg c), Real.sqrt_mul_self hc.le]

theorem fit_scale {c : ℝ} (hc : 0 < c) (nr nx : ℝ) : Gen.fit realOps (c * nr) (c * nx) = Gen.fit realOps nr nx := by
  simp only [Gen.fit, realOps]
  rw [mul_div_mul_left _ _ hc.ne']

/-- every request of the FIRST run, from some pass on, has exactly one admissible answer -/
def DetIter (nvecs : Nat → Dense ℝ → Nat → Nat → Mat ℝ) (X : Dense ℝ) (rank order : List Nat) :
    Nat → List (Mat ℝ) → Nat → Prop
  | 0, _, _ => True
  | fuel + 1, U, calls => DetSweep nvecs X rank order ⟨U, none, calls⟩ ∧
      ∀ U' core calls', sweep nvecs X rank order U calls = .ok (U', core, calls') →
        DetIter nvecs X rank order fuel U' calls'

/-- **The iteration**: the same factor matrices in every pass, the core scaled by `c`, the residual scaled by
`c`, the same fit and fit change, hence the same stop decision and the same number of passes. -/
theorem iterate_dscale {nvecs : Nat → Dense ℝ → Nat → Nat → Mat ℝ} (hC : NvecsSpec nvecs) {c : ℝ} (hc : 0 < c)
    (X : Dense ℝ) (normX stoptol : ℝ) (rank order : List Nat) :
    ∀ (fuel it : Nat) (U : List (Mat ℝ)) (fitold : ℝ) (calls : Nat), DetIter nvecs X rank order fuel U calls →
      iterate realOps nvecs (dscale c X) (c * normX) stoptol rank order fuel it U fitold calls =
        (iterate realOps nvecs X normX stoptol rank order fuel it U fitold calls).map (List.map (scaleRec c)) := by
  intro fuel
  induction fuel with
  | zero => intro it U fitold calls _; rfl
  | succ fuel ih =>
    intro it U fitold calls hdet
    unfold iterate
    rw [sweep_dscale hC hc X rank order U calls hdet.1]
    cases hs : sweep nvecs X rank order U calls with
    | error e => rfl
    | ok t =>
      obtain ⟨U', core, calls'⟩ := t
      simp only [Except.map]
      rw [tnorm_dscale hc, normresidual_scale hc, fit_scale hc]
      by_cases hstop : Gen.stopTest realOps (Gen.fitchange realOps fitold
          (Gen.fit realOps (Gen.normresidual realOps normX (tnorm realOps core)) normX)) stoptol = true
      · rw [if_pos hstop, if_pos hstop]; rfl
      · rw [if_neg hstop, if_neg hstop, ih (it + 1) U' _ calls' (hdet.2 U' core calls' hs)]
        cases iterate realOps nvecs X normX stoptol rank order fuel (it + 1) U'
          (Gen.fit realOps (Gen.normresidual realOps normX (tnorm realOps core)) normX) calls' with
        | error e => rfl
        | ok rest => rfl

/-- For `init = "nvecs"` the start itself is an answer of the service about the DATA; there (only) the
equality of the two starts is a hypothesis (it follows from the contract by `nvecs_dscale` where the Gram
matrices of the data have determined leading eigenvectors). -/
def InitScaleOK (nvecs : Nat → Dense ℝ → Nat → Nat → Mat ℝ) (c : ℝ) (X : Dense ℝ) : Init ℝ → Prop
  | .list _ => True
  | .str s => (s.toLower == "nvecs" || s.toLower == "eigs") = true →
      ∀ k n r, nvecs k (dscale c X) n r = nvecs k X n r

theorem initGuess_dscale {nvecs : Nat → Dense ℝ → Nat → Nat → Mat ℝ} (uniform : Nat → Nat → Nat → Mat ℝ) {c : ℝ}
    (X : Dense ℝ) (rank order : List Nat) (init : Init ℝ) (hinit : InitScaleOK nvecs c X init) :
    initGuess nvecs uniform (dscale c X) rank order init = initGuess nvecs uniform X rank order init := by
  cases init with
  | list Us => rfl
  | str s =>
    unfold initGuess
    simp only
    by_cases h1 : (s.toLower == "random") = true
    · rw [if_pos h1, if_pos h1]; rfl
    · rw [if_neg h1, if_neg h1]
      by_cases h2 : (s.toLower == "nvecs" || s.toLower == "eigs") = true
      · rw [if_pos h2, if_pos h2]
        have : (fun k n r => nvecs k (dscale c X) n r) = fun k n r => nvecs k X n r := by
          funext k n r; exact hinit h2 k n r
        rw [this]; rfl
      · rw [if_neg h2, if_neg h2]

theorem mkTtensor_dscale (c : ℝ) (core : Dense ℝ) (factors : List (Mat ℝ)) :
    mkTtensor (dscale c core) factors =
      (mkTtensor core factors).map fun T => ⟨dscale c T.core, T.factors⟩ := by
  unfold mkTtensor
  by_cases h : (core.shape.length == factors.length &&
      (List.range factors.length).all fun i => (factors.getD i []).ncols == core.shape.getD i 0) = true
  · have h' : ((dscale c core).shape.length == factors.length &&
        (List.range factors.length).all fun i => (factors.getD i []).ncols == (dscale c core).shape.getD i 0) = true := h
    rw [if_pos h, if_pos h']; rfl
  · have h' : ¬ ((dscale c core).shape.length == factors.length &&
        (List.range factors.length).all fun i => (factors.getD i []).ncols == (dscale c core).shape.getD i 0) = true := h
    rw [if_neg h, if_neg h']; rfl

/-- every request of the FIRST run (after the start) has exactly one admissible answer -/
def DetRun (nvecs : Nat → Dense ℝ → Nat → Nat → Mat ℝ) (uniform : Nat → Nat → Nat → Mat ℝ) (X : Dense ℝ)
    (rank : List Nat) (maxiters : Int) (dimorder : Option (List Nat)) (init : Init ℝ) : Prop :=
  ∀ Uinit calls,
    initGuess nvecs uniform X (parseRank rank X.shape.length) (modeOrder dimorder X.shape.length) init =
      .ok (Uinit, calls) →
    DetIter nvecs X (parseRank rank X.shape.length) (modeOrder dimorder X.shape.length) maxiters.toNat Uinit calls

/-- **Whole-run scale equivariance of Tucker-ALS** (lemma form; see `C18_scale_tucker_run`). -/
theorem run_dscale {nvecs : Nat → Dense ℝ → Nat → Nat → Mat ℝ} (hC : NvecsSpec nvecs)
    (uniform : Nat → Nat → Nat → Mat ℝ) {c : ℝ} (hc : 0 < c) (X : Dense ℝ) (rank : List Nat) (stoptol : ℝ)
    (maxiters : Int) (dimorder : Option (List Nat)) (init : Init ℝ) (hinit : InitScaleOK nvecs c X init)
    (hdet : DetRun nvecs uniform X rank maxiters dimorder init) :
    tuckerAlsRun realOps nvecs uniform (dscale c X) rank stoptol maxiters dimorder init =
      (tuckerAlsRun realOps nvecs uniform X rank stoptol maxiters dimorder init).map
        fun t => (scaleOut c t.1, t.2.map (scaleRec c)) := by
  unfold tuckerAlsRun
  simp only [dscale_shape, tnorm_dscale hc, initGuess_dscale uniform X _ _ init hinit]
  by_cases h1 : maxiters < 0
  · simp only [h1, if_true]; rfl
  simp only [h1, if_false]
  by_cases h2 : ((parseRank rank X.shape.length).length != X.shape.length) = true
  · simp only [h2, if_true]; rfl
  simp only [h2, if_false, Bool.false_eq_true]
  by_cases h3 : ((parseRank rank X.shape.length).any (fun r => decide (r < 1)) ||
      ranksExceed (parseRank rank X.shape.length) X.shape) = true
  · simp only [h3, if_true]; rfl
  simp only [h3, if_false, Bool.false_eq_true]
  by_cases h4 : (!isPermOf (modeOrder dimorder X.shape.length) X.shape.length) = true
  · simp only [h4, if_true]; rfl
  simp only [h4, if_false, Bool.false_eq_true]
  cases hg : initGuess nvecs uniform X (parseRank rank X.shape.length) (modeOrder dimorder X.shape.length) init with
  | error e => rfl
  | ok g =>
    obtain ⟨Uinit, calls⟩ := g
    simp only
    rw [iterate_dscale hC hc X _ stoptol _ _ maxiters.toNat 0 Uinit 0 calls (hdet Uinit calls hg)]
    cases hi : iterate realOps nvecs X (tnorm realOps X) stoptol (parseRank rank X.shape.length)
        (modeOrder dimorder X.shape.length) maxiters.toNat 0 Uinit 0 calls with
    | error e => rfl
    | ok recs =>
      simp only [Except.map, List.getLast?_map]
      cases hl : recs.getLast? with
      | none => rfl
      | some r =>
        simp only [Option.map_some, scaleRec]
        rw [mkTtensor_dscale]
        cases mkTtensor r.core r.factors with
        | error e => rfl
        | ok T => rfl

end Tk
end Pyttb
