/-
C14: "captures the maximal energy" — Ky Fan's maximum principle for a matrix with a complete
orthonormal eigenbasis: `trace(Wᵀ G W) ≤ λ₁ + … + λ_r` for every `W` with `r` orthonormal columns,
with equality for orthonormal eigenvectors belonging to `λ₁ … λ_r`.
-/
import PyttbModel.Lemmas.NvecsSubspace
import PyttbModel.Lemmas.NvecsPost
import Mathlib.LinearAlgebra.Matrix.Trace
import Mathlib.Algebra.Order.BigOperators.Ring.Finset
import Mathlib.Tactic.Linarith
namespace Pyttb

open Matrix Finset

variable {R : Type} [Field R] [LinearOrder R] [IsStrictOrderedRing R]

/-- weights `0 ≤ c_j ≤ 1` with total `r` put at most `q_0 + … + q_{r-1}` on a decreasing `q`. -/
theorem knapsack (m r : ℕ) (hr : r ≤ m) (q c : ℕ → R) (hq : ∀ i j, i ≤ j → j < m → q j ≤ q i)
    (hc0 : ∀ j, j < m → 0 ≤ c j) (hc1 : ∀ j, j < m → c j ≤ 1) (hsum : ∑ j ∈ range m, c j = r) :
    ∑ j ∈ range m, q j * c j ≤ ∑ j ∈ range r, q j := by
  rcases Nat.eq_zero_or_pos r with h0 | hpos
  · subst h0
    have hz : ∀ j ∈ range m, c j = 0 :=
      (Finset.sum_eq_zero_iff_of_nonneg (fun j hj => hc0 j (Finset.mem_range.1 hj))).1 (by simpa using hsum)
    simp only [Finset.range_zero, Finset.sum_empty]
    apply le_of_eq
    apply Finset.sum_eq_zero
    intro j hj
    rw [hz j hj, mul_zero]
  · set t := q (r - 1) with ht
    have hsplit := Finset.sum_range_add_sum_Ico (fun j => q j * c j) hr
    have hsplitc := Finset.sum_range_add_sum_Ico c hr
    have h1 : ∑ j ∈ range r, q j * c j ≤ ∑ j ∈ range r, (q j + t * (c j - 1)) := by
      apply Finset.sum_le_sum
      intro j hj
      have hjr := Finset.mem_range.1 hj
      have hqt : t ≤ q j := hq j (r - 1) (by omega) (by omega)
      have := hc1 j (by omega)
      nlinarith
    have h2 : ∑ j ∈ Ico r m, q j * c j ≤ ∑ j ∈ Ico r m, t * c j := by
      apply Finset.sum_le_sum
      intro j hj
      obtain ⟨hjr, hjm⟩ := Finset.mem_Ico.1 hj
      have hqt : q j ≤ t := hq (r - 1) j (by omega) hjm
      have := hc0 j hjm
      nlinarith
    have e1 : ∑ j ∈ range r, (q j + t * (c j - 1)) = ∑ j ∈ range r, q j + t * (∑ j ∈ range r, c j - r) := by
      rw [Finset.sum_add_distrib, ← Finset.mul_sum, Finset.sum_sub_distrib]
      simp
    have e2 : ∑ j ∈ Ico r m, t * c j = t * ∑ j ∈ Ico r m, c j := by rw [Finset.mul_sum]
    rw [← hsplit]
    calc ∑ j ∈ range r, q j * c j + ∑ j ∈ Ico r m, q j * c j
        ≤ (∑ j ∈ range r, q j + t * (∑ j ∈ range r, c j - r)) + t * ∑ j ∈ Ico r m, c j :=
          add_le_add (h1.trans_eq e1) (h2.trans_eq e2)
      _ = ∑ j ∈ range r, q j + t * ((∑ j ∈ range r, c j + ∑ j ∈ Ico r m, c j) - r) := by ring
      _ = ∑ j ∈ range r, q j := by rw [hsplitc, hsum]; ring

/-- Ky Fan's maximum principle, matrix form. -/
theorem ky_fan_matrix {m r : ℕ} (hr : r ≤ m) (G Q : Matrix (Fin m) (Fin m) R) (q : Fin m → R)
    (hQ : Qᵀ * Q = 1) (hGQ : G * Q = Q * diagonal q) (hsorted : ∀ i j : Fin m, i ≤ j → q j ≤ q i)
    (W : Matrix (Fin m) (Fin r) R) (hW : Wᵀ * W = 1) :
    trace (Wᵀ * (G * W)) ≤ ∑ k : Fin r, q (Fin.castLE hr k) := by
  have hQ' : Q * Qᵀ = 1 := mul_eq_one_comm.1 hQ
  have hG : G = Q * diagonal q * Qᵀ := by
    calc G = G * (Q * Qᵀ) := by rw [hQ', Matrix.mul_one]
      _ = (G * Q) * Qᵀ := by rw [Matrix.mul_assoc]
      _ = _ := by rw [hGQ]
  set C := Qᵀ * W with hC
  have hCt : Cᵀ = Wᵀ * Q := by rw [hC, Matrix.transpose_mul, Matrix.transpose_transpose]
  have hCC : Cᵀ * C = 1 := by
    calc Cᵀ * C = Wᵀ * (Q * Qᵀ) * W := by rw [hCt, hC]; simp only [Matrix.mul_assoc]
      _ = 1 := by rw [hQ', Matrix.mul_one, hW]
  set P := C * Cᵀ with hP
  have hE : Wᵀ * (G * W) = Cᵀ * (diagonal q * C) := by
    rw [hG, hCt, hC]; simp only [Matrix.mul_assoc]
  have htr : trace (Wᵀ * (G * W)) = ∑ j : Fin m, q j * P j j := by
    rw [hE, Matrix.trace_mul_comm, Matrix.mul_assoc]
    simp only [Matrix.trace, Matrix.diag_apply, Matrix.diagonal_mul, hP]
  have hPP : P * P = P := by
    calc P * P = C * (Cᵀ * C) * Cᵀ := by rw [hP]; simp only [Matrix.mul_assoc]
      _ = P := by rw [hCC, Matrix.mul_one]
  have hPt : ∀ j l, P j l = P l j := by
    intro j l
    have : Pᵀ = P := by rw [hP, Matrix.transpose_mul, Matrix.transpose_transpose]
    have h := congrFun (congrFun this l) j
    rw [Matrix.transpose_apply] at h
    exact h
  have hc0 : ∀ j, 0 ≤ P j j := by
    intro j
    rw [hP, Matrix.mul_apply]
    apply Finset.sum_nonneg
    intro k _
    rw [Matrix.transpose_apply]
    exact mul_self_nonneg _
  have hc1 : ∀ j, P j j ≤ 1 := by
    intro j
    have h1 : P j j = ∑ l, P j l * P j l := by
      have := congrFun (congrFun hPP j) j
      rw [Matrix.mul_apply] at this
      rw [← this]
      apply Finset.sum_congr rfl
      intro l _
      rw [hPt l j]
    have h2 : P j j * P j j ≤ ∑ l, P j l * P j l :=
      Finset.single_le_sum (f := fun l => P j l * P j l) (fun l _ => mul_self_nonneg _) (Finset.mem_univ j)
    rw [← h1] at h2
    nlinarith [hc0 j]
  have hsum : ∑ j : Fin m, P j j = r := by
    have : trace P = trace (Cᵀ * C) := by rw [hP, Matrix.trace_mul_comm]
    rw [hCC, Matrix.trace_one, Fintype.card_fin] at this
    exact this
  -- to ℕ-indexed sums
  let q' : ℕ → R := fun j => if h : j < m then q ⟨j, h⟩ else 0
  let c' : ℕ → R := fun j => if h : j < m then P ⟨j, h⟩ ⟨j, h⟩ else 0
  have e1 : ∑ j : Fin m, q j * P j j = ∑ j ∈ range m, q' j * c' j := by
    rw [← Fin.sum_univ_eq_sum_range (fun j => q' j * c' j) m]
    apply Finset.sum_congr rfl
    intro j _
    simp [q', c']
  have e2 : ∑ k : Fin r, q (Fin.castLE hr k) = ∑ k ∈ range r, q' k := by
    rw [← Fin.sum_univ_eq_sum_range q' r]
    apply Finset.sum_congr rfl
    intro k _
    have : (k : ℕ) < m := lt_of_lt_of_le k.isLt hr
    simp [q', this, Fin.castLE]
  have e3 : ∑ j ∈ range m, c' j = r := by
    rw [← hsum, ← Fin.sum_univ_eq_sum_range c' m]
    apply Finset.sum_congr rfl
    intro j _
    simp [c']
  rw [htr, e1, e2]
  apply knapsack m r hr q' c' _ _ _ e3
  · intro i j hij hj
    have hi : i < m := lt_of_le_of_lt hij hj
    simp only [q', hi, hj, dif_pos]
    exact hsorted ⟨i, hi⟩ ⟨j, hj⟩ hij
  · intro j hj
    simp only [c', hj, dif_pos]
    exact hc0 _
  · intro j hj
    simp only [c', hj, dif_pos]
    exact hc1 _

/-! ### list-of-rows form -/

/-- `trace(Wᵀ G W) = Σ_k w_kᵀ G w_k`: the energy of the mode-n unfolding captured by the columns of `W`
when `G = X₍ₙ₎ X₍ₙ₎ᵀ` (`= ‖Wᵀ X₍ₙ₎‖²`). -/
def energy (G W : Mat R) (m r : ℕ) : R :=
  ∑ k ∈ range r, ∑ i ∈ range m, W.get i k * mulCol G W m k i

omit [LinearOrder R] [IsStrictOrderedRing R] in
theorem energy_eq_trace (G W : Mat R) (m r : ℕ) :
    energy G W m r = trace ((toMatrix W m r)ᵀ * (toMatrix G m m * toMatrix W m r)) := by
  unfold energy
  simp only [Matrix.trace, Matrix.diag_apply, Matrix.mul_apply, Matrix.transpose_apply, toMatrix]
  rw [← Fin.sum_univ_eq_sum_range (fun k => ∑ i ∈ range m, W.get i k * mulCol G W m k i) r]
  apply Finset.sum_congr rfl
  intro k _
  rw [← Fin.sum_univ_eq_sum_range (fun i => W.get i k * mulCol G W m k i) m]
  apply Finset.sum_congr rfl
  intro i _
  congr 1
  unfold mulCol
  rw [sum_map_range, ← Fin.sum_univ_eq_sum_range (fun l => G.get i l * W.get l k) m]

/-- Ky Fan's maximum principle for matrices stored as lists of rows. -/
theorem ky_fan_list (G Q W : Mat R) (q : List R) (m r : ℕ) (hr : r ≤ m) (hQ : EigContract G m m q Q)
    (hsorted : ∀ i j, i ≤ j → j < m → q.getD j 0 ≤ q.getD i 0) (hW : OrthonormalCols W m r) :
    energy G W m r ≤ ∑ k ∈ range r, q.getD k 0 := by
  rw [energy_eq_trace]
  have h := ky_fan_matrix hr (toMatrix G m m) (toMatrix Q m m) (fun j => q.getD j.val 0)
    (toMatrix_orthonormal Q m m hQ.ortho) (toMatrix_eig G Q m m q hQ.eig)
    (fun i j hij => hsorted i.val j.val hij j.isLt) (toMatrix W m r) (toMatrix_orthonormal W m r hW)
  refine h.trans_eq ?_
  simp only [Fin.castLE]
  exact Fin.sum_univ_eq_sum_range (fun k => q.getD k 0) r

omit [LinearOrder R] [IsStrictOrderedRing R] in
/-- orthonormal eigenvectors capture exactly the sum of their eigenvalues. -/
theorem energy_of_eig (G U : Mat R) (a : ℕ → R) (m r : ℕ) (hU : OrthonormalCols U m r)
    (he : ∀ k, k < r → IsEigCol G U m k (a k)) : energy G U m r = ∑ k ∈ range r, a k := by
  unfold energy
  apply Finset.sum_congr rfl
  intro k hk
  have hk' := Finset.mem_range.1 hk
  have ho := hU k k hk' hk'
  unfold colDot at ho
  rw [sum_map_range] at ho
  simp only [if_true] at ho
  calc ∑ i ∈ range m, U.get i k * mulCol G U m k i
      = ∑ i ∈ range m, a k * (U.get i k * U.get i k) := by
        apply Finset.sum_congr rfl
        intro i hi
        rw [he k hk' i (Finset.mem_range.1 hi)]; ring
    _ = a k := by rw [← Finset.mul_sum, ho, mul_one]

/-- Dense-solver path: the result of `nvecs` captures at least as much energy as ANY `r` orthonormal
columns, when the solver returned a complete orthonormal eigenbasis (in any order) with non-negative
eigenvalues (a Gram matrix). -/
theorem nvecsPost_max_energy (G V W : Mat R) (w : List R) (m r : ℕ) (flip : Bool)
    (hc : EigContract G m m w V) (hpos : ∀ k, k < m → 0 ≤ w.getD k 0) (hr : r ≤ m)
    (hW : OrthonormalCols W m r) :
    energy G W m r ≤ energy G (nvecsPost w V r flip) m r ∧
    energy G (nvecsPost w V r flip) m r = ∑ k ∈ range r, w.getD ((argsortDescAbs w).getD k 0) 0 := by
  obtain ⟨_, _, _, ho, he, _⟩ := nvecsPost_contract G V w m m r flip hc hr
  have hE := energy_of_eig G (nvecsPost w V r flip) (fun k => w.getD ((argsortDescAbs w).getD k 0) 0) m r ho he
  refine ⟨?_, hE⟩
  rw [hE]
  -- the complete sorted eigenbasis: all m columns, ordered
  obtain ⟨hperm, hl, hrows, ho', he', hs'⟩ := nvecsPost_contract G V w m m m false hc (le_refl m)
  set q : List R := (List.range m).map fun k => w.getD ((argsortDescAbs w).getD k 0) 0 with hq
  have hqk : ∀ k, k < m → q.getD k 0 = w.getD ((argsortDescAbs w).getD k 0) 0 := by
    intro k hk
    rw [hq, getD_map_range _ _ _ _ hk]
  have hQ : EigContract G m m q (nvecsPost w V m false) :=
    ⟨by simp [hq], hl, hrows, fun k hk => by rw [hqk k hk]; exact he' k hk, ho'⟩
  have hplt : ∀ k, k < m → (argsortDescAbs w).getD k 0 < m := by
    intro k hk
    have := argsortDescAbs_lt w k (by rw [hc.wlen]; exact hk)
    rwa [hc.wlen] at this
  have hsorted : ∀ i j, i ≤ j → j < m → q.getD j 0 ≤ q.getD i 0 := by
    intro i j hij hj
    have hi : i < m := lt_of_le_of_lt hij hj
    rw [hqk i hi, hqk j hj]
    have := hs' i j hij hj
    rwa [abs_of_nonneg (hpos _ (hplt j hj)), abs_of_nonneg (hpos _ (hplt i hi))] at this
  have := ky_fan_list G (nvecsPost w V m false) W q m r hr hQ hsorted hW
  refine this.trans_eq ?_
  apply Finset.sum_congr rfl
  intro k hk
  exact hqk k (lt_of_lt_of_le (Finset.mem_range.1 hk) hr)

end Pyttb
