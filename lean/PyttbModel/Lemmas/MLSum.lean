/-
C02 — sum tensors: `innerprod`, `mttkrp`, `ttv` map the operation over the parts and add; the
definitions (`Spec.*`) are linear in the operand, so the result is the operation on the cell-wise sum.
-/
import PyttbModel.Lemmas.MLKruskal
namespace Pyttb
namespace MLK

open ML

variable {α : Type}

/-- What one part of a sum tensor denotes. -/
def partDen [Add α] [Mul α] [One α] [Zero α] (p : ML.Part α) : Den α := ⟨p.shape, p.get⟩

/-- What a sum tensor denotes: the cell-wise sum of its parts. -/
def sumDen [Add α] [Mul α] [One α] [Zero α] (shape : List Nat) (S : ML.Sumtensor α) : Den α :=
  Spec.sumDen shape (S.map partDen)

/-- Denotation of a scalar-or-part result. -/
def partResGet [Add α] [Mul α] [One α] [Zero α] : ScalarOr α (ML.Part α) → List Nat → α
  | .scalar v, _ => v
  | .obj p, i => p.get i

/-- Denotation of a scalar-or-sum-tensor result. -/
def sumResGet [Add α] [Mul α] [One α] [Zero α] : ScalarOr α (ML.Sumtensor α) → List Nat → α
  | .scalar v, _ => v
  | .obj S, i => (S.map fun p => p.get i).sum

/-! ### the definitions are linear in the operand -/

theorem spec_inner_sum [CommSemiring α] (s : List Nat) (dens : List (Den α)) (Y : Den α)
    (hs : ∀ p ∈ dens, p.shape = s) :
    Spec.inner (Spec.sumDen s dens) Y = (dens.map fun p => Spec.inner p Y).sum := by
  show ((allSubs s).map fun k => (dens.map fun p => p.get k).sum * Y.get k).sum = _
  rw [List.map_congr_left (fun k _ => (List.sum_map_mul_right (l := dens) (f := fun (p : Den α) => p.get k) (r := Y.get k)).symm),
    sum_comm]
  apply sum_congr
  intro p hp
  unfold Spec.inner Spec.sumOver
  rw [hs p hp]

theorem spec_ttv_sum [CommSemiring α] (s : List Nat) (dens : List (Den α)) (sel : List Nat) (w : Nat → Nat → α)
    (i : List Nat) (hs : ∀ p ∈ dens, p.shape = s) :
    Spec.ttv (Spec.sumDen s dens) sel w i = (dens.map fun p => Spec.ttv p sel w i).sum := by
  show ((Spec.fiber s (complDims s.length sel) i).map fun k =>
    (dens.map fun p => p.get k).sum * Spec.selProd sel w k).sum = _
  rw [List.map_congr_left (fun k _ => (List.sum_map_mul_right (l := dens) (f := fun (p : Den α) => p.get k)
    (r := Spec.selProd sel w k)).symm), sum_comm]
  apply sum_congr
  intro p hp
  unfold Spec.ttv Spec.sumOver
  rw [hs p hp]

theorem spec_mttkrp_sum [CommSemiring α] (s : List Nat) (dens : List (Den α)) (U : Nat → Nat → Nat → α)
    (lam : Nat → α) (n i r : Nat) (hs : ∀ p ∈ dens, p.shape = s) :
    Spec.mttkrp (Spec.sumDen s dens) U lam n i r = (dens.map fun p => Spec.mttkrp p U lam n i r).sum := by
  show lam r * (((allSubs s).filter fun k => k.getD n 0 == i).map fun k =>
    (dens.map fun p => p.get k).sum * (((List.range s.length).filter (· != n)).map fun m => U m (k.getD m 0) r).prod).sum = _
  rw [List.map_congr_left (fun k _ => (List.sum_map_mul_right (l := dens) (f := fun (p : Den α) => p.get k)
    (r := (((List.range s.length).filter (· != n)).map fun m => U m (k.getD m 0) r).prod)).symm), sum_comm,
    ← List.sum_map_mul_left]
  apply sum_congr
  intro p hp
  unfold Spec.mttkrp Spec.sumOver
  rw [hs p hp]

/-! ### folds over the parts -/

theorem foldlM_op_ok {β γ : Type} (ps : List β) (f : β → Except Reject γ) (v : β → γ) (op : γ → γ → γ)
    (h : ∀ q ∈ ps, f q = .ok (v q)) (acc : γ) :
    ps.foldlM (fun acc q => match f q with
      | .error e => (Except.error e : Except Reject γ)
      | .ok x => .ok (op acc x)) acc = .ok (ps.foldl (fun a q => op a (v q)) acc) := by
  induction ps generalizing acc with
  | nil => rfl
  | cons q ps ih =>
    rw [List.foldlM_cons, h q (List.mem_cons_self ..)]
    exact ih (fun x hx => h x (List.mem_cons_of_mem _ hx)) _

theorem foldlM_op_reject {β γ : Type} (ps : List β) (f : β → Except Reject γ) (op : γ → γ → γ)
    (h : ∃ q ∈ ps, f q = .error .reject) (acc : γ) :
    ps.foldlM (fun acc q => match f q with
      | .error e => (Except.error e : Except Reject γ)
      | .ok x => .ok (op acc x)) acc = .error .reject := by
  induction ps generalizing acc with
  | nil => obtain ⟨q, hq, _⟩ := h; cases hq
  | cons q ps ih =>
    rw [List.foldlM_cons]
    cases hq : f q with
    | error e => cases e; rfl
    | ok x =>
      obtain ⟨q', hq', he⟩ := h
      rcases List.mem_cons.1 hq' with rfl | hmem
      · rw [hq] at he; cases he
      · exact ih ⟨q', hmem, he⟩ _

theorem foldl_add [AddMonoid α] {β : Type} (ps : List β) (v : β → α) (acc : α) :
    ps.foldl (fun a q => a + v q) acc = acc + (ps.map v).sum := by
  induction ps generalizing acc with
  | nil => simp
  | cons q ps ih => rw [List.foldl_cons, ih, List.map_cons, List.sum_cons, add_assoc]

/-! ### `innerprod` -/

/-- **`sumtensor.innerprod`**: when every part's inner product with `o` is the defined one, so is
the sum tensor's. -/
theorem sum_innerprod_spec [CommSemiring α] [BEq α] (p0 : ML.Part α) (ps : List (ML.Part α)) (o : ML.Part α)
    (hsh : ∀ p ∈ ps, p.shape = p0.shape)
    (hparts : ∀ p ∈ p0 :: ps, p.innerprod o = .ok (Spec.inner (partDen p) (partDen o))) :
    ML.Sumtensor.innerprod (p0 :: ps) o = .ok (Spec.inner (sumDen p0.shape (p0 :: ps)) (partDen o)) := by
  unfold ML.Sumtensor.innerprod
  simp only [hparts p0 (List.mem_cons_self ..)]
  rw [foldlM_op_ok ps (fun q => q.innerprod o) (fun q => Spec.inner (partDen q) (partDen o)) (· + ·)
    (fun q hq => hparts q (List.mem_cons_of_mem _ hq)), foldl_add]
  congr 1
  unfold sumDen
  rw [spec_inner_sum p0.shape _ _ (by
    intro p hp
    obtain ⟨q, hq, rfl⟩ := List.mem_map.1 hp
    rcases List.mem_cons.1 hq with rfl | h
    · rfl
    · exact hsh q h)]
  simp [List.map_map, Function.comp_def]

/-- A part that rejects makes the sum tensor reject. -/
theorem sum_innerprod_rejects [Add α] [Mul α] [Zero α] [BEq α] (S : ML.Sumtensor α) (o : ML.Part α)
    (h : ∃ p ∈ S, p.innerprod o = .error .reject) : ML.Sumtensor.innerprod S o = .error .reject := by
  unfold ML.Sumtensor.innerprod
  cases S with
  | nil => rfl
  | cons p0 ps =>
    simp only
    cases h0 : p0.innerprod o with
    | error e => cases e; rfl
    | ok v =>
      simp only
      apply foldlM_op_reject ps (fun q => q.innerprod o) (· + ·)
      obtain ⟨q, hq, he⟩ := h
      rcases List.mem_cons.1 hq with rfl | hmem
      · rw [h0] at he; cases he
      · exact ⟨q, hmem, he⟩

/-! ### `mttkrp` -/

/-- An `I × R` matrix. -/
def MatShape (A : Mat α) (I R : Nat) : Prop := A.length = I ∧ ∀ row ∈ A, row.length = R

theorem matShape_tab {β : Type} (I R : Nat) (f : Nat → Nat → β) :
    MatShape ((List.range I).map fun a => (List.range R).map fun b => f a b) I R := by
  refine ⟨by simp, ?_⟩
  intro row hrow
  obtain ⟨a, _, rfl⟩ := List.mem_map.1 hrow
  simp

theorem addMat_shape [Add α] (A B : Mat α) (I R : Nat) (hA : MatShape A I R) (hB : MatShape B I R) :
    MatShape (ML.Sumtensor.addMat A B) I R := by
  unfold ML.Sumtensor.addMat
  refine ⟨by rw [List.length_zipWith, hA.1, hB.1, Nat.min_self], ?_⟩
  intro row hrow
  obtain ⟨k, hk, rfl⟩ := List.getElem_of_mem hrow
  rw [List.getElem_zipWith, List.length_zipWith, hA.2 _ (List.getElem_mem _), hB.2 _ (List.getElem_mem _), Nat.min_self]

theorem addMat_get [AddMonoid α] (A B : Mat α) (I R i r : Nat) (hA : MatShape A I R) (hB : MatShape B I R)
    (hi : i < I) (hr : r < R) :
    (ML.Sumtensor.addMat A B).get i r = A.get i r + B.get i r := by
  have ha : i < A.length := by rw [hA.1]; exact hi
  have hb : i < B.length := by rw [hB.1]; exact hi
  have hra : (A.getD i []).length = R := by
    rw [List.getD_eq_getElem?_getD, List.getElem?_eq_getElem ha]; exact hA.2 _ (List.getElem_mem _)
  have hrb : (B.getD i []).length = R := by
    rw [List.getD_eq_getElem?_getD, List.getElem?_eq_getElem hb]; exact hB.2 _ (List.getElem_mem _)
  unfold ML.Sumtensor.addMat Mat.get
  have e1 : (List.zipWith (List.zipWith (· + ·)) A B).getD i [] =
      List.zipWith (· + ·) (A.getD i []) (B.getD i []) := by
    simp [List.getD_eq_getElem?_getD, List.getElem?_zipWith, List.getElem?_eq_getElem ha, List.getElem?_eq_getElem hb]
  rw [e1]
  exact getD_zipWith_add _ _ _ (by rw [hra]; exact hr) (by rw [hrb]; exact hr)

theorem foldl_addMat [AddMonoid α] {β : Type} (ps : List β) (v : β → Mat α) (acc : Mat α) (I R : Nat)
    (hacc : MatShape acc I R) (hv : ∀ q ∈ ps, MatShape (v q) I R) :
    MatShape (ps.foldl (fun a q => ML.Sumtensor.addMat a (v q)) acc) I R ∧
    ∀ i r, i < I → r < R → (ps.foldl (fun a q => ML.Sumtensor.addMat a (v q)) acc).get i r =
      acc.get i r + (ps.map fun q => (v q).get i r).sum := by
  induction ps generalizing acc with
  | nil => exact ⟨hacc, fun i r _ _ => by simp⟩
  | cons q ps ih =>
    have hq := hv q (List.mem_cons_self ..)
    obtain ⟨h1, h2⟩ := ih (ML.Sumtensor.addMat acc (v q)) (addMat_shape _ _ I R hacc hq)
      (fun x hx => hv x (List.mem_cons_of_mem _ hx))
    refine ⟨h1, ?_⟩
    intro i r hi hr
    rw [List.foldl_cons, h2 i r hi hr, addMat_get _ _ I R i r hacc hq hi hr, List.map_cons, List.sum_cons, add_assoc]

/-- **`sumtensor.mttkrp`**: when every part returns an `I × R` matrix with the defined entries, the
sum tensor returns the `I × R` matrix the definition gives for the cell-wise sum. -/
theorem sum_mttkrp_spec [CommSemiring α] [BEq α] (p0 : ML.Part α) (ps : List (ML.Part α)) (U : KOperand α)
    (Uf : Nat → Nat → Nat → α) (lam : Nat → α) (n I R : Nat)
    (hsh : ∀ p ∈ ps, p.shape = p0.shape)
    (hparts : ∀ p ∈ p0 :: ps, ∃ V, p.mttkrp U n = .ok V ∧ MatShape V I R ∧
      ∀ i r, i < I → r < R → V.get i r = Spec.mttkrp (partDen p) Uf lam n i r) :
    ∃ W, ML.Sumtensor.mttkrp (p0 :: ps) U n = .ok W ∧ MatShape W I R ∧
      ∀ i r, i < I → r < R → W.get i r = Spec.mttkrp (sumDen p0.shape (p0 :: ps)) Uf lam n i r := by
  classical
  choose! V hV using hparts
  obtain ⟨e0, s0, g0⟩ := hV p0 (List.mem_cons_self ..)
  obtain ⟨f1, f2⟩ := foldl_addMat ps V (V p0) I R s0 (fun q hq => (hV q (List.mem_cons_of_mem _ hq)).2.1)
  refine ⟨ps.foldl (fun a q => ML.Sumtensor.addMat a (V q)) (V p0), ?_, f1, ?_⟩
  · unfold ML.Sumtensor.mttkrp
    simp only [e0]
    exact foldlM_op_ok ps (fun q => q.mttkrp U n) V ML.Sumtensor.addMat
      (fun q hq => (hV q (List.mem_cons_of_mem _ hq)).1) _
  · intro i r hi hr
    rw [f2 i r hi hr, g0 i r hi hr]
    unfold sumDen
    rw [spec_mttkrp_sum p0.shape _ _ _ _ _ _ (by
      intro p hp
      obtain ⟨q, hq, rfl⟩ := List.mem_map.1 hp
      rcases List.mem_cons.1 hq with rfl | h
      · rfl
      · exact hsh q h)]
    rw [List.map_cons, List.map_cons, List.sum_cons, List.map_map]
    congr 2
    apply List.map_congr_left
    intro q hq
    exact (hV q (List.mem_cons_of_mem _ hq)).2.2 i r hi hr

/-! ### `ttv` -/

theorem sum_ttv_scalars [AddCommMonoid α] [Mul α] [One α] (S : List (ML.Part α)) (r : ML.Part α → ScalarOr α (ML.Part α))
    (h : ∀ p ∈ S, ∃ v, r p = .scalar v) (i : List Nat) :
    ((S.map r).filterMap fun x => match x with | .scalar _ => none | .obj o => some o) = [] ∧
    ((S.map r).filterMap fun x => match x with | .scalar v => some v | .obj _ => none).sum =
      (S.map fun p => partResGet (r p) i).sum := by
  induction S with
  | nil => exact ⟨rfl, rfl⟩
  | cons p S ih =>
    obtain ⟨v, hv⟩ := h p (List.mem_cons_self ..)
    obtain ⟨h1, h2⟩ := ih (fun q hq => h q (List.mem_cons_of_mem _ hq))
    simp only [List.map_cons, hv, List.filterMap_cons, List.sum_cons, h1, h2, partResGet, and_self]

theorem sum_ttv_objs (S : List (ML.Part α)) (r : ML.Part α → ScalarOr α (ML.Part α)) (o : ML.Part α → ML.Part α)
    (h : ∀ p ∈ S, r p = .obj (o p)) :
    ((S.map r).filterMap fun x => match x with | .scalar _ => none | .obj o => some o) = S.map o := by
  induction S with
  | nil => rfl
  | cons p S ih =>
    simp only [List.map_cons, h p (List.mem_cons_self ..), List.filterMap_cons,
      ih (fun q hq => h q (List.mem_cons_of_mem _ hq))]

/-- **`sumtensor.ttv`**, structure: the parts' results are all scalars (summed) or all tensor objects
(collected into a new sum tensor); either way the result denotes the sum of what the parts' results
denote. -/
theorem sum_ttv_struct [CommSemiring α] [BEq α] (S : ML.Sumtensor α) (vs : List (List α))
    (dims excl : Option (List Int)) (r : ML.Part α → ScalarOr α (ML.Part α))
    (h : ∀ p ∈ S, p.ttv vs dims excl = .ok (r p))
    (hkind : (∀ p ∈ S, ∃ v, r p = .scalar v) ∨ (S ≠ [] ∧ ∀ p ∈ S, ∃ o, r p = .obj o)) :
    ∃ res, ML.Sumtensor.ttv S vs dims excl = .ok res ∧
      (∀ v, res = .scalar v → ∀ p ∈ S, ∃ v', r p = .scalar v') ∧
      (∀ S', res = .obj S' → S'.length = S.length ∧ ∀ p ∈ S, ∃ o, r p = .obj o) ∧
      ∀ i, sumResGet res i = (S.map fun p => partResGet (r p) i).sum := by
  have hm := mapM_ok S (fun p => p.ttv vs dims excl) r h
  rcases hkind with hk | ⟨hne, hk⟩
  · refine ⟨.scalar ((S.map r).filterMap fun x => match x with | .scalar v => some v | .obj _ => none).sum,
      ?_, fun _ _ => hk, (fun _ h => by cases h), fun i => (sum_ttv_scalars S r hk i).2⟩
    unfold ML.Sumtensor.ttv
    simp only [hm, (sum_ttv_scalars S r hk []).1, List.isEmpty_nil, if_true]
  · classical
    choose! o ho using hk
    have hparts := sum_ttv_objs S r o ho
    refine ⟨.obj (S.map o), ?_, (fun _ h => by cases h),
      (fun S' h => by cases h; exact ⟨by simp, fun p hp => ⟨o p, ho p hp⟩⟩), ?_⟩
    · unfold ML.Sumtensor.ttv
      have : (S.map o).isEmpty = false := by
        cases S with
        | nil => exact absurd rfl hne
        | cons a l => rfl
      simp only [hm, hparts, this, Bool.false_eq_true, if_false]
    · intro i
      show ((S.map o).map fun p => p.get i).sum = _
      rw [List.map_map]
      apply sum_congr
      intro p hp
      show (o p).get i = partResGet (r p) i
      rw [ho p hp]
      rfl

/-- **`sumtensor.ttv`**: when every part's `ttv` denotes the defined value (and the parts agree on
whether the result is a scalar), the sum tensor's result denotes the defined value for the
cell-wise sum. -/
theorem sum_ttv_spec [CommSemiring α] [BEq α] (p0 : ML.Part α) (ps : List (ML.Part α)) (vs : List (List α))
    (dims excl : Option (List Int)) (sel : List Nat) (w : Nat → Nat → α) (rshape : List Nat)
    (hsh : ∀ p ∈ ps, p.shape = p0.shape)
    (hparts : ∀ p ∈ p0 :: ps, ∃ r, p.ttv vs dims excl = .ok r ∧
      ((∃ v, r = .scalar v) ↔ rshape = []) ∧
      ∀ i, InBounds rshape i → partResGet r i = Spec.ttv (partDen p) sel w i) :
    ∃ res, ML.Sumtensor.ttv (p0 :: ps) vs dims excl = .ok res ∧
      ((∃ v, res = .scalar v) ↔ rshape = []) ∧
      ∀ i, InBounds rshape i → sumResGet res i = Spec.ttv (sumDen p0.shape (p0 :: ps)) sel w i := by
  classical
  choose! r hr using hparts
  have hkind : (∀ p ∈ p0 :: ps, ∃ v, r p = .scalar v) ∨ (p0 :: ps ≠ [] ∧ ∀ p ∈ p0 :: ps, ∃ o, r p = .obj o) := by
    by_cases h0 : rshape = []
    · exact Or.inl fun p hp => (hr p hp).2.1.2 h0
    · refine Or.inr ⟨by simp, fun p hp => ?_⟩
      cases hrp : r p with
      | scalar v => exact absurd ((hr p hp).2.1.1 ⟨v, hrp⟩) h0
      | obj o => exact ⟨o, rfl⟩
  obtain ⟨res, e, k1, k2, g⟩ := sum_ttv_struct (p0 :: ps) vs dims excl r (fun p hp => (hr p hp).1) hkind
  refine ⟨res, e, ?_, ?_⟩
  · constructor
    · rintro ⟨v, rfl⟩
      exact (hr p0 (List.mem_cons_self ..)).2.1.1 (k1 v rfl p0 (List.mem_cons_self ..))
    · intro h0
      cases hres : res with
      | scalar v => exact ⟨v, rfl⟩
      | obj S' =>
        obtain ⟨o, ho⟩ := (k2 S' hres).2 p0 (List.mem_cons_self ..)
        obtain ⟨v, hv⟩ := (hr p0 (List.mem_cons_self ..)).2.1.2 h0
        rw [ho] at hv; cases hv
  · intro i hi
    rw [g i]
    unfold sumDen
    rw [spec_ttv_sum p0.shape _ _ _ _ (by
      intro p hp
      obtain ⟨q, hq, rfl⟩ := List.mem_map.1 hp
      rcases List.mem_cons.1 hq with rfl | h
      · rfl
      · exact hsh q h), List.map_map]
    apply sum_congr
    intro p hp
    exact (hr p hp).2.2 i hi

end MLK
end Pyttb
