/-
C02 — sum tensors: `innerprod`, `mttkrp`, `ttv` map the operation over the parts and add; the
definitions (`Spec.*`) are linear in the operand, so the result is the operation on the cell-wise sum.
-/
import PyttbModel.Lemmas.MLTuckerOps
import PyttbModel.Lemmas.MLTuckerSparse
namespace Pyttb
namespace MLK

open ML

variable {α : Type}

/-- What one part of a sum tensor denotes. -/
def partDen [Add α] [Mul α] [One α] [Zero α] (p : ML.Part α) : Den α := ⟨p.shape, p.get⟩

/-- What a sum tensor denotes: the cell-wise sum of its parts. -/
def sumDen [Add α] [Mul α] [One α] [Zero α] (shape : List Nat) (S : ML.Sumtensor α) : Den α :=
  Spec.sumDen shape (S.map partDen)

/-- Denotation of a scalar-or-part result. -/
def partResGet [Add α] [Mul α] [One α] [Zero α] : ScalarOr α (ML.Part α) → List Nat → α
  | .scalar v, _ => v
  | .obj p, i => p.get i

/-- Denotation of a scalar-or-sum-tensor result. -/
def sumResGet [Add α] [Mul α] [One α] [Zero α] : ScalarOr α (ML.Sumtensor α) → List Nat → α
  | .scalar v, _ => v
  | .obj S, i => (S.map fun p => p.get i).sum

/-! ### the definitions are linear in the operand -/

theorem spec_inner_sum [CommSemiring α] (s : List Nat) (dens : List (Den α)) (Y : Den α)
    (hs : ∀ p ∈ dens, p.shape = s) :
    Spec.inner (Spec.sumDen s dens) Y = (dens.map fun p => Spec.inner p Y).sum := by
  show ((allSubs s).map fun k => (dens.map fun p => p.get k).sum * Y.get k).sum = _
  rw [List.map_congr_left (fun k _ => (List.sum_map_mul_right (l := dens) (f := fun (p : Den α) => p.get k) (r := Y.get k)).symm),
    sum_comm]
  apply sum_congr
  intro p hp
  unfold Spec.inner Spec.sumOver
  rw [hs p hp]

theorem spec_ttv_sum [CommSemiring α] (s : List Nat) (dens : List (Den α)) (sel : List Nat) (w : Nat → Nat → α)
    (i : List Nat) (hs : ∀ p ∈ dens, p.shape = s) :
    Spec.ttv (Spec.sumDen s dens) sel w i = (dens.map fun p => Spec.ttv p sel w i).sum := by
  show ((Spec.fiber s (complDims s.length sel) i).map fun k =>
    (dens.map fun p => p.get k).sum * Spec.selProd sel w k).sum = _
  rw [List.map_congr_left (fun k _ => (List.sum_map_mul_right (l := dens) (f := fun (p : Den α) => p.get k)
    (r := Spec.selProd sel w k)).symm), sum_comm]
  apply sum_congr
  intro p hp
  unfold Spec.ttv Spec.sumOver
  rw [hs p hp]

theorem spec_mttkrp_sum [CommSemiring α] (s : List Nat) (dens : List (Den α)) (U : Nat → Nat → Nat → α)
    (lam : Nat → α) (n i r : Nat) (hs : ∀ p ∈ dens, p.shape = s) :
    Spec.mttkrp (Spec.sumDen s dens) U lam n i r = (dens.map fun p => Spec.mttkrp p U lam n i r).sum := by
  show lam r * (((allSubs s).filter fun k => k.getD n 0 == i).map fun k =>
    (dens.map fun p => p.get k).sum * (((List.range s.length).filter (· != n)).map fun m => U m (k.getD m 0) r).prod).sum = _
  rw [List.map_congr_left (fun k _ => (List.sum_map_mul_right (l := dens) (f := fun (p : Den α) => p.get k)
    (r := (((List.range s.length).filter (· != n)).map fun m => U m (k.getD m 0) r).prod)).symm), sum_comm,
    ← List.sum_map_mul_left]
  apply sum_congr
  intro p hp
  unfold Spec.mttkrp Spec.sumOver
  rw [hs p hp]

/-! ### folds over the parts -/

theorem foldlM_step_ok {β γ : Type} (ps : List β) (step : γ → β → Except Reject γ) (g : γ → β → γ)
    (h : ∀ a, ∀ q ∈ ps, step a q = .ok (g a q)) (acc : γ) :
    ps.foldlM step acc = .ok (ps.foldl g acc) := by
  induction ps generalizing acc with
  | nil => rfl
  | cons q ps ih =>
    rw [List.foldlM_cons, h acc q (List.mem_cons_self ..)]
    exact ih (fun a x hx => h a x (List.mem_cons_of_mem _ hx)) _

theorem foldlM_step_reject {β γ : Type} (ps : List β) (step : γ → β → Except Reject γ)
    (h : ∃ q ∈ ps, ∀ a, step a q = .error .reject) (acc : γ) :
    ps.foldlM step acc = .error .reject := by
  induction ps generalizing acc with
  | nil => obtain ⟨q, hq, _⟩ := h; cases hq
  | cons q ps ih =>
    rw [List.foldlM_cons]
    cases hq : step acc q with
    | error e => cases e; rfl
    | ok x =>
      obtain ⟨q', hq', he⟩ := h
      rcases List.mem_cons.1 hq' with rfl | hmem
      · rw [he acc] at hq; cases hq
      · exact ih ⟨q', hmem, he⟩ _

theorem foldl_add [AddMonoid α] {β : Type} (ps : List β) (v : β → α) (acc : α) :
    ps.foldl (fun a q => a + v q) acc = acc + (ps.map v).sum := by
  induction ps generalizing acc with
  | nil => simp
  | cons q ps ih => rw [List.foldl_cons, ih, List.map_cons, List.sum_cons, add_assoc]

/-! ### `innerprod` -/

/-- **`sumtensor.innerprod`**: when every part's inner product with `o` is the defined one, so is
the sum tensor's. -/
theorem sum_innerprod_spec [CommSemiring α] [BEq α] (p0 : ML.Part α) (ps : List (ML.Part α)) (o : ML.Part α)
    (hsh : ∀ p ∈ ps, p.shape = p0.shape)
    (hparts : ∀ p ∈ p0 :: ps, p.innerprod o = .ok (Spec.inner (partDen p) (partDen o))) :
    ML.Sumtensor.innerprod (p0 :: ps) o = .ok (Spec.inner (sumDen p0.shape (p0 :: ps)) (partDen o)) := by
  unfold ML.Sumtensor.innerprod
  simp only [hparts p0 (List.mem_cons_self ..)]
  rw [foldlM_step_ok ps _ (fun a q => a + Spec.inner (partDen q) (partDen o))
    (fun a q hq => by simp only [hparts q (List.mem_cons_of_mem _ hq)]), foldl_add]
  congr 1
  unfold sumDen
  rw [spec_inner_sum p0.shape _ _ (by
    intro p hp
    obtain ⟨q, hq, rfl⟩ := List.mem_map.1 hp
    rcases List.mem_cons.1 hq with rfl | h
    · rfl
    · exact hsh q h)]
  simp [List.map_map, Function.comp_def]

/-- A part that rejects makes the sum tensor reject. -/
theorem sum_innerprod_rejects [Add α] [Mul α] [Zero α] [BEq α] (S : ML.Sumtensor α) (o : ML.Part α)
    (h : ∃ p ∈ S, p.innerprod o = .error .reject) : ML.Sumtensor.innerprod S o = .error .reject := by
  unfold ML.Sumtensor.innerprod
  cases S with
  | nil => rfl
  | cons p0 ps =>
    simp only
    cases h0 : p0.innerprod o with
    | error e => cases e; rfl
    | ok v =>
      simp only
      apply foldlM_step_reject ps
      obtain ⟨q, hq, he⟩ := h
      rcases List.mem_cons.1 hq with rfl | hmem
      · rw [h0] at he; cases he
      · exact ⟨q, hmem, fun a => by simp only [he]⟩

/-! ### `mttkrp` -/

/-- An `I × R` matrix. -/
def MatShape (A : Mat α) (I R : Nat) : Prop := A.length = I ∧ ∀ row ∈ A, row.length = R

theorem matShape_tab {β : Type} (I R : Nat) (f : Nat → Nat → β) :
    MatShape ((List.range I).map fun a => (List.range R).map fun b => f a b) I R := by
  refine ⟨by simp, ?_⟩
  intro row hrow
  obtain ⟨a, _, rfl⟩ := List.mem_map.1 hrow
  simp

theorem addMat_shape [Add α] (A B : Mat α) (I R : Nat) (hA : MatShape A I R) (hB : MatShape B I R) :
    MatShape (ML.Sumtensor.addMat A B) I R := by
  unfold ML.Sumtensor.addMat
  refine ⟨by rw [List.length_zipWith, hA.1, hB.1, Nat.min_self], ?_⟩
  intro row hrow
  obtain ⟨k, hk, rfl⟩ := List.getElem_of_mem hrow
  rw [List.getElem_zipWith, List.length_zipWith, hA.2 _ (List.getElem_mem _), hB.2 _ (List.getElem_mem _), Nat.min_self]

theorem addMat_get [AddMonoid α] (A B : Mat α) (I R i r : Nat) (hA : MatShape A I R) (hB : MatShape B I R)
    (hi : i < I) (hr : r < R) :
    (ML.Sumtensor.addMat A B).get i r = A.get i r + B.get i r := by
  have ha : i < A.length := by rw [hA.1]; exact hi
  have hb : i < B.length := by rw [hB.1]; exact hi
  have hra : (A.getD i []).length = R := by
    rw [List.getD_eq_getElem?_getD, List.getElem?_eq_getElem ha]; exact hA.2 _ (List.getElem_mem _)
  have hrb : (B.getD i []).length = R := by
    rw [List.getD_eq_getElem?_getD, List.getElem?_eq_getElem hb]; exact hB.2 _ (List.getElem_mem _)
  unfold ML.Sumtensor.addMat Mat.get
  have e1 : (List.zipWith (List.zipWith (· + ·)) A B).getD i [] =
      List.zipWith (· + ·) (A.getD i []) (B.getD i []) := by
    simp [List.getD_eq_getElem?_getD, List.getElem?_zipWith, List.getElem?_eq_getElem ha, List.getElem?_eq_getElem hb]
  rw [e1]
  exact getD_zipWith_add _ _ _ (by rw [hra]; exact hr) (by rw [hrb]; exact hr)

theorem foldl_addMat [AddMonoid α] {β : Type} (ps : List β) (v : β → Mat α) (acc : Mat α) (I R : Nat)
    (hacc : MatShape acc I R) (hv : ∀ q ∈ ps, MatShape (v q) I R) :
    MatShape (ps.foldl (fun a q => ML.Sumtensor.addMat a (v q)) acc) I R ∧
    ∀ i r, i < I → r < R → (ps.foldl (fun a q => ML.Sumtensor.addMat a (v q)) acc).get i r =
      acc.get i r + (ps.map fun q => (v q).get i r).sum := by
  induction ps generalizing acc with
  | nil => exact ⟨hacc, fun i r _ _ => by simp⟩
  | cons q ps ih =>
    have hq := hv q (List.mem_cons_self ..)
    obtain ⟨h1, h2⟩ := ih (ML.Sumtensor.addMat acc (v q)) (addMat_shape _ _ I R hacc hq)
      (fun x hx => hv x (List.mem_cons_of_mem _ hx))
    refine ⟨h1, ?_⟩
    intro i r hi hr
    rw [List.foldl_cons, h2 i r hi hr, addMat_get _ _ I R i r hacc hq hi hr, List.map_cons, List.sum_cons, add_assoc]

/-- **`sumtensor.mttkrp`**: when every part returns an `I × R` matrix with the defined entries, the
sum tensor returns the `I × R` matrix the definition gives for the cell-wise sum. -/
theorem sum_mttkrp_spec [CommSemiring α] [BEq α] (p0 : ML.Part α) (ps : List (ML.Part α)) (U : KOperand α)
    (Uf : Nat → Nat → Nat → α) (lam : Nat → α) (n I R : Nat)
    (hsh : ∀ p ∈ ps, p.shape = p0.shape)
    (hparts : ∀ p ∈ p0 :: ps, ∃ V, p.mttkrp U n = .ok V ∧ MatShape V I R ∧
      ∀ i r, i < I → r < R → V.get i r = Spec.mttkrp (partDen p) Uf lam n i r) :
    ∃ W, ML.Sumtensor.mttkrp (p0 :: ps) U n = .ok W ∧ MatShape W I R ∧
      ∀ i r, i < I → r < R → W.get i r = Spec.mttkrp (sumDen p0.shape (p0 :: ps)) Uf lam n i r := by
  classical
  choose! V hV using hparts
  obtain ⟨e0, s0, g0⟩ := hV p0 (List.mem_cons_self ..)
  obtain ⟨f1, f2⟩ := foldl_addMat ps V (V p0) I R s0 (fun q hq => (hV q (List.mem_cons_of_mem _ hq)).2.1)
  refine ⟨ps.foldl (fun a q => ML.Sumtensor.addMat a (V q)) (V p0), ?_, f1, ?_⟩
  · unfold ML.Sumtensor.mttkrp
    simp only [e0]
    exact foldlM_step_ok ps _ (fun a q => ML.Sumtensor.addMat a (V q))
      (fun a q hq => by simp only [(hV q (List.mem_cons_of_mem _ hq)).1]) _
  · intro i r hi hr
    rw [f2 i r hi hr, g0 i r hi hr]
    unfold sumDen
    rw [spec_mttkrp_sum p0.shape _ _ _ _ _ _ (by
      intro p hp
      obtain ⟨q, hq, rfl⟩ := List.mem_map.1 hp
      rcases List.mem_cons.1 hq with rfl | h
      · rfl
      · exact hsh q h)]
    rw [List.map_cons, List.map_cons, List.sum_cons, List.map_map]
    congr 2
    apply List.map_congr_left
    intro q hq
    exact (hV q (List.mem_cons_of_mem _ hq)).2.2 i r hi hr

/-! ### `ttv` -/

theorem sum_ttv_scalars [AddCommMonoid α] [Mul α] [One α] (S : List (ML.Part α)) (r : ML.Part α → ScalarOr α (ML.Part α))
    (fs : ScalarOr α (ML.Part α) → Option α) (fo : ScalarOr α (ML.Part α) → Option (ML.Part α))
    (hfs : ∀ v, fs (.scalar v) = some v) (hfo : ∀ v, fo (.scalar v) = none)
    (h : ∀ p ∈ S, ∃ v, r p = .scalar v) (i : List Nat) :
    (S.map r).filterMap fo = [] ∧
    ((S.map r).filterMap fs).sum = (S.map fun p => partResGet (r p) i).sum := by
  induction S with
  | nil => exact ⟨rfl, rfl⟩
  | cons p S ih =>
    obtain ⟨v, hv⟩ := h p (List.mem_cons_self ..)
    obtain ⟨h1, h2⟩ := ih (fun q hq => h q (List.mem_cons_of_mem _ hq))
    simp only [List.map_cons, hv, List.filterMap_cons, hfs, hfo, List.sum_cons, h1, h2, partResGet, and_self]

theorem sum_ttv_objs (S : List (ML.Part α)) (r : ML.Part α → ScalarOr α (ML.Part α)) (o : ML.Part α → ML.Part α)
    (fo : ScalarOr α (ML.Part α) → Option (ML.Part α)) (hfo : ∀ x, fo (.obj x) = some x)
    (h : ∀ p ∈ S, r p = .obj (o p)) :
    (S.map r).filterMap fo = S.map o := by
  induction S with
  | nil => rfl
  | cons p S ih =>
    simp only [List.map_cons, h p (List.mem_cons_self ..), List.filterMap_cons, hfo,
      ih (fun q hq => h q (List.mem_cons_of_mem _ hq))]

/-- **`sumtensor.ttv`**, structure: the parts' results are all scalars (summed) or all tensor objects
(collected into a new sum tensor); either way the result denotes the sum of what the parts' results
denote. -/
theorem sum_ttv_struct [CommSemiring α] [BEq α] (S : ML.Sumtensor α) (vs : List (List α))
    (dims excl : Option (List Int)) (r : ML.Part α → ScalarOr α (ML.Part α))
    (h : ∀ p ∈ S, p.ttv vs dims excl = .ok (r p))
    (hkind : (∀ p ∈ S, ∃ v, r p = .scalar v) ∨ (S ≠ [] ∧ ∀ p ∈ S, ∃ o, r p = .obj o)) :
    ∃ res, ML.Sumtensor.ttv S vs dims excl = .ok res ∧
      (∀ v, res = .scalar v → ∀ p ∈ S, ∃ v', r p = .scalar v') ∧
      (∀ S', res = .obj S' → S'.length = S.length ∧ ∀ p ∈ S, ∃ o, r p = .obj o) ∧
      ∀ i, sumResGet res i = (S.map fun p => partResGet (r p) i).sum := by
  have hm := mapM_ok S (fun p => p.ttv vs dims excl) r h
  rcases hkind with hk | ⟨hne, hk⟩
  · have key : ∀ fs fo, (∀ v, fs (ScalarOr.scalar v : ScalarOr α (ML.Part α)) = some v) →
        (∀ v, fo (ScalarOr.scalar v : ScalarOr α (ML.Part α)) = (none : Option (ML.Part α))) →
        ∃ res, (if ((S.map r).filterMap fo).isEmpty = true then
            (Except.ok (.scalar ((S.map r).filterMap fs).sum) : Except Reject (ScalarOr α (ML.Sumtensor α)))
          else .ok (.obj ((S.map r).filterMap fo))) = .ok res ∧
          (∀ v, res = .scalar v → ∀ p ∈ S, ∃ v', r p = .scalar v') ∧
          (∀ S', res = .obj S' → S'.length = S.length ∧ ∀ p ∈ S, ∃ o, r p = .obj o) ∧
          ∀ i, sumResGet res i = (S.map fun p => partResGet (r p) i).sum := by
      intro fs fo hfs hfo
      refine ⟨.scalar ((S.map r).filterMap fs).sum, ?_, fun _ _ => hk, (fun _ h => by cases h),
        fun i => (sum_ttv_scalars S r fs fo hfs hfo hk i).2⟩
      rw [(sum_ttv_scalars S r fs fo hfs hfo hk []).1]
      rfl
    unfold ML.Sumtensor.ttv
    simp only [hm]
    exact key _ _ (fun _ => rfl) (fun _ => rfl)
  · classical
    choose! o ho using hk
    have key : ∀ (fs : ScalarOr α (ML.Part α) → Option α) fo, (∀ x, fo (ScalarOr.obj x : ScalarOr α (ML.Part α)) = some x) →
        ∃ res, (if ((S.map r).filterMap fo).isEmpty = true then
            (Except.ok (.scalar ((S.map r).filterMap fs).sum) : Except Reject (ScalarOr α (ML.Sumtensor α)))
          else .ok (.obj ((S.map r).filterMap fo))) = .ok res ∧
          (∀ v, res = .scalar v → ∀ p ∈ S, ∃ v', r p = .scalar v') ∧
          (∀ S', res = .obj S' → S'.length = S.length ∧ ∀ p ∈ S, ∃ o, r p = .obj o) ∧
          ∀ i, sumResGet res i = (S.map fun p => partResGet (r p) i).sum := by
      intro fs fo hfo
      have hparts := sum_ttv_objs S r o fo hfo ho
      have hne' : (S.map o).isEmpty = false := by
        cases S with
        | nil => exact absurd rfl hne
        | cons a l => rfl
      refine ⟨.obj (S.map o), ?_, (fun _ h => by cases h),
        (fun S' h => by cases h; exact ⟨by simp, fun p hp => ⟨o p, ho p hp⟩⟩), ?_⟩
      · rw [hparts, hne']
        rfl
      · intro i
        show ((S.map o).map fun p => p.get i).sum = _
        rw [List.map_map]
        apply sum_congr
        intro p hp
        show (o p).get i = partResGet (r p) i
        rw [ho p hp]
        rfl
    unfold ML.Sumtensor.ttv
    simp only [hm]
    exact key _ _ (fun _ => rfl)

/-- **`sumtensor.ttv`**: when every part's `ttv` denotes the defined value (and the parts agree on
whether the result is a scalar), the sum tensor's result denotes the defined value for the
cell-wise sum. -/
theorem sum_ttv_spec [CommSemiring α] [BEq α] (p0 : ML.Part α) (ps : List (ML.Part α)) (vs : List (List α))
    (dims excl : Option (List Int)) (sel : List Nat) (w : Nat → Nat → α) (rshape : List Nat)
    (hsh : ∀ p ∈ ps, p.shape = p0.shape)
    (hparts : ∀ p ∈ p0 :: ps, ∃ r, p.ttv vs dims excl = .ok r ∧
      ((∃ v, r = .scalar v) ↔ rshape = []) ∧
      ∀ i, InBounds rshape i → partResGet r i = Spec.ttv (partDen p) sel w i) :
    ∃ res, ML.Sumtensor.ttv (p0 :: ps) vs dims excl = .ok res ∧
      ((∃ v, res = .scalar v) ↔ rshape = []) ∧
      ∀ i, InBounds rshape i → sumResGet res i = Spec.ttv (sumDen p0.shape (p0 :: ps)) sel w i := by
  classical
  have : Nonempty (ScalarOr α (ML.Part α)) := ⟨.scalar 0⟩
  choose! r hr using hparts
  have hkind : (∀ p ∈ p0 :: ps, ∃ v, r p = .scalar v) ∨ (p0 :: ps ≠ [] ∧ ∀ p ∈ p0 :: ps, ∃ o, r p = .obj o) := by
    by_cases h0 : rshape = []
    · exact Or.inl fun p hp => (hr p hp).2.1.2 h0
    · refine Or.inr ⟨by simp, fun p hp => ?_⟩
      cases hrp : r p with
      | scalar v => exact absurd ((hr p hp).2.1.1 ⟨v, hrp⟩) h0
      | obj o => exact ⟨o, rfl⟩
  obtain ⟨res, e, k1, k2, g⟩ := sum_ttv_struct (p0 :: ps) vs dims excl r (fun p hp => (hr p hp).1) hkind
  refine ⟨res, e, ?_, ?_⟩
  · constructor
    · rintro ⟨v, rfl⟩
      exact (hr p0 (List.mem_cons_self ..)).2.1.1 (k1 v rfl p0 (List.mem_cons_self ..))
    · intro h0
      cases hres : res with
      | scalar v => exact ⟨v, rfl⟩
      | obj S' =>
        obtain ⟨o, ho⟩ := (k2 S' hres).2 p0 (List.mem_cons_self ..)
        obtain ⟨v, hv⟩ := (hr p0 (List.mem_cons_self ..)).2.1.2 h0
        rw [ho] at hv; cases hv
  · intro i hi
    rw [g i]
    unfold sumDen
    rw [spec_ttv_sum p0.shape _ _ _ _ (by
      intro p hp
      obtain ⟨q, hq, rfl⟩ := List.mem_map.1 hp
      rcases List.mem_cons.1 hq with rfl | h
      · rfl
      · exact hsh q h), List.map_map]
    apply sum_congr
    intro p hp
    exact (hr p hp).2.2 i hi

/-! ### every kind of part -/

/-- The sparse `ttv` kernel returns a scalar exactly when no mode is left, otherwise a tensor. -/
theorem sparse_ttvCore_kind [Add α] [Mul α] [Zero α] [BEq α] (S : Sparse α) (pairs : List (Nat × List α)) (r : ML.Res α)
    (h : S.ttvCore pairs = .ok r) :
    (complDims S.shape.length (pairs.map (·.1)) = [] ∧ ∃ v, r = .scalar v) ∨
    (complDims S.shape.length (pairs.map (·.1)) ≠ [] ∧ ((∃ t, r = .dense t) ∨ ∃ s, r = .sparse s)) := by
  unfold Sparse.ttvCore at h
  simp only at h
  split at h
  · cases h
  · split at h
    · cases h
    · split at h
      · rename_i hre
        exact Or.inl ⟨List.isEmpty_iff.1 hre, _, (Except.ok.inj h).symm⟩
      · rename_i hre
        refine Or.inr ⟨fun h0 => hre (by rw [h0]; rfl), ?_⟩
        repeat' split at h
        all_goals first
          | exact Or.inl ⟨_, (Except.ok.inj h).symm⟩
          | exact Or.inr ⟨_, (Except.ok.inj h).symm⟩

theorem gather_eq_nil {s rem : List Nat} (h : gather s rem = []) : rem = [] := by
  have := congrArg List.length h
  simpa using this

/-- **`ttv` of any part**, `dims` in any order, one vector per listed mode: a scalar exactly when
every mode is selected; the result denotes `Spec.ttv` of what the part denotes. -/
theorem part_ttv_dims [CommSemiring α] [DecidableEq α] (p : ML.Part α) (hp : PartWF p) (d : List Nat)
    (vs : List (List α)) (hd : d.Nodup) (hN : ∀ x ∈ d, x < p.shape.length) (hl : vs.length = d.length)
    (hsz : ∀ q ∈ d.zip vs, q.2.length = p.shape.getD q.1 0)
    (w : Nat → Nat → α) (hw : ∀ q ∈ d.zip vs, ∀ k, w q.1 k = q.2.getD k 0) :
    ∃ r, p.ttv vs (some (d.map Int.ofNat)) none = .ok r ∧
      ((∃ v, r = .scalar v) ↔ complDims p.shape.length d = []) ∧
      ∀ i, InBounds (gather p.shape (complDims p.shape.length d)) i →
        partResGet r i = Spec.ttv (partDen p) d w i := by
  cases p with
  | dense t =>
    obtain ⟨pairs, e, hs, hpm⟩ := resolve_dims_P t.shape.length vs d hd hN hl
    obtain ⟨f1, f2, f3, f4⟩ := pairs_facts t.shape List.length d vs pairs hd hN hl hsz hs hpm
    obtain ⟨r, hr, hsh, hg⟩ := dense_ttvCore_spec t hp pairs f1 f2 f3 w (fun q hq => hw q (hpm.subset hq))
    have hcd : complDims t.shape.length (pairs.map (·.1)) = complDims t.shape.length d := complDims_perm f4
    have hmodel : t.ttv vs (some (d.map Int.ofNat)) none = .ok r := by unfold Dense.ttv; rw [e]; exact hr
    show ∃ r, _ ∧ (_ ↔ complDims t.shape.length d = []) ∧
      ∀ i, InBounds (gather t.shape (complDims t.shape.length d)) i → _
    cases r with
    | scalar v =>
      refine ⟨.scalar v, ?_, ?_, ?_⟩
      · simp only [ML.Part.ttv, hmodel]
      · refine ⟨fun _ => ?_, fun _ => ⟨v, rfl⟩⟩
        rw [← hcd]
        exact gather_eq_nil (s := t.shape) (by
          have : ([] : List Nat) = Spec.ttvShape t.shape (pairs.map (·.1)) := hsh
          exact this.symm)
      · intro i hi
        have := hg i (by rw [hsh]; unfold Spec.ttvShape; rw [hcd]; exact hi)
        rw [spec_ttv_perm _ f4] at this
        exact this
    | obj o =>
      have hos : o.shape = gather t.shape (complDims t.shape.length d) := by
        have : o.shape = Spec.ttvShape t.shape (pairs.map (·.1)) := hsh
        rw [this]; unfold Spec.ttvShape; rw [hcd]
      refine ⟨.obj (.dense o), ?_, ?_, ?_⟩
      · simp only [ML.Part.ttv, hmodel]
      · refine ⟨(fun ⟨v, h⟩ => by cases h), fun h0 => ?_⟩
        have := dense_ttvCore_obj_pos t pairs o hr
        rw [hos, length_gather, h0] at this
        simp at this
      · intro i hi
        have := hg i (by show InBounds o.shape i; rw [hos]; exact hi)
        rw [spec_ttv_perm _ f4] at this
        exact this
  | sparse s =>
    obtain ⟨pairs, e, hs, hpm⟩ := resolve_dims_P s.shape.length vs d hd hN hl
    obtain ⟨f1, f2, f3, f4⟩ := pairs_facts s.shape List.length d vs pairs hd hN hl hsz hs hpm
    obtain ⟨r, hr, hsh, hg⟩ := sparse_ttvCore_spec s hp pairs f1 f2 f3 w (fun q hq => hw q (hpm.subset hq))
    have hcd : complDims s.shape.length (pairs.map (·.1)) = complDims s.shape.length d := complDims_perm f4
    have hrs : r.shape = gather s.shape (complDims s.shape.length d) := by
      rw [hsh]; unfold Spec.ttvShape; rw [hcd]
    have hval : ∀ i, InBounds (gather s.shape (complDims s.shape.length d)) i →
        r.get i = Spec.ttv s.den d w i := by
      intro i hi
      rw [hg i (by rw [hrs]; exact hi), spec_ttv_perm _ f4]
    have hmodel : s.ttv vs (some (d.map Int.ofNat)) none = .ok r := by unfold Sparse.ttv; rw [e]; exact hr
    show ∃ r, _ ∧ (_ ↔ complDims s.shape.length d = []) ∧
      ∀ i, InBounds (gather s.shape (complDims s.shape.length d)) i → _
    rcases sparse_ttvCore_kind s pairs r hr with ⟨h0, v, rfl⟩ | ⟨h0, ⟨t, rfl⟩ | ⟨t, rfl⟩⟩
    · refine ⟨.scalar v, ?_, ⟨fun _ => hcd ▸ h0, fun _ => ⟨v, rfl⟩⟩, hval⟩
      simp only [ML.Part.ttv, hmodel]
    · refine ⟨.obj (.dense t), ?_, ⟨(fun ⟨v, h⟩ => by cases h), fun h => absurd (hcd ▸ h) h0⟩, hval⟩
      simp only [ML.Part.ttv, hmodel]
    · refine ⟨.obj (.sparse t), ?_, ⟨(fun ⟨v, h⟩ => by cases h), fun h => absurd (hcd ▸ h) h0⟩, hval⟩
      simp only [ML.Part.ttv, hmodel]
  | kruskal k =>
    have hkl : k.shape.length = k.factors.length := kshape_length k
    obtain ⟨r, hr, hsh, hk, hg⟩ := kruskal_ttv_dims k d vs hd (by intro x hx; rw [← hkl]; exact hN x hx) hl hsz w hw
    have hrs : kresShape r = gather k.shape (complDims k.shape.length d) := by rw [hsh]; rfl
    cases r with
    | scalar v =>
      refine ⟨.scalar v, ?_, ?_, ?_⟩
      · simp only [ML.Part.ttv, hr]
      · show _ ↔ complDims k.shape.length d = []
        rw [hkl, ← hk]; exact ⟨fun _ => ⟨v, rfl⟩, fun _ => ⟨v, rfl⟩⟩
      · intro i hi
        exact hg i (by rw [hrs]; exact hi)
    | obj o =>
      refine ⟨.obj (.kruskal o), ?_, ?_, ?_⟩
      · simp only [ML.Part.ttv, hr]
      · show _ ↔ complDims k.shape.length d = []
        rw [hkl, ← hk]; exact ⟨(fun ⟨v, h⟩ => by cases h), fun ⟨v, h⟩ => by cases h⟩
      · intro i hi
        exact hg i (by rw [hrs]; exact hi)
  | tucker t =>
    have htl : t.shape.length = t.factors.length := tshape_length t
    obtain ⟨r, hr, hsh, hk, hg⟩ := tucker_ttv_dims t hp.1 d vs hd (by intro x hx; rw [← htl]; exact hN x hx) hl hsz w hw
    have hrs : tresShape r = gather t.shape (complDims t.shape.length d) := by rw [hsh]; rfl
    cases r with
    | scalar v =>
      refine ⟨.scalar v, ?_, ?_, ?_⟩
      · simp only [ML.Part.ttv, hr]
      · show _ ↔ complDims t.shape.length d = []
        rw [htl, ← hk]; exact ⟨fun _ => ⟨v, rfl⟩, fun _ => ⟨v, rfl⟩⟩
      · intro i hi
        exact hg i (by rw [hrs]; exact hi)
    | obj o =>
      refine ⟨.obj (.tucker o), ?_, ?_, ?_⟩
      · simp only [ML.Part.ttv, hr]
      · show _ ↔ complDims t.shape.length d = []
        rw [htl, ← hk]; exact ⟨(fun ⟨v, h⟩ => by cases h), fun ⟨v, h⟩ => by cases h⟩
      · intro i hi
        exact hg i (by rw [hrs]; exact hi)

theorem part_ttv_none [Add α] [Mul α] [Zero α] [BEq α] (p : ML.Part α) (vs : List (List α)) :
    p.ttv vs none none = p.ttv vs (some ((List.range p.shape.length).map Int.ofNat)) none := by
  cases p with
  | dense t => simp only [ML.Part.ttv, Dense.ttv, resolve_none, ML.Part.shape]
  | sparse s => simp only [ML.Part.ttv, Sparse.ttv, resolve_none, ML.Part.shape]
  | kruskal k => simp only [ML.Part.ttv, Ktensor.ttv, resolve_none, ML.Part.shape, kshape_length]
  | tucker t => simp only [ML.Part.ttv, Ttensor.ttv, resolve_none, ML.Part.shape, tshape_length]

/-- **`ttv` of any part with one vector for every mode**: the scalar `Σ_k ⟦p⟧[k] ∏_m v_m[k_m]`. -/
theorem part_ttv_all [CommSemiring α] [DecidableEq α] (p : ML.Part α) (hp : PartWF p) (vs : List (List α))
    (hl : vs.length = p.shape.length)
    (hsz : ∀ m, m < p.shape.length → (vs.getD m []).length = p.shape.getD m 0) :
    ∃ v, p.ttv vs none none = .ok (.scalar v) ∧
      v = ((allSubs p.shape).map fun k => p.get k *
        ((List.range p.shape.length).map fun m => (vs.getD m []).getD (k.getD m 0) 0).prod).sum := by
  set N := p.shape.length with hN
  have hmem : ∀ q ∈ (List.range N).zip vs, q.1 < N ∧ q.2 = vs.getD q.1 [] := by
    intro q hq
    rw [← hl, zip_range_eq_map vs []] at hq
    obtain ⟨k, hk, rfl⟩ := List.mem_map.1 hq
    exact ⟨by rw [← hl]; exact List.mem_range.1 hk, rfl⟩
  obtain ⟨r, hr, hk, hg⟩ := part_ttv_dims p hp (List.range N) vs List.nodup_range
    (fun x hx => List.mem_range.1 hx) (by simp [hl])
    (fun q hq => by rw [(hmem q hq).2]; exact hsz q.1 (hmem q hq).1)
    (fun m x => (vs.getD m []).getD x 0)
    (fun q hq k => by rw [(hmem q hq).2])
  rw [← hN, complDims_range] at hk hg
  obtain ⟨v, rfl⟩ := hk.2 rfl
  refine ⟨v, by rw [part_ttv_none]; exact hr, ?_⟩
  have := hg [] trivial
  rw [show partResGet (.scalar v) [] = v from rfl] at this
  rw [this]
  show ((Spec.fiber p.shape (complDims p.shape.length (List.range N)) []).map _).sum = _
  rw [← hN, complDims_range, fiber_nil]
  rfl

/-- **`ktensor.innerprod(other)`** for any non-Kruskal `other` (one full `ttv` per component). -/
theorem kruskalVia_spec [CommSemiring α] [DecidableEq α] (K : Ktensor α) (other : ML.Part α) (ho : PartWF other)
    (hs : K.shape = other.shape) :
    ML.Part.kruskalVia K other = .ok (Spec.inner K.den (partDen other)) := by
  have hNl : other.shape.length = K.factors.length := by rw [← hs, kshape_length]
  have hvs : ∀ r, ∃ v, other.ttv (K.factors.map fun A => A.colOf r) none none = .ok (.scalar v) ∧
      v = ((allSubs K.shape).map fun k => other.get k * K.comp r k).sum := by
    intro r
    obtain ⟨v, hv, hval⟩ := part_ttv_all other ho (K.factors.map fun A => A.colOf r)
      (by rw [List.length_map, hNl])
      (by
        intro m _
        rw [show ([] : List α) = Mat.colOf ([] : Mat α) r from rfl, getD_map' (fun A => Mat.colOf A r) K.factors m []]
        rw [← hs, kshape_getD]
        simp [Mat.colOf])
    refine ⟨v, hv, ?_⟩
    rw [hval, ← hs]
    apply sum_congr
    intro k hk
    have hkl : k.length = K.factors.length := by rw [(mem_allSubs.1 hk).length_eq, kshape_length]
    rw [comp_eq_range K r k hkl, kshape_length]
    congr 2
    apply List.map_congr_left
    intro m _
    rw [show ([] : List α) = Mat.colOf ([] : Mat α) r from rfl, getD_map' (fun A => Mat.colOf A r) K.factors m []]
    exact getD_map_col _ _ _
  choose vf hvf using hvs
  unfold ML.Part.kruskalVia
  have : (K.shape != other.shape) = false := by simp [hs]
  rw [this]
  simp only [Bool.false_eq_true, if_false]
  rw [foldlM_step_ok (List.range K.ncomp) _ (fun a r => a + K.weights.getD r 0 * vf r)
    (fun a r _ => by simp only [(hvf r).1]), foldl_add, zero_add]
  congr 1
  show _ = ((allSubs K.shape).map fun k => K.get k * other.get k).sum
  have hterm : ∀ k ∈ allSubs K.shape, K.get k * other.get k =
      ((List.range K.ncomp).map fun r => K.weights.getD r 0 * (other.get k * K.comp r k)).sum := by
    intro k _
    unfold Ktensor.get
    rw [← List.sum_map_mul_right]
    apply sum_congr
    intro r _
    ring
  rw [List.map_congr_left hterm, sum_comm]
  apply sum_congr
  intro r _
  rw [(hvf r).2, List.sum_map_mul_left]

/-- The same with the operands named the other way round (`other.innerprod(K)` dispatches here). -/
theorem kruskalVia_spec' [CommSemiring α] [DecidableEq α] (K : Ktensor α) (other : ML.Part α) (ho : PartWF other)
    (hs : K.shape = other.shape) :
    ML.Part.kruskalVia K other = .ok (Spec.inner (partDen other) K.den) := by
  rw [kruskalVia_spec K other ho hs]
  exact congrArg _ (spec_inner_comm _ _ hs)

/-- **`x.innerprod(y)` across representations** is `Σ_k ⟦x⟧[k]·⟦y⟧[k]`. -/
theorem part_innerprod_spec [CommSemiring α] [DecidableEq α] (x y : ML.Part α) (hx : PartWF x) (hy : PartWF y)
    (hs : x.shape = y.shape) :
    x.innerprod y = .ok (Spec.inner (partDen x) (partDen y)) := by
  cases x with
  | dense a =>
    cases y with
    | dense b => exact dense_innerprod_spec a b hx hy hs
    | sparse b =>
      show b.innerprodDense a = _
      rw [sparse_innerprodDense_spec b hy a hs.symm]
      exact congrArg _ (spec_inner_comm _ _ hs.symm)
    | kruskal b =>
      show ML.Part.kruskalVia b (.dense a) = _
      rw [kruskalVia_spec b (.dense a) hx hs.symm]
      exact congrArg _ (spec_inner_comm _ _ hs.symm)
    | tucker b =>
      show b.innerprodDense a = _
      rw [tucker_innerprodDense_spec b hy.1 hy.2 a hx hs.symm]
      exact congrArg _ (spec_inner_comm _ _ hs.symm)
  | sparse a =>
    cases y with
    | dense b => exact sparse_innerprodDense_spec a hx b hs
    | sparse b => exact sparse_innerprodSparse_spec a b hx hy hs
    | kruskal b =>
      show ML.Part.kruskalVia b (.sparse a) = _
      rw [kruskalVia_spec b (.sparse a) hx hs.symm]
      exact congrArg _ (spec_inner_comm _ _ hs.symm)
    | tucker b =>
      show b.innerprodSparse a = _
      rw [tucker_innerprodSparse_spec b hy.1 hy.2 a hx hs.symm]
      exact congrArg _ (spec_inner_comm _ _ hs.symm)
  | kruskal a =>
    cases y with
    | dense b => exact kruskalVia_spec a (.dense b) hy hs
    | sparse b => exact kruskalVia_spec a (.sparse b) hy hs
    | kruskal b => exact kruskal_innerprodK_spec a b hs
    | tucker b => exact kruskalVia_spec a (.tucker b) hy hs
  | tucker a =>
    cases y with
    | dense b => exact tucker_innerprodDense_spec a hx.1 hx.2 b hy hs
    | sparse b => exact tucker_innerprodSparse_spec a hx.1 hx.2 b hy hs
    | kruskal b =>
      show ML.Part.kruskalVia b (.tucker a) = _
      rw [kruskalVia_spec b (.tucker a) hx hs.symm]
      exact congrArg _ (spec_inner_comm _ _ hs.symm)
    | tucker b => exact tucker_innerprodT_spec a b hx.1 hy.1 hx.2 hs

/-! ### `mttkrp` of every kind of part returns an `I × R` matrix -/

theorem dense_mttkrpCore_shape [Add α] [Mul α] [Zero α] (T : Dense α) (U : List (Mat α)) (n : Nat) (V : Mat α)
    (h : T.mttkrpCore U n = .ok V) :
    MatShape V (T.shape.getD n 0) (if n == 0 then (U.getD 1 []).ncols else (U.getD 0 []).ncols) := by
  unfold Dense.mttkrpCore at h
  simp only at h
  generalize (if n == 0 then (U.getD 1 []).ncols else (U.getD 0 []).ncols) = R at h ⊢
  repeat' split at h
  all_goals cases h
  all_goals
    refine ⟨by simp [Mat.mulD], fun row hrow => ?_⟩
    simp only [Mat.mulD] at hrow
    obtain ⟨a, _, rfl⟩ := List.mem_map.1 hrow
    simp

theorem mapM_length {γ δ : Type} (l : List γ) (f : γ → Except Reject δ) (cs : List δ)
    (h : l.mapM f = .ok cs) : cs.length = l.length := by
  induction l generalizing cs with
  | nil =>
    have : ([] : List γ).mapM f = .ok [] := rfl
    rw [this] at h
    cases h; rfl
  | cons a l ih =>
    rw [List.mapM_cons] at h
    cases ha : f a with
    | error e => rw [ha] at h; cases h
    | ok b =>
      cases hl : l.mapM f with
      | error e => rw [ha, hl] at h; cases h
      | ok bs =>
        rw [ha, hl] at h
        cases h
        simp [ih bs hl]

theorem sparse_mttkrp_shape [Add α] [Mul α] [Zero α] [BEq α] (S : Sparse α) (U : List (Mat α)) (n : Nat) (V : Mat α)
    (h : S.mttkrp (.list U) n = .ok V) :
    MatShape V (S.shape.getD n 0) (if n == 0 then (U.getD 1 []).ncols else (U.getD 0 []).ncols) := by
  unfold Sparse.mttkrp at h
  simp only at h
  split at h
  · cases h
  · split at h
    · cases h
    · rename_i fs hfs
      have hfsU : fs = U := by
        unfold getMttkrpFactors at hfs
        simp only at hfs
        split at hfs
        · cases hfs
        · exact (Except.ok.inj hfs).symm
      subst hfsU
      generalize (if n == 0 then (fs.getD 1 []).ncols else (fs.getD 0 []).ncols) = R at h ⊢
      split at h
      · cases h
      · split at h
        · cases h
        · split at h
          · cases h
          · rename_i cs hcs
            have hl := mapM_length _ _ _ hcs
            injection h with h
            subst h
            refine ⟨by simp, ?_⟩
            intro row hrow
            obtain ⟨i, _, rfl⟩ := List.mem_map.1 hrow
            simpa using hl

/-- Positivity the Tucker `mttkrp` needs of the core. -/
def PartPos : ML.Part α → Prop
  | .tucker t => ∀ e ∈ t.core.shape, 0 < e
  | _ => True

/-- **`mttkrp` of any part with a factor list**: an `I × R` matrix with the defined entries. -/
theorem part_mttkrp_list [CommSemiring α] [DecidableEq α] (p : ML.Part α) (hp : PartWF p) (hpp : PartPos p)
    (U : List (Mat α)) (n R : Nat)
    (hN2 : 2 ≤ p.shape.length) (hn : n < p.shape.length) (hlen : U.length = p.shape.length)
    (hrows : ∀ m, m < p.shape.length → m ≠ n → (U.getD m []).length = p.shape.getD m 0)
    (hcols : ∀ m, m < p.shape.length → m ≠ n → ∀ row ∈ U.getD m [], row.length = R)
    (hpos : ∀ e ∈ p.shape, 0 < e) :
    ∃ V, p.mttkrp (.list U) n = .ok V ∧ MatShape V (p.shape.getD n 0) R ∧
      ∀ i r, i < p.shape.getD n 0 → r < R →
        V.get i r = Spec.mttkrp (partDen p) (fun m x c => (U.getD m []).get x c) (fun _ => 1) n i r := by
  have hposm : ∀ m, m < p.shape.length → 0 < p.shape.getD m 0 := by
    intro m hm
    apply hpos
    rw [getD0_of_lt _ _ hm]
    exact List.getElem_mem hm
  have hR : (if n == 0 then (U.getD 1 []).ncols else (U.getD 0 []).ncols) = R :=
    mttkrp_R U n p.shape.length R hN2 hn hcols (fun m hm hmn => by rw [hrows m hm hmn]; exact hposm m hm)
  cases p with
  | dense t =>
    obtain ⟨V, hV, hval⟩ := dense_mttkrpCore_spec t U n R hp hN2 hn hlen hrows hcols hpos
    have hsh := dense_mttkrpCore_shape t U n V hV
    rw [hR] at hsh
    refine ⟨V, ?_, hsh, hval⟩
    show t.mttkrp (.list U) n = _
    unfold Dense.mttkrp getMttkrpFactors
    have h1 : ¬ (t.shape.length < 2) := by
      have : 2 ≤ t.shape.length := hN2
      omega
    have h2 : (U.length != t.shape.length) = false := by
      have : U.length = t.shape.length := hlen
      simp [this]
    simp only [h1, if_false, h2, Bool.false_eq_true]
    exact hV
  | sparse s =>
    obtain ⟨V, hV, hval⟩ := sparse_mttkrp_list_spec s hp U n R hN2 hn hlen hrows hcols hpos
    have hsh := sparse_mttkrp_shape s U n V hV
    rw [hR] at hsh
    exact ⟨V, hV, hsh, hval⟩
  | kruskal k =>
    have hkl : k.shape.length = k.factors.length := kshape_length k
    obtain ⟨V, hV, h1, h2, hval⟩ := kruskal_mttkrp_list_spec k U n R (hkl ▸ hN2) (hkl ▸ hn) (hkl ▸ hlen)
      (fun m hm hmn => by rw [← kshape_getD]; exact hrows m (by show m < k.shape.length; rw [hkl]; exact hm) hmn)
      (fun m hm hmn => hcols m (by show m < k.shape.length; rw [hkl]; exact hm) hmn)
      (fun m hm _ => by rw [← kshape_getD]; exact hposm m (by show m < k.shape.length; rw [hkl]; exact hm))
    refine ⟨V, hV, ⟨by rw [h1]; exact (kshape_getD k n).symm, h2⟩, ?_⟩
    intro i r hi hr
    exact hval i r (by rw [← kshape_getD]; exact hi) hr
  | tucker t =>
    have htl : t.shape.length = t.factors.length := tshape_length t
    obtain ⟨V, hV, h1, h2, hval⟩ := tucker_mttkrp_list_spec t hp.1 U n R (htl ▸ hN2) (htl ▸ hn) (htl ▸ hlen)
      (fun m hm hmn => by rw [← tshape_getD]; exact hrows m (by show m < t.shape.length; rw [htl]; exact hm) hmn)
      (fun m hm hmn => hcols m (by show m < t.shape.length; rw [htl]; exact hm) hmn)
      (fun m hm _ => by rw [← tshape_getD]; exact hposm m (by show m < t.shape.length; rw [htl]; exact hm))
      hpp
    refine ⟨V, hV, ⟨by rw [h1]; exact (tshape_getD t n).symm, h2⟩, ?_⟩
    intro i r hi hr
    exact hval i r (by rw [← tshape_getD]; exact hi) hr

/-! ### sum tensors of well-formed parts -/

/-- **`sumtensor.innerprod(other)`** for well-formed parts of one shape. -/
theorem sum_innerprod_full [CommSemiring α] [DecidableEq α] (p0 : ML.Part α) (ps : List (ML.Part α)) (o : ML.Part α)
    (hwf : ∀ p ∈ p0 :: ps, PartWF p) (ho : PartWF o) (hsh : ∀ p ∈ ps, p.shape = p0.shape)
    (hso : p0.shape = o.shape) :
    ML.Sumtensor.innerprod (p0 :: ps) o = .ok (Spec.inner (sumDen p0.shape (p0 :: ps)) (partDen o)) := by
  apply sum_innerprod_spec p0 ps o hsh
  intro p hp
  apply part_innerprod_spec p o (hwf p hp) ho ?_
  rcases List.mem_cons.1 hp with rfl | h
  · exact hso
  · rw [hsh p h]; exact hso

/-- **`sumtensor.mttkrp(U, n)`** with a factor list, for well-formed parts of one shape. -/
theorem sum_mttkrp_full [CommSemiring α] [DecidableEq α] (p0 : ML.Part α) (ps : List (ML.Part α))
    (hwf : ∀ p ∈ p0 :: ps, PartWF p) (hpp : ∀ p ∈ p0 :: ps, PartPos p) (hsh : ∀ p ∈ ps, p.shape = p0.shape)
    (U : List (Mat α)) (n R : Nat)
    (hN2 : 2 ≤ p0.shape.length) (hn : n < p0.shape.length) (hlen : U.length = p0.shape.length)
    (hrows : ∀ m, m < p0.shape.length → m ≠ n → (U.getD m []).length = p0.shape.getD m 0)
    (hcols : ∀ m, m < p0.shape.length → m ≠ n → ∀ row ∈ U.getD m [], row.length = R)
    (hpos : ∀ e ∈ p0.shape, 0 < e) :
    ∃ W, ML.Sumtensor.mttkrp (p0 :: ps) (.list U) n = .ok W ∧ MatShape W (p0.shape.getD n 0) R ∧
      ∀ i r, i < p0.shape.getD n 0 → r < R →
        W.get i r = Spec.mttkrp (sumDen p0.shape (p0 :: ps)) (fun m x c => (U.getD m []).get x c) (fun _ => 1) n i r := by
  apply sum_mttkrp_spec p0 ps (.list U) _ _ n (p0.shape.getD n 0) R hsh
  intro p hp
  have hps : p.shape = p0.shape := by
    rcases List.mem_cons.1 hp with rfl | h
    · rfl
    · exact hsh p h
  have := part_mttkrp_list p (hwf p hp) (hpp p hp) U n R (hps ▸ hN2) (hps ▸ hn) (hps ▸ hlen)
    (by rw [hps]; exact hrows) (by rw [hps]; exact hcols) (by rw [hps]; exact hpos)
  rw [hps] at this
  exact this

/-- **`sumtensor.ttv`** (`dims` in any order, one vector per listed mode) for well-formed parts of one
shape: a scalar exactly when every mode is selected, otherwise a sum tensor of the parts' results;
it denotes `Spec.ttv` of the cell-wise sum. -/
theorem sum_ttv_full [CommSemiring α] [DecidableEq α] (p0 : ML.Part α) (ps : List (ML.Part α))
    (hwf : ∀ p ∈ p0 :: ps, PartWF p) (hsh : ∀ p ∈ ps, p.shape = p0.shape)
    (d : List Nat) (vs : List (List α)) (hd : d.Nodup) (hN : ∀ x ∈ d, x < p0.shape.length) (hl : vs.length = d.length)
    (hsz : ∀ q ∈ d.zip vs, q.2.length = p0.shape.getD q.1 0)
    (w : Nat → Nat → α) (hw : ∀ q ∈ d.zip vs, ∀ k, w q.1 k = q.2.getD k 0) :
    ∃ res, ML.Sumtensor.ttv (p0 :: ps) vs (some (d.map Int.ofNat)) none = .ok res ∧
      ((∃ v, res = .scalar v) ↔ complDims p0.shape.length d = []) ∧
      ∀ i, InBounds (gather p0.shape (complDims p0.shape.length d)) i →
        sumResGet res i = Spec.ttv (sumDen p0.shape (p0 :: ps)) d w i := by
  have := sum_ttv_spec p0 ps vs (some (d.map Int.ofNat)) none d w (gather p0.shape (complDims p0.shape.length d)) hsh
    (by
      intro p hp
      have hps : p.shape = p0.shape := by
        rcases List.mem_cons.1 hp with rfl | h
        · rfl
        · exact hsh p h
      obtain ⟨r, hr, hk, hg⟩ := part_ttv_dims p (hwf p hp) d vs hd (hps ▸ hN) hl (by rw [hps]; exact hsz) w hw
      rw [hps] at hk hg
      refine ⟨r, hr, ?_, hg⟩
      rw [hk]
      exact ⟨fun h => by rw [h]; rfl, gather_eq_nil⟩)
  obtain ⟨res, e, hk, hg⟩ := this
  refine ⟨res, e, ?_, hg⟩
  rw [hk]
  exact ⟨gather_eq_nil, fun h => by rw [h]; rfl⟩

end MLK
end Pyttb
