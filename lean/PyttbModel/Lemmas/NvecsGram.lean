/-
C14: the matrix each `nvecs` hands to its eigen-solver is the Gram matrix of the mode-n
unfolding, `Σ_{other modes} X[… a …] · X[… b …]`, entry by entry.
-/
import PyttbModel.Lemmas.NvecsBasic
namespace Pyttb

open Finset

variable {α : Type}

/-! ### dense -/

theorem length_complDims_single (N n : Nat) (hn : n < N) : (complDims N [n]).length = N - 1 := by
  rw [complDims_single N n hn]; simp; omega

theorem isPermOf_modeFirst (N n : Nat) (hn : n < N) : isPermOf (n :: complDims N [n]) N = true := by
  rw [isPermOf_iff]
  refine ⟨by simp [length_complDims_single N n hn]; omega, ?_⟩
  intro m hm
  by_cases h : m = n
  · simp [h]
  · simp [complDims, hm, h]

/-- `gather (a :: j) (invPerm (n :: others)) = j with a inserted at n`. -/
theorem gather_invPerm_modeFirst (N n a : Nat) (j : List Nat) (hn : n < N) (hj : j.length = N - 1) :
    gather (a :: j) (invPerm (n :: complDims N [n])) = insAt j n a := by
  have hp := isPermOf_modeFirst N n hn
  have hnj : n ≤ j.length := by omega
  have hl : (insAt j n a).length = N := by rw [length_insAt j n a hnj]; omega
  symm
  rw [← gather_eq_iff hp hl (by simp; omega)]
  rw [gather_cons, getD_insAt_self j n a hnj]
  congr 1
  have := gather_complDims (insAt j n a) n (by omega)
  rw [hl] at this
  rw [this, eraseIdx_insAt j n a hnj]

/-- `transpose` tabulates the un-permuted subscript (local copy, to keep this file independent). -/
theorem transpose_get_c14 [Zero α] (T : Dense α) (p : List Nat) {j : List Nat}
    (hj : InBounds (gather T.shape p) j) :
    (T.transpose p).get j = T.get (gather j (invPerm p)) := Dense.ofFn_get _ _ hj

/-- `permute` by a non-empty permutation is the transposition. -/
theorem permute_nonempty_c14 [Zero α] (T : Dense α) (p : List Nat) (hne : p ≠ [])
    (hp : isPermOf p T.shape.length = true) : T.permute p = .ok (T.transpose p) := by
  have hl := isPermOf_length_eq hp
  have h1 : (T.shape.length != p.length) = false := by simp [hl]
  have h2 : p.isEmpty = false := by simpa using hne
  simp [Dense.permute, Dense.permuteG, h1, h2, hp]

theorem toTenmat_rowmode [Zero α] (T : Dense α) (_hT : T.WF) (n : Nat) (hn : n < T.shape.length) :
    T.toTenmat (some [n]) none none =
      .ok ⟨T.shape, [n], complDims T.shape.length [n],
        ⟨[numel (gather T.shape [n]), numel (gather T.shape (complDims T.shape.length [n]))],
          (T.transpose (n :: complDims T.shape.length [n])).data⟩⟩ := by
  have hp := isPermOf_modeFirst T.shape.length n hn
  have hperm := permute_nonempty_c14 T _ (by simp) hp
  simp only [Dense.toTenmat, gatherWrapDims]
  simp [hn, hp, hperm]

/-- entry `(a, c)` of the mode-n unfolding with the other modes in increasing order. -/
theorem unfold_entry [Zero α] (T : Dense α) (n a c : Nat) (hn : n < T.shape.length)
    (ha : a < T.shape.getD n 0) (hc : c < numel (T.shape.eraseIdx n)) :
    (⟨[numel (gather T.shape [n]), numel (gather T.shape (complDims T.shape.length [n]))],
        (T.transpose (n :: complDims T.shape.length [n])).data⟩ : Dense α).get [a, c] =
      T.get (insAt (ind2sub (T.shape.eraseIdx n) c) n a) := by
  have hrest := gather_complDims T.shape n hn
  set rest := T.shape.eraseIdx n with hrest_def
  have hsh : gather T.shape (n :: complDims T.shape.length [n]) = T.shape.getD n 0 :: rest := by
    rw [gather_cons, hrest]
  have hjb : InBounds rest (ind2sub rest c) := ind2sub_inBounds hc
  have hib : InBounds (gather T.shape (n :: complDims T.shape.length [n])) (a :: ind2sub rest c) := by
    rw [hsh]; exact ⟨ha, hjb⟩
  have hg := transpose_get_c14 T (n :: complDims T.shape.length [n]) hib
  have hjl : (ind2sub rest c).length = T.shape.length - 1 := by
    rw [hjb.length_eq, hrest_def, List.length_eraseIdx]; simp [hn]
  rw [gather_invPerm_modeFirst T.shape.length n a _ hn hjl] at hg
  rw [← hg]
  -- both sides read the same position of the data list
  simp only [Dense.get, Dense.transpose, Dense.ofFn_shape]
  congr 1
  rw [hsh, hrest]
  simp only [sub2ind, gather_cons, gather_nil, numel_cons, numel_nil, Nat.mul_one, Nat.mul_zero, Nat.add_zero]
  rw [sub2ind_ind2sub hc]

theorem gram_dense [Semiring α] (T : Dense α) (hT : T.WF) (n : Nat) (hn : n < T.shape.length) :
    ∃ Y, T.nvecsGram n = .ok Y ∧ Y.length = T.shape.getD n 0 ∧ (∀ row ∈ Y, row.length = T.shape.getD n 0) ∧
      ∀ a b, a < T.shape.getD n 0 → b < T.shape.getD n 0 → Y.get a b = gramSpec T.get T.shape n a b := by
  unfold Dense.nvecsGram
  rw [toTenmat_rowmode T hT n hn]
  simp only
  set D : Dense α := ⟨[numel (gather T.shape [n]), numel (gather T.shape (complDims T.shape.length [n]))],
          (T.transpose (n :: complDims T.shape.length [n])).data⟩ with hD
  have hI : D.shape.getD 0 0 = T.shape.getD n 0 := by simp [hD, numel]
  have hP : D.shape.getD 1 0 = numel (T.shape.eraseIdx n) := by
    simp [hD, gather_complDims T.shape n hn]
  refine ⟨_, rfl, ?_, ?_, ?_⟩
  · rw [length_matMulT, length_toMat, hI]
  · intro row h; rw [rows_matMulT _ _ row h, length_toMat, hI]
  · intro a b ha hb
    rw [get_matMulT_sum D.toMat D.toMat (numel (T.shape.eraseIdx n)) a b
      (by intro row h; rw [rows_toMat D row h, hP]) (by intro row h; rw [rows_toMat D row h, hP])
      (by rw [length_toMat, hI]; exact ha) (by rw [length_toMat, hI]; exact hb)]
    unfold gramSpec
    rw [sum_map_allSubs]
    apply Finset.sum_congr rfl
    intro c hc
    have hc' := Finset.mem_range.1 hc
    rw [get_toMat D a c (by rw [hI]; exact ha) (by rw [hP]; exact hc'),
      get_toMat D b c (by rw [hI]; exact hb) (by rw [hP]; exact hc'),
      hD, unfold_entry T n a c hn ha hc', unfold_entry T n b c hn hb hc']

/-! ### Kruskal -/

theorem length_ind2sub (s : List Nat) (c : Nat) : (ind2sub s c).length = s.length := by
  induction s generalizing c with
  | nil => rfl
  | cons a s ih => simp [ind2sub, ih]

theorem insAt_zero (j : List Nat) (a : Nat) : insAt j 0 a = a :: j := by simp [insAt]

theorem insAt_cons_succ (x : Nat) (j : List Nat) (n a : Nat) : insAt (x :: j) (n + 1) a = x :: insAt j n a := by
  simp [insAt]

/-- a product over the modes, with the coordinate of mode `n` split off. -/
theorem prod_zipWith_insAt {β : Type} [CommMonoid α] (g : β → Nat → α) (Fs : List β) (j : List Nat) (n a : Nat)
    (d : β) (hn : n < Fs.length) (hj : j.length = Fs.length - 1) :
    (List.zipWith g Fs (insAt j n a)).prod = g (Fs.getD n d) a * (List.zipWith g (Fs.eraseIdx n) j).prod := by
  induction Fs generalizing n j with
  | nil => simp at hn
  | cons A Fs ih =>
    cases n with
    | zero => simp [insAt_zero]
    | succ n =>
      simp only [List.length_cons, Nat.add_lt_add_iff_right] at hn
      cases j with
      | nil => simp at hj; omega
      | cons x j =>
        simp only [List.length_cons, Nat.add_sub_cancel] at hj
        rw [insAt_cons_succ, List.zipWith_cons_cons, List.prod_cons, List.eraseIdx_cons_succ,
          List.zipWith_cons_cons, List.prod_cons, ih j n hn (by omega)]
        simp only [List.getD_cons_succ]
        rw [mul_left_comm]

theorem prod_zipWith_mul {β : Type} [CommMonoid α] (g1 g2 : β → Nat → α) (Fs : List β) (j : List Nat) :
    (List.zipWith g1 Fs j).prod * (List.zipWith g2 Fs j).prod =
      (List.zipWith (fun A x => g1 A x * g2 A x) Fs j).prod := by
  induction Fs generalizing j with
  | nil => simp
  | cons A Fs ih =>
    cases j with
    | nil => simp
    | cons x j =>
      simp only [List.zipWith_cons_cons, List.prod_cons]
      rw [← ih j]
      rw [mul_mul_mul_comm]

/-- the sum over all subscripts of a product over the modes is the product of the per-mode sums. -/
theorem sum_allSubs_prod_zipWith {β : Type} [CommSemiring α] (g : β → Nat → α) (len : β → Nat) (Fs : List β) :
    ((allSubs (Fs.map len)).map fun j => (List.zipWith g Fs j).prod).sum =
      (Fs.map fun A => ((List.range (len A)).map (g A)).sum).prod := by
  induction Fs with
  | nil => simp [allSubs, numel, ind2sub]
  | cons A Fs ih =>
    rw [List.map_cons, allSubs_cons, List.map_flatMap, List.flatMap_def, List.sum_flatten, List.map_map,
      List.map_cons, List.prod_cons, ← ih, ← List.sum_map_mul_left]
    congr 1
    apply List.map_congr_left
    intro t _
    rw [← List.sum_map_mul_right]
    simp only [Function.comp, List.map_map]
    apply congrArg
    apply List.map_congr_left
    intro i _
    simp [Function.comp]

/-- a product over `0..N-1` that skips position `n` is the product over the list without it. -/
theorem prod_skip_eq_eraseIdx {β : Type} [CommMonoid α] (G : β → α) (L : List β) (n : Nat) (d : β) :
    ((List.range L.length).map fun i => if i = n then 1 else G (L.getD i d)).prod =
      ((L.eraseIdx n).map G).prod := by
  induction L generalizing n with
  | nil => simp
  | cons x L ih =>
    rw [List.length_cons, List.range_succ_eq_map, List.map_cons, List.prod_cons, List.map_map]
    cases n with
    | zero =>
      simp only [if_true, one_mul, List.eraseIdx_cons_zero]
      congr 1
      apply List.ext_getElem
      · simp
      · intro k h1 h2
        simp only [List.length_map, List.length_range] at h1
        simp [h1, List.getD_eq_getElem?_getD]
    | succ n =>
      simp only [List.eraseIdx_cons_succ, List.map_cons, List.prod_cons]
      have : (0 : Nat) ≠ n + 1 := by omega
      rw [if_neg this, ← ih n]
      congr 2
      apply List.map_congr_left
      intro i _
      simp [Function.comp]

theorem Ktensor.get_eq_sum [CommSemiring α] (K : Ktensor α) (i : List Nat) :
    K.get i = ∑ p ∈ range K.ncomp, K.weights.getD p 0 * K.comp p i := by
  unfold Ktensor.get
  rw [sum_map_range]

theorem length_gramCols [Add α] [Mul α] [Zero α] (A : Mat α) (R : Nat) : (gramCols A R).length = R := by
  simp [gramCols, length_matMulT, length_transposeN]

theorem rows_gramCols [Add α] [Mul α] [Zero α] (A : Mat α) (R : Nat) : ∀ row ∈ gramCols A R, row.length = R := by
  intro row h
  have := rows_matMulT _ _ row h
  rwa [length_transposeN] at this

theorem get_gramCols [Semiring α] (A : Mat α) (R p q : Nat) (hp : p < R) (hq : q < R) :
    (gramCols A R).get p q = ∑ x ∈ range A.length, A.get x p * A.get x q := by
  unfold gramCols
  rw [get_matMulT_sum (transposeN A R) (transposeN A R) A.length p q (rows_transposeN A R) (rows_transposeN A R)
    (by rw [length_transposeN]; exact hp) (by rw [length_transposeN]; exact hq)]
  apply Finset.sum_congr rfl
  intro x hx
  rw [get_transposeN A R p x hp (Finset.mem_range.1 hx), get_transposeN A R q x hq (Finset.mem_range.1 hx)]

/-- the matrix `M` of `ktensor.nvecs` after the first `k` modes. -/
def kruskalM [Add α] [Mul α] [Zero α] (K : Ktensor α) (n k : Nat) : Mat α :=
  (List.range k).foldl
    (fun M i => if i != n then hadamard M (gramCols (K.factors.getD i []) K.ncomp) else M)
    (K.weights.map fun a => K.weights.map fun b => a * b)

theorem kruskalM_spec [CommSemiring α] (K : Ktensor α) (n k : Nat) :
    (kruskalM K n k).length = K.ncomp ∧ (∀ row ∈ kruskalM K n k, row.length = K.ncomp) ∧
    ∀ p q, p < K.ncomp → q < K.ncomp →
      (kruskalM K n k).get p q = K.weights.getD p 0 * K.weights.getD q 0 *
        ∏ i ∈ range k, (if i = n then 1 else (gramCols (K.factors.getD i []) K.ncomp).get p q) := by
  induction k with
  | zero =>
    refine ⟨by simp [kruskalM, Ktensor.ncomp], ?_, ?_⟩
    · intro row h
      simp only [kruskalM, List.range_zero, List.foldl_nil, List.mem_map] at h
      obtain ⟨a, _, rfl⟩ := h
      simp [Ktensor.ncomp]
    · intro p q hp hq
      simp only [kruskalM, List.range_zero, List.foldl_nil, Finset.range_zero, Finset.prod_empty, mul_one, Mat.get]
      unfold Ktensor.ncomp at hp hq
      rw [getD_map (d := 0) _ _ _ _ hp, getD_map (d := 0) _ _ _ _ hq]
  | succ k ih =>
    obtain ⟨h1, h2, h3⟩ := ih
    have hstep : kruskalM K n (k + 1) =
        if k != n then hadamard (kruskalM K n k) (gramCols (K.factors.getD k []) K.ncomp) else kruskalM K n k := by
      simp [kruskalM, List.range_succ, List.foldl_append]
    by_cases hkn : k = n
    · have : (k != n) = false := by simp [hkn]
      rw [hstep, this]
      simp only [Bool.false_eq_true, if_false]
      refine ⟨h1, h2, ?_⟩
      intro p q hp hq
      rw [h3 p q hp hq, Finset.prod_range_succ, if_pos hkn, mul_one]
    · have : (k != n) = true := by simp [hkn]
      rw [hstep, this]
      simp only [if_true]
      refine ⟨?_, ?_, ?_⟩
      · rw [length_hadamard _ _ (by rw [h1, length_gramCols]), h1]
      · exact rows_hadamard _ _ K.ncomp h2 (rows_gramCols _ _)
      · intro p q hp hq
        rw [get_hadamard _ _ p q (by rw [h1]; exact hp) (by rw [length_gramCols]; exact hp)
          (by rw [getD_row_length h2 p (by rw [h1]; exact hp)]; exact hq)
          (by rw [getD_row_length (rows_gramCols _ _) p (by rw [length_gramCols]; exact hp)]; exact hq),
          h3 p q hp hq, Finset.prod_range_succ, if_neg hkn, mul_assoc]

theorem Ktensor.shape_getD (K : Ktensor α) (n : Nat) : K.shape.getD n 0 = (K.factors.getD n []).length := by
  unfold Ktensor.shape
  by_cases h : n < K.factors.length
  · rw [getD_map (d := []) _ _ _ _ h]
  · simp [List.getD_eq_getElem?_getD, Nat.le_of_not_lt h]

theorem gram_kruskal [CommSemiring α] (K : Ktensor α) (hK : K.WF) (n : Nat) (hn : n < K.factors.length) :
    ∃ Y, K.nvecsGram n = .ok Y ∧ Y.length = K.shape.getD n 0 ∧ (∀ row ∈ Y, row.length = K.shape.getD n 0) ∧
      ∀ a b, a < K.shape.getD n 0 → b < K.shape.getD n 0 → Y.get a b = gramSpec K.get K.shape n a b := by
  set R := K.ncomp with hR
  set An := K.factors.getD n [] with hAn
  have hAnmem : An ∈ K.factors := by
    rw [hAn, List.getD_eq_getElem?_getD, List.getElem?_eq_getElem hn]; exact List.getElem_mem hn
  have hAnrows : ∀ row ∈ An, row.length = R := fun row h => hK An hAnmem row h
  have hI : K.shape.getD n 0 = An.length := K.shape_getD n
  have hY : K.nvecsGram n = .ok (matMulT (matMulN An (kruskalM K n K.factors.length) R) An) := by
    unfold Ktensor.nvecsGram
    have : ¬ (n ≥ K.factors.length) := by omega
    simp only [this, if_false]
    rfl
  obtain ⟨hM1, hM2, hM3⟩ := kruskalM_spec K n K.factors.length
  set M := kruskalM K n K.factors.length with hMdef
  refine ⟨_, hY, ?_, ?_, ?_⟩
  · rw [length_matMulT, length_matMulN, hI]
  · intro row h; rw [rows_matMulT _ _ row h, hI]
  · intro a b ha hb
    rw [hI] at ha hb
    -- the model side
    rw [get_matMulT_sum (matMulN An M R) An R a b (rows_matMulN An M R) hAnrows
      (by rw [length_matMulN]; exact ha) hb]
    have hrow : ∀ q, q < R → (matMulN An M R).get a q = ∑ p ∈ range R, An.get a p * M.get p q := by
      intro q hq
      have := get_matMulN_sum An M R a q (by rw [hM1]; exact hAnrows) ha hq
      rw [hM1] at this
      exact this
    -- the specification side
    unfold gramSpec
    rw [sum_map_allSubs]
    set rest := K.shape.eraseIdx n with hrest
    have hrestmap : rest = (K.factors.eraseIdx n).map List.length := by
      rw [hrest, Ktensor.shape, List.eraseIdx_map]
    -- components with the coordinate of mode n split off
    set F : Nat → Nat → α := fun p c =>
      (List.zipWith (fun (A : Mat α) x => A.get x p) (K.factors.eraseIdx n) (ind2sub rest c)).prod with hF
    have hcomp : ∀ (x p c : Nat), K.comp p (insAt (ind2sub rest c) n x) = An.get x p * F p c := by
      intro x p c
      unfold Ktensor.comp
      have hjl : (ind2sub rest c).length = K.factors.length - 1 := by
        rw [length_ind2sub, hrestmap]; simp [List.length_eraseIdx, hn]
      exact prod_zipWith_insAt (fun (A : Mat α) x => A.get x p) K.factors (ind2sub rest c) n x [] hn hjl
    -- Σ_c F p c * F q c is the product of the per-mode Gram entries
    have hS : ∀ p q, p < R → q < R → ∑ c ∈ range (numel rest), F p c * F q c =
        ∏ i ∈ range K.factors.length,
          (if i = n then 1 else (gramCols (K.factors.getD i []) R).get p q) := by
      intro p q hp hq
      rw [← prod_map_range, prod_skip_eq_eraseIdx (fun A => (gramCols A R).get p q) K.factors n [],
        ← sum_map_allSubs rest (fun j => (List.zipWith (fun (A : Mat α) x => A.get x p) (K.factors.eraseIdx n) j).prod *
          (List.zipWith (fun (A : Mat α) x => A.get x q) (K.factors.eraseIdx n) j).prod)]
      simp only [prod_zipWith_mul]
      rw [hrestmap, sum_allSubs_prod_zipWith (fun (A : Mat α) x => A.get x p * A.get x q) List.length]
      congr 1
      apply List.map_congr_left
      intro A _
      rw [get_gramCols A R p q hp hq, sum_map_range]
    calc ∑ q ∈ range R, (matMulN An M R).get a q * An.get b q
        = ∑ q ∈ range R, ∑ p ∈ range R, An.get a p * M.get p q * An.get b q := by
          apply Finset.sum_congr rfl
          intro q hq
          rw [hrow q (Finset.mem_range.1 hq), Finset.sum_mul]
      _ = ∑ p ∈ range R, ∑ q ∈ range R, (K.weights.getD p 0 * An.get a p * (K.weights.getD q 0 * An.get b q)) *
            ∑ c ∈ range (numel rest), F p c * F q c := by
          rw [Finset.sum_comm]
          apply Finset.sum_congr rfl
          intro p hp
          apply Finset.sum_congr rfl
          intro q hq
          rw [hM3 p q (Finset.mem_range.1 hp) (Finset.mem_range.1 hq),
            hS p q (Finset.mem_range.1 hp) (Finset.mem_range.1 hq)]
          ring
      _ = ∑ c ∈ range (numel rest), K.get (insAt (ind2sub rest c) n a) * K.get (insAt (ind2sub rest c) n b) := by
          simp only [Ktensor.get_eq_sum, hcomp, ← hR]
          simp_rw [Finset.sum_mul_sum]
          symm
          rw [Finset.sum_comm]
          apply Finset.sum_congr rfl
          intro p _
          rw [Finset.sum_comm]
          apply Finset.sum_congr rfl
          intro q _
          rw [Finset.mul_sum]
          apply Finset.sum_congr rfl
          intro c _
          ring

end Pyttb
