/-
C06: explicit copies of the behaviour of `sptenmat.__setitem__` / `isequal` BEFORE the repairs
50dcb12 (a cell named twice is stored once), 83ce2cc (no explicit zero), 4f6568f (`isequal`
compares canonical forms) — kept only to state what was wrong.  Not part of the model.
-/
import PyttbModel.Ops.SptenmatOps
namespace Pyttb
namespace Sptenmat.Pinned
variable {α : Type}

/-- old loop body: a pair that is not stored was appended every time the key named it. -/
def setCell (subs : List (List Nat)) (st : List α × List (List Nat × α)) (cv : List Nat × α) :
    List α × List (List Nat × α) :=
  if subs.any (hits cv.1) then
    (List.zipWith (fun s x => if hits cv.1 s then cv.2 else x) subs st.1, st.2)
  else (st.1, st.2 ++ [cv])

/-- old writing part: no entry was dropped afterwards. -/
def setApply (M : Sptenmat α) (cvs : List (List Nat × α)) : Sptenmat α :=
  let st := cvs.foldl (setCell M.subs) (M.vals, [])
  if st.2.isEmpty then { M with vals := st.1 }
  else
    let es := sortEntries (M.subs.zip st.1 ++ st.2)
    { M with subs := es.map (·.1), vals := es.map (·.2) }

/-- old `isequal`: the stored components compared literally. -/
def isequal [BEq α] (M N : Sptenmat α) : Bool :=
  M.vals == N.vals && M.subs == N.subs && M.tshape == N.tshape && M.cdims == N.cdims &&
    M.rdims == N.rdims

end Sptenmat.Pinned
end Pyttb
