/-
Lemmas about the stochastic-solver model (C13): the epoch loop keeps the best model.
-/
import PyttbModel.Alg.Optim
import Mathlib.Algebra.Order.Field.Basic
import Mathlib.Order.Basic

set_option linter.unusedSectionVars false
set_option linter.unusedTactic false
set_option linter.unreachableTactic false

namespace Pyttb
namespace Opt

/-! ### list helpers -/

theorem take_set_succ {β : Type} (l : List β) (k : Nat) (x : β) (hk : k < l.length) :
    (l.set k x).take (k + 1) = l.take k ++ [x] := by
  induction l generalizing k with
  | nil => simp at hk
  | cons a l ih =>
    cases k with
    | zero => simp
    | succ k =>
      simp only [List.set_cons_succ, List.take_succ_cons, List.cons_append, List.cons.injEq, true_and]
      exact ih k (by simpa using hk)

theorem take_set_of_lt {β : Type} (l : List β) (k m : Nat) (x : β) (h : m ≤ k) :
    (l.set k x).take m = l.take m := by
  induction l generalizing k m with
  | nil => simp
  | cons a l ih =>
    cases m with
    | zero => simp
    | succ m =>
      cases k with
      | zero => omega
      | succ k =>
        simp only [List.set_cons_succ, List.take_succ_cons, List.cons.injEq, true_and]
        exact ih k m (by omega)

theorem mem_zipWith_exists {β γ δ : Type} (f : β → γ → δ) :
    ∀ (l₁ : List β) (l₂ : List γ) (x : δ), x ∈ List.zipWith f l₁ l₂ → ∃ a b, x = f a b := by
  intro l₁
  induction l₁ with
  | nil => intro l₂ x h; simp at h
  | cons a l ih =>
    intro l₂ x h
    cases l₂ with
    | nil => simp at h
    | cons b l₂ =>
      simp only [List.zipWith_cons_cons, List.mem_cons] at h
      rcases h with rfl | h
      · exact ⟨a, b, rfl⟩
      · exact ih l₂ x h

theorem mapM_except_mem {β γ ε : Type} (f : β → Except ε γ) :
    ∀ (l : List β) (r : List γ), l.mapM f = .ok r → ∀ b ∈ r, ∃ a ∈ l, f a = .ok b := by
  intro l
  induction l with
  | nil => intro r h b hb; simp [pure, Except.pure] at h; subst h; simp at hb
  | cons a l ih =>
    intro r h b hb
    simp only [List.mapM_cons, bind, Except.bind] at h
    cases hfa : f a with
    | error e => simp [hfa] at h
    | ok c =>
      simp only [hfa] at h
      cases hl : l.mapM f with
      | error e => simp [hl] at h
      | ok cs =>
        simp only [hl, pure, Except.pure] at h
        injection h with h
        subst h
        rcases List.mem_cons.mp hb with rfl | hb
        · exact ⟨a, by simp, hfa⟩
        · obtain ⟨a', ha', hfa'⟩ := ih cs hl b hb
          exact ⟨a', by simp [ha'], hfa'⟩

section
variable {α : Type} [Field α] [LinearOrder α] [IsStrictOrderedRing α]

/-! ### projection onto the lower bound -/

theorem projLB_ge (l x : α) : l ≤ projLB (some l) x := by
  unfold projLB
  simp only
  split
  · exact le_refl l
  · rename_i h; exact not_lt.mp h

/-- Every entry is `np.maximum(lower_bound, ·)` of something. -/
def AllProj (lb : Option α) (fm : Factors α) : Prop :=
  ∀ A ∈ fm, ∀ row ∈ A, ∀ x ∈ row, ∃ y, x = projLB lb y

/-- Every factor entry respects the lower bound (`none` = no bound). -/
def LBOk (lb : Option α) (fm : Factors α) : Prop :=
  ∀ l, lb = some l → ∀ A ∈ fm, ∀ row ∈ A, ∀ x ∈ row, l ≤ x

theorem AllProj.lbOk {lb : Option α} {fm : Factors α} (h : AllProj lb fm) : LBOk lb fm := by
  intro l hl A hA row hrow x hx
  obtain ⟨y, rfl⟩ := h A hA row hrow x hx
  subst hl
  exact projLB_ge l y

theorem mat2_allProj {lb : Option α} (g : α → α → α) {A B C : Mat α}
    (h : mat2 (fun a b => projLB lb (g a b)) A B = .ok C) :
    ∀ row ∈ C, ∀ x ∈ row, ∃ y, x = projLB lb y := by
  unfold mat2 at h
  split at h
  · injection h with h
    subst h
    intro row hrow x hx
    obtain ⟨ra, rb, rfl⟩ := mem_zipWith_exists _ _ _ _ hrow
    obtain ⟨a, b, rfl⟩ := mem_zipWith_exists _ _ _ _ hx
    exact ⟨g a b, rfl⟩
  · cases h

theorem mat3_allProj {lb : Option α} (g : α → α → α → α) {A B C D : Mat α}
    (h : mat3 (fun a b c => projLB lb (g a b c)) A B C = .ok D) :
    ∀ row ∈ D, ∀ x ∈ row, ∃ y, x = projLB lb y := by
  unfold mat3 at h
  split at h
  · injection h with h
    subst h
    intro row hrow x hx
    obtain ⟨ra, rb, rfl⟩ := mem_zipWith_exists _ _ _ _ hrow
    obtain ⟨a, b, rfl⟩ := mem_zipWith_exists _ _ _ _ hx
    exact ⟨g a b.1 b.2, rfl⟩
  · cases h

/-! ### one step -/

/-- `update_step`: every entry of the new factor matrices is a projection, the failure
counter and the class of the object are untouched. -/
theorem updateStep_spec {sqrt : α → α} {h : Hyper α} {st : OptState α} {model : Ktensor α}
    {grad : Factors α} {lb : Option α} {fm : Factors α} {step : α} {st' : OptState α}
    (hs : updateStep sqrt h st model grad lb = .ok (fm, step, st')) :
    AllProj lb fm ∧ st'.nfails = st.nfails ∧ st'.kind = st.kind := by
  cases st with
  | sgd n =>
    simp only [updateStep, sgdStep, bind, Except.bind] at hs
    split at hs
    · cases hs
    rename_i fm' hfm
    injection hs with hs
    simp only [Prod.mk.injEq] at hs
    obtain ⟨rfl, -, rfl⟩ := hs
    refine ⟨?_, rfl, rfl⟩
    intro A hA
    obtain ⟨p, _, hp⟩ := mapM_except_mem _ _ _ hfm A hA
    exact mat2_allProj (fun f g => f - npow h.decay n * h.rate * g) hp
  | adam n t m mp v vp =>
    simp only [updateStep, adamStep, bind, Except.bind] at hs
    split at hs
    · cases hs
    split at hs
    · cases hs
    split at hs
    · cases hs
    rename_i fm' hfm
    injection hs with hs
    simp only [Prod.mk.injEq] at hs
    obtain ⟨rfl, -, rfl⟩ := hs
    refine ⟨?_, rfl, rfl⟩
    intro A hA
    obtain ⟨p, _, hp⟩ := mapM_except_mem _ _ _ hfm A hA
    exact mat3_allProj (fun f mh vh => f - npow h.decay n * h.rate * mh / (sqrt vh + h.eps)) hp
  | adagrad n g =>
    simp only [updateStep, adagradStep, bind, Except.bind] at hs
    split at hs
    · cases hs
    rename_i fm' hfm
    injection hs with hs
    simp only [Prod.mk.injEq] at hs
    obtain ⟨rfl, -, rfl⟩ := hs
    refine ⟨?_, rfl, rfl⟩
    intro A hA
    obtain ⟨p, _, hp⟩ := mapM_except_mem _ _ _ hfm A hA
    exact mat2_allProj _ hp

/-- The inner loop. -/
theorem innerIters_spec {sqrt : α → α} {h : Hyper α} {lb : Option α}
    {gEst : Nat → Ktensor α → Factors α} :
    ∀ (k idx : Nat) (m : Ktensor α) (st : OptState α) (sp : Option α) (m' : Ktensor α)
      (st' : OptState α) (sp' : Option α),
      innerIters sqrt h lb gEst k idx (m, st, sp) = .ok (m', st', sp') →
      st'.nfails = st.nfails ∧ st'.kind = st.kind ∧ m'.weights = m.weights ∧
      (LBOk lb m.factors → LBOk lb m'.factors) ∧ (0 < k → LBOk lb m'.factors ∧ sp'.isSome) ∧
      (sp.isSome → sp'.isSome) := by
  intro k
  induction k with
  | zero =>
    intro idx m st sp m' st' sp' hh
    simp only [innerIters] at hh
    injection hh with hh
    simp only [Prod.mk.injEq] at hh
    obtain ⟨rfl, rfl, rfl⟩ := hh
    exact ⟨rfl, rfl, rfl, id, fun h0 => absurd h0 (lt_irrefl 0), id⟩
  | succ k ih =>
    intro idx m st sp m' st' sp' hh
    simp only [innerIters, bind, Except.bind] at hh
    split at hh
    · cases hh
    rename_i r hr
    obtain ⟨fm, step, st1⟩ := r
    simp only at hh
    obtain ⟨hproj, hn, hk⟩ := updateStep_spec hr
    obtain ⟨i1, i2, i3, i4, i5, i6⟩ := ih _ _ _ _ _ _ _ hh
    have hlb1 : LBOk lb ({ m with factors := fm } : Ktensor α).factors := hproj.lbOk
    refine ⟨i1.trans hn, i2.trans hk, i3, fun _ => i4 hlb1, fun _ => ⟨i4 hlb1, i6 rfl⟩, fun _ => i6 rfl⟩

/-! ### one epoch -/

/-- Running count of failed epochs next to the best estimate so far. -/
def failStep (s : α × Nat) (f : α) : α × Nat := if s.1 < f then (s.1, s.2 + 1) else (f, s.2)

theorem nfails_setFailedEpoch (h : Hyper α) (st : OptState α) :
    (setFailedEpoch h st).nfails = st.nfails ∧ (setFailedEpoch h st).kind = st.kind := by
  cases st <;> exact ⟨rfl, rfl⟩

theorem nfails_setNfails (k : Nat) (st : OptState α) :
    (st.setNfails k).nfails = k ∧ (st.setNfails k).kind = st.kind := by
  cases st <;> exact ⟨rfl, rfl⟩

/-- What one pass of the epoch body does to the locals. -/
theorem epochBody_spec {sqrt : α → α} {h : Hyper α} {lb : Option α} {fEst : Nat → Ktensor α → α}
    {gEst : Nat → Ktensor α → Factors α} {n : Nat} {L L' : Loop α}
    (hb : epochBody sqrt h lb fEst gEst n L = .ok L') :
    ∃ (mdl : Ktensor α) (f : α),
      f = fEst (n + 1) mdl ∧
      L'.seen = L.seen ++ [(mdl, f)] ∧
      (LBOk lb L.model.factors → LBOk lb mdl.factors) ∧
      L'.fest = L.fest.set (n + 1) f ∧ L'.steps.length = L.steps.length ∧
      L'.nEpoch = n ∧ L'.nRecorded = n + 1 ∧ L'.model = L'.best ∧ L'.opt.kind = L.opt.kind ∧
      (L'.fPrev, L'.opt.nfails) = failStep (L.fPrev, L.opt.nfails) f ∧
      ((L.fPrev < f ∧ L'.best = L.best ∧ L'.fPrev = L.fPrev) ∨
       (¬ L.fPrev < f ∧ L'.best = mdl ∧ L'.fPrev = f)) ∧
      (L'.stop = true → h.maxFails < L'.opt.nfails ∨ ∃ t, h.fEstTol = some t ∧ f < t) ∧
      (L'.stop = false → L'.opt.nfails ≤ h.maxFails) := by
  simp only [epochBody, bind, Except.bind] at hb
  split at hb
  · cases hb
  rename_i r hr
  obtain ⟨mdl, st, sp⟩ := r
  simp only at hb
  obtain ⟨i1, i2, _, i4, _, _⟩ := innerIters_spec _ _ _ _ _ _ _ _ hr
  cases sp with
  | none => simp at hb
  | some stp =>
    simp only at hb
    have hstop : ∀ (nf : Nat) (b : Bool),
        b = (decide (h.maxFails < nf) || match h.fEstTol with
          | none => false
          | some t => decide (fEst (n + 1) mdl < t)) →
        (b = true → h.maxFails < nf ∨ ∃ t, h.fEstTol = some t ∧ fEst (n + 1) mdl < t) ∧
        (b = false → nf ≤ h.maxFails) := by
      intro nf b hbdef
      subst hbdef
      constructor
      · intro hb
        rw [Bool.or_eq_true] at hb
        rcases hb with hb | hb
        · exact Or.inl (by simpa using hb)
        · right
          cases htol : h.fEstTol with
          | none => simp [htol] at hb
          | some t => exact ⟨t, rfl, by simpa [htol] using hb⟩
      · intro hb
        rw [Bool.or_eq_false_iff] at hb
        have := hb.1
        simp only [decide_eq_false_iff_not, not_lt] at this
        exact this
    by_cases hf : L.fPrev < fEst (n + 1) mdl
    · simp only [hf, decide_true, if_true] at hb
      injection hb with hb
      subst hb
      refine ⟨mdl, _, rfl, rfl, i4, rfl, by simp, rfl, rfl, rfl, ?_, ?_, Or.inl ⟨hf, rfl, rfl⟩, ?_⟩
      · simp only [(nfails_setFailedEpoch _ _).2, (nfails_setNfails _ _).2, i2]
      · simp only [failStep, hf, if_true, (nfails_setFailedEpoch _ _).1, (nfails_setNfails _ _).1, i1]
      · simp only [(nfails_setFailedEpoch _ _).1]
        exact hstop _ _ rfl
    · simp only [hf, decide_false, if_false, Bool.false_eq_true] at hb
      injection hb with hb
      subst hb
      refine ⟨mdl, _, rfl, rfl, i4, rfl, by simp, rfl, rfl, rfl, ?_, ?_, Or.inr ⟨hf, rfl, rfl⟩, ?_⟩
      · simp only [(nfails_setNfails _ _).2, i2]
      · simp only [failStep, hf, if_false, (nfails_setNfails _ _).1, i1, Nat.add_zero]
      · exact hstop _ _ rfl

/-! ### the epoch loop -/

/-- Invariant of the epoch loop, `n` epochs completed. -/
structure Inv (h : Hyper α) (lb : Option α) (fEst : Nat → Ktensor α → α) (init : Ktensor α) (f0 : α)
    (kind : Kind) (n : Nat) (L : Loop α) : Prop where
  model_best : L.model = L.best
  mem : (L.best, L.fPrev) ∈ L.seen
  min : ∀ p ∈ L.seen, L.fPrev ≤ p.2
  fails : ∃ rest, L.seen = (init, f0) :: rest ∧
    (L.fPrev, L.opt.nfails) = (rest.map (·.2)).foldl failStep (f0, 0)
  trace : L.fest.take (L.nRecorded + 1) = L.seen.map (·.2)
  flen : L.fest.length = h.maxIters + 1
  slen : L.steps.length = h.maxIters + 1
  nrec : L.nRecorded = n
  nle : n ≤ h.maxIters
  nepoch : L.nEpoch = n - 1
  lbok : LBOk lb init.factors → ∀ p ∈ L.seen, LBOk lb p.1.factors
  kind : L.opt.kind = kind
  est : ∀ p ∈ L.seen, ∃ k, p.2 = fEst k p.1

theorem Inv.seen_length {h : Hyper α} {lb : Option α} {fEst : Nat → Ktensor α → α} {init : Ktensor α} {f0 : α} {kind : Kind}
    {n : Nat} {L : Loop α} (I : Inv h lb fEst init f0 kind n L) : L.seen.length = n + 1 := by
  have := congrArg List.length I.trace
  simp only [List.length_take, List.length_map, I.flen, I.nrec] at this
  have := I.nle
  omega

theorem inv_init (h : Hyper α) (lb : Option α) (st : OptState α) (init : Ktensor α)
    (fEst : Nat → Ktensor α → α) (hst : st.nfails = 0) :
    Inv h lb fEst init (fEst 0 init) st.kind 0 (initLoop h st init fEst) := by
  refine ⟨rfl, by simp [initLoop], ?_, ⟨[], rfl, ?_⟩, ?_, by simp [initLoop], by simp [initLoop],
    rfl, Nat.zero_le _, rfl, ?_, rfl, ?_⟩
  · intro p hp
    simp only [initLoop, List.mem_singleton] at hp
    subst hp
    exact le_refl _
  · simp [initLoop, hst]
  · simp only [initLoop, Nat.zero_add, List.map_cons, List.map_nil]
    rw [take_set_succ _ 0 _ (by simp)]
    simp
  · intro hl p hp
    simp only [initLoop, List.mem_singleton] at hp
    subst hp
    exact hl
  · intro p hp
    simp only [initLoop, List.mem_singleton] at hp
    subst hp
    exact ⟨0, rfl⟩

theorem inv_step {sqrt : α → α} {h : Hyper α} {lb : Option α} {fEst : Nat → Ktensor α → α}
    {gEst : Nat → Ktensor α → Factors α} {init : Ktensor α} {f0 : α} {kind : Kind} {n : Nat}
    {L L' : Loop α} (I : Inv h lb fEst init f0 kind n L) (hn : n < h.maxIters)
    (hb : epochBody sqrt h lb fEst gEst n L = .ok L') : Inv h lb fEst init f0 kind (n + 1) L' := by
  obtain ⟨mdl, f, hfdef, hseen, hlb, hfest, hsteps, hne, hnr, hmb, hkind, hfail, hcase, _, _⟩ :=
    epochBody_spec hb
  obtain ⟨rest, hrest, hfold⟩ := I.fails
  have hslen := I.seen_length
  refine ⟨hmb, ?_, ?_, ⟨rest ++ [(mdl, f)], by rw [hseen, hrest]; rfl, ?_⟩, ?_, ?_, ?_, hnr, hn,
    by rw [hne]; rfl, ?_, hkind.trans I.kind, ?_⟩
  · rcases hcase with ⟨_, hb1, hb2⟩ | ⟨_, hb1, hb2⟩
    · rw [hb1, hb2, hseen]; exact List.mem_append_left _ I.mem
    · rw [hb1, hb2, hseen]; simp
  · intro p hp
    rw [hseen] at hp
    rcases List.mem_append.mp hp with hp | hp
    · rcases hcase with ⟨_, _, hb2⟩ | ⟨hnf, _, hb2⟩
      · rw [hb2]; exact I.min p hp
      · rw [hb2]; exact le_trans (not_lt.mp hnf) (I.min p hp)
    · simp only [List.mem_singleton] at hp
      subst hp
      rcases hcase with ⟨hf, _, hb2⟩ | ⟨_, _, hb2⟩
      · rw [hb2]; exact hf.le
      · rw [hb2]
  · rw [List.map_append, List.foldl_append, ← hfold, hfail]
    rfl
  · rw [hnr, hfest, hseen, List.map_append, ← I.trace, I.nrec]
    rw [take_set_succ _ _ _ (by rw [I.flen]; omega)]
    rfl
  · rw [hfest, List.length_set, I.flen]
  · rw [hsteps, I.slen]
  · intro hl p hp
    rw [hseen] at hp
    rcases List.mem_append.mp hp with hp | hp
    · exact I.lbok hl p hp
    · simp only [List.mem_singleton] at hp
      subst hp
      apply hlb
      rw [I.model_best]
      exact I.lbok hl _ I.mem
  · intro p hp
    rw [hseen] at hp
    rcases List.mem_append.mp hp with hp | hp
    · exact I.est p hp
    · simp only [List.mem_singleton] at hp
      subst hp
      exact ⟨n + 1, hfdef⟩

/-- The loop: what holds when it ends. -/
theorem epochs_spec {sqrt : α → α} {h : Hyper α} {lb : Option α} {fEst : Nat → Ktensor α → α}
    {gEst : Nat → Ktensor α → Factors α} {init : Ktensor α} {f0 : α} {kind : Kind} :
    ∀ (k n : Nat) (L L' : Loop α), Inv h lb fEst init f0 kind n L → k + n = h.maxIters →
      L.opt.nfails ≤ h.maxFails →
      epochs sqrt h lb fEst gEst k n L = .ok L' →
      ∃ n', Inv h lb fEst init f0 kind n' L' ∧ n ≤ n' ∧
        L'.opt.nfails ≤ h.maxFails + 1 ∧
        (n' = h.maxIters ∨ h.maxFails < L'.opt.nfails ∨
          ∃ t, h.fEstTol = some t ∧ ∃ p, L'.seen.getLast? = some p ∧ p.2 < t) := by
  intro k
  induction k with
  | zero =>
    intro n L L' I hk hnf he
    simp only [epochs] at he
    injection he with he
    subst he
    exact ⟨n, I, le_refl n, by omega, Or.inl (by omega)⟩
  | succ k ih =>
    intro n L L' I hk hnf he
    simp only [epochs, bind, Except.bind] at he
    split at he
    · cases he
    rename_i L1 hb
    have I1 := inv_step I (by omega) hb
    obtain ⟨mdl, f, _, hseen, _, _, _, _, _, _, _, hfail, _, hstop1, hstop0⟩ := epochBody_spec hb
    have hnf1 : L1.opt.nfails ≤ L.opt.nfails + 1 := by
      have := congrArg Prod.snd hfail
      simp only [failStep] at this
      split at this <;> simp_all <;> omega
    split at he
    · rename_i hs
      injection he with he
      subst he
      refine ⟨n + 1, I1, by omega, by omega, ?_⟩
      rcases hstop1 hs with h1 | ⟨t, ht, hft⟩
      · exact Or.inr (Or.inl h1)
      · exact Or.inr (Or.inr ⟨t, ht, (mdl, f), by rw [hseen]; simp, hft⟩)
    · rename_i hs
      have hs' : L1.stop = false := by simpa using hs
      obtain ⟨n', I', hle, hr⟩ := ih (n + 1) L1 L' I1 (by omega) (hstop0 hs') he
      exact ⟨n', I', by omega, hr⟩

end
end Opt
end Pyttb
