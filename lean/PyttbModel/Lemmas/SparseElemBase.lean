/-
C03/C06 base lemmas: the NumPy idioms of Ops/SparseElem (`a[mask]`, `subs[idx]`, row-set helpers
on natural-number rows, `allsubs()`), and the denotation of sparse tensors whose entries are
tabulated from a duplicate-free list of subscripts.
-/
import PyttbModel.Ops.SparseElem
import PyttbModel.Lemmas.Rows
import PyttbModel.Lemmas.ConvertSptenmat
import Mathlib.Data.List.Nodup
import Mathlib.Data.List.Forall2
namespace Pyttb
open SpElem
variable {α : Type}

/-! ### integer rows of natural subscripts -/

theorem toRow_inj {a b : List Nat} : toRow a = toRow b ↔ a = b := by
  unfold toRow
  constructor
  · intro h
    exact List.map_injective_iff.2 (fun x y hxy => Int.ofNat.inj hxy) h
  · intro h; rw [h]

theorem toRows_getD (A : List (List Nat)) (k : Nat) : (toRows A).getD k [] = toRow (A.getD k []) := by
  unfold toRows
  rw [List.getD_eq_getElem?_getD, List.getD_eq_getElem?_getD, List.getElem?_map]
  cases A[k]? <;> simp [toRow]

theorem mem_toRows {A : List (List Nat)} {r : List Nat} : toRow r ∈ toRows A ↔ r ∈ A := by
  unfold toRows
  rw [List.mem_map]
  constructor
  · rintro ⟨a, ha, h⟩
    rw [toRow_inj.1 h] at ha; exact ha
  · intro h; exact ⟨r, h, rfl⟩

theorem contains_toRows (A : List (List Nat)) (r : List Nat) :
    (toRows A).contains (toRow r) = A.contains r := by
  rw [Bool.eq_iff_iff]
  simp only [List.contains_iff_mem, mem_toRows]

theorem toRows_filter (A : List (List Nat)) (p : List Nat → Bool) (q : Row → Bool)
    (h : ∀ r ∈ A, q (toRow r) = p r) : (toRows A).filter q = toRows (A.filter p) := by
  unfold toRows
  rw [List.filter_map]
  congr 1
  apply List.filter_congr
  intro r hr
  exact h r hr

theorem toRows_inj {A B : List (List Nat)} (h : toRows A = toRows B) : A = B := by
  unfold toRows at h
  exact List.map_injective_iff.2 (fun a b hab => toRow_inj.1 hab) h

theorem toRows_nodup {A : List (List Nat)} (h : A.Nodup) : (toRows A).Nodup :=
  List.Nodup.map (fun a b hab => toRow_inj.1 hab) h

theorem firstOccIdx_of_nodup_se (A : List Row) (h : A.Nodup) : firstOccIdx A = List.range A.length := by
  unfold firstOccIdx
  rw [List.filter_eq_self]
  intro k hk
  rw [List.mem_range] at hk
  simp only [Bool.not_eq_true', List.contains_eq_mem, decide_eq_false_iff_not]
  intro hmem
  rw [mem_take_iff_getD A k hk] at hmem
  obtain ⟨j, hj, he⟩ := hmem
  rw [getD_of_lt A j (by omega), getD_of_lt A k hk] at he
  have := (List.Nodup.getElem_inj_iff h).1 he
  omega

theorem dedupRows_of_nodup (A : List Row) (h : A.Nodup) : dedupRows A = A := by
  unfold dedupRows
  rw [firstOccIdx_of_nodup_se A h]
  apply List.ext_getElem
  · simp
  · intro n h1 h2
    simp only [List.length_map, List.length_range] at h1
    simp [List.getElem?_eq_getElem h1]

/-- `l[k]` over the positions whose element satisfies `p` is `l.filter p`. -/
theorem map_filter_range_getD {β : Type} (l : List β) (d : β) (p : β → Bool) :
    ((List.range l.length).filter (fun k => p (l.getD k d))).map (fun k => l.getD k d) = l.filter p := by
  have hl : (List.range l.length).map (fun k => l.getD k d) = l := by
    apply List.ext_getElem
    · simp
    · intro n h1 h2
      simp [List.getElem?_eq_getElem h2]
  conv => rhs; rw [← hl]
  rw [List.filter_map]
  rfl

/-- `A[tt_setdiff_rows(A, B)]` for duplicate-free `A`: the rows of `A` not in `B`, in order. -/
theorem diffRows_eq (A B : List (List Nat)) (hA : A.Nodup) :
    diffRows A B = A.filter (fun r => !B.contains r) := by
  unfold diffRows rowsAt
  rw [setdiff_spec, firstOccIdx_of_nodup_se _ (toRows_nodup hA)]
  have hl : (toRows A).length = A.length := by simp [toRows]
  rw [hl]
  have : (List.range A.length).filter (fun k => !(toRows B).contains ((toRows A).getD k []))
      = (List.range A.length).filter (fun k => (fun r => !B.contains r) (A.getD k [])) := by
    apply List.filter_congr
    intro k _
    rw [toRows_getD, contains_toRows]
  rw [this, map_filter_range_getD A [] (fun r => !B.contains r)]

theorem toRows_rowsAt (A : List (List Nat)) (idx : List Nat) :
    toRows (rowsAt A idx) = idx.map (fun k => (toRows A).getD k []) := by
  unfold rowsAt
  simp only [toRows, List.map_map]
  apply List.map_congr_left
  intro k _
  simp only [Function.comp, List.getD_eq_getElem?_getD, List.getElem?_map]
  cases A[k]? <;> simp [toRow]

/-- `A[tt_intersect_rows(A, B)]` for duplicate-free `B`: the rows of `B` that occur in `A`, in
the order of `B`. -/
theorem interRows_eq (A B : List (List Nat)) (hB : B.Nodup) :
    interRows A B = B.filter (fun r => A.contains r) := by
  apply toRows_inj
  unfold interRows
  rw [toRows_rowsAt, intersect_map, dedupRows_of_nodup _ (toRows_nodup hB)]
  exact toRows_filter B _ _ (fun r _ => contains_toRows A r)

/-! ### `a[mask]` -/

theorem maskSel_map_map {β γ : Type} (l : List γ) (p : γ → Bool) (g : γ → β) :
    maskSel (l.map p) (l.map g) = (l.filter p).map g := by
  unfold maskSel
  induction l with
  | nil => rfl
  | cons a l ih =>
    simp only [List.map_cons, List.zip_cons_cons, List.filter_cons]
    by_cases h : p a <;> simp [h, ih]

theorem maskSel_map {β : Type} (l : List β) (p : β → Bool) : maskSel (l.map p) l = l.filter p := by
  have := maskSel_map_map l p id
  simpa using this

theorem zipWith_map_map {β γ δ ε : Type} (f : γ → δ → ε) (g : β → γ) (h : β → δ) (l : List β) :
    List.zipWith f (l.map g) (l.map h) = l.map (fun x => f (g x) (h x)) := by
  induction l with
  | nil => rfl
  | cons a l ih => simp [ih]

theorem zipWith_map_right' {β γ δ : Type} (f : β → γ → δ) (h : β → γ) (l : List β) :
    List.zipWith f l (l.map h) = l.map (fun x => f x (h x)) := by
  have := zipWith_map_map f id h l
  simpa using this

/-! ### `allsubs()` -/

theorem inBounds_iff_forall₂ (s i : List Nat) : InBounds s i ↔ List.Forall₂ (fun a b => b < a) s i := by
  induction s generalizing i with
  | nil => cases i <;> simp [InBounds]
  | cons a s ih =>
    cases i with
    | nil => simp [InBounds]
    | cons b i => simp [InBounds, ih]

theorem inBounds_reverse (s i : List Nat) : InBounds s.reverse i.reverse ↔ InBounds s i := by
  rw [inBounds_iff_forall₂, inBounds_iff_forall₂, List.forall₂_reverse_iff]

theorem allSubs_nodup (s : List Nat) : (allSubs s).Nodup := by
  have h := allSubs_map_sub2ind s
  have : ((allSubs s).map (sub2ind s)).Nodup := by rw [h]; exact List.nodup_range
  exact List.Nodup.of_map _ this

theorem mem_allSubsC {s i : List Nat} : i ∈ allSubsC s ↔ InBounds s i := by
  unfold allSubsC
  rw [List.mem_map]
  constructor
  · rintro ⟨j, hj, rfl⟩
    rw [mem_allSubs] at hj
    rw [← inBounds_reverse]
    simpa using hj
  · intro h
    refine ⟨i.reverse, ?_, by simp⟩
    rw [mem_allSubs, inBounds_reverse]
    exact h

theorem allSubsC_nodup (s : List Nat) : (allSubsC s).Nodup := by
  unfold allSubsC
  exact List.Nodup.map (fun a b h => List.reverse_injective h) (allSubs_nodup _)

/-! ### tabulated sparse tensors -/

section tab
variable [AddMonoid α] [DecidableEq α]

/-- A tensor that stores `f u` under each subscript `u` of a duplicate-free list denotes
`f` on the list and `0` elsewhere. -/
theorem get_tab (s : List Nat) (U : List (List Nat)) (f : List Nat → α) (hU : U.Nodup) (i : List Nat) :
    (⟨s, U, U.map f⟩ : Sparse α).get i = if i ∈ U then f i else 0 := by
  rw [Sparse.get_eq_kvSum]
  have : (⟨s, U, U.map f⟩ : Sparse α).entries = U.map (fun u => (u, f u)) := by
    unfold Sparse.entries
    simp only
    conv => lhs; arg 1; rw [← List.map_id U]
    rw [zip_map_map]
    simp
  rw [this, kvSum_map U f i hU]

theorem wf_tab (s : List Nat) (U : List (List Nat)) (f : List Nat → α) (hU : U.Nodup)
    (hin : ∀ u ∈ U, InBounds s u) (hnz : ∀ u ∈ U, f u ≠ 0) : (⟨s, U, U.map f⟩ : Sparse α).WF := by
  refine ⟨by simp, hin, hU, ?_⟩
  intro v hv
  simp only [List.mem_map] at hv
  obtain ⟨u, hu, rfl⟩ := hv
  simpa using hnz u hu

theorem Sparse.vals_eq_map_get (S : Sparse α) (hS : S.WF) : S.vals = S.subs.map S.get := by
  have h := S.entries_eq_map_get hS
  have h2 : S.entries.map (·.2) = S.vals := by
    unfold Sparse.entries
    exact List.map_snd_zip (Nat.le_of_eq hS.len.symm)
  rw [← h2, h, List.map_map]
  rfl

theorem Sparse.eq_tab (S : Sparse α) (hS : S.WF) : S = ⟨S.shape, S.subs, S.subs.map S.get⟩ := by
  cases S with
  | mk sh su va =>
    have := Sparse.vals_eq_map_get ⟨sh, su, va⟩ hS
    simp only at this
    simp only [Sparse.mk.injEq, true_and]
    exact this

theorem Sparse.get_ne_zero_iff (S : Sparse α) (hS : S.WF) (i : List Nat) : S.get i ≠ 0 ↔ i ∈ S.subs := by
  constructor
  · intro h
    by_contra hn
    exact h (S.get_of_not_mem i hn)
  · exact S.get_ne_zero_of_mem hS i

theorem Sparse.mem_subs_iff (S : Sparse α) (hS : S.WF) (i : List Nat) :
    S.subs.contains i = !(S.get i == 0) := by
  rw [Bool.eq_iff_iff]
  simp only [List.contains_iff_mem, Bool.not_eq_true', beq_eq_false_iff_ne]
  exact (S.get_ne_zero_iff hS i).symm

end tab

/-! ### look-ups -/

section lookups
variable [AddMonoid α] [DecidableEq α]

theorem lookup_eq_get (S : Sparse α) (hS : S.WF) (r : List Nat) :
    (match lastIdxOf (toRows S.subs) (toRow r) with
      | some k => S.vals.getD k 0
      | none => 0) = S.get r := by
  cases h : lastIdxOf (toRows S.subs) (toRow r) with
  | none =>
    have : r ∉ S.subs := fun hm => (lastIdxOf_eq_none.1 h) (mem_toRows.2 hm)
    simp [S.get_of_not_mem r this]
  | some k =>
    obtain ⟨hk, hget, _⟩ := lastIdxOf_eq_some h
    have hk' : k < S.subs.length := by simpa [toRows] using hk
    have hr : S.subs[k] = r := by
      have : (toRows S.subs)[k]? = some (toRow (S.subs[k])) := by
        simp [toRows, List.getElem?_map, List.getElem?_eq_getElem hk']
      rw [this] at hget
      exact toRow_inj.1 (Option.some.inj hget)
    have hv := Sparse.vals_eq_map_get S hS
    have hkv : k < S.vals.length := by rw [← hS.len]; exact hk'
    simp only
    rw [List.getD_eq_getElem?_getD, List.getElem?_eq_getElem hkv]
    simp only [Option.getD_some]
    have : S.vals[k] = S.get (S.subs[k]) := by
      have h1 : S.vals[k]? = (S.subs.map S.get)[k]? := by rw [← hv]
      rw [List.getElem?_eq_getElem hkv, List.getElem?_map, List.getElem?_eq_getElem hk'] at h1
      simpa using h1
    rw [this, hr]

theorem ismember_map (q src : List Row) :
    ismemberRows q src = q.map (fun r => match lastIdxOf src r with
      | some k => (true, (k : Int))
      | none => (false, -1)) := rfl

theorem extractD_eq (S : Sparse α) (hS : S.WF) (q : List (List Nat)) :
    extractD S q = q.map S.get := by
  unfold extractD
  rw [ismember_map]
  unfold toRows
  rw [List.map_map, List.map_map]
  apply List.map_congr_left
  intro r _
  simp only [Function.comp]
  have h := lookup_eq_get S hS r
  unfold toRows at h
  cases hl : lastIdxOf (List.map toRow S.subs) (toRow r) with
  | none => rw [hl] at h; simpa using h
  | some k => rw [hl] at h; simpa using h

theorem extract_eq (S : Sparse α) (hS : S.WF) (q : List (List Nat)) (hq : ∀ r ∈ q, InBounds S.shape r) :
    extract S q = .ok (q.map S.get) := by
  have h0 : q.all (inBounds S.shape) = true := by
    rw [List.all_eq_true]
    intro r hr
    exact (inBounds_iff _ _).2 (hq r hr)
  have := extractD_eq S hS q
  unfold extractD at this
  unfold extract
  simp only [h0, Bool.not_true, Bool.false_eq_true, ↓reduceIte, this]

theorem zeroSubs_eq (S : Sparse α) :
    zeroSubs S = (allSubsC S.shape).filter (fun i => !S.subs.contains i) :=
  diffRows_eq _ _ (allSubsC_nodup _)

theorem mem_zeroSubs (S : Sparse α) (hS : S.WF) (i : List Nat) :
    i ∈ zeroSubs S ↔ InBounds S.shape i ∧ S.get i = 0 := by
  rw [zeroSubs_eq, List.mem_filter, mem_allSubsC, S.mem_subs_iff hS]
  simp

theorem zeroSubs_nodup (S : Sparse α) : (zeroSubs S).Nodup := by
  rw [zeroSubs_eq]
  exact List.Nodup.filter _ (allSubsC_nodup _)

end lookups

end Pyttb
