/-
Lemmas for C11 (CP-APR), part 12: MU never decreases the likelihood of the model tensor while
its safeguards (epsDivZero clamp, inadmissible-zero bump, zero-norm guard) are inactive.
-/
import PyttbModel.Lemmas.CpAprMonoDense
set_option linter.unusedSectionVars false
set_option linter.unusedVariables false
namespace Pyttb.CpApr
open Pyttb.CpApr.Gen

variable {α : Type} [Field α] [LinearOrder α] [IsStrictOrderedRing α]

/-! ### safeguards, as decidable checks -/

/-- `np.maximum(v, eps)` changes nothing for this row: `eps ≤ v_j` (and `0 < v_j`) for every data
column `j` the row sees. -/
def clampFreeRow (eps : α) (Pi : Mat α) (m : List α) (R : Nat) : Bool :=
  (List.range Pi.length).all fun j => decide (eps ≤ rowV Pi m R j) && decide (0 < rowV Pi m R j)

/-- The `epsDivZero` clamp is inactive for every row of factor `A` of mode `n`. -/
def clampFree (eps : α) (md : ModeData α) (K : Ktensor α) (n R : Nat) (A : Mat α) : Bool :=
  (List.range A.length).all fun i => clampFreeRow eps (rowData md K n i).2 (A.getD i []) R

theorem clampFreeRow_spec {eps : α} {Pi : Mat α} {m : List α} {R : Nat}
    (h : clampFreeRow eps Pi m R = true) :
    ∀ j < Pi.length, eps ≤ rowV Pi m R j ∧ 0 < rowV Pi m R j := by
  intro j hj
  unfold clampFreeRow at h
  rw [List.all_eq_true] at h
  have := h j (List.mem_range.mpr hj)
  simpa using this

theorem clampFree_spec {eps : α} {md : ModeData α} {K : Ktensor α} {n R : Nat} {A : Mat α}
    (h : clampFree eps md K n R A = true) {i : Nat} (hi : i < A.length) :
    clampFreeRow eps (rowData md K n i).2 (A.getD i []) R = true := by
  unfold clampFree at h
  rw [List.all_eq_true] at h
  exact h i (List.mem_range.mpr hi)

/-! ### a row of `calculate_phi` is `phi_row` of that row -/

variable (log : α → α)

theorem getD_map_getD (subs : List (List Nat)) (n k : Nat) :
    (subs.map fun sub => sub.getD n 0).getD k 0 = (subs.getD k []).getD n 0 := by
  rw [List.getD_eq_getElem?_getD, List.getD_eq_getElem?_getD (l := subs), List.getElem?_map]
  cases subs[k]? <;> rfl

/-- Entry of the gathered Pi of a row is the entry of the full sparse Pi at the stored position. -/
theorem piRows_rowIdx_get (K : Ktensor α) (S : Sparse α) (n i : Nat) {j r : Nat}
    (hj : j < (rowIdx S n i).length) (hr : r < K.weights.length) :
    (piRows K n ((rowIdx S n i).map fun k => S.subs.getD k [])).get j r =
      (piRows K n S.subs).get ((rowIdx S n i).getD j 0) r := by
  obtain ⟨hk, _⟩ := mem_rowIdx (getD_mem_of_lt hj)
  rw [piRows_get K n S.subs hk hr, piRows_get K n _ (by simpa using hj) hr]
  congr 2
  simp [hj, List.getD_eq_getElem?_getD]

theorem phiOf_row (eps : α) (md : ModeData α) (K : Ktensor α) (n : Nat) (A : Mat α) (I R : Nat)
    (hR : R = K.weights.length) {i r : Nat} (hi : i < I) (hr : r < R) :
    (phiOf (NumOps.ofField log) eps md K n A I R).get i r =
      vget (rowPhi (NumOps.ofField log) eps (rowData md K n i).1 (rowData md K n i).2 (A.getD i []) R) r := by
  unfold rowPhi
  rw [vget_map_range hr]
  cases md with
  | dense Xn Pi =>
    unfold phiOf phiDense rowData
    simp only
    rw [tab_get _ hi hr]
    apply sumOver_congr
    intro j hj
    rw [tab_get (fun i j => Xn.get [i, j] /
      (NumOps.ofField log).maximum (sumOver R fun r => A.get i r * Pi.get j r) eps) hi hj,
      vget_map_range hj (fun j => Xn.get [i, j])]
    rfl
  | sparse S =>
    unfold phiOf phiSparse rowData
    simp only
    rw [tab_get _ hi hr]
    have hfil : (List.range S.subs.length).filter
        (fun k => (S.subs.map fun sub => sub.getD n 0).getD k 0 == i) = rowIdx S n i := by
      unfold rowIdx
      apply List.filter_congr
      intro k _
      rw [getD_map_getD]
    rw [hfil]
    show _ = sumOver (piRows K n ((rowIdx S n i).map fun k => S.subs.getD k [])).length _
    rw [sum_map_eq_sumOver, piRows_length, List.length_map]
    apply sumOver_congr
    intro j hj
    obtain ⟨hk, hkey⟩ := mem_rowIdx (getD_mem_of_lt hj)
    rw [vget_map_range hk, getD_map_getD, hkey]
    show _ = vget ((rowIdx S n i).map (vget S.vals)) j /
      (NumOps.ofField log).maximum (rowV (piRows K n ((rowIdx S n i).map fun k => S.subs.getD k []))
        (A.getD i []) R j) eps * (piRows K n ((rowIdx S n i).map fun k => S.subs.getD k [])).get j r
    rw [vget_map_nat _ _ hj, piRows_rowIdx_get K S n i hj (hR ▸ hr)]
    congr 3
    unfold rowV
    apply sumOver_congr
    intro r' hr'
    rw [piRows_rowIdx_get K S n i hj (hR ▸ hr')]
    rfl

theorem rowData_nonneg {md : ModeData α} (hmd : NonnegMD md) {K : Ktensor α} (hK : NonnegK K) (n i : Nat) :
    NonnegL (rowData md K n i).1 ∧ NonnegM (rowData md K n i).2 := by
  cases md with
  | dense Xn Pi =>
    refine ⟨?_, hmd.2⟩
    intro x hx
    unfold rowData at hx
    simp only [List.mem_map] at hx
    obtain ⟨j, _, rfl⟩ := hx
    exact dense_get_nonneg hmd.1 _
  | sparse S =>
    refine ⟨?_, piRows_nonneg hK n _⟩
    intro x hx
    unfold rowData at hx
    simp only [List.mem_map] at hx
    obtain ⟨k, _, rfl⟩ := hx
    exact vget_nonneg hmd k

theorem tab_getD {I R : Nat} (f : Nat → Nat → α) {i : Nat} (hi : i < I) :
    (tab I R f).getD i [] = (List.range R).map fun r => f i r := by
  unfold tab
  rw [List.getD_eq_getElem?_getD]
  simp [hi]

/-- Hypotheses on `log` used by the majorisation step (true of the natural logarithm). -/
structure LogLaws (log : α → α) : Prop where
  le_sub_one : ∀ t, 0 < t → log t ≤ t - 1
  mul : ∀ s t, 0 < s → 0 < t → log (s * t) = log s + log t

/-- One multiplicative update of the whole factor does not increase any row objective. -/
theorem mu_row_step (hlog : LogLaws log) (eps : α) (md : ModeData α) (K : Ktensor α) (n : Nat)
    (A : Mat α) (I R : Nat) (hR : R = K.weights.length) (hA : NonnegM A) (hmd : NonnegMD md)
    (hK : NonnegK K) {i : Nat} (hi : i < I)
    (hcl : clampFreeRow eps (rowData md K n i).2 (A.getD i []) R = true) :
    rowObj log md K n R
        (tab I R fun i r => muUpdate (A.get i r) ((phiOf (NumOps.ofField log) eps md K n A I R).get i r)) i ≤
      rowObj log md K n R A i := by
  unfold rowObj
  rw [tab_getD _ hi]
  have e : ((List.range R).map fun r =>
        muUpdate (A.get i r) ((phiOf (NumOps.ofField log) eps md K n A I R).get i r)) =
      (List.range R).map fun k => lsFallback (vget (A.getD i []) k)
        (vget (rowPhi (NumOps.ofField log) eps (rowData md K n i).1 (rowData md K n i).2 (A.getD i []) R) k) := by
    apply List.map_congr_left
    intro r hr
    rw [phiOf_row log eps md K n A I R hR hi (List.mem_range.mp hr)]
    rfl
  rw [e]
  obtain ⟨hx, hPi⟩ := rowData_nonneg hmd hK n i
  exact mu_step_not_worse log hlog.le_sub_one hlog.mul eps _ _ _ _ R (getD_row_nonneg hA i) hPi hx
    (clampFreeRow_spec hcl)

/-! ### the inner loop of one mode -/

/-- The clamp is inactive at every multiplicative update the inner loop performs. -/
def muInnerSafe (eps stoptol : α) (md : ModeData α) (K : Ktensor α) (n I R : Nat) : Nat → Mat α → Bool
  | 0, _ => true
  | fuel + 1, A =>
    let Phi := phiOf (NumOps.ofField log) eps md K n A I R
    if (NumOps.ofField log).lt (kktMat (NumOps.ofField log) A Phi I R) stoptol then true
    else clampFree eps md K n R A &&
      muInnerSafe eps stoptol md K n I R fuel (tab I R fun i r => muUpdate (A.get i r) (Phi.get i r))

theorem muInnerLoop_nonnegA {stoptol : α} {phi : Mat α → Mat α} (I R : Nat)
    (hphi : ∀ A, NonnegM A → NonnegM (phi A)) :
    ∀ (fuel : Nat) (s : MuInner α), NonnegM s.A →
      NonnegM (muInnerLoop (NumOps.ofField log) stoptol phi I R fuel s).A := by
  intro fuel
  induction fuel with
  | zero => intro s hA; exact hA
  | succ fuel ih =>
    intro s hA
    simp only [muInnerLoop]
    split
    · exact hA
    · exact ih _ (tab_nonneg fun i r => mul_nonneg (get_nonneg hA i r) (get_nonneg (hphi _ hA) i r))

theorem muInner_mono (hlog : LogLaws log) {eps : α} (heps : 0 < eps) (stoptol : α) (md : ModeData α)
    (K : Ktensor α) (n I R : Nat) (hR : R = K.weights.length) (hmd : NonnegMD md) (hK : NonnegK K) :
    ∀ (fuel : Nat) (s : MuInner α), NonnegM s.A → s.A.length = I →
      muInnerSafe log eps stoptol md K n I R fuel s.A = true →
      ∀ i < I, rowObj log md K n R
          (muInnerLoop (NumOps.ofField log) stoptol (fun A => phiOf (NumOps.ofField log) eps md K n A I R)
            I R fuel s).A i ≤ rowObj log md K n R s.A i := by
  intro fuel
  induction fuel with
  | zero => intro s _ _ _ i _; exact le_rfl
  | succ fuel ih =>
    intro s hA hlen hsafe i hi
    simp only [muInnerLoop]
    simp only [muInnerSafe] at hsafe
    split
    · exact le_rfl
    · next hk =>
      rw [if_neg hk, Bool.and_eq_true] at hsafe
      have hnext : NonnegM (tab I R fun i r => muUpdate (s.A.get i r)
          ((phiOf (NumOps.ofField log) eps md K n s.A I R).get i r)) :=
        tab_nonneg fun i r => mul_nonneg (get_nonneg hA i r)
          (get_nonneg (phiOf_nonneg log heps hmd hK n s.A I R) i r)
      refine le_trans (ih _ hnext (tab_length _ _ _) hsafe.2 i hi) ?_
      exact mu_row_step log hlog eps md K n s.A I R hR hA hmd hK hi
        (clampFree_spec hsafe.1 (hlen ▸ hi))

/-! ### generic: loops with a safety check -/

/-- `safe` holds at every step `foldE f` takes. -/
def foldSafe {σ β : Type} (f : σ → β → Except Reject σ) (safe : σ → β → Bool) : List β → σ → Bool
  | [], _ => true
  | x :: xs, s => safe s x && (match f s x with
    | .ok s' => foldSafe f safe xs s'
    | .error _ => true)

theorem foldE_safe_inv {σ β : Type} (P : σ → Prop) (f : σ → β → Except Reject σ) (safe : σ → β → Bool) :
    ∀ (l : List β), (∀ s x s', x ∈ l → P s → safe s x = true → f s x = .ok s' → P s') →
      ∀ (s s' : σ), P s → foldSafe f safe l s = true → foldE f l s = .ok s' → P s' := by
  intro l
  induction l with
  | nil => intro _ s s' hs _ h; simp only [foldE] at h; cases h; exact hs
  | cons x xs ih =>
    intro hstep s s' hs hsafe h
    simp only [foldE] at h
    simp only [foldSafe, Bool.and_eq_true] at hsafe
    split at h
    · next s1 h1 =>
      rw [h1] at hsafe
      exact ih (fun a y a' hy => hstep a y a' (by simp [hy])) s1 s'
        (hstep s x s1 (by simp) hs hsafe.1 h1) hsafe.2 h
    · cases h

/-- `safe` holds at every transition `iterE f` takes. -/
def iterSafe {σ : Type} (f : σ → Except Reject σ) (safe : σ → Bool) : Nat → σ → Bool
  | 0, _ => true
  | k + 1, s => safe s && (match f s with
    | .ok s' => iterSafe f safe k s'
    | .error _ => true)

theorem iterE_safe_inv {σ : Type} (P : σ → σ → Prop) (f : σ → Except Reject σ) (safe : σ → Bool)
    (hstep : ∀ s0 s s', P s0 s → safe s = true → f s = .ok s' → P s0 s') :
    ∀ (k : Nat) (s0 s s' : σ), P s0 s → iterSafe f safe k s = true → iterE f k s = .ok s' → P s0 s' := by
  intro k
  induction k with
  | zero => intro s0 s s' hs _ h; simp only [iterE] at h; cases h; exact hs
  | succ k ih =>
    intro s0 s s' hs hsafe h
    simp only [iterE] at h
    simp only [iterSafe, Bool.and_eq_true] at hsafe
    split at h
    · next s1 h1 =>
      rw [h1] at hsafe
      exact ih s0 s1 s' (hstep s0 s s1 hs hsafe.1 h1) hsafe.2 h
    · cases h

/-! ### one mode of MU -/

/-- Every column norm the L1 `normalize(mode=n)` divides by is positive (its `tmp > 0` guard is
not what keeps a column). -/
def normPos (K : Ktensor α) (n : Nat) : Bool :=
  (List.range K.weights.length).all fun r => decide (0 < colNorm1 (NumOps.ofField log) (factor K n) r)

theorem normalizeMode_colSum_self {K : Ktensor α} (h : NonnegK K) {n : Nat} (hn : n < K.factors.length)
    {r : Nat} (hr : r < K.weights.length)
    (hpos : 0 < colNorm1 (NumOps.ofField log) (factor K n) r) :
    colSum (factor (normalizeMode (NumOps.ofField log) K n) n) r = 1 := by
  have hfac : factor (normalizeMode (NumOps.ofField log) K n) n = tab (factor K n).length K.weights.length
      (fun i r => if (NumOps.ofField log).lt 0
          (vget ((List.range K.weights.length).map (colNorm1 (NumOps.ofField log) (factor K n))) r)
        then (1 / vget ((List.range K.weights.length).map (colNorm1 (NumOps.ofField log) (factor K n))) r) *
          (factor K n).get i r
        else (factor K n).get i r) := by
    unfold normalizeMode
    exact factor_set_self hn _
  rw [colNorm1_eq_colSum log (factor_nonneg h n)] at hpos
  rw [hfac, colSum_tab _ hr, vget_map_range hr, colNorm1_eq_colSum log (factor_nonneg h n)]
  have hlt : (NumOps.ofField log).lt 0 (colSum (factor K n) r) = true := decide_eq_true hpos
  simp only [hlt, if_true]
  unfold sumOver
  rw [List.sum_map_mul_left]
  show 1 / colSum (factor K n) r * colSum (factor K n) r = 1
  field_simp

theorem bump_inactive {o : NumOps α} {cfg : Cfg α} {iterPos : Bool} {M : Ktensor α} {Phin : Mat α} {n : Nat}
    (h : (bump o cfg iterPos M Phin n).2 = false) : (bump o cfg iterPos M Phin n).1 = M := by
  unfold bump at h ⊢
  simp only at h ⊢
  rw [h]
  rfl

/-- Invariant between modes: non-negative, right shape, every mode with unit column sums. -/
def Good (shape : List Nat) (R : Nat) (K : Ktensor α) : Prop :=
  NonnegK K ∧ ShapeK shape R K ∧ ColsOne K

/-- The safeguards are inactive while MU processes mode `n`: no inadmissible-zero bump, no active
`epsDivZero` clamp in any inner iteration, no zero column norm in the closing `normalize`. -/
def muModeSafe (cfg : Cfg α) (X : Data α) (iterPos : Bool) (s : MuIt α) (n : Nat) : Bool :=
  let o := NumOps.ofField log
  let Phin := s.Phi.getD n []
  let b := bump o cfg iterPos s.M Phin n
  let M2 := redistribute b.1 n
  let A := factor M2 n
  !b.2 && (match modeData X M2 n with
    | .error _ => true
    | .ok md =>
      muInnerSafe log cfg.eps cfg.stoptol md M2 n A.length M2.weights.length cfg.maxinner A &&
      normPos log (setFactor M2 n (muInnerLoop o cfg.stoptol
        (fun A' => phiOf o cfg.eps md M2 n A' A.length M2.weights.length) A.length M2.weights.length
        cfg.maxinner ⟨A, Phin, vget s.kktMode n, s.conv, 0⟩).A) n)

theorem colsOneBut_of_colsOne {K : Ktensor α} (h : ColsOne K) (n : Nat) : ColsOneBut K n :=
  fun m hm _ r hr => h m hm r hr

theorem muMode_mono (hlog : LogLaws log) (cfg : Cfg α) (heps : 0 < cfg.eps) (X : Data α)
    (hX : DataWF X) (hXn : NonnegData X) (hpos : ∀ e ∈ X.shape, 0 < e) (iterPos : Bool) {R : Nat}
    (s : MuIt α) (n : Nat) (s' : MuIt α) (hn : n < X.shape.length) (hs : Good X.shape R s.M)
    (hsafe : muModeSafe log cfg X iterPos s n = true)
    (h : muMode (NumOps.ofField log) cfg X iterPos s n = .ok s') :
    Good X.shape R s'.M ∧ negLL log X s'.M ≤ negLL log X s.M := by
  obtain ⟨hnn, hsh, hcols⟩ := hs
  have hN := nfactors_of_shape hsh
  unfold muModeSafe at hsafe
  unfold muMode at h
  simp only [Bool.and_eq_true, Bool.not_eq_true'] at hsafe
  obtain ⟨hb, hrest⟩ := hsafe
  have hb1 := bump_inactive hb
  simp only at h
  rw [hb1] at h hrest
  -- after redistribute
  have hM2nn := redistribute_nonneg hnn n
  have hM2sh := redistribute_shape hsh n
  have hM2N : (redistribute s.M n).factors.length = s.M.factors.length := redistribute_nfactors _ _
  have hnK : n < s.M.factors.length := hN ▸ hn
  have hM2c : ColsOneBut (redistribute s.M n) n := by
    intro m hm hne r hr
    rw [redistribute_factor_ne s.M (Ne.symm hne)]
    exact hcols m (hM2N ▸ hm) r (by rw [hsh.1, ← hM2sh.1]; exact hr)
  have hM2ll : negLL log X (redistribute s.M n) = negLL log X s.M :=
    negLL_congr log hX fun i hi => redistribute_get s.M n hnK i (by rw [hN]; exact hi)
  split at h
  · cases h
  · next md hmd =>
    cases h
    rw [hmd] at hrest
    simp only [Bool.and_eq_true] at hrest
    obtain ⟨hinner, hnorm⟩ := hrest
    have hmdnn := modeData_nonneg hXn hM2nn hmd
    have hA0 : IsMat (factor (redistribute s.M n) n).length (redistribute s.M n).weights.length
        (factor (redistribute s.M n) n) := ⟨rfl, hM2sh.1 ▸ factor_isMat hM2sh n⟩
    -- the inner loop
    generalize hr : muInnerLoop (NumOps.ofField log) cfg.stoptol
      (fun A => phiOf (NumOps.ofField log) cfg.eps md (redistribute s.M n) n A
        (factor (redistribute s.M n) n).length (redistribute s.M n).weights.length)
      (factor (redistribute s.M n) n).length (redistribute s.M n).weights.length cfg.maxinner
      ⟨factor (redistribute s.M n) n, s.Phi.getD n [], vget s.kktMode n, s.conv, 0⟩ = r at hnorm ⊢
    have hrA : IsMat (factor (redistribute s.M n) n).length (redistribute s.M n).weights.length r.A := by
      rw [← hr]; exact muInnerLoop_shape _ _ _ _ _ _ _ hA0
    have hrnn : NonnegM r.A := by
      rw [← hr]
      exact muInnerLoop_nonnegA log _ _ (fun A _ => phiOf_nonneg log heps hmdnn hM2nn n A _ _) _ _
        (factor_nonneg hM2nn n)
    have hrows : ∀ i < (factor (redistribute s.M n) n).length,
        rowObj log md (redistribute s.M n) n (redistribute s.M n).weights.length r.A i ≤
        rowObj log md (redistribute s.M n) n (redistribute s.M n).weights.length
          (factor (redistribute s.M n) n) i := by
      intro i hi
      rw [← hr]
      exact muInner_mono log hlog heps cfg.stoptol md (redistribute s.M n) n _ _ rfl hmdnn hM2nn
        cfg.maxinner ⟨factor (redistribute s.M n) n, s.Phi.getD n [], vget s.kktMode n, s.conv, 0⟩
        (factor_nonneg hM2nn n) rfl hinner i hi
    -- likelihoods
    have hR2 : (redistribute s.M n).weights.length = R := hM2sh.1
    have hnM2 : n < (redistribute s.M n).factors.length := hM2N ▸ hnK
    have hdec := fun A hA => negLL_setFactor_rows log X (redistribute s.M n) n hM2sh hnM2 hX hpos
      (redistribute_unit s.M n) hM2c md hmd A hA
    have hll1 : negLL log X (setFactor (redistribute s.M n) n r.A) ≤ negLL log X s.M := by
      rw [hdec r.A (hR2 ▸ hrA), ← hM2ll]
      conv_rhs => rw [← setFactor_self (redistribute s.M n) n]
      rw [hdec _ (hR2 ▸ hA0)]
      apply sumOver_le
      intro i hi
      rw [← hR2]
      exact hrows i hi
    -- the closing normalize
    have hSnn : NonnegK (setFactor (redistribute s.M n) n r.A) := by
      unfold setFactor; exact nonnegK_set hM2nn.1 hM2nn.2 hrnn
    have hSsh : ShapeK X.shape R (setFactor (redistribute s.M n) n r.A) := by
      unfold setFactor; exact shapeK_set hM2sh hM2sh.1 hrA.1 (hR2 ▸ hrA.2)
    have hSN : (setFactor (redistribute s.M n) n r.A).factors.length = s.M.factors.length := by
      simp [setFactor, hM2N]
    have hnS : n < (setFactor (redistribute s.M n) n r.A).factors.length := hSN ▸ hnK
    refine ⟨⟨normalizeMode_nonneg log hSnn n, normalizeMode_shape _ hSsh n, ?_⟩, ?_⟩
    · intro m hm r' hr'
      rw [normalizeMode_nfactors] at hm
      rw [normalizeMode_nweights] at hr'
      by_cases hmn : m = n
      · subst hmn
        apply normalizeMode_colSum_self log hSnn hnS hr'
        unfold normPos at hnorm
        rw [List.all_eq_true] at hnorm
        simpa using hnorm r' (List.mem_range.mpr hr')
      · rw [normalizeMode_factor_ne _ _ (Ne.symm hmn), setFactor_factor_ne _ (Ne.symm hmn),
          redistribute_factor_ne _ (Ne.symm hmn)]
        exact hcols m (hSN ▸ hm) r' (by rw [hsh.1, ← hSsh.1]; exact hr')
    · refine le_trans (le_of_eq ?_) hll1
      exact negLL_congr log hX fun i hi =>
        normalizeMode_get log _ n hnS i (by rw [hSN, hN]; exact hi)

/-! ### outer iterations and whole runs of MU -/

/-- Safeguards inactive during one outer iteration of MU. -/
def muOuterSafe (cfg : Cfg α) (X : Data α) (s : MuSt α) : Bool :=
  if s.done || decide (cfg.maxiters ≤ s.iter) then true
  else foldSafe (muMode (NumOps.ofField log) cfg X (decide (0 < s.iter)))
    (muModeSafe log cfg X (decide (0 < s.iter))) (List.range s.M.factors.length)
    ⟨s.M, s.Phi, s.kktMode, true, 0, 0⟩

theorem muOuter_mono (hlog : LogLaws log) (cfg : Cfg α) (heps : 0 < cfg.eps) (X : Data α)
    (hX : DataWF X) (hXn : NonnegData X) (hpos : ∀ e ∈ X.shape, 0 < e) {R : Nat}
    (s s' : MuSt α) (hs : Good X.shape R s.M) (hsafe : muOuterSafe log cfg X s = true)
    (h : muOuter (NumOps.ofField log) cfg X s = .ok s') :
    Good X.shape R s'.M ∧ negLL log X s'.M ≤ negLL log X s.M := by
  unfold muOuter at h
  unfold muOuterSafe at hsafe
  split at h
  · cases h; exact ⟨hs, le_rfl⟩
  · next hc =>
    rw [if_neg hc] at hsafe
    split at h
    · cases h
    · next it hit =>
      cases h
      have hN := nfactors_of_shape hs.2.1
      exact foldE_safe_inv (fun a : MuIt α => Good X.shape R a.M ∧ negLL log X a.M ≤ negLL log X s.M)
        _ _ _ (fun a n a' hn ha hsf hh => by
          have := muMode_mono log hlog cfg heps X hX hXn hpos _ a n a'
            (by rw [← hN]; exact List.mem_range.mp hn) ha.1 hsf hh
          exact ⟨this.1, le_trans this.2 ha.2⟩) _ _ ⟨hs, le_rfl⟩ hsafe hit

/-- `ColsOne`, as a check. -/
def colsOneB (K : Ktensor α) : Bool :=
  (List.range K.factors.length).all fun m => (List.range K.weights.length).all fun r =>
    decide (colSum (factor K m) r = 1)

theorem colsOneB_spec {K : Ktensor α} (h : colsOneB K = true) : ColsOne K := by
  intro m hm r hr
  unfold colsOneB at h
  rw [List.all_eq_true] at h
  have h1 := h m (List.mem_range.mpr hm)
  rw [List.all_eq_true] at h1
  simpa using h1 r (List.mem_range.mpr hr)

/-- SAFEGUARDS INACTIVE on the first `k` outer iterations of an MU run from `init`: the
normalised guess has no zero column (so every mode starts with unit column sums), and in every
mode of every iteration there is no inadmissible-zero bump, the `epsDivZero` clamp does not
change any denominator, and no column norm of the closing `normalize` is zero. -/
def muRunSafe (cfg : Cfg α) (X : Data α) (init : Ktensor α) (k : Nat) : Bool :=
  colsOneB (muInit (NumOps.ofField log) init).M &&
  iterSafe (muOuter (NumOps.ofField log) cfg X) (muOuterSafe log cfg X) k (muInit (NumOps.ofField log) init)

theorem muRun_mono (hlog : LogLaws log) (cfg : Cfg α) (heps : 0 < cfg.eps) (X : Data α)
    (hX : DataWF X) (hXn : NonnegData X) (hpos : ∀ e ∈ X.shape, 0 < e) {R : Nat}
    (init : Ktensor α) (hinn : NonnegK init) (hish : ShapeK X.shape R init) (k : Nat) (s : MuSt α)
    (hsafe : muRunSafe log cfg X init k = true)
    (h : muStates (NumOps.ofField log) cfg X init k = .ok s) :
    Good X.shape R s.M ∧ negLL log X s.M ≤ negLL log X (normalize1 (NumOps.ofField log) init) := by
  unfold muRunSafe at hsafe
  rw [Bool.and_eq_true] at hsafe
  have h0 : Good X.shape R (muInit (NumOps.ofField log) init).M :=
    ⟨normalize1_nonneg log hinn, normalize1_shape _ hish, colsOneB_spec hsafe.1⟩
  unfold muStates at h
  have hstep : ∀ s0 a a' : MuSt α,
      (Good X.shape R a.M ∧ negLL log X a.M ≤ negLL log X s0.M) → muOuterSafe log cfg X a = true →
      muOuter (NumOps.ofField log) cfg X a = .ok a' →
      (Good X.shape R a'.M ∧ negLL log X a'.M ≤ negLL log X s0.M) := by
    intro s0 a a' ha hsf hh
    have := muOuter_mono log hlog cfg heps X hX hXn hpos a a' ha.1 hsf hh
    exact ⟨this.1, le_trans this.2 ha.2⟩
  exact iterE_safe_inv
    (fun s0 a : MuSt α => Good X.shape R a.M ∧ negLL log X a.M ≤ negLL log X s0.M)
    (muOuter (NumOps.ofField log) cfg X) (muOuterSafe log cfg X) hstep k
    (muInit (NumOps.ofField log) init) (muInit (NumOps.ofField log) init) s ⟨h0, le_rfl⟩ hsafe.2 h

/-- What the argument checks say about the layout of the data. -/
theorem validate_wf {c : Consts α} {cfg : Cfg α} {alg : Alg} {X : Data α} {init : Ktensor α}
    (h : validate (NumOps.ofField log) c cfg alg X init = true) :
    DataWF X ∧ ∀ e ∈ X.shape, 0 < e := by
  unfold validate at h
  simp only [Bool.and_eq_true, decide_eq_true_eq, beq_iff_eq] at h
  obtain ⟨⟨⟨⟨⟨⟨⟨⟨⟨⟨⟨_, hdata⟩, hpos⟩, _⟩, _⟩, _⟩, _⟩, _⟩, _⟩, _⟩, _⟩, _⟩ := h
  constructor
  · cases X with
    | dense T =>
      simp only [Bool.and_eq_true, beq_iff_eq] at hdata
      exact hdata.1.1
    | sparse S =>
      simp only [Bool.and_eq_true, beq_iff_eq] at hdata
      refine ⟨hdata.1.1.1, ?_⟩
      intro sub hsub
      have := hdata.1.1.2
      rw [List.all_eq_true] at this
      exact (inBounds_iff _ _).mp (this sub hsub)
  · intro e he
    rw [List.all_eq_true] at hpos
    simpa using hpos e he

/-- The set-up normalisation does not change the likelihood of a non-negative guess. -/
theorem negLL_normalize1 {X : Data α} (hX : DataWF X) {R : Nat} {K : Ktensor α} (hK : NonnegK K)
    (hs : ShapeK X.shape R K) (hN : 0 < X.shape.length) :
    negLL log X (normalize1 (NumOps.ofField log) K) = negLL log X K := by
  have hNf := nfactors_of_shape hs
  exact negLL_congr log hX fun i hi => normalize1_get log hK (by rw [hNf]; exact hN) i (by rw [hNf]; exact hi)

end Pyttb.CpApr
