/-
The identity action of `teneye` under `ttsv` (property C20): semantics of the `ttsv` loop as a
sum over index tuples, and the counting argument over pairings.
-/
import PyttbModel.Lemmas.Teneye
import Mathlib.Algebra.BigOperators.Group.Finset.Basic
import Mathlib.Algebra.BigOperators.Ring.Finset
import Mathlib.Algebra.Field.Defs
import Mathlib.Tactic.Ring
import Mathlib.Tactic.FieldSimp
import Mathlib.Algebra.CharZero.Defs
import Mathlib.Algebra.Field.Basic
import Mathlib.Tactic.Abel
import Mathlib.Algebra.BigOperators.GroupWithZero.Action
import Mathlib.Algebra.BigOperators.Group.Finset.Sigma
namespace Pyttb
variable {α : Type}

open Finset in
/-- Sum of `g` over all tuples of length `L` with entries below `n` (first entry outermost). -/
def tsum [AddCommMonoid α] (n : Nat) : Nat → (List Nat → α) → α
  | 0, g => g []
  | L + 1, g => ∑ a ∈ Finset.range n, tsum n L (fun t => g (a :: t))

/-- `∏ x[u_l]` over the entries of the tuple `u`. -/
def xprod [Mul α] [One α] [Zero α] (x : List α) (u : List Nat) : α := (u.map fun c => x.getD c 0).prod

theorem list_sum_range [AddCommMonoid α] (n : Nat) (f : Nat → α) :
    ((List.range n).map f).sum = ∑ c ∈ Finset.range n, f c := by
  induction n with
  | zero => simp
  | succ n ih => simp [List.range_succ, Finset.sum_range_succ, ih]

section semiring
variable [CommSemiring α]

theorem tsum_mul_right (n L : Nat) (g : List Nat → α) (a : α) :
    tsum n L (fun t => g t * a) = tsum n L g * a := by
  induction L generalizing g with
  | zero => rfl
  | succ L ih => simp only [tsum, ih, Finset.sum_mul]

theorem tsum_congr (n L : Nat) (g g' : List Nat → α)
    (h : ∀ t, t.length = L → (∀ c ∈ t, c < n) → g t = g' t) : tsum n L g = tsum n L g' := by
  induction L generalizing g g' with
  | zero => exact h [] rfl (by simp)
  | succ L ih =>
    simp only [tsum]
    apply Finset.sum_congr rfl
    intro a ha
    apply ih
    intro t ht hb
    apply h
    · simp [ht]
    · intro c hc
      rcases List.mem_cons.1 hc with rfl | hc
      · exact Finset.mem_range.1 ha
      · exact hb c hc

theorem sub2ind_snoc (s t : List Nat) (a c : Nat) (h : t.length = s.length) :
    sub2ind (s ++ [a]) (t ++ [c]) = sub2ind s t + numel s * c := by
  induction s generalizing t with
  | nil =>
    have : t = [] := List.length_eq_zero_iff.1 h
    subst this; simp [sub2ind]
  | cons b s ih =>
    cases t with
    | nil => simp at h
    | cons d t =>
      simp only [List.cons_append, sub2ind, numel_cons]
      rw [ih t (by simpa using h)]
      ring

theorem numel_replicate (L n : Nat) : numel (List.replicate L n) = n ^ L := by
  induction L with
  | zero => rfl
  | succ L ih => simp [List.replicate_succ, ih, Nat.pow_succ, Nat.mul_comm]

/-- What the `ttsv` loop has computed after multiplying out the last `j` modes. -/
def ttsvPartial (T : Dense α) (x : List α) (n j : Nat) (t : List Nat) : α :=
  tsum n j (fun u => T.get (t ++ u) * xprod x u)

theorem contractLast_spec (d n j : Nat) (T : Dense α) (x : List α) (y : List α) (hj : j + 1 < d + 1)
    (hy : ∀ t, InBounds (List.replicate (d - j) n) t →
      y.getD (sub2ind (List.replicate (d - j) n) t) 0 = ttsvPartial T x n j t)
    (t : List Nat) (ht : InBounds (List.replicate (d - (j + 1)) n) t) :
    (contractLast y (n ^ (d - 1 - j)) n x).getD (sub2ind (List.replicate (d - (j + 1)) n) t) 0 =
      ttsvPartial T x n (j + 1) t := by
  have hd : d - j = (d - (j + 1)) + 1 := by omega
  have hrows : n ^ (d - 1 - j) = numel (List.replicate (d - (j + 1)) n) := by
    rw [numel_replicate]; congr 1; omega
  obtain ⟨hl, hb⟩ := (inBounds_replicate_iff _ _ _).1 ht
  have hlt : sub2ind (List.replicate (d - (j + 1)) n) t < n ^ (d - 1 - j) := by
    rw [hrows]; exact sub2ind_lt ht
  unfold contractLast
  rw [List.getD_eq_getElem?_getD, List.getElem?_map, List.getElem?_range hlt]
  simp only [Option.map_some, Option.getD_some]
  rw [list_sum_range]
  unfold ttsvPartial
  simp only [tsum]
  apply Finset.sum_congr rfl
  intro c hc
  have hc' := Finset.mem_range.1 hc
  have htc : InBounds (List.replicate (d - j) n) (t ++ [c]) := by
    rw [inBounds_replicate_iff]
    refine ⟨by simp [hl]; omega, ?_⟩
    intro z hz
    rcases List.mem_append.1 hz with hz | hz
    · exact hb z hz
    · simp at hz; omega
  have := hy (t ++ [c]) htc
  rw [hd, List.replicate_succ', sub2ind_snoc _ _ _ _ (by simp [hl]), ← hrows] at this
  rw [this]
  unfold ttsvPartial
  rw [← tsum_mul_right]
  apply tsum_congr
  intro u _ _
  simp only [xprod, List.map_cons, List.prod_cons, List.append_assoc, List.singleton_append]
  ring

/-- `ttsv(T, x, skip_dim=0)` on an order-`d` tensor with all extents `n`: entry `k` of the
result is `Σ_u T[k, u₁, …, u_{d-1}] · x[u₁] ⋯ x[u_{d-1}]`. -/
theorem ttsvFirst_spec (T : Dense α) (x : List α) (d n : Nat) (hd : 0 < d) (hs : T.shape = List.replicate d n)
    (hT : T.WF) (hx : x.length = n) :
    ∃ y, T.ttsvFirst x = .ok y ∧ y.length = n ∧
      ∀ k < n, y.getD k 0 = tsum n (d - 1) (fun u => T.get (k :: u) * xprod x u) := by
  have hlen : T.data.length = n ^ d := by rw [hT, hs, numel_replicate]
  have hstep : ∀ j, j < d →
      let y := (List.range j).foldl (fun y k => contractLast y (n ^ (d - 1 - k)) n x) T.data
      y.length = n ^ (d - j) ∧ ∀ t, InBounds (List.replicate (d - j) n) t →
        y.getD (sub2ind (List.replicate (d - j) n) t) 0 = ttsvPartial T x n j t := by
    intro j
    induction j with
    | zero =>
      intro _
      refine ⟨by simpa using hlen, ?_⟩
      intro t ht
      simp only [List.range_zero, List.foldl_nil, ttsvPartial, tsum, List.append_nil, xprod, List.map_nil,
        List.prod_nil, mul_one, Nat.sub_zero]
      rw [← hs]; rfl
    | succ j ih =>
      intro hj
      obtain ⟨h1, h2⟩ := ih (by omega)
      simp only [List.range_succ, List.foldl_append, List.foldl_cons, List.foldl_nil]
      refine ⟨?_, ?_⟩
      · simp only [contractLast, List.length_map, List.length_range]
        congr 1; omega
      · intro t ht
        exact contractLast_spec d n j T x _ (by omega) h2 t ht
  obtain ⟨h1, h2⟩ := hstep (d - 1) (by omega)
  have hd1 : d - (d - 1) = 1 := by omega
  refine ⟨(List.range (d - 1)).foldl (fun y k => contractLast y (n ^ (d - 1 - k)) n x) T.data, ?_, ?_, ?_⟩
  · unfold Dense.ttsvFirst
    have c1 : (d == 0) = false := by simpa using Nat.ne_of_gt hd
    have c2 : T.shape.any (· != n) = false := by
      rw [hs, List.any_eq_false]
      intro z hz
      have : z = n := List.eq_of_mem_replicate hz
      subst this
      simp
    have c3 : T.shape.headD 0 = n := by
      rw [hs]; cases d with
      | zero => omega
      | succ d => simp [List.replicate_succ]
    have c4 : T.shape.length = d := by rw [hs]; simp
    simp only [c3, c4, c1, c2, hx, hlen, bne_self_eq_false, Bool.or_self, Bool.false_eq_true, if_false]
  · simpa [hd1] using h1
  · intro k hk
    have := h2 [k] (by rw [hd1]; simp [InBounds, hk])
    rw [hd1] at this
    simp only [List.replicate_one, sub2ind, Nat.mul_zero, Nat.add_zero] at this
    simpa [ttsvPartial] using this

end semiring
section semiring
variable [CommSemiring α]

theorem tsum_add (n L : Nat) (f g : List Nat → α) :
    tsum n L (fun t => f t + g t) = tsum n L f + tsum n L g := by
  induction L generalizing f g with
  | zero => rfl
  | succ L ih => simp only [tsum, ih, Finset.sum_add_distrib]

theorem tsum_zero (n L : Nat) : tsum n L (fun _ => (0 : α)) = 0 := by
  induction L with
  | zero => rfl
  | succ L ih => simp only [tsum, ih, Finset.sum_const_zero]

theorem tsum_mul_left (n L : Nat) (g : List Nat → α) (a : α) :
    tsum n L (fun t => a * g t) = a * tsum n L g := by
  induction L generalizing g with
  | zero => rfl
  | succ L ih => simp only [tsum, ih, Finset.mul_sum]

theorem tsum_nsmul (n L : Nat) (g : List Nat → α) (c : Nat) :
    tsum n L (fun t => c • g t) = c • tsum n L g := by
  induction L generalizing g with
  | zero => rfl
  | succ L ih => simp only [tsum, ih, Finset.smul_sum]

/-- Sum over a list of functions commutes with the tuple sum. -/
theorem tsum_list_sum {β : Type} (n L : Nat) (l : List β) (f : β → List Nat → α) :
    tsum n L (fun t => (l.map fun b => f b t).sum) = (l.map fun b => tsum n L (f b)).sum := by
  induction l with
  | nil => simp [tsum_zero]
  | cons b l ih => simp only [List.map_cons, List.sum_cons, tsum_add, ih]

/-- Inserting a summed-over entry at every position of every `L`-tuple enumerates every
`(L+1)`-tuple `L+1` times. -/
theorem tsum_insertAll (n L : Nat) (G : List Nat → α) :
    ∑ a ∈ Finset.range n, tsum n L (fun σ => ((insertAll a σ).map G).sum) = (L + 1) • tsum n (L + 1) G := by
  induction L generalizing G with
  | zero => simp [tsum, insertAll]
  | succ L ih =>
    have h1 : ∀ a, tsum n (L + 1) (fun σ => ((insertAll a σ).map G).sum) =
        ∑ y ∈ Finset.range n, (tsum n L (fun ys => G (a :: y :: ys)) +
          tsum n L (fun ys => ((insertAll a ys).map (fun ρ => G (y :: ρ))).sum)) := by
      intro a
      simp only [tsum, insertAll, List.map_cons, List.sum_cons, List.map_map, tsum_add]
      rfl
    simp only [h1, Finset.sum_add_distrib]
    rw [Finset.sum_comm (f := fun a y => tsum n L (fun ys => ((insertAll a ys).map (fun ρ => G (y :: ρ))).sum))]
    simp only [ih]
    rw [← Finset.smul_sum]
    have h2 : ∑ a ∈ Finset.range n, ∑ y ∈ Finset.range n, tsum n L (fun ys => G (a :: y :: ys)) = tsum n (L + 2) G := rfl
    have h3 : ∑ y ∈ Finset.range n, tsum n (L + 1) (fun ρ => G (y :: ρ)) = tsum n (L + 2) G := rfl
    rw [h2, h3]
    simp only [add_smul, one_smul]
    abel

theorem list_sum_flatMap {β γ : Type} (l : List β) (f : β → List γ) (g : γ → α) :
    ((l.flatMap f).map g).sum = (l.map fun b => ((f b).map g).sum).sum := by
  induction l with
  | nil => rfl
  | cons b l ih => simp [List.flatMap_cons, ih]

/-- Summing over all rearrangements of every `L`-tuple enumerates every `L`-tuple `L!` times. -/
theorem tsum_perms (n L : Nat) (G : List Nat → α) :
    tsum n L (fun u => ((perms u).map G).sum) = (fact L) • tsum n L G := by
  induction L generalizing G with
  | zero => simp [tsum, perms, fact]
  | succ L ih =>
    have h1 : ∀ a, tsum n L (fun t => ((perms (a :: t)).map G).sum) =
        fact L • tsum n L (fun σ => ((insertAll a σ).map G).sum) := by
      intro a
      simp only [perms, list_sum_flatMap]
      exact ih (fun σ => ((insertAll a σ).map G).sum)
    simp only [tsum, h1]
    rw [← Finset.smul_sum, tsum_insertAll, smul_smul, fact]
    congr 1
    ring

end semiring

section semiring
variable [CommSemiring α]

/-- Tuple sum with one weight function per position. -/
def wsum (n : Nat) : List (Nat → α) → (List Nat → α) → α
  | [], F => F []
  | w :: ws, F => ∑ a ∈ Finset.range n, w a * wsum n ws (fun t => F (a :: t))

theorem wsum_congr (n : Nat) (W : List (Nat → α)) (F F' : List Nat → α)
    (h : ∀ t, t.length = W.length → F t = F' t) : wsum n W F = wsum n W F' := by
  induction W generalizing F F' with
  | nil => exact h [] rfl
  | cons w W ih =>
    simp only [wsum]
    apply Finset.sum_congr rfl
    intro a _
    rw [ih _ (fun t => F' (a :: t)) (fun t ht => h (a :: t) (by simp [ht]))]

theorem wsum_zero (n : Nat) (W : List (Nat → α)) : wsum n W (fun _ => 0) = 0 := by
  induction W with
  | nil => rfl
  | cons w W ih => simp [wsum, ih]

theorem wsum_mul_left (n : Nat) (W : List (Nat → α)) (F : List Nat → α) (c : α) :
    wsum n W (fun t => c * F t) = c * wsum n W F := by
  induction W generalizing F with
  | nil => rfl
  | cons w W ih =>
    simp only [wsum, ih, Finset.mul_sum]
    apply Finset.sum_congr rfl; intro a _; ring

/-- The weight `x[·]`. -/
def xw [Zero α] (x : List α) : Nat → α := fun c => x.getD c 0

/-- The weight that selects the index `k`. -/
def selW [Zero α] [One α] (k : Nat) : Nat → α := fun a => if a = k then 1 else 0

theorem wsum_replicate (n L : Nat) (x : List α) (G : List Nat → α) :
    wsum n (List.replicate L (xw x)) G = tsum n L (fun u => G u * xprod x u) := by
  induction L generalizing G with
  | zero => simp [wsum, tsum, xprod]
  | succ L ih =>
    simp only [List.replicate_succ, wsum, tsum, ih]
    apply Finset.sum_congr rfl
    intro a _
    rw [← tsum_mul_left]
    apply tsum_congr
    intro t _ _
    simp only [xprod, List.map_cons, List.prod_cons, xw]
    ring

theorem sum_selW_mul (n k : Nat) (hk : k < n) (f : Nat → α) :
    ∑ a ∈ Finset.range n, selW k a * f a = f k := by
  rw [Finset.sum_eq_single k]
  · simp [selW]
  · intro b _ hb; simp [selW, hb]
  · intro h; exact absurd (Finset.mem_range.2 hk) h

/-- Fixing one entry to `k` at every position of every `L`-tuple: the same as giving one
position the selecting weight. -/
theorem tsum_insertAll_fixed (n L k : Nat) (hk : k < n) (x : List α) (F : List Nat → α) :
    tsum n L (fun ρ => ((insertAll k ρ).map F).sum * xprod x ρ) =
      ((insertAll (selW k) (List.replicate L (xw x))).map fun W => wsum n W F).sum := by
  induction L generalizing F with
  | zero => simp [tsum, insertAll, wsum, xprod, sum_selW_mul n k hk]
  | succ L ih =>
    simp only [List.replicate_succ, insertAll, List.map_cons, List.sum_cons, List.map_map]
    have h1 : wsum n (selW k :: xw x :: List.replicate L (xw x)) F =
        ∑ y ∈ Finset.range n, xw x y * tsum n L (fun ys => F (k :: y :: ys) * xprod x ys) := by
      simp only [wsum]
      rw [sum_selW_mul n k hk]
      apply Finset.sum_congr rfl; intro y _
      rw [wsum_replicate]
    have h2 : ((insertAll (selW k) (List.replicate L (xw x))).map
          ((fun W => wsum n W F) ∘ fun W => xw x :: W)).sum =
        ∑ y ∈ Finset.range n, xw x y *
          tsum n L (fun ys => ((insertAll k ys).map (fun τ => F (y :: τ))).sum * xprod x ys) := by
      simp only [Function.comp_def, wsum]
      have : ∀ y, tsum n L (fun ys => ((insertAll k ys).map (fun τ => F (y :: τ))).sum * xprod x ys) =
          ((insertAll (selW k) (List.replicate L (xw x))).map fun W => wsum n W (fun τ => F (y :: τ))).sum :=
        fun y => ih (fun τ => F (y :: τ))
      simp only [this]
      -- exchange the two finite sums
      induction (insertAll (selW k) (List.replicate L (xw x))) with
      | nil => simp
      | cons W Ws ihW =>
        simp only [List.map_cons, List.sum_cons, ihW]
        rw [← Finset.sum_add_distrib]
        apply Finset.sum_congr rfl; intro y _; ring
    rw [h1, h2, ← Finset.sum_add_distrib]
    simp only [tsum]
    apply Finset.sum_congr rfl
    intro y _
    rw [← mul_add, ← tsum_add, ← tsum_mul_left]
    apply tsum_congr
    intro ys _ _
    simp only [xprod, List.map_cons, List.prod_cons, List.map_map, Function.comp_def, xw, insertAll,
      List.sum_cons]
    ring

end semiring


/-- Recursive form of the row test of `teneye` on `a :: rest`: adjacent pairs, and the last
entry is paired with the first one (`a`). -/
def apL (a : Nat) : List Nat → Bool
  | [] => false
  | [c] => c == a
  | x :: y :: r => x == y && apL a r

theorem pairedRow_step (h a x y : Nat) (r : List Nat) :
    pairedRow (2 * (h + 1) + 2) (a :: x :: y :: r) = (x == y && pairedRow (2 * (h + 1)) (a :: r)) := by
  unfold pairedRow
  have e1 : (2 * (h + 1) + 2) / 2 = h + 2 := by omega
  have e2 : (2 * (h + 1)) / 2 = h + 1 := by omega
  rw [e1, e2, List.range_succ_eq_map, List.range_succ_eq_map (n := h)]
  simp only [List.map_cons, List.map_map, List.all_cons, List.all_map]
  have f0 : ((a :: x :: y :: r).getD (if (0 == 0) = true then 2 * (h + 1) + 2 - 1 else 2 * 0 - 1) 0 ==
      (a :: x :: y :: r).getD (2 * 0) 0) =
      ((a :: r).getD (if (0 == 0) = true then 2 * (h + 1) - 1 else 2 * 0 - 1) 0 == (a :: r).getD (2 * 0) 0) := by
    have : 2 * (h + 1) + 2 - 1 = (2 * h + 1) + 1 + 1 := by omega
    have h2 : 2 * (h + 1) - 1 = 2 * h + 1 := by omega
    simp [this, h2]
  rw [f0]
  have f1 : ((a :: x :: y :: r).getD (if (Nat.succ 0 == 0) = true then 2 * (h + 1) + 2 - 1 else 2 * Nat.succ 0 - 1) 0 ==
      (a :: x :: y :: r).getD (2 * Nat.succ 0) 0) = (x == y) := by simp
  rw [f1]
  have frest : ∀ j, (((fun j => (a :: x :: y :: r).getD (if (j == 0) = true then 2 * (h + 1) + 2 - 1 else 2 * j - 1) 0 ==
      (a :: x :: y :: r).getD (2 * j) 0) ∘ Nat.succ ∘ Nat.succ) j) =
      (((fun j => (a :: r).getD (if (j == 0) = true then 2 * (h + 1) - 1 else 2 * j - 1) 0 ==
      (a :: r).getD (2 * j) 0) ∘ Nat.succ) j) := by
    intro j
    have a1 : 2 * (j + 1 + 1) - 1 = (2 * j) + 1 + 1 + 1 := by omega
    have a2 : 2 * (j + 1 + 1) = (2 * j + 1) + 1 + 1 + 1 := by omega
    have a3 : 2 * (j + 1) - 1 = (2 * j) + 1 := by omega
    have a4 : 2 * (j + 1) = (2 * j + 1) + 1 := by omega
    simp only [Function.comp, Nat.succ_eq_add_one, Nat.add_eq_zero_iff, beq_iff_eq, and_false,
      one_ne_zero, if_false, a2, a4, List.getD_cons_succ]
    have b1 : 2 * j + 1 + 1 + 1 + 1 - 1 = (2 * j) + 1 + 1 + 1 := by omega
    have b2 : 2 * j + 1 + 1 - 1 = (2 * j) + 1 := by omega
    simp only [b1, b2, List.getD_cons_succ]
  rw [show ((fun j => (a :: x :: y :: r).getD (if (j == 0) = true then 2 * (h + 1) + 2 - 1 else 2 * j - 1) 0 ==
      (a :: x :: y :: r).getD (2 * j) 0) ∘ Nat.succ ∘ Nat.succ) = _ from funext frest]
  cases (x == y) <;> simp [Bool.and_comm, Bool.and_left_comm]

theorem pairedRow_eq_apL (a h : Nat) (r : List Nat) (hr : r.length = 2 * h + 1) :
    pairedRow (2 * (h + 1)) (a :: r) = apL a r := by
  induction h generalizing r with
  | zero =>
    match r, hr with
    | [c], _ => simp [pairedRow, apL]
  | succ h ih =>
    match r, hr with
    | x :: y :: r', hr' =>
      have hl : r'.length = 2 * h + 1 := by simp at hr'; omega
      have := pairedRow_step h a x y r'
      rw [show 2 * (h + 1 + 1) = 2 * (h + 1) + 2 by ring, this, ih r' hl, apL]


section semiring
variable [CommSemiring α]

/-- 0/1 value of a test. -/
def ind01 (b : Bool) : α := if b then 1 else 0

/-- `Σ_a w a · w' a`. -/
def dotW (n : Nat) (w w' : Nat → α) : α := ∑ a ∈ Finset.range n, w a * w' a

/-- Value of the weighted sum of the row test with first entry `a`: adjacent weights are
contracted pairwise, the last weight is evaluated at `a`. -/
def loopEval (n a : Nat) : List (Nat → α) → α
  | [] => 0
  | [wl] => wl a
  | w1 :: w2 :: r => dotW n w1 w2 * loopEval n a r

theorem sum_mul_selW (n k : Nat) (hk : k < n) (f : Nat → α) :
    ∑ a ∈ Finset.range n, f a * selW k a = f k := by
  rw [← sum_selW_mul n k hk f]
  apply Finset.sum_congr rfl; intro a _; ring

theorem wsum_apL (n a : Nat) (ha : a < n) (h : Nat) (W : List (Nat → α)) (hW : W.length = 2 * h + 1) :
    wsum n W (fun t => ind01 (apL a t)) = loopEval n a W := by
  induction h generalizing W with
  | zero =>
    match W, hW with
    | [wl], _ =>
      simp only [wsum, apL, loopEval]
      have : ∀ c, wl c * (ind01 (c == a) : α) = wl c * selW a c := by
        intro c; simp [ind01, selW]
      simp only [this]
      exact sum_mul_selW n a ha wl
  | succ h ih =>
    match W, hW with
    | w1 :: w2 :: r, hr =>
      have hl : r.length = 2 * h + 1 := by simp at hr; omega
      simp only [wsum, apL, loopEval, dotW]
      rw [Finset.sum_mul]
      apply Finset.sum_congr rfl
      intro x hx
      have hx' := Finset.mem_range.1 hx
      have : ∀ y, w2 y * wsum n r (fun t => (ind01 (x == y && apL a t) : α)) =
          selW x y * (w2 y * wsum n r (fun t => ind01 (apL a t))) := by
        intro y
        by_cases hxy : y = x
        · subst hxy; simp [selW]
        · have : (x == y) = false := by simpa using fun h => hxy h.symm
          simp [selW, hxy, this, ind01, wsum_zero]
      simp only [this]
      rw [sum_selW_mul n x hx', ih r hl]
      ring

/-- The weighted sum of the row test of `teneye` over all tuples. -/
theorem wsum_paired (n h : Nat) (w0 : Nat → α) (W : List (Nat → α)) (hW : W.length = 2 * h + 1) :
    wsum n (w0 :: W) (fun t => ind01 (pairedRow (2 * (h + 1)) t)) =
      ∑ a ∈ Finset.range n, w0 a * loopEval n a W := by
  simp only [wsum]
  apply Finset.sum_congr rfl
  intro a ha
  rw [← wsum_apL n a (Finset.mem_range.1 ha) h W hW]
  congr 1
  apply wsum_congr
  intro t ht
  rw [pairedRow_eq_apL a h t (by omega)]

theorem loopEval_replicate (n a h : Nat) (x : List α) :
    loopEval n a (List.replicate (2 * h + 1) (xw x)) = dotW n (xw x) (xw x) ^ h * xw x a := by
  induction h with
  | zero => simp [loopEval]
  | succ h ih =>
    rw [show 2 * (h + 1) + 1 = (2 * h + 1) + 1 + 1 by ring, List.replicate_succ, List.replicate_succ, loopEval, ih]
    ring

theorem dotW_selW_left (n k : Nat) (hk : k < n) (w : Nat → α) : dotW n (selW k) w = w k :=
  sum_selW_mul n k hk w

theorem dotW_selW_right (n k : Nat) (hk : k < n) (w : Nat → α) : dotW n w (selW k) = w k :=
  sum_mul_selW n k hk w

theorem mem_insertAll_cons2 {β : Type} (d y1 y2 : β) (R W : List β) :
    W ∈ insertAll d (y1 :: y2 :: R) ↔
      W = d :: y1 :: y2 :: R ∨ W = y1 :: d :: y2 :: R ∨ ∃ W'' ∈ insertAll d R, W = y1 :: y2 :: W'' := by
  simp only [insertAll, List.mem_cons, List.mem_map, List.map_cons, List.map_map]
  constructor
  · rintro (h | h | ⟨V, hV, rfl⟩)
    · exact Or.inl h
    · exact Or.inr (Or.inl h)
    · exact Or.inr (Or.inr ⟨V, hV, rfl⟩)
  · rintro (h | h | ⟨V, hV, rfl⟩)
    · exact Or.inl h
    · exact Or.inr (Or.inl h)
    · exact Or.inr (Or.inr ⟨V, hV, rfl⟩)

theorem length_of_mem_insertAll {β : Type} (a : β) (l W : List β) (h : W ∈ insertAll a l) :
    W.length = l.length + 1 := by
  induction l generalizing W with
  | nil => simp [insertAll] at h; simp [h]
  | cons b l ih =>
    simp only [insertAll, List.mem_cons, List.mem_map] at h
    rcases h with rfl | ⟨V, hV, rfl⟩
    · simp
    · simp [ih V hV]

theorem loopEval_insert (n k : Nat) (hk : k < n) (x : List α) (h : Nat) :
    ∀ W ∈ insertAll (selW k) (List.replicate (2 * h) (xw x)),
      ∑ a ∈ Finset.range n, xw x a * loopEval n a W = xw x k * dotW n (xw x) (xw x) ^ h := by
  induction h with
  | zero =>
    intro W hW
    simp only [Nat.mul_zero, List.replicate_zero, insertAll, List.mem_singleton] at hW
    subst hW
    simp only [loopEval, pow_zero, mul_one]
    exact sum_mul_selW n k hk (xw x)
  | succ h ih =>
    intro W hW
    rw [show 2 * (h + 1) = 2 * h + 1 + 1 by ring, List.replicate_succ, List.replicate_succ,
      mem_insertAll_cons2] at hW
    have hrep : xw x :: List.replicate (2 * h) (xw x) = List.replicate (2 * h + 1) (xw x) :=
      List.replicate_succ.symm
    have hsum : ∑ a ∈ Finset.range n, xw x a * (dotW n (xw x) (xw x) ^ h * xw x a) =
        dotW n (xw x) (xw x) ^ (h + 1) := by
      rw [pow_succ]
      simp only [dotW, Finset.mul_sum]
      apply Finset.sum_congr rfl; intro a _; ring
    rcases hW with rfl | rfl | ⟨W', hW', rfl⟩
    · simp only [loopEval, dotW_selW_left n k hk, hrep, loopEval_replicate]
      rw [← hsum, Finset.mul_sum]
      apply Finset.sum_congr rfl; intro a _; ring
    · simp only [loopEval, dotW_selW_right n k hk, hrep, loopEval_replicate]
      rw [← hsum, Finset.mul_sum]
      apply Finset.sum_congr rfl; intro a _; ring
    · simp only [loopEval]
      have := ih W' hW'
      rw [pow_succ, ← mul_assoc, ← this, Finset.sum_mul]
      apply Finset.sum_congr rfl; intro a _; ring

theorem length_insertAll {β : Type} (a : β) (l : List β) : (insertAll a l).length = l.length + 1 := by
  induction l with
  | nil => rfl
  | cons b l ih => simp [insertAll, ih]

/-- The counting lemma: weighting one position (any position) of the row test with the
selector of `k` and all other positions with `x` gives `x[k] · (x·x)^h`; summed over the
`2h+2` positions. -/
theorem wsum_paired_insert (n k : Nat) (hk : k < n) (x : List α) (h : Nat) :
    ((insertAll (selW k) (List.replicate (2 * h + 1) (xw x))).map fun W =>
      wsum n W (fun t => (ind01 (pairedRow (2 * (h + 1)) t) : α))).sum =
      (2 * h + 2) • (xw x k * dotW n (xw x) (xw x) ^ h) := by
  rw [List.replicate_succ, insertAll, List.map_cons, List.sum_cons, List.map_map]
  have h0 : wsum n (selW k :: xw x :: List.replicate (2 * h) (xw x))
      (fun t => (ind01 (pairedRow (2 * (h + 1)) t) : α)) = xw x k * dotW n (xw x) (xw x) ^ h := by
    rw [← List.replicate_succ, wsum_paired n h _ _ (by simp), sum_selW_mul n k hk, loopEval_replicate]
    ring
  have h1 : ∀ W' ∈ insertAll (selW k) (List.replicate (2 * h) (xw x)),
      ((fun W => wsum n W (fun t => (ind01 (pairedRow (2 * (h + 1)) t) : α))) ∘ fun W => xw x :: W) W' =
        xw x k * dotW n (xw x) (xw x) ^ h := by
    intro W' hW'
    have hl : W'.length = 2 * h + 1 := by
      rw [length_of_mem_insertAll _ _ _ hW', List.length_replicate]
    simp only [Function.comp]
    rw [wsum_paired n h _ _ hl]
    exact loopEval_insert n k hk x h W' hW'
  rw [h0, List.map_congr_left h1, List.map_const', List.sum_replicate, length_insertAll, List.length_replicate]
  simp only [add_smul, one_smul]
  abel

end semiring


theorem fact_pos (m : Nat) : 0 < fact m := by
  induction m with
  | zero => simp [fact]
  | succ m ih => simp only [fact]; exact Nat.mul_pos (Nat.succ_pos m) ih

section semiring
variable [CommSemiring α]

theorem xprod_perm (x : List α) {u v : List Nat} (h : u.Perm v) : xprod x u = xprod x v :=
  (h.map _).prod_eq

theorem cast_filter_length {β : Type} (l : List β) (p : β → Bool) :
    ((l.filter p).length : α) = (l.map fun t => (ind01 (p t) : α)).sum := by
  induction l with
  | nil => simp
  | cons b l ih =>
    by_cases hb : p b = true
    · simp [List.filter_cons, hb, ind01, ih, add_comm]
    · have : p b = false := by simpa using hb
      simp [List.filter_cons, this, ind01, ih]

theorem list_sum_mul_right {β : Type} (l : List β) (f : β → α) (c : α) :
    (l.map f).sum * c = (l.map fun b => f b * c).sum := by
  induction l with
  | nil => simp
  | cons b l ih => simp [add_mul, ih]

theorem list_sum_congr {β : Type} (l : List β) (f g : β → α) (h : ∀ b ∈ l, f b = g b) :
    (l.map f).sum = (l.map g).sum := by
  rw [List.map_congr_left h]

/-- `pairCount · xprod` summed over all tuples with first entry `k`. -/
theorem tsum_pairCount (n k h : Nat) (hk : k < n) (x : List α) :
    tsum n (2 * h + 1) (fun u => (pairCount (2 * (h + 1)) (k :: u) : α) * xprod x u) =
      (fact (2 * h + 1)) • ((2 * h + 2) • (xw x k * dotW n (xw x) (xw x) ^ h)) := by
  have h1 : ∀ u : List Nat, (pairCount (2 * (h + 1)) (k :: u) : α) * xprod x u =
      ((perms u).map fun ρ => ((insertAll k ρ).map fun τ => (ind01 (pairedRow (2 * (h + 1)) τ) : α)).sum * xprod x ρ).sum := by
    intro u
    unfold pairCount
    rw [cast_filter_length, perms, list_sum_flatMap, list_sum_mul_right]
    apply list_sum_congr
    intro ρ hρ
    rw [xprod_perm x (mem_perms.1 hρ)]
  simp only [h1]
  rw [tsum_perms, tsum_insertAll_fixed n (2 * h + 1) k hk, wsum_paired_insert n k hk]

end semiring

/-- The identity action: for every even order `m = 2(h+1)` and every size `n`,
`ttsv(teneye(m, n), x, skip first mode) = (x·x)^(m/2-1) · x`. -/
theorem teneye_identity [Field α] [CharZero α] (h n : Nat) (x : List α) (hx : x.length = n) :
    ∃ E y, Dense.teneye (2 * (h + 1)) n = .ok E ∧ E.ttsvFirst x = .ok y ∧ y.length = n ∧
      ∀ k < n, y.getD k 0 = dotW n (xw x) (xw x) ^ h * xw x k := by
  obtain ⟨E, hE, hs, hw, hg⟩ := teneye_entry (α := α) (2 * (h + 1)) n (by omega) (by omega)
  obtain ⟨y, hy, hl, hv⟩ := ttsvFirst_spec E x (2 * (h + 1)) n (by omega) hs hw hx
  refine ⟨E, y, hE, hy, hl, ?_⟩
  intro k hk
  rw [hv k hk]
  have hm1 : 2 * (h + 1) - 1 = 2 * h + 1 := by omega
  rw [hm1]
  have hcongr : tsum n (2 * h + 1) (fun u => E.get (k :: u) * xprod x u) =
      tsum n (2 * h + 1) (fun u => (1 / (fact (2 * (h + 1)) : α)) *
        ((pairCount (2 * (h + 1)) (k :: u) : α) * xprod x u)) := by
    apply tsum_congr
    intro u hu hb
    rw [hg (k :: u)]
    · ring
    · rw [inBounds_replicate_iff]
      refine ⟨by simp [hu]; omega, ?_⟩
      intro z hz
      rcases List.mem_cons.1 hz with rfl | hz
      · exact hk
      · exact hb z hz
  rw [hcongr, tsum_mul_left, tsum_pairCount n k h hk x]
  have hf : (fact (2 * (h + 1)) : α) = ((2 * h + 2 : Nat) : α) * (fact (2 * h + 1) : α) := by
    rw [show 2 * (h + 1) = (2 * h + 1) + 1 by ring, fact]
    push_cast; ring
  have hne1 : (fact (2 * h + 1) : α) ≠ 0 := Nat.cast_ne_zero.2 (Nat.ne_of_gt (fact_pos _))
  have hne2 : ((2 * h + 2 : Nat) : α) ≠ 0 := Nat.cast_ne_zero.2 (by omega)
  rw [hf, nsmul_eq_mul, nsmul_eq_mul]
  field_simp


end Pyttb
