/-
The identity action of `teneye` under `ttsv` (property C20): semantics of the `ttsv` loop as a
sum over index tuples, and the counting argument over pairings.
-/
import PyttbModel.Lemmas.Teneye
import Mathlib.Algebra.BigOperators.Group.Finset.Basic
import Mathlib.Algebra.BigOperators.Ring.Finset
import Mathlib.Algebra.Field.Defs
import Mathlib.Tactic.Ring
import Mathlib.Tactic.Abel
import Mathlib.Algebra.BigOperators.GroupWithZero.Action
import Mathlib.Algebra.BigOperators.Group.Finset.Sigma
namespace Pyttb
variable {α : Type}

open Finset in
/-- Sum of `g` over all tuples of length `L` with entries below `n` (first entry outermost). -/
def tsum [AddCommMonoid α] (n : Nat) : Nat → (List Nat → α) → α
  | 0, g => g []
  | L + 1, g => ∑ a ∈ Finset.range n, tsum n L (fun t => g (a :: t))

/-- `∏ x[u_l]` over the entries of the tuple `u`. -/
def xprod [Mul α] [One α] [Zero α] (x : List α) (u : List Nat) : α := (u.map fun c => x.getD c 0).prod

theorem list_sum_range [AddCommMonoid α] (n : Nat) (f : Nat → α) :
    ((List.range n).map f).sum = ∑ c ∈ Finset.range n, f c := by
  induction n with
  | zero => simp
  | succ n ih => simp [List.range_succ, Finset.sum_range_succ, ih]

section semiring
variable [CommSemiring α]

theorem tsum_mul_right (n L : Nat) (g : List Nat → α) (a : α) :
    tsum n L (fun t => g t * a) = tsum n L g * a := by
  induction L generalizing g with
  | zero => rfl
  | succ L ih => simp only [tsum, ih, Finset.sum_mul]

theorem tsum_congr (n L : Nat) (g g' : List Nat → α)
    (h : ∀ t, t.length = L → (∀ c ∈ t, c < n) → g t = g' t) : tsum n L g = tsum n L g' := by
  induction L generalizing g g' with
  | zero => exact h [] rfl (by simp)
  | succ L ih =>
    simp only [tsum]
    apply Finset.sum_congr rfl
    intro a ha
    apply ih
    intro t ht hb
    apply h
    · simp [ht]
    · intro c hc
      rcases List.mem_cons.1 hc with rfl | hc
      · exact Finset.mem_range.1 ha
      · exact hb c hc

theorem sub2ind_snoc (s t : List Nat) (a c : Nat) (h : t.length = s.length) :
    sub2ind (s ++ [a]) (t ++ [c]) = sub2ind s t + numel s * c := by
  induction s generalizing t with
  | nil =>
    have : t = [] := List.length_eq_zero_iff.1 h
    subst this; simp [sub2ind]
  | cons b s ih =>
    cases t with
    | nil => simp at h
    | cons d t =>
      simp only [List.cons_append, sub2ind, numel_cons]
      rw [ih t (by simpa using h)]
      ring

theorem numel_replicate (L n : Nat) : numel (List.replicate L n) = n ^ L := by
  induction L with
  | zero => rfl
  | succ L ih => simp [List.replicate_succ, ih, Nat.pow_succ, Nat.mul_comm]

/-- What the `ttsv` loop has computed after multiplying out the last `j` modes. -/
def ttsvPartial (T : Dense α) (x : List α) (n j : Nat) (t : List Nat) : α :=
  tsum n j (fun u => T.get (t ++ u) * xprod x u)

theorem contractLast_spec (d n j : Nat) (T : Dense α) (x : List α) (y : List α) (hj : j + 1 < d + 1)
    (hy : ∀ t, InBounds (List.replicate (d - j) n) t →
      y.getD (sub2ind (List.replicate (d - j) n) t) 0 = ttsvPartial T x n j t)
    (t : List Nat) (ht : InBounds (List.replicate (d - (j + 1)) n) t) :
    (contractLast y (n ^ (d - 1 - j)) n x).getD (sub2ind (List.replicate (d - (j + 1)) n) t) 0 =
      ttsvPartial T x n (j + 1) t := by
  have hd : d - j = (d - (j + 1)) + 1 := by omega
  have hrows : n ^ (d - 1 - j) = numel (List.replicate (d - (j + 1)) n) := by
    rw [numel_replicate]; congr 1; omega
  obtain ⟨hl, hb⟩ := (inBounds_replicate_iff _ _ _).1 ht
  have hlt : sub2ind (List.replicate (d - (j + 1)) n) t < n ^ (d - 1 - j) := by
    rw [hrows]; exact sub2ind_lt ht
  unfold contractLast
  rw [List.getD_eq_getElem?_getD, List.getElem?_map, List.getElem?_range hlt]
  simp only [Option.map_some, Option.getD_some]
  rw [list_sum_range]
  unfold ttsvPartial
  simp only [tsum]
  apply Finset.sum_congr rfl
  intro c hc
  have hc' := Finset.mem_range.1 hc
  have htc : InBounds (List.replicate (d - j) n) (t ++ [c]) := by
    rw [inBounds_replicate_iff]
    refine ⟨by simp [hl]; omega, ?_⟩
    intro z hz
    rcases List.mem_append.1 hz with hz | hz
    · exact hb z hz
    · simp at hz; omega
  have := hy (t ++ [c]) htc
  rw [hd, List.replicate_succ', sub2ind_snoc _ _ _ _ (by simp [hl]), ← hrows] at this
  rw [this]
  unfold ttsvPartial
  rw [← tsum_mul_right]
  apply tsum_congr
  intro u _ _
  simp only [xprod, List.map_cons, List.prod_cons, List.append_assoc, List.singleton_append]
  ring

/-- `ttsv(T, x, skip_dim=0)` on an order-`d` tensor with all extents `n`: entry `k` of the
result is `Σ_u T[k, u₁, …, u_{d-1}] · x[u₁] ⋯ x[u_{d-1}]`. -/
theorem ttsvFirst_spec (T : Dense α) (x : List α) (d n : Nat) (hd : 0 < d) (hs : T.shape = List.replicate d n)
    (hT : T.WF) (hx : x.length = n) :
    ∃ y, T.ttsvFirst x = .ok y ∧ y.length = n ∧
      ∀ k < n, y.getD k 0 = tsum n (d - 1) (fun u => T.get (k :: u) * xprod x u) := by
  have hlen : T.data.length = n ^ d := by rw [hT, hs, numel_replicate]
  have hstep : ∀ j, j < d →
      let y := (List.range j).foldl (fun y k => contractLast y (n ^ (d - 1 - k)) n x) T.data
      y.length = n ^ (d - j) ∧ ∀ t, InBounds (List.replicate (d - j) n) t →
        y.getD (sub2ind (List.replicate (d - j) n) t) 0 = ttsvPartial T x n j t := by
    intro j
    induction j with
    | zero =>
      intro _
      refine ⟨by simpa using hlen, ?_⟩
      intro t ht
      simp only [List.range_zero, List.foldl_nil, ttsvPartial, tsum, List.append_nil, xprod, List.map_nil,
        List.prod_nil, mul_one, Nat.sub_zero]
      rw [← hs]; rfl
    | succ j ih =>
      intro hj
      obtain ⟨h1, h2⟩ := ih (by omega)
      simp only [List.range_succ, List.foldl_append, List.foldl_cons, List.foldl_nil]
      refine ⟨?_, ?_⟩
      · simp only [contractLast, List.length_map, List.length_range]
        congr 1; omega
      · intro t ht
        exact contractLast_spec d n j T x _ (by omega) h2 t ht
  obtain ⟨h1, h2⟩ := hstep (d - 1) (by omega)
  have hd1 : d - (d - 1) = 1 := by omega
  refine ⟨(List.range (d - 1)).foldl (fun y k => contractLast y (n ^ (d - 1 - k)) n x) T.data, ?_, ?_, ?_⟩
  · unfold Dense.ttsvFirst
    have c1 : (d == 0) = false := by simpa using Nat.ne_of_gt hd
    have c2 : T.shape.any (· != n) = false := by
      rw [hs, List.any_eq_false]
      intro z hz
      have : z = n := List.eq_of_mem_replicate hz
      subst this
      simp
    have c3 : T.shape.headD 0 = n := by
      rw [hs]; cases d with
      | zero => omega
      | succ d => simp [List.replicate_succ]
    have c4 : T.shape.length = d := by rw [hs]; simp
    simp only [c3, c4, c1, c2, hx, hlen, bne_self_eq_false, Bool.or_self, Bool.false_eq_true, if_false]
  · simpa [hd1] using h1
  · intro k hk
    have := h2 [k] (by rw [hd1]; simp [InBounds, hk])
    rw [hd1] at this
    simp only [List.replicate_one, sub2ind, Nat.mul_zero, Nat.add_zero] at this
    simpa [ttsvPartial] using this

end semiring
section semiring
variable [CommSemiring α]

theorem tsum_add (n L : Nat) (f g : List Nat → α) :
    tsum n L (fun t => f t + g t) = tsum n L f + tsum n L g := by
  induction L generalizing f g with
  | zero => rfl
  | succ L ih => simp only [tsum, ih, Finset.sum_add_distrib]

theorem tsum_zero (n L : Nat) : tsum n L (fun _ => (0 : α)) = 0 := by
  induction L with
  | zero => rfl
  | succ L ih => simp only [tsum, ih, Finset.sum_const_zero]

theorem tsum_mul_left (n L : Nat) (g : List Nat → α) (a : α) :
    tsum n L (fun t => a * g t) = a * tsum n L g := by
  induction L generalizing g with
  | zero => rfl
  | succ L ih => simp only [tsum, ih, Finset.mul_sum]

theorem tsum_nsmul (n L : Nat) (g : List Nat → α) (c : Nat) :
    tsum n L (fun t => c • g t) = c • tsum n L g := by
  induction L generalizing g with
  | zero => rfl
  | succ L ih => simp only [tsum, ih, Finset.smul_sum]

/-- Sum over a list of functions commutes with the tuple sum. -/
theorem tsum_list_sum {β : Type} (n L : Nat) (l : List β) (f : β → List Nat → α) :
    tsum n L (fun t => (l.map fun b => f b t).sum) = (l.map fun b => tsum n L (f b)).sum := by
  induction l with
  | nil => simp [tsum_zero]
  | cons b l ih => simp only [List.map_cons, List.sum_cons, tsum_add, ih]

/-- Inserting a summed-over entry at every position of every `L`-tuple enumerates every
`(L+1)`-tuple `L+1` times. -/
theorem tsum_insertAll (n L : Nat) (G : List Nat → α) :
    ∑ a ∈ Finset.range n, tsum n L (fun σ => ((insertAll a σ).map G).sum) = (L + 1) • tsum n (L + 1) G := by
  induction L generalizing G with
  | zero => simp [tsum, insertAll]
  | succ L ih =>
    have h1 : ∀ a, tsum n (L + 1) (fun σ => ((insertAll a σ).map G).sum) =
        ∑ y ∈ Finset.range n, (tsum n L (fun ys => G (a :: y :: ys)) +
          tsum n L (fun ys => ((insertAll a ys).map (fun ρ => G (y :: ρ))).sum)) := by
      intro a
      simp only [tsum, insertAll, List.map_cons, List.sum_cons, List.map_map, tsum_add]
      rfl
    simp only [h1, Finset.sum_add_distrib]
    rw [Finset.sum_comm (f := fun a y => tsum n L (fun ys => ((insertAll a ys).map (fun ρ => G (y :: ρ))).sum))]
    simp only [ih]
    rw [← Finset.smul_sum]
    have h2 : ∑ a ∈ Finset.range n, ∑ y ∈ Finset.range n, tsum n L (fun ys => G (a :: y :: ys)) = tsum n (L + 2) G := rfl
    have h3 : ∑ y ∈ Finset.range n, tsum n (L + 1) (fun ρ => G (y :: ρ)) = tsum n (L + 2) G := rfl
    rw [h2, h3]
    simp only [add_smul, one_smul]
    abel

theorem list_sum_flatMap {β γ : Type} (l : List β) (f : β → List γ) (g : γ → α) :
    ((l.flatMap f).map g).sum = (l.map fun b => ((f b).map g).sum).sum := by
  induction l with
  | nil => rfl
  | cons b l ih => simp [List.flatMap_cons, ih]

/-- Summing over all rearrangements of every `L`-tuple enumerates every `L`-tuple `L!` times. -/
theorem tsum_perms (n L : Nat) (G : List Nat → α) :
    tsum n L (fun u => ((perms u).map G).sum) = (fact L) • tsum n L G := by
  induction L generalizing G with
  | zero => simp [tsum, perms, fact]
  | succ L ih =>
    have h1 : ∀ a, tsum n L (fun t => ((perms (a :: t)).map G).sum) =
        fact L • tsum n L (fun σ => ((insertAll a σ).map G).sum) := by
      intro a
      simp only [perms, list_sum_flatMap]
      exact ih (fun σ => ((insertAll a σ).map G).sum)
    simp only [tsum, h1]
    rw [← Finset.smul_sum, tsum_insertAll, smul_smul, fact]
    congr 1
    ring

end semiring

section semiring
variable [CommSemiring α]

/-- Tuple sum with one weight function per position. -/
def wsum (n : Nat) : List (Nat → α) → (List Nat → α) → α
  | [], F => F []
  | w :: ws, F => ∑ a ∈ Finset.range n, w a * wsum n ws (fun t => F (a :: t))

theorem wsum_congr (n : Nat) (W : List (Nat → α)) (F F' : List Nat → α)
    (h : ∀ t, t.length = W.length → F t = F' t) : wsum n W F = wsum n W F' := by
  induction W generalizing F F' with
  | nil => exact h [] rfl
  | cons w W ih =>
    simp only [wsum]
    apply Finset.sum_congr rfl
    intro a _
    rw [ih _ (fun t => F' (a :: t)) (fun t ht => h (a :: t) (by simp [ht]))]

theorem wsum_zero (n : Nat) (W : List (Nat → α)) : wsum n W (fun _ => 0) = 0 := by
  induction W with
  | nil => rfl
  | cons w W ih => simp [wsum, ih]

theorem wsum_mul_left (n : Nat) (W : List (Nat → α)) (F : List Nat → α) (c : α) :
    wsum n W (fun t => c * F t) = c * wsum n W F := by
  induction W generalizing F with
  | nil => rfl
  | cons w W ih =>
    simp only [wsum, ih, Finset.mul_sum]
    apply Finset.sum_congr rfl; intro a _; ring

/-- The weight `x[·]`. -/
def xw [Zero α] (x : List α) : Nat → α := fun c => x.getD c 0

/-- The weight that selects the index `k`. -/
def delta [Zero α] [One α] (k : Nat) : Nat → α := fun a => if a = k then 1 else 0

theorem wsum_replicate (n L : Nat) (x : List α) (G : List Nat → α) :
    wsum n (List.replicate L (xw x)) G = tsum n L (fun u => G u * xprod x u) := by
  induction L generalizing G with
  | zero => simp [wsum, tsum, xprod]
  | succ L ih =>
    simp only [List.replicate_succ, wsum, tsum, ih]
    apply Finset.sum_congr rfl
    intro a _
    rw [← tsum_mul_left]
    apply tsum_congr
    intro t _ _
    simp only [xprod, List.map_cons, List.prod_cons, xw]
    ring

theorem sum_delta_mul (n k : Nat) (hk : k < n) (f : Nat → α) :
    ∑ a ∈ Finset.range n, delta k a * f a = f k := by
  rw [Finset.sum_eq_single k]
  · simp [delta]
  · intro b _ hb; simp [delta, hb]
  · intro h; exact absurd (Finset.mem_range.2 hk) h

/-- Fixing one entry to `k` at every position of every `L`-tuple: the same as giving one
position the selecting weight. -/
theorem tsum_insertAll_fixed (n L k : Nat) (hk : k < n) (x : List α) (F : List Nat → α) :
    tsum n L (fun ρ => ((insertAll k ρ).map F).sum * xprod x ρ) =
      ((insertAll (delta k) (List.replicate L (xw x))).map fun W => wsum n W F).sum := by
  induction L generalizing F with
  | zero => simp [tsum, insertAll, wsum, xprod, sum_delta_mul n k hk]
  | succ L ih =>
    simp only [List.replicate_succ, insertAll, List.map_cons, List.sum_cons, List.map_map]
    have h1 : wsum n (delta k :: xw x :: List.replicate L (xw x)) F =
        ∑ y ∈ Finset.range n, xw x y * tsum n L (fun ys => F (k :: y :: ys) * xprod x ys) := by
      simp only [wsum]
      rw [sum_delta_mul n k hk]
      apply Finset.sum_congr rfl; intro y _
      rw [wsum_replicate]
    have h2 : ((insertAll (delta k) (List.replicate L (xw x))).map
          ((fun W => wsum n W F) ∘ fun W => xw x :: W)).sum =
        ∑ y ∈ Finset.range n, xw x y *
          tsum n L (fun ys => ((insertAll k ys).map (fun τ => F (y :: τ))).sum * xprod x ys) := by
      simp only [Function.comp_def, wsum]
      have : ∀ y, tsum n L (fun ys => ((insertAll k ys).map (fun τ => F (y :: τ))).sum * xprod x ys) =
          ((insertAll (delta k) (List.replicate L (xw x))).map fun W => wsum n W (fun τ => F (y :: τ))).sum :=
        fun y => ih (fun τ => F (y :: τ))
      simp only [this]
      -- exchange the two finite sums
      induction (insertAll (delta k) (List.replicate L (xw x))) with
      | nil => simp
      | cons W Ws ihW =>
        simp only [List.map_cons, List.sum_cons, ihW]
        rw [← Finset.sum_add_distrib]
        apply Finset.sum_congr rfl; intro y _; ring
    rw [h1, h2, ← Finset.sum_add_distrib]
    simp only [tsum]
    apply Finset.sum_congr rfl
    intro y _
    rw [← mul_add, ← tsum_add, ← tsum_mul_left]
    apply tsum_congr
    intro ys _ _
    simp only [xprod, List.map_cons, List.prod_cons, List.map_map, Function.comp_def, xw, insertAll,
      List.sum_cons]
    ring

end semiring

end Pyttb
