import PyttbModel.Core.Rows
import PyttbModel.Core.Dims
import PyttbModel.Core.Arr
import PyttbModel.Lemmas.Idx
import Mathlib.Algebra.Ring.Defs
import Mathlib.Algebra.BigOperators.Group.List.Basic
/-!
Lemmas about `kr2` and `khatrirao` (column-wise Kronecker product).
-/
namespace Pyttb

section kr2
variable {α : Type} [Mul α]

theorem kr2_nil (M : Mat α) : kr2 ([] : Mat α) M = [] := rfl

theorem kr2_cons (p : List α) (P M : Mat α) :
    kr2 (p :: P) M = M.map (fun mrow => List.zipWith (· * ·) mrow p) ++ kr2 P M := by
  simp [kr2]

theorem length_kr2 (P M : Mat α) : (kr2 P M).length = P.length * M.length := by
  induction P with
  | nil => simp [kr2_nil]
  | cons p P ih => rw [kr2_cons, List.length_append, List.length_map, ih, List.length_cons, Nat.succ_mul]; omega

theorem kr2_getElem? (P M : Mat α) (a b : Nat) (ha : a < P.length) (hb : b < M.length) :
    (kr2 P M)[a * M.length + b]? = some (List.zipWith (· * ·) (M[b]) (P[a])) := by
  induction P generalizing a with
  | nil => simp at ha
  | cons p P ih =>
    rw [kr2_cons]
    cases a with
    | zero =>
      rw [Nat.zero_mul, Nat.zero_add, List.getElem?_append_left (by simpa using hb)]
      simp [List.getElem?_eq_getElem hb]
    | succ a =>
      have ha' : a < P.length := by simpa using ha
      rw [List.getElem?_append_right (by rw [List.length_map, Nat.succ_mul]; omega)]
      have e : (a + 1) * M.length + b - (M.map (fun mrow => List.zipWith (· * ·) mrow p)).length
          = a * M.length + b := by
        rw [List.length_map, Nat.succ_mul]; omega
      rw [e, ih a ha']
      simp

theorem kr2_rows (P M : Mat α) (R : Nat) (hP : ∀ row ∈ P, row.length = R) (hM : ∀ row ∈ M, row.length = R) :
    ∀ row ∈ kr2 P M, row.length = R := by
  intro row hrow
  unfold kr2 at hrow
  simp only [List.mem_flatMap, List.mem_map] at hrow
  obtain ⟨p, hp, m, hm, rfl⟩ := hrow
  rw [List.length_zipWith, hP p hp, hM m hm, Nat.min_self]

theorem kr2_entry [Zero α] (P M : Mat α) (R a b r : Nat)
    (hP : ∀ row ∈ P, row.length = R) (hM : ∀ row ∈ M, row.length = R)
    (ha : a < P.length) (hb : b < M.length) (hr : r < R) :
    (kr2 P M).length = P.length * M.length ∧
    (kr2 P M).get (a * M.length + b) r = M.get b r * P.get a r := by
  refine ⟨length_kr2 P M, ?_⟩
  unfold Mat.get
  have hPa : (P[a]).length = R := hP _ (List.getElem_mem ha)
  have hMb : (M[b]).length = R := hM _ (List.getElem_mem hb)
  simp only [List.getD_eq_getElem?_getD, kr2_getElem? P M a b ha hb, List.getElem?_eq_getElem ha,
    List.getElem?_eq_getElem hb, Option.getD_some]
  rw [List.getElem?_eq_getElem (by rw [List.length_zipWith]; omega),
    List.getElem?_eq_getElem (by omega), List.getElem?_eq_getElem (by omega)]
  simp
end kr2


theorem numel_append (s t : List Nat) : numel (s ++ t) = numel s * numel t := by
  induction s with
  | nil => simp
  | cons a s ih => simp [ih, Nat.mul_assoc]

theorem numel_reverse (s : List Nat) : numel s.reverse = numel s := by
  induction s with
  | nil => rfl
  | cons a s ih => rw [List.reverse_cons, numel_append, ih]; simp [Nat.mul_comm]

theorem sub2ind_append_singleton (s i : List Nat) (a x : Nat) (hl : i.length = s.length) :
    sub2ind (s ++ [a]) (i ++ [x]) = sub2ind s i + numel s * x := by
  induction s generalizing i with
  | nil =>
    cases i with
    | nil => simp [sub2ind]
    | cons j i => simp at hl
  | cons c s ih =>
    cases i with
    | nil => simp at hl
    | cons j i =>
      simp only [List.length_cons, Nat.add_right_cancel_iff] at hl
      simp only [List.cons_append, sub2ind, numel_cons, ih i hl, Nat.mul_add, Nat.mul_assoc]
      omega

theorem sub2ind_reverse_cons (s i : List Nat) (a x : Nat) (hl : i.length = s.length) :
    sub2ind (a :: s).reverse (x :: i).reverse = sub2ind s.reverse i.reverse + numel s * x := by
  rw [List.reverse_cons, List.reverse_cons, sub2ind_append_singleton _ _ _ _ (by simpa using hl),
    numel_reverse]

theorem foldl_kr2_entry {α : Type} [CommSemiring α] (rest : List (Mat α)) (P : Mat α) (R : Nat)
    (i : List Nat) (a r : Nat)
    (hP : ∀ row ∈ P, row.length = R) (hrest : ∀ M ∈ rest, ∀ row ∈ M, row.length = R) (hr : r < R)
    (ha : a < P.length) (hi : InBounds (rest.map List.length) i) :
    (rest.foldl kr2 P).length = P.length * numel (rest.map List.length) ∧
    (rest.foldl kr2 P).get
        (sub2ind (rest.map List.length).reverse i.reverse + numel (rest.map List.length) * a) r =
      P.get a r * (List.zipWith (fun M ik => M.get ik r) rest i).prod := by
  induction rest generalizing P i a with
  | nil =>
    cases i with
    | nil => simp [sub2ind]
    | cons j i => simp [InBounds] at hi
  | cons M rest ih =>
    cases i with
    | nil => simp [InBounds] at hi
    | cons b i =>
      simp only [List.map_cons, InBounds] at hi
      obtain ⟨hb, hi'⟩ := hi
      have hM := hrest M List.mem_cons_self
      have hrest' : ∀ M ∈ rest, ∀ row ∈ M, row.length = R := fun M' h => hrest M' (List.mem_cons_of_mem _ h)
      obtain ⟨hlen, hent⟩ := kr2_entry P M R a b r hP hM ha hb hr
      have ha' : a * M.length + b < (kr2 P M).length := by
        rw [hlen]
        calc a * M.length + b < a * M.length + M.length := by omega
          _ = (a + 1) * M.length := by rw [Nat.succ_mul]
          _ ≤ P.length * M.length := Nat.mul_le_mul_right _ ha
      obtain ⟨h1, h2⟩ := ih (kr2 P M) i (a * M.length + b) (kr2_rows P M R hP hM) hrest' ha' hi'
      simp only [List.foldl_cons, List.map_cons, numel_cons, List.zipWith_cons_cons, List.prod_cons]
      refine ⟨by rw [h1, hlen, Nat.mul_assoc], ?_⟩
      rw [sub2ind_reverse_cons _ _ _ _ (by simpa using hi'.length_eq)]
      have e : sub2ind (rest.map List.length).reverse i.reverse + numel (rest.map List.length) * b +
            M.length * numel (rest.map List.length) * a
          = sub2ind (rest.map List.length).reverse i.reverse +
            numel (rest.map List.length) * (a * M.length + b) := by
        rw [Nat.mul_add, Nat.mul_comm M.length, Nat.mul_assoc, Nat.mul_comm M.length a]
        omega
      rw [e, h2, hent, mul_comm (M.get b r), mul_assoc]


theorem pos_length_of_inBounds {α : Type} (Ms : List (Mat α)) (i : List Nat)
    (hi : InBounds (Ms.map List.length) i) : ∀ M ∈ Ms, 0 < M.length := by
  induction Ms generalizing i with
  | nil => intro M hM; cases hM
  | cons M0 Ms ih =>
    cases i with
    | nil => simp [InBounds] at hi
    | cons b i =>
      simp only [List.map_cons, InBounds] at hi
      intro M hM
      rcases List.mem_cons.1 hM with rfl | h
      · omega
      · exact ih i hi.2 M h

theorem ncols_eq {α : Type} (M : Mat α) (R : Nat) (hM : ∀ row ∈ M, row.length = R) (hpos : 0 < M.length) :
    M.ncols = R := by
  unfold Mat.ncols
  rw [List.getD_eq_getElem?_getD, List.getElem?_eq_getElem hpos, Option.getD_some]
  exact hM _ (List.getElem_mem hpos)

theorem khatrirao_cons {α : Type} [Mul α] (M0 : Mat α) (rest : List (Mat α)) :
    khatrirao (M0 :: rest) false =
      if rest.all (fun M => M.ncols == M0.ncols) then .ok (rest.foldl kr2 M0) else .error .reject := rfl

theorem khatrirao_entry {α : Type} [CommSemiring α] (Ms : List (Mat α)) (R : Nat) (i : List Nat) (r : Nat)
    (hne : Ms ≠ []) (hR : ∀ M ∈ Ms, ∀ row ∈ M, row.length = R) (hr : r < R)
    (hi : InBounds (Ms.map List.length) i) :
    ∃ K, khatrirao Ms false = .ok K ∧ K.length = numel (Ms.map List.length) ∧
      K.get (sub2ind (Ms.map List.length).reverse i.reverse) r =
        (List.zipWith (fun M ik => M.get ik r) Ms i).prod := by
  cases Ms with
  | nil => exact absurd rfl hne
  | cons M0 rest =>
    cases i with
    | nil => simp [InBounds] at hi
    | cons a i =>
      have hpos := pos_length_of_inBounds _ _ hi
      simp only [List.map_cons, InBounds] at hi
      obtain ⟨ha, hi'⟩ := hi
      have hM0 := hR M0 List.mem_cons_self
      have hrest : ∀ M ∈ rest, ∀ row ∈ M, row.length = R := fun M h => hR M (List.mem_cons_of_mem _ h)
      have hall : rest.all (fun M => M.ncols == M0.ncols) = true := by
        rw [List.all_eq_true]
        intro M hM
        rw [ncols_eq M R (hrest M hM) (hpos M (List.mem_cons_of_mem _ hM)),
          ncols_eq M0 R hM0 (hpos M0 List.mem_cons_self)]
        simp
      obtain ⟨h1, h2⟩ := foldl_kr2_entry rest M0 R i a r hM0 hrest hr ha hi'
      refine ⟨rest.foldl kr2 M0, by rw [khatrirao_cons, if_pos hall], ?_, ?_⟩
      · simpa using h1
      · simp only [List.map_cons, List.zipWith_cons_cons, List.prod_cons]
        rw [sub2ind_reverse_cons _ _ _ _ (by simpa using hi'.length_eq)]
        exact h2

theorem khatrirao_rejects {α : Type} [Mul α] (M0 : Mat α) (rest : List (Mat α))
    (h : ∃ M ∈ rest, M.ncols ≠ M0.ncols) : khatrirao (M0 :: rest) false = .error .reject := by
  rw [khatrirao_cons, if_neg]
  intro hall
  rw [List.all_eq_true] at hall
  obtain ⟨M, hM, hne⟩ := h
  exact hne (by simpa using hall M hM)

/-! ### reversal (used for `khatrirao(..., reverse=True)`) -/

theorem kr_InBounds_append {s t i j : List Nat} (h1 : InBounds s i) (h2 : InBounds t j) :
    InBounds (s ++ t) (i ++ j) := by
  induction s generalizing i with
  | nil => cases i with
    | nil => simpa using h2
    | cons => simp [InBounds] at h1
  | cons a s ih => cases i with
    | nil => simp [InBounds] at h1
    | cons x i => exact ⟨h1.1, ih h1.2⟩

theorem kr_InBounds_reverse {s i : List Nat} (h : InBounds s i) : InBounds s.reverse i.reverse := by
  induction s generalizing i with
  | nil => cases i with
    | nil => simpa using h
    | cons => simp [InBounds] at h
  | cons a s ih => cases i with
    | nil => simp [InBounds] at h
    | cons x i =>
      rw [List.reverse_cons, List.reverse_cons]
      exact kr_InBounds_append (ih h.2) ⟨h.1, trivial⟩

theorem zipWith_reverse_prod {α β : Type} [CommMonoid α] (f : β → Nat → α) (Ms : List β) (i : List Nat)
    (hl : Ms.length = i.length) :
    (List.zipWith f Ms.reverse i.reverse).prod = (List.zipWith f Ms i).prod := by
  rw [← List.reverse_zipWith hl, List.prod_reverse]

end Pyttb
