/-
C02 — `ttensor.reconstruct`: the sampled factors (rows gathered by an index vector, or a mixing
matrix multiplied on) followed by `full()` is `Spec.ttm` of the Tucker tensor with selection /
mixing matrices on the sampled modes.
-/
import PyttbModel.Lemmas.MLTuckerSparseCore
namespace Pyttb
namespace MLK
open ML

variable {α : Type}

/-- Replacing the factors of the modes `sel` by `S_d · U_d` and expanding is the multi-mode product
of the Tucker tensor with the matrices `S_d`. -/
theorem tucker_refactor_full [CommSemiring α] (T : Ttensor α) (hT : TuckerWF T) (hN : 1 ≤ T.factors.length)
    (fs : List (Mat α)) (hfl : fs.length = T.factors.length)
    (sel : List Nat) (hnd : sel.Nodup) (hlt : ∀ d ∈ sel, d < T.factors.length)
    (S : Nat → Nat → Nat → α)
    (hkeep : ∀ d, d < T.factors.length → d ∉ sel → fs.getD d [] = T.factors.getD d [])
    (hcols : ∀ d ∈ sel, (fs.getD d []).ncols = T.core.shape.getD d 0)
    (hnew : ∀ d ∈ sel, ∀ a c, a < (fs.getD d []).length → c < T.core.shape.getD d 0 →
      (fs.getD d []).get a c = sumRange (T.shape.getD d 0) fun x => (T.factors.getD d []).get x c * S d a x) :
    ∃ D, Ttensor.full ⟨T.core, fs⟩ = .ok D ∧ D.shape = fs.map List.length ∧ D.WF ∧
      ∀ i, InBounds D.shape i → D.get i = Spec.ttm T.den sel S i := by
  set N := T.factors.length with hNd
  have hNc : T.core.shape.length = N := hT.len.symm
  set T' : Ttensor α := ⟨T.core, fs⟩ with hT'
  have hT'wf : TuckerWF T' := by
    refine ⟨hT.core, by show fs.length = T.core.shape.length; rw [hfl, ← hNc], ?_⟩
    intro d hd
    have hd' : d < N := by rw [← hfl]; exact hd
    by_cases hds : d ∈ sel
    · exact hcols d hds
    · show (fs.getD d []).ncols = _
      rw [hkeep d hd' hds]; exact hT.cols d hd'
  obtain ⟨D, hD, hDs, hDw, hDg⟩ := tucker_full_spec T' hT'wf (by show 1 ≤ fs.length; rw [hfl]; exact hN)
  refine ⟨D, hD, hDs, hDw, ?_⟩
  intro i hi
  rw [hDg i hi]
  rw [hDs] at hi
  set rem := complDims N sel with hrem
  have hp : isPermOf (rem ++ sel) N = true := isPermOf_compl_append N sel hnd hlt
  have hil : i.length = N := by rw [hi.length_eq]; show (fs.map List.length).length = N; simp [hfl]
  have hshape_keep : ∀ m, m < N → m ∉ sel → T'.shape.getD m 0 = T.shape.getD m 0 := by
    intro m hm hms
    rw [tshape_getD, tshape_getD]
    show (fs.getD m []).length = _
    rw [hkeep m hm hms]
  have hirem : InBounds (gather T.shape rem) (gather i rem) := by
    have h1 : gather T.shape rem = gather T'.shape rem := by
      apply gather_congr
      intro k hk
      exact (hshape_keep k (complDims_lt hk) (mem_complDims.1 hk).2).symm
    rw [h1]
    apply InBounds.gather (s := T'.shape) hi
    intro k hk
    show k < (fs.map List.length).length
    rw [List.length_map, hfl]
    exact complDims_lt hk
  have hspec := decomp_ttm T.den _ _ _ (tucker_decomp T hT) sel hnd
    (by intro d hd; show d < T.shape.length; rw [tshape_length]; exact hlt d hd) S i
    (by show InBounds (gather T.shape (complDims T.shape.length sel)) (gather i (complDims T.shape.length sel))
        rw [tshape_length]; exact hirem)
  rw [hspec]
  have hdec := tucker_decomp' T' (by show fs.length = T.core.shape.length; rw [hfl, ← hNc]) i hi
  rw [show T'.get i = T'.den.get i from rfl, hdec]
  apply sum_congr
  intro j hj
  have hjb : InBounds T.core.shape j := mem_allSubs.1 hj
  show T.core.get j * ((List.range T'.shape.length).map _).prod =
    T.core.get j * (((complDims T.shape.length sel).map _).prod * _)
  have hT'l : T'.shape.length = N := by rw [tshape_length]; exact hfl
  rw [hT'l, tshape_length, ← hNd, ← hrem, prod_range_split N rem sel hp]
  congr 2
  · congr 1
    apply List.map_congr_left
    intro d hd
    show (fs.getD d []).get _ _ = _
    rw [hkeep d (complDims_lt hd) (mem_complDims.1 hd).2]
  · congr 1
    apply List.map_congr_left
    intro d hd
    have hdN := hlt d hd
    show (fs.getD d []).get (i.getD d 0) (j.getD d 0) = _
    have hid : i.getD d 0 < (fs.getD d []).length := by
      have := InBounds.getD_lt (s := T'.shape) hi (k := d) (by rw [hT'l]; exact hdN)
      rwa [tshape_getD] at this
    have hjd : j.getD d 0 < T.core.shape.getD d 0 := hjb.getD_lt (by rw [hNc]; exact hdN)
    exact hnew d hd _ _ hid hjd


/-- A sample that `reconstruct` can use for mode `d`: a non-empty vector of row indices of the factor,
or a non-empty mixing matrix with one column per row of the factor. -/
def SampleOk (T : Ttensor α) (d : Nat) : ReconSample α → Prop
  | .idx l => l ≠ [] ∧ ∀ a ∈ l, a < (T.factors.getD d []).length
  | .mat M => 0 < M.m ∧ M.n = (T.factors.getD d []).length

/-- The selection / mixing matrix a sample stands for. -/
def sampleEntry [Zero α] [One α] : ReconSample α → Nat → Nat → α
  | .idx l, a, x => if l.getD a 0 = x then 1 else 0
  | .mat M, a, x => M.rows.get a x

theorem pick_spec {β : Type} (zs : List (β × Nat)) (hnd : (zs.map (·.2)).Nodup) :
    (∀ k, k ∉ zs.map (·.2) → (zs.reverse.find? (fun p => p.2 == k)).map (·.1) = none) ∧
    (∀ p ∈ zs, (zs.reverse.find? (fun q => q.2 == p.2)).map (·.1) = some p.1) := by
  constructor
  · intro k hk
    have : zs.reverse.find? (fun p => p.2 == k) = none := by
      rw [List.find?_eq_none]
      intro p hp hpk
      apply hk
      simp only [beq_iff_eq] at hpk
      exact List.mem_map.2 ⟨p, List.mem_reverse.1 hp, hpk⟩
    rw [this]; rfl
  · intro p hp
    cases hf : zs.reverse.find? (fun q => q.2 == p.2) with
    | none =>
      rw [List.find?_eq_none] at hf
      exact absurd (by simp) (hf p (List.mem_reverse.2 hp))
    | some q =>
      have h1 := List.find?_some hf
      have h2 := List.mem_reverse.1 (List.mem_of_find?_eq_some hf)
      simp only [beq_iff_eq] at h1
      have : q = p := List.inj_on_of_nodup_map hnd h2 hp h1
      rw [this]; rfl

/-- The factor a usable sample produces (pure form). -/
def newFac [Add α] [Mul α] [Zero α] (U : Mat α) (c : Nat) : Option (ReconSample α) → Mat α
  | none => U
  | some (.idx l) => l.map fun a => U.getD a []
  | some (.mat M) => M.rows.mulD U M.m M.n c

theorem apply_ok [Add α] [Mul α] [Zero α] (T : Ttensor α) (d : Nat) (s : ReconSample α) (h : SampleOk T d s) :
    ReconSample.apply (T.factors.getD d []) (T.core.shape.getD d 0) (some s) =
      .ok (newFac (T.factors.getD d []) (T.core.shape.getD d 0) (some s)) := by
  cases s with
  | idx l =>
    obtain ⟨h1, h2⟩ := h
    have e1 : l.isEmpty = false := by simpa using h1
    have e2 : (l.any fun x => decide (x ≥ (T.factors.getD d []).length)) = false := by
      rw [List.any_eq_false]; intro a ha; have := h2 a ha
      simp only [ge_iff_le, decide_eq_true_eq, not_le]; exact this
    simp only [ReconSample.apply, newFac, e1, e2, Bool.false_eq_true, if_false]
  | mat M =>
    obtain ⟨h1, h2⟩ := h
    have e1 : (M.m == 0) = false := by simp; omega
    have e2 : (M.n == (T.factors.getD d []).length) = true := by simp [h2]
    simp only [ReconSample.apply, newFac, e1, e2, Bool.false_eq_true, if_false, if_true]

/-- **`ttensor.reconstruct(samples, modes)`** for distinct modes with one usable sample each (index
vectors with repeats in any order, mixing matrices; modes listed in any order): the result is the
multi-mode product of the Tucker tensor with the selection / mixing matrices of the samples. -/
theorem tucker_reconstruct_spec [CommSemiring α] (T : Ttensor α) (hT : TuckerWF T) (hN : 1 ≤ T.factors.length)
    (hrect : ∀ d, d < T.factors.length → ∀ row ∈ T.factors.getD d [], row.length = T.core.shape.getD d 0)
    (ss : List (ReconSample α)) (md : List Nat) (hl : ss.length = md.length) (hnd : md.Nodup)
    (hlt : ∀ d ∈ md, d < T.factors.length) (hok : ∀ p ∈ ss.zip md, SampleOk T p.2 p.1)
    (S : Nat → Nat → Nat → α) (hS : ∀ p ∈ ss.zip md, ∀ a x, S p.2 a x = sampleEntry p.1 a x) :
    ∃ D, T.reconstruct (some ss) (some md) = .ok D ∧ D.WF ∧ D.shape.length = T.factors.length ∧
      ∀ i, InBounds D.shape i → D.get i = Spec.ttm T.den md S i := by
  set N := T.factors.length with hNd
  set zs := ss.zip md with hzs
  have hz2 : zs.map (·.2) = md := List.map_snd_zip (Nat.le_of_eq hl.symm)
  obtain ⟨pk_none, pk_some⟩ := pick_spec zs (by rw [hz2]; exact hnd)
  set newf : Nat → Mat α := fun k => newFac (T.factors.getD k []) (T.core.shape.getD k 0)
    ((zs.reverse.find? (fun p => p.2 == k)).map (·.1)) with hnewf
  have hkeep : ∀ k, k ∉ md → newf k = T.factors.getD k [] := by
    intro k hk
    simp only [hnewf]
    rw [pk_none k (by rw [hz2]; exact hk)]
    rfl
  have hnewp : ∀ p ∈ zs, newf p.2 = newFac (T.factors.getD p.2 []) (T.core.shape.getD p.2 0) (some p.1) := by
    intro p hp
    simp only [hnewf]
    rw [pk_some p hp]
  have hg1 : (decide (ss.length > 0) && (ss.length != md.length)) = false := by
    rw [hl]; simp
  have hg2 : (zs.any fun p => decide (p.2 ≥ N)) = false := by
    rw [List.any_eq_false]
    intro p hp
    have := hlt p.2 (by rw [← hz2]; exact List.mem_map_of_mem hp)
    simp; omega
  have hmapM : (List.range N).mapM (T.reconFactor zs) = .ok ((List.range N).map newf) := by
    apply mapM_ok
    intro k _
    unfold Ttensor.reconFactor
    by_cases hk : k ∈ md
    · obtain ⟨p, hp, rfl⟩ := List.mem_map.1 (hz2 ▸ hk)
      simp only [hnewf]
      rw [pk_some p hp]
      exact apply_ok T p.2 p.1 (hok p hp)
    · simp only [hnewf]
      rw [pk_none k (by rw [hz2]; exact hk)]
      rfl
  have hfl : ((List.range N).map newf).length = N := by simp
  have hget : ∀ k, k < N → ((List.range N).map newf).getD k [] = newf k := fun k hk => getD_map_range _ _ _ _ hk
  obtain ⟨D, hD, hDs, hDw, hDg⟩ := tucker_refactor_full T hT hN ((List.range N).map newf) hfl md hnd hlt S
    (by intro d hd hds; rw [hget d hd, hkeep d hds])
    (by
      intro d hd
      obtain ⟨p, hp, rfl⟩ := List.mem_map.1 (hz2 ▸ hd)
      have hpN := hlt p.2 hd
      rw [hget p.2 hpN, hnewp p hp]
      have hokp := hok p hp
      obtain ⟨s, d⟩ := p
      cases s with
      | idx l =>
        obtain ⟨h1, h2⟩ := hokp
        obtain ⟨a0, l', rfl⟩ := List.exists_cons_of_ne_nil h1
        have ha0 : a0 < (T.factors.getD d []).length := h2 a0 (List.mem_cons_self ..)
        show (((a0 :: l').map fun a => (T.factors.getD d []).getD a []).getD 0 []).length = _
        simp only [List.map_cons, List.getD_cons_zero]
        apply hrect d hpN
        have : (T.factors.getD d []).getD a0 [] = (T.factors.getD d [])[a0] := by
          rw [List.getD_eq_getElem?_getD, List.getElem?_eq_getElem ha0]; rfl
        rw [this]
        exact List.getElem_mem _
      | mat M =>
        obtain ⟨h1, _⟩ := hokp
        show ((M.rows.mulD (T.factors.getD d []) M.m M.n (T.core.shape.getD d 0)).getD 0 []).length = _
        unfold Mat.mulD
        rw [getD_map_range _ _ _ _ h1]
        simp)
    (by
      intro d hd a c ha hc
      obtain ⟨p, hp, rfl⟩ := List.mem_map.1 (hz2 ▸ hd)
      have hpN := hlt p.2 hd
      rw [hget p.2 hpN, hnewp p hp] at ha ⊢
      have hokp := hok p hp
      have hSp := hS p hp
      obtain ⟨s, d⟩ := p
      cases s with
      | idx l =>
        obtain ⟨_, h2⟩ := hokp
        have ha' : a < l.length := by simpa [newFac] using ha
        have hla : l.getD a 0 < (T.factors.getD d []).length := by
          apply h2
          rw [List.getD_eq_getElem?_getD, List.getElem?_eq_getElem ha']
          exact List.getElem_mem _
        have hlhs : Mat.get (newFac (T.factors.getD d []) (T.core.shape.getD d 0) (some (.idx l))) a c =
            (T.factors.getD d []).get (l.getD a 0) c := by
          unfold Mat.get newFac
          simp [List.getD_eq_getElem?_getD, List.getElem?_map, List.getElem?_eq_getElem ha']
        rw [hlhs]
        unfold sumRange
        have := sum_single' (List.range (T.shape.getD d 0)) List.nodup_range (l.getD a 0)
          (fun x => (T.factors.getD d []).get x c) (List.mem_range.2 (by rw [tshape_getD]; exact hla))
        rw [← this]
        apply sum_congr
        intro x _
        rw [hSp a x]
        simp only [sampleEntry]
        by_cases hx : l.getD a 0 = x
        · rw [if_pos hx, if_pos hx.symm, mul_one]
        · rw [if_neg hx, if_neg (fun h => hx h.symm), mul_zero]
      | mat M =>
        obtain ⟨_, h2⟩ := hokp
        have ham : a < M.m := by simpa [newFac, Mat.mulD] using ha
        show Mat.get (M.rows.mulD (T.factors.getD d []) M.m M.n (T.core.shape.getD d 0)) a c = _
        have h2' : M.n = (T.factors.getD d []).length := h2
        rw [mulD_get _ _ _ _ _ _ _ ham hc, h2', tshape_getD]
        apply sumRange_congr
        intro x _
        rw [hSp a x]
        simp only [sampleEntry]
        exact mul_comm _ _)
  refine ⟨D, ?_, hDw, by rw [hDs]; simp, hDg⟩
  unfold Ttensor.reconstruct
  simp only [Option.getD_some, ← hNd, ← hzs, hg1, hg2, Bool.false_eq_true, if_false, hmapM]
  exact hD

end MLK
end Pyttb
