/-
C02 — `ttensor.reconstruct`: the sampled factors (rows gathered by an index vector, or a mixing
matrix multiplied on) followed by `full()` is `Spec.ttm` of the Tucker tensor with selection /
mixing matrices on the sampled modes.
-/
import PyttbModel.Lemmas.MLTuckerSparseCore
namespace Pyttb
namespace MLK
open ML

variable {α : Type}

/-- Replacing the factors of the modes `sel` by `S_d · U_d` and expanding is the multi-mode product
of the Tucker tensor with the matrices `S_d`. -/
theorem tucker_refactor_full [CommSemiring α] (T : Ttensor α) (hT : TuckerWF T) (hN : 1 ≤ T.factors.length)
    (fs : List (Mat α)) (hfl : fs.length = T.factors.length)
    (sel : List Nat) (hnd : sel.Nodup) (hlt : ∀ d ∈ sel, d < T.factors.length)
    (S : Nat → Nat → Nat → α)
    (hkeep : ∀ d, d < T.factors.length → d ∉ sel → fs.getD d [] = T.factors.getD d [])
    (hcols : ∀ d ∈ sel, (fs.getD d []).ncols = T.core.shape.getD d 0)
    (hnew : ∀ d ∈ sel, ∀ a c, a < (fs.getD d []).length → c < T.core.shape.getD d 0 →
      (fs.getD d []).get a c = sumRange (T.shape.getD d 0) fun x => (T.factors.getD d []).get x c * S d a x) :
    ∃ D, Ttensor.full ⟨T.core, fs⟩ = .ok D ∧ D.shape = fs.map List.length ∧ D.WF ∧
      ∀ i, InBounds D.shape i → D.get i = Spec.ttm T.den sel S i := by
  set N := T.factors.length with hNd
  have hNc : T.core.shape.length = N := hT.len.symm
  set T' : Ttensor α := ⟨T.core, fs⟩ with hT'
  have hT'wf : TuckerWF T' := by
    refine ⟨hT.core, by show fs.length = T.core.shape.length; rw [hfl, ← hNc], ?_⟩
    intro d hd
    have hd' : d < N := by rw [← hfl]; exact hd
    by_cases hds : d ∈ sel
    · exact hcols d hds
    · show (fs.getD d []).ncols = _
      rw [hkeep d hd' hds]; exact hT.cols d hd'
  obtain ⟨D, hD, hDs, hDw, hDg⟩ := tucker_full_spec T' hT'wf (by show 1 ≤ fs.length; rw [hfl]; exact hN)
  refine ⟨D, hD, hDs, hDw, ?_⟩
  intro i hi
  rw [hDg i hi]
  rw [hDs] at hi
  set rem := complDims N sel with hrem
  have hp : isPermOf (rem ++ sel) N = true := isPermOf_compl_append N sel hnd hlt
  have hil : i.length = N := by rw [hi.length_eq]; show (fs.map List.length).length = N; simp [hfl]
  have hshape_keep : ∀ m, m < N → m ∉ sel → T'.shape.getD m 0 = T.shape.getD m 0 := by
    intro m hm hms
    rw [tshape_getD, tshape_getD]
    show (fs.getD m []).length = _
    rw [hkeep m hm hms]
  have hirem : InBounds (gather T.shape rem) (gather i rem) := by
    have h1 : gather T.shape rem = gather T'.shape rem := by
      apply gather_congr
      intro k hk
      exact (hshape_keep k (complDims_lt hk) (mem_complDims.1 hk).2).symm
    rw [h1]
    apply InBounds.gather (s := T'.shape) hi
    intro k hk
    show k < (fs.map List.length).length
    rw [List.length_map, hfl]
    exact complDims_lt hk
  have hspec := decomp_ttm T.den _ _ _ (tucker_decomp T hT) sel hnd
    (by intro d hd; show d < T.shape.length; rw [tshape_length]; exact hlt d hd) S i
    (by show InBounds (gather T.shape (complDims T.shape.length sel)) (gather i (complDims T.shape.length sel))
        rw [tshape_length]; exact hirem)
  rw [hspec]
  have hdec := tucker_decomp' T' (by show fs.length = T.core.shape.length; rw [hfl, ← hNc]) i hi
  rw [show T'.get i = T'.den.get i from rfl, hdec]
  apply sum_congr
  intro j hj
  have hjb : InBounds T.core.shape j := mem_allSubs.1 hj
  show T.core.get j * ((List.range T'.shape.length).map _).prod =
    T.core.get j * (((complDims T.shape.length sel).map _).prod * _)
  have hT'l : T'.shape.length = N := by rw [tshape_length]; exact hfl
  rw [hT'l, tshape_length, ← hNd, ← hrem, prod_range_split N rem sel hp]
  congr 2
  · congr 1
    apply List.map_congr_left
    intro d hd
    show (fs.getD d []).get _ _ = _
    rw [hkeep d (complDims_lt hd) (mem_complDims.1 hd).2]
  · congr 1
    apply List.map_congr_left
    intro d hd
    have hdN := hlt d hd
    show (fs.getD d []).get (i.getD d 0) (j.getD d 0) = _
    have hid : i.getD d 0 < (fs.getD d []).length := by
      have := InBounds.getD_lt (s := T'.shape) hi (k := d) (by rw [hT'l]; exact hdN)
      rwa [tshape_getD] at this
    have hjd : j.getD d 0 < T.core.shape.getD d 0 := hjb.getD_lt (by rw [hNc]; exact hdN)
    exact hnew d hd _ _ hid hjd

end MLK
end Pyttb
