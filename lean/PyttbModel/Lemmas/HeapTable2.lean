/-
C05: the entries of part 4 of the operation table (`Heap/Table2.lean`) pass the static check of
their specification, for all parameters.  Core Lean only.
-/
import PyttbModel.Lemmas.HeapCompose
import PyttbModel.Heap.Table2
namespace Pyttb.Heap
set_option linter.unusedSimpArgs false
set_option linter.unusedVariables false

macro "chk_simp2" : tactic => `(tactic|
  simp [specCheck, pureProg, freshResults, resultsWithin, writesWithin, writeRoots, roots, static,
      staticStep, rootStep, tensorCtor, copyC, tmoCopy, Nat.add_assoc, getElem?_init_lt, getElem?_init_add, getElem?_init_self,
      getElem?_initRoots, getElem_init_lt, *])

theorem chk_reads_only (p : Params) (ops : List View) :
    specCheck .pureFresh ops.length (reads_only p ops) = true := by
  unfold reads_only; chk_simp2

theorem chk_tenmat_copy (p : Params) (ops : List View) :
    specCheck .pureFresh ops.length (tenmat_copy p ops) = true := by
  unfold tenmat_copy tenmatCtor; chk_simp2

theorem flagOr_elim {flags : List String} {k : Nat} {p : Params} {b : Nat}
    (h : flagOr flags k p b = true) (hf : ∀ f ∈ flags, (p.flag == f) = false) : k ≤ b := by
  simp only [flagOr, Bool.or_eq_true, decide_eq_true_eq] at h
  rcases h with h | h
  · have := List.contains_iff_mem.mp h
    have := hf _ this
    simp at this
  · exact h

theorem chk_tenmat_init2 (p : Params) (ops : List View) (h : flagOr ["empty"] 1 p ops.length = true) :
    specCheck (noCopyIf [0] p) ops.length (tenmat_init2 p ops) = true := by
  unfold tenmat_init2 tenmatCtor noCopyIf
  cases hf : (p.flag == "empty")
  · have h0 : 0 < ops.length := flagOr_elim h (by intro f hf'; simp at hf'; subst hf'; exact hf)
    simp only [Bool.false_eq_true, if_false]
    cases hc : p.copy <;> cases h1 : ((ops.getD 0 default).shape.length == 1) <;>
      cases h2 : (ops.getD 0 default).isF <;> chk_simp2
  · simp only [if_true]; cases hc : p.copy <;> chk_simp2

theorem chk_tenmat_ctranspose (p : Params) (ops : List View) :
    specCheck .pureFresh ops.length (tenmat_ctranspose p ops) = true := by
  unfold tenmat_ctranspose tenmatCtor; (repeat' split) <;> chk_simp2

theorem chk_tenmat_double (p : Params) (ops : List View) :
    specCheck .pureFresh ops.length (tenmat_double p ops) = true := by
  unfold tenmat_double; chk_simp2

theorem chk_tenmat_arith (p : Params) (ops : List View) :
    specCheck .pureFresh ops.length (tenmat_arith p ops) = true := by
  unfold tenmat_arith tenmat_copy tenmatCtor; chk_simp2

theorem chk_tenmat_matmul (p : Params) (ops : List View) :
    specCheck .pureFresh ops.length (tenmat_matmul p ops) = true := by
  unfold tenmat_matmul tenmatCtor; (repeat' split) <;> chk_simp2

theorem chk_sptenmat_init2 (p : Params) (ops : List View) (h : flagOr ["none", "nosubs"] 2 p ops.length = true) :
    specCheck (noCopyIf [0, 1] p) ops.length (sptenmat_init2 p ops) = true := by
  unfold sptenmat_init2 sptenmatCtor noCopyIf
  cases hf : (p.flag == "none")
  · cases hg : (p.flag == "nosubs")
    · have hb : 2 ≤ ops.length := flagOr_elim h (by intro f hf'; simp at hf'; rcases hf' with rfl | rfl <;> assumption)
      have h0 : 0 < ops.length := by omega
      have h1 : 1 < ops.length := by omega
      simp only [Bool.false_eq_true, if_false]
      cases hc : p.copy <;> cases he : ((ops.getD 1 default).size == 0) <;> chk_simp2
    · simp only [Bool.false_eq_true, if_false, if_true]; cases hc : p.copy <;> chk_simp2
  · simp only [if_true]; cases hc : p.copy <;> chk_simp2

theorem chk_sptenmat_copy (p : Params) (ops : List View) :
    specCheck .pureFresh ops.length (sptenmat_copy p ops) = true := by
  unfold sptenmat_copy sptenmatCtor; (repeat' split) <;> chk_simp2

theorem chk_sptenmat_neg (p : Params) (ops : List View) :
    specCheck .pureFresh ops.length (sptenmat_neg p ops) = true := by
  unfold sptenmat_neg sptenmat_copy sptenmatCtor
  cases he : ((ops.getD 1 default).size == 0) <;> chk_simp2

theorem chk_sptenmat_from_array (p : Params) (ops : List View) :
    specCheck .pureFresh ops.length (sptenmat_from_array p ops) = true := by
  unfold sptenmat_from_array sptenmatCtor
  cases hf : (p.flag == "coo") <;> cases hk : (p.k == 0) <;> chk_simp2

theorem chk_sptenmat_to_sptensor (p : Params) (ops : List View) :
    specCheck .pureFresh ops.length (sptenmat_to_sptensor p ops) = true := by
  unfold sptenmat_to_sptensor
  split
  · chk_simp2
  · by_cases h1 : p.dims[0]?.getD 0 = 0 <;> by_cases h2 : p.dims[1]?.getD 0 = 0 <;> chk_simp2

theorem chk_sptenmat_full (p : Params) (ops : List View) :
    specCheck .pureFresh ops.length (sptenmat_full p ops) = true := by
  unfold sptenmat_full tenmatCtor; (repeat' split) <;> chk_simp2

/-! ### helpers for composite entries -/

@[simp] theorem dflt_length (k : Nat) : (dflt k).length = k := by simp [dflt]

theorem specCheck_unnamed (spec : Spec) (b : Nat) (B : Built) :
    specCheck spec b B.unnamed = specCheck spec b B := by
  simp [specCheck, Built.unnamed, List.map_map, Function.comp_def]

/-- steps that write nothing can be appended anywhere (nothing is promised about the registers
they define) -/
theorem Blk.nowrite {b : Nat} {W A : List Nat} {R0 : List Nat} (p : Prog) :
    ∀ {free : Nat}, p.all (fun s => !s.isWrite) = true → Blk b W A free R0 p [] := by
  induction p with
  | nil => intro free _; exact Blk.nil
  | cons s ss ih =>
    intro free h
    simp only [List.all_cons, Bool.and_eq_true, Bool.not_eq_true'] at h
    have h1 : Blk b W A free R0 [s] [] := Blk.view_any s h.1
    have h2 : Blk b W A (free + ndefs [s]) (R0 ++ []) ss [] := by
      simpa using ih (free := free + ndefs [s]) (by simpa using h.2)
    simpa using h1.append h2

/-- writes into good registers -/
theorem Blk.writes_good {b : Nat} {W A : List Nat} {R0 : List Nat} {free : Nat}
    (hA : ∀ k ∈ A, k ∈ W) (p : Prog)
    (h : ∀ s ∈ p, ∃ t rs, s = Step.write t rs ∧ t ∈ R0) : Blk b W A free R0 p [] := by
  induction p with
  | nil => exact Blk.nil
  | cons s ss ih =>
    obtain ⟨t, rs, rfl, ht⟩ := h s (List.mem_cons_self)
    have h1 : Blk b W A free R0 [Step.write t rs] [] := Blk.write t rs hA (Or.inl ht)
    have h2 : Blk b W A (free + ndefs [Step.write t rs]) (R0 ++ []) ss [] := by
      simpa [ndefs_cons, ndefs_nil, Step.isWrite] using ih (fun s hs => h s (List.mem_cons_of_mem _ hs))
    simpa using h1.append h2

theorem AccOK.nowrite {b : Nat} {W A0 : List Nat} {A : Acc} {G : List Nat} (h : AccOK b W A0 A G)
    (f : Nat → Prog) (hf : (f A.free).all (fun s => !s.isWrite) = true) : AccOK b W A0 (A.raw f) G := by
  have := h.raw f (R0 := []) (R1 := []) (by intro r hr; cases hr) (Blk.nowrite _ hf)
  simpa using this

theorem Acc.raw_free (A : Acc) (f : Nat → Prog) : (A.raw f).free = A.free + ndefs (f A.free) := rfl

theorem Acc.calls_free_le (l : List (Built × List Nat × String)) : ∀ (A : Acc), A.free ≤ (A.calls l).free := by
  induction l with
  | nil => intro A; exact Nat.le_refl _
  | cons t rest ih =>
    intro A
    have := ih (A.call t.1 t.2.1 t.2.2)
    simp only [Acc.calls]
    rw [Acc.call_free] at this
    omega

theorem AccOK.ktCtor {b : Nat} {W A0 : List Nat} {A : Acc} {G : List Nat} (h : AccOK b W A0 A G)
    (w : Nat) (fs : List Nat) (pre : String) (hw : w < A.free) (hfs : ∀ r ∈ fs, r < A.free) :
    AccOK b W A0 (A.ktCtor w fs pre) G := by
  unfold Acc.ktCtor
  refine (h.call _ (w :: fs) pre true ?_ ?_).mono (fun r hr => List.mem_append_left _ hr)
  · have := chk_ktensor_copy { n := fs.length } (dflt (fs.length + 1))
    simpa using this
  · intro a ha
    rcases List.mem_cons.mp ha with rfl | ha
    · exact hw
    · exact hfs a ha

theorem chk_tmoCopyB : specCheck .pureFresh 1 tmoCopyB = true := by
  unfold tmoCopyB; decide

theorem chk_copyB : specCheck .pureFresh 1 copyB = true := by
  unfold copyB; decide

theorem chk_freshB (k : Nat) : specCheck .pureFresh k (freshB k) = true := by
  have := chk_computed k [""]
  unfold freshB
  chk_simp2

theorem chk_fresh2B (k : Nat) (n1 n2 : String) : specCheck .pureFresh k (fresh2B k n1 n2) = true := by
  unfold fresh2B; chk_simp2

theorem chk_freshAsFB (k : Nat) : specCheck .pureFresh k (freshAsFB k) = true := by
  unfold freshAsFB; chk_simp2

/-- a callee whose results are dropped -/
theorem chk_noRes (k : Nat) (B : Built) (h : specCheck .pureFresh k B = true) :
    specCheck .pureFresh k ⟨B.prog, []⟩ = true := by
  simp only [specCheck, Bool.and_eq_true] at h ⊢
  exact ⟨h.1, by simp [freshResults]⟩

theorem AccOK.ttCtor {b : Nat} {W A0 : List Nat} {A : Acc} {G : List Nat} (h : AccOK b W A0 A G)
    (c : Nat) (core facs : List Nat) (pre : String) (keep : Bool)
    (hc : if c == 1 then core.length = 1 else core.length = 2)
    (hcore : ∀ r ∈ core, r < A.free) (hfs : ∀ r ∈ facs, r < A.free) :
    AccOK b W A0 (A.ttCtor c core facs pre keep) G := by
  unfold Acc.ttCtor
  have hA1 : AccOK b W A0 (if c == 1 then A.call (tensor_copy {} (dflt 1)) core (pre ++ "core.") keep
      else A.call (sptensor_copy {} (dflt 2)) core (pre ++ "core.") keep) G ∧
      A.free ≤ (if c == 1 then A.call (tensor_copy {} (dflt 1)) core (pre ++ "core.") keep
      else A.call (sptensor_copy {} (dflt 2)) core (pre ++ "core.") keep).free := by
    cases hc1 : (c == 1)
    · simp only [hc1, Bool.false_eq_true, if_false] at hc ⊢
      refine ⟨(h.call _ core _ keep ?_ hcore).mono (fun r hr => List.mem_append_left _ hr), by rw [Acc.call_free]; omega⟩
      rw [hc]; simpa using chk_sptensor_copy {} (dflt 2)
    · simp only [hc1, if_true] at hc ⊢
      refine ⟨(h.call _ core _ keep ?_ hcore).mono (fun r hr => List.mem_append_left _ hr), by rw [Acc.call_free]; omega⟩
      rw [hc]; simpa using chk_tensor_copy {} (dflt 1)
  obtain ⟨h1, hle⟩ := hA1
  cases keep
  · simp only [Bool.false_eq_true, if_false]
    apply h1.calls
    intro t ht
    obtain ⟨i, hi, rfl⟩ := List.mem_map.mp ht
    refine ⟨chk_noRes 1 _ chk_tmoCopyB, ?_⟩
    intro a ha
    have : a = facs.getD i 0 := by simpa using ha
    subst this
    have hi' : i < facs.length := List.mem_range.mp hi
    have := hfs (facs.getD i 0) (by
      rw [List.getD_eq_getElem?_getD, List.getElem?_eq_getElem hi']; exact List.getElem_mem hi')
    omega
  · simp only [if_true]
    apply h1.calls
    intro t ht
    obtain ⟨i, hi, rfl⟩ := List.mem_map.mp ht
    refine ⟨chk_tmoCopyB, ?_⟩
    intro a ha
    have : a = facs.getD i 0 := by simpa using ha
    subst this
    have hi' : i < facs.length := List.mem_range.mp hi
    have := hfs (facs.getD i 0) (by
      rw [List.getD_eq_getElem?_getD, List.getElem?_eq_getElem hi']; exact List.getElem_mem hi')
    omega

/-! ### dense helper, Kruskal entries -/

theorem chk_tensor_neg (p : Params) (ops : List View) :
    specCheck .pureFresh ops.length (tensor_neg p ops) = true := by
  unfold tensor_neg; chk_simp2

theorem all_nowrite_map {β : Type} (l : List β) (f : β → Step) (hf : ∀ x, (f x).isWrite = false) :
    (l.map f).all (fun s => !s.isWrite) = true := by
  simp [List.all_map, hf]

theorem chk_ktensor_extract (p : Params) (ops : List View) (h : atLeastN 1 p ops.length = true) :
    specCheck .pureFresh ops.length (ktensor_extract p ops) = true := by
  have hb : p.n + 1 ≤ ops.length := by simpa [atLeastN] using h
  unfold ktensor_extract
  split
  · exact chk_ktensor_copy p ops
  · apply AccOK.pureFresh (G := [])
    have h1 := (AccOK.init ops.length [] []).nowrite
      (fun _ => Step.fresh [] [0] :: (regs 1 p.n).map (fun r => Step.fresh [] [r]))
      (by simp [Step.isWrite, List.all_map])
    apply h1.ktCtor
    · simp [Acc.raw_free, Acc.init, ndefs_cons, nd_fresh, Step.isWrite, length_regs]
    · intro r hr
      obtain ⟨i, hi, rfl⟩ := mem_regs.mp hr
      simp [Acc.raw_free, Acc.init, ndefs_cons, nd_fresh, Step.isWrite, length_regs]; omega

theorem chk_ktensor_scale (p : Params) (ops : List View) (h : atLeastN 1 p ops.length = true) :
    specCheck .pureFresh ops.length (ktensor_scale p ops) = true := by
  have hb : p.n + 1 ≤ ops.length := by simpa [atLeastN] using h
  unfold ktensor_scale
  apply AccOK.pureFresh (G := [])
  have h1 := (AccOK.init ops.length [] []).nowrite (fun _ => [Step.fresh [] [0]]) (by simp [Step.isWrite])
  apply h1.ktCtor
  · simp [Acc.raw_free, Acc.init, ndefs_cons, ndefs_nil, Step.isWrite]
  · intro r hr
    obtain ⟨i, hi, rfl⟩ := mem_regs.mp hr
    simp [Acc.raw_free, Acc.init, ndefs_cons, ndefs_nil, Step.isWrite]; omega

theorem chk_ktensor_addsub (p : Params) (ops : List View) (h : atLeastN 1 p ops.length = true) :
    specCheck .pureFresh ops.length (ktensor_addsub p ops) = true := by
  unfold ktensor_addsub
  apply AccOK.pureFresh (G := [])
  have h1 := (AccOK.init ops.length [] []).nowrite
    (fun _ => Step.fresh [] [0, p.n + 1] :: (List.range p.n).map (fun i => Step.fresh [] [i + 1, p.n + 2 + i]))
    (by simp [Step.isWrite, List.all_map])
  apply h1.ktCtor
  · simp [Acc.raw_free, Acc.init, ndefs_cons, nd_fresh, Step.isWrite]
  · intro r hr
    obtain ⟨i, hi, rfl⟩ := mem_regs.mp hr
    simp [Acc.raw_free, Acc.init, ndefs_cons, nd_fresh, Step.isWrite]; omega

theorem range_lt {n r b : Nat} (hr : r ∈ List.range n) (hb : n ≤ b) : r < b := by
  have := List.mem_range.mp hr; omega

theorem ktensor_full_ndefs (p : Params) (ops : List View) : ndefs (ktensor_full p ops).prog = 3 := by
  simp [ktensor_full, tensorCtor, ndefs_cons, ndefs_nil, Step.isWrite]

theorem chk_ktensor_double (p : Params) (ops : List View) (h : atLeastN 1 p ops.length = true) :
    specCheck .pureFresh ops.length (ktensor_double p ops) = true := by
  have hb : p.n + 1 ≤ ops.length := by simpa [atLeastN] using h
  unfold ktensor_double
  apply AccOK.pureFresh (G := [])
  have h1 := ((AccOK.init ops.length [] []).call (ktensor_full p (dflt (p.n + 1))) (List.range (p.n + 1)) "" false
    (by simpa using chk_ktensor_full p (dflt (p.n + 1)))
    (by intro a ha; exact range_lt ha hb)).mono (G' := []) (by intro r hr; cases hr)
  refine (h1.call copyB [ops.length + 2] "arr" true chk_copyB ?_).mono (by intro r hr; cases hr)
  intro a ha
  have : a = ops.length + 2 := by simpa using ha
  subst this
  rw [Acc.call_free, ktensor_full_ndefs]; simp [Acc.init]

theorem chk_ktensor_to_tenmat (p : Params) (ops : List View) (h : atLeastN 1 p ops.length = true) :
    specCheck .pureFresh ops.length (ktensor_to_tenmat p ops) = true := by
  have hb : p.n + 1 ≤ ops.length := by simpa [atLeastN] using h
  unfold ktensor_to_tenmat
  apply AccOK.pureFresh (G := [])
  have h1 := ((AccOK.init ops.length [] []).call (ktensor_full { p with shape := [] } (dflt (p.n + 1))) (List.range (p.n + 1)) "" false
    (by simpa using chk_ktensor_full { p with shape := [] } (dflt (p.n + 1)))
    (by intro a ha; exact range_lt ha hb)).mono (G' := []) (by intro r hr; cases hr)
  refine (h1.call (tensor_to_tenmat p (dflt 1)) [ops.length + 2] "" true ?_ ?_).mono (by intro r hr; cases hr)
  · simpa using chk_tensor_to_tenmat p (dflt 1)
  · intro a ha
    have : a = ops.length + 2 := by simpa using ha
    subst this
    rw [Acc.call_free, ktensor_full_ndefs]; simp [Acc.init]

theorem chk_ktensor_tovec (p : Params) (ops : List View) :
    specCheck .pureFresh ops.length (ktensor_tovec p ops) = true := by
  unfold ktensor_tovec
  apply spec_pureFresh_simple
  · split <;> seg_simp
  · intro r hr
    simp only [List.map_cons, List.map_nil, List.mem_singleton] at hr
    subst hr
    simp [ndefs_cons, Step.isWrite]

theorem chk_ktensor_tolist_mode (p : Params) (ops : List View) (h : decide (p.k < p.n) = true) :
    specCheck .pureFresh ops.length (ktensor_tolist_mode p ops) = true := by
  have hk : p.k < p.n := by simpa using h
  unfold ktensor_tolist_mode
  apply spec_pureFresh_simple
  · seg_simp; omega
  · intro r hr
    have := snd_zip_regs _ _ _ _ hr
    simp [ndefs_append, nd_copy', length_regs, ndefs_cons, ndefs_nil, Step.isWrite]; omega

theorem chk_ktensor_mttkrp (p : Params) (ops : List View) :
    specCheck .pureFresh ops.length (ktensor_mttkrp p ops) = true := by
  unfold ktensor_mttkrp; chk_simp2

theorem chk_ktensor_mask (p : Params) (ops : List View) (h : atLeastN 2 p ops.length = true) :
    specCheck .pureFresh ops.length (ktensor_mask p ops) = true := by
  have hb : p.n + 2 ≤ ops.length := by simpa [atLeastN] using h
  unfold ktensor_mask
  split
  · apply AccOK.pureFresh (G := [])
    have h1 := ((AccOK.init ops.length [] []).call (tensor_find {} (dflt 1)) [p.n + 1] "" false
      (by simpa using chk_tensor_find {} (dflt 1))
      (by intro a ha; have : a = p.n + 1 := by simpa using ha
          subst this; simp [Acc.init]; omega)).mono (G' := []) (by intro r hr; cases hr)
    refine (h1.call (freshB (p.n + 2)) (List.range (p.n + 1) ++ [ops.length + 2]) "arr" true ?_ ?_).mono
      (by intro r hr; cases hr)
    · simpa using chk_freshB (p.n + 2)
    · intro a ha
      have hnd : ndefs (tensor_find {} (dflt 1)).prog = 5 := by
        simp [tensor_find, ndefs_cons, ndefs_nil, Step.isWrite]
      rw [Acc.call_free, hnd]
      rcases List.mem_append.mp ha with h | h
      · have := range_lt h (Nat.le_refl _); simp [Acc.init]; omega
      · have : a = ops.length + 2 := by simpa using h
        subst this; simp [Acc.init]
  · apply AccOK.pureFresh (G := [])
    have h1 := (AccOK.init ops.length [] []).nowrite (fun _ => [Step.alias (p.n + 1)]) (by simp [Step.isWrite])
    refine (h1.call (freshB (p.n + 2)) (List.range (p.n + 1) ++ [ops.length]) "arr" true ?_ ?_).mono
      (by intro r hr; cases hr)
    · simpa using chk_freshB (p.n + 2)
    · intro a ha
      simp only [Acc.raw_free, Acc.init, ndefs_cons, ndefs_nil, Step.isWrite]
      rcases List.mem_append.mp ha with h | h
      · have := range_lt h (Nat.le_refl _); simp; omega
      · have : a = ops.length := by simpa using h
        subst this; simp

/-! ### Tucker entries -/

theorem tensor_ttm_ndefs (p : Params) (ops : List View) : ndefs (tensor_ttm p ops).prog = 9 := by
  simp [tensor_ttm, tensorCtor, ndefs_cons, ndefs_nil, ndefs_append, Step.isWrite]

theorem AccOK.ttmChain {b : Nat} {W A0 : List Nat} (N : Nat) (l : List (Nat × Nat)) :
    ∀ {A : Acc} {cur : Nat} {G : List Nat}, AccOK b W A0 A G → cur < A.free → (∀ km ∈ l, km.2 < A.free) →
      (l = [] → cur ∈ G) →
      AccOK b W A0 (Acc.ttmChain N A cur l).1 [(Acc.ttmChain N A cur l).2] ∧
      (Acc.ttmChain N A cur l).2 < (Acc.ttmChain N A cur l).1.free ∧
      A.free ≤ (Acc.ttmChain N A cur l).1.free := by
  induction l with
  | nil =>
    intro A cur G h hc _ hg
    refine ⟨h.mono ?_, hc, Nat.le_refl _⟩
    intro r hr
    have : r = cur := by simpa [Acc.ttmChain] using hr
    subst this
    exact hg rfl
  | cons km rest ih =>
    intro A cur G h hc hl _
    simp only [Acc.ttmChain]
    have hcall := h.call (tensor_ttm (ttmP N km.1) (dflt 2)) [cur, km.2] "" false
      (by simpa using chk_tensor_ttm (ttmP N km.1) (dflt 2))
      (by intro a ha
          rcases List.mem_cons.mp ha with rfl | ha
          · exact hc
          · have : a = km.2 := by simpa using ha
            subst this; exact hl km (List.mem_cons_self))
    have hfree : (A.call (tensor_ttm (ttmP N km.1) (dflt 2)) [cur, km.2] "" false).free = A.free + 9 := by
      rw [Acc.call_free, tensor_ttm_ndefs]
    have := ih (A := A.call (tensor_ttm (ttmP N km.1) (dflt 2)) [cur, km.2] "" false) (cur := A.free + 8) hcall
      (by rw [hfree]; omega)
      (by intro km' hkm'; rw [hfree]; have := hl km' (List.mem_cons_of_mem _ hkm'); omega)
      (by intro _; apply List.mem_append_right
          simp [Built.at, tensor_ttm, relocReg])
    refine ⟨this.1, this.2.1, ?_⟩
    have := this.2.2
    rw [hfree] at this; omega

theorem AccOK.spTtmChain {b : Nat} {W A0 : List Nat} (l : List Nat) :
    ∀ {A : Acc} {s v : Nat} {G : List Nat}, AccOK b W A0 A G → s < A.free → v < A.free → (∀ m ∈ l, m < A.free) →
      AccOK b W A0 (Acc.spTtmChain A s v l).1 [(Acc.spTtmChain A s v l).2] ∧
      (Acc.spTtmChain A s v l).2 < (Acc.spTtmChain A s v l).1.free ∧
      A.free ≤ (Acc.spTtmChain A s v l).1.free := by
  induction l with
  | nil =>
    intro A s v G h hs hv _
    simp only [Acc.spTtmChain]
    have hcall := h.call (freshB 2) [s, v] "" false (by simpa using chk_freshB 2)
      (by intro a ha; rcases List.mem_cons.mp ha with rfl | ha
          · exact hs
          · have : a = v := by simpa using ha
            subst this; exact hv)
    have hfree : (A.call (freshB 2) [s, v] "" false).free = A.free + 1 := by
      rw [Acc.call_free]; simp [freshB, ndefs_cons, ndefs_nil, Step.isWrite]
    refine ⟨hcall.mono ?_, by rw [hfree]; omega, by rw [hfree]; omega⟩
    intro r hr
    have : r = A.free := by simpa using hr
    subst this
    apply List.mem_append_right
    simp [Built.at, freshB, relocReg]
  | cons m rest ih =>
    intro A s v G h hs hv hl
    simp only [Acc.spTtmChain]
    have hcall := h.call (fresh2B 3 "subs" "vals") [s, v, m] "" false (by simpa using chk_fresh2B 3 "subs" "vals")
      (by intro a ha
          simp only [List.mem_cons, List.not_mem_nil, or_false] at ha
          rcases ha with rfl | rfl | rfl
          · exact hs
          · exact hv
          · exact hl _ (List.mem_cons_self))
    have hfree : (A.call (fresh2B 3 "subs" "vals") [s, v, m] "" false).free = A.free + 2 := by
      rw [Acc.call_free]; simp [fresh2B, ndefs_cons, ndefs_nil, Step.isWrite]
    have := ih (A := A.call (fresh2B 3 "subs" "vals") [s, v, m] "" false) (s := A.free) (v := A.free + 1) hcall
      (by rw [hfree]; omega) (by rw [hfree]; omega)
      (by intro m' hm'; rw [hfree]; have := hl m' (List.mem_cons_of_mem _ hm'); omega)
    refine ⟨this.1, this.2.1, ?_⟩
    have := this.2.2
    rw [hfree] at this; omega

theorem AccOK.ttFull {b : Nat} {W A0 : List Nat} {A : Acc} {G : List Nat} (h : AccOK b W A0 A G)
    (c N : Nat) (core facs : List Nat) (h0 : core.getD 0 0 < A.free) (h1 : core.getD 1 0 < A.free)
    (hf : ∀ r ∈ facs, r < A.free) (hN : 0 < N) (hfl : 0 < facs.length) :
    AccOK b W A0 (A.ttFull c N core facs).1 [(A.ttFull c N core facs).2] ∧
    (A.ttFull c N core facs).2 < (A.ttFull c N core facs).1.free ∧
    A.free ≤ (A.ttFull c N core facs).1.free := by
  unfold Acc.ttFull
  split
  · apply AccOK.ttmChain N _ h h0
    · intro km hkm
      exact hf km.2 (List.of_mem_zip hkm).2
    · intro he
      exfalso
      cases N with
      | zero => omega
      | succ n =>
        cases facs with
        | nil => simp at hfl
        | cons x xs => simp [List.range_succ_eq_map] at he
  · exact AccOK.spTtmChain _ h h0 h1 hf

theorem ttPre_elim {extra : Params → Nat → Bool} {p : Params} {b : Nat} (h : ttPre extra p b = true) :
    (p.k = 1 ∨ p.k = 2) ∧ p.k + p.n ≤ b ∧ extra p b = true := by
  simp only [ttPre, Bool.and_eq_true, Bool.or_eq_true, beq_iff_eq, decide_eq_true_eq] at h
  exact ⟨h.1.1, h.1.2, h.2⟩

theorem core_len {k : Nat} (hk : k = 1 ∨ k = 2) :
    if k == 1 then (List.range k).length = 1 else (List.range k).length = 2 := by
  rcases hk with rfl | rfl <;> simp

theorem range_getD_lt (k i b : Nat) (hb : 0 < b) (hk : k ≤ b) : (List.range k).getD i 0 < b := by
  rw [List.getD_eq_getElem?_getD]
  by_cases h : i < k
  · rw [List.getElem?_eq_getElem (by simpa using h)]; simp; omega
  · rw [List.getElem?_eq_none (by simpa using h)]; exact hb

theorem chk_ttensor_copy (p : Params) (ops : List View) (h : ttPre (fun _ _ => true) p ops.length = true) :
    specCheck .pureFresh ops.length (ttensor_copy p ops) = true := by
  obtain ⟨hk, hb, _⟩ := ttPre_elim h
  unfold ttensor_copy
  apply AccOK.pureFresh (G := [])
  apply (AccOK.init ops.length [] []).ttCtor _ _ _ _ _ (core_len hk)
  · intro r hr; have := List.mem_range.mp hr; simp [Acc.init]; omega
  · intro r hr; obtain ⟨i, hi, rfl⟩ := mem_regs.mp hr; simp [Acc.init]; omega

theorem ttFull_init {p : Params} {b : Nat} (hk : p.k = 1 ∨ p.k = 2) (hb : p.k + p.n ≤ b) (hN : 0 < p.n) :
    AccOK b [] [] ((Acc.init b).ttFull p.k p.n (List.range p.k) (regs p.k p.n)).1
      [((Acc.init b).ttFull p.k p.n (List.range p.k) (regs p.k p.n)).2] ∧
    ((Acc.init b).ttFull p.k p.n (List.range p.k) (regs p.k p.n)).2 <
      ((Acc.init b).ttFull p.k p.n (List.range p.k) (regs p.k p.n)).1.free := by
  have hb0 : 0 < b := by rcases hk with h | h <;> omega
  have := (AccOK.init b [] []).ttFull p.k p.n (List.range p.k) (regs p.k p.n)
    (range_getD_lt _ _ _ hb0 (by simp [Acc.init]; omega)) (range_getD_lt _ _ _ hb0 (by simp [Acc.init]; omega))
    (by intro r hr; obtain ⟨i, hi, rfl⟩ := mem_regs.mp hr; simp [Acc.init]; omega) hN
    (by simp [length_regs]; exact hN)
  exact ⟨this.1, this.2.1⟩

theorem chk_ttensor_full (p : Params) (ops : List View)
    (h : ttPre (fun p _ => decide (0 < p.n)) p ops.length = true) :
    specCheck .pureFresh ops.length (ttensor_full p ops) = true := by
  obtain ⟨hk, hb, hN⟩ := ttPre_elim h
  have R := ttFull_init hk hb (by simpa using hN)
  unfold ttensor_full
  exact (R.1.out "data" _ (List.mem_singleton.mpr rfl)).pureFresh

theorem chk_ttensor_double (p : Params) (ops : List View)
    (h : ttPre (fun p _ => decide (0 < p.n)) p ops.length = true) :
    specCheck .pureFresh ops.length (ttensor_double p ops) = true := by
  obtain ⟨hk, hb, hN⟩ := ttPre_elim h
  have R := ttFull_init hk hb (by simpa using hN)
  unfold ttensor_double
  refine (R.1.call copyB [_] "arr" true chk_copyB ?_).pureFresh
  intro a ha
  have : a = ((Acc.init ops.length).ttFull p.k p.n (List.range p.k) (regs p.k p.n)).2 := by simpa using ha
  subst this; exact R.2

theorem posOf_lt {d : Nat} {l : List Nat} {i : Nat} (h : posOf d l = some i) : i < l.length := by
  induction l generalizing i with
  | nil => simp [posOf] at h
  | cons x xs ih =>
    simp only [posOf] at h
    split at h
    · cases h; simp
    · cases hp : posOf d xs with
      | none => simp [hp] at h
      | some j =>
        simp [hp] at h
        subst h
        have := ih hp
        simp; omega

theorem regsBelow_elim {l : Params → List Nat} {p : Params} {b : Nat} (h : regsBelow l p b = true) :
    ∀ r ∈ l p, r < b := by
  intro r hr
  have := List.all_eq_true.mp h r hr
  simpa using this

theorem chk_ttensor_ttm (p : Params) (ops : List View) (h : ttPre (regsBelow (·.perm)) p ops.length = true) :
    specCheck .pureFresh ops.length (ttensor_ttm p ops) = true := by
  obtain ⟨hk, hb, _⟩ := ttPre_elim h
  unfold ttensor_ttm
  apply AccOK.pureFresh (G := [])
  have h1 := (AccOK.init ops.length [] []).nowrite
    (fun _ => (List.range p.dims.length).map (fun i => Step.fresh [] [p.perm.getD i 0, p.k + p.dims.getD i 0]))
    (by simp [Step.isWrite, List.all_map])
  have hfree : ((Acc.init ops.length).raw (fun _ => (List.range p.dims.length).map
      (fun i => Step.fresh [] [p.perm.getD i 0, p.k + p.dims.getD i 0]))).free = ops.length + p.dims.length := by
    simp [Acc.raw_free, Acc.init, nd_fresh]
  apply h1.ttCtor _ _ _ _ _ (core_len hk)
  · intro r hr; have := List.mem_range.mp hr; rw [hfree]; omega
  · intro r hr
    obtain ⟨d, hd, rfl⟩ := List.mem_map.mp hr
    have hd' := List.mem_range.mp hd
    rw [hfree]
    cases hp : posOf d p.dims with
    | none => simp only []; omega
    | some i => have := posOf_lt hp; simp only []; omega

theorem ndefs_flatMap2 (l : List Nat) (f g : Nat → Step) (hf : ∀ i, (f i).isWrite = false)
    (hg : ∀ i, (g i).isWrite = false) : ndefs (l.flatMap (fun i => [f i, g i])) = 2 * l.length := by
  induction l with
  | nil => rfl
  | cons x xs ih =>
    simp only [List.flatMap_cons, ndefs_append, ndefs_cons, ndefs_nil, hf, hg, ih, List.length_cons]
    simp; omega

theorem all_nowrite_flatMap2 (l : List Nat) (f g : Nat → Step) (hf : ∀ i, (f i).isWrite = false)
    (hg : ∀ i, (g i).isWrite = false) : (l.flatMap (fun i => [f i, g i])).all (fun s => !s.isWrite) = true := by
  simp [List.all_flatMap, hf, hg]

theorem tensor_ttv_ndefs (p : Params) (ops : List View) :
    ndefs (tensor_ttv p ops).prog = if p.flag == "scalar" then 4 else 6 := by
  unfold tensor_ttv
  (repeat' split) <;> simp_all [tensorCtor, ndefs_cons, ndefs_nil, ndefs_append, Step.isWrite]

/-- the parameters of a product that leaves a tensor never carry the flag "scalar" (an empty mode
selection has its own flag "none") -/
theorem ttvP_not_scalar (N : Nat) (dims : List Nat) : ((ttvP N dims false).flag == "scalar") = false := by
  unfold ttvP
  cases dims <;> simp

theorem chk_ttensor_ttv (p : Params) (ops : List View) (h : ttPre (regsBelow (·.perm)) p ops.length = true) :
    specCheck .pureFresh ops.length (ttensor_ttv p ops) = true := by
  obtain ⟨hk, hb, _⟩ := ttPre_elim h
  unfold ttensor_ttv
  simp only []
  have h1 := (AccOK.init ops.length [] []).nowrite
    (fun f => (List.range p.dims.length).flatMap
      (fun i => [Step.tr (p.k + p.dims.getD i 0), Step.fresh [] [f + 2 * i, p.perm.getD i 0]]))
    (all_nowrite_flatMap2 _ _ _ (fun _ => rfl) (fun _ => rfl))
  have hfree : ((Acc.init ops.length).raw (fun f => (List.range p.dims.length).flatMap
      (fun i => [Step.tr (p.k + p.dims.getD i 0), Step.fresh [] [f + 2 * i, p.perm.getD i 0]]))).free =
      ops.length + 2 * p.dims.length := by
    rw [Acc.raw_free, ndefs_flatMap2 _ _ _ (fun _ => rfl) (fun _ => rfl)]; simp [Acc.init]
  have hW : ∀ a ∈ (List.range p.dims.length).map (fun i => ops.length + 2 * i + 1),
      a < ops.length + 2 * p.dims.length := by
    intro a ha
    obtain ⟨i, hi, rfl⟩ := List.mem_map.mp ha
    have := List.mem_range.mp hi; omega
  have hWl : ((List.range p.dims.length).map (fun i => ops.length + 2 * i + 1)).length = p.dims.length := by simp
  have hb0 : 0 < ops.length := by rcases hk with h | h <;> omega
  have hrem : ∀ r ∈ (remOf p.n p.dims).map (p.k + ·), r < ops.length := by
    intro r hr
    obtain ⟨d, hd, rfl⟩ := List.mem_map.mp hr
    have := List.mem_range.mp (List.mem_filter.mp hd).1; omega
  rcases hk with hk | hk
  · -- dense core
    have hc1 : (p.k == 1) = true := by simp [hk]
    simp only [hc1, if_true]
    have hcall := (h1.call (tensor_ttv (ttvP p.n p.dims (p.flag == "scalar")) (dflt (1 + p.dims.length)))
      (0 :: (List.range p.dims.length).map (fun i => ops.length + 2 * i + 1)) "" false
      (by simpa [hWl, Nat.add_comm] using chk_tensor_ttv (ttvP p.n p.dims (p.flag == "scalar")) (dflt (1 + p.dims.length)))
      (by intro a ha
          rw [hfree]
          rcases List.mem_cons.mp ha with rfl | ha
          · omega
          · exact hW a ha)).mono (G' := []) (by intro r hr; cases hr)
    cases hs : (p.flag == "scalar")
    · simp only [Bool.false_eq_true, if_false]
      rw [hs] at hcall
      apply AccOK.pureFresh (G := [])
      apply hcall.ttCtor _ _ _ _ _ (by simp)
      · intro r hr
        have : r = ops.length + 2 * p.dims.length + 5 := by simpa using hr
        subst this
        rw [Acc.call_free, hfree, tensor_ttv_ndefs, ttvP_not_scalar]; simp
      · intro r hr
        rw [Acc.call_free, hfree]
        have := hrem r hr; omega
    · simp only [if_true]
      rw [hs] at hcall
      exact hcall.pureFresh
  · -- sparse core
    have hc1 : (p.k == 1) = false := by simp [hk]
    simp only [hc1, Bool.false_eq_true, if_false]
    have hargs : ∀ a ∈ 0 :: 1 :: (List.range p.dims.length).map (fun i => ops.length + 2 * i + 1),
        a < ((Acc.init ops.length).raw (fun f => (List.range p.dims.length).flatMap
          (fun i => [Step.tr (p.k + p.dims.getD i 0), Step.fresh [] [f + 2 * i, p.perm.getD i 0]]))).free := by
      intro a ha
      rw [hfree]
      simp only [List.mem_cons] at ha
      rcases ha with rfl | rfl | ha
      · omega
      · omega
      · exact hW a ha
    have hlen : (0 :: 1 :: (List.range p.dims.length).map (fun i => ops.length + 2 * i + 1)).length = 2 + p.dims.length := by
      simp; omega
    cases hs : (p.flag == "scalar")
    · simp only [Bool.false_eq_true, if_false]
      cases hsp : (p.flag == "sp")
      · simp only [Bool.false_eq_true, if_false]
        apply AccOK.pureFresh (G := [])
        have hcall := (h1.call (freshB (2 + p.dims.length)) _ "" false (by rw [hlen]; exact chk_freshB _) hargs).mono
          (G' := []) (by intro r hr; cases hr)
        apply hcall.ttCtor _ _ _ _ _ (by simp)
        · intro r hr
          have : r = ops.length + 2 * p.dims.length := by simpa using hr
          subst this
          rw [Acc.call_free, hfree]; simp [freshB, ndefs_cons, ndefs_nil, Step.isWrite]
        · intro r hr
          rw [Acc.call_free, hfree]
          have := hrem r hr; omega
      · simp only [if_true]
        apply AccOK.pureFresh (G := [])
        have hcall := (h1.call (fresh2B (2 + p.dims.length) "subs" "vals") _ "" false
          (by rw [hlen]; exact chk_fresh2B _ _ _) hargs).mono (G' := []) (by intro r hr; cases hr)
        apply hcall.ttCtor _ _ _ _ _ (by simp)
        · intro r hr
          rw [Acc.call_free, hfree]
          simp only [List.mem_cons, List.not_mem_nil, or_false] at hr
          rcases hr with rfl | rfl <;> simp [fresh2B, ndefs_cons, ndefs_nil, Step.isWrite]
        · intro r hr
          rw [Acc.call_free, hfree]
          have := hrem r hr; omega
    · simp only [if_true]
      exact (h1.call (freshB (2 + p.dims.length)) _ "" false (by rw [hlen]; exact chk_freshB _) hargs).pureFresh

theorem tensor_permute_ndefs (p : Params) (ops : List View) :
    ndefs (tensor_permute p ops).prog = if p.perm.isEmpty then 2 else 3 := by
  unfold tensor_permute
  split <;> simp [tensorCtor, ndefs_cons, ndefs_nil, Step.isWrite]

theorem chk_ttensor_permute (p : Params) (ops : List View)
    (h : ttPre (regsBelow (fun p => p.perm.map (p.k + ·))) p ops.length = true) :
    specCheck .pureFresh ops.length (ttensor_permute p ops) = true := by
  obtain ⟨hk, hb, hp⟩ := ttPre_elim h
  have hperm := regsBelow_elim hp
  have hb0 : 0 < ops.length := by rcases hk with h | h <;> omega
  unfold ttensor_permute
  simp only []
  rcases hk with hk | hk
  · have hc1 : (p.k == 1) = true := by simp [hk]
    simp only [hc1, if_true]
    apply AccOK.pureFresh (G := [])
    have hcall := ((AccOK.init ops.length [] []).call (tensor_permute { perm := p.perm, shape := [] } (dflt 1)) [0] "" false
      (by simpa using chk_tensor_permute { perm := p.perm, shape := [] } (dflt 1))
      (by intro a ha; have : a = 0 := by simpa using ha
          subst this; simpa [Acc.init] using hb0)).mono (G' := []) (by intro r hr; cases hr)
    apply hcall.ttCtor _ _ _ _ _ (by simp)
    · intro r hr
      rw [Acc.call_free, tensor_permute_ndefs]
      have : r = if p.perm.isEmpty then ops.length + 1 else ops.length + 2 := by simpa using hr
      subst this
      simp only [Acc.init]
      split <;> omega
    · intro r hr
      rw [Acc.call_free]
      have := hperm r hr
      simp only [Acc.init]; omega
  · have hc1 : (p.k == 1) = false := by simp [hk]
    simp only [hc1, Bool.false_eq_true, if_false]
    apply AccOK.pureFresh (G := [])
    have hcall := ((AccOK.init ops.length [] []).call (sptensor_newsubs_copyvals {} (dflt 2)) [0, 1] "" false
      (by simpa using chk_sptensor_newsubs {} (dflt 2))
      (by intro a ha
          simp only [List.mem_cons, List.not_mem_nil, or_false] at ha
          rcases ha with rfl | rfl <;> simp [Acc.init] <;> omega)).mono (G' := []) (by intro r hr; cases hr)
    apply hcall.ttCtor _ _ _ _ _ (by simp)
    · intro r hr
      rw [Acc.call_free]
      simp only [List.mem_cons, List.not_mem_nil, or_false] at hr
      rcases hr with rfl | rfl <;>
        simp [Acc.init, sptensor_newsubs_copyvals, ndefs_cons, ndefs_nil, Step.isWrite]
    · intro r hr
      rw [Acc.call_free]
      have := hperm r hr
      simp only [Acc.init]; omega

theorem chk_ttensor_scale (p : Params) (ops : List View) (h : ttPre (fun _ _ => true) p ops.length = true) :
    specCheck .pureFresh ops.length (ttensor_scale p ops) = true := by
  obtain ⟨hk, hb, _⟩ := ttPre_elim h
  have hb0 : 0 < ops.length := by rcases hk with h | h <;> omega
  have hfac : ∀ (A : Acc), ops.length ≤ A.free → ∀ r ∈ regs p.k p.n, r < A.free := by
    intro A hA r hr
    obtain ⟨i, hi, rfl⟩ := mem_regs.mp hr; omega
  unfold ttensor_scale
  simp only []
  rcases hk with hk | hk
  · have hc1 : (p.k == 1) = true := by simp [hk]
    simp only [hc1, if_true]
    have h0 : ∀ a ∈ [0], a < (Acc.init ops.length).free := by
      intro a ha; have : a = 0 := by simpa using ha
      subst this; simpa [Acc.init] using hb0
    split
    · apply AccOK.pureFresh (G := [])
      have hcall := ((AccOK.init ops.length [] []).call (tensor_neg {} (dflt 1)) [0] "" false
        (by simpa using chk_tensor_neg {} (dflt 1)) h0).mono (G' := []) (by intro r hr; cases hr)
      apply hcall.ttCtor _ _ _ _ _ (by simp)
      · intro r hr
        have : r = ops.length + 1 := by simpa using hr
        subst this
        rw [Acc.call_free]; simp [Acc.init, tensor_neg, ndefs_cons, ndefs_nil, Step.isWrite]
      · apply hfac; rw [Acc.call_free]; simp [Acc.init]
    · apply AccOK.pureFresh (G := [])
      have hcall := ((AccOK.init ops.length [] []).call (tensor_elementwise {} (dflt 1)) [0] "" false
        (by simpa using chk_tensor_elementwise {} (dflt 1)) h0).mono (G' := []) (by intro r hr; cases hr)
      apply hcall.ttCtor _ _ _ _ _ (by simp)
      · intro r hr
        have : r = ops.length + 2 := by simpa using hr
        subst this
        rw [Acc.call_free]; simp [Acc.init, tensor_elementwise, tensorCtor, ndefs_cons, ndefs_nil, Step.isWrite]
      · apply hfac; rw [Acc.call_free]; simp [Acc.init]
  · have hc1 : (p.k == 1) = false := by simp [hk]
    simp only [hc1, Bool.false_eq_true, if_false]
    apply AccOK.pureFresh (G := [])
    have hcall := ((AccOK.init ops.length [] []).call (sptensor_copysubs_newvals {} (dflt 2)) [0, 1] "" false
      (by simpa using chk_sptensor_copysubs {} (dflt 2))
      (by intro a ha
          simp only [List.mem_cons, List.not_mem_nil, or_false] at ha
          rcases ha with rfl | rfl <;> simp [Acc.init] <;> omega)).mono (G' := []) (by intro r hr; cases hr)
    apply hcall.ttCtor _ _ _ _ _ (by simp)
    · intro r hr
      rw [Acc.call_free]
      simp only [List.mem_cons, List.not_mem_nil, or_false] at hr
      rcases hr with rfl | rfl <;>
        simp [Acc.init, sptensor_copysubs_newvals, ndefs_cons, ndefs_nil, Step.isWrite]
    · apply hfac; rw [Acc.call_free]; simp [Acc.init]

theorem chk_ttensor_mttkrp (p : Params) (ops : List View)
    (h : ttPre (fun p _ => decide (p.dims.getD 0 0 < p.n)) p ops.length = true) :
    specCheck .pureFresh ops.length (ttensor_mttkrp p ops) = true := by
  obtain ⟨hk, hb, hd⟩ := ttPre_elim h
  have hd' : p.dims.getD 0 0 < p.n := by simpa using hd
  have hb0 : 0 < ops.length := by rcases hk with h | h <;> omega
  unfold ttensor_mttkrp
  simp only []
  have h1 := (AccOK.init ops.length [] []).nowrite
    (fun _ => (List.range p.n).map (fun _ => Step.fresh [] (List.range ops.length)))
    (by simp [Step.isWrite, List.all_map])
  have hfree : ((Acc.init ops.length).raw (fun _ => (List.range p.n).map
      (fun _ => Step.fresh [] (List.range ops.length)))).free = ops.length + p.n := by
    simp [Acc.raw_free, Acc.init, nd_fresh]
  have hregs : ∀ a ∈ regs ops.length p.n, a < ops.length + p.n := by
    intro a ha; obtain ⟨i, hi, rfl⟩ := mem_regs.mp ha; omega
  apply AccOK.pureFresh (G := [])
  rcases hk with hk | hk
  · have hc1 : (p.k == 1) = true := by simp [hk]
    simp only [hc1, if_true]
    have hcall := (h1.call (tensor_mttkrp {} (dflt (1 + p.n))) (0 :: regs ops.length p.n) "" false
      (by simpa [length_regs, Nat.add_comm] using chk_tensor_mttkrp {} (dflt (1 + p.n)))
      (by intro a ha
          rw [hfree]
          rcases List.mem_cons.mp ha with rfl | ha
          · omega
          · exact hregs a ha)).mono (G' := []) (by intro r hr; cases hr)
    refine (hcall.call (freshAsFB 2) [_, _] "arr" true (chk_freshAsFB 2) ?_).mono (by intro r hr; cases hr)
    intro a ha
    rw [Acc.call_free, hfree]
    have hnd : ndefs (tensor_mttkrp {} (dflt (1 + p.n))).prog = 4 := by
      simp [tensor_mttkrp, ndefs_cons, ndefs_nil, Step.isWrite]
    rw [hnd]
    simp only [List.mem_cons, List.not_mem_nil, or_false] at ha
    rcases ha with rfl | rfl <;> omega
  · have hc1 : (p.k == 1) = false := by simp [hk]
    simp only [hc1, Bool.false_eq_true, if_false]
    have hcall := (h1.call (freshB (2 + p.n)) (0 :: 1 :: regs ops.length p.n) "" false
      (by have e : (0 :: 1 :: regs ops.length p.n).length = 2 + p.n := by simp [length_regs]; omega
          rw [e]; exact chk_freshB (2 + p.n))
      (by intro a ha
          rw [hfree]
          simp only [List.mem_cons] at ha
          rcases ha with rfl | rfl | ha
          · omega
          · omega
          · exact hregs a ha)).mono (G' := []) (by intro r hr; cases hr)
    refine (hcall.call (freshAsFB 2) [_, _] "arr" true (chk_freshAsFB 2) ?_).mono (by intro r hr; cases hr)
    intro a ha
    rw [Acc.call_free, hfree]
    have hnd : ndefs (freshB (2 + p.n)).prog = 1 := by simp [freshB, ndefs_cons, ndefs_nil, Step.isWrite]
    rw [hnd]
    simp only [List.mem_cons, List.not_mem_nil, or_false] at ha
    rcases ha with rfl | rfl <;> omega

theorem Acc.calls_free_const (k : Nat) (l : List (Built × List Nat × String)) :
    ∀ (A : Acc), (∀ t ∈ l, ndefs t.1.prog = k) → (A.calls l).free = A.free + k * l.length := by
  induction l with
  | nil => intro A _; simp [Acc.calls]
  | cons t rest ih =>
    intro A h
    simp only [Acc.calls]
    rw [ih _ (fun t' ht' => h t' (List.mem_cons_of_mem _ ht')), Acc.call_free, h t (List.mem_cons_self)]
    simp only [List.length_cons, Nat.mul_add]; omega

theorem Acc.ttCtor_free (A : Acc) (c : Nat) (core facs : List Nat) (pre : String) (keep : Bool) :
    (A.ttCtor c core facs pre keep).free = A.free + 2 + 4 * facs.length := by
  unfold Acc.ttCtor
  have hnd : ndefs tmoCopyB.prog = 4 := by decide
  have h1 : (if c == 1 then A.call (tensor_copy {} (dflt 1)) core (pre ++ "core.") keep
      else A.call (sptensor_copy {} (dflt 2)) core (pre ++ "core.") keep).free = A.free + 2 := by
    split <;> rw [Acc.call_free] <;>
      simp [tensor_copy, sptensor_copy, tensorCtor, ndefs_cons, ndefs_nil, Step.isWrite]
  cases keep
  · simp only [Bool.false_eq_true, if_false]
    rw [Acc.calls_free_const 4 _ _ (by intro t ht; obtain ⟨i, _, rfl⟩ := List.mem_map.mp ht; exact hnd), h1]
    simp
  · simp only [if_true]
    rw [Acc.calls_free_const 4 _ _ (by intro t ht; obtain ⟨i, _, rfl⟩ := List.mem_map.mp ht; exact hnd), h1]
    simp

theorem chk_ttensor_reconstruct (p : Params) (ops : List View)
    (h : ttPre (fun p b => regsBelow (·.perm) p b && decide (0 < p.n)) p ops.length = true) :
    specCheck .pureFresh ops.length (ttensor_reconstruct p ops) = true := by
  obtain ⟨hk, hb, hx⟩ := ttPre_elim h
  have hN : 0 < p.n := by
    simp only [Bool.and_eq_true, decide_eq_true_eq] at hx; exact hx.2
  have hb0 : 0 < ops.length := by rcases hk with h | h <;> omega
  unfold ttensor_reconstruct
  simp only []
  have h1 := (AccOK.init ops.length [] []).nowrite
    (fun _ => (List.range p.n).map (fun k =>
      if p.dims.getD k 0 == 0 then Step.alias (p.k + k) else Step.fresh [] [p.perm.getD k 0, p.k + k]))
    (by apply all_nowrite_map; intro x; split <;> rfl)
  have hfree : ((Acc.init ops.length).raw (fun _ => (List.range p.n).map (fun k =>
      if p.dims.getD k 0 == 0 then Step.alias (p.k + k) else Step.fresh [] [p.perm.getD k 0, p.k + k]))).free =
      ops.length + p.n := by
    rw [Acc.raw_free, ndefs_map_nonwrite _ _ (by intro x; split <;> rfl)]; simp [Acc.init]
  have h2 := h1.ttCtor p.k (List.range p.k) (regs ops.length p.n) "" false (core_len hk)
    (by intro r hr; have := List.mem_range.mp hr; rw [hfree]; omega)
    (by intro r hr; obtain ⟨i, hi, rfl⟩ := mem_regs.mp hr; rw [hfree]; omega)
  have hfree2 := Acc.ttCtor_free ((Acc.init ops.length).raw (fun _ => (List.range p.n).map (fun k =>
      if p.dims.getD k 0 == 0 then Step.alias (p.k + k) else Step.fresh [] [p.perm.getD k 0, p.k + k])))
      p.k (List.range p.k) (regs ops.length p.n) "" false
  rw [hfree, length_regs] at hfree2
  have R := h2.ttFull p.k p.n (if p.k == 1 then [ops.length + p.n + 1] else [ops.length + p.n, ops.length + p.n + 1])
    ((List.range p.n).map (fun i => ops.length + p.n + 2 + 4 * i + 3))
    (by rw [hfree2]; split <;> simp <;> omega)
    (by rw [hfree2]; split <;> simp <;> omega)
    (by intro r hr
        obtain ⟨i, hi, rfl⟩ := List.mem_map.mp hr
        have := List.mem_range.mp hi
        rw [hfree2]; omega)
    hN (by simpa using hN)
  exact (R.1.out "data" _ (List.mem_singleton.mpr rfl)).pureFresh

/-! ### sum tensor entries -/

/-- the result registers of a callee that passes the `pureFresh` check are registers it defines -/
theorem fresh_res_range {k : Nat} {B : Built} (h : specCheck .pureFresh k B = true) :
    ∀ q ∈ B.res, k ≤ q.2 ∧ q.2 < k + ndefs B.prog := by
  intro q hq
  simp only [specCheck, Bool.and_eq_true] at h
  have hq2 : q.2 ∈ B.res.map (·.2) := List.mem_map.mpr ⟨q, hq, rfl⟩
  have hfr := List.all_eq_true.mp h.2 q.2 hq2
  have hfr' : (roots k B.prog).getD q.2 .any = .fresh := by simpa using hfr
  obtain ⟨ext, h1, h2⟩ := foldl_static_prefix B.prog (initRoots k, [])
  have hlen : (roots k B.prog).length = k + ndefs B.prog := by
    show (static k B.prog).1.length = _
    unfold static; rw [h1]; simp [initRoots, h2]
  constructor
  · by_cases hlt : q.2 < k
    · exfalso
      have hpre : (roots k B.prog).getD q.2 .any = .op q.2 := by
        show (static k B.prog).1.getD q.2 .any = _
        unfold static
        rw [h1, getD_append_left' _ _ _ _ (by simp [initRoots]; exact hlt), initRoots_getD]; simp [hlt]
      rw [hpre] at hfr'; cases hfr'
    · omega
  · rw [← hlen]
    exact goodRoot_in_range (A := []) (by rw [hfr']; trivial)

theorem res0At_lt {k : Nat} {B : Built} {args : List Nat} {free : Nat}
    (h : specCheck .pureFresh k B = true) (hne : B.res ≠ []) :
    B.res0At k args free < free + ndefs B.prog ∧
    B.res0At k args free ∈ (B.at k args free "").res.map (·.2) := by
  unfold Built.res0At
  cases hr : B.res with
  | nil => exact absurd hr hne
  | cons q rest =>
    have hq := fresh_res_range h q (by rw [hr]; exact List.mem_cons_self)
    simp only [List.headD_cons]
    constructor
    · unfold relocReg
      have : ¬ q.2 < k := by omega
      simp only [this, if_false]; omega
    · simp [Built.at, hr]

theorem at_res_snd (B : Built) (k : Nat) (args : List Nat) (free : Nat) (pre : String) :
    (B.at k args free pre).res.map (·.2) = (B.at k args free "").res.map (·.2) := by
  simp [Built.at, List.map_map, Function.comp_def]

theorem partSize_pos (N k : Nat) : 0 < partSize N k := by
  unfold partSize; split <;> omega

theorem sumCalls_ok (N : Nat) (callee : Nat → Nat → Built) (extra : List Nat) (free : Nat)
    (hcallee : ∀ i k, specCheck .pureFresh (partSize N k + extra.length) (callee i k) = true)
    (hextra : ∀ a ∈ extra, a < free) :
    ∀ (ks : List Nat) (i off : Nat), off + partTotal N ks ≤ free →
      ∀ t ∈ sumCalls N callee extra i off ks,
        specCheck .pureFresh t.2.1.length t.1 = true ∧ ∀ a ∈ t.2.1, a < free := by
  intro ks
  induction ks with
  | nil => intro i off _ t ht; cases ht
  | cons k ks ih =>
    intro i off hoff t ht
    simp only [sumCalls, partTotal] at ht hoff
    rcases List.mem_cons.mp ht with rfl | ht
    · constructor
      · simp only [List.length_append, length_regs]; exact hcallee i k
      · intro a ha
        rcases List.mem_append.mp ha with h | h
        · obtain ⟨j, hj, rfl⟩ := mem_regs.mp h; omega
        · exact hextra a h
    · exact ih (i + 1) (off + partSize N k) (by omega) t ht

theorem sumPre_elim {m : Params → Nat} {p : Params} {b : Nat} (h : sumPre m p b = true) :
    partTotal p.n p.kinds + m p ≤ b := by simpa [sumPre] using h

theorem chk_partCopy (N k : Nat) : specCheck .pureFresh (partSize N k) (partCopy N k) = true := by
  unfold partCopy partSize
  split
  · simpa using chk_tensor_copy {} (dflt 1)
  · simpa using chk_sptensor_copy {} (dflt 2)
  · simpa using chk_ktensor_copy { n := N } (dflt (N + 1))
  · simpa using chk_ttensor_copy { k := 1, n := N } (dflt (N + 1)) (by simp [ttPre]; omega)
  · simpa using chk_ttensor_copy { k := 2, n := N } (dflt (N + 2)) (by simp [ttPre]; omega)

theorem chk_partNeg (N k : Nat) : specCheck .pureFresh (partSize N k) (partNeg N k) = true := by
  unfold partNeg partSize
  split
  · simpa using chk_tensor_neg {} (dflt 1)
  · simpa using chk_sptensor_copysubs {} (dflt 2)
  · simpa using chk_ktensor_scale { n := N } (dflt (N + 1)) (by simp [atLeastN])
  · simpa using chk_ttensor_scale { k := 1, n := N, flag := "neg" } (dflt (N + 1)) (by simp [ttPre]; omega)
  · simpa using chk_ttensor_scale { k := 2, n := N, flag := "neg" } (dflt (N + 2)) (by simp [ttPre]; omega)

theorem chk_partFull (N k : Nat) (hN : 0 < N) : specCheck .pureFresh (partSize N k) (partFull N k) = true := by
  unfold partFull partSize
  split
  · simpa using chk_tensor_copy {} (dflt 1)
  · simpa using chk_sptensor_full {} (dflt 2)
  · simpa using chk_ktensor_full { n := N } (dflt (N + 1))
  · simpa using chk_ttensor_full { k := 1, n := N } (dflt (N + 1)) (by simp [ttPre, hN]; omega)
  · simpa using chk_ttensor_full { k := 2, n := N } (dflt (N + 2)) (by simp [ttPre, hN]; omega)

theorem partFull_res_ne (N k : Nat) : (partFull N k).res ≠ [] := by
  unfold partFull
  split <;> simp [tensor_copy, sptensor_full, ktensor_full, ttensor_full, Acc.out, Acc.built]

theorem chk_sumtensor_copy (p : Params) (ops : List View) (h : sumPre (fun _ => 0) p ops.length = true) :
    specCheck .pureFresh ops.length (sumtensor_copy p ops) = true := by
  have hb := sumPre_elim h
  unfold sumtensor_copy
  apply AccOK.pureFresh (G := [])
  apply (AccOK.init ops.length [] []).calls
  exact sumCalls_ok p.n _ [] ops.length (fun i k => by simpa using chk_partCopy p.n k) (by intro a ha; cases ha)
    p.kinds 0 0 (by simpa using hb)

theorem chk_sumtensor_neg (p : Params) (ops : List View) (h : sumPre (fun _ => 0) p ops.length = true) :
    specCheck .pureFresh ops.length (sumtensor_neg p ops) = true := by
  have hb := sumPre_elim h
  unfold sumtensor_neg
  apply AccOK.pureFresh (G := [])
  apply (AccOK.init ops.length [] []).calls
  exact sumCalls_ok p.n _ [] ops.length (fun i k => by simpa using chk_partNeg p.n k) (by intro a ha; cases ha)
    p.kinds 0 0 (by simpa using hb)

theorem tensor_elementwise_ndefs (p : Params) (ops : List View) : ndefs (tensor_elementwise p ops).prog = 3 := by
  simp [tensor_elementwise, tensorCtor, ndefs_cons, ndefs_nil, Step.isWrite]

theorem AccOK.sumAdd {b : Nat} {W A0 : List Nat} (N : Nat) (hN : 0 < N) (ks : List Nat) :
    ∀ {A : Acc} {cur off : Nat} {G : List Nat}, AccOK b W A0 A G → cur ∈ G → cur < A.free →
      off + partTotal N ks ≤ b →
      AccOK b W A0 (Acc.sumAdd N A cur off ks).1 [(Acc.sumAdd N A cur off ks).2] ∧
      (Acc.sumAdd N A cur off ks).2 < (Acc.sumAdd N A cur off ks).1.free := by
  induction ks with
  | nil =>
    intro A cur off G h hg hc _
    refine ⟨h.mono ?_, hc⟩
    intro r hr
    have : r = cur := by simpa [Acc.sumAdd] using hr
    subst this; exact hg
  | cons k ks ih =>
    intro A cur off G h hg hc hoff
    have hbA := h.le_free
    simp only [partTotal] at hoff
    have hps := partSize_pos N k
    simp only [Acc.sumAdd]
    split
    · -- a dense part is added as it is
      rename_i hk
      have hk0 : k = 0 := by simpa using hk
      subst hk0
      have hcall := h.call (tensor_elementwise {} (dflt 2)) [cur, off] "" false
        (by simpa using chk_tensor_elementwise {} (dflt 2))
        (by intro a ha
            simp only [List.mem_cons, List.not_mem_nil, or_false] at ha
            rcases ha with rfl | rfl
            · exact hc
            · omega)
      have hfree : (A.call (tensor_elementwise {} (dflt 2)) [cur, off] "" false).free = A.free + 3 := by
        rw [Acc.call_free, tensor_elementwise_ndefs]
      exact ih hcall (by apply List.mem_append_right; simp [Built.at, tensor_elementwise, tensorCtor, relocReg])
        (by rw [hfree]; omega) (by simp [partSize] at hoff ⊢; omega)
    · -- any other part is converted with `full()` first
      have hB := chk_partFull N k hN
      have hargs : ∀ a ∈ regs off (partSize N k), a < A.free := by
        intro a ha; obtain ⟨j, hj, rfl⟩ := mem_regs.mp ha; omega
      have hcall1 := (h.call (partFull N k) (regs off (partSize N k)) "" false
        (by simpa [length_regs] using hB) hargs).mono (G' := G) (fun r hr => List.mem_append_left _ hr)
      have hY := (res0At_lt (args := regs off (partSize N k)) (free := A.free) hB (partFull_res_ne N k)).1
      have hcall2 := hcall1.call (tensor_elementwise {} (dflt 2))
        [cur, (partFull N k).res0At (partSize N k) (regs off (partSize N k)) A.free] "" false
        (by simpa using chk_tensor_elementwise {} (dflt 2))
        (by intro a ha
            rw [Acc.call_free]
            simp only [List.mem_cons, List.not_mem_nil, or_false] at ha
            rcases ha with rfl | rfl
            · omega
            · exact hY)
      have hfree : ((A.call (partFull N k) (regs off (partSize N k)) "" false).call (tensor_elementwise {} (dflt 2))
          [cur, (partFull N k).res0At (partSize N k) (regs off (partSize N k)) A.free] "" false).free =
          (A.call (partFull N k) (regs off (partSize N k)) "" false).free + 3 := by
        rw [Acc.call_free, tensor_elementwise_ndefs]
      exact ih hcall2 (by apply List.mem_append_right; simp [Built.at, tensor_elementwise, tensorCtor, relocReg])
        (by rw [hfree]; omega) (by omega)

theorem AccOK.sumFull {b : Nat} (N : Nat) (hN : 0 < N) (ks : List Nat) (hks : ks ≠ [])
    (hb : partTotal N ks ≤ b) :
    AccOK b [] [] ((Acc.init b).sumFull N ks).1 [((Acc.init b).sumFull N ks).2] ∧
    ((Acc.init b).sumFull N ks).2 < ((Acc.init b).sumFull N ks).1.free := by
  cases ks with
  | nil => exact absurd rfl hks
  | cons k ks =>
    simp only [Acc.sumFull, partTotal] at hb ⊢
    have hB := chk_partFull N k hN
    have hcall := (AccOK.init b [] []).call (partFull N k) (regs 0 (partSize N k)) "" false
      (by simpa [length_regs] using hB)
      (by intro a ha; obtain ⟨j, hj, rfl⟩ := mem_regs.mp ha; simp [Acc.init]; omega)
    have hY := res0At_lt (args := regs 0 (partSize N k)) (free := (Acc.init b).free) hB (partFull_res_ne N k)
    rw [length_regs] at hcall
    exact AccOK.sumAdd N hN ks hcall (List.mem_append_right _ hY.2) (by rw [Acc.call_free]; exact hY.1) (by omega)

def sumFullPre : Params → Nat → Bool :=
  fun p b => sumPre (fun _ => 0) p b && !p.kinds.isEmpty && decide (0 < p.n)

theorem sumFullPre_elim {p : Params} {b : Nat} (h : sumFullPre p b = true) :
    partTotal p.n p.kinds ≤ b ∧ p.kinds ≠ [] ∧ 0 < p.n := by
  simp only [sumFullPre, Bool.and_eq_true, Bool.not_eq_true', decide_eq_true_eq] at h
  refine ⟨by simpa using sumPre_elim h.1.1, ?_, h.2⟩
  intro he; rw [he] at h; simp at h

theorem chk_sumtensor_full (p : Params) (ops : List View) (h : sumFullPre p ops.length = true) :
    specCheck .pureFresh ops.length (sumtensor_full p ops) = true := by
  obtain ⟨hb, hks, hN⟩ := sumFullPre_elim h
  have R := AccOK.sumFull p.n hN p.kinds hks hb
  unfold sumtensor_full
  exact (R.1.out "data" _ (List.mem_singleton.mpr rfl)).pureFresh

theorem chk_sumtensor_double (p : Params) (ops : List View) (h : sumFullPre p ops.length = true) :
    specCheck .pureFresh ops.length (sumtensor_double p ops) = true := by
  obtain ⟨hb, hks, hN⟩ := sumFullPre_elim h
  have R := AccOK.sumFull p.n hN p.kinds hks hb
  unfold sumtensor_double
  refine (R.1.call copyB [_] "arr" true chk_copyB ?_).pureFresh
  intro a ha
  have : a = ((Acc.init ops.length).sumFull p.n p.kinds).2 := by simpa using ha
  subst this; exact R.2

theorem regs_lt {off n b : Nat} (h : off + n ≤ b) : ∀ a ∈ regs off n, a < b := by
  intro a ha; obtain ⟨j, hj, rfl⟩ := mem_regs.mp ha; omega

theorem chk_sumtensor_innerprod (p : Params) (ops : List View) (h : sumPre (fun _ => 0) p ops.length = true) :
    specCheck .pureFresh ops.length (sumtensor_innerprod p ops) = true := by
  have hb := sumPre_elim h
  unfold sumtensor_innerprod
  simp only []
  apply AccOK.pureFresh (G := [])
  apply (AccOK.init ops.length [] []).calls
  exact sumCalls_ok p.n _ _ ops.length
    (fun i k => by rw [length_regs]; exact chk_noRes _ _ (chk_freshB _))
    (regs_lt (by omega)) p.kinds 0 0 (by simpa using hb)

theorem chk_partMttkrp (N m k : Nat) : specCheck .pureFresh (partSize N k + m) (partMttkrp N m k) = true := by
  unfold partMttkrp partSize
  split
  · simpa using chk_tensor_mttkrp {} (dflt (1 + m))
  · exact chk_freshB _
  · exact chk_freshAsFB _
  · exact chk_freshAsFB _
  · exact chk_freshAsFB _

theorem partMttkrp_res_ne (N m k : Nat) : (partMttkrp N m k).res ≠ [] := by
  unfold partMttkrp
  split <;> simp [tensor_mttkrp, freshB, freshAsFB]

theorem chk_sumtensor_mttkrp (p : Params) (ops : List View) (h : sumPre (fun _ => 0) p ops.length = true) :
    specCheck .pureFresh ops.length (sumtensor_mttkrp p ops) = true := by
  have hb := sumPre_elim h
  unfold sumtensor_mttkrp
  simp only []
  cases hks : p.kinds with
  | nil => simp only []; chk_simp2
  | cons k0 ks =>
    simp only []
    rw [hks] at hb
    simp only [partTotal] at hb
    have ht : partTotal p.n (k0 :: ks) = partSize p.n k0 + partTotal p.n ks := rfl
    rw [ht]
    generalize hm : ops.length - (partSize p.n k0 + partTotal p.n ks) = m
    have hmb : partSize p.n k0 + partTotal p.n ks + m ≤ ops.length := by omega
    have hextra : ∀ a ∈ regs (partSize p.n k0 + partTotal p.n ks) m, a < ops.length := regs_lt (by omega)
    have hB0 : specCheck .pureFresh (partSize p.n k0 + m) (partMttkrp p.n m k0).unnamed = true := by
      rw [specCheck_unnamed]; exact chk_partMttkrp _ _ _
    have hne : (partMttkrp p.n m k0).unnamed.res ≠ [] := by
      have := partMttkrp_res_ne p.n m k0
      simpa [Built.unnamed] using this
    have hargs0 : ∀ a ∈ regs 0 (partSize p.n k0) ++ regs (partSize p.n k0 + partTotal p.n ks) m, a < ops.length := by
      intro a ha
      rcases List.mem_append.mp ha with h | h
      · exact regs_lt (by omega) a h
      · exact hextra a h
    have hlen0 : (regs 0 (partSize p.n k0) ++ regs (partSize p.n k0 + partTotal p.n ks) m).length = partSize p.n k0 + m := by
      simp [length_regs]
    have hY := res0At_lt (args := regs 0 (partSize p.n k0) ++ regs (partSize p.n k0 + partTotal p.n ks) m)
      (free := ops.length) hB0 hne
    have hcall0 := ((AccOK.init ops.length [] []).call (partMttkrp p.n m k0).unnamed _ "arr" true
      (by rw [hlen0]; exact hB0) (by simpa [Acc.init] using hargs0)).mono
      (G' := [(partMttkrp p.n m k0).unnamed.res0At (partSize p.n k0 + m)
        (regs 0 (partSize p.n k0) ++ regs (partSize p.n k0 + partTotal p.n ks) m) ops.length]) (by
        intro r hr
        have : r = _ := List.mem_singleton.mp hr
        subst this
        apply List.mem_append_right
        rw [at_res_snd, hlen0]
        exact hY.2)
    have hcalls := hcall0.calls ((sumCalls p.n (fun _ k => ⟨(partMttkrp p.n m k).prog, []⟩)
        (regs (partSize p.n k0 + partTotal p.n ks) m) 0 0 (k0 :: ks)).drop 1) (by
      simp only [sumCalls, List.drop_succ_cons, List.drop_zero]
      intro t ht
      have := sumCalls_ok p.n (fun _ k => ⟨(partMttkrp p.n m k).prog, []⟩)
        (regs (partSize p.n k0 + partTotal p.n ks) m) ops.length
        (fun i k => by rw [length_regs]; exact chk_noRes _ _ (chk_partMttkrp _ _ _)) hextra ks 1
        (0 + partSize p.n k0) (by omega) t ht
      refine ⟨this.1, fun a ha => ?_⟩
      have := this.2 a ha
      rw [Acc.call_free]; simp only [Acc.init]; omega)
    apply AccOK.pureFresh
    exact hcalls.raw _ (R0 := [_]) (fun r hr => hr) (Blk.writes_good (by intro k hk; cases hk) _ (by
      intro s hs
      obtain ⟨i, _, rfl⟩ := List.mem_map.mp hs
      exact ⟨_, _, rfl, List.mem_singleton.mpr rfl⟩))

theorem chk_partTtv (N : Nat) (dims : List Nat) (sc sp : Bool) (k : Nat) :
    specCheck .pureFresh (partSize N k + dims.length) (partTtv N dims sc sp k) = true := by
  unfold partTtv partSize
  split
  · simpa using chk_tensor_ttv (ttvP N dims sc) (dflt (1 + dims.length))
  · split
    · exact chk_noRes _ _ (chk_freshB _)
    · split
      · exact chk_fresh2B _ _ _
      · unfold freshB; chk_simp2
  · simpa using chk_ktensor_ttv { n := N, dims := remOf N dims, flag := if sc then "scalar" else "" }
      (dflt (N + 1 + dims.length))
  · simpa using chk_ttensor_ttv (ttvTP 1 N dims (if sc then "scalar" else "")) (dflt (N + 1 + dims.length)) (by
      simp only [ttPre, regsBelow, ttvTP, dflt_length, Bool.and_eq_true, decide_eq_true_eq, List.all_eq_true]
      refine ⟨⟨by simp, by omega⟩, ?_⟩
      intro r hr; obtain ⟨j, hj, rfl⟩ := mem_regs.mp hr; omega)
  · simpa using chk_ttensor_ttv (ttvTP 2 N dims (if sc then "scalar" else if sp then "sp" else ""))
      (dflt (N + 2 + dims.length)) (by
      simp only [ttPre, regsBelow, ttvTP, dflt_length, Bool.and_eq_true, decide_eq_true_eq, List.all_eq_true]
      refine ⟨⟨by simp, by omega⟩, ?_⟩
      intro r hr; obtain ⟨j, hj, rfl⟩ := mem_regs.mp hr; omega)

theorem chk_sumtensor_ttv (p : Params) (ops : List View) (h : sumPre (·.dims.length) p ops.length = true) :
    specCheck .pureFresh ops.length (sumtensor_ttv p ops) = true := by
  have hb := sumPre_elim h
  unfold sumtensor_ttv
  simp only []
  apply AccOK.pureFresh (G := [])
  apply (AccOK.init ops.length [] []).calls
  exact sumCalls_ok p.n _ _ ops.length
    (fun i k => by rw [length_regs]; exact chk_partTtv _ _ _ _ _)
    (regs_lt (by omega)) p.kinds 0 0 (by simp [Acc.init]; omega)

/-! ### the whole table -/

/-! ### parameter corner cases -/

theorem chk_tensor_symmetrize (p : Params) (ops : List View) :
    specCheck .pureFresh ops.length (tensor_symmetrize p ops) = true := by
  unfold tensor_symmetrize; (repeat' split) <;> chk_simp2

theorem chk_tensor_ttsv (p : Params) (ops : List View) :
    specCheck .pureFresh ops.length (tensor_ttsv p ops) = true := by
  unfold tensor_ttsv; (repeat' split) <;> chk_simp2

theorem chk_func_khatrirao (p : Params) (ops : List View) :
    specCheck .pureFresh ops.length (func_khatrirao p ops) = true := by
  unfold func_khatrirao; (repeat' split) <;> chk_simp2

theorem table2_sound : ∀ e ∈ table2, ∀ (p : Params) (ops : List View), e.check p ops = true := by
  intro e he p ops
  simp only [table2, List.mem_cons, List.mem_singleton, List.not_mem_nil, or_false] at he
  unfold Entry.check
  by_cases hpre : e.pre p ops.length = true
  · simp only [hpre, Bool.not_true, Bool.false_or]
    rcases he with rfl | rfl | rfl | rfl | rfl | rfl | rfl | rfl | rfl | rfl | rfl | rfl | rfl | rfl | rfl |
      rfl | rfl | rfl | rfl | rfl | rfl | rfl | rfl | rfl | rfl | rfl | rfl | rfl | rfl | rfl | rfl | rfl |
      rfl | rfl | rfl | rfl | rfl | rfl | rfl | rfl | rfl | rfl
    · exact chk_reads_only p ops
    · exact chk_tenmat_init2 p ops hpre
    · exact chk_tenmat_copy p ops
    · exact chk_tenmat_ctranspose p ops
    · exact chk_tenmat_double p ops
    · exact chk_tenmat_arith p ops
    · exact chk_tenmat_matmul p ops
    · exact chk_sptenmat_init2 p ops hpre
    · exact chk_sptenmat_copy p ops
    · exact chk_sptenmat_neg p ops
    · exact chk_sptenmat_from_array p ops
    · exact chk_sptenmat_to_sptensor p ops
    · exact chk_sptenmat_full p ops
    · exact chk_tensor_neg p ops
    · exact chk_ktensor_extract p ops hpre
    · exact chk_ktensor_scale p ops hpre
    · exact chk_ktensor_addsub p ops hpre
    · exact chk_ktensor_double p ops hpre
    · exact chk_ktensor_to_tenmat p ops hpre
    · exact chk_ktensor_tovec p ops
    · exact chk_ktensor_mask p ops hpre
    · exact chk_ktensor_tolist_mode p ops hpre
    · exact chk_ktensor_mttkrp p ops
    · exact chk_ttensor_copy p ops hpre
    · exact chk_ttensor_full p ops hpre
    · exact chk_ttensor_double p ops hpre
    · exact chk_ttensor_ttm p ops hpre
    · exact chk_ttensor_ttv p ops hpre
    · exact chk_ttensor_permute p ops hpre
    · exact chk_ttensor_scale p ops hpre
    · exact chk_ttensor_reconstruct p ops hpre
    · exact chk_ttensor_mttkrp p ops hpre
    · exact chk_sumtensor_copy p ops hpre
    · exact chk_sumtensor_neg p ops hpre
    · exact chk_sumtensor_full p ops hpre
    · exact chk_sumtensor_double p ops hpre
    · exact chk_sumtensor_innerprod p ops hpre
    · exact chk_sumtensor_mttkrp p ops hpre
    · exact chk_sumtensor_ttv p ops hpre
    · exact chk_tensor_symmetrize p ops
    · exact chk_tensor_ttsv p ops
    · exact chk_func_khatrirao p ops
  · simp [hpre]

/-- Every entry of the operation table (parts 3 and 4) passes the static check of its
specification, for all parameters and every operand list that satisfies the entry's
precondition. -/
theorem table_sound : ∀ e ∈ table, ∀ (p : Params) (ops : List View), e.check p ops = true := by
  intro e he
  rcases List.mem_append.mp he with h | h
  · exact table1_sound e h
  · exact table2_sound e h

end Pyttb.Heap
