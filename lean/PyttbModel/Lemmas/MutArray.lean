/-
C04, common part: the abstraction relations between a stored tensor and the abstract
mutable array, and the two primitives every write is made of — enlarging (zero filled)
and scattering values (last write wins) — on the dense side.
-/
import PyttbModel.Ops.IndexRun
import PyttbModel.Spec.MutArray
import PyttbModel.Lemmas.Arr
import PyttbModel.Lemmas.ShapeOps
import PyttbModel.Lemmas.ConvertSparse
set_option linter.unusedSimpArgs false
set_option linter.unusedVariables false
set_option linter.unusedSectionVars false

namespace Pyttb

variable {α : Type}

/-! ### small list facts -/

theorem le_maxNat_foldl (l : List Nat) (a : Nat) : a ≤ l.foldl max a ∧ ∀ x ∈ l, x ≤ l.foldl max a := by
  induction l generalizing a with
  | nil => simp
  | cons b l ih =>
    simp only [List.foldl_cons, List.mem_cons]
    obtain ⟨h1, h2⟩ := ih (max a b)
    refine ⟨Nat.le_trans (Nat.le_max_left a b) h1, ?_⟩
    rintro x (rfl | hx)
    · exact Nat.le_trans (Nat.le_max_right a x) h1
    · exact h2 x hx

theorem le_maxNat {l : List Nat} {x : Nat} (h : x ∈ l) : x ≤ maxNat l :=
  (le_maxNat_foldl l 0).2 x h

theorem inBounds_of_getD {s i : List Nat} (hl : i.length = s.length)
    (h : ∀ k, k < s.length → i.getD k 0 < s.getD k 0) : InBounds s i := by
  induction s generalizing i with
  | nil => cases i with
    | nil => trivial
    | cons _ _ => simp at hl
  | cons a s ih => cases i with
    | nil => simp at hl
    | cons b i =>
      simp only [InBounds]
      refine ⟨by simpa using h 0 (by simp), ih (by simpa using hl) ?_⟩
      intro k hk
      simpa using h (k + 1) (by simpa using hk)

theorem InBounds.getD_lt' {s i : List Nat} (h : InBounds s i) (k : Nat) (hk : k < s.length) :
    i.getD k 0 < s.getD k 0 := by
  induction s generalizing i k with
  | nil => simp at hk
  | cons a s ih => cases i with
    | nil => simp [InBounds] at h
    | cons b i =>
      simp only [InBounds] at h
      cases k with
      | zero => simpa using h.1
      | succ k => simpa using ih h.2 k (by simpa using hk)

/-! ### the abstraction relation of the dense class -/

/-- A stored dense tensor represents the abstract array: same shape, same cells. -/
structure DRel [Zero α] (T : Dense α) (m : MArr α) : Prop where
  wf : T.WF
  shape : T.shape = m.shape
  cell : ∀ i, InBounds T.shape i → T.get i = m.get i

theorem MArr.get_of_inBounds [Zero α] (m : MArr α) {i : List Nat} (h : InBounds m.shape i) :
    m.get i = m.cell i := by
  simp [MArr.get, (inBounds_iff m.shape i).2 h]

theorem MArr.get_of_not_inBounds [Zero α] (m : MArr α) {i : List Nat} (h : ¬ InBounds m.shape i) :
    m.get i = 0 := by
  have : inBounds m.shape i = false := by
    cases hb : inBounds m.shape i with
    | false => rfl
    | true => exact absurd ((inBounds_iff _ _).1 hb) h
  simp [MArr.get, this]

theorem DRel.ofDense [Zero α] (T : Dense α) (hT : T.WF) : DRel T (MArr.ofDense T) :=
  ⟨hT, rfl, fun i hi => by
    show T.get i = (MArr.ofDense T).get i
    rw [MArr.get_of_inBounds]; rfl; exact hi⟩

/-! ### one scattered value -/

theorem Dense.get_set [Zero α] (T : Dense α) (hT : T.WF) {sub i : List Nat}
    (hs : InBounds T.shape sub) (hi : InBounds T.shape i) (v : α) :
    (⟨T.shape, T.data.set (sub2ind T.shape sub) v⟩ : Dense α).get i = if i = sub then v else T.get i := by
  have hlt : sub2ind T.shape sub < T.data.length := by rw [hT]; exact sub2ind_lt hs
  simp only [Dense.get, List.getD_eq_getElem?_getD, List.getElem?_set]
  by_cases h : i = sub
  · subst h; simp [hlt]
  · have hne : sub2ind T.shape sub ≠ sub2ind T.shape i := fun he => h (sub2ind_inj hi hs he.symm)
    simp [h, hne]

theorem MArr.assign_get [Zero α] (m : MArr α) (sub : List Nat) (v : α) (i : List Nat)
    (hi : InBounds m.shape i) : (m.assign sub v).get i = if i = sub then v else m.get i := by
  have h1 : InBounds (m.assign sub v).shape i := hi
  rw [MArr.get_of_inBounds _ h1, MArr.get_of_inBounds _ hi]
  rfl

@[simp] theorem MArr.assign_shape (m : MArr α) (sub : List Nat) (v : α) : (m.assign sub v).shape = m.shape := rfl

@[simp] theorem MArr.assignAll_shape (m : MArr α) (l : List (List Nat × α)) : (m.assignAll l).shape = m.shape := by
  induction l generalizing m with
  | nil => rfl
  | cons p l ih => simp only [MArr.assignAll, List.foldl_cons] at *; rw [ih]; rfl

@[simp] theorem Dense.scatter_shape (T : Dense α) (l : List (List Nat × α)) : (T.scatter l).shape = T.shape := by
  induction l generalizing T with
  | nil => rfl
  | cons p l ih => simp only [Dense.scatter, List.foldl_cons] at *; rw [ih]

/-- Scattering values into the data is assigning the cells one after the other. -/
theorem DRel.scatter [Zero α] {T : Dense α} {m : MArr α} (h : DRel T m) (l : List (List Nat × α))
    (hl : ∀ p ∈ l, InBounds T.shape p.1) : DRel (T.scatter l) (m.assignAll l) := by
  induction l generalizing T m with
  | nil => exact h
  | cons p l ih =>
    simp only [Dense.scatter, MArr.assignAll, List.foldl_cons]
    have hp : InBounds T.shape p.1 := hl p (by simp)
    apply ih (T := ⟨T.shape, T.data.set (sub2ind T.shape p.1) p.2⟩) (m := m.assign p.1 p.2)
    · refine ⟨?_, h.shape, ?_⟩
      · show (T.data.set _ _).length = numel T.shape
        rw [List.length_set]; exact h.wf
      · intro i hi
        have hi' : InBounds T.shape i := hi
        rw [Dense.get_set T h.wf hp hi', MArr.assign_get m p.1 p.2 i (h.shape ▸ hi'), h.cell i hi']
    · intro q hq; exact hl q (by simp [hq])

/-! ### enlarging -/

theorem MArr.grow_shape [Zero α] (m : MArr α) (s' : List Nat) : (m.grow s').shape = s' := rfl

theorem DRel.growTo [Zero α] {T : Dense α} {m : MArr α} (h : DRel T m) (s' : List Nat) :
    DRel (T.growTo s') (m.grow s') := by
  refine ⟨Dense.ofFn_WF _ _, rfl, ?_⟩
  intro j hj
  have hj' : InBounds s' j := hj
  rw [MArr.get_of_inBounds _ (by exact hj')]
  simp only [Dense.growTo]
  rw [Dense.ofFn_get _ _ hj']
  simp only [MArr.grow, ← h.shape]
  by_cases hd : (List.drop T.shape.length j).all (· == 0) = true
  · by_cases hb : InBounds T.shape (List.take T.shape.length j)
    · simp [hd, (inBounds_iff _ _).2 hb, h.cell _ hb]
    · have hb' : inBounds T.shape (List.take T.shape.length j) = false := by
        cases hq : inBounds T.shape (List.take T.shape.length j) with
        | false => rfl
        | true => exact absurd ((inBounds_iff _ _).1 hq) hb
      rw [MArr.get_of_not_inBounds m (by rw [← h.shape]; exact hb)]
      simp [hb']
  · simp [hd]

theorem DRel.grow_self [Zero α] {T : Dense α} {m : MArr α} (h : DRel T m) :
    DRel T (m.grow T.shape) := by
  refine ⟨h.wf, rfl, ?_⟩
  intro i hi
  rw [MArr.get_of_inBounds _ (by exact hi)]
  simp only [MArr.grow, ← h.shape]
  have hl := hi.length_eq
  rw [← hl, List.drop_length, List.take_length]
  simp [h.cell i hi]

theorem DRel.resize [Zero α] {T : Dense α} {m : MArr α} (h : DRel T m) (s' : List Nat) :
    DRel (T.resize s') (m.grow s') := by
  unfold Dense.resize
  by_cases he : s' = T.shape
  · subst he; simp [h.grow_self]
  · have : (s' == T.shape) = false := by simpa using he
    simp [this, h.growTo s']

@[simp] theorem Dense.resize_shape [Zero α] (T : Dense α) (s' : List Nat) : (T.resize s').shape = s' := by
  unfold Dense.resize
  by_cases he : s' = T.shape
  · subst he; simp
  · have : (s' == T.shape) = false := by simpa using he
    simp [this, Dense.growTo]

/-- The shape of every write: enlarge, then assign.  When the model computes the same new
shape and the same assignments as the specification, the results are related. -/
theorem DRel.write [Zero α] {T : Dense α} {m : MArr α} (h : DRel T m) (s' : List Nat)
    (asg : List (List Nat × α)) (hin : ∀ p ∈ asg, InBounds s' p.1) :
    DRel ((T.resize s').scatter asg) ((m.grow s').assignAll asg) :=
  (h.resize s').scatter asg (by simpa using hin)

/-! ### every assignment of a write lands inside the new shape -/

theorem pySlice_lt {len : Nat} {a b c : Option Int} {l : List Nat} (h : pySlice len a b c = .ok l) :
    ∀ i ∈ l, i < len := by
  unfold pySlice at h
  simp only at h
  split at h
  · cases h
  · split at h
    · cases h
      intro i hi
      exact List.mem_range.1 (List.mem_filter.1 hi).1
    · cases h
      intro i hi
      exact List.mem_range.1 (List.mem_filter.1 (List.mem_reverse.1 hi)).1

theorem regionPart_lt {ext : Nat} {isNew grow : Bool} {p : RPart} {r : Nat × List Nat × Bool}
    (h : MArr.regionPart ext isNew grow p = .ok r) : ∀ i ∈ r.2.1, i < r.1 := by
  cases p with
  | int i =>
    simp only [MArr.regionPart] at h
    split at h
    · split at h
      · cases h; intro j hj; simp at hj; subst hj; simp; omega
      · cases h
    · split at h
      · cases h; intro j hj; simp at hj; subst hj; simp; omega
      · cases h
  | list is =>
    simp only [MArr.regionPart] at h
    split at h
    · cases h
    · split at h
      · cases h; intro j hj
        have hj' : j ∈ is := hj
        have := le_maxNat hj'
        show j < max ext (maxNat is + 1)
        omega
      · cases h
  | slice a b c =>
    simp only [MArr.regionPart, bind, Except.bind] at h
    cases he : MArr.sliceExtent ext isNew grow b with
    | error e => rw [he] at h; cases h
    | ok e =>
      rw [he] at h
      simp only at h
      cases hs : pySlice e a b c with
      | error e' => rw [hs] at h; cases h
      | ok idx =>
        rw [hs] at h
        cases h
        exact pySlice_lt hs

theorem outerF_inBounds (rs : List (Nat × List Nat × Bool)) (h : ∀ r ∈ rs, ∀ i ∈ r.2.1, i < r.1) :
    ∀ t ∈ outerF (rs.map (·.2.1)), InBounds (rs.map (·.1)) t := by
  induction rs with
  | nil => intro t ht; simp [outerF] at ht; subst ht; trivial
  | cons r rs ih =>
    intro t ht
    simp only [List.map_cons, outerF, List.mem_flatMap, List.mem_map] at ht
    obtain ⟨t', ht', i, hi, rfl⟩ := ht
    simp only [List.map_cons, InBounds]
    exact ⟨h r (by simp) i hi, ih (fun r' hr' => h r' (by simp [hr'])) t' ht'⟩

theorem regionParts_lt {grow : Bool} {s : List Nat} {parts : List RPart} {rs : List (Nat × List Nat × Bool)}
    (h : MArr.regionParts grow s parts = .ok rs) : ∀ r ∈ rs, ∀ i ∈ r.2.1, i < r.1 := by
  induction parts generalizing s rs with
  | nil =>
    cases s with
    | nil => simp [MArr.regionParts] at h; subst h; simp
    | cons e es => simp [MArr.regionParts] at h
  | cons p ps ih =>
    cases s with
    | nil =>
      simp only [MArr.regionParts] at h
      cases grow with
      | false => simp [bind, Except.bind] at h
      | true =>
        simp only [Bool.not_true, Bool.false_eq_true, ↓reduceIte, bind, Except.bind, pure, Except.pure] at h
        cases h1 : MArr.regionPart 0 true true p with
        | error e => rw [h1] at h; cases h
        | ok r =>
          rw [h1] at h
          cases h2 : MArr.regionParts true [] ps with
          | error e => rw [h2] at h; cases h
          | ok rs' =>
            rw [h2] at h
            cases h
            intro r' hr'
            rcases List.mem_cons.1 hr' with rfl | hr''
            · exact regionPart_lt h1
            · exact ih h2 r' hr''
    | cons e es =>
      simp only [MArr.regionParts, bind, Except.bind, pure, Except.pure] at h
      cases h1 : MArr.regionPart e false grow p with
      | error e' => rw [h1] at h; cases h
      | ok r =>
        rw [h1] at h
        cases h2 : MArr.regionParts grow es ps with
        | error e' => rw [h2] at h; cases h
        | ok rs' =>
          rw [h2] at h
          cases h
          intro r' hr'
          rcases List.mem_cons.1 hr' with rfl | hr''
          · exact regionPart_lt h1
          · exact ih h2 r' hr''

theorem regionParts_length {grow : Bool} {s : List Nat} {parts : List RPart} {rs : List (Nat × List Nat × Bool)}
    (h : MArr.regionParts grow s parts = .ok rs) : rs.length = parts.length ∧ s.length ≤ parts.length := by
  induction parts generalizing s rs with
  | nil =>
    cases s with
    | nil => simp [MArr.regionParts] at h; subst h; simp
    | cons e es => simp [MArr.regionParts] at h
  | cons p ps ih =>
    cases s with
    | nil =>
      simp only [MArr.regionParts] at h
      cases grow with
      | false => simp [bind, Except.bind] at h
      | true =>
        simp only [Bool.not_true, Bool.false_eq_true, ↓reduceIte, bind, Except.bind, pure, Except.pure] at h
        cases h1 : MArr.regionPart 0 true true p with
        | error e => rw [h1] at h; cases h
        | ok r =>
          rw [h1] at h
          cases h2 : MArr.regionParts true [] ps with
          | error e => rw [h2] at h; cases h
          | ok rs' => rw [h2] at h; cases h; simp [(ih h2).1]
    | cons e es =>
      simp only [MArr.regionParts, bind, Except.bind, pure, Except.pure] at h
      cases h1 : MArr.regionPart e false grow p with
      | error e' => rw [h1] at h; cases h
      | ok r =>
        rw [h1] at h
        cases h2 : MArr.regionParts grow es ps with
        | error e' => rw [h2] at h; cases h
        | ok rs' => rw [h2] at h; cases h; simp [(ih h2).1, (ih h2).2]

theorem linTarget_inBounds {s : List Nat} {i : Int} {x : List Nat}
    (h : MArr.linTarget s i = .ok x) : InBounds s x := by
  unfold MArr.linTarget at h
  simp only at h
  have hc : MArr.cells s ≤ numel s := by unfold MArr.cells; split <;> simp
  by_cases hr : 0 ≤ (if i < 0 then i + (MArr.cells s : Int) else i) ∧
      (if i < 0 then i + (MArr.cells s : Int) else i) < (MArr.cells s : Int)
  · rw [if_pos hr] at h
    cases h
    apply ind2sub_inBounds
    omega
  · rw [if_neg hr] at h
    cases h

theorem linTargets_inBounds {s : List Nat} {idx : List Int} {t : List (List Nat)}
    (h : MArr.linTargets s idx = .ok t) : ∀ x ∈ t, InBounds s x := by
  unfold MArr.linTargets at h
  induction idx generalizing t with
  | nil => simp [List.mapM_nil, pure, Except.pure] at h; subst h; simp
  | cons i idx ih =>
    rw [List.mapM_cons] at h
    simp only [bind, Except.bind, pure, Except.pure] at h
    split at h
    · cases h
    · next v hv =>
      split at h
      · cases h
      · next vs hvs =>
        cases h
        intro x hx
        rcases List.mem_cons.1 hx with rfl | hx'
        · exact linTarget_inBounds hv
        · exact ih hvs x hx'

theorem mem_zip_fst {β γ : Type} {l : List β} {l' : List γ} {p : β × γ} (h : p ∈ l.zip l') : p.1 ∈ l :=
  (List.of_mem_zip (a := p.1) (b := p.2) h).1

/-- Every assignment of a write addresses a cell inside the new shape. -/
theorem resolveWrite_inBounds {s : List Nat} {key : Key} {rhs : Rhs α} {s' : List Nat}
    {asg : List (List Nat × α)} (h : MArr.resolveWrite s key rhs = .ok (s', asg)) :
    ∀ p ∈ asg, InBounds s' p.1 := by
  cases key with
  | subs rows =>
    cases rows with
    | nil => simp [MArr.resolveWrite] at h
    | cons r0 rest =>
      simp only [MArr.resolveWrite] at h
      split at h
      · cases h
      · next hc =>
        simp only [not_or] at hc
        obtain ⟨hw0, hwn, hrag⟩ := hc
        cases hv : MArr.listValues rhs (r0 :: rest).length with
        | error e => rw [hv] at h; cases h
        | ok vals =>
          rw [hv] at h
          simp only [bind, Except.bind, pure, Except.pure] at h
          cases h
          intro p hp
          have hr : p.1 ∈ r0 :: rest := mem_zip_fst hp
          have hlen : p.1.length = r0.length := by
            have : ¬ ((r0 :: rest).any fun r => r.length != r0.length) = true := hrag
            rw [List.any_eq_true] at this
            by_cases hne : p.1.length = r0.length
            · exact hne
            · exact absurd ⟨p.1, hr, by simpa using hne⟩ this
          apply inBounds_of_getD
          · simp [hlen]
          · intro k hk
            simp only [List.length_map, List.length_range] at hk
            simp only [List.getD_eq_getElem?_getD, List.getElem?_map, List.getElem?_range hk, Option.map_some,
              Option.getD_some]
            have : p.1[k]?.getD 0 ≤ maxNat ((r0 :: rest).map fun r => r[k]?.getD 0) :=
              le_maxNat (List.mem_map.2 ⟨p.1, hr, rfl⟩)
            omega
  | region parts =>
    simp only [MArr.resolveWrite] at h
    split at h
    · cases h
    · cases hr : MArr.regionParts true s parts with
      | error e => rw [hr] at h; cases h
      | ok rs =>
        rw [hr] at h
        simp only [bind, Except.bind, pure, Except.pure] at h
        split at h
        · cases h
        · cases h
          intro p hp
          exact outerF_inBounds rs (regionParts_lt hr) p.1 (mem_zip_fst hp)
  | lin i =>
    simp only [MArr.resolveWrite, MArr.linIdx, bind, Except.bind, pure, Except.pure] at h
    split at h
    · cases h
    · next t ht =>
      split at h
      · cases h
      · cases h
        intro p hp
        exact linTargets_inBounds ht p.1 (mem_zip_fst hp)
  | linSlice a b c =>
    simp only [MArr.resolveWrite, MArr.linIdx, bind, Except.bind, pure, Except.pure] at h
    split at h
    · cases h
    · next idx hidx =>
      split at h
      · cases h
      · next t ht =>
        split at h
        · cases h
        · cases h
          intro p hp
          exact linTargets_inBounds ht p.1 (mem_zip_fst hp)
  | linList is =>
    simp only [MArr.resolveWrite, MArr.linIdx, bind, Except.bind, pure, Except.pure] at h
    split at h
    · cases h
    · next t ht =>
      split at h
      · cases h
      · cases h
        intro p hp
        exact linTargets_inBounds ht p.1 (mem_zip_fst hp)

/-! ### what a cell holds after a list of assignments -/

theorem kvLast_cons [Zero α] (p : List Nat × α) (l : List (List Nat × α)) (i : List Nat) :
    kvLast (p :: l) i = if i ∈ l.map (·.1) then kvLast l i else if p.1 = i then p.2 else 0 := by
  unfold kvLast
  rw [List.reverse_cons, List.find?_append]
  by_cases h : i ∈ l.map (·.1)
  · obtain ⟨q, hq, rfl⟩ := List.mem_map.1 h
    have : (l.reverse.find? (fun e => e.1 == q.1)).isSome := by
      rw [List.find?_isSome]
      exact ⟨q, List.mem_reverse.2 hq, by simp⟩
    obtain ⟨r, hr⟩ := Option.isSome_iff_exists.1 this
    simp [hr, h]
  · have : l.reverse.find? (fun e => e.1 == i) = none := by
      rw [List.find?_eq_none]
      intro e he hei
      simp only [beq_iff_eq] at hei
      exact h (List.mem_map.2 ⟨e, List.mem_reverse.1 he, hei⟩)
    simp only [this, Option.none_or, h, ↓reduceIte, List.find?_cons, List.find?_nil]
    by_cases hp : p.1 = i
    · simp [hp]
    · have : (p.1 == i) = false := by simpa using hp
      simp [hp, this]

/-- After assigning a list of cells, an addressed cell holds the LAST value assigned to it
and every other cell is unchanged. -/
theorem MArr.assignAll_get [Zero α] (m : MArr α) (l : List (List Nat × α)) (i : List Nat)
    (hi : InBounds m.shape i) :
    (m.assignAll l).get i = if i ∈ l.map (·.1) then kvLast l i else m.get i := by
  induction l generalizing m with
  | nil => simp [MArr.assignAll]
  | cons p l ih =>
    have : (m.assignAll (p :: l)) = (m.assign p.1 p.2).assignAll l := rfl
    rw [this, ih (m.assign p.1 p.2) hi, MArr.assign_get m p.1 p.2 i hi, kvLast_cons]
    by_cases h1 : i ∈ l.map (·.1)
    · simp [h1]
    · by_cases h2 : i = p.1
      · subst h2; simp [h1]
      · have h3 : ¬ p.1 = i := fun h => h2 h.symm
        simp [h1, h2, h3]

/-- Cells of the enlarged array: an old cell keeps its value (under the subscript padded
with zeros), every new cell is zero. -/
theorem MArr.grow_get [Zero α] (m : MArr α) (s' : List Nat) (j : List Nat) (hj : InBounds s' j) :
    (m.grow s').get j =
      if (j.drop m.shape.length).all (· == 0) then m.get (j.take m.shape.length) else 0 := by
  rw [MArr.get_of_inBounds _ (by exact hj)]
  rfl

end Pyttb
