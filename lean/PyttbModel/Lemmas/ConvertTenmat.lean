/-
C01, dense matricization: `tensor.to_tenmat(rdims, cdims)` / `tenmat.to_tensor()`.
-/
import PyttbModel.Lemmas.Arr
import PyttbModel.Lemmas.Perm
import PyttbModel.Lemmas.KhatriRao
import PyttbModel.Ops.Dense
namespace Pyttb
variable {α : Type}

theorem sub2ind_append (s₁ s₂ i₁ i₂ : List Nat) (hl : i₁.length = s₁.length) :
    sub2ind (s₁ ++ s₂) (i₁ ++ i₂) = sub2ind s₁ i₁ + numel s₁ * sub2ind s₂ i₂ := by
  induction s₁ generalizing i₁ with
  | nil =>
    cases i₁ with
    | nil => simp [sub2ind]
    | cons j i => simp at hl
  | cons a s ih =>
    cases i₁ with
    | nil => simp at hl
    | cons j i =>
      simp only [List.length_cons, Nat.add_right_cancel_iff] at hl
      simp only [List.cons_append, sub2ind, numel_cons, ih i hl, Nat.mul_add, Nat.mul_assoc]
      omega

theorem InBounds_append {s₁ i₁ s₂ i₂ : List Nat} (h1 : InBounds s₁ i₁) (h2 : InBounds s₂ i₂) :
    InBounds (s₁ ++ s₂) (i₁ ++ i₂) := by
  induction s₁ generalizing i₁ with
  | nil => cases i₁ <;> simp_all [InBounds]
  | cons a s ih =>
    cases i₁ with
    | nil => simp [InBounds] at h1
    | cons b i => simp only [InBounds, List.cons_append] at h1 ⊢; exact ⟨h1.1, ih h1.2⟩

theorem InBounds_reverse {s i : List Nat} (h : InBounds s i) : InBounds s.reverse i.reverse := by
  induction s generalizing i with
  | nil => cases i <;> simp_all [InBounds]
  | cons a s ih =>
    cases i with
    | nil => simp [InBounds] at h
    | cons b i =>
      simp only [InBounds] at h
      rw [List.reverse_cons, List.reverse_cons]
      exact InBounds_append (ih h.2) (by simp [InBounds, h.1])

theorem InBounds_take_drop {s i : List Nat} (h : InBounds s i) (k : Nat) :
    InBounds (s.take k) (i.take k) ∧ InBounds (s.drop k) (i.drop k) := by
  induction s generalizing i k with
  | nil => cases i <;> simp_all [InBounds]
  | cons a s ih =>
    cases i with
    | nil => simp [InBounds] at h
    | cons b i =>
      cases k with
      | zero => simpa [InBounds] using h
      | succ k =>
        simp only [InBounds] at h
        simp only [List.take_succ_cons, List.drop_succ_cons, InBounds]
        exact ⟨⟨h.1, (ih h.2 k).1⟩, (ih h.2 k).2⟩

namespace Dense

theorem transpose_shape_c01 [Zero α] (T : Dense α) (p : List Nat) : (T.transpose p).shape = gather T.shape p := rfl

theorem transpose_WF_c01 [Zero α] (T : Dense α) (p : List Nat) : (T.transpose p).WF := ofFn_WF _ _

theorem transpose_get_c01 [Zero α] (T : Dense α) (p j : List Nat) (hj : InBounds (gather T.shape p) j) :
    (T.transpose p).get j = T.get (gather j (invPerm p)) := ofFn_get _ _ hj

theorem transpose_get_gather [Zero α] (T : Dense α) (p i : List Nat)
    (hp : isPermOf p T.shape.length = true) (hi : InBounds T.shape i) :
    (T.transpose p).get (gather i p) = T.get i := by
  rw [transpose_get_c01 T p _ ((inBounds_gather_iff hp hi.length_eq).2 hi),
    gather_gather_invPerm hp hi.length_eq]

theorem transpose_range_c01 [Zero α] (T : Dense α) (hT : T.WF) :
    T.transpose (List.range T.shape.length) = T := by
  have hs : (T.transpose (List.range T.shape.length)).shape = T.shape := by
    rw [transpose_shape_c01, gather_range]
  refine ext_get (transpose_WF_c01 _ _) hT hs ?_
  intro j hj
  rw [hs] at hj
  rw [transpose_get_c01 _ _ _ (by rw [gather_range]; exact hj), invPerm_range,
    gather_range_of_length hj.length_eq]

theorem permute_ok [Zero α] (T : Dense α) (hT : T.WF) (p : List Nat)
    (hp : isPermOf p T.shape.length = true) : T.permute p = .ok (T.transpose p) := by
  have hl := isPermOf_length_eq hp
  unfold permute permuteG
  by_cases he : p = []
  · subst he
    have h0 : T.shape.length = 0 := by simpa using hl.symm
    have := transpose_range_c01 T hT
    rw [h0] at this
    simp [h0]
    exact this.symm
  · have : p.isEmpty = false := by simpa using he
    simp [hl, this, hp]

end Dense

theorem isPermOf_append_all {r c : List Nat} {n : Nat} (hp : isPermOf (r ++ c) n = true) :
    r.all (· < n) = true ∧ c.all (· < n) = true := by
  constructor <;> rw [List.all_eq_true] <;> intro x hx <;> simp only [decide_eq_true_eq]
  · exact isPermOf_lt_of_mem hp (List.mem_append_left _ hx)
  · exact isPermOf_lt_of_mem hp (List.mem_append_right _ hx)

theorem toTenmat_ok [Zero α] (T : Dense α) (r c : List Nat) (hT : T.WF)
    (hp : isPermOf (r ++ c) T.shape.length = true) :
    T.toTenmat (some r) (some c) none =
      .ok ⟨T.shape, r, c, ⟨[numel (gather T.shape r), numel (gather T.shape c)],
        (T.transpose (r ++ c)).data⟩⟩ := by
  obtain ⟨hr, hc⟩ := isPermOf_append_all hp
  unfold Dense.toTenmat
  simp only [Option.isNone_some, Bool.and_self, Bool.false_eq_true, if_false, hr, hc, Bool.not_true,
    Bool.or_self, gatherWrapDims, hp, Dense.permute_ok T hT _ hp]

theorem tenmat_data_WF [Zero α] (T : Dense α) (r c : List Nat) :
    (⟨[numel (gather T.shape r), numel (gather T.shape c)], (T.transpose (r ++ c)).data⟩ : Dense α).WF := by
  have h := Dense.transpose_WF_c01 T (r ++ c)
  unfold Dense.WF at *
  rw [h, Dense.transpose_shape_c01, gather_append, numel_append]
  simp

theorem tenmat_data_get [Zero α] (T : Dense α) (r c : List Nat)
    (hp : isPermOf (r ++ c) T.shape.length = true) (i : List Nat) (hi : InBounds T.shape i) :
    (⟨[numel (gather T.shape r), numel (gather T.shape c)], (T.transpose (r ++ c)).data⟩ : Dense α).get
        [sub2ind (gather T.shape r) (gather i r), sub2ind (gather T.shape c) (gather i c)] = T.get i := by
  rw [← Dense.transpose_get_gather T (r ++ c) i hp hi]
  simp only [Dense.get, Dense.transpose_shape_c01, sub2ind, gather_append]
  rw [sub2ind_append _ _ _ _ (by simp)]
  simp

theorem tenmat_entry [Zero α] (T : Dense α) (r c : List Nat) (hT : T.WF)
    (hp : isPermOf (r ++ c) T.shape.length = true) (i : List Nat) (hi : InBounds T.shape i) :
    ∃ M, T.toTenmat (some r) (some c) none = .ok M ∧ M.tshape = T.shape ∧ M.rdims = r ∧ M.cdims = c ∧
      M.data.shape = [numel (gather T.shape r), numel (gather T.shape c)] ∧ M.data.WF ∧
      M.data.get [sub2ind (gather T.shape r) (gather i r), sub2ind (gather T.shape c) (gather i c)]
        = T.get i := by
  exact ⟨_, toTenmat_ok T r c hT hp, rfl, rfl, rfl, rfl, tenmat_data_WF T r c,
    tenmat_data_get T r c hp i hi⟩


theorem Dense.transpose_transpose_inv [Zero α] (T : Dense α) (hT : T.WF) (p : List Nat)
    (hp : isPermOf p T.shape.length = true) : (T.transpose p).transpose (invPerm p) = T := by
  have hs : ((T.transpose p).transpose (invPerm p)).shape = T.shape := by
    rw [Dense.transpose_shape_c01, Dense.transpose_shape_c01, gather_gather_invPerm hp rfl]
  refine Dense.ext_get (Dense.transpose_WF_c01 _ _) hT hs ?_
  intro j hj
  have hj' : InBounds T.shape j := by rw [← hs]; exact hj
  rw [Dense.transpose_get_c01 _ _ _ (by rw [← Dense.transpose_shape_c01 (T.transpose p)]; exact hj),
    invPerm_invPerm hp, Dense.transpose_get_gather T p j hp hj']

theorem isPermOf_le_one {p : List Nat} {n : Nat} (hp : isPermOf p n = true) (hn : n ≤ 1) :
    p = List.range n := by
  obtain ⟨hl, hm⟩ := (isPermOf_iff p n).1 hp
  match n, p, hl, hm with
  | 0, [], _, _ => rfl
  | 1, [x], _, hm =>
    have := hm 0 (by omega)
    simp at this
    subst this
    rfl
  | n + 2, _, _, _ => omega

theorem tenmat_roundtrip [Zero α] (T : Dense α) (r c : List Nat) (hT : T.WF)
    (hp : isPermOf (r ++ c) T.shape.length = true) :
    ∃ M, T.toTenmat (some r) (some c) none = .ok M ∧ M.toTensor = T := by
  refine ⟨_, toTenmat_ok T r c hT hp, ?_⟩
  unfold Tenmat.toTensor
  simp only
  have hD : (⟨gather T.shape (r ++ c), (T.transpose (r ++ c)).data⟩ : Dense α) = T.transpose (r ++ c) := rfl
  rw [hD]
  split
  · rw [Dense.transpose_transpose_inv T hT _ hp]
  · next h =>
    have hl := isPermOf_length_eq hp
    have := isPermOf_le_one hp (by omega)
    rw [this, Dense.transpose_range_c01 T hT]

theorem tenmat_rejects [Zero α] (T : Dense α) (r c : List Nat)
    (hp : isPermOf (r ++ c) T.shape.length = false) :
    T.toTenmat (some r) (some c) none = .error .reject := by
  unfold Dense.toTenmat
  simp only [Option.isNone_some, Bool.and_self, Bool.false_eq_true, if_false, gatherWrapDims, hp]
  split <;> rfl

/-! ### `gather_wrap_dims` conventions -/

theorem mem_drop_range (n j m : Nat) : m ∈ (List.range n).drop j ↔ j ≤ m ∧ m < n := by
  rw [List.mem_iff_getElem]
  constructor
  · rintro ⟨k, hk, rfl⟩
    simp at hk ⊢
    omega
  · rintro ⟨h1, h2⟩
    refine ⟨m - j, by simp; omega, ?_⟩
    simp; omega

theorem length_filter_ne_range (n k : Nat) (hk : k < n) :
    ((List.range n).filter (· != k)).length = n - 1 := by
  induction n with
  | zero => omega
  | succ n ih =>
    rw [List.range_succ, List.filter_append, List.length_append]
    by_cases h : k = n
    · subst h
      have : (List.range k).filter (· != k) = List.range k := by
        rw [List.filter_eq_self]; intro a ha; simp at ha ⊢; omega
      simp [this]
    · have hn : k < n := by omega
      have : (n != k) = true := by simp; omega
      simp [ih hn, this]; omega

theorem wrap_conventions (n k : Nat) (hk : k < n) (r : List Nat) :
    gatherWrapDims n (some [k]) none (some .fc) = .ok ([k], (List.range n).drop (k + 1) ++ List.range k) ∧
    gatherWrapDims n (some [k]) none (some .bc) =
      .ok ([k], (List.range k).reverse ++ ((List.range n).drop (k + 1)).reverse) ∧
    gatherWrapDims n (some [k]) none (some .t) = .ok ((List.range n).filter (· != k), [k]) ∧
    gatherWrapDims n (some r) none none = .ok (r, (List.range n).filter (fun m => !r.contains m)) ∧
    isPermOf ([k] ++ ((List.range n).drop (k + 1) ++ List.range k)) n = true ∧
    isPermOf ([k] ++ ((List.range k).reverse ++ ((List.range n).drop (k + 1)).reverse)) n = true ∧
    isPermOf ((List.range n).filter (· != k) ++ [k]) n = true := by
  refine ⟨rfl, rfl, ?_, ?_, ?_, ?_, ?_⟩
  · simp only [gatherWrapDims, complDims]
    congr 3
    funext m
    simp [bne]
    rfl
  · match r with
    | [] => rfl
    | [_] => rfl
    | _ :: _ :: _ => rfl
  · rw [isPermOf_iff]
    constructor
    · simp; omega
    · intro m hm
      simp only [List.mem_append, List.mem_singleton, mem_drop_range, List.mem_range]
      omega
  · rw [isPermOf_iff]
    constructor
    · simp; omega
    · intro m hm
      simp only [List.mem_append, List.mem_singleton, List.mem_reverse, mem_drop_range, List.mem_range]
      omega
  · rw [isPermOf_iff]
    constructor
    · rw [List.length_append, length_filter_ne_range n k hk]; simp; omega
    · intro m hm
      simp only [List.mem_append, List.mem_singleton, List.mem_filter, List.mem_range, bne_iff_ne]
      omega
end Pyttb
