/-
C02 — dense `ttv`: the reshape·dot loop contracts the trailing modes; together with the
transposition this is the sum over the fiber.
-/
import PyttbModel.Lemmas.MLPrim
import PyttbModel.Lemmas.ConvertTenmat
import PyttbModel.Lemmas.MLFiber
import Mathlib.Tactic.Ring
namespace Pyttb
namespace ML

variable {α : Type}

theorem dotLast_length [Add α] [Mul α] [Zero α] (c : List α) (P L : Nat) (v : List α) :
    (Dense.dotLast c P L v).length = P := length_mulVec _ _ _ _

theorem dotLast_getD [Add α] [Mul α] [Zero α] (c : List α) (P L : Nat) (v : List α) (a : Nat) (ha : a < P) :
    (Dense.dotLast c P L v).getD a 0 = sumRange L fun b => c.getD (a + P * b) 0 * v.getD b 0 := by
  unfold Dense.dotLast
  rw [mulVec_getD _ _ _ _ _ ha]
  apply sumRange_congr
  intro b hb
  rw [reshape2_get _ _ _ _ _ ha hb]

theorem zipWith_snoc {β γ δ : Type} (f : β → γ → δ) (l : List β) (m : List γ) (x : β) (y : γ)
    (h : l.length = m.length) : List.zipWith f (l ++ [x]) (m ++ [y]) = List.zipWith f l m ++ [f x y] := by
  rw [List.zipWith_append h]
  rfl

/-- The weight `∏_q v_q[j_q]` of the trailing coordinates `j`. -/
def vecProd [Mul α] [One α] [Zero α] (vs : List (List α)) (j : List Nat) : α :=
  (List.zipWith (fun (v : List α) x => v.getD x 0) vs j).prod

/-- The multiply loop of `tensor.ttv`: with shape `pre ++ post` and one vector per trailing mode
(last mode first), entry `i` of the result is `Σ_j c[i ++ j] · ∏_q v_q[j_q]`. -/
theorem ttvLoop_spec [CommSemiring α] (pre : List Nat) :
    ∀ (vs : List (List α)) (post : List Nat) (c : List α), vs.length = post.length →
      c.length = numel (pre ++ post) →
      (Dense.ttvLoop c (pre ++ post) vs).2 = pre ∧ (Dense.ttvLoop c (pre ++ post) vs).1.length = numel pre ∧
      ∀ i, InBounds pre i → (Dense.ttvLoop c (pre ++ post) vs).1.getD (sub2ind pre i) 0 =
        ((allSubs post).map fun j =>
          c.getD (sub2ind (pre ++ post) (i ++ j)) 0 * vecProd vs.reverse j).sum := by
  intro vs
  induction vs with
  | nil =>
    intro post c hl hc
    have hp : post = [] := by cases post <;> simp_all
    subst hp
    have h0 : allSubs ([] : List Nat) = [[]] := by decide
    simp only [List.append_nil] at hc ⊢
    refine ⟨rfl, hc, ?_⟩
    intro i _
    simp [Dense.ttvLoop, h0, vecProd]
  | cons v vs ih =>
    intro post c hl hc
    obtain ⟨post', L, rfl⟩ : ∃ post' L, post = post' ++ [L] := by
      rcases List.eq_nil_or_concat post with h | ⟨p, l, h⟩
      · subst h; simp at hl
      · exact ⟨p, l, by simpa using h⟩
    have hl' : vs.length = post'.length := by simpa using hl
    have hsz : pre ++ (post' ++ [L]) = (pre ++ post') ++ [L] := by simp
    have hdl : (pre ++ (post' ++ [L])).dropLast = pre ++ post' := by rw [hsz, List.dropLast_concat]
    have hgl : (pre ++ (post' ++ [L])).getLastD 0 = L := by rw [hsz]; simp
    have hnum : numel (pre ++ (post' ++ [L])) = numel (pre ++ post') * L := by
      rw [hsz, numel_append]; simp
    set P := numel (pre ++ post') with hP
    have hc1 : (Dense.dotLast c P L v).length = numel (pre ++ post') := dotLast_length _ _ _ _
    obtain ⟨h1, h2, h3⟩ := ih post' (Dense.dotLast c P L v) hl' hc1
    have hstep : Dense.ttvLoop c (pre ++ (post' ++ [L])) (v :: vs) =
        Dense.ttvLoop (Dense.dotLast c P L v) (pre ++ post') vs := by
      simp only [Dense.ttvLoop, hdl, hgl, hP]
    rw [hstep]
    refine ⟨h1, h2, ?_⟩
    intro i hi
    rw [h3 i hi, sum_allSubs_snoc]
    -- right-hand side: swap the two sums
    rw [sum_comm]
    apply sum_congr
    intro j hj
    have hjb := mem_allSubs.1 hj
    have hij : InBounds (pre ++ post') (i ++ j) := InBounds_append hi hjb
    rw [dotLast_getD _ _ _ _ _ (sub2ind_lt hij)]
    unfold sumRange
    rw [← List.sum_map_mul_right]
    apply sum_congr
    intro b _
    have hidx : sub2ind (pre ++ (post' ++ [L])) (i ++ (j ++ [b])) = sub2ind (pre ++ post') (i ++ j) + P * b := by
      rw [hsz, ← List.append_assoc, sub2ind_append_singleton _ _ _ _ hij.length_eq]
    have hvp : vecProd (v :: vs).reverse (j ++ [b]) = vecProd vs.reverse j * v.getD b 0 := by
      unfold vecProd
      rw [List.reverse_cons, zipWith_snoc _ _ _ _ _ (by rw [List.length_reverse, hl', hjb.length_eq]),
        List.prod_append]
      simp
    rw [hidx, hvp]
    ring


theorem eraseDups_of_nodup {β : Type} [BEq β] [LawfulBEq β] (l : List β) (h : l.Nodup) :
    l.eraseDups = l := by
  induction l with
  | nil => simp
  | cons a l ih =>
    rw [List.nodup_cons] at h
    rw [List.eraseDups_cons]
    have : l.filter (fun b => !b == a) = l := by
      rw [List.filter_eq_self]
      intro b hb
      have : b ≠ a := fun e => h.1 (e ▸ hb)
      simpa using this
    rw [this, ih h.2]

/-- The guards of the `ttv` cores pass on matching sizes and distinct modes. -/
theorem ttv_guards {β : Type} (shape : List Nat) (pairs : List (Nat × List β)) (sizeOf : Nat → Nat)
    (hnd : (pairs.map (·.1)).Nodup) (hlen : ∀ p ∈ pairs, p.2.length = sizeOf p.1) :
    pairs.any (fun p => p.2.length != sizeOf p.1) = false ∧
    (((pairs.map (·.1)).eraseDups.length != (pairs.map (·.1)).length) = false) := by
  constructor
  · rw [List.any_eq_false]
    intro p hp
    simp [hlen p hp]
  · rw [eraseDups_of_nodup _ hnd]; simp

/-- With weights `w` that agree with the paired vectors, the product over the selected modes
of a cell is the product of the vector entries at its selected coordinates. -/
theorem selProd_pairs [CommSemiring α] (pairs : List (Nat × List α)) (w : Nat → Nat → α)
    (hw : ∀ p ∈ pairs, ∀ k, w p.1 k = p.2.getD k 0) (k j : List Nat)
    (hj : gather k (pairs.map (·.1)) = j) :
    Spec.selProd (pairs.map (·.1)) w k = vecProd (pairs.map (·.2)) j := by
  rw [selProd_eq_zipWith, hj]
  unfold vecProd
  congr 1
  clear hj
  induction pairs generalizing j with
  | nil => simp
  | cons p ps ih =>
    cases j with
    | nil => simp
    | cons x j =>
      simp only [List.map_cons, List.zipWith_cons_cons]
      rw [ih (fun q hq => hw q (List.mem_cons_of_mem _ hq)), hw p (List.mem_cons_self ..)]

/-- **Dense `ttv`**: for distinct in-range modes with vectors of the right sizes the kernel
returns, at every remaining coordinate, the sum over the fiber of `X[k] · ∏ v_d[k_d]`. -/
theorem dense_ttvCore_spec [CommSemiring α] (T : Dense α) (hT : T.WF) (pairs : List (Nat × List α))
    (hnd : (pairs.map (·.1)).Nodup) (hlt : ∀ p ∈ pairs, p.1 < T.shape.length)
    (hlen : ∀ p ∈ pairs, p.2.length = T.shape.getD p.1 0)
    (w : Nat → Nat → α) (hw : ∀ p ∈ pairs, ∀ k, w p.1 k = p.2.getD k 0) :
    ∃ r, T.ttvCore pairs = .ok r ∧ r.toRes.shape = Spec.ttvShape T.shape (pairs.map (·.1)) ∧
      ∀ i, InBounds r.toRes.shape i → r.toRes.get i = Spec.ttv T.den (pairs.map (·.1)) w i := by
  set sel := pairs.map (·.1) with hsel
  set N := T.shape.length with hN
  set rem := complDims N sel with hrem
  have hsellt : ∀ d ∈ sel, d < N := by
    intro d hd
    obtain ⟨p, hp, rfl⟩ := List.mem_map.1 hd
    exact hlt p hp
  have hp : isPermOf (rem ++ sel) N = true := isPermOf_compl_append N sel hnd hsellt
  obtain ⟨g1, g2⟩ := ttv_guards T.shape pairs (fun d => T.shape.getD d 0) hnd hlen
  -- the data the loop starts from is the transposed tensor
  set C := T.transpose (rem ++ sel) with hC
  have hcdata : (if N > 1 then C.data else T.data) = C.data := by
    by_cases h1 : N > 1
    · rw [if_pos h1]
    · rw [if_neg h1]
      have : rem ++ sel = List.range N := isPermOf_le_one hp (by omega)
      rw [hC, this, hN, Dense.transpose_range_c01 T hT]
  have hCshape : C.shape = gather T.shape rem ++ gather T.shape sel := by
    rw [hC, Dense.transpose_shape_c01, gather_append]
  have hCWF : C.WF := Dense.transpose_WF_c01 _ _
  have hvl : (pairs.reverse.map (·.2)).length = (gather T.shape sel).length := by simp [hsel]
  have hcl : C.data.length = numel (gather T.shape rem ++ gather T.shape sel) := by
    rw [← hCshape]; exact hCWF
  obtain ⟨l1, l2, l3⟩ := ttvLoop_spec (gather T.shape rem) (pairs.reverse.map (·.2)) (gather T.shape sel)
    C.data hvl hcl
  have hrev : (pairs.reverse.map (·.2)).reverse = pairs.map (·.2) := by
    rw [List.map_reverse, List.reverse_reverse]
  -- value of the loop result at `i`
  have hval : ∀ i, InBounds (gather T.shape rem) i →
      (Dense.ttvLoop C.data (gather T.shape rem ++ gather T.shape sel) (pairs.reverse.map (·.2))).1.getD
        (sub2ind (gather T.shape rem) i) 0 = Spec.ttv T.den sel w i := by
    intro i hi
    rw [l3 i hi, hrev]
    unfold Spec.ttv
    show _ = Spec.sumOver (Spec.fiber T.shape rem i) _
    unfold Spec.sumOver
    rw [fiber_sum T.shape rem sel i hp hi]
    apply sum_congr
    intro j hj
    have hjb := mem_allSubs.1 hj
    have hij : InBounds (gather T.shape (rem ++ sel)) (i ++ j) := by
      rw [gather_append]; exact InBounds_append hi hjb
    have hget : C.data.getD (sub2ind (gather T.shape rem ++ gather T.shape sel) (i ++ j)) 0 = C.get (i ++ j) := by
      unfold Dense.get; rw [hCshape]
    rw [hget, hC, Dense.transpose_get_c01 T _ _ hij]
    have hil : i.length = rem.length := by rw [hi.length_eq, length_gather]
    have hjl : j.length = sel.length := by rw [hjb.length_eq, length_gather]
    rw [selProd_pairs pairs w hw _ j (gather_unperm_left hp hil hjl).2]
    rfl
  have g2' : (sel.eraseDups.length != sel.length) = false := g2
  unfold Dense.ttvCore
  simp only [← hsel, ← hN, ← hrem, g1, g2', Bool.false_eq_true, if_false, ← hC, hcdata]
  rw [gather_append]
  by_cases hr : (gather T.shape rem).length > 0
  · refine ⟨.obj ⟨_, _⟩, by rw [l1, if_pos hr], ?_, ?_⟩
    · simp [ScalarOr.toRes, Res.shape, Spec.ttvShape, l1, hrem, hN]
    · intro i hi
      simp only [ScalarOr.toRes, Res.shape, l1] at hi
      simp only [ScalarOr.toRes, Res.get, Dense.get, l1]
      exact hval i hi
  · have hrl : gather T.shape rem = [] := by
      cases h : gather T.shape rem with
      | nil => rfl
      | cons a l => rw [h] at hr; simp at hr
    refine ⟨.scalar _, by rw [l1, if_neg hr], ?_, ?_⟩
    · simp [ScalarOr.toRes, Res.shape, Spec.ttvShape, ← hrem, ← hN, hrl]
    · intro i hi
      simp only [ScalarOr.toRes, Res.shape] at hi
      have hi0 : i = [] := by cases i <;> simp_all [InBounds]
      subst hi0
      simp only [ScalarOr.toRes, Res.get]
      have := hval [] (by rw [hrl]; trivial)
      have h0 : sub2ind (gather T.shape rem) [] = 0 := by cases gather T.shape rem <;> rfl
      rw [h0] at this
      exact this

end ML
end Pyttb
