/-
C03: refinement lemmas for the unary operations, `*`, `+`, `-` of Ops/SparseElem.
-/
import PyttbModel.Lemmas.SparseElemBase
import PyttbModel.Lemmas.Generators
import Mathlib.Algebra.Ring.Defs
import Mathlib.Algebra.GroupWithZero.Defs
namespace Pyttb
open SpElem
variable {α : Type}

/-! ### `keepNonzero` -/

section keep
variable [AddMonoid α] [DecidableEq α]

theorem keepNonzero_tab (s : List Nat) (U : List (List Nat)) (g : List Nat → α) :
    keepNonzero s U (U.map g) =
      ⟨s, U.filter (fun j => !(g j == 0)), (U.filter (fun j => !(g j == 0))).map g⟩ := by
  unfold keepNonzero
  simp only [List.map_map]
  rw [show ((fun x => !(x == 0)) ∘ g) = (fun j => !(g j == 0)) from rfl, maskSel_map, maskSel_map_map]

/-- selecting the non-zero values of a tabulation over stored subscripts. -/
theorem keepNonzero_spec (A : Sparse α) (hA : A.WF) (g : List Nat → α) (hg : ∀ i, i ∉ A.subs → g i = 0) :
    (keepNonzero A.shape A.subs (A.subs.map g)).WF ∧
    (keepNonzero A.shape A.subs (A.subs.map g)).shape = A.shape ∧
    ∀ i, (keepNonzero A.shape A.subs (A.subs.map g)).get i = g i := by
  rw [keepNonzero_tab]
  have hU : (A.subs.filter (fun j => !(g j == 0))).Nodup := List.Nodup.filter _ hA.nodup
  refine ⟨wf_tab _ _ _ hU ?_ ?_, rfl, fun i => ?_⟩
  · intro u hu; exact hA.inb u (List.mem_filter.1 hu).1
  · intro u hu; simpa using (List.mem_filter.1 hu).2
  · rw [get_tab _ _ _ hU]
    split
    · rfl
    · next h =>
      rw [List.mem_filter, not_and_or] at h
      rcases h with h | h
      · exact (hg i h).symm
      · exact (by simpa using h : g i = 0).symm

end keep

/-! ### unary operations -/

section unary
variable [AddMonoid α] [DecidableEq α]

theorem empty_spec (s : List Nat) :
    (empty s : Sparse α).WF ∧ (empty s : Sparse α).shape = s ∧ ∀ i, (empty s : Sparse α).get i = 0 := by
  refine ⟨⟨rfl, by simp [empty], by simp [empty], by simp [empty]⟩, rfl, fun i => ?_⟩
  exact Sparse.get_of_not_mem _ i (by simp [empty])

theorem ones_spec [One α] (A : Sparse α) (hA : A.WF) (h1 : (1 : α) ≠ 0) :
    (ones A).WF ∧ (ones A).shape = A.shape ∧ ∀ i, (ones A).get i = if A.get i = 0 then 0 else 1 := by
  have e : ones A = ⟨A.shape, A.subs, A.subs.map (fun _ => (1 : α))⟩ := by
    unfold ones
    rw [Sparse.vals_eq_map_get A hA, List.map_map]
    rfl
  rw [e]
  refine ⟨wf_tab _ _ _ hA.nodup hA.inb (fun _ _ => h1), rfl, fun i => ?_⟩
  rw [get_tab _ _ _ hA.nodup]
  by_cases h : i ∈ A.subs
  · simp [h, A.get_ne_zero_of_mem hA i h]
  · simp [h, A.get_of_not_mem i h]

theorem ofSubs_eq [One α] (s : List Nat) (U : List (List Nat)) :
    (ofSubs s U : Sparse α) = ⟨s, U, U.map (fun _ => (1 : α))⟩ := by
  unfold ofSubs onesCol
  rw [List.map_const']

/-- a 0/1 tensor built from a duplicate-free in-bounds list of subscripts. -/
theorem ofSubs_spec [One α] (s : List Nat) (U : List (List Nat)) (hU : U.Nodup)
    (hin : ∀ u ∈ U, InBounds s u) (h1 : (1 : α) ≠ 0) :
    (ofSubs s U : Sparse α).WF ∧ (ofSubs s U : Sparse α).shape = s ∧
    ∀ i, (ofSubs s U : Sparse α).get i = if i ∈ U then 1 else 0 := by
  rw [ofSubs_eq]
  exact ⟨wf_tab _ _ _ hU hin (fun _ _ => h1), rfl, fun i => get_tab _ _ _ hU i⟩

theorem logicalNot_spec [One α] (A : Sparse α) (hA : A.WF) (h1 : (1 : α) ≠ 0) :
    (logicalNot A).WF ∧ (logicalNot A).shape = A.shape ∧
    ∀ i, InBounds A.shape i → (logicalNot A).get i = if A.get i = 0 then 1 else 0 := by
  have e : logicalNot A = ofSubs A.shape (zeroSubs A) := rfl
  rw [e]
  obtain ⟨w, sh, g⟩ := ofSubs_spec (α := α) A.shape (zeroSubs A) (zeroSubs_nodup A)
    (fun u hu => ((mem_zeroSubs A hA u).1 hu).1) h1
  refine ⟨w, sh, fun i hi => ?_⟩
  rw [g i]
  simp only [mem_zeroSubs A hA i, hi, true_and]

theorem elemfun_spec (A : Sparse α) (hA : A.WF) (f : α → α) :
    (elemfun f A).WF ∧ (elemfun f A).shape = A.shape ∧
    ∀ i, (elemfun f A).get i = if A.get i = 0 then 0 else f (A.get i) := by
  let g : List Nat → α := fun j => if A.get j = 0 then 0 else f (A.get j)
  have hv : A.vals.map f = A.subs.map g := by
    rw [Sparse.vals_eq_map_get A hA, List.map_map]
    apply List.map_congr_left
    intro j hj
    simp [g, A.get_ne_zero_of_mem hA j hj]
  have hk := keepNonzero_spec A hA g (fun i hi => by simp [g, A.get_of_not_mem i hi])
  have e : elemfun f A = keepNonzero A.shape A.subs (A.subs.map g) := by
    unfold elemfun
    simp only [hv]
    split
    · next hany =>
      rw [keepNonzero_tab]
      have : A.subs.filter (fun j => !(g j == 0)) = [] := by
        rw [List.filter_eq_nil_iff]
        intro j hj
        have hany' := List.any_eq_false.1 (by simpa using hany :
          ((A.subs.map g).map (fun x => !(x == 0))).any id = false)
        have := hany' (!(g j == 0)) (List.mem_map.2 ⟨g j, List.mem_map.2 ⟨j, hj, rfl⟩, rfl⟩)
        simpa using this
      simp [this, empty]
    · rfl
  rw [e]
  exact hk

end unary

section neg
variable [Ring α] [DecidableEq α]

theorem neg_spec (A : Sparse α) (hA : A.WF) :
    (neg A).WF ∧ (neg A).shape = A.shape ∧ ∀ i, (neg A).get i = - A.get i := by
  have e : neg A = ⟨A.shape, A.subs, A.subs.map (fun j => - A.get j)⟩ := by
    unfold neg
    rw [Sparse.vals_eq_map_get A hA, List.map_map]
    congr 1
    apply List.map_congr_left
    intro j _
    simp
  rw [e]
  refine ⟨wf_tab _ _ _ hA.nodup hA.inb (fun u hu => ?_), rfl, fun i => ?_⟩
  · exact neg_ne_zero.2 (A.get_ne_zero_of_mem hA u hu)
  · rw [get_tab _ _ _ hA.nodup]
    by_cases h : i ∈ A.subs
    · simp [h]
    · simp [h, A.get_of_not_mem i h]

end neg

/-! ### `*` -/

section mul
variable [Semiring α] [DecidableEq α]

theorem mul_scalar_spec (A : Sparse α) (hA : A.WF) (c : α) :
    ∃ R, mul A (.scalar c) = .ok R ∧ R.WF ∧ R.shape = A.shape ∧ ∀ i, R.get i = A.get i * c := by
  have hv : A.vals.map (fun v => v * c) = A.subs.map (fun j => A.get j * c) := by
    rw [Sparse.vals_eq_map_get A hA, List.map_map]; rfl
  refine ⟨_, rfl, ?_⟩
  simp only [hv]
  exact keepNonzero_spec A hA (fun j => A.get j * c) (fun i hi => by simp [A.get_of_not_mem i hi])

theorem mul_dense_spec (A : Sparse α) (hA : A.WF) (D : Dense α) (hs : A.shape = D.shape) :
    ∃ R, mul A (.dense D) = .ok R ∧ R.WF ∧ R.shape = A.shape ∧ ∀ i, R.get i = A.get i * D.get i := by
  have hv : List.zipWith (· * ·) A.vals (A.subs.map D.get) = A.subs.map (fun j => A.get j * D.get j) := by
    rw [Sparse.vals_eq_map_get A hA, zipWith_map_map]
  have hall : A.subs.all (inBounds D.shape) = true := by
    rw [List.all_eq_true]; intro r hr; rw [inBounds_iff, ← hs]; exact hA.inb r hr
  unfold mul
  simp only [hs, bne_self_eq_false, Bool.false_eq_true, ↓reduceIte, hall, Bool.not_true]
  split
  · next h0 =>
    have hnil : A.subs = [] := by
      simp only [Sparse.nnz, beq_iff_eq, List.length_eq_zero_iff] at h0; exact h0
    refine ⟨A, rfl, hA, hs, fun i => ?_⟩
    have : i ∉ A.subs := by rw [hnil]; simp
    simp [A.get_of_not_mem i this]
  · refine ⟨_, rfl, ?_⟩
    rw [hv, ← hs]
    exact keepNonzero_spec A hA (fun j => A.get j * D.get j) (fun i hi => by simp [A.get_of_not_mem i hi])

theorem mul_sparse_spec [NoZeroDivisors α] (A B : Sparse α) (hA : A.WF) (hB : B.WF) (hs : A.shape = B.shape) :
    ∃ R, mul A (.sparse B) = .ok R ∧ R.WF ∧ R.shape = A.shape ∧ ∀ i, R.get i = A.get i * B.get i := by
  unfold mul
  simp only [hs, bne_self_eq_false, Bool.false_eq_true, ↓reduceIte]
  split
  · next h0 =>
    obtain ⟨w, sh, g⟩ := empty_spec (α := α) B.shape
    refine ⟨_, rfl, w, sh, fun i => ?_⟩
    rw [g i]
    simp only [Sparse.nnz, Bool.or_eq_true, beq_iff_eq, List.length_eq_zero_iff] at h0
    rcases h0 with h0 | h0
    · have : i ∉ A.subs := by rw [h0]; simp
      simp [A.get_of_not_mem i this]
    · have : i ∉ B.subs := by rw [h0]; simp
      simp [B.get_of_not_mem i this]
  · refine ⟨_, rfl, ?_⟩
    -- normal form of the three gathered lists
    let φ : List Nat → Option Nat := fun r => lastIdxOf (toRows B.subs) (toRow r)
    let pv : List Nat → Bool := fun r => (φ r).isSome
    let U := A.subs.filter pv
    have hm : ismemberRows (toRows A.subs) (toRows B.subs) =
        A.subs.map (fun r => match φ r with | some k => (true, (k : Int)) | none => (false, -1)) := by
      rw [ismember_map]; unfold toRows; rw [List.map_map]; rfl
    have hvalid : (ismemberRows (toRows A.subs) (toRows B.subs)).map (·.1) = A.subs.map pv := by
      rw [hm, List.map_map]
      apply List.map_congr_left
      intro r _
      simp only [Function.comp, pv]
      cases φ r <;> rfl
    have hloc : (ismemberRows (toRows A.subs) (toRows B.subs)).map (·.2) =
        A.subs.map (fun r => match φ r with | some k => (k : Int) | none => -1) := by
      rw [hm, List.map_map]
      apply List.map_congr_left
      intro r _
      simp only [Function.comp]
      cases φ r <;> rfl
    have hsubs : maskSel ((ismemberRows (toRows A.subs) (toRows B.subs)).map (·.1)) A.subs = U := by
      rw [hvalid, maskSel_map]
    have hvals : List.zipWith (· * ·)
        (maskSel ((ismemberRows (toRows A.subs) (toRows B.subs)).map (·.1)) A.vals)
        (((maskSel ((ismemberRows (toRows A.subs) (toRows B.subs)).map (·.1))
            ((ismemberRows (toRows A.subs) (toRows B.subs)).map (·.2))).map Int.toNat).map
          fun k => B.vals.getD k 0) = U.map (fun r => A.get r * B.get r) := by
      rw [hvalid, hloc, Sparse.vals_eq_map_get A hA, maskSel_map_map, maskSel_map_map, List.map_map,
        List.map_map, zipWith_map_map]
      apply List.map_congr_left
      intro r hr
      have hp : pv r = true := (List.mem_filter.1 hr).2
      simp only [Function.comp]
      have hl := lookup_eq_get B hB r
      simp only [pv] at hp
      cases hφ : φ r with
      | none => simp [hφ] at hp
      | some k =>
        simp only [φ] at hφ
        rw [hφ] at hl
        simp only at hl
        simp [← hl]
    simp only [hsubs, hvals]
    have hmem : ∀ r, r ∈ U ↔ r ∈ A.subs ∧ r ∈ B.subs := by
      intro r
      simp only [U, List.mem_filter, pv, φ]
      constructor
      · rintro ⟨h1, h2⟩
        refine ⟨h1, ?_⟩
        by_contra hn
        have : lastIdxOf (toRows B.subs) (toRow r) = none := lastIdxOf_eq_none.2 (fun h => hn (mem_toRows.1 h))
        simp [this] at h2
      · rintro ⟨h1, h2⟩
        obtain ⟨j, hj⟩ := lastIdxOf_of_mem (mem_toRows.2 h2)
        exact ⟨h1, by simp [hj]⟩
    have hU : U.Nodup := List.Nodup.filter _ hA.nodup
    refine ⟨wf_tab _ _ _ hU ?_ ?_, trivial, fun i => ?_⟩
    · intro u hu; rw [← hs]; exact hA.inb u ((hmem u).1 hu).1
    · intro u hu
      exact mul_ne_zero (A.get_ne_zero_of_mem hA u ((hmem u).1 hu).1) (B.get_ne_zero_of_mem hB u ((hmem u).1 hu).2)
    · rw [get_tab _ _ _ hU]
      split
      · rfl
      · next h =>
        rw [hmem, not_and_or] at h
        rcases h with h | h
        · simp [A.get_of_not_mem i h]
        · simp [B.get_of_not_mem i h]

end mul

/-! ### dense element-wise helpers -/

section dense
variable [Zero α]

theorem mapData_get {β : Type} [Zero β] (f : α → β) (T : Dense α) (hT : T.WF) {i : List Nat}
    (hi : InBounds T.shape i) : (mapData f T).get i = f (T.get i) := by
  have hlt : sub2ind T.shape i < T.data.length := by rw [hT]; exact sub2ind_lt hi
  simp only [mapData, Dense.get, List.getD_eq_getElem?_getD, List.getElem?_map,
    List.getElem?_eq_getElem hlt, Option.map_some, Option.getD_some]

theorem full_wf (S : Sparse α) : S.full.WF := by rw [Sparse.full_eq]; exact Dense.ofFn_WF _ _

theorem mapData_wf {β : Type} (f : α → β) (T : Dense α) (hT : T.WF) : (mapData f T).WF := by
  simp only [mapData, Dense.WF, List.length_map]; exact hT

theorem zipData_spec (f : α → α → α) (X Y : Dense α) (hX : X.WF) (hY : Y.WF) (hs : X.shape = Y.shape) :
    ∃ Z, zipData f X Y = .ok Z ∧ Z.shape = X.shape ∧ Z.WF ∧
      ∀ i, InBounds X.shape i → Z.get i = f (X.get i) (Y.get i) := by
  refine ⟨⟨X.shape, List.zipWith f X.data Y.data⟩, by simp [zipData, hs], rfl, ?_, fun i hi => ?_⟩
  · simp only [Dense.WF, List.length_zipWith]
    rw [hX, hY, hs]; simp
  · have h1 : sub2ind X.shape i < X.data.length := by rw [hX]; exact sub2ind_lt hi
    have h2 : sub2ind X.shape i < Y.data.length := by rw [hY, ← hs]; exact sub2ind_lt hi
    simp only [Dense.get, ← hs, List.getD_eq_getElem?_getD, List.getElem?_zipWith,
      List.getElem?_eq_getElem h1, List.getElem?_eq_getElem h2, Option.map₂_some_some, Option.getD_some]

end dense

/-! ### `-` and `+` -/

section addsub
variable [Ring α] [DecidableEq α]

theorem kvSum_append_r (es fs : List (List Nat × α)) (i : List Nat) :
    kvSum (es ++ fs) i = kvSum es i + kvSum fs i := by
  induction es with
  | nil => simp [kvSum_nil]
  | cons e es ih =>
    by_cases h : e.1 = i
    · obtain ⟨a, v⟩ := e
      simp only at h; subst h
      rw [List.cons_append, kvSum_cons_eq, kvSum_cons_eq, ih, add_assoc]
    · rw [List.cons_append, kvSum_cons_ne _ _ _ h, kvSum_cons_ne _ _ _ h, ih]

theorem fromAgg_sum (subs : List (List Nat)) (vals : List α) (s : List Nat)
    (hne : subs ≠ []) (hs : s ≠ []) (hin : ∀ i ∈ subs, InBounds s i) (hl : vals.length = subs.length) :
    ∃ S, fromAgg List.sum subs vals s = .ok S ∧ S.shape = s ∧ S.WF ∧
      ∀ i, S.get i = kvSum (subs.zip vals) i :=
  fromAggregator_sum subs vals s hne hs hin hl

/-- result of a sparse–sparse subtraction or addition. -/
theorem sub_sparse_spec (A B : Sparse α) (hA : A.WF) (hB : B.WF) (hs : A.shape = B.shape)
    (hN : A.shape ≠ []) :
    ∃ R, sub A (.sparse B) = .ok (.sp R) ∧ R.WF ∧ R.shape = A.shape ∧ ∀ i, R.get i = A.get i - B.get i := by
  obtain ⟨nw, nsh, ng⟩ := neg_spec B hB
  unfold sub
  simp only [hs, bne_self_eq_false, Bool.false_eq_true, ↓reduceIte]
  split
  · next h0 =>
    have hnil : A.subs = [] := by
      simp only [Sparse.nnz, beq_iff_eq, List.length_eq_zero_iff] at h0; exact h0
    refine ⟨neg B, rfl, nw, nsh, fun i => ?_⟩
    have : i ∉ A.subs := by rw [hnil]; simp
    rw [ng i, A.get_of_not_mem i this]; simp
  · split
    · next h0 =>
      have hnil : B.subs = [] := by
        simp only [Sparse.nnz, beq_iff_eq, List.length_eq_zero_iff] at h0; exact h0
      refine ⟨A, rfl, hA, hs, fun i => ?_⟩
      have : i ∉ B.subs := by rw [hnil]; simp
      rw [B.get_of_not_mem i this]; simp
    · next h0 _ =>
      have hne : A.subs ++ B.subs ≠ [] := by
        intro h
        simp only [Sparse.nnz, beq_iff_eq, List.length_eq_zero_iff] at h0
        exact h0 (List.append_eq_nil_iff.1 h).1
      have hin : ∀ i ∈ A.subs ++ B.subs, InBounds B.shape i := by
        intro i hi
        rcases List.mem_append.1 hi with h | h
        · rw [← hs]; exact hA.inb i h
        · exact hB.inb i h
      have hl : (A.vals ++ B.vals.map (fun v => -1 * v)).length = (A.subs ++ B.subs).length := by
        simp [hA.len, hB.len]
      obtain ⟨S, h1, h2, h3, h4⟩ := fromAgg_sum (A.subs ++ B.subs) (A.vals ++ B.vals.map (fun v => -1 * v))
        B.shape hne (hs ▸ hN) hin hl
      refine ⟨S, by rw [h1]; rfl, h3, h2, fun i => ?_⟩
      rw [h4 i, List.zip_append (by rw [hA.len]), kvSum_append_r]
      have e1 : kvSum (A.subs.zip A.vals) i = A.get i := rfl
      have e2 : kvSum (B.subs.zip (B.vals.map (fun v => -1 * v))) i = (neg B).get i := rfl
      rw [e1, e2, ng i, sub_eq_add_neg]

theorem sub_scalar_spec (A : Sparse α) (hA : A.WF) (c : α) :
    ∃ R, sub A (.scalar c) = .ok (.dn R) ∧ R.WF ∧ R.shape = A.shape ∧
      ∀ i, InBounds A.shape i → R.get i = A.get i - c := by
  refine ⟨_, rfl, mapData_wf _ _ (full_wf A), rfl, fun i hi => ?_⟩
  obtain ⟨g, sh, w⟩ := sp_full_at A hA i hi
  rw [mapData_get _ _ w (by rw [sh]; exact hi), g]

theorem sub_dense_spec (A : Sparse α) (hA : A.WF) (D : Dense α) (hD : D.WF) (hs : A.shape = D.shape) :
    ∃ R, sub A (.dense D) = .ok (.dn R) ∧ R.WF ∧ R.shape = A.shape ∧
      ∀ i, InBounds A.shape i → R.get i = A.get i - D.get i := by
  obtain ⟨Z, h1, h2, h3, h4⟩ := zipData_spec (fun x y => x - y) A.full D (full_wf A) hD hs
  refine ⟨Z, by simp only [sub, h1]; rfl, h3, h2, fun i hi => ?_⟩
  rw [h4 i hi, (sp_full_at A hA i hi).1]

theorem add_sparse_spec (A B : Sparse α) (hA : A.WF) (hB : B.WF) (hs : A.shape = B.shape)
    (hN : A.shape ≠ []) :
    ∃ R, add A (.sparse B) = .ok (.sp R) ∧ R.WF ∧ R.shape = A.shape ∧ ∀ i, R.get i = A.get i + B.get i := by
  obtain ⟨nw, nsh, ng⟩ := neg_spec B hB
  obtain ⟨R, h1, h2, h3, h4⟩ := sub_sparse_spec A (neg B) hA nw (hs.trans nsh.symm) hN
  refine ⟨R, h1, h2, h3, fun i => ?_⟩
  rw [h4 i, ng i, sub_neg_eq_add]

theorem add_scalar_spec (A : Sparse α) (hA : A.WF) (c : α) :
    ∃ R, add A (.scalar c) = .ok (.dn R) ∧ R.WF ∧ R.shape = A.shape ∧
      ∀ i, InBounds A.shape i → R.get i = A.get i + c := by
  obtain ⟨R, h1, h2, h3, h4⟩ := sub_scalar_spec A hA (-c)
  refine ⟨R, h1, h2, h3, fun i hi => ?_⟩
  rw [h4 i hi, sub_neg_eq_add]

theorem add_dense_spec (A : Sparse α) (hA : A.WF) (D : Dense α) (hD : D.WF) (hs : A.shape = D.shape) :
    ∃ R, add A (.dense D) = .ok (.dn R) ∧ R.WF ∧ R.shape = A.shape ∧
      ∀ i, InBounds A.shape i → R.get i = A.get i + D.get i := by
  obtain ⟨R, h1, h2, h3, h4⟩ := sub_dense_spec A hA (mapData (fun v => -1 * v) D) (mapData_wf _ _ hD) hs
  refine ⟨R, h1, h2, h3, fun i hi => ?_⟩
  rw [h4 i hi, mapData_get _ _ hD (hs ▸ hi)]
  simp

end addsub

end Pyttb
