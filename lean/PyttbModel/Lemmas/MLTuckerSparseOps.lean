/-
C02 — Tucker tensors with a SPARSE core: `innerprod` (dense / sparse / Kruskal / Tucker operand),
`norm`, `mttkrp`.  Every call on the core dispatches to a sparse kernel; each of those returns what
the dense kernel returns on the expanded core, so the result is the one of the dense-core code on
`⟨core.full(), factors⟩`, i.e. the definition applied to the array the Tucker tensor denotes.
-/
import PyttbModel.Ops.MultilinearTS
import PyttbModel.Lemmas.MLTuckerSparseCore
import PyttbModel.Lemmas.MLMask
import PyttbModel.Lemmas.MLSparseMttkrp
import PyttbModel.Lemmas.MLSum
namespace Pyttb
namespace MLK
open ML

variable {α : Type}

/-- The same Tucker tensor with its core expanded to a dense tensor. -/
def expandS [Zero α] (T : TtensorS α) : Ttensor α := ⟨T.core.full, T.factors⟩

/-- What a Tucker tensor with a sparse core denotes. -/
def tsDen [Add α] [Mul α] [One α] [Zero α] (T : TtensorS α) : Den α := ⟨tsShape T, tsGet T⟩

/-- Well-formed Tucker tensor with a sparse core: a well-formed sparse core, one factor per core mode,
each with as many columns as the core mode has entries. -/
structure TuckerSWF [Zero α] [BEq α] (T : TtensorS α) : Prop where
  core : T.core.WF
  len : T.factors.length = T.core.shape.length
  cols : ∀ d, d < T.factors.length → (T.factors.getD d []).ncols = T.core.shape.getD d 0

theorem expandS_WF [Zero α] [BEq α] (T : TtensorS α) (hT : TuckerSWF T) : TuckerWF (expandS T) :=
  ⟨full_WF T.core, hT.len, hT.cols⟩

theorem expandS_den_shape [CommSemiring α] (T : TtensorS α) : (tsDen T).shape = (expandS T).den.shape := rfl

theorem expandS_den_get [CommSemiring α] [DecidableEq α] (T : TtensorS α) (hS : T.core.WF) (k : List Nat) :
    (tsDen T).get k = (expandS T).den.get k := tsGet_eq_full T hS k

theorem spec_inner_expandS_left [CommSemiring α] [DecidableEq α] (T : TtensorS α) (hS : T.core.WF) (Y : Den α) :
    Spec.inner (expandS T).den Y = Spec.inner (tsDen T) Y :=
  spec_inner_congr (expandS T).den (tsDen T) Y Y rfl (fun k _ => (tsGet_eq_full T hS k).symm) (fun _ _ => rfl)

/-! ### the sparse · dense inner product is the dense one on the expanded tensor -/

theorem sparse_innerprodDense_rejects [Add α] [Mul α] [Zero α] (S : Sparse α) (Z : Dense α) (hs : S.shape ≠ Z.shape) :
    S.innerprodDense Z = .error .reject := by
  unfold Sparse.innerprodDense
  have : (S.shape != Z.shape) = true := by simp [hs]
  rw [this]; rfl

/-- `core.innerprod(Z)` with a sparse `core` returns what `Z.innerprod(core.full())` and
`core.full().innerprod(Z)` return, accepted or rejected. -/
theorem sparse_innerprodDense_eq_full [CommSemiring α] [DecidableEq α] (S : Sparse α) (hS : S.WF) (Z : Dense α)
    (hZ : Z.WF) : S.innerprodDense Z = Z.innerprod S.full ∧ S.innerprodDense Z = S.full.innerprod Z := by
  by_cases hs : S.shape = Z.shape
  · have h1 := sparse_innerprodDense_spec S hS Z hs
    have h2 := dense_innerprod_spec Z S.full hZ (full_WF S) hs.symm
    have h3 := dense_innerprod_spec S.full Z (full_WF S) hZ hs
    have e1 : Spec.inner S.den Z.den = Spec.inner S.full.den Z.den :=
      spec_inner_congr S.den S.full.den Z.den Z.den rfl (fun k hk => ((sp_full_at S hS k hk).1).symm) (fun _ _ => rfl)
    refine ⟨?_, ?_⟩
    · rw [h1, h2, e1]
      exact congrArg _ (spec_inner_comm S.full.den Z.den hs)
    · rw [h1, h3, e1]
  · rw [sparse_innerprodDense_rejects S Z hs, dense_innerprod_rejects Z S.full (fun h => hs h.symm),
      dense_innerprod_rejects S.full Z hs]
    exact ⟨rfl, rfl⟩

/-! ### inner product with a dense and with a sparse tensor -/

theorem facArgsS_getD (F : List (Mat α)) (d : Nat) :
    (F.map fun U => (⟨U, U.length, U.ncols⟩ : Dense.MatArg α)).getD d ⟨[], 0, 0⟩ =
      ⟨F.getD d [], (F.getD d []).length, (F.getD d []).ncols⟩ :=
  getD_map' (fun U => (⟨U, U.length, U.ncols⟩ : Dense.MatArg α)) F d []

/-- `D.ttm(factors, transpose=True)` for a well-formed dense tensor of the Tucker tensor's shape. -/
theorem ttm_factors_tr_ok [CommSemiring α] (F : List (Mat α)) (hN : 1 ≤ F.length) (D : Dense α) (hD : D.WF)
    (hs : F.map List.length = D.shape) :
    ∃ Z, D.ttm (F.map fun U => (⟨U, U.length, U.ncols⟩ : Dense.MatArg α)) none none true = .ok Z ∧ Z.WF := by
  have hDl : D.shape.length = F.length := by rw [← hs, List.length_map]
  obtain ⟨Z, hZ, zw, _⟩ := dense_ttm_all D hD
    (F.map fun U => (⟨U, U.length, U.ncols⟩ : Dense.MatArg α)) true (by rw [hDl]; exact hN)
    (by rw [List.length_map, hDl])
    (by
      intro d _
      rw [facArgsS_getD]
      simp only [if_true]
      rw [← hs]
      exact (getD_map' List.length F d []).symm)
  exact ⟨Z, hZ, zw⟩

/-- **`ttensor.innerprod(tensor)` with a sparse core** returns what the dense-core code returns on the
Tucker tensor with the core expanded. -/
theorem tuckerS_innerprodDense_eq [CommSemiring α] [DecidableEq α] (T : TtensorS α) (hT : TuckerSWF T)
    (hN : 1 ≤ T.factors.length) (D : Dense α) (hD : D.WF) :
    T.innerprodDense D = (expandS T).innerprodDense D := by
  unfold TtensorS.innerprodDense Ttensor.innerprodDense
  show (if (T.factors.map List.length != D.shape) = true then _ else _) =
    (if (T.factors.map List.length != D.shape) = true then _ else _)
  by_cases hs : T.factors.map List.length = D.shape
  · have hc : (T.factors.map List.length != D.shape) = false := by simp [hs]
    simp only [hc, Bool.false_eq_true, if_false]
    show (if numel (T.factors.map List.length) < numel T.core.shape then _ else _) =
      (if numel (T.factors.map List.length) < numel T.core.shape then _ else _)
    by_cases hb : numel (T.factors.map List.length) < numel T.core.shape
    · rw [if_pos hb, if_pos hb, tuckerS_full_eq T hT.core]
      rfl
    · rw [if_neg hb, if_neg hb]
      obtain ⟨Z, hZ, zw⟩ := ttm_factors_tr_ok T.factors hN D hD hs
      show ((match D.ttm (T.factors.map fun U => (⟨U, U.length, U.ncols⟩ : Dense.MatArg α)) none none true with
        | .error e => .error e | .ok Z => T.core.innerprodDense Z) : Except Reject α) =
        (match D.ttm (T.factors.map fun U => (⟨U, U.length, U.ncols⟩ : Dense.MatArg α)) none none true with
        | .error e => .error e | .ok Z => Z.innerprod T.core.full)
      rw [hZ]
      exact (sparse_innerprodDense_eq_full T.core hT.core Z zw).1
  · have hc : (T.factors.map List.length != D.shape) = true := by simp [hs]
    simp only [hc, if_true]

/-- **`ttensor.innerprod(tensor)` with a sparse core** is `Σ_k ⟦T⟧[k]·D[k]`. -/
theorem tuckerS_innerprodDense_spec [CommSemiring α] [DecidableEq α] (T : TtensorS α) (hT : TuckerSWF T)
    (hN : 1 ≤ T.factors.length) (D : Dense α) (hD : D.WF) (hs : tsShape T = D.shape) :
    T.innerprodDense D = .ok (Spec.inner (tsDen T) D.den) := by
  rw [tuckerS_innerprodDense_eq T hT hN D hD,
    tucker_innerprodDense_spec (expandS T) (expandS_WF T hT) hN D hD hs, spec_inner_expandS_left T hT.core]

theorem tuckerS_innerprodDense_rejects [Add α] [Mul α] [Zero α] [BEq α] (T : TtensorS α) (D : Dense α)
    (hs : tsShape T ≠ D.shape) : T.innerprodDense D = .error .reject := by
  unfold TtensorS.innerprodDense
  have : (T.shape != D.shape) = true := by
    have h : T.shape ≠ D.shape := hs
    simpa using h
  rw [this]; rfl

/-- **`ttensor.innerprod(sptensor)` with a sparse core** returns what the dense-core code returns. -/
theorem tuckerS_innerprodSparse_eq [CommSemiring α] [DecidableEq α] (T : TtensorS α) (hT : TuckerSWF T)
    (hN : 1 ≤ T.factors.length) (S : Sparse α) (hS : S.WF) :
    T.innerprodSparse S = (expandS T).innerprodSparse S := by
  unfold TtensorS.innerprodSparse Ttensor.innerprodSparse
  show (if (T.factors.map List.length != S.shape) = true then _ else _) =
    (if (T.factors.map List.length != S.shape) = true then _ else _)
  by_cases hs : T.factors.map List.length = S.shape
  · have hc : (T.factors.map List.length != S.shape) = false := by simp [hs]
    simp only [hc, Bool.false_eq_true, if_false]
    show (if numel (T.factors.map List.length) < numel T.core.shape then _ else _) =
      (if numel (T.factors.map List.length) < numel T.core.shape then _ else _)
    by_cases hb : numel (T.factors.map List.length) < numel T.core.shape
    · rw [if_pos hb, if_pos hb, tuckerS_full_eq T hT.core]
      rfl
    · rw [if_neg hb, if_neg hb]
      obtain ⟨Z, hZ, zw⟩ := ttm_factors_tr_ok T.factors hN S.full (full_WF S) hs
      rw [← sparse_ttm_eq_full S hS] at hZ
      show ((match S.ttm (T.factors.map fun U => (⟨U, U.length, U.ncols⟩ : Dense.MatArg α)) none none true with
        | .error e => .error e | .ok Z => T.core.innerprodDense Z) : Except Reject α) =
        (match S.ttm (T.factors.map fun U => (⟨U, U.length, U.ncols⟩ : Dense.MatArg α)) none none true with
        | .error e => .error e | .ok Z => Z.innerprod T.core.full)
      rw [hZ]
      exact (sparse_innerprodDense_eq_full T.core hT.core Z zw).1
  · have hc : (T.factors.map List.length != S.shape) = true := by simp [hs]
    simp only [hc, if_true]

/-- **`ttensor.innerprod(sptensor)` with a sparse core** is `Σ_k ⟦T⟧[k]·S[k]`. -/
theorem tuckerS_innerprodSparse_spec [CommSemiring α] [DecidableEq α] (T : TtensorS α) (hT : TuckerSWF T)
    (hN : 1 ≤ T.factors.length) (S : Sparse α) (hS : S.WF) (hs : tsShape T = S.shape) :
    T.innerprodSparse S = .ok (Spec.inner (tsDen T) S.den) := by
  rw [tuckerS_innerprodSparse_eq T hT hN S hS,
    tucker_innerprodSparse_spec (expandS T) (expandS_WF T hT) hN S hS hs, spec_inner_expandS_left T hT.core]

/-! ### norm -/

/-- **`ttensor.norm()` with a sparse core** (squared) returns what the dense-core code returns. -/
theorem tuckerS_normSq_eq [CommSemiring α] [DecidableEq α] (T : TtensorS α) (hT : TuckerSWF T)
    (hN : 1 ≤ T.factors.length) : T.normSq = (expandS T).normSq := by
  unfold TtensorS.normSq Ttensor.normSq
  show (if numel (T.factors.map List.length) > numel T.core.shape then _ else _) =
    (if numel (T.factors.map List.length) > numel T.core.shape then _ else _)
  by_cases hb : numel (T.factors.map List.length) > numel T.core.shape
  · rw [if_pos hb, if_pos hb]
    obtain ⟨J, hJ, jw, _, _⟩ := tucker_gram (expandS T) (expandS T) (expandS_WF T hT) (expandS_WF T hT) hN rfl
    have hJ' : T.core.full.ttm ((List.range T.factors.length).map fun i =>
        (⟨(T.factors.getD i []).tmul (T.factors.getD i []) (T.core.shape.getD i 0) (T.core.shape.getD i 0),
          T.core.shape.getD i 0, T.core.shape.getD i 0⟩ : Dense.MatArg α)) none none false = .ok J := hJ
    have hJs := hJ'
    rw [← sparse_ttm_eq_full T.core hT.core] at hJs
    show ((match T.core.ttm ((List.range T.factors.length).map fun i =>
        (⟨(T.factors.getD i []).tmul (T.factors.getD i []) (T.core.shape.getD i 0) (T.core.shape.getD i 0),
          T.core.shape.getD i 0, T.core.shape.getD i 0⟩ : Dense.MatArg α)) none none false with
      | .error e => .error e | .ok Y => T.core.innerprodDense Y) : Except Reject α) =
      (match T.core.full.ttm ((List.range T.factors.length).map fun i =>
        (⟨(T.factors.getD i []).tmul (T.factors.getD i []) (T.core.shape.getD i 0) (T.core.shape.getD i 0),
          T.core.shape.getD i 0, T.core.shape.getD i 0⟩ : Dense.MatArg α)) none none false with
      | .error e => .error e | .ok Y => Y.innerprod T.core.full)
    rw [hJs, hJ']
    exact (sparse_innerprodDense_eq_full T.core hT.core J jw).1
  · rw [if_neg hb, if_neg hb, tuckerS_full_eq T hT.core]
    rfl

theorem spec_normSq_eq_inner [Add α] [Mul α] [Zero α] (X : Den α) : Spec.normSq X = Spec.inner X X := rfl

/-- **`ttensor.norm()` with a sparse core**: its square is `Σ_k ⟦T⟧[k]²`. -/
theorem tuckerS_normSq_spec [CommSemiring α] [DecidableEq α] (T : TtensorS α) (hT : TuckerSWF T)
    (hN : 1 ≤ T.factors.length) : T.normSq = .ok (Spec.normSq (tsDen T)) := by
  rw [tuckerS_normSq_eq T hT hN, tucker_normSq_spec (expandS T) (expandS_WF T hT) hN]
  congr 1
  rw [spec_normSq_eq_inner, spec_normSq_eq_inner]
  exact spec_inner_congr (expandS T).den (tsDen T) (expandS T).den (tsDen T) rfl
    (fun k _ => (tsGet_eq_full T hT.core k).symm) (fun k _ => (tsGet_eq_full T hT.core k).symm)

/-! ### inner product of two Tucker tensors, cores of either kind -/

/-- The dense-core Tucker tensor a Tucker tensor of either core kind stands for. -/
def expandA [Zero α] : TuckerAny α → Ttensor α
  | .denseCore t => t
  | .sparseCore t => expandS t

/-- What a Tucker tensor of either core kind denotes. -/
def taDen [Add α] [Mul α] [One α] [Zero α] : TuckerAny α → Den α
  | .denseCore t => t.den
  | .sparseCore t => tsDen t

/-- Well-formedness for either core kind. -/
def TuckerAnyWF [Zero α] [BEq α] : TuckerAny α → Prop
  | .denseCore t => TuckerWF t
  | .sparseCore t => TuckerSWF t

theorem expandA_WF [Zero α] [BEq α] (T : TuckerAny α) (hT : TuckerAnyWF T) : TuckerWF (expandA T) := by
  cases T with
  | denseCore t => exact hT
  | sparseCore t => exact expandS_WF t hT

theorem expandA_factors [Zero α] (T : TuckerAny α) : (expandA T).factors = T.factors := by cases T <;> rfl
theorem expandA_coreShape [Zero α] (T : TuckerAny α) : (expandA T).core.shape = T.coreShape := by cases T <;> rfl
theorem expandA_shape [Zero α] (T : TuckerAny α) : (expandA T).shape = T.shape := by cases T <;> rfl
theorem taDen_shape [CommSemiring α] (T : TuckerAny α) : (taDen T).shape = T.shape := by cases T <;> rfl

theorem spec_inner_expandA [CommSemiring α] [DecidableEq α] (A B : TuckerAny α) (hA : TuckerAnyWF A) (hB : TuckerAnyWF B) :
    Spec.inner (expandA A).den (expandA B).den = Spec.inner (taDen A) (taDen B) := by
  apply spec_inner_congr
  · cases A <;> rfl
  · intro k _
    cases A with
    | denseCore t => rfl
    | sparseCore t => exact (tsGet_eq_full t hA.core k).symm
  · intro k _
    cases B with
    | denseCore t => rfl
    | sparseCore t => exact (tsGet_eq_full t hB.core k).symm

theorem coreTtm_eq [CommSemiring α] [DecidableEq α] (T : TuckerAny α) (hT : TuckerAnyWF T) (W : List (Dense.MatArg α)) :
    T.coreTtm W = (expandA T).core.ttm W none none false := by
  cases T with
  | denseCore t => rfl
  | sparseCore t => exact sparse_ttm_eq_full t.core hT.core W none none false

theorem coreInnerprod_eq [CommSemiring α] [DecidableEq α] (T : TuckerAny α) (hT : TuckerAnyWF T) (J : Dense α) (hJ : J.WF) :
    T.coreInnerprod J = (expandA T).core.innerprod J := by
  cases T with
  | denseCore t => rfl
  | sparseCore t => exact (sparse_innerprodDense_eq_full t.core hT.core J hJ).2

/-- With the smaller core first: `B.core.ttm([AᵢᵀBᵢ])` paired with `A.core`, whichever kernels the two
cores dispatch to. -/
theorem innerprodOrdered_spec [CommSemiring α] [DecidableEq α] (A B : TuckerAny α) (hA : TuckerAnyWF A)
    (hB : TuckerAnyWF B) (hN : 1 ≤ A.factors.length) (hs : A.shape = B.shape) :
    TuckerAny.innerprodOrdered A B = .ok (Spec.inner (taDen A) (taDen B)) := by
  have hA' := expandA_WF A hA
  have hB' := expandA_WF B hB
  obtain ⟨J, hJ, jw, jshape, jg⟩ := tucker_gram (expandA A) (expandA B) hA' hB'
    (by rw [expandA_factors]; exact hN) (by rw [expandA_shape, expandA_shape]; exact hs)
  rw [expandA_factors, expandA_factors, expandA_coreShape, expandA_coreShape] at hJ
  unfold TuckerAny.innerprodOrdered
  simp only [coreTtm_eq B hB, hJ]
  rw [coreInnerprod_eq A hA J jw, dense_innerprod_spec (expandA A).core J hA'.core jw jshape.symm, jg,
    spec_inner_expandA A B hA hB]

/-- **`ttensor.innerprod(ttensor)`** for cores of either kind (dense · dense, dense · sparse, sparse · dense,
sparse · sparse), whichever core is smaller: `Σ_k ⟦T⟧[k]·⟦O⟧[k]`. -/
theorem tuckerAny_innerprodT_spec [CommSemiring α] [DecidableEq α] (T O : TuckerAny α) (hT : TuckerAnyWF T)
    (hO : TuckerAnyWF O) (hN : 1 ≤ T.factors.length) (hs : T.shape = O.shape) :
    TuckerAny.innerprodT T O = .ok (Spec.inner (taDen T) (taDen O)) := by
  unfold TuckerAny.innerprodT
  have hc : (T.shape != O.shape) = false := by simp [hs]
  rw [hc]
  simp only [Bool.false_eq_true, if_false]
  by_cases hb : numel T.coreShape > numel O.coreShape
  · rw [if_pos hb]
    have hN' : 1 ≤ O.factors.length := by
      have h1 : T.shape.length = T.factors.length := by simp [TuckerAny.shape]
      have h2 : O.shape.length = O.factors.length := by simp [TuckerAny.shape]
      rw [← h2, ← hs, h1]; exact hN
    rw [innerprodOrdered_spec O T hO hT hN' hs.symm]
    exact congrArg _ (spec_inner_comm _ _ (by rw [taDen_shape, taDen_shape]; exact hs.symm))
  · rw [if_neg hb]
    exact innerprodOrdered_spec T O hT hO hN hs

theorem tuckerAny_innerprodT_rejects [Add α] [Mul α] [Zero α] [BEq α] (T O : TuckerAny α) (hs : T.shape ≠ O.shape) :
    TuckerAny.innerprodT T O = .error .reject := by
  unfold TuckerAny.innerprodT
  have : (T.shape != O.shape) = true := by simpa using hs
  rw [this]; rfl

/-! ### inner product with a Kruskal tensor -/

theorem tsShape_length (T : TtensorS α) : (tsShape T).length = T.factors.length := by simp [tsShape]

theorem tsShape_getD (T : TtensorS α) (d : Nat) : (tsShape T).getD d 0 = (T.factors.getD d []).length :=
  getD_map' List.length T.factors d []

/-- **`ttensor.ttv` with a sparse core and one vector for every mode**: the scalar
`Σ_k ⟦T⟧[k] ∏_m v_m[k_m]`. -/
theorem tuckerS_ttv_all [CommSemiring α] [DecidableEq α] (T : TtensorS α) (hT : TuckerSWF T) (vs : List (List α))
    (hl : vs.length = T.factors.length)
    (hsz : ∀ m, m < T.factors.length → (vs.getD m []).length = (T.factors.getD m []).length) :
    ∃ v, T.ttv vs none none = .ok (.scalar v) ∧
      v = ((allSubs (tsShape T)).map fun k => tsGet T k *
        ((List.range T.factors.length).map fun m => (vs.getD m []).getD (k.getD m 0) 0).prod).sum := by
  set N := T.factors.length with hN
  have hmem : ∀ q ∈ (List.range N).zip vs, q.1 < N ∧ q.2 = vs.getD q.1 [] := by
    intro q hq
    rw [← hl, zip_range_eq_map vs []] at hq
    obtain ⟨k, hk, rfl⟩ := List.mem_map.1 hq
    exact ⟨by rw [← hl]; exact List.mem_range.1 hk, rfl⟩
  obtain ⟨pairs, e, hs, hp⟩ := resolve_dims_P N vs (List.range N) List.nodup_range
    (fun x hx => List.mem_range.1 hx) (by simp [hl])
  obtain ⟨f1, f2, f3, f4⟩ := pairs_facts (tsShape T) List.length (List.range N) vs pairs List.nodup_range
    (by intro x hx; rw [tsShape_length]; exact List.mem_range.1 hx) (by simp [hl])
    (by intro q hq; rw [(hmem q hq).2, tsShape_getD]; exact hsz q.1 (hmem q hq).1) hs hp
  obtain ⟨r, hr, hk, hg⟩ := tuckerS_ttvCore_spec T hT.core hT.len hT.cols pairs f1
    (by intro p hp'; rw [← tsShape_length]; exact f2 p hp')
    (by intro p hp'; rw [← tsShape_getD]; exact f3 p hp')
    (fun m x => (vs.getD m []).getD x 0)
    (by intro p hp' k; rw [(hmem p (hp.subset hp')).2])
  have hcd : complDims N (pairs.map (·.1)) = [] := by rw [complDims_perm f4, complDims_range]
  obtain ⟨v, rfl⟩ := hk.2 hcd
  refine ⟨v, ?_, ?_⟩
  · unfold TtensorS.ttv
    rw [← hN, resolve_none, e]
    exact hr
  · have hsh : Spec.ttvShape (tsShape T) (pairs.map (·.1)) = [] := by
      unfold Spec.ttvShape
      rw [tsShape_length, ← hN, hcd]; rfl
    have := hg [] (by rw [hsh]; trivial)
    rw [show tanyGet (.scalar v) [] = v from rfl] at this
    rw [this, spec_ttv_perm _ f4]
    show ((Spec.fiber (tsShape T) (complDims (tsShape T).length (List.range N)) []).map _).sum = _
    rw [tsShape_length, ← hN, complDims_range, fiber_nil]
    rfl

/-- **`ttensor.innerprod(ktensor)` with a sparse core** (= `ktensor.innerprod(ttensor)`): one full `ttv`
through the sparse kernel per component, weighted and added, is `Σ_k ⟦K⟧[k]·⟦T⟧[k]`. -/
theorem tuckerS_innerprodKruskal_spec [CommSemiring α] [DecidableEq α] (T : TtensorS α) (hT : TuckerSWF T)
    (K : Ktensor α) (hs : K.shape = tsShape T) :
    T.innerprodKruskal K = .ok (Spec.inner K.den (tsDen T)) := by
  have hNl : T.factors.length = K.factors.length := by rw [← tsShape_length, ← hs, kshape_length]
  have hvs : ∀ r, ∃ v, T.ttv (K.factors.map fun A => A.colOf r) none none = .ok (.scalar v) ∧
      v = ((allSubs K.shape).map fun k => tsGet T k * K.comp r k).sum := by
    intro r
    obtain ⟨v, hv, hval⟩ := tuckerS_ttv_all T hT (K.factors.map fun A => A.colOf r)
      (by rw [List.length_map, hNl])
      (by
        intro m _
        rw [show ([] : List α) = Mat.colOf ([] : Mat α) r from rfl, getD_map' (fun A => Mat.colOf A r) K.factors m []]
        rw [← tsShape_getD, ← hs, kshape_getD]
        simp [Mat.colOf])
    refine ⟨v, hv, ?_⟩
    rw [hval, ← hs]
    apply sum_congr
    intro k hk
    have hkl : k.length = K.factors.length := by rw [(mem_allSubs.1 hk).length_eq, kshape_length]
    rw [comp_eq_range K r k hkl, hNl]
    congr 2
    apply List.map_congr_left
    intro m _
    rw [show ([] : List α) = Mat.colOf ([] : Mat α) r from rfl, getD_map' (fun A => Mat.colOf A r) K.factors m []]
    exact getD_map_col _ _ _
  choose vf hvf using hvs
  unfold TtensorS.innerprodKruskal
  have : (K.shape != T.shape) = false := by
    have h : K.shape = T.shape := hs
    simp [h]
  rw [this]
  simp only [Bool.false_eq_true, if_false]
  rw [foldlM_step_ok (List.range K.ncomp) _ (fun a r => a + K.weights.getD r 0 * vf r)
    (fun a r _ => by simp only [(hvf r).1]), foldl_add, zero_add]
  congr 1
  show _ = ((allSubs K.shape).map fun k => K.get k * tsGet T k).sum
  have hterm : ∀ k ∈ allSubs K.shape, K.get k * tsGet T k =
      ((List.range K.ncomp).map fun r => K.weights.getD r 0 * (tsGet T k * K.comp r k)).sum := by
    intro k _
    unfold Ktensor.get
    rw [← List.sum_map_mul_right]
    apply sum_congr
    intro r _
    ring
  rw [List.map_congr_left hterm, sum_comm]
  apply sum_congr
  intro r _
  rw [(hvf r).2, List.sum_map_mul_left]

/-! ### mttkrp -/

theorem spec_mttkrp_congr [CommSemiring α] (X Y : Den α) (hs : X.shape = Y.shape)
    (hg : ∀ k, InBounds X.shape k → X.get k = Y.get k) (U : Nat → Nat → Nat → α) (lam : Nat → α) (n i r : Nat) :
    Spec.mttkrp X U lam n i r = Spec.mttkrp Y U lam n i r := by
  unfold Spec.mttkrp Spec.sumOver
  rw [← hs]
  congr 1
  apply sum_congr
  intro k hk
  rw [hg k (mem_allSubs.1 (List.mem_filter.1 hk).1)]

/-- **`ttensor.mttkrp` with a sparse core**, for the factor list `get_mttkrp_factors` hands on: the matrices
`UₘᵀVₘ` go into `sptensor.mttkrp` of the core (one sparse `ttv` per column), whose result is multiplied by
`Uₙ`. -/
theorem tuckerS_mttkrp_fs [CommSemiring α] [DecidableEq α] (T : TtensorS α) (hT : TuckerSWF T) (Uop : KOperand α)
    (fs : List (Mat α)) (n R : Nat)
    (hfs : getMttkrpFactors Uop n T.factors.length = .ok fs)
    (hN2 : 2 ≤ T.factors.length) (hn : n < T.factors.length)
    (hrows : ∀ m, m < T.factors.length → m ≠ n → (fs.getD m []).length = (T.factors.getD m []).length)
    (hcols : ∀ m, m < T.factors.length → m ≠ n → ∀ row ∈ fs.getD m [], row.length = R)
    (hpos : ∀ m, m < T.factors.length → m ≠ n → 0 < (T.factors.getD m []).length)
    (hcpos : ∀ e ∈ T.core.shape, 0 < e) :
    ∃ V, T.mttkrp Uop n = .ok V ∧ V.length = (T.factors.getD n []).length ∧ (∀ row ∈ V, row.length = R) ∧
      ∀ i r, i < (T.factors.getD n []).length → r < R →
        V.get i r = Spec.mttkrp (tsDen T) (fun m x c => (fs.getD m []).get x c) (fun _ => 1) n i r := by
  set N := T.factors.length with hN
  have hNc : T.core.shape.length = N := hT.len.symm
  have hTd := expandS_WF T hT
  -- the dense-core computation on the expanded core
  obtain ⟨Vd, hVd, _, _, hvald⟩ := tucker_mttkrp_fs (expandS T) hTd Uop fs n R hfs hN2 hn hrows hcols hpos hcpos
  have hfpos : ∀ m, m < N → m ≠ n → 0 < (fs.getD m []).length :=
    fun m hm hmn => by rw [hrows m hm hmn]; exact hpos m hm hmn
  have hR := mttkrp_R fs n N R hN2 hn hcols hfpos
  have hnc : ∀ m, m < N → m ≠ n → (fs.getD m []).ncols = R :=
    fun m hm hmn => ncols_eq _ R (hcols m hm hmn) (hfpos m hm hmn)
  set W : List (Mat α) := (List.range N).map fun i =>
    if i == n then [] else (T.factors.getD i []).tmul (fs.getD i []) (T.core.shape.getD i 0) (fs.getD i []).ncols with hW
  have hWget : ∀ m, m < N → m ≠ n → W.getD m [] =
      (T.factors.getD m []).tmul (fs.getD m []) (T.core.shape.getD m 0) R := by
    intro m hm hmn
    rw [hW, getD_map_range _ _ _ _ hm]
    have : (m == n) = false := by simpa using hmn
    rw [this, hnc m hm hmn]
    rfl
  have hguard : (List.range N).any (fun i => i != n &&
      (fs.getD i []).length != (T.factors.getD i []).length) = false := by
    rw [List.any_eq_false]
    intro m hm
    have hm' := List.mem_range.1 hm
    by_cases hmn : m = n
    · simp [hmn]
    · have h3 : (m != n) = true := by simpa using hmn
      rw [h3, hrows m hm' hmn]; simp
  have hWl : W.length = T.core.shape.length := by rw [hW, List.length_map, List.length_range, hNc]
  have hWrows : ∀ m, m < T.core.shape.length → m ≠ n → (W.getD m []).length = T.core.shape.getD m 0 := by
    intro m hm hmn
    rw [hNc] at hm
    rw [hWget m hm hmn]
    simp [Mat.tmul]
  have hWcols : ∀ m, m < T.core.shape.length → m ≠ n → ∀ row ∈ W.getD m [], row.length = R := by
    intro m hm hmn row hrow
    rw [hNc] at hm
    rw [hWget m hm hmn] at hrow
    obtain ⟨a, _, rfl⟩ := List.mem_map.1 hrow
    simp
  obtain ⟨Ys, hYs, hvals⟩ := sparse_mttkrp_list_spec T.core hT.core W n R (by rw [hNc]; exact hN2) (by rw [hNc]; exact hn)
    hWl hWrows hWcols hcpos
  obtain ⟨Yd, hYd, hvalY⟩ := dense_mttkrpCore_spec T.core.full W n R (full_WF T.core) (by rw [full_shape, hNc]; exact hN2)
    (by rw [full_shape, hNc]; exact hn) hWl hWrows hWcols hcpos
  -- the two core results agree entry by entry
  have hYeq : ∀ c r, c < T.core.shape.getD n 0 → r < R → Ys.get c r = Yd.get c r := by
    intro c r hc hr
    rw [hvals c r hc hr, hvalY c r hc hr]
    exact spec_mttkrp_congr T.core.den T.core.full.den rfl (fun k hk => ((sp_full_at T.core hT.core k hk).1).symm) _ _ _ _ _
  have hVdval : Vd = (T.factors.getD n []).mulD Yd (T.factors.getD n []).length (T.core.shape.getD n 0) R := by
    have := hVd
    unfold Ttensor.mttkrp at this
    simp only [show (expandS T).factors = T.factors from rfl, ← hN, hfs, hR] at this
    rw [if_neg (by omega), hguard] at this
    simp only [Bool.false_eq_true, if_false] at this
    have hYd' : (expandS T).core.mttkrpCore W n = .ok Yd := hYd
    rw [show (List.map (fun i => if (i == n) = true then [] else
        (T.factors.getD i []).tmul (fs.getD i []) ((expandS T).core.shape.getD i 0) (fs.getD i []).ncols) (List.range N)) = W
        from rfl, hYd'] at this
    exact (Except.ok.inj this).symm
  refine ⟨(T.factors.getD n []).mulD Ys (T.factors.getD n []).length (T.core.shape.getD n 0) R, ?_, length_mulD _ _ _ _ _,
    ?_, ?_⟩
  · unfold TtensorS.mttkrp
    simp only [← hN, hfs, hR]
    rw [if_neg (by omega), hguard]
    simp only [Bool.false_eq_true, if_false, ← hW, hYs]
  · intro row hrow
    obtain ⟨a, _, rfl⟩ := List.mem_map.1 hrow
    simp
  · intro i r hi hr
    have h1 := hvald i r hi hr
    rw [hVdval, mulD_get _ _ _ _ _ _ _ hi hr] at h1
    rw [mulD_get _ _ _ _ _ _ _ hi hr]
    have h2 : (sumRange (T.core.shape.getD n 0) fun c => (T.factors.getD n []).get i c * Ys.get c r) =
        sumRange (T.core.shape.getD n 0) fun c => (T.factors.getD n []).get i c * Yd.get c r := by
      apply sumRange_congr
      intro c hc
      rw [hYeq c r hc hr]
    rw [h2, h1]
    exact (spec_mttkrp_congr (tsDen T) (expandS T).den rfl (fun k _ => tsGet_eq_full T hT.core k) _ _ _ _ _).symm

/-- **`ttensor.mttkrp` with a sparse core and a factor list.** -/
theorem tuckerS_mttkrp_list_spec [CommSemiring α] [DecidableEq α] (T : TtensorS α) (hT : TuckerSWF T) (U : List (Mat α))
    (n R : Nat)
    (hN2 : 2 ≤ T.factors.length) (hn : n < T.factors.length) (hlen : U.length = T.factors.length)
    (hrows : ∀ m, m < T.factors.length → m ≠ n → (U.getD m []).length = (T.factors.getD m []).length)
    (hcols : ∀ m, m < T.factors.length → m ≠ n → ∀ row ∈ U.getD m [], row.length = R)
    (hpos : ∀ m, m < T.factors.length → m ≠ n → 0 < (T.factors.getD m []).length)
    (hcpos : ∀ e ∈ T.core.shape, 0 < e) :
    ∃ V, T.mttkrp (.list U) n = .ok V ∧ V.length = (T.factors.getD n []).length ∧ (∀ row ∈ V, row.length = R) ∧
      ∀ i r, i < (T.factors.getD n []).length → r < R →
        V.get i r = Spec.mttkrp (tsDen T) (fun m x c => (U.getD m []).get x c) (fun _ => 1) n i r := by
  apply tuckerS_mttkrp_fs T hT (.list U) U n R ?_ hN2 hn hrows hcols hpos hcpos
  unfold getMttkrpFactors
  simp [hlen]

/-- **`ttensor.mttkrp` with a sparse core and a Kruskal operand** (its weights scale the columns). -/
theorem tuckerS_mttkrp_kruskal_spec [CommSemiring α] [DecidableEq α] (T : TtensorS α) (hT : TuckerSWF T) (L : Ktensor α)
    (n R : Nat)
    (hN2 : 2 ≤ T.factors.length) (hn : n < T.factors.length) (hlen : L.factors.length = T.factors.length)
    (hw : L.weights.length = R)
    (hrows : ∀ m, m < T.factors.length → m ≠ n → (L.factors.getD m []).length = (T.factors.getD m []).length)
    (hcols : ∀ m, m < T.factors.length → m ≠ n → ∀ row ∈ L.factors.getD m [], row.length = R)
    (hpos : ∀ m, m < T.factors.length → m ≠ n → 0 < (T.factors.getD m []).length)
    (hcpos : ∀ e ∈ T.core.shape, 0 < e) :
    ∃ V, T.mttkrp (.kruskal L) n = .ok V ∧ V.length = (T.factors.getD n []).length ∧ (∀ row ∈ V, row.length = R) ∧
      ∀ i r, i < (T.factors.getD n []).length → r < R →
        V.get i r = Spec.mttkrp (tsDen T) (fun m x c => (L.factors.getD m []).get x c)
          (fun r => L.weights.getD r 0) n i r := by
  obtain ⟨fs, hfs, f1, f2, f3⟩ := getMttkrpFactors_kruskal L n T.factors.length R hN2 hn hlen hw
  obtain ⟨V, hV, hV1, hV2, hval⟩ := tuckerS_mttkrp_fs T hT (.kruskal L) fs n R hfs hN2 hn
    (fun m hm hmn => by rw [f1 m hm]; exact hrows m hm hmn)
    (fun m hm hmn => f2 m hm (hcols m hm hmn)) hpos hcpos
  refine ⟨V, hV, hV1, hV2, ?_⟩
  intro i r hi hr
  rw [hval i r hi hr, f3 (tsDen T) (tsShape_length T) i r]

end MLK
end Pyttb
