/-
C04, dense class: region keys with ONE index list in a position where NumPy's advanced
indexing coincides with the rectangular region (the list preceded only by integers, or by
slices and then integers with all advanced elements adjacent).
-/
import PyttbModel.Lemmas.MutArrayDense
set_option linter.unusedSimpArgs false
set_option linter.unusedVariables false
set_option linter.unusedSectionVars false

namespace Pyttb

variable {α : Type}

/-! ### the rectangular reading of resolved key elements -/

/-- indices a resolved key element selects -/
def NPart.idx : NPart → List Nat
  | .int i => [i]
  | .slice l => l
  | .list l => l

def NPart.isIntN : NPart → Bool
  | .int _ => true
  | _ => false

/-- the subscript of `data` for the result subscript `j` of the rectangular region: kept
modes (slices and lists) consume the coordinates of `j` in key order -/
def rectSrc : List NPart → List Nat → List Nat
  | [], _ => []
  | .int i :: ps, j => i :: rectSrc ps j
  | .slice l :: ps, x :: j => l.getD x 0 :: rectSrc ps j
  | .slice l :: ps, [] => l.getD 0 0 :: rectSrc ps []
  | .list l :: ps, x :: j => l.getD x 0 :: rectSrc ps j
  | .list l :: ps, [] => l.getD 0 0 :: rectSrc ps []

/-- extents of the kept modes in key order -/
def keptN : List NPart → List Nat
  | [] => []
  | .int _ :: ps => keptN ps
  | .slice l :: ps => l.length :: keptN ps
  | .list l :: ps => l.length :: keptN ps

theorem flatMap_congr_d {β γ : Type} (l : List β) (f g : β → List γ) (h : ∀ x ∈ l, f x = g x) :
    l.flatMap f = l.flatMap g := by
  induction l with
  | nil => rfl
  | cons a l ih =>
    simp only [List.flatMap_cons]
    rw [h a (by simp), ih (fun x hx => h x (by simp [hx]))]

theorem map_range_getD_d (l : List Nat) {β : Type} (f : Nat → β) :
    l.map f = (List.range l.length).map fun x => f (l.getD x 0) := by
  apply List.ext_getElem
  · simp
  · intro k h1 h2
    simp [List.getD_eq_getElem?_getD, List.getElem?_eq_getElem (by simpa using h1 : k < l.length)]

/-- The rectangular region, first mode fastest, is the F-order enumeration of the result
decoded by `rectSrc`. -/
theorem outerF_eq_rectSrc (ps : List NPart) :
    outerF (ps.map NPart.idx) = (allSubs (keptN ps)).map (rectSrc ps) := by
  induction ps with
  | nil => simp [outerF, keptN, allSubs, numel, rectSrc, ind2sub]
  | cons p ps ih =>
    cases p with
    | int i =>
      simp only [List.map_cons, NPart.idx, outerF, keptN, ih, List.flatMap_map, List.map_cons, List.map_nil]
      rw [List.map_eq_flatMap]
      apply flatMap_congr_d
      intro j _
      simp [rectSrc]
    | slice l =>
      simp only [List.map_cons, NPart.idx, outerF, keptN, allSubs_cons, ih, List.flatMap_map, List.map_flatMap]
      apply flatMap_congr_d
      intro j _
      rw [map_range_getD_d l, List.map_map]
      apply List.map_congr_left
      intro x _
      simp [rectSrc]
    | list l =>
      simp only [List.map_cons, NPart.idx, outerF, keptN, allSubs_cons, ih, List.flatMap_map, List.map_flatMap]
      apply flatMap_congr_d
      intro j _
      rw [map_range_getD_d l, List.map_map]
      apply List.map_congr_left
      intro x _
      simp [rectSrc]

/-! ### advanced indexing with one list in a rectangular position -/

theorem advSrc_noList (ps : List NPart) (h : ps.any NPart.isList = false) (b : Nat) (js : List Nat) :
    advSrc ps b js = rectSrc ps js := by
  induction ps generalizing js with
  | nil => rfl
  | cons p ps ih =>
    simp only [List.any_cons, Bool.or_eq_false_iff] at h
    cases p with
    | int i => simp [advSrc, rectSrc, ih h.2]
    | list l => simp [NPart.isList] at h
    | slice l =>
      cases js with
      | nil => simp [advSrc, rectSrc, ih h.2]
      | cons x js => simp [advSrc, rectSrc, ih h.2]

theorem advSrc_ints_list (ints : List NPart) (hi : ints.all NPart.isIntN = true) (l : List Nat) (rest : List NPart)
    (hr : rest.any NPart.isList = false) (b : Nat) (hb : b < l.length) (js : List Nat) :
    advSrc (ints ++ .list l :: rest) b js = rectSrc (ints ++ .list l :: rest) (b :: js) := by
  induction ints with
  | nil =>
    have h1 : (if l.length == 1 then 0 else b) = b := by
      split
      · next h => have : l.length = 1 := by simpa using h
                  omega
      · rfl
    simp only [List.nil_append, advSrc, rectSrc, h1, advSrc_noList rest hr]
  | cons p ints ih =>
    simp only [List.all_cons, Bool.and_eq_true] at hi
    cases p with
    | int i => simp [advSrc, rectSrc, ih hi.2]
    | slice l' => simp [NPart.isIntN] at hi
    | list l' => simp [NPart.isIntN] at hi

theorem advSrc_pre (pre : List NPart) (hp : pre.all (fun p => !p.isAdv) = true) (tail : List NPart) (L : Nat)
    (ht : ∀ b js, b < L → advSrc tail b js = rectSrc tail (b :: js))
    (j : List Nat) (hj : pre.length < j.length) (hb : j.getD pre.length 0 < L) :
    advSrc (pre ++ tail) (j.getD pre.length 0) (j.eraseIdx pre.length) = rectSrc (pre ++ tail) j := by
  induction pre generalizing j with
  | nil =>
    cases j with
    | nil => simp at hj
    | cons x j => simpa using ht x j (by simpa using hb)
  | cons p pre ih =>
    simp only [List.all_cons, Bool.and_eq_true] at hp
    cases p with
    | int i => simp [NPart.isAdv] at hp
    | list l => simp [NPart.isAdv] at hp
    | slice l =>
      cases j with
      | nil => simp at hj
      | cons x j =>
        have := ih hp.2 j (by simpa using hj) (by simpa using hb)
        simp only [List.length_cons, List.getD_cons_succ, List.eraseIdx_cons_succ, List.cons_append, advSrc,
          rectSrc, this]

theorem insertIdx_append_length (a b : List Nat) (x : Nat) : (a ++ b).insertIdx a.length x = a ++ x :: b := by
  induction a with
  | nil => simp
  | cons c a ih => simp [ih]

theorem listLens_noList (ps : List NPart) (h : ps.any NPart.isList = false) : listLens ps = [] := by
  unfold listLens
  induction ps with
  | nil => rfl
  | cons p ps ih =>
    simp only [List.any_cons, Bool.or_eq_false_iff] at h
    cases p with
    | list l => simp [NPart.isList] at h
    | int i => rw [List.filterMap_cons_none (by rfl)]; exact ih h.2
    | slice l => rw [List.filterMap_cons_none (by rfl)]; exact ih h.2

theorem noList_of_notAdv (ps : List NPart) (h : ps.all (fun p => !p.isAdv) = true) : ps.any NPart.isList = false := by
  rw [List.any_eq_false]
  intro p hp
  have := List.all_eq_true.1 h p hp
  cases p <;> simp_all [NPart.isAdv, NPart.isList]

theorem noList_of_ints (ps : List NPart) (h : ps.all NPart.isIntN = true) : ps.any NPart.isList = false := by
  rw [List.any_eq_false]
  intro p hp
  have := List.all_eq_true.1 h p hp
  cases p <;> simp_all [NPart.isIntN, NPart.isList]

theorem keptN_noList (ps : List NPart) (h : ps.any NPart.isList = false) : keptN ps = sliceLens ps := by
  unfold sliceLens
  induction ps with
  | nil => rfl
  | cons p ps ih =>
    simp only [List.any_cons, Bool.or_eq_false_iff] at h
    cases p with
    | list l => simp [NPart.isList] at h
    | int i => rw [List.filterMap_cons_none (by rfl)]; exact ih h.2
    | slice l => rw [List.filterMap_cons_some (by rfl)]; simp only [keptN]; rw [ih h.2]

theorem keptN_append (a b : List NPart) : keptN (a ++ b) = keptN a ++ keptN b := by
  induction a with
  | nil => rfl
  | cons p a ih => cases p <;> simp [keptN, ih]

theorem sliceLens_append (a b : List NPart) : sliceLens (a ++ b) = sliceLens a ++ sliceLens b := by
  simp [sliceLens, List.filterMap_append]

theorem listLens_append (a b : List NPart) : listLens (a ++ b) = listLens a ++ listLens b := by
  simp [listLens, List.filterMap_append]

theorem keptN_ints (ps : List NPart) (h : ps.all NPart.isIntN = true) : keptN ps = [] := by
  induction ps with
  | nil => rfl
  | cons p ps ih =>
    simp only [List.all_cons, Bool.and_eq_true] at h
    have h1 := h.1
    cases p with
    | int i => simp [keptN, ih h.2]
    | slice l => simp [NPart.isIntN] at h1
    | list l => simp [NPart.isIntN] at h1

theorem sliceLens_length_notAdv (pre : List NPart) (h : pre.all (fun p => !p.isAdv) = true) :
    (sliceLens pre).length = pre.length := by
  unfold sliceLens
  induction pre with
  | nil => rfl
  | cons p pre ih =>
    simp only [List.all_cons, Bool.and_eq_true] at h
    have h1 := h.1
    cases p with
    | int i => simp [NPart.isAdv] at h1
    | list l => simp [NPart.isAdv] at h1
    | slice l' => rw [List.filterMap_cons_some (by rfl)]; simp [ih h.2]

/-- ONE index list in a rectangular position: leading slices, then integers, then the
(non-empty) list, then elements without a further list; when slices lead, all advanced
elements must be adjacent (otherwise NumPy moves the list's mode to the front). -/
def listPatternN (ps : List NPart) : Bool :=
  match ((ps.dropWhile fun p => !p.isAdv).dropWhile NPart.isIntN) with
  | .list l :: rest =>
    !rest.any NPart.isList && ((ps.takeWhile fun p => !p.isAdv).isEmpty || advAdjacent ps) && decide (0 < l.length)
  | _ => false

/-- For such a key NumPy's advanced indexing addresses the rectangular region, with the
modes of the result in key order. -/
theorem npIndex_list (ps : List NPart) (h : listPatternN ps = true) :
    npIndex ps = .ok (keptN ps, outerF (ps.map NPart.idx)) := by
  unfold listPatternN at h
  generalize hpre : (ps.takeWhile fun p => !p.isAdv) = pre at h
  generalize ht : (ps.dropWhile fun p => !p.isAdv) = t at h
  generalize hints : t.takeWhile NPart.isIntN = ints
  have hps : ps = pre ++ t := by rw [← hpre, ← ht, List.takeWhile_append_dropWhile]
  have hpreAll : pre.all (fun p => !p.isAdv) = true := by rw [← hpre]; exact List.all_takeWhile
  have hintsAll : ints.all NPart.isIntN = true := by rw [← hints]; exact List.all_takeWhile
  match hd : t.dropWhile NPart.isIntN, h with
  | .list l :: rest, h =>
    simp only [Bool.and_eq_true, Bool.not_eq_true', Bool.or_eq_true, decide_eq_true_eq] at h
    obtain ⟨⟨hrest, hadj⟩, hl⟩ := h
    have htt : t = ints ++ .list l :: rest := by
      rw [← hints, ← hd, List.takeWhile_append_dropWhile]
    have hps' : ps = pre ++ (ints ++ .list l :: rest) := by rw [hps, htt]
    have hnlpre := noList_of_notAdv pre hpreAll
    have hnlints := noList_of_ints ints hintsAll
    have hany : ps.any NPart.isList = true := by
      rw [hps']; simp [NPart.isList]
    have hlens : listLens ps = [l.length] := by
      rw [hps', listLens_append, listLens_append, listLens_noList pre hnlpre, listLens_noList ints hnlints]
      have : listLens (NPart.list l :: rest) = l.length :: listLens rest := by
        unfold listLens; rw [List.filterMap_cons_some (by rfl)]
      rw [this, listLens_noList rest hrest]
      rfl
    have hk : (if advAdjacent ps then (ps.takeWhile fun p => !p.isAdv).length else 0) = pre.length := by
      rw [hpre]
      rcases hadj with he | ha
      · have : pre = [] := by simpa using he
        simp [this]
      · simp [ha]
    have hkept : keptN ps = sliceLens pre ++ l.length :: sliceLens rest := by
      rw [hps', keptN_append, keptN_append, keptN_noList pre hnlpre, keptN_ints ints hintsAll]
      simp [keptN, keptN_noList rest hrest]
    have hslice : sliceLens ps = sliceLens pre ++ sliceLens rest := by
      rw [hps', sliceLens_append, sliceLens_append]
      have h1 : sliceLens ints = [] := by rw [← keptN_noList ints hnlints, keptN_ints ints hintsAll]
      rw [h1]
      have : sliceLens (NPart.list l :: rest) = sliceLens rest := by
        unfold sliceLens; rw [List.filterMap_cons_none (by rfl)]
      rw [this]; rfl
    have hprelen := sliceLens_length_notAdv pre hpreAll
    unfold npIndex
    simp only [hany, Bool.not_true, Bool.false_eq_true, ↓reduceIte, hlens, hk]
    have hL : (([l.length].filter (· != 1)).headD 1) = l.length := by
      by_cases h1 : l.length = 1
      · simp [h1]
      · simp [h1]
    have hbig : (([l.length].filter (· != 1)).any (· != ([l.length].filter (· != 1)).headD 1)) = false := by
      rw [hL]
      by_cases h1 : l.length = 1
      · simp [h1]
      · simp [h1]
    rw [hbig]
    simp only [Bool.false_eq_true, ↓reduceIte, hL]
    have hrs : (sliceLens ps).insertIdx pre.length l.length = keptN ps := by
      rw [hslice, hkept, ← hprelen, insertIdx_append_length]
    rw [hrs, outerF_eq_rectSrc]
    congr 2
    apply List.map_congr_left
    intro j hj
    have hjb : InBounds (keptN ps) j := mem_allSubs.1 hj
    have hjl : j.length = (keptN ps).length := hjb.length_eq
    have hklen : pre.length < (keptN ps).length := by rw [hkept]; simp [hprelen]
    have hkb := hjb.getD_lt' pre.length hklen
    have hkv : (keptN ps).getD pre.length 0 = l.length := by
      rw [hkept, ← hprelen]
      simp [List.getD_eq_getElem?_getD]
    rw [hkv] at hkb
    rw [hps']
    exact advSrc_pre pre hpreAll (ints ++ .list l :: rest) l.length
      (fun b js hb => advSrc_ints_list ints hintsAll l rest hrest b hb js) j (by omega) hkb
  | [], h => simp at h
  | .int _ :: _, h => simp at h
  | .slice _ :: _, h => simp at h

/-! ### the key of a write / read with an index list -/

/-- the resolved key element of the specification's mode `r` for the key element `p` -/
def toNPartP (p : RPart) (r : Nat × List Nat × Bool) : NPart :=
  match p with
  | .list _ => .list r.2.1
  | _ => toNPart r

theorem part_list (ext : Option Nat) (is : List Nat) :
    (do let x ← Dense.newExtent ext (.list is); let np ← npPart x (.list is); pure (x, np) :
        Except Reject (Nat × NPart)) =
    (MArr.regionPart (ext.getD 0) ext.isNone true (.list is)).map (fun r => (r.1, NPart.list r.2.1)) := by
  simp only [Dense.newExtent, Dense.sliceCheck, npPart, MArr.regionPart, bind, Except.bind, pure, Except.pure,
    Except.map]
  by_cases he : is.isEmpty = true
  · simp [he]
  · have he' : is.isEmpty = false := by simpa using he
    simp only [he', Bool.false_eq_true, if_false, or_true, if_true]
    cases ext with
    | none =>
      have h0 : ¬ ((maxNat is : Int) + 1 < 0) := by omega
      have hx : ((maxNat is : Int) + 1).toNat = max 0 (maxNat is + 1) := by omega
      have hall : ∀ x ∈ is, x < maxNat is + 1 := by
        intro x hx'; have := le_maxNat hx'; omega
      simp [h0, hx]
      rw [if_pos hall]
    | some e =>
      have h0 : ¬ (max (e : Int) ((maxNat is : Int) + 1) < 0) := by omega
      have hx : (max (e : Int) ((maxNat is : Int) + 1)).toNat = max e (maxNat is + 1) := by omega
      have hall : is.all (fun x => decide (x < max e (maxNat is + 1))) = true := by
        rw [List.all_eq_true]; intro x hx'; have := le_maxNat hx'; simp; omega
      simp [h0, hx, hall]

theorem part_general (ext : Option Nat) (p : RPart) :
    (do let x ← Dense.newExtent ext p; let np ← npPart x p; pure (x, np) : Except Reject (Nat × NPart)) =
    (MArr.regionPart (ext.getD 0) ext.isNone true p).map (fun r => (r.1, toNPartP p r)) := by
  cases p with
  | list is => exact part_list ext is
  | int i => exact part_simple ext (.int i) rfl
  | slice a b c => exact part_simple ext (.slice a b c) rfl

/-- Whole key, index lists included: growth rule + NumPy resolution = the specification's
reading of the region. -/
theorem region_general (s : List Nat) (parts : List RPart) :
    (do let s' ← Dense.newSizeParts s parts; let ps ← npParts s' parts; pure (s', ps) :
        Except Reject (List Nat × List NPart)) =
    (MArr.regionParts true s parts).map (fun rs => (rs.map (·.1), List.zipWith toNPartP parts rs)) := by
  induction parts generalizing s with
  | nil =>
    cases s with
    | nil => rfl
    | cons e es => rfl
  | cons p ps ih =>
    cases s with
    | nil =>
      have h1 := part_general none p
      have h2 := ih []
      simp only [Option.getD_none, Option.isNone_none] at h1
      have swap := except_bind_swap (Dense.newExtent none p) (Dense.newSizeParts [] ps)
        (fun x => npPart x p) (fun es => npParts es ps) (fun x es np nps => (x :: es, np :: nps))
      calc (do let s' ← Dense.newSizeParts [] (p :: ps); let qs ← npParts s' (p :: ps); pure (s', qs) :
              Except Reject (List Nat × List NPart))
          = (do let x ← Dense.newExtent none p; let es ← Dense.newSizeParts [] ps
                let np ← npPart x p; let nps ← npParts es ps; pure (x :: es, np :: nps)) := by
            simp only [Dense.newSizeParts, npParts, bind, Except.bind, pure, Except.pure]
            rcases Dense.newExtent none p with ⟨⟨⟩⟩ | x
            · rfl
            · rcases Dense.newSizeParts [] ps with ⟨⟨⟩⟩ | es
              · rfl
              · simp only [npParts, bind, Except.bind, pure, Except.pure]
                rcases npPart x p with ⟨⟨⟩⟩ | np
                · rfl
                · rcases npParts es ps with ⟨⟨⟩⟩ | nps <;> rfl
        _ = _ := by
            rw [swap, h1, h2]
            simp only [MArr.regionParts, Bool.not_true, Bool.false_eq_true, ↓reduceIte, bind, Except.bind, pure,
              Except.pure, Except.map]
            rcases MArr.regionPart 0 true true p with ⟨⟨⟩⟩ | r
            · rfl
            · rcases MArr.regionParts true [] ps with ⟨⟨⟩⟩ | rs <;> rfl
    | cons e es =>
      have h1 := part_general (some e) p
      have h2 := ih es
      simp only [Option.getD_some, Option.isNone_some] at h1
      have swap := except_bind_swap (Dense.newExtent (some e) p) (Dense.newSizeParts es ps)
        (fun x => npPart x p) (fun es' => npParts es' ps) (fun x es' np nps => (x :: es', np :: nps))
      calc (do let s' ← Dense.newSizeParts (e :: es) (p :: ps); let qs ← npParts s' (p :: ps); pure (s', qs) :
              Except Reject (List Nat × List NPart))
          = (do let x ← Dense.newExtent (some e) p; let es' ← Dense.newSizeParts es ps
                let np ← npPart x p; let nps ← npParts es' ps; pure (x :: es', np :: nps)) := by
            simp only [Dense.newSizeParts, npParts, bind, Except.bind, pure, Except.pure]
            rcases Dense.newExtent (some e) p with ⟨⟨⟩⟩ | x
            · rfl
            · rcases Dense.newSizeParts es ps with ⟨⟨⟩⟩ | es'
              · rfl
              · simp only [npParts, bind, Except.bind, pure, Except.pure]
                rcases npPart x p with ⟨⟨⟩⟩ | np
                · rfl
                · rcases npParts es' ps with ⟨⟨⟩⟩ | nps <;> rfl
        _ = _ := by
            rw [swap, h1, h2]
            simp only [MArr.regionParts, bind, Except.bind, pure, Except.pure, Except.map]
            rcases MArr.regionPart e false true p with ⟨⟨⟩⟩ | r
            · rfl
            · rcases MArr.regionParts true es ps with ⟨⟨⟩⟩ | rs <;> rfl



/-! ### the resolved key against the specification's modes -/

/-- key element `p` resolves to the specification's mode `r` (at some extent) -/
def PartRes (grow : Bool) (p : RPart) (r : Nat × List Nat × Bool) : Prop :=
  ∃ ext isNew, MArr.regionPart ext isNew grow p = .ok r

theorem regionParts_forall2 {grow : Bool} {s : List Nat} {parts : List RPart} {rs : List (Nat × List Nat × Bool)}
    (h : MArr.regionParts grow s parts = .ok rs) : List.Forall₂ (PartRes grow) parts rs := by
  induction parts generalizing s rs with
  | nil =>
    cases s with
    | nil => simp [MArr.regionParts] at h; subst h; exact .nil
    | cons e es => simp [MArr.regionParts] at h
  | cons p ps ih =>
    cases s with
    | nil =>
      simp only [MArr.regionParts] at h
      cases grow with
      | false => simp [bind, Except.bind] at h
      | true =>
        simp only [Bool.not_true, Bool.false_eq_true, ↓reduceIte, bind, Except.bind, pure, Except.pure] at h
        cases h1 : MArr.regionPart 0 true true p with
        | error e => rw [h1] at h; cases h
        | ok r =>
          rw [h1] at h
          cases h2 : MArr.regionParts true [] ps with
          | error e => rw [h2] at h; cases h
          | ok rs' =>
            rw [h2] at h
            cases h
            exact .cons ⟨0, true, h1⟩ (ih h2)
    | cons e es =>
      simp only [MArr.regionParts, bind, Except.bind, pure, Except.pure] at h
      cases h1 : MArr.regionPart e false grow p with
      | error e' => rw [h1] at h; cases h
      | ok r =>
        rw [h1] at h
        cases h2 : MArr.regionParts grow es ps with
        | error e' => rw [h2] at h; cases h
        | ok rs' =>
          rw [h2] at h
          cases h
          exact .cons ⟨e, false, h1⟩ (ih h2)

theorem partRes_idx {grow : Bool} {p : RPart} {r : Nat × List Nat × Bool} (h : PartRes grow p r) :
    (toNPartP p r).idx = r.2.1 ∧
      (∀ qs, keptN (toNPartP p r :: qs) = if r.2.2 then r.2.1.length :: keptN qs else keptN qs) := by
  obtain ⟨ext, isNew, h⟩ := h
  cases p with
  | int i =>
    have hk : r.2.2 = false := by
      simp only [MArr.regionPart] at h
      split at h
      · split at h
        · cases h; rfl
        · cases h
      · split at h
        · cases h; rfl
        · cases h
    have hd := regionPart_dropped h hk
    refine ⟨?_, ?_⟩
    · simp only [toNPartP, toNPart, hk, Bool.false_eq_true, ↓reduceIte, NPart.idx]; exact hd.symm
    · intro qs; simp only [toNPartP, toNPart, hk, Bool.false_eq_true, ↓reduceIte, keptN]
  | list is =>
    have hk : r.2.2 = true := by
      simp only [MArr.regionPart] at h
      split at h
      · cases h
      · split at h
        · cases h; rfl
        · cases h
    refine ⟨?_, ?_⟩
    · simp only [toNPartP, NPart.idx]
    · intro qs; simp only [toNPartP, hk, ↓reduceIte, keptN]
  | slice a b c =>
    have hk : r.2.2 = true := by
      simp only [MArr.regionPart, bind, Except.bind] at h
      split at h
      · cases h
      · split at h
        · cases h
        · cases h; rfl
    refine ⟨?_, ?_⟩
    · simp only [toNPartP, toNPart, hk, ↓reduceIte, NPart.idx]
    · intro qs; simp only [toNPartP, toNPart, hk, ↓reduceIte, keptN]

theorem zipP_idx_kept {grow : Bool} {parts : List RPart} {rs : List (Nat × List Nat × Bool)}
    (h : List.Forall₂ (PartRes grow) parts rs) :
    (List.zipWith toNPartP parts rs).map NPart.idx = rs.map (·.2.1) ∧
      keptN (List.zipWith toNPartP parts rs) = MArr.keptShape rs := by
  induction h with
  | nil => exact ⟨rfl, rfl⟩
  | @cons p r ps rs' hpr _ ih =>
    obtain ⟨h1, h2⟩ := partRes_idx hpr
    refine ⟨?_, ?_⟩
    · simp only [List.zipWith_cons_cons, List.map_cons, h1, ih.1]
    · simp only [List.zipWith_cons_cons]
      rw [h2, ih.2]
      unfold MArr.keptShape
      cases hk : r.2.2 <;> simp [hk]

theorem numel_keptN (ps : List NPart) : numel (keptN ps) = numel (ps.map (List.length ∘ NPart.idx)) := by
  induction ps with
  | nil => rfl
  | cons p ps ih =>
    cases p <;> simp [keptN, NPart.idx, numel, ih] <;> simp [numel] at ih <;> simp [ih]

/-- the key has one index list, in a position where NumPy's result is the rectangular
region (decided on the resolved key) -/
def listKeyOk (grow : Bool) (s : List Nat) (parts : List RPart) : Bool :=
  match MArr.regionParts grow s parts with
  | .ok rs => listPatternN (List.zipWith toNPartP parts rs)
  | .error _ => true

/-- `_set_subtensor` with one index list in a rectangular position computes the
specification's new shape and assignments. -/
theorem Dense.setSubtensor_list_eq [Zero α] (T : Dense α) (parts : List RPart) (rhs : Rhs α)
    (hne : parts ≠ []) (hl : listKeyOk true T.shape parts = true) (hfit : rhsFits T.shape parts rhs = true) :
    T.setSubtensor parts rhs =
      (MArr.resolveWrite T.shape (.region parts) rhs).map fun r => (T.resize r.1).scatter r.2 := by
  have hreg := region_general T.shape parts
  have hemp : parts.isEmpty = false := by cases parts <;> simp_all
  simp only [Dense.setSubtensor, MArr.resolveWrite, hemp, Bool.false_eq_true, ↓reduceIte]
  cases hr : MArr.regionParts true T.shape parts with
  | error e =>
    rw [hr] at hreg
    simp only [Except.map, bind, Except.bind, pure, Except.pure] at hreg ⊢
    rcases hn : Dense.newSizeParts T.shape parts with ⟨⟨⟩⟩ | s'
    · rfl
    · rw [hn] at hreg
      simp only [Dense.resize_shape] at hreg ⊢
      rcases hq : npParts s' parts with ⟨⟨⟩⟩ | ps
      · rfl
      · rw [hq] at hreg; cases hreg
  | ok rs =>
    rw [hr] at hreg
    simp only [Except.map, bind, Except.bind, pure, Except.pure] at hreg ⊢
    have hfit' : rhs.fitsRegion (MArr.keptShape rs) = true := by
      unfold rhsFits at hfit; rw [hr] at hfit; exact hfit
    have hpat : listPatternN (List.zipWith toNPartP parts rs) = true := by
      unfold listKeyOk at hl; rw [hr] at hl; exact hl
    obtain ⟨hidx, hkept⟩ := zipP_idx_kept (regionParts_forall2 hr)
    rcases hn : Dense.newSizeParts T.shape parts with ⟨⟨⟩⟩ | s'
    · rw [hn] at hreg; cases hreg
    · rw [hn] at hreg
      simp only [Dense.resize_shape] at hreg ⊢
      rcases hq : npParts s' parts with ⟨⟨⟩⟩ | ps
      · rw [hq] at hreg; cases hreg
      · rw [hq] at hreg
        simp only [Except.ok.injEq, Prod.mk.injEq] at hreg
        obtain ⟨rfl, rfl⟩ := hreg
        simp only [npIndex_list _ hpat, hidx, hkept]
        rw [npBroadcast_fits rhs (MArr.keptShape rs) (outerF (rs.map (·.2.1))).length
          (by rw [outerF_length, ← hidx, List.map_map, ← hkept]; exact (numel_keptN _).symm) hfit']
        cases MArr.regionValues rhs (MArr.keptShape rs) (outerF (rs.map (·.2.1))).length <;> rfl


/-! ### reads -/

def RPart.listNonempty : RPart → Bool
  | .list is => !is.isEmpty
  | _ => true

theorem foldl_max_lt (l : List Nat) (a e : Nat) (ha : a < e) (h : ∀ x ∈ l, x < e) : l.foldl max a < e := by
  induction l generalizing a with
  | nil => exact ha
  | cons x l ih =>
    simp only [List.foldl_cons]
    exact ih _ (by have := h x (by simp); omega) (fun y hy => h y (by simp [hy]))

theorem npPart_general (e : Nat) (p : RPart) (hp : p.listNonempty = true) :
    npPart e p = (MArr.regionPart e false false p).map (toNPartP p) := by
  cases p with
  | int i => exact npPart_simple e (.int i) rfl
  | slice a b c => exact npPart_simple e (.slice a b c) rfl
  | list is =>
    have hne : is.isEmpty = false := by simpa [RPart.listNonempty] using hp
    simp only [npPart, MArr.regionPart, hne, Bool.false_eq_true, if_false, or_false, Except.map]
    by_cases hall : ∀ x ∈ is, x < e
    · have hm : maxNat is < e := by
        cases is with
        | nil => simp at hne
        | cons x xs => exact foldl_max_lt _ 0 e (by have := hall x (by simp); omega) hall
      have hb : is.all (fun x => decide (x < e)) = true := by simpa using hall
      simp [hb, hm, toNPartP]
    · have hm : ¬ maxNat is < e := by
        intro hm; apply hall; intro x hx; have := le_maxNat hx; omega
      have hb : is.all (fun x => decide (x < e)) = false := by
        rw [← Bool.not_eq_true]; simpa using hall
      simp [hb, hm]

theorem npParts_general (s : List Nat) (parts : List RPart) (hp : parts.all RPart.listNonempty = true)
    (hl : parts.length = s.length) :
    npParts s parts = (MArr.regionParts false s parts).map (fun rs => List.zipWith toNPartP parts rs) := by
  induction parts generalizing s with
  | nil =>
    cases s with
    | nil => rfl
    | cons e es => simp at hl
  | cons p ps ih =>
    simp only [List.all_cons, Bool.and_eq_true] at hp
    cases s with
    | nil => simp at hl
    | cons e es =>
      simp only [npParts, MArr.regionParts, npPart_general e p hp.1, ih es hp.2 (by simpa using hl), bind,
        Except.bind, pure, Except.pure, Except.map]
      rcases MArr.regionPart e false false p with ⟨⟨⟩⟩ | r
      · rfl
      · rcases MArr.regionParts false es ps with ⟨⟨⟩⟩ | rs <;> rfl

theorem keptN_ne_nil_of_keeps (ps : List NPart) (h : ps.any NPart.keeps = true) : keptN ps ≠ [] := by
  induction ps with
  | nil => simp at h
  | cons p ps ih =>
    cases p with
    | int i => simp only [List.any_cons, NPart.keeps, Bool.false_or] at h; simpa [keptN] using ih h
    | slice l => simp [keptN]
    | list l => simp [keptN]

/-- a read key with one index list in a rectangular position whose result is a tensor for
the class (a slice, or a list of two or more entries, is present); no empty list -/
def listReadOk (s : List Nat) (parts : List RPart) : Bool :=
  parts.all RPart.listNonempty &&
    match MArr.regionParts false s parts with
    | .ok rs =>
      listPatternN (List.zipWith toNPartP parts rs) && (List.zipWith toNPartP parts rs).any NPart.keeps
    | .error _ => true

/-- Reading a region whose key has one index list in a rectangular position. -/
theorem Dense.getItem_region_list [Zero α] {T : Dense α} {m : MArr α} (h : DRel T m) (parts : List RPart)
    (hne : parts ≠ []) (hl : listReadOk T.shape parts = true) :
    T.getItem (.region parts) = m.read (.region parts) := by
  have hemp : parts.isEmpty = false := by cases parts <;> simp_all
  unfold listReadOk at hl
  rw [Bool.and_eq_true] at hl
  obtain ⟨hp, hl2⟩ := hl
  simp only [Dense.getItem, MArr.read, hemp, Bool.false_eq_true, ↓reduceIte, ← h.shape]
  by_cases hlen : parts.length = T.shape.length
  · simp only [hlen, ne_eq, not_true_eq_false, ↓reduceIte, npParts_general T.shape parts hp hlen]
    cases hr : MArr.regionParts false T.shape parts with
    | error e => rfl
    | ok rs =>
      rw [hr] at hl2
      simp only [Bool.and_eq_true] at hl2
      obtain ⟨hpat, hkeeps⟩ := hl2
      obtain ⟨hidx, hkept⟩ := zipP_idx_kept (regionParts_forall2 hr)
      have hnn := keptN_ne_nil_of_keeps _ hkeeps
      simp only [Except.map, bind, Except.bind, npIndex_list _ hpat, hkeeps, hidx, if_true]
      rw [hkept] at hnn ⊢
      have hin : ∀ x ∈ outerF (rs.map (·.2.1)), InBounds T.shape x := by
        have := outerF_inBounds rs (regionParts_lt hr)
        rw [regionParts_read_shape hr] at this
        exact this
      rw [h.map_get _ hin]
      cases hks : MArr.keptShape rs with
      | nil => exact absurd hks hnn
      | cons k ks => rfl
  · have hne' : ¬ parts.length = T.shape.length := hlen
    simp only [ne_eq, hne', not_false_eq_true, ↓reduceIte]
    cases hr : MArr.regionParts false T.shape parts with
    | error e => rfl
    | ok rs =>
      have h1 := regionParts_length hr
      have h2 := congrArg List.length (regionParts_read_shape hr)
      simp only [List.length_map] at h2
      omega

end Pyttb
