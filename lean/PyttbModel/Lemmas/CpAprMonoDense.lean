/-
Lemmas for C11 (CP-APR), part 11: dense data — the likelihood of the tensor is the sum of the
row objectives of mode `n` (mode-`n` unfolding against the Khatri-Rao product of the others).
Reuses the unfolding / Khatri-Rao entry lemmas of C01 and C14.
-/
import PyttbModel.Lemmas.CpAprMono
import PyttbModel.Lemmas.ConvertKruskal
import PyttbModel.Lemmas.NvecsGramSparse
set_option linter.unusedSectionVars false
set_option linter.unusedVariables false
namespace Pyttb.CpApr
open Pyttb.CpApr.Gen

variable {α : Type} [Field α] [LinearOrder α] [IsStrictOrderedRing α]

theorem sum_swap_list {β : Type} (L : List β) (R : Nat) (f : β → Nat → α) :
    (L.map fun x => sumOver R fun r => f x r).sum = sumOver R fun r => (L.map fun x => f x r).sum :=
  sum_swap L R f

/-- A sum over all subscripts with the coordinate of mode `n` taken out. -/
theorem sum_allSubs_insAt : ∀ (s : List Nat) (n : Nat) (f : List Nat → α), n < s.length →
    ((allSubs s).map f).sum =
      sumOver (s.getD n 0) fun a => ((allSubs (s.eraseIdx n)).map fun t => f (insAt t n a)).sum := by
  intro s
  induction s with
  | nil => intro n f hn; simp at hn
  | cons e s ih =>
    intro n f hn
    rw [allSubs_cons, sum_map_flatMap]
    have e1 : ∀ t : List Nat, (((List.range e).map fun i => i :: t).map f).sum =
        sumOver e fun x => f (x :: t) := by
      intro t; rw [List.map_map]; rfl
    simp only [e1]
    rw [sum_swap_list]
    cases n with
    | zero =>
      simp only [List.getD_cons_zero, List.eraseIdx_cons_zero]
      apply sumOver_congr
      intro a _
      apply congrArg
      apply List.map_congr_left
      intro t _
      rw [insAt_zero]
    | succ n =>
      have hn' : n < s.length := by simpa using hn
      simp only [List.getD_cons_succ, List.eraseIdx_cons_succ]
      have e2 : ∀ x < e, ((allSubs s).map fun t => f (x :: t)).sum =
          sumOver (s.getD n 0) fun a =>
            ((allSubs (s.eraseIdx n)).map fun t => f (x :: insAt t n a)).sum := by
        intro x _
        exact ih n (fun t => f (x :: t)) hn'
      rw [sumOver_congr e2]
      -- exchange the sums over x and a
      have e3 : (sumOver e fun x => sumOver (s.getD n 0) fun a =>
            ((allSubs (s.eraseIdx n)).map fun t => f (x :: insAt t n a)).sum) =
          sumOver (s.getD n 0) fun a => sumOver e fun x =>
            ((allSubs (s.eraseIdx n)).map fun t => f (x :: insAt t n a)).sum := by
        rw [sumOver_eq_finset, sumOver_eq_finset]
        simp only [sumOver_eq_finset]
        exact Finset.sum_comm
      rw [e3]
      apply sumOver_congr
      intro a _
      rw [allSubs_cons, sum_map_flatMap]
      have e4 : ∀ t : List Nat, (((List.range e).map fun i => i :: t).map fun u => f (insAt u (n + 1) a)).sum =
          sumOver e fun x => f (x :: insAt t n a) := by
        intro t
        rw [List.map_map]
        unfold sumOver
        apply congrArg
        apply List.map_congr_left
        intro x _
        simp only [Function.comp, insAt_cons_succ]
      simp only [e4]
      rw [sum_swap_list]

theorem eraseIdx_map_length (fs : List (Mat α)) (n : Nat) :
    (fs.eraseIdx n).map List.length = (fs.map List.length).eraseIdx n := by
  induction fs generalizing n with
  | nil => simp
  | cons A fs ih =>
    cases n with
    | zero => simp
    | succ n => simp [ih]

/-- Dense data, `Σ x log m` term: the cells grouped by rows of the mode-`n` unfolding, the model
value written as `row of factor n · row of the Khatri-Rao product`. -/
theorem dense_log_rows (log : α → α) (T : Dense α) (hT : T.data.length = numel T.shape) (K : Ktensor α)
    (n : Nat) {R : Nat} (hs : ShapeK T.shape R K) (hn : n < K.factors.length)
    (hN2 : 2 ≤ K.factors.length) (hw : ∀ r < K.weights.length, vget K.weights r = 1)
    (Pi : Mat α) (hPi : khatrirao (K.factors.eraseIdx n) true = .ok Pi) :
    ((List.range (numel T.shape)).map fun k => vget T.data k * log (K.get (ind2sub T.shape k))).sum =
      sumOver (T.shape.getD n 0) fun a => sumOver (numel (T.shape.eraseIdx n)) fun j =>
        (⟨[numel (gather T.shape [n]), numel (gather T.shape (complDims T.shape.length [n]))],
            (T.transpose (n :: complDims T.shape.length [n])).data⟩ : Dense α).get [a, j] *
          log (rowV Pi ((factor K n).getD a []) R j) := by
  have hN := nfactors_of_shape hs
  have hnS : n < T.shape.length := hN ▸ hn
  -- A: as a sum over the cells
  have hA : ((List.range (numel T.shape)).map fun k =>
        vget T.data k * log (K.get (ind2sub T.shape k))).sum =
      ((allSubs T.shape).map fun c => T.get c * log (K.get c)).sum := by
    unfold allSubs
    rw [List.map_map]
    apply congrArg
    apply List.map_congr_left
    intro k hk
    simp only [Function.comp]
    congr 1
    unfold Dense.get vget
    rw [sub2ind_ind2sub (List.mem_range.mp hk)]
  rw [hA, sum_allSubs_insAt T.shape n _ hnS]
  apply sumOver_congr
  intro a ha
  unfold allSubs
  rw [List.map_map]
  unfold sumOver
  apply congrArg
  apply List.map_congr_left
  intro j hj
  have hj' : j < numel (T.shape.eraseIdx n) := List.mem_range.mp hj
  simp only [Function.comp]
  have hib : InBounds (T.shape.eraseIdx n) (ind2sub (T.shape.eraseIdx n) j) := ind2sub_inBounds hj'
  congr 1
  · exact (unfold_entry T n a j hnS ha hj').symm
  · congr 1
    -- the model entry
    have hMs : (K.factors.eraseIdx n).map List.length = T.shape.eraseIdx n := by
      rw [eraseIdx_map_length, hs.2.1]
    have hne : K.factors.eraseIdx n ≠ [] := by
      intro h
      have := congrArg List.length h
      rw [List.length_eraseIdx] at this
      simp [hn] at this
      omega
    have hRows : ∀ M ∈ K.factors.eraseIdx n, ∀ row ∈ M, row.length = R :=
      fun M hM => hs.2.2 M (List.mem_of_mem_eraseIdx hM)
    obtain ⟨Pi', hPi', _, hent⟩ := khatrirao_rev_spec (K.factors.eraseIdx n) R
      (ind2sub (T.shape.eraseIdx n) j) hne hRows (by rw [hMs]; exact hib)
    have hPP : Pi' = Pi := by
      have : (Except.ok Pi' : Except Reject (Mat α)) = .ok Pi := by rw [← hPi', ← hPi]
      exact Except.ok.inj this
    subst hPP
    rw [hMs, sub2ind_ind2sub hj'] at hent
    have htl : (ind2sub (T.shape.eraseIdx n) j).length = K.factors.length - 1 := by
      rw [hib.length_eq, List.length_eraseIdx, hN]; simp [hnS]
    unfold Ktensor.get Ktensor.ncomp Ktensor.comp rowV sumOver
    rw [hs.1]
    apply congrArg
    apply List.map_congr_left
    intro r hr
    have hr' : r < R := List.mem_range.mp hr
    have h1 := hw r (hs.1 ▸ hr')
    unfold vget at h1
    rw [h1, one_mul, prod_zipWith_insAt (fun (A : Mat α) ik => A.get ik r) K.factors _ n a [] hn htl,
      hent r hr']
    rfl

theorem zeros_inBounds' (s : List Nat) (hpos : ∀ e ∈ s, 0 < e) : InBounds s (s.map fun _ => 0) := by
  induction s with
  | nil => trivial
  | cons a s ih =>
    exact ⟨hpos a (List.mem_cons_self ..), ih (fun e he => hpos e (List.mem_cons_of_mem _ he))⟩

/-- Dense data: with unit weights and unit column sums in the other modes, the negative
log-likelihood of the tensor is the sum over the rows of mode `n` of the row objectives. -/
theorem negLL_rows_dense (log : α → α) (T : Dense α) (K : Ktensor α) (n : Nat) {R : Nat}
    (hs : ShapeK T.shape R K) (hn : n < K.factors.length) (hX : DataWF (.dense T))
    (hpos : ∀ e ∈ T.shape, 0 < e)
    (hw : ∀ r < K.weights.length, vget K.weights r = 1) (hc : ColsOneBut K n)
    (md : ModeData α) (hmd : modeData (.dense T) K n = .ok md) :
    negLL log (.dense T) K = sumOver (factor K n).length (rowObj log md K n R (factor K n)) := by
  have hN := nfactors_of_shape hs
  have hnS : n < T.shape.length := hN ▸ hn
  unfold modeData at hmd
  simp only at hmd
  split at hmd
  · next Pi XnT hPi hXn =>
    cases hmd
    have hN2 : 2 ≤ K.factors.length := by
      by_contra hlt
      have h0 : K.factors.eraseIdx n = [] := by
        apply List.eq_nil_of_length_eq_zero
        rw [List.length_eraseIdx]; simp [hn]; omega
      rw [h0] at hPi
      simp [khatrirao] at hPi
    rw [toTenmat_rowmode T hX n hnS] at hXn
    cases hXn
    -- length of Pi
    have hMs : (K.factors.eraseIdx n).map List.length = T.shape.eraseIdx n := by
      rw [eraseIdx_map_length, hs.2.1]
    have hne : K.factors.eraseIdx n ≠ [] := by
      intro h
      have := congrArg List.length h
      rw [List.length_eraseIdx] at this
      simp [hn] at this
      omega
    have hPilen : Pi.length = numel (T.shape.eraseIdx n) := by
      obtain ⟨Pi', hPi', hl, _⟩ := khatrirao_rev_spec (K.factors.eraseIdx n) R
        ((T.shape.eraseIdx n).map fun _ => 0) hne
        (fun M hM => hs.2.2 M (List.mem_of_mem_eraseIdx hM))
        (by rw [hMs]; exact zeros_inBounds' _ (fun e he => hpos e (List.mem_of_mem_eraseIdx he)))
      have : (Except.ok Pi' : Except Reject (Mat α)) = .ok Pi := by rw [← hPi', ← hPi]
      rw [← Except.ok.inj this, hl, hMs]
    unfold negLL
    simp only
    rw [sum_cells_eq_factor K n hs hn hw hc, dense_log_rows log T hX K n hs hn hN2 hw Pi hPi,
      ← factor_length_of_shape hs n, ← sumOver_sub]
    apply sumOver_congr
    intro i _
    unfold rowObj mdSparse rowData
    simp only
    rw [rowNegLL_eq, ← sumOver_eq_finset, ← sumOver_eq_finset, hPilen]
    congr 1
    apply sumOver_congr
    intro j hj
    rw [vget_map_range (hPilen ▸ hj)]
  · cases hmd

/-- Both kinds of data. -/
theorem negLL_rows (log : α → α) (X : Data α) (K : Ktensor α) (n : Nat) {R : Nat}
    (hs : ShapeK X.shape R K) (hn : n < K.factors.length) (hX : DataWF X)
    (hpos : ∀ e ∈ X.shape, 0 < e)
    (hw : ∀ r < K.weights.length, vget K.weights r = 1) (hc : ColsOneBut K n)
    (md : ModeData α) (hmd : modeData X K n = .ok md) :
    negLL log X K = sumOver (factor K n).length (rowObj log md K n R (factor K n)) := by
  cases X with
  | dense T => exact negLL_rows_dense log T K n hs hn hX hpos hw hc md hmd
  | sparse S =>
    have : md = .sparse S := by
      unfold modeData at hmd
      cases hmd; rfl
    subst this
    exact negLL_rows_sparse log S K n hs hn hX hw hc

theorem modeData_setFactor (X : Data α) (K : Ktensor α) (n : Nat) (A : Mat α) :
    modeData X (setFactor K n A) n = modeData X K n := by
  unfold modeData setFactor
  cases X with
  | sparse S => rfl
  | dense T => simp only [List.eraseIdx_set_eq]

theorem rowObj_setFactor (log : α → α) (md : ModeData α) (K : Ktensor α) (n R : Nat) (A A' : Mat α) (i : Nat) :
    rowObj log md (setFactor K n A) n R A' i = rowObj log md K n R A' i := by
  unfold rowObj rowData
  cases md with
  | dense Xn Pi => rfl
  | sparse S => simp only [piRows_setFactor]

theorem colsOneBut_setFactor {K : Ktensor α} {n : Nat} (hc : ColsOneBut K n) (A : Mat α) :
    ColsOneBut (setFactor K n A) n := by
  intro m hm hne r hr
  rw [setFactor_factor_ne K (Ne.symm hne)]
  exact hc m (by simpa [setFactor] using hm) hne r hr

/-- THE DECOMPOSITION used by the monotonicity proofs: with unit weights and unit column sums in
the other modes, the likelihood of the tensor with factor `n` replaced by `A` is the sum of the
row objectives of `A` — the rows of a mode are independent given Pi. -/
theorem negLL_setFactor_rows (log : α → α) (X : Data α) (K : Ktensor α) (n : Nat) {R : Nat}
    (hs : ShapeK X.shape R K) (hn : n < K.factors.length) (hX : DataWF X)
    (hpos : ∀ e ∈ X.shape, 0 < e)
    (hw : ∀ r < K.weights.length, vget K.weights r = 1) (hc : ColsOneBut K n)
    (md : ModeData α) (hmd : modeData X K n = .ok md) (A : Mat α)
    (hA : IsMat (factor K n).length R A) :
    negLL log X (setFactor K n A) = sumOver (factor K n).length (rowObj log md K n R A) := by
  have hs' : ShapeK X.shape R (setFactor K n A) := by
    unfold setFactor
    exact shapeK_set hs hs.1 hA.1 hA.2
  have hn' : n < (setFactor K n A).factors.length := by simpa [setFactor] using hn
  rw [negLL_rows log X (setFactor K n A) n hs' hn' hX hpos hw (colsOneBut_setFactor hc A) md
    (by rw [modeData_setFactor]; exact hmd), setFactor_factor_self K hn, hA.1]
  apply sumOver_congr
  intro i _
  exact rowObj_setFactor log md K n R A A i

end Pyttb.CpApr
