/-
C10 — glue between the executable model (`Except`-valued folds with shape tests) and the
total mode-product algebra; loop-invariant scheme; the projection defect in one mode does not
grow when other modes are compressed; the sum bound used by the non-sequential HOSVD.
-/
import PyttbModel.Lemmas.TuckerRank
namespace Pyttb
namespace Tk
open Finset

/-! ### permutations of `0..d-1` -/

theorem isPermOf_perm' {p : List Nat} {n : Nat} (h : isPermOf p n = true) : p.Perm (List.range n) := by
  simp only [isPermOf, Bool.and_eq_true, beq_iff_eq, List.all_eq_true, List.mem_range,
    List.contains_iff_mem] at h
  obtain ⟨hl, hm⟩ := h
  have hsub : List.range n ⊆ p := fun m hm' => hm m (List.mem_range.1 hm')
  have hsp : List.Subperm (List.range n) p := List.nodup_range.subperm hsub
  exact (hsp.perm_of_length_le (by simp [hl])).symm

theorem isPermOf_nodup' {p : List Nat} {n : Nat} (h : isPermOf p n = true) : p.Nodup :=
  (isPermOf_perm' h).nodup_iff.2 List.nodup_range

theorem isPermOf_lt' {p : List Nat} {n : Nat} (h : isPermOf p n = true) {k : Nat} (hk : k ∈ p) : k < n := by
  simpa using (isPermOf_perm' h).mem_iff.1 hk

/-! ### loop invariants of an `Except`-valued fold -/

theorem foldlM_inv {σ : Type} (f : σ → Nat → Except Reject σ) (I : List Nat → σ → Prop) :
    ∀ (l done : List Nat) (st st' : σ), I done st →
      (∀ done' s k s', (∃ rest, done' ++ k :: rest = done ++ l) → I done' s → f s k = .ok s' → I (done' ++ [k]) s') →
      l.foldlM f st = .ok st' → I (done ++ l) st' := by
  intro l
  induction l with
  | nil =>
    intro done st st' h0 _ h
    simp only [List.foldlM_nil] at h
    cases h
    simpa using h0
  | cons k l ih =>
    intro done st st' h0 hstep h
    simp only [List.foldlM_cons] at h
    cases hf : f st k with
    | error e => rw [hf] at h; cases h
    | ok s1 =>
      rw [hf] at h
      have h1 : I (done ++ [k]) s1 := hstep done st k s1 ⟨l, rfl⟩ h0 hf
      have := ih (done ++ [k]) s1 st' h1
        (by
          intro done' s k' s' hex hI hfs
          apply hstep done' s k' s' _ hI hfs
          obtain ⟨rest, hr⟩ := hex
          exact ⟨rest, by rw [hr]; simp⟩)
        h
      simpa using this

/-! ### the model's products are the total ones when they succeed -/

theorem ttm_ok {T Y : Dense ℝ} {U : Mat ℝ} {n : Nat} {tr : Bool} (h : ttm T U n tr = .ok Y) :
    Y = ttmT T U n tr ∧ n < T.shape.length ∧ (if tr then U.nrows else U.ncols) = T.shape.getD n 0 := by
  unfold ttm at h
  by_cases hc : (decide (n < T.shape.length) && (if tr then U.nrows else U.ncols) == T.shape.getD n 0) = true
  · rw [if_pos hc] at h
    simp only [Bool.and_eq_true, decide_eq_true_eq, beq_iff_eq] at hc
    cases h
    exact ⟨rfl, hc.1, hc.2⟩
  · rw [if_neg hc] at h
    cases h

theorem ttm_eq_ok {T : Dense ℝ} {U : Mat ℝ} {n : Nat} {tr : Bool} (hn : n < T.shape.length)
    (hd : (if tr then U.nrows else U.ncols) = T.shape.getD n 0) : ttm T U n tr = .ok (ttmT T U n tr) := by
  unfold ttm
  rw [if_pos]
  simp [hn, hd]

theorem foldlM_ttm_ok (tr : Bool) :
    ∀ (l : List (Nat × Mat ℝ)) (T Y : Dense ℝ), l.foldlM (fun Y p => ttm Y p.2 p.1 tr) T = .ok Y →
      Y = ttmFold T l tr := by
  intro l
  induction l with
  | nil => intro T Y h; simp only [List.foldlM_nil] at h; cases h; rfl
  | cons p l ih =>
    intro T Y h
    obtain ⟨k, U⟩ := p
    simp only [List.foldlM_cons] at h
    cases hf : ttm T U k tr with
    | error e => rw [hf] at h; cases h
    | ok Y1 =>
      rw [hf] at h
      rw [(ttm_ok hf).1] at h
      simpa using ih _ _ h

/-- A successful list product is the fold over the (mode, matrix) pairs chosen by `tt_dimscheck`. -/
theorem ttmDims_ok {T Y : Dense ℝ} {Us : List (Mat ℝ)} {dims : List Nat} {tr : Bool}
    (h : ttmDims T Us dims tr = .ok Y) :
    Y = ttmFold T (ttmPairs Us dims) tr ∧ (Us.length = T.shape.length ∨ Us.length = dims.length) := by
  unfold ttmDims at h
  split at h
  · cases h
  · split at h
    · cases h
    · rename_i h2
      split at h
      · cases h
      · refine ⟨foldlM_ttm_ok tr _ T Y h, ?_⟩
        simp only [Bool.and_eq_true, bne_iff_ne, ne_eq, not_and, Decidable.not_not] at h2
        by_cases hl : Us.length = T.shape.length
        · exact Or.inl hl
        · exact Or.inr (h2 hl)

/-- The list of (mode, factor) pairs in increasing mode order. -/
def ascList (Us : List (Mat ℝ)) (d : Nat) : List (Nat × Mat ℝ) := (List.range d).map fun k => (k, Us.getD k [])

theorem zip_range_self (n : Nat) : (List.range n).zip (List.range n) = (List.range n).map fun k => (k, k) := by
  rw [List.zip_eq_zipWith]
  apply List.ext_getElem (by simp)
  intro i h1 h2
  simp

theorem ttmPairs_range (Us : List (Mat ℝ)) (d : Nat) : ttmPairs Us (List.range d) = ascList Us d := by
  unfold ttmPairs ascList
  split
  · rw [List.length_range, zip_range_self, List.map_map]
    rfl
  · rfl

theorem ttmPairs_by_mode (Us : List (Mat ℝ)) (dims : List Nat) (h : dims.length ≠ Us.length) :
    ttmPairs Us dims = dims.map fun k => (k, Us.getD k []) := by
  unfold ttmPairs
  rw [if_neg (by simpa using h)]

theorem ttmPairs_single (Us : List (Mat ℝ)) (n : Nat) (hn : n < Us.length) :
    ttmPairs Us [n] = [(n, Us.getD n [])] := by
  unfold ttmPairs
  split
  · rename_i h
    have h1 : Us.length = 1 := by
      have := h; simp only [List.length_cons, List.length_nil, beq_iff_eq] at this; omega
    have : n = 0 := by omega
    subst this
    rfl
  · rfl

theorem ttmAll_ok {T Y : Dense ℝ} {Us : List (Mat ℝ)} {tr : Bool} (h : ttmAll T Us tr = .ok Y) :
    Y = ttmFold T (ascList Us T.shape.length) tr := by
  have := (ttmDims_ok h).1
  rwa [ttmPairs_range] at this

theorem ascList_fst_nodup (Us : List (Mat ℝ)) (d : Nat) : ((ascList Us d).map Prod.fst).Nodup := by
  simp only [ascList, List.map_map, Function.comp_def, List.map_id']
  exact List.nodup_range

/-! ### transposed argument vs `transpose=True` -/

theorem transpose_get (U : Mat ℝ) {a c : Nat} (ha : a < U.nrows) (hc : c < U.ncols) :
    (Mat.transpose U).get c a = U.get a c := by
  simp only [Mat.transpose]
  conv_lhs => rw [Mat.get]
  rw [getD_map_range _ _ _ hc, getD_map_range _ _ _ ha]

theorem ttmT_transpose (T : Dense ℝ) (U : Mat ℝ) (k : Nat) (hrows : U.nrows = T.shape.getD k 0) :
    ttmT T (Mat.transpose U) k false = ttmT T U k true := by
  rw [ttmT_eq, ttmT_eq]
  have hd : outDim (Mat.transpose U) false = outDim U true := by
    simp [outDim, Mat.transpose, Mat.nrows]
  rw [hd]
  apply ofFn_congr
  intro j hj
  apply Finset.sum_congr rfl
  intro a ha
  by_cases hk : k < T.shape.length
  · have hc : j.getD k 0 < U.ncols := by
      have := inBounds_getD hj (by simpa using hk)
      rwa [getD_set_self hk] at this
    simp only [coef, Bool.false_eq_true, if_false, if_true]
    rw [transpose_get U (by rw [hrows]; exact Finset.mem_range.1 ha) hc]
  · have : T.shape.getD k 0 = 0 := by
      simp [List.getD_eq_getElem?_getD, List.getElem?_eq_none (by omega : T.shape.length ≤ k)]
    rw [this] at ha
    simp at ha

/-! ### orthonormal factors in distinct modes are admissible in any order -/

theorem adm_of_ortho (l : List (Nat × Mat ℝ)) (s : List Nat) (hn : (l.map Prod.fst).Nodup)
    (h : ∀ p ∈ l, p.1 < s.length ∧ OrthoCols p.2 (s.getD p.1 0) p.2.ncols) : Adm l s := by
  induction l generalizing s with
  | nil => trivial
  | cons p l ih =>
    obtain ⟨k, U⟩ := p
    simp only [List.map_cons, List.nodup_cons, List.mem_map, not_exists, not_and] at hn
    have hp := h (k, U) (by simp)
    refine ⟨hp.1, hp.2, ih _ hn.2 ?_⟩
    intro q hq
    have hq' := h q (by simp [hq])
    have hne : k ≠ q.1 := fun e => hn.1 q hq e.symm
    refine ⟨by simpa using hq'.1, ?_⟩
    rw [getD_set_ne hne]
    exact hq'.2

/-! ### differences and linearity -/

/-- Entry-wise difference (no shape test). -/
def dsubT (A B : Dense ℝ) : Dense ℝ := ⟨A.shape, List.zipWith (· - ·) A.data B.data⟩

theorem dsub_eq_dsubT {A B : Dense ℝ} (h : A.shape = B.shape) : dsub A B = .ok (dsubT A B) := by
  simp [dsub, dsubT, h]

theorem dsubT_spec {A B : Dense ℝ} (hA : A.WF) (hB : B.WF) (hs : A.shape = B.shape) :
    (dsubT A B).shape = A.shape ∧ (dsubT A B).WF ∧ ∀ j, InBounds A.shape j → (dsubT A B).get j = A.get j - B.get j :=
  dsub_get hA hB (dsub_eq_dsubT hs)

theorem ttmT_dsubT (A B : Dense ℝ) (hA : A.WF) (hB : B.WF) (hs : A.shape = B.shape) (U : Mat ℝ) (k : Nat) (tr : Bool) :
    ttmT (dsubT A B) U k tr = dsubT (ttmT A U k tr) (ttmT B U k tr) := by
  obtain ⟨h1, h2, h3⟩ := dsubT_spec hA hB hs
  have hs' : (ttmT A U k tr).shape = (ttmT B U k tr).shape := by simp [hs]
  obtain ⟨g1, g2, g3⟩ := dsubT_spec (ttmT_WF A U k tr) (ttmT_WF B U k tr) hs'
  apply Dense.ext_get (ttmT_WF _ _ _ _) g2 (by rw [g1]; simp [h1])
  intro j hj
  have hjA : InBounds (A.shape.set k (outDim U tr)) j := by simpa [h1] using hj
  rw [g3 j (by simpa using hjA), ttmT_get _ U k tr (by simpa [h1] using hjA), ttmT_get A U k tr hjA,
    ttmT_get B U k tr (by rw [← hs]; exact hjA), h1, ← hs, ← Finset.sum_sub_distrib]
  apply Finset.sum_congr rfl
  intro a ha
  by_cases hk : k < A.shape.length
  · have : InBounds A.shape (j.set k a) := by
      have := inBounds_set hjA (Finset.mem_range.1 ha)
      rwa [set_getD_self] at this
    rw [h3 _ this]; ring
  · have : A.shape.getD k 0 = 0 := by
      simp [List.getD_eq_getElem?_getD, List.getElem?_eq_none (by omega : A.shape.length ≤ k)]
    rw [this] at ha
    simp at ha

/-! ### the projection defect of one mode -/

/-- `‖W‖² − ‖W ×ₖ Uᵀ‖²`: what is lost when mode `k` is projected on the columns of `U`. -/
def defect (W : Dense ℝ) (U : Mat ℝ) (k : Nat) : ℝ := normSq W - normSq (ttmT W U k true)

/-- Projection of mode `k` on the span of the columns of `U`. -/
def projMode (W : Dense ℝ) (U : Mat ℝ) (k : Nat) : Dense ℝ := ttmT (ttmT W U k true) U k false

theorem projMode_shape (W : Dense ℝ) (U : Mat ℝ) (k p : Nat) (hU : OrthoCols U (W.shape.getD k 0) p) :
    (projMode W U k).shape = W.shape := by
  simp only [projMode, ttmT_shape, List.set_set, outDim, Bool.false_eq_true, if_false, hU.nrows]
  exact set_getD_self _ _

/-- The defect is the squared distance to the projection. -/
theorem defect_eq (W : Dense ℝ) (hW : W.WF) (U : Mat ℝ) (k p : Nat) (hk : k < W.shape.length)
    (hU : OrthoCols U (W.shape.getD k 0) p) : normSq (dsubT W (projMode W U k)) = defect W U k := by
  have hU' : OrthoCols U (W.shape.getD k 0) U.ncols := by rw [hU.ncols]; exact hU
  have hadm : Adm [(k, U)] W.shape := ⟨hk, hU', trivial⟩
  have := fit_identity [(k, U)] W hW hadm (dsubT W (projMode W U k))
    (by
      have : recon [(k, U)] (ttmFold W [(k, U)] true) = projMode W U k := rfl
      rw [this]
      exact dsub_eq_dsubT (projMode_shape W U k p hU).symm)
  simpa [defect] using this

theorem defect_nonneg (W : Dense ℝ) (hW : W.WF) (U : Mat ℝ) (k p : Nat) (hk : k < W.shape.length)
    (hU : OrthoCols U (W.shape.getD k 0) p) : 0 ≤ defect W U k := by
  simp only [defect]
  linarith [normSq_ttmT_le W hW U k p hk hU]

/-- Compressing another mode does not increase the defect of mode `k`. -/
theorem defect_mono (W : Dense ℝ) (hW : W.WF) (A U : Mat ℝ) (m k pA p : Nat) (hmk : m ≠ k)
    (hm : m < W.shape.length) (hk : k < W.shape.length)
    (hA : OrthoCols A (W.shape.getD m 0) pA) (hU : OrthoCols U (W.shape.getD k 0) p) :
    defect (ttmT W A m true) U k ≤ defect W U k := by
  have hW' : (ttmT W A m true).WF := ttmT_WF _ _ _ _
  have hk' : k < (ttmT W A m true).shape.length := by simpa using hk
  have hU' : OrthoCols U ((ttmT W A m true).shape.getD k 0) p := by
    rw [ttmT_shape, getD_set_ne hmk]; exact hU
  rw [← defect_eq W hW U k p hk hU, ← defect_eq _ hW' U k p hk' hU']
  have hPs : (projMode W U k).shape = W.shape := projMode_shape W U k p hU
  have hPw : (projMode W U k).WF := ttmT_WF _ _ _ _
  have comm : projMode (ttmT W A m true) U k = ttmT (projMode W U k) A m true := by
    simp only [projMode]
    rw [ttmT_comm W A U m k hmk true true, ttmT_comm (ttmT W U k true) A U m k hmk true false]
  rw [comm, ← ttmT_dsubT W (projMode W U k) hW hPw hPs.symm A m true]
  obtain ⟨e1, e2, _⟩ := dsubT_spec hW hPw hPs.symm
  exact normSq_ttmT_le _ e2 A m pA (by rw [e1]; exact hm) (by rw [e1]; exact hA)

/-- Telescoping bound: what is lost by projecting every mode of the list is at most the sum
of what each single projection loses. -/
theorem normSq_sub_core_le (l : List (Nat × Mat ℝ)) (X : Dense ℝ) (hX : X.WF)
    (hn : (l.map Prod.fst).Nodup)
    (h : ∀ q ∈ l, q.1 < X.shape.length ∧ OrthoCols q.2 (X.shape.getD q.1 0) q.2.ncols) :
    normSq X - normSq (ttmFold X l true) ≤ (l.map fun q => defect X q.2 q.1).sum := by
  induction l generalizing X with
  | nil => simp
  | cons q l ih =>
    obtain ⟨k, U⟩ := q
    simp only [List.map_cons, List.nodup_cons, List.mem_map, not_exists, not_and] at hn
    have hq := h (k, U) (by simp)
    rw [ttmFold_cons, List.map_cons, List.sum_cons]
    have hX1 : (ttmT X U k true).WF := ttmT_WF _ _ _ _
    have hl : ∀ q ∈ l, q.1 < (ttmT X U k true).shape.length ∧
        OrthoCols q.2 ((ttmT X U k true).shape.getD q.1 0) q.2.ncols := by
      intro q hq'
      have := h q (by simp [hq'])
      have hne : k ≠ q.1 := fun e => hn.1 q hq' e.symm
      refine ⟨by simpa using this.1, ?_⟩
      rw [ttmT_shape, getD_set_ne hne]; exact this.2
    have h1 := ih (ttmT X U k true) hX1 hn.2 hl
    have h2 : (l.map fun q => defect (ttmT X U k true) q.2 q.1).sum ≤ (l.map fun q => defect X q.2 q.1).sum := by
      apply List.sum_le_sum
      intro q hq'
      have hqq := h q (by simp [hq'])
      have hne : k ≠ q.1 := fun e => hn.1 q hq' e.symm
      exact defect_mono X hX U q.2 k q.1 _ _ hne hq.1 hqq.1 hq.2 hqq.2
    simp only [defect] at h1 h2 ⊢
    linarith

end Tk
end Pyttb
