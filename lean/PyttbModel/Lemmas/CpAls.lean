/-
Lemmas about the CP-ALS model (`Alg/CpAls.lean`): shapes, the loop, the generated scalar
formulas, the saved-MTTKRP inner product, the normal equations of a mode update.
-/
import PyttbModel.Alg.CpAls
import Mathlib.Algebra.Order.Field.Basic
import Mathlib.Algebra.Order.AbsoluteValue.Basic
import Mathlib.Algebra.BigOperators.Group.List.Basic
import Mathlib.Algebra.Order.BigOperators.Group.List
import Mathlib.Algebra.BigOperators.Ring.Finset
import Mathlib.Tactic.Ring
import Mathlib.Tactic.Linarith
import Mathlib.Tactic.FieldSimp
import Mathlib.Data.List.Perm.Subperm

set_option linter.unusedSectionVars false
set_option linter.unusedSimpArgs false
set_option linter.unnecessarySeqFocus false
namespace Pyttb.CpAls
open Pyttb

/-- The number-system services behave like the operations of a linear ordered field that has
square roots of its non-negative elements (ℝ with `Real.sqrt` is the intended instance). -/
structure NumOps.Lawful {α : Type} [Field α] [LinearOrder α] [IsStrictOrderedRing α] (o : NumOps α) : Prop where
  sqrt_nonneg : ∀ x, 0 ≤ x → 0 ≤ o.sqrt x
  sqrt_mul_self : ∀ x, 0 ≤ x → o.sqrt x * o.sqrt x = x
  abs_eq : ∀ x, o.abs x = |x|
  lt_iff : ∀ a b, o.lt a b = true ↔ a < b
  isZero_iff : ∀ a, o.isZero a = true ↔ a = 0
  ofNat_eq : ∀ n, o.ofNat n = (n : α)

theorem sumRange_eq {β : Type} [AddCommMonoid β] (n : Nat) (f : Nat → β) :
    sumRange n f = ∑ k ∈ Finset.range n, f k := by
  unfold sumRange
  induction n with
  | zero => simp
  | succ n ih => rw [List.range_succ, List.map_append, List.sum_append, ih, Finset.sum_range_succ]; simp

section
variable {α : Type}
theorem length_tab (I R : Nat) (f : Nat → Nat → α) : (tab I R f).length = I := by simp [tab]
theorem tab_getD (I R : Nat) (f : Nat → Nat → α) {i : Nat} (hi : i < I) :
    (tab I R f).getD i [] = (List.range R).map fun r => f i r := by
  simp [tab, List.getD_eq_getElem?_getD, hi]

theorem get_tab [Zero α] (I R : Nat) (f : Nat → Nat → α) {i r : Nat} (hi : i < I) (hr : r < R) :
    (tab I R f).get i r = f i r := by
  unfold Mat.get
  rw [tab_getD I R f hi]
  simp [List.getD_eq_getElem?_getD, hr]

theorem get_tab_ge [Zero α] (I R : Nat) (f : Nat → Nat → α) {i r : Nat} (hr : R ≤ r) :
    (tab I R f).get i r = 0 := by
  unfold Mat.get
  by_cases hi : i < I
  · rw [tab_getD I R f hi]; simp [List.getD_eq_getElem?_getD, List.getElem?_eq_none, hr]
  · simp [tab, List.getD_eq_getElem?_getD, List.getElem?_eq_none, Nat.le_of_not_lt hi]
end

section lists
variable {β : Type}
theorem getD_set_eq (l : List β) (n : Nat) (x d : β) (h : n < l.length) : (l.set n x).getD n d = x := by
  simp [List.getD_eq_getElem?_getD, h]
theorem getD_set_ne (l : List β) {n m : Nat} (x d : β) (h : n ≠ m) : (l.set n x).getD m d = l.getD m d := by
  simp [List.getD_eq_getElem?_getD, List.getElem?_set, h]
theorem getD_set_oob (l : List β) (n : Nat) (x d : β) (h : l.length ≤ n) : (l.set n x).getD n d = l.getD n d := by
  rw [List.getD_eq_getElem?_getD, List.getD_eq_getElem?_getD, List.getElem?_eq_none (by simpa using h),
    List.getElem?_eq_none h]
end lists


section shapes
variable {α : Type}

theorem tab_row_length (I R : Nat) (f : Nat → Nat → α) : ∀ row ∈ tab I R f, row.length = R := by
  intro row h
  simp only [tab, List.mem_map, List.mem_range] at h
  obtain ⟨i, _, rfl⟩ := h
  simp

/-- `A` is an `I × R` matrix. -/
def IsMat (I R : Nat) (A : Mat α) : Prop := A.length = I ∧ ∀ row ∈ A, row.length = R

theorem isMat_tab (I R : Nat) (f : Nat → Nat → α) : IsMat I R (tab I R f) :=
  ⟨length_tab I R f, tab_row_length I R f⟩

/-- The factor list `U` has one `shape[n] × R` matrix per mode. -/
def ShapeOK (shape : List Nat) (R : Nat) (U : List (Mat α)) : Prop :=
  U.length = shape.length ∧ ∀ n < shape.length, IsMat (shape.getD n 0) R (U.getD n [])

theorem ShapeOK.set {shape : List Nat} {R : Nat} {U : List (Mat α)} (h : ShapeOK shape R U)
    (n : Nat) (A : Mat α) (hA : IsMat (shape.getD n 0) R A) : ShapeOK shape R (U.set n A) := by
  refine ⟨by simp [h.1], fun m hm => ?_⟩
  by_cases hmn : n = m
  · subst hmn
    have : n < U.length := by rw [h.1]; exact hm
    simpa [List.getD_eq_getElem?_getD, List.getElem?_set, this] using hA
  · have := h.2 m hm
    simpa [List.getD_eq_getElem?_getD, List.getElem?_set, hmn] using this

variable [Add α] [Sub α] [Mul α] [Div α] [Neg α] [Zero α] [One α]

theorem isMat_scaleCols (o : NumOps α) (I R : Nat) (A : Mat α) (w : List α) : IsMat I R (scaleCols o I R A w) := by
  unfold scaleCols; split <;> exact isMat_tab _ _ _

theorem applyUpdate_U (o : NumOps α) (I rank it last n : Nat) (B A0 : Mat α) (st : State α) :
    (applyUpdate o I rank it last n B A0 st).U =
      st.U.set n (scaleCols o I rank A0 (colWeights o it I rank A0)) := rfl

theorem applyUpdate_weights (o : NumOps α) (I rank it last n : Nat) (B A0 : Mat α) (st : State α) :
    (applyUpdate o I rank it last n B A0 st).weights = colWeights o it I rank A0 := rfl

theorem length_colWeights (o : NumOps α) (it I rank : Nat) (A : Mat α) :
    (colWeights o it I rank A).length = rank := by simp [colWeights]

/-- A successful mode update is `applyUpdate` of some answer of the guarded solve. -/
theorem modeUpdate_ok {D : Data α} {S : Services α} {o : NumOps α} {rank it last n : Nat} {st st' : State α}
    (h : modeUpdate D S o rank it last n st = .ok st') :
    ∃ A0, solveStep S o (D.shape.getD n 0) rank n (coef st.UtU D.shape.length rank n) (D.mttkrp st.U n) = .ok A0 ∧
      st' = applyUpdate o (D.shape.getD n 0) rank it last n (D.mttkrp st.U n) A0 st := by
  unfold modeUpdate at h
  dsimp only at h
  cases hs : solveStep S o (D.shape.getD n 0) rank n (coef st.UtU D.shape.length rank n) (D.mttkrp st.U n) with
  | error e => rw [hs] at h; cases h
  | ok A0 =>
    rw [hs] at h
    refine ⟨A0, rfl, ?_⟩
    injection h with h
    exact h.symm

theorem modeUpdate_shape {D : Data α} {S : Services α} {o : NumOps α} {rank it last n : Nat} {st st' : State α}
    (h : modeUpdate D S o rank it last n st = .ok st') (hU : ShapeOK D.shape rank st.U) :
    ShapeOK D.shape rank st'.U ∧ st'.weights.length = rank := by
  obtain ⟨A0, _, rfl⟩ := modeUpdate_ok h
  exact ⟨hU.set n _ (isMat_scaleCols _ _ _ _ _), length_colWeights _ _ _ _ _⟩

theorem foldlM_shape {D : Data α} {S : Services α} {o : NumOps α} {rank it last : Nat} (dims : List Nat)
    {st st' : State α}
    (h : dims.foldlM (fun s n => modeUpdate D S o rank it last n s) st = .ok st')
    (hU : ShapeOK D.shape rank st.U) :
    ShapeOK D.shape rank st'.U ∧ (dims ≠ [] → st'.weights.length = rank) := by
  induction dims generalizing st with
  | nil => simp [List.foldlM] at h; cases h; exact ⟨hU, fun h => absurd rfl h⟩
  | cons n rest ih =>
    rw [List.foldlM_cons] at h
    cases hm : modeUpdate D S o rank it last n st with
    | error e => rw [hm] at h; cases h
    | ok st1 =>
      rw [hm] at h
      have h1 := modeUpdate_shape hm hU
      have h2 := ih h h1.1
      refine ⟨h2.1, fun _ => ?_⟩
      by_cases hr : rest = []
      · subst hr; simp [List.foldlM] at h; cases h; exact h1.2
      · exact h2.2 hr

end shapes

section loop
variable {α : Type}

theorem loopFrom_spec (step : Nat → State α → Except Reject (State α))
    (Inv : State α → Prop)
    (hstep : ∀ k s s', Inv s → step k s = .ok s' → Inv s' ∧ s'.iteration = k) :
    ∀ (fuel k : Nat) (st st' : State α), 0 < fuel → Inv st → loopFrom step fuel k st = .ok st' →
      Inv st' ∧ k ≤ st'.iteration ∧ st'.iteration < k + fuel ∧
        (st'.stop = true ∨ st'.iteration + 1 = k + fuel) ∧
        ∃ sprev, Inv sprev ∧ step st'.iteration sprev = .ok st' := by
  intro fuel
  induction fuel with
  | zero => intro k st st' h; omega
  | succ fuel ih =>
    intro k st st' _ hinv h
    unfold loopFrom at h
    cases hs : step k st with
    | error e => rw [hs] at h; cases h
    | ok s1 =>
      rw [hs] at h
      have h1 := hstep k st s1 hinv hs
      by_cases hstop : s1.stop = true
      · simp only [bind, Except.bind, hstop, if_true] at h
        cases h
        exact ⟨h1.1, by omega, by omega, Or.inl hstop, st, hinv, by rw [h1.2]; exact hs⟩
      · simp only [bind, Except.bind, hstop] at h
        by_cases hf : fuel = 0
        · subst hf
          simp only [loopFrom] at h
          cases h
          exact ⟨h1.1, by omega, by omega, Or.inr (by omega), st, hinv, by rw [h1.2]; exact hs⟩
        · have := ih (k + 1) s1 st' (by omega) h1.1 h
          obtain ⟨a, b, c, d, e⟩ := this
          exact ⟨a, by omega, by omega, by rcases d with d | d; exact Or.inl d; exact Or.inr (by omega), e⟩

end loop

section run
variable {α : Type} [Add α] [Sub α] [Mul α] [Div α] [Neg α] [Zero α] [One α]

/-- The values `iterStep` reports after the sweep `st1`. -/
def passReport (D : Data α) (o : NumOps α) (rank : Nat) (dims : List Nat) (st1 : State α) : α × α :=
  report o D.norm (knorm o st1.weights st1.U)
    (iprodOf rank (D.shape.getD (dims.getLastD 0) 0) (st1.U.getD (dims.getLastD 0) []) st1.Umttkrp st1.weights)

theorem iterStep_ok {D : Data α} {S : Services α} {o : NumOps α} {rank : Nat} {stoptol : α} {dims : List Nat}
    {it : Nat} {st st' : State α} (h : iterStep D S o rank stoptol dims it st = .ok st') :
    ∃ st1, dims.foldlM (fun s n => modeUpdate D S o rank it (dims.getLastD 0) n s) st = .ok st1 ∧
      st' = closePass o stoptol it st.fit (passReport D o rank dims st1).1 (passReport D o rank dims st1).2 st1 := by
  unfold iterStep at h
  dsimp only at h
  cases hf : dims.foldlM (fun s n => modeUpdate D S o rank it (dims.getLastD 0) n s) st with
  | error e => rw [hf] at h; cases h
  | ok st1 =>
    rw [hf] at h
    refine ⟨st1, rfl, ?_⟩
    injection h with h
    exact h.symm

theorem run_ok {D : Data α} {S : Services α} {o : NumOps α} {P : Params α} {init : Init α} {out : Output α}
    (h : run D S o P init = .ok out) :
    ∃ dimorderIn optdims dims K st, setup D P init = .ok (dimorderIn, optdims, dims, K) ∧ P.maxiters ≠ 0 ∧
      loopFrom (iterStep D S o P.rank P.stoptol dims) P.maxiters 0 (initState D P.rank dims K) = .ok st ∧
      out = finish D o P dimorderIn optdims K st := by
  unfold run at h
  cases hs : setup D P init with
  | error e => rw [hs] at h; cases h
  | ok r =>
    obtain ⟨dimorderIn, optdims, dims, K⟩ := r
    rw [hs] at h
    dsimp only [bind, Except.bind] at h
    by_cases hm : (P.maxiters == 0) = true
    · simp [hm] at h
    · simp only [hm] at h
      cases hl : loopFrom (iterStep D S o P.rank P.stoptol dims) P.maxiters 0 (initState D P.rank dims K) with
      | error e => rw [hl] at h; simp at h
      | ok st =>
        rw [hl] at h
        refine ⟨dimorderIn, optdims, dims, K, st, rfl, ?_, hl, ?_⟩
        · simpa using hm
        · simp [pure, Except.pure] at h
          exact h.symm

end run

section scalar
variable {α : Type} [Field α] [LinearOrder α] [IsStrictOrderedRing α]

/-- Inner product of two arrays of shape `s` (sum over all subscripts). -/
def ip (s : List Nat) (f g : List Nat → α) : α := ((allSubs s).map fun i => f i * g i).sum

theorem list_sum_sq_sub (l : List (List Nat)) (f g : List Nat → α) :
    (l.map fun i => (f i - g i) * (f i - g i)).sum =
      (l.map fun i => f i * f i).sum + (l.map fun i => g i * g i).sum - 2 * (l.map fun i => f i * g i).sum := by
  induction l with
  | nil => simp
  | cons a l ih => simp only [List.map_cons, List.sum_cons, ih]; ring

theorem ip_sub_sub (s : List Nat) (f g : List Nat → α) :
    ip s (fun i => f i - g i) (fun i => f i - g i) = ip s f f + ip s g g - 2 * ip s f g :=
  list_sum_sq_sub _ f g

theorem ip_self_nonneg (s : List Nat) (f : List Nat → α) : 0 ≤ ip s f f := by
  unfold ip
  generalize allSubs s = l
  induction l with
  | nil => simp
  | cons a l ih => simp only [List.map_cons, List.sum_cons]; have := mul_self_nonneg (f a); linarith

theorem NumOps.Lawful.sqrt_abs_sq {o : NumOps α} (ho : o.Lawful) (x : α) :
    0 ≤ o.sqrt (o.abs x) ∧ o.sqrt (o.abs x) * o.sqrt (o.abs x) = |x| := by
  rw [ho.abs_eq]
  exact ⟨ho.sqrt_nonneg _ (abs_nonneg x), ho.sqrt_mul_self _ (abs_nonneg x)⟩

/-- `normresidual` is the distance `‖X − M‖` whenever its three inputs are `‖X‖`, `‖M‖`, `⟨X, M⟩`. -/
theorem normresidual_spec {o : NumOps α} (ho : o.Lawful) (s : List Nat) (X M : List Nat → α) (nx nm ipr : α)
    (hX : nx * nx = ip s X X) (hM : nm * nm = ip s M M) (hI : ipr = ip s X M) :
    0 ≤ Gen.normresidual o nx nm ipr ∧
    Gen.normresidual o nx nm ipr * Gen.normresidual o nx nm ipr =
      ip s (fun i => X i - M i) (fun i => X i - M i) := by
  unfold Gen.normresidual
  have h := ho.sqrt_abs_sq (nx * nx + nm * nm - o.ofNat 2 * ipr)
  refine ⟨h.1, ?_⟩
  rw [h.2, ho.ofNat_eq, hX, hM, hI, ip_sub_sub]
  have := ip_self_nonneg s (fun i => X i - M i)
  rw [ip_sub_sub] at this
  rw [abs_of_nonneg]
  · push_cast; ring
  · push_cast; linarith

theorem fit_spec {o : NumOps α} (ho : o.Lawful) (nr nx : α) : Gen.fit o nr nx = 1 - nr / nx := by
  simp [Gen.fit, ho.ofNat_eq]

theorem normresidualZero_spec {o : NumOps α} (ho : o.Lawful) (s : List Nat) (X M : List Nat → α) (nm ipr : α)
    (hM : nm * nm = ip s M M) (hI : ipr = ip s X M) :
    Gen.normresidualZero o nm ipr = ip s M M - 2 * ip s X M ∧
    Gen.fitZero (Gen.normresidualZero o nm ipr) = ip s M M - 2 * ip s X M := by
  simp [Gen.normresidualZero, Gen.fitZero, ho.ofNat_eq, hM, hI]

theorem stopTest_spec {o : NumOps α} (ho : o.Lawful) (it : Nat) (fitold fit stoptol : α) :
    Gen.stopTest o it (Gen.fitchange o fitold fit) stoptol = true ↔ 0 < it ∧ |fitold - fit| < stoptol := by
  simp [Gen.stopTest, Gen.fitchange, ho.abs_eq, ho.lt_iff]

end scalar

section iprod
variable {α : Type} [Field α]

/-- What the theorems assume about the data object: it denotes the array `X` and its
`innerprod` / `mttkrp` obey the laws of C02. -/
structure DataLaws (D : Data α) (X : List Nat → α) : Prop where
  innerprod_eq : ∀ K : Ktensor α, ShapeOK D.shape K.weights.length K.factors →
    D.innerprod K = ip D.shape X K.get
  /-- `⟨X, [[w; U]]⟩ = Σ_r Σ_i w_r · mttkrp(X, U, n)[i, r] · U_n[i, r]` -/
  mttkrp_law : ∀ (w : List α) (U : List (Mat α)) (n : Nat), n < D.shape.length → ShapeOK D.shape w.length U →
    ip D.shape X (Ktensor.get ⟨w, U⟩) =
      sumRange w.length fun r => sumRange (D.shape.getD n 0) fun i =>
        w.getD r 0 * ((D.mttkrp U n).get i r * (U.getD n []).get i r)
  /-- `mttkrp(X, U, n)` does not look at `U[n]` -/
  mttkrp_indep : ∀ (U : List (Mat α)) (n : Nat) (A : Mat α), D.mttkrp (U.set n A) n = D.mttkrp U n

theorem iprodOf_eq (rank I : Nat) (A B : Mat α) (w : List α) :
    iprodOf rank I A B w = sumRange rank fun r => sumRange I fun i => w.getD r 0 * (B.get i r * A.get i r) := by
  unfold iprodOf
  simp only [sumRange_eq]
  refine Finset.sum_congr rfl fun r _ => ?_
  rw [Finset.sum_mul]
  refine Finset.sum_congr rfl fun i _ => ?_
  ring

theorem sweep_iprod {D : Data α} {S : Services α} {o : NumOps α} {rank it : Nat} {X : List Nat → α}
    (hD : DataLaws D X) (dims : List Nat) (hne : dims ≠ []) (hlast : dims.getLastD 0 < D.shape.length)
    {st st1 : State α} (hU : ShapeOK D.shape rank st.U)
    (h : dims.foldlM (fun s n => modeUpdate D S o rank it (dims.getLastD 0) n s) st = .ok st1) :
    iprodOf rank (D.shape.getD (dims.getLastD 0) 0) (st1.U.getD (dims.getLastD 0) []) st1.Umttkrp st1.weights =
      ip D.shape X (Ktensor.get ⟨st1.weights, st1.U⟩) := by
  obtain ⟨pre, last, hd⟩ : ∃ pre last, dims = pre ++ [last] :=
    ⟨dims.dropLast, dims.getLast hne, (List.dropLast_append_getLast hne).symm⟩
  subst hd
  have hl : (pre ++ [last]).getLastD 0 = last := by simp
  rw [hl] at h hlast ⊢
  rw [List.foldlM_append] at h
  cases hp : pre.foldlM (fun s n => modeUpdate D S o rank it last n s) st with
  | error e => rw [hp] at h; cases h
  | ok smid =>
    rw [hp] at h
    have hmid := (foldlM_shape pre hp hU).1
    simp only [bind, Except.bind, List.foldlM_cons, List.foldlM_nil] at h
    cases hm : modeUpdate D S o rank it last last smid with
    | error e => rw [hm] at h; cases h
    | ok s2 =>
      rw [hm] at h
      simp only [pure, Except.pure] at h
      cases h
      have hs := modeUpdate_shape hm hmid
      obtain ⟨A0, _, rfl⟩ := modeUpdate_ok hm
      have hlaw := hD.mttkrp_law _ _ last hlast (by rw [hs.2]; exact hs.1)
      rw [hlaw, iprodOf_eq, hs.2]
      have hindep : D.mttkrp (applyUpdate o (D.shape.getD last 0) rank it last last (D.mttkrp smid.U last) A0 smid).U last
          = D.mttkrp smid.U last := by
        rw [applyUpdate_U, hD.mttkrp_indep]
      rw [hindep]
      simp [applyUpdate]

end iprod

section normaleq
variable {α : Type} [Field α] [LinearOrder α] [IsStrictOrderedRing α]

/-- Contract of the linear solver: an answer `A` to `solve(Y, B)` satisfies `A · Y = B`. -/
def SolveContract (S : Services α) : Prop :=
  ∀ (n : Nat) (Y B A : Mat α), S.solve n Y B = .ok A →
    ∀ (R i r : Nat), Y.length = R → r < R → sumRange R (fun a => A.get i a * Y.get a r) = B.get i r

theorem length_coef (UtU : List (Mat α)) (N R n : Nat) : (coef UtU N R n).length = R := by
  simp [coef, tab]

theorem all_isZero_getD {o : NumOps α} (ho : o.Lawful) (w : List α) (h : w.all o.isZero = true) (a : Nat) :
    w.getD a 0 = 0 := by
  by_cases ha : a < w.length
  · have : w[a] ∈ w := List.getElem_mem ha
    have := (List.all_eq_true.1 h) _ this
    rw [ho.isZero_iff] at this
    simp [List.getD_eq_getElem?_getD, ha, this]
  · simp [List.getD_eq_getElem?_getD, List.getElem?_eq_none (by omega : w.length ≤ a)]

/-- The scaled factor times its column weights is the solver's answer. -/
theorem scaleCols_mul {o : NumOps α} (ho : o.Lawful) (I R : Nat) (A : Mat α) (w : List α)
    (hw : ∀ r < R, w.getD r 0 ≠ 0) {i r : Nat} (hi : i < I) (hr : r < R) :
    (scaleCols o I R A w).get i r * w.getD r 0 = A.get i r := by
  unfold scaleCols
  split
  · rename_i h
    exact absurd (all_isZero_getD ho w h r) (hw r hr)
  · rw [get_tab _ _ _ hi hr, div_mul_cancel₀ _ (hw r hr)]

/-- Normal equations of a mode update (relative to the solver's contract). -/
theorem modeUpdate_normal_eq {D : Data α} {S : Services α} {o : NumOps α} (ho : o.Lawful) (hS : SolveContract S)
    {rank it last n : Nat} {st st' : State α}
    (h : modeUpdate D S o rank it last n st = .ok st')
    (hn : n < st.U.length)
    (hY : allZero o (coef st.UtU D.shape.length rank n) = false)
    (hw : ∀ r < rank, st'.weights.getD r 0 ≠ 0) :
    ∀ i < D.shape.getD n 0, ∀ r < rank,
      sumRange rank (fun a => ((st'.U.getD n []).get i a * st'.weights.getD a 0) *
        (coef st.UtU D.shape.length rank n).get a r) = (D.mttkrp st.U n).get i r := by
  unfold modeUpdate at h
  dsimp only at h
  cases hs : solveStep S o (D.shape.getD n 0) rank n (coef st.UtU D.shape.length rank n) (D.mttkrp st.U n) with
  | error e => rw [hs] at h; cases h
  | ok A0 =>
    rw [hs] at h
    injection h with h
    subst h
    intro i hi r hr
    unfold solveStep at hs
    rw [hY] at hs
    simp only [Bool.false_eq_true, if_false] at hs
    have hc := hS n _ _ _ hs rank i r (length_coef _ _ _ _) hr
    rw [← hc]
    simp only [sumRange_eq]
    refine Finset.sum_congr rfl fun a ha => ?_
    have ha' : a < rank := Finset.mem_range.1 ha
    · have hU : (applyUpdate o (D.shape.getD n 0) rank it last n (D.mttkrp st.U n) A0 st).U.getD n [] =
          scaleCols o (D.shape.getD n 0) rank A0 (colWeights o it (D.shape.getD n 0) rank A0) := by
        simp [applyUpdate, List.getD_eq_getElem?_getD, List.getElem?_set, hn]
      rw [hU]
      have := scaleCols_mul ho (D.shape.getD n 0) rank A0 (colWeights o it (D.shape.getD n 0) rank A0) hw hi ha'
      simp only [applyUpdate] at this ⊢
      rw [this]

end normaleq

section sweep
variable {α : Type} [Add α] [Sub α] [Mul α] [Div α] [Neg α] [Zero α] [One α]

/-- The last mode update of a sweep. -/
theorem sweep_last {D : Data α} {S : Services α} {o : NumOps α} {rank it : Nat}
    (dims : List Nat) (hne : dims ≠ []) {st st1 : State α}
    (h : dims.foldlM (fun s n => modeUpdate D S o rank it (dims.getLastD 0) n s) st = .ok st1) :
    ∃ smid, dims.dropLast.foldlM (fun s n => modeUpdate D S o rank it (dims.getLastD 0) n s) st = .ok smid ∧
      modeUpdate D S o rank it (dims.getLastD 0) (dims.getLastD 0) smid = .ok st1 := by
  have hd : dims = dims.dropLast ++ [dims.getLast hne] := (List.dropLast_append_getLast hne).symm
  have hl : dims.getLastD 0 = dims.getLast hne := by
    rw [List.getLastD_eq_getLast?, List.getLast?_eq_some_getLast hne]; rfl
  rw [hl] at h ⊢
  generalize dims.getLast hne = last at h hd ⊢
  generalize dims.dropLast = pre at hd ⊢
  subst hd
  rw [List.foldlM_append] at h
  cases hp : pre.foldlM (fun s n => modeUpdate D S o rank it last n s) st with
  | error e => rw [hp] at h; cases h
  | ok smid =>
    rw [hp] at h
    simp only [bind, Except.bind, List.foldlM_cons, List.foldlM_nil] at h
    cases hm : modeUpdate D S o rank it last last smid with
    | error e => rw [hm] at h; cases h
    | ok s2 =>
      rw [hm] at h
      simp only [pure, Except.pure] at h
      cases h
      exact ⟨smid, rfl, hm⟩

/-- The Gram matrices kept in the state are the Gram matrices of the factors. -/
def GramOK (rank : Nat) (st : State α) : Prop :=
  st.UtU.length = st.U.length ∧ ∀ m < st.U.length, st.UtU.getD m [] = gram (st.U.getD m []) rank

theorem gramOK_init (D : Data α) (rank : Nat) (dims : List Nat) (K : Ktensor α) :
    GramOK rank (initState D rank dims K) := by
  refine ⟨by simp [initState], fun m hm => ?_⟩
  simp only [initState] at hm
  simp [initState, List.getD_eq_getElem?_getD, hm]

theorem gramOK_applyUpdate (o : NumOps α) (I rank it last n : Nat) (B A0 : Mat α) (st : State α)
    (h : GramOK rank st) : GramOK rank (applyUpdate o I rank it last n B A0 st) := by
  refine ⟨by simp [applyUpdate, h.1], fun m hm => ?_⟩
  simp only [applyUpdate, List.length_set] at hm ⊢
  by_cases hnm : n = m
  · subst hnm
    rw [getD_set_eq _ _ _ _ hm, getD_set_eq _ _ _ _ (by rw [h.1]; exact hm)]
  · rw [getD_set_ne _ _ _ hnm, getD_set_ne _ _ _ hnm]
    exact h.2 m hm

theorem gramOK_modeUpdate {D : Data α} {S : Services α} {o : NumOps α} {rank it last n : Nat} {st st' : State α}
    (h : modeUpdate D S o rank it last n st = .ok st') (hG : GramOK rank st) : GramOK rank st' := by
  obtain ⟨A0, _, rfl⟩ := modeUpdate_ok h
  exact gramOK_applyUpdate _ _ _ _ _ _ _ _ _ hG

theorem gramOK_foldlM {D : Data α} {S : Services α} {o : NumOps α} {rank it last : Nat} (dims : List Nat)
    {st st' : State α}
    (h : dims.foldlM (fun s n => modeUpdate D S o rank it last n s) st = .ok st') (hG : GramOK rank st) :
    GramOK rank st' := by
  induction dims generalizing st with
  | nil => simp [List.foldlM] at h; cases h; exact hG
  | cons n rest ih =>
    rw [List.foldlM_cons] at h
    cases hm : modeUpdate D S o rank it last n st with
    | error e => rw [hm] at h; cases h
    | ok st1 => rw [hm] at h; exact ih h (gramOK_modeUpdate hm hG)

/-- The coefficient matrix of the update of mode `n`, entry by entry, in terms of the factors
AFTER the update (which differ from those before only in mode `n`). -/
theorem coef_get_after {D : Data α} {S : Services α} {o : NumOps α} {rank it last n : Nat} {st st' : State α}
    (h : modeUpdate D S o rank it last n st = .ok st') (hG : GramOK rank st)
    (hN : st.U.length = D.shape.length) {a r : Nat} (ha : a < rank) (hr : r < rank) :
    (coef st.UtU D.shape.length rank n).get a r =
      prodOver ((List.range D.shape.length).filter (· != n)) fun m => (gram (st'.U.getD m []) rank).get a r := by
  obtain ⟨A0, _, rfl⟩ := modeUpdate_ok h
  unfold coef
  rw [get_tab _ _ _ ha hr]
  unfold prodOver
  congr 1
  refine List.map_congr_left fun m hm => ?_
  simp only [List.mem_filter, List.mem_range, bne_iff_ne, ne_eq] at hm
  rw [hG.2 m (by rw [hN]; exact hm.1), applyUpdate_U, getD_set_ne _ _ _ (Ne.symm hm.2)]

end sweep

section setup
variable {α : Type} [Add α] [Sub α] [Mul α] [Div α] [Neg α] [Zero α] [One α]

/-- What the random stream / `nvecs` must deliver for the start to be well-shaped
(a given guess is validated by `cp_als` itself). -/
def InitOK (D : Data α) (rank : Nat) : Init α → Prop
  | .given _ => True
  | .random draws => ∀ n < D.shape.length, IsMat (D.shape.getD n 0) rank (draws.getD n [])
  | .nvecs => ∀ f, D.nvecs = some f → ∀ n < D.shape.length, IsMat (D.shape.getD n 0) rank (f n rank)
  | .unsupported => True

theorem isPermOf_mem {order : List Nat} {N : Nat} (h : isPermOf order N = true) {n : Nat} (hn : n < N) :
    n ∈ order := by
  unfold isPermOf at h
  simp only [Bool.and_eq_true, List.all_eq_true, List.mem_range] at h
  simpa using h.2 n hn

theorem isPermOf_lt {order : List Nat} {N : Nat} (h : isPermOf order N = true) : ∀ n ∈ order, n < N := by
  unfold isPermOf at h
  simp only [Bool.and_eq_true, beq_iff_eq, List.all_eq_true, List.mem_range] at h
  have hsub : List.range N ⊆ order := fun m hm => by simpa using h.2 m (List.mem_range.1 hm)
  have hperm : (List.range N).Perm order :=
    (List.subperm_of_subset List.nodup_range hsub).perm_of_length_le (by simp [h.1])
  intro n hn
  exact List.mem_range.1 (hperm.symm.subset hn)

theorem resolveOptdims_ok {N : Nat} {o : Option (List Nat)} {od : List Nat}
    (h : resolveOptdims N o = .ok od) : od = o.getD (List.range N) := by
  cases o with
  | none => simp [resolveOptdims, pure, Except.pure] at h; simp [h]
  | some l =>
    simp only [resolveOptdims] at h
    split at h
    · simp [pure, Except.pure] at h; simp [h]
    · cases h

theorem setup_ok {D : Data α} {P : Params α} {init : Init α} {di od dims : List Nat} {K : Ktensor α}
    (h : setup D P init = .ok (di, od, dims, K)) :
    di = P.dimorder.getD (List.range D.shape.length) ∧ isPermOf di D.shape.length = true ∧
    resolveOptdims D.shape.length P.optdims = .ok od ∧ P.rank ≠ 0 ∧
    resolveInit D P.rank di init = .ok K ∧ dims = di.filter (fun d => od.contains d) ∧ dims ≠ [] := by
  unfold setup at h
  dsimp only at h
  split at h
  · cases h
  rename_i hperm
  cases ho : resolveOptdims D.shape.length P.optdims with
  | error e => rw [ho] at h; cases h
  | ok od' =>
    rw [ho] at h
    dsimp only at h
    split at h
    · cases h
    rename_i hrank
    cases hk : resolveInit D P.rank (P.dimorder.getD (List.range D.shape.length)) init with
    | error e => rw [hk] at h; cases h
    | ok K' =>
      rw [hk] at h
      dsimp only at h
      split at h
      · cases h
      rename_i hempty
      simp only [Except.ok.injEq, Prod.mk.injEq] at h
      obtain ⟨rfl, rfl, rfl, rfl⟩ := h
      refine ⟨rfl, by simpa using hperm, rfl, by simpa using hrank, hk, rfl, ?_⟩
      intro he; rw [he] at hempty; exact hempty rfl

theorem setup_spec {D : Data α} {P : Params α} {init : Init α} {di od dims : List Nat} {K : Ktensor α}
    (h : setup D P init = .ok (di, od, dims, K)) (hi : InitOK D P.rank init) :
    ShapeOK D.shape P.rank K.factors ∧ K.weights.length = P.rank ∧ dims ≠ [] ∧ 0 < P.rank ∧
    isPermOf di D.shape.length = true ∧ dims = di.filter (fun d => od.contains d) ∧
    (∀ K0, init = .given K0 → K = K0) := by
  obtain ⟨_, hperm, _, hrank, hk, hdims, hne⟩ := setup_ok h
  refine ⟨?_, ?_, hne, Nat.pos_of_ne_zero hrank, hperm, hdims, ?_⟩
  · cases init with
    | given K0 =>
      simp only [resolveInit] at hk
      split at hk
      · cases hk
      split at hk
      · cases hk
      split at hk
      · rename_i hlen hw hall
        simp only [pure, Except.pure, Except.ok.injEq] at hk
        subst hk
        refine ⟨by simpa using hlen, fun n hn => ?_⟩
        have := (List.all_eq_true.1 hall) n (isPermOf_mem hperm hn)
        simp only [Bool.and_eq_true, beq_iff_eq, List.all_eq_true] at this
        exact ⟨this.1, fun row hrow => by simpa using this.2 row hrow⟩
      · cases hk
    | random draws =>
      simp only [resolveInit, pure, Except.pure, Except.ok.injEq] at hk
      subst hk
      refine ⟨by simp, fun n hn => ?_⟩
      have := hi n hn
      simpa [List.getD_eq_getElem?_getD, hn] using this
    | nvecs =>
      simp only [resolveInit] at hk
      cases hf : D.nvecs with
      | none => rw [hf] at hk; cases hk
      | some f =>
        rw [hf] at hk
        simp only [pure, Except.pure, Except.ok.injEq] at hk
        subst hk
        refine ⟨by simp, fun n hn => ?_⟩
        have := hi f hf n hn
        simpa [List.getD_eq_getElem?_getD, hn] using this
    | unsupported => simp only [resolveInit] at hk; cases hk
  · cases init with
    | given K0 =>
      simp only [resolveInit] at hk
      split at hk
      · cases hk
      split at hk
      · cases hk
      split at hk
      · rename_i hlen hw hall
        simp only [pure, Except.pure, Except.ok.injEq] at hk
        subst hk
        simpa using hw
      · cases hk
    | random draws =>
      simp only [resolveInit, pure, Except.pure, Except.ok.injEq] at hk
      subst hk; simp
    | nvecs =>
      simp only [resolveInit] at hk
      cases hf : D.nvecs with
      | none => rw [hf] at hk; cases hk
      | some f =>
        rw [hf] at hk
        simp only [pure, Except.pure, Except.ok.injEq] at hk
        subst hk; simp
    | unsupported => simp only [resolveInit] at hk; cases hk
  · intro K0 hK
    subst hK
    simp only [resolveInit] at hk
    split at hk
    · cases hk
    split at hk
    · cases hk
    split at hk
    · simp only [pure, Except.pure, Except.ok.injEq] at hk
      exact hk.symm
    · cases hk

end setup

section rejects
variable {α : Type} [Add α] [Sub α] [Mul α] [Div α] [Neg α] [Zero α] [One α]

theorem setup_rejects (D : Data α) (P : Params α) (init : Init α)
    (h : isPermOf (P.dimorder.getD (List.range D.shape.length)) D.shape.length = false ∨ P.rank = 0 ∨
      (∃ od, P.optdims = some od ∧ optdimsOK od D.shape.length = false) ∨
      (P.dimorder.getD (List.range D.shape.length)).filter
        (fun d => (P.optdims.getD (List.range D.shape.length)).contains d) = []) :
    setup D P init = .error .reject := by
  cases hs : setup D P init with
  | error e => cases e; rfl
  | ok r =>
    obtain ⟨di, od, dims, K⟩ := r
    obtain ⟨h1, h2, h3, h4, _, h6, h7⟩ := setup_ok hs
    exfalso
    rcases h with h | h | ⟨od', hod, hbad⟩ | h
    · rw [← h1, h2] at h; cases h
    · exact h4 h
    · rw [hod] at h3
      simp [resolveOptdims, hbad] at h3
    · have := resolveOptdims_ok h3
      rw [← h1, ← this] at h
      exact h7 (h6.trans h)

theorem run_rejects (D : Data α) (S : Services α) (o : NumOps α) (P : Params α) (init : Init α)
    (h : P.maxiters = 0 ∨ setup D P init = .error .reject) : run D S o P init = .error .reject := by
  unfold run
  rcases h with h | h
  · cases hs : setup D P init with
    | error e => cases e; rfl
    | ok r =>
      obtain ⟨a, b, c, d⟩ := r
      simp [bind, Except.bind, h]
  · rw [h]; rfl

end rejects

end Pyttb.CpAls
