/-
C15, combinatorial part: `itertools.permutations` (`permsLex`), fancy assignment (`scatter`),
composition / inverse of mode orders given as lists, and the mode orders that permute inside
groups (`GroupPerm`): they are closed under composition and inverse, `groupPerms` lists each of
them once, translation by one of them permutes the list, an order for `g :: gs` factors uniquely
into one for `[g]` and one for `gs`.
-/
import PyttbModel.Spec.Symmetric
import PyttbModel.Lemmas.Perm
import PyttbModel.Lemmas.Arr
import Mathlib.Data.List.Perm.Basic
import Mathlib.Data.List.Nodup
import Mathlib.Algebra.BigOperators.Group.List.Basic
namespace Pyttb
namespace Sym
open List

/-! ### `picks`, `permsLex` -/

theorem picks_perm {β : Type} {l : List β} {y : β} {r : List β} (h : (y, r) ∈ picks l) :
    l.Perm (y :: r) := by
  induction l generalizing y r with
  | nil => simp [picks] at h
  | cons x xs ih =>
    simp only [picks, mem_cons, mem_map, Prod.mk.injEq] at h
    rcases h with ⟨rfl, rfl⟩ | ⟨⟨y', r'⟩, hm, rfl, rfl⟩
    · exact Perm.refl _
    · exact ((ih hm).cons x).trans (Perm.swap _ _ _)

theorem picks_map_fst {β : Type} (l : List β) : (picks l).map Prod.fst = l := by
  induction l with
  | nil => rfl
  | cons x xs ih =>
    simp only [picks, map_cons, map_map]
    congr 1

theorem exists_pick {β : Type} {l : List β} {y : β} (h : y ∈ l) : ∃ r, (y, r) ∈ picks l := by
  have : y ∈ (picks l).map Prod.fst := by rw [picks_map_fst]; exact h
  obtain ⟨⟨y', r⟩, hm, rfl⟩ := mem_map.1 this
  exact ⟨r, hm⟩

theorem mem_permsFuel {β : Type} (n : Nat) (l q : List β) (hl : l.length = n) :
    q ∈ permsFuel n l ↔ q.Perm l := by
  induction n generalizing l q with
  | zero =>
    have : l = [] := length_eq_zero_iff.1 hl
    subst this
    simp [permsFuel]
  | succ n ih =>
    simp only [permsFuel, mem_flatMap, mem_map]
    constructor
    · rintro ⟨⟨y, r⟩, hp, q', hq', rfl⟩
      have h1 := picks_perm hp
      have hr : r.length = n := by
        have := h1.length_eq; simp at this; omega
      exact (((ih r q' hr).1 hq').cons y).trans h1.symm
    · intro hq
      cases q with
      | nil => have := hq.length_eq; simp at this; omega
      | cons y q' =>
        have hy : y ∈ l := hq.subset (mem_cons_self)
        obtain ⟨r, hp⟩ := exists_pick hy
        have h1 := picks_perm hp
        have hr : r.length = n := by
          have := h1.length_eq; simp at this; omega
        refine ⟨(y, r), hp, q', ?_, rfl⟩
        exact (ih r q' hr).2 ((hq.trans h1).cons_inv)

theorem mem_permsLex {β : Type} {l q : List β} : q ∈ permsLex l ↔ q.Perm l :=
  mem_permsFuel l.length l q rfl

theorem nodup_permsFuel {β : Type} (n : Nat) (l : List β) (hl : l.length = n) (hn : l.Nodup) :
    (permsFuel n l).Nodup := by
  induction n generalizing l with
  | zero => simp [permsFuel]
  | succ n ih =>
    simp only [permsFuel]
    rw [nodup_flatMap]
    constructor
    · rintro ⟨y, r⟩ hp
      have h1 := picks_perm hp
      have hr : r.length = n := by
        have := h1.length_eq; simp at this; omega
      have hrn : r.Nodup := ((h1.nodup_iff.1 hn).of_cons)
      exact (ih r hr hrn).map_on (by intro a _ b _ h; simpa using h)
    · have hfst : ((picks l).map Prod.fst).Nodup := by rw [picks_map_fst]; exact hn
      have hpw : (picks l).Pairwise (fun a b => a.1 ≠ b.1) := by
        have := hfst
        rwa [Nodup, pairwise_map] at this
      refine hpw.imp ?_
      rintro ⟨y, r⟩ ⟨y', r'⟩ hne
      simp only [Function.onFun]
      intro q hq hq'
      simp only [mem_map] at hq hq'
      obtain ⟨a, _, rfl⟩ := hq
      obtain ⟨b, _, hb⟩ := hq'
      simp only [cons.injEq] at hb
      exact hne hb.1.symm

theorem nodup_permsLex {β : Type} {l : List β} (hn : l.Nodup) : (permsLex l).Nodup :=
  nodup_permsFuel l.length l rfl hn

theorem length_of_mem_permsLex {β : Type} {l q : List β} (h : q ∈ permsLex l) : q.length = l.length :=
  (mem_permsLex.1 h).length_eq

/-! ### `scatter` -/

@[simp] theorem scatter_nil_idx (a vals : List Nat) : scatter a [] vals = a := rfl

theorem scatter_cons (a : List Nat) (k v : Nat) (idx vals : List Nat) :
    scatter a (k :: idx) (v :: vals) = scatter (a.set k v) idx vals := rfl

@[simp] theorem length_scatter (a idx vals : List Nat) : (scatter a idx vals).length = a.length := by
  induction idx generalizing a vals with
  | nil => rfl
  | cons k idx ih =>
    cases vals with
    | nil => rfl
    | cons v vals => rw [scatter_cons, ih, length_set]

theorem getD_set_ne (a : List Nat) (k v m : Nat) (h : m ≠ k) : (a.set k v).getD m 0 = a.getD m 0 := by
  simp [List.getD_eq_getElem?_getD, List.getElem?_set_ne (Ne.symm h)]

theorem getD_set_self (a : List Nat) (k v : Nat) (h : k < a.length) : (a.set k v).getD k 0 = v := by
  simp [List.getD_eq_getElem?_getD, h]

/-- positions that are not assigned keep their value. -/
theorem getD_scatter_of_not_mem (a idx vals : List Nat) (m : Nat) (h : m ∉ idx) :
    (scatter a idx vals).getD m 0 = a.getD m 0 := by
  induction idx generalizing a vals with
  | nil => rfl
  | cons k idx ih =>
    cases vals with
    | nil => rfl
    | cons v vals =>
      simp only [mem_cons, not_or] at h
      rw [scatter_cons, ih _ _ h.2, getD_set_ne _ _ _ _ h.1]

/-- position `idx[t]` receives `vals[t]` (distinct positions, all in range). -/
theorem getD_scatter_of_mem (a idx vals : List Nat) (hn : idx.Nodup) (hl : idx.length = vals.length)
    (hr : ∀ m ∈ idx, m < a.length) (t : Nat) (ht : t < idx.length) :
    (scatter a idx vals).getD (idx.getD t 0) 0 = vals.getD t 0 := by
  induction idx generalizing a vals t with
  | nil => simp at ht
  | cons k idx ih =>
    cases vals with
    | nil => simp at hl
    | cons v vals =>
      rw [scatter_cons]
      simp only [nodup_cons] at hn
      cases t with
      | zero =>
        simp only [getD_cons_zero]
        rw [getD_scatter_of_not_mem _ _ _ _ hn.1, getD_set_self _ _ _ (hr k mem_cons_self)]
      | succ t =>
        simp only [getD_cons_succ]
        apply ih _ _ hn.2 (by simpa using hl)
        · intro m hm; rw [length_set]; exact hr m (mem_cons_of_mem _ hm)
        · simpa using ht

/-- the assigned positions read back the assigned values. -/
theorem gather_scatter_self (a idx vals : List Nat) (hn : idx.Nodup) (hl : idx.length = vals.length)
    (hr : ∀ m ∈ idx, m < a.length) : gather (scatter a idx vals) idx = vals := by
  apply ext_getD (by simp [hl])
  intro t ht
  simp only [length_gather] at ht
  rw [getD_gather _ _ _ ht]
  exact getD_scatter_of_mem a idx vals hn hl hr t ht

/-- a list is determined by its entries at `idx` and outside `idx`. -/
theorem eq_scatter_of (a b idx : List Nat) (hn : idx.Nodup) (hr : ∀ m ∈ idx, m < a.length)
    (hlen : b.length = a.length) (hout : ∀ m, m < a.length → m ∉ idx → b.getD m 0 = a.getD m 0) :
    b = scatter a idx (gather b idx) := by
  apply ext_getD (by simp [hlen])
  intro m hm
  by_cases hmem : m ∈ idx
  · obtain ⟨t, ht, rfl⟩ := List.getElem_of_mem hmem
    have e : idx[t] = idx.getD t 0 := (getD0_of_lt idx t ht).symm
    rw [e, getD_scatter_of_mem a idx _ hn (by simp) hr t ht, getD_gather _ _ _ ht]
  · rw [getD_scatter_of_not_mem _ _ _ _ hmem]
    exact hout m (by omega) hmem

/-! ### composition and inverse of orders -/

theorem gather_range_left {n : Nat} {q : List Nat} (h : ∀ x ∈ q, x < n) : gather (List.range n) q = q := by
  unfold gather
  conv => rhs; rw [← List.map_id q]
  apply List.map_congr_left
  intro k hk
  have := h k hk
  simp [List.getD_eq_getElem?_getD, this]

theorem isPermOf_lt {p : List Nat} {n : Nat} (hp : isPermOf p n = true) : ∀ x ∈ p, x < n :=
  fun _ hx => isPermOf_lt_of_mem hp hx

/-- `(p ∘ q)[k] = p[q[k]]`. -/
theorem getD_comp {p q : List Nat} {n : Nat} (hq : isPermOf q n = true) {k : Nat} (hk : k < n) :
    (gather p q).getD k 0 = p.getD (q.getD k 0) 0 :=
  getD_gather p q k (by rw [isPermOf_length_eq hq]; exact hk)

theorem isPermOf_comp {p q : List Nat} {n : Nat} (hp : isPermOf p n = true) (hq : isPermOf q n = true) :
    isPermOf (gather p q) n = true := by
  have hl := isPermOf_length_eq hp
  apply isPermOf_of_perm
  have h1 : (gather p q).Perm p := gather_perm_self (by rw [hl]; exact hq)
  exact (isPermOf_perm hp).trans h1.symm

theorem comp_assoc {a p q : List Nat} {n : Nat} (hp : isPermOf p n = true) (hq : isPermOf q n = true) :
    gather (gather a p) q = gather a (gather p q) :=
  gather_gather a p q (by rw [isPermOf_length_eq hp]; exact isPermOf_lt hq)

theorem comp_invPerm {p : List Nat} {n : Nat} (hp : isPermOf p n = true) :
    gather p (invPerm p) = List.range n := by
  have h := gather_gather_invPerm hp (i := List.range n) (by simp)
  rwa [gather_range_left (isPermOf_lt hp)] at h

theorem invPerm_comp {p : List Nat} {n : Nat} (hp : isPermOf p n = true) :
    gather (invPerm p) p = List.range n := by
  have h := comp_invPerm (isPermOf_invPerm hp)
  rwa [invPerm_invPerm hp] at h

theorem comp_range {p : List Nat} {n : Nat} (hp : isPermOf p n = true) : gather p (List.range n) = p :=
  gather_range_of_length (isPermOf_length_eq hp)

theorem range_comp {p : List Nat} {n : Nat} (hp : isPermOf p n = true) : gather (List.range n) p = p :=
  gather_range_left (isPermOf_lt hp)

/-! ### orders that permute inside groups -/

theorem within_iff (grps : List (List Nat)) (p : List Nat) : within grps p = true ↔ Within grps p := by
  simp only [within, Within, List.all_eq_true, List.mem_range, Bool.or_eq_true, beq_iff_eq,
    List.any_eq_true, Bool.and_eq_true, List.contains_iff_mem]

theorem Within.mono {G G' : List (List Nat)} {p : List Nat} (h : ∀ g ∈ G, g ∈ G') (hw : Within G p) :
    Within G' p := by
  intro k hk
  rcases hw k hk with h1 | ⟨g, hg, h2⟩
  · exact Or.inl h1
  · exact Or.inr ⟨g, h g hg, h2⟩

theorem GroupPerm.mono {G G' : List (List Nat)} {n : Nat} {p : List Nat} (h : ∀ g ∈ G, g ∈ G')
    (hp : GroupPerm G n p) : GroupPerm G' n p := ⟨hp.1, hp.2.mono h⟩

theorem ValidGroups.eq_of_mem {n : Nat} {grps : List (List Nat)} (V : ValidGroups n grps)
    {g g' : List Nat} (hg : g ∈ grps) (hg' : g' ∈ grps) {m : Nat} (hm : m ∈ g) (hm' : m ∈ g') : g = g' := by
  have hpw := V.2
  clear V
  induction grps with
  | nil => simp at hg
  | cons a l ih =>
    rw [pairwise_cons] at hpw
    simp only [mem_cons] at hg hg'
    rcases hg with rfl | hg <;> rcases hg' with rfl | hg'
    · rfl
    · exact absurd hm' (hpw.1 g' hg' m hm)
    · exact absurd hm (hpw.1 g hg m hm')
    · exact ih hg hg' hpw.2

theorem ValidGroups.tail {n : Nat} {g : List Nat} {gs : List (List Nat)} (V : ValidGroups n (g :: gs)) :
    ValidGroups n gs :=
  ⟨fun h hh => V.1 h (mem_cons_of_mem _ hh), (pairwise_cons.1 V.2).2⟩

theorem ValidGroups.head {n : Nat} {g : List Nat} {gs : List (List Nat)} (V : ValidGroups n (g :: gs)) :
    ValidGroups n [g] :=
  ⟨fun h hh => V.1 h (by simp only [mem_singleton] at hh; subst hh; exact mem_cons_self), by simp⟩

theorem ValidGroups.disjoint_head {n : Nat} {g : List Nat} {gs : List (List Nat)}
    (V : ValidGroups n (g :: gs)) {h : List Nat} (hh : h ∈ gs) {m : Nat} (hm : m ∈ g) : m ∉ h :=
  (pairwise_cons.1 V.2).1 h hh m hm

theorem groupPerm_range (grps : List (List Nat)) (n : Nat) : GroupPerm grps n (List.range n) := by
  refine ⟨isPermOf_range n, ?_⟩
  intro k hk
  simp only [length_range] at hk
  left
  simp [List.getD_eq_getElem?_getD, hk]

theorem GroupPerm.length_eq {grps : List (List Nat)} {n : Nat} {p : List Nat} (hp : GroupPerm grps n p) :
    p.length = n := isPermOf_length_eq hp.1

theorem GroupPerm.comp {grps : List (List Nat)} {n : Nat} (V : ValidGroups n grps) {p q : List Nat}
    (hp : GroupPerm grps n p) (hq : GroupPerm grps n q) : GroupPerm grps n (gather p q) := by
  refine ⟨isPermOf_comp hp.1 hq.1, ?_⟩
  intro k hk
  have hk' : k < n := by simpa [hq.length_eq] using hk
  rw [getD_comp hq.1 hk']
  have hqk : q.getD k 0 < n := isPermOf_getD_lt hq.1 hk'
  rcases hq.2 k (by rw [hq.length_eq]; exact hk') with h1 | ⟨g, hg, hkg, hqg⟩
  · rw [h1]; exact hp.2 k (by rw [hp.length_eq]; exact hk')
  · rcases hp.2 (q.getD k 0) (by rw [hp.length_eq]; exact hqk) with h2 | ⟨g', hg', h3, h4⟩
    · rw [h2]; exact Or.inr ⟨g, hg, hkg, hqg⟩
    · have : g = g' := V.eq_of_mem hg hg' hqg h3
      subst this
      exact Or.inr ⟨g, hg, hkg, h4⟩

theorem GroupPerm.inv {grps : List (List Nat)} {n : Nat} {p : List Nat}
    (hp : GroupPerm grps n p) : GroupPerm grps n (invPerm p) := by
  refine ⟨isPermOf_invPerm hp.1, ?_⟩
  intro m hm
  have hm' : m < n := by simpa [hp.length_eq] using hm
  have hk : (invPerm p).getD m 0 < n := isPermOf_invPerm_getD_lt hp.1 hm'
  have hpk : p.getD ((invPerm p).getD m 0) 0 = m := getD_invPerm_getD hp.1 hm'
  rcases hp.2 _ (by rw [hp.length_eq]; exact hk) with h1 | ⟨g, hg, h2, h3⟩
  · left; rw [hpk] at h1; exact h1.symm
  · right; rw [hpk] at h3; exact ⟨g, hg, h3, h2⟩

/-- sizes are equal inside groups, so permuting inside groups keeps the shape. -/
theorem GroupPerm.gather_shape {grps : List (List Nat)} {s p : List Nat} (hs : SizesOK s grps)
    (hp : GroupPerm grps s.length p) : gather s p = s := by
  apply ext_getD (by simp [hp.length_eq])
  intro k hk
  simp only [length_gather, hp.length_eq] at hk
  rw [getD_gather _ _ _ (by rw [hp.length_eq]; exact hk)]
  rcases hp.2 k (by rw [hp.length_eq]; exact hk) with h1 | ⟨g, hg, h2, h3⟩
  · rw [h1]
  · exact hs g hg _ h3 _ h2

theorem GroupPerm.inBounds {grps : List (List Nat)} {s p j : List Nat} (hs : SizesOK s grps)
    (hp : GroupPerm grps s.length p) (hj : InBounds s j) : InBounds s (gather j p) := by
  have := hj.gather (idx := p) (fun k hk => isPermOf_lt hp.1 k hk)
  rwa [hp.gather_shape hs] at this

/-! ### the list of all of them -/

theorem mem_groupPerms {grps : List (List Nat)} {n : Nat} {p : List Nat} :
    p ∈ groupPerms n grps ↔ GroupPerm grps n p := by
  simp only [groupPerms, mem_filter, mem_permsLex, within_iff, GroupPerm, isPermOf_iff_perm]
  constructor
  · rintro ⟨h1, h2⟩; exact ⟨h1.symm, h2⟩
  · rintro ⟨h1, h2⟩; exact ⟨h1.symm, h2⟩

theorem nodup_groupPerms (grps : List (List Nat)) (n : Nat) : (groupPerms n grps).Nodup :=
  (nodup_permsLex nodup_range).filter _

theorem groupPerms_ne_nil (grps : List (List Nat)) (n : Nat) : groupPerms n grps ≠ [] :=
  ne_nil_of_mem (mem_groupPerms.2 (groupPerm_range grps n))

theorem length_groupPerms_pos (grps : List (List Nat)) (n : Nat) : 0 < (groupPerms n grps).length :=
  length_pos_iff.2 (groupPerms_ne_nil grps n)

/-- left translation by a member permutes the list. -/
theorem groupPerms_map_comp_left {grps : List (List Nat)} {n : Nat} (V : ValidGroups n grps) {q : List Nat}
    (hq : GroupPerm grps n q) : ((groupPerms n grps).map fun p => gather q p).Perm (groupPerms n grps) := by
  have hinj : ∀ x ∈ groupPerms n grps, ∀ y ∈ groupPerms n grps, gather q x = gather q y → x = y := by
    intro x hx y hy h
    have hx' := (mem_groupPerms.1 hx).1
    have hy' := (mem_groupPerms.1 hy).1
    have := congrArg (fun l => gather (invPerm q) l) h
    rwa [← comp_assoc hq.1 hx', ← comp_assoc hq.1 hy', invPerm_comp hq.1, range_comp hx', range_comp hy'] at this
  rw [perm_ext_iff_of_nodup ((nodup_groupPerms grps n).map_on hinj) (nodup_groupPerms grps n)]
  intro x
  simp only [mem_map, mem_groupPerms]
  constructor
  · rintro ⟨p, hp, rfl⟩; exact hq.comp V hp
  · intro hx
    refine ⟨gather (invPerm q) x, hq.inv.comp V hx, ?_⟩
    rw [← comp_assoc hq.inv.1 hx.1, comp_invPerm hq.1, range_comp hx.1]

/-- right translation by a member permutes the list. -/
theorem groupPerms_map_comp_right {grps : List (List Nat)} {n : Nat} (V : ValidGroups n grps) {q : List Nat}
    (hq : GroupPerm grps n q) : ((groupPerms n grps).map fun p => gather p q).Perm (groupPerms n grps) := by
  have hinj : ∀ x ∈ groupPerms n grps, ∀ y ∈ groupPerms n grps, gather x q = gather y q → x = y := by
    intro x hx y hy h
    have hx' := (mem_groupPerms.1 hx).1
    have hy' := (mem_groupPerms.1 hy).1
    have := congrArg (fun l => gather l (invPerm q)) h
    rwa [comp_assoc hq.1 hq.inv.1, comp_assoc hq.1 hq.inv.1, comp_invPerm hq.1, comp_range hx', comp_range hy'] at this
  rw [perm_ext_iff_of_nodup ((nodup_groupPerms grps n).map_on hinj) (nodup_groupPerms grps n)]
  intro x
  simp only [mem_map, mem_groupPerms]
  constructor
  · rintro ⟨p, hp, rfl⟩; exact hp.comp V hq
  · intro hx
    refine ⟨gather x (invPerm q), hx.comp V hq.inv, ?_⟩
    rw [comp_assoc hq.inv.1 hq.1, invPerm_comp hq.1, comp_range hx.1]

/-- inversion permutes the list. -/
theorem groupPerms_map_inv (grps : List (List Nat)) (n : Nat) :
    ((groupPerms n grps).map invPerm).Perm (groupPerms n grps) := by
  have hinj : ∀ x ∈ groupPerms n grps, ∀ y ∈ groupPerms n grps, invPerm x = invPerm y → x = y := by
    intro x hx y hy h
    have hx' := (mem_groupPerms.1 hx).1
    have hy' := (mem_groupPerms.1 hy).1
    rw [← invPerm_invPerm hx', ← invPerm_invPerm hy', h]
  rw [perm_ext_iff_of_nodup ((nodup_groupPerms grps n).map_on hinj) (nodup_groupPerms grps n)]
  intro x
  simp only [mem_map, mem_groupPerms]
  constructor
  · rintro ⟨p, hp, rfl⟩; exact hp.inv
  · intro hx
    exact ⟨invPerm x, hx.inv, invPerm_invPerm hx.1⟩

/-! ### what a member does on and off the groups -/

theorem GroupPerm.fix_of_not_mem {grps : List (List Nat)} {n : Nat} {p : List Nat} (hp : GroupPerm grps n p)
    {k : Nat} (hk : k < n) (h : ∀ g ∈ grps, k ∉ g) : p.getD k 0 = k := by
  rcases hp.2 k (by rw [hp.length_eq]; exact hk) with h1 | ⟨g, hg, h2, _⟩
  · exact h1
  · exact absurd h2 (h g hg)

theorem GroupPerm.mem_of_mem {grps : List (List Nat)} {n : Nat} (V : ValidGroups n grps) {p : List Nat}
    (hp : GroupPerm grps n p) {g : List Nat} (hg : g ∈ grps) {k : Nat} (hkg : k ∈ g) : p.getD k 0 ∈ g := by
  have hk : k < n := (V.1 g hg).2 k hkg
  rcases hp.2 k (by rw [hp.length_eq]; exact hk) with h1 | ⟨g', hg', h2, h3⟩
  · rw [h1]; exact hkg
  · have : g = g' := V.eq_of_mem hg hg' hkg h2
    subst this; exact h3

theorem GroupPerm.gather_perm {grps : List (List Nat)} {n : Nat} (V : ValidGroups n grps) {p : List Nat}
    (hp : GroupPerm grps n p) {g : List Nat} (hg : g ∈ grps) : (gather p g).Perm g := by
  have hgn := (V.1 g hg).1
  have hgr := (V.1 g hg).2
  have hnd : (gather p g).Nodup := by
    unfold gather
    apply hgn.map_on
    intro x hx y hy h
    exact isPermOf_getD_inj hp.1 (hgr x hx) (hgr y hy) h
  apply (subperm_of_subset hnd ?_).perm_of_length_le (by simp)
  intro x hx
  obtain ⟨k, hk, rfl⟩ := mem_gather.1 hx
  exact hp.mem_of_mem V hg hk

/-- the only member for no groups is the identity. -/
theorem groupPerm_nil_iff {n : Nat} {p : List Nat} : GroupPerm [] n p ↔ p = List.range n := by
  constructor
  · intro hp
    apply ext_getD (by simp [hp.length_eq])
    intro k hk
    rw [hp.length_eq] at hk
    rw [hp.fix_of_not_mem hk (by simp)]
    simp [List.getD_eq_getElem?_getD, hk]
  · rintro rfl; exact groupPerm_range [] n

/-! ### one group: the members are the identity with a permutation of the group written into it -/

theorem getD_range (n k : Nat) (hk : k < n) : (List.range n).getD k 0 = k := by
  simp [List.getD_eq_getElem?_getD, hk]

theorem groupPerm_scatter {n : Nat} {g c : List Nat} (hgn : g.Nodup) (hgr : ∀ m ∈ g, m < n) (hc : c.Perm g) :
    GroupPerm [g] n (scatter (List.range n) g c) := by
  have hl : g.length = c.length := hc.length_eq.symm
  have hr : ∀ m ∈ g, m < (List.range n).length := by simpa using hgr
  have hat : ∀ t, t < g.length → (scatter (List.range n) g c).getD (g.getD t 0) 0 = c.getD t 0 :=
    fun t ht => getD_scatter_of_mem _ g c hgn hl hr t ht
  have hout : ∀ m, m < n → m ∉ g → (scatter (List.range n) g c).getD m 0 = m := by
    intro m hm hmg
    rw [getD_scatter_of_not_mem _ _ _ _ hmg, getD_range n m hm]
  refine ⟨?_, ?_⟩
  · rw [isPermOf_iff]
    refine ⟨by simp, ?_⟩
    intro m hm
    by_cases hmg : m ∈ g
    · have hmc : m ∈ c := hc.symm.subset hmg
      obtain ⟨t, ht, rfl⟩ := List.getElem_of_mem hmc
      have ht' : t < g.length := by omega
      have := hat t ht'
      rw [getD0_of_lt c t ht] at this
      rw [← this]
      exact getD0_mem _ _ (by simp; exact hgr _ (getD0_mem g t ht'))
    · rw [← hout m hm hmg]
      exact getD0_mem _ _ (by simpa using hm)
  · intro k hk
    have hk' : k < n := by simpa using hk
    by_cases hkg : k ∈ g
    · right
      refine ⟨g, mem_singleton.2 rfl, hkg, ?_⟩
      obtain ⟨t, ht, rfl⟩ := List.getElem_of_mem hkg
      have e : g[t] = g.getD t 0 := (getD0_of_lt g t ht).symm
      rw [e, hat t ht]
      exact hc.subset (getD0_mem c t (by omega))
    · left; exact hout k hk' hkg

theorem GroupPerm.eq_scatter {n : Nat} {g r : List Nat} (V : ValidGroups n [g]) (hr : GroupPerm [g] n r) :
    r = scatter (List.range n) g (gather r g) := by
  have hg := V.1 g (mem_singleton.2 rfl)
  apply eq_scatter_of _ _ _ hg.1 (by simpa using hg.2) (by simp [hr.length_eq])
  intro m hm hmg
  simp only [length_range] at hm
  rw [getD_range n m hm]
  exact hr.fix_of_not_mem hm (by simpa using hmg)

/-- `c ↦ identity with c written at g` lists the members for the single group `g`. -/
theorem perm_groupPerms_single {n : Nat} {g : List Nat} (V : ValidGroups n [g]) :
    ((permsLex g).map fun c => scatter (List.range n) g c).Perm (groupPerms n [g]) := by
  have hg := V.1 g (mem_singleton.2 rfl)
  have hr : ∀ m ∈ g, m < (List.range n).length := by simpa using hg.2
  have hinj : ∀ x ∈ permsLex g, ∀ y ∈ permsLex g,
      scatter (List.range n) g x = scatter (List.range n) g y → x = y := by
    intro x hx y hy h
    have hx' := (mem_permsLex.1 hx).length_eq
    have hy' := (mem_permsLex.1 hy).length_eq
    have := congrArg (fun l => gather l g) h
    rwa [gather_scatter_self _ _ _ hg.1 hx'.symm hr, gather_scatter_self _ _ _ hg.1 hy'.symm hr] at this
  rw [perm_ext_iff_of_nodup ((nodup_permsLex hg.1).map_on hinj) (nodup_groupPerms _ n)]
  intro x
  simp only [mem_map, mem_groupPerms, mem_permsLex]
  constructor
  · rintro ⟨c, hc, rfl⟩; exact groupPerm_scatter hg.1 hg.2 hc
  · intro hx
    exact ⟨gather x g, hx.gather_perm V (mem_singleton.2 rfl), (hx.eq_scatter V).symm⟩

/-! ### an order for `g :: gs` factors uniquely into one for `[g]` and one for `gs` -/

/-- the part of `p` that acts on `g`. -/
def restrictTo (g p : List Nat) (n : Nat) : List Nat :=
  (List.range n).map fun k => if k ∈ g then p.getD k 0 else k

theorem getD_restrictTo (g p : List Nat) (n k : Nat) (hk : k < n) :
    (restrictTo g p n).getD k 0 = if k ∈ g then p.getD k 0 else k := by
  simp [restrictTo, List.getD_eq_getElem?_getD, hk]

theorem groupPerm_restrictTo {n : Nat} {g : List Nat} {gs : List (List Nat)} (V : ValidGroups n (g :: gs))
    {p : List Nat} (hp : GroupPerm (g :: gs) n p) : GroupPerm [g] n (restrictTo g p n) := by
  have hgm : g ∈ g :: gs := mem_cons_self
  refine ⟨?_, ?_⟩
  · rw [isPermOf_iff]
    refine ⟨by simp [restrictTo], ?_⟩
    intro m hm
    by_cases hmg : m ∈ g
    · have hk : (invPerm p).getD m 0 < n := isPermOf_invPerm_getD_lt hp.1 hm
      have hkg : (invPerm p).getD m 0 ∈ g := hp.inv.mem_of_mem V hgm hmg
      have h1 := getD_restrictTo g p n _ hk
      rw [if_pos hkg, getD_invPerm_getD hp.1 hm] at h1
      rw [← h1]
      exact getD0_mem _ _ (by simpa [restrictTo] using hk)
    · have h1 := getD_restrictTo g p n m hm
      rw [if_neg hmg] at h1
      rw [← h1]
      exact getD0_mem _ _ (by simpa [restrictTo] using hm)
  · intro k hk
    have hk' : k < n := by simpa [restrictTo] using hk
    rw [getD_restrictTo g p n k hk']
    by_cases hkg : k ∈ g
    · rw [if_pos hkg]
      exact Or.inr ⟨g, mem_singleton.2 rfl, hkg, hp.mem_of_mem V hgm hkg⟩
    · rw [if_neg hkg]; exact Or.inl rfl

/-- a member for `gs` fixes every mode of a group disjoint from `gs`. -/
theorem GroupPerm.fix_head {n : Nat} {g : List Nat} {gs : List (List Nat)} (V : ValidGroups n (g :: gs))
    {q : List Nat} (hq : GroupPerm gs n q) {m : Nat} (hm : m ∈ g) : q.getD m 0 = m :=
  hq.fix_of_not_mem ((V.1 g mem_cons_self).2 m hm) (fun _ hh => V.disjoint_head hh hm)

theorem decomp_exists {n : Nat} {g : List Nat} {gs : List (List Nat)} (V : ValidGroups n (g :: gs))
    {p : List Nat} (hp : GroupPerm (g :: gs) n p) :
    ∃ r q, GroupPerm [g] n r ∧ GroupPerm gs n q ∧ gather q r = p := by
  have hgm : g ∈ g :: gs := mem_cons_self
  have hr := groupPerm_restrictTo V hp
  have hr' : GroupPerm (g :: gs) n (restrictTo g p n) :=
    hr.mono (by intro h hh; simp only [mem_singleton] at hh; subst hh; exact hgm)
  have hq' : GroupPerm (g :: gs) n (gather p (invPerm (restrictTo g p n))) := hp.comp V hr'.inv
  refine ⟨restrictTo g p n, gather p (invPerm (restrictTo g p n)), hr, ⟨hq'.1, ?_⟩, ?_⟩
  · -- it fixes `g`, so it only moves inside the groups of `gs`
    have hfix : ∀ m ∈ g, (gather p (invPerm (restrictTo g p n))).getD m 0 = m := by
      intro m hmg
      have hm : m < n := (V.1 g hgm).2 m hmg
      rw [getD_comp hr.inv.1 hm]
      have hk : (invPerm (restrictTo g p n)).getD m 0 < n := isPermOf_invPerm_getD_lt hr.1 hm
      have h1 : (restrictTo g p n).getD ((invPerm (restrictTo g p n)).getD m 0) 0 = m :=
        getD_invPerm_getD hr.1 hm
      rw [getD_restrictTo g p n _ hk] at h1
      by_cases hkg : (invPerm (restrictTo g p n)).getD m 0 ∈ g
      · rwa [if_pos hkg] at h1
      · rw [if_neg hkg] at h1; rw [h1] at hkg; exact absurd hmg hkg
    intro k hk
    rcases hq'.2 k hk with h1 | ⟨g', hg', h2, h3⟩
    · exact Or.inl h1
    · rcases mem_cons.1 hg' with rfl | hg'
      · exact Or.inl (hfix k h2)
      · exact Or.inr ⟨g', hg', h2, h3⟩
  · rw [comp_assoc hr.inv.1 hr.1, invPerm_comp hr.1, comp_range hp.1]

theorem decomp_unique {n : Nat} {g : List Nat} {gs : List (List Nat)} (V : ValidGroups n (g :: gs))
    {r q r' q' : List Nat} (hr : GroupPerm [g] n r) (hq : GroupPerm gs n q)
    (hr' : GroupPerm [g] n r') (hq' : GroupPerm gs n q') (h : gather q r = gather q' r') :
    r = r' ∧ q = q' := by
  have hgm : g ∈ g :: gs := mem_cons_self
  have hrr : r = r' := by
    apply ext_getD (by rw [hr.length_eq, hr'.length_eq])
    intro k hk
    rw [hr.length_eq] at hk
    by_cases hkg : k ∈ g
    · have h1 := congrArg (fun l => l.getD k 0) h
      rw [getD_comp hr.1 hk, getD_comp hr'.1 hk,
        hq.fix_head V (hr.mem_of_mem V.head (mem_singleton.2 rfl) hkg),
        hq'.fix_head V (hr'.mem_of_mem V.head (mem_singleton.2 rfl) hkg)] at h1
      exact h1
    · rw [hr.fix_of_not_mem hk (by simpa using hkg), hr'.fix_of_not_mem hk (by simpa using hkg)]
  subst hrr
  refine ⟨rfl, ?_⟩
  have := congrArg (fun l => gather l (invPerm r)) h
  rwa [comp_assoc hr.1 hr.inv.1, comp_assoc hr.1 hr.inv.1, comp_invPerm hr.1, comp_range hq.1,
    comp_range hq'.1] at this

theorem groupPerms_cons_perm {n : Nat} {g : List Nat} {gs : List (List Nat)} (V : ValidGroups n (g :: gs)) :
    ((groupPerms n [g]).flatMap fun r => (groupPerms n gs).map fun q => gather q r).Perm
      (groupPerms n (g :: gs)) := by
  have hgm : g ∈ g :: gs := mem_cons_self
  have hnd : ((groupPerms n [g]).flatMap fun r => (groupPerms n gs).map fun q => gather q r).Nodup := by
    rw [nodup_flatMap]
    constructor
    · intro r hr
      apply (nodup_groupPerms gs n).map_on
      intro x hx y hy h
      exact (decomp_unique V (mem_groupPerms.1 hr) (mem_groupPerms.1 hx) (mem_groupPerms.1 hr)
        (mem_groupPerms.1 hy) h).2
    · refine (nodup_groupPerms [g] n).imp_of_mem ?_
      intro r r' hr hr' hne
      simp only [Function.onFun]
      intro x hx hx'
      simp only [mem_map] at hx hx'
      obtain ⟨q, hq, rfl⟩ := hx
      obtain ⟨q', hq', h⟩ := hx'
      exact hne (decomp_unique V (mem_groupPerms.1 hr) (mem_groupPerms.1 hq) (mem_groupPerms.1 hr')
        (mem_groupPerms.1 hq') h.symm).1
  rw [perm_ext_iff_of_nodup hnd (nodup_groupPerms _ n)]
  intro x
  simp only [mem_flatMap, mem_map, mem_groupPerms]
  constructor
  · rintro ⟨r, hr, q, hq, rfl⟩
    exact (hq.mono (fun h hh => mem_cons_of_mem _ hh)).comp V
      (hr.mono (by intro h hh; simp only [mem_singleton] at hh; subst hh; exact hgm))
  · intro hx
    obtain ⟨r, q, hr, hq, h⟩ := decomp_exists V hx
    exact ⟨r, hr, q, hq, h⟩

theorem length_groupPerms_cons {n : Nat} {g : List Nat} {gs : List (List Nat)} (V : ValidGroups n (g :: gs)) :
    (groupPerms n (g :: gs)).length = (groupPerms n [g]).length * (groupPerms n gs).length := by
  rw [← (groupPerms_cons_perm V).length_eq, length_flatMap]
  simp

/-! ### the rows built by the all-permutations version are the members, each once -/

theorem getD_scatter (a idx vals : List Nat) (hn : idx.Nodup) (hl : idx.length = vals.length)
    (hr : ∀ m ∈ idx, m < a.length) (m : Nat) :
    (scatter a idx vals).getD m 0 = if m ∈ idx then vals.getD (idx.idxOf m) 0 else a.getD m 0 := by
  by_cases hm : m ∈ idx
  · rw [if_pos hm]
    have ht := List.idxOf_lt_length_of_mem hm
    have := getD_scatter_of_mem a idx vals hn hl hr _ ht
    rwa [getD0_of_lt idx _ ht, List.getElem_idxOf ht] at this
  · rw [if_neg hm]; exact getD_scatter_of_not_mem _ _ _ _ hm

/-- assignments to disjoint position sets commute. -/
theorem scatter_comm (b g c h d : List Nat) (hgn : g.Nodup) (hhn : h.Nodup)
    (hgl : g.length = c.length) (hhl : h.length = d.length)
    (hgr : ∀ m ∈ g, m < b.length) (hhr : ∀ m ∈ h, m < b.length) (hdis : ∀ m ∈ g, m ∉ h) :
    scatter (scatter b g c) h d = scatter (scatter b h d) g c := by
  apply ext_getD (by simp)
  intro m _
  rw [getD_scatter _ h d hhn hhl (by simpa using hhr), getD_scatter _ g c hgn hgl hgr,
    getD_scatter _ g c hgn hgl (by simpa using hgr), getD_scatter _ h d hhn hhl hhr]
  by_cases hmg : m ∈ g
  · have := hdis m hmg
    simp [hmg, this]
  · simp [hmg]

theorem symPermsFrom_scatter (g c : List Nat) (hgn : g.Nodup) (hgl : g.length = c.length) :
    ∀ (gs : List (List Nat)) (b : List Nat), (∀ m ∈ g, m < b.length) →
      (∀ h ∈ gs, h.Nodup ∧ (∀ m ∈ h, m < b.length) ∧ ∀ m ∈ g, m ∉ h) →
      symPermsFrom (scatter b g c) gs = (symPermsFrom b gs).map (fun q => scatter q g c) := by
  intro gs
  induction gs with
  | nil => intro b _ _; rfl
  | cons h hs ih =>
    intro b hgr hall
    have hh := hall h mem_cons_self
    simp only [symPermsFrom, map_flatMap]
    apply flatMap_congr
    intro d hd
    have hdl : h.length = d.length := (length_of_mem_permsLex hd).symm
    rw [scatter_comm b g c h d hgn hh.1 hgl hdl hgr hh.2.1 hh.2.2]
    apply ih
    · simpa using hgr
    · intro h' hh'
      have := hall h' (mem_cons_of_mem _ hh')
      exact ⟨this.1, by simpa using this.2.1, this.2.2⟩

/-- writing `c` into a list that fixes `g` is composing with the single-group member. -/
theorem scatter_eq_comp {n : Nat} {g c q : List Nat} (hgn : g.Nodup) (hgr : ∀ m ∈ g, m < n)
    (hc : c.Perm g) (hql : q.length = n) (hfix : ∀ m ∈ g, q.getD m 0 = m) :
    scatter q g c = gather q (scatter (List.range n) g c) := by
  have hl : g.length = c.length := hc.length_eq.symm
  apply ext_getD (by simp [hql])
  intro m hm
  simp only [length_scatter, hql] at hm
  rw [getD_gather _ _ _ (by simpa using hm), getD_scatter _ g c hgn hl (by simpa [hql] using hgr),
    getD_scatter _ g c hgn hl (by simpa using hgr)]
  by_cases hmg : m ∈ g
  · rw [if_pos hmg, if_pos hmg]
    have : c.getD (idxOf m g) 0 ∈ g :=
      hc.subset (getD0_mem c _ (by rw [← hl]; exact List.idxOf_lt_length_of_mem hmg))
    rw [hfix _ this]
  · rw [if_neg hmg, if_neg hmg, getD_range n m hm]

theorem symPerms_perm {n : Nat} : ∀ {grps : List (List Nat)}, ValidGroups n grps →
    (symPermsFrom (List.range n) grps).Perm (groupPerms n grps) := by
  intro grps
  induction grps with
  | nil =>
    intro _
    simp only [symPermsFrom]
    rw [perm_ext_iff_of_nodup (by simp) (nodup_groupPerms _ n)]
    intro x
    simp only [mem_singleton, mem_groupPerms, groupPerm_nil_iff]
  | cons g gs ih =>
    intro V
    have hg := V.1 g mem_cons_self
    have ihp := ih V.tail
    have h1 : symPermsFrom (List.range n) (g :: gs) =
        (permsLex g).flatMap fun c => (symPermsFrom (List.range n) gs).map
          fun q => gather q (scatter (List.range n) g c) := by
      simp only [symPermsFrom]
      apply flatMap_congr
      intro c hc
      have hcp := mem_permsLex.1 hc
      rw [symPermsFrom_scatter g c hg.1 hcp.length_eq.symm gs (List.range n) (by simpa using hg.2)]
      · apply map_congr_left
        intro q hq
        have hq' : GroupPerm gs n q := mem_groupPerms.1 (ihp.subset hq)
        exact scatter_eq_comp hg.1 hg.2 hcp hq'.length_eq (fun m hm => hq'.fix_head V hm)
      · intro h hh
        have := V.1 h (mem_cons_of_mem _ hh)
        exact ⟨this.1, by simpa using this.2, fun m hm => V.disjoint_head hh hm⟩
    rw [h1]
    have h2 : ((permsLex g).flatMap fun c => (symPermsFrom (List.range n) gs).map
          fun q => gather q (scatter (List.range n) g c)).Perm
        ((permsLex g).flatMap fun c => (groupPerms n gs).map
          fun q => gather q (scatter (List.range n) g c)) :=
      Perm.flatMap_left _ (fun c _ => ihp.map _)
    refine h2.trans ?_
    have h3 : ((permsLex g).flatMap fun c => (groupPerms n gs).map
          fun q => gather q (scatter (List.range n) g c)) =
        (((permsLex g).map fun c => scatter (List.range n) g c).flatMap fun r =>
          (groupPerms n gs).map fun q => gather q r) := by
      rw [flatMap_map]
    rw [h3]
    exact (Perm.flatMap_right _ (perm_groupPerms_single V.head)).trans (groupPerms_cons_perm V)

theorem length_symPermsFrom : ∀ (gs : List (List Nat)) (b : List Nat),
    (symPermsFrom b gs).length = (gs.map fun g => (permsLex g).length).foldl (· * ·) 1 := by
  intro gs
  induction gs with
  | nil => intro b; rfl
  | cons g gs ih =>
    intro b
    simp only [symPermsFrom, length_flatMap, ih, map_cons]
    rw [← List.prod_eq_foldl, ← List.prod_eq_foldl, prod_cons]
    simp

end Sym
end Pyttb
