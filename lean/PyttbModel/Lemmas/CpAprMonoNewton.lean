/-
Lemmas for C11 (CP-APR), part 13: PDNR / PQNR never decrease the likelihood of the model tensor
while their safeguards are inactive — for ANY search direction.
-/
import PyttbModel.Lemmas.CpAprMonoMu
set_option linter.unusedSectionVars false
set_option linter.unusedVariables false
namespace Pyttb.CpApr
open Pyttb.CpApr.Gen

variable {α : Type} [Field α] [LinearOrder α] [IsStrictOrderedRing α]
variable (log : α → α)

/-! ### one line search -/

theorem project_of_nonneg {v : α} (h : 0 ≤ v) : project (NumOps.ofField log).gt0 v = v := by
  unfold project NumOps.gt0 NumOps.ofField
  simp only [decide_eq_true_eq]
  split
  · rw [mul_one]
  · next hn => rw [mul_zero]; exact le_antisymm (not_lt.mp hn) h |>.symm

theorem rowPhi_nonneg {eps : α} (heps : 0 < eps) {x : List α} {Pi : Mat α} (hx : NonnegL x)
    (hPi : NonnegM Pi) (m : List α) (R : Nat) : NonnegL (rowPhi (NumOps.ofField log) eps x Pi m R) := by
  intro v hv
  unfold rowPhi at hv
  simp only [List.mem_map] at hv
  obtain ⟨r, _, rfl⟩ := hv
  apply sumOver_nonneg
  intro j
  exact mul_nonneg (div_max_nonneg log (vget_nonneg hx j) heps) (get_nonneg hPi j r)

/-- The row the projected line search returns is not worse than the row it started from — for
ANY direction and gradient — when the `epsDivZero` clamp is inactive at the old row (needed only
for its multiplicative fall-back).  The loop cannot "exhaust its steps and still accept": an
exhausted loop returns its last trial only if that trial is not worse, otherwise the fall-back. -/
theorem lineSearch_not_worse (hlog : LogLaws log) (c : Consts α) (hc : 0 ≤ c.suffDecr) {eps : α}
    (heps : 0 < eps) (sparse : Bool) (dir grad mOld x : List α) (Pi : Mat α) (R : Nat)
    (hm : NonnegL mOld) (hPi : NonnegM Pi) (hx : NonnegL x)
    (hcl : clampFreeRow eps Pi mOld R = true) :
    rowNegLL (NumOps.ofField log) sparse x Pi
        (lineSearch (NumOps.ofField log) c sparse dir grad mOld x Pi
          (rowPhi (NumOps.ofField log) eps x Pi mOld R) R) R ≤
      rowNegLL (NumOps.ofField log) sparse x Pi mOld R := by
  rcases lineSearch_descent log c hc sparse dir grad mOld x Pi
      (rowPhi (NumOps.ofField log) eps x Pi mOld R) R with h | h
  · rw [h]
    have e : ((List.range R).map fun k => project (NumOps.ofField log).gt0
          (lsFallback (vget mOld k) (vget (rowPhi (NumOps.ofField log) eps x Pi mOld R) k))) =
        (List.range R).map fun k =>
          lsFallback (vget mOld k) (vget (rowPhi (NumOps.ofField log) eps x Pi mOld R) k) := by
      apply List.map_congr_left
      intro k _
      apply project_of_nonneg
      exact mul_nonneg (vget_nonneg hm k) (vget_nonneg (rowPhi_nonneg log heps hx hPi mOld R) k)
    rw [e]
    exact mu_step_not_worse log hlog.le_sub_one hlog.mul eps sparse x Pi mOld R hm hPi hx
      (clampFreeRow_spec hcl)
  · exact h

/-! ### the row loops -/

/-- The clamp is inactive at every row from which PDNR's row loop starts a line search. -/
def pdnrRowSafe (c : Consts α) (cfg : Cfg α) (dir : Nat → List α → List α → Option (List α))
    (sparse : Bool) (x : List α) (Pi : Mat α) (R : Nat) : Nat → Nat → RowSt α → Bool
  | 0, _, _ => true
  | fuel + 1, i, s =>
    let o := NumOps.ofField log
    let phi := rowPhi o cfg.eps x Pi s.m R
    let g := phi.map rowGrad
    let k := rowKkt o s.m g R
    let km := if i == 0 && o.lt s.kktMode k then k else s.kktMode
    if o.lt k cfg.stoptol then true
    else
      match dir i s.m g with
      | none => true
      | some d =>
        clampFreeRow cfg.eps Pi s.m R &&
        pdnrRowSafe c cfg dir sparse x Pi R fuel (i + 1)
          ⟨lineSearch o c sparse d g s.m x Pi phi R, km, true, i⟩

theorem pdnrRow_mono (hlog : LogLaws log) (c : Consts α) (hc : 0 ≤ c.suffDecr) (cfg : Cfg α)
    (heps : 0 < cfg.eps) (dir : Nat → List α → List α → Option (List α)) (sparse : Bool) (x : List α)
    (Pi : Mat α) (R : Nat) (hPi : NonnegM Pi) (hx : NonnegL x) :
    ∀ (fuel i : Nat) (s r : RowSt α), NonnegL s.m →
      pdnrRowSafe log c cfg dir sparse x Pi R fuel i s = true →
      pdnrRow (NumOps.ofField log) c cfg dir sparse x Pi R fuel i s = some r →
      NonnegL r.m ∧ rowNegLL (NumOps.ofField log) sparse x Pi r.m R ≤
        rowNegLL (NumOps.ofField log) sparse x Pi s.m R := by
  intro fuel
  induction fuel with
  | zero => intro i s r hs _ h; simp only [pdnrRow] at h; cases h; exact ⟨hs, le_rfl⟩
  | succ fuel ih =>
    intro i s r hs hsafe h
    simp only [pdnrRow] at h
    simp only [pdnrRowSafe] at hsafe
    split at h
    · cases h; exact ⟨hs, le_rfl⟩
    · next hk =>
      rw [if_neg hk] at hsafe
      split at h
      · cases h
      · next d hd =>
        rw [hd] at hsafe
        rw [Bool.and_eq_true] at hsafe
        have hnext := ih _ _ r (lineSearch_inv log c sparse d _ s.m x Pi _ R).1 hsafe.2 h
        exact ⟨hnext.1, le_trans hnext.2
          (lineSearch_not_worse log hlog c hc heps sparse d _ s.m x Pi R hs hPi hx hsafe.1)⟩

/-- PQNR: additionally the gradient step that primes L-BFGS at `i == 0` is a line search. -/
def pqnrRowSafe (c : Consts α) (cfg : Cfg α) (dir : Nat → List α → List α → Option (List α))
    (sparse : Bool) (x : List α) (Pi : Mat α) (R : Nat) : Nat → Nat → RowSt α → Bool
  | 0, _, _ => true
  | fuel + 1, i, s =>
    let o := NumOps.ofField log
    let p := pqnrPrime o c cfg sparse x Pi R i s.m
    let g1 := p.2.map rowGrad
    let k := rowKkt o p.1 g1 R
    let km := if i == 0 && o.lt s.kktMode k then k else s.kktMode
    (!(i == 0) || clampFreeRow cfg.eps Pi s.m R) &&
    (if o.lt k cfg.stoptol then true
     else
      match dir i p.1 g1 with
      | none => true
      | some d =>
        clampFreeRow cfg.eps Pi p.1 R &&
        pqnrRowSafe c cfg dir sparse x Pi R fuel (i + 1)
          ⟨lineSearch o c sparse d g1 p.1 x Pi p.2 R, km, true, i⟩)

theorem pqnrPrime_mono (hlog : LogLaws log) (c : Consts α) (hc : 0 ≤ c.suffDecr) (cfg : Cfg α)
    (heps : 0 < cfg.eps) (sparse : Bool) (x : List α) (Pi : Mat α) (R i : Nat) (m : List α)
    (hPi : NonnegM Pi) (hx : NonnegL x) (hm : NonnegL m)
    (hcl : (!(i == 0) || clampFreeRow cfg.eps Pi m R) = true) :
    NonnegL (pqnrPrime (NumOps.ofField log) c cfg sparse x Pi R i m).1 ∧
    (pqnrPrime (NumOps.ofField log) c cfg sparse x Pi R i m).2 =
      rowPhi (NumOps.ofField log) cfg.eps x Pi (pqnrPrime (NumOps.ofField log) c cfg sparse x Pi R i m).1 R ∧
    rowNegLL (NumOps.ofField log) sparse x Pi (pqnrPrime (NumOps.ofField log) c cfg sparse x Pi R i m).1 R ≤
      rowNegLL (NumOps.ofField log) sparse x Pi m R := by
  unfold pqnrPrime
  simp only
  split
  · next hi =>
    rw [hi] at hcl
    simp only [Bool.not_true, Bool.false_or] at hcl
    exact ⟨(lineSearch_inv log c sparse _ _ m x Pi _ R).1, rfl,
      lineSearch_not_worse log hlog c hc heps sparse _ _ m x Pi R hm hPi hx hcl⟩
  · exact ⟨hm, rfl, le_rfl⟩

theorem pqnrRow_mono (hlog : LogLaws log) (c : Consts α) (hc : 0 ≤ c.suffDecr) (cfg : Cfg α)
    (heps : 0 < cfg.eps) (dir : Nat → List α → List α → Option (List α)) (sparse : Bool) (x : List α)
    (Pi : Mat α) (R : Nat) (hPi : NonnegM Pi) (hx : NonnegL x) :
    ∀ (fuel i : Nat) (s r : RowSt α), NonnegL s.m →
      pqnrRowSafe log c cfg dir sparse x Pi R fuel i s = true →
      pqnrRow (NumOps.ofField log) c cfg dir sparse x Pi R fuel i s = some r →
      NonnegL r.m ∧ rowNegLL (NumOps.ofField log) sparse x Pi r.m R ≤
        rowNegLL (NumOps.ofField log) sparse x Pi s.m R := by
  intro fuel
  induction fuel with
  | zero => intro i s r hs _ h; simp only [pqnrRow] at h; cases h; exact ⟨hs, le_rfl⟩
  | succ fuel ih =>
    intro i s r hs hsafe h
    simp only [pqnrRow] at h
    simp only [pqnrRowSafe] at hsafe
    rw [Bool.and_eq_true] at hsafe
    obtain ⟨hprime, hrest⟩ := hsafe
    obtain ⟨hp1, hp2, hp3⟩ := pqnrPrime_mono log hlog c hc cfg heps sparse x Pi R i s.m hPi hx hs hprime
    split at h
    · cases h; exact ⟨hp1, hp3⟩
    · next hk =>
      rw [if_neg hk] at hrest
      split at h
      · cases h
      · next d hd =>
        rw [hd] at hrest
        rw [Bool.and_eq_true] at hrest
        have hnext := ih _ _ r (lineSearch_inv log c sparse d _ _ x Pi _ R).1 hrest.2 h
        refine ⟨hnext.1, le_trans hnext.2 (le_trans ?_ hp3)⟩
        have := lineSearch_not_worse log hlog c hc heps sparse d
          ((pqnrPrime (NumOps.ofField log) c cfg sparse x Pi R i s.m).2.map rowGrad)
          (pqnrPrime (NumOps.ofField log) c cfg sparse x Pi R i s.m).1 x Pi R hp1 hPi hx hrest.1
        rw [← hp2] at this
        exact this

/-! ### the loop over the rows of one mode -/

theorem rowNegLL_zero_x (sparse : Bool) {x : List α} (hx : ∀ j, vget x j = 0) (Pi : Mat α) (m : List α)
    (R : Nat) : rowNegLL (NumOps.ofField log) sparse x Pi m R = ∑ r ∈ Finset.range R, vget m r := by
  rw [rowNegLL_eq]
  have : ∑ j ∈ Finset.range Pi.length, vget x j * log (rowV Pi m R j) = 0 := by
    apply Finset.sum_eq_zero
    intro j _
    rw [hx j, zero_mul]
  rw [this, sub_zero]

theorem vget_replicate_zero (R k : Nat) : vget (List.replicate R (0 : α)) k = 0 := by
  unfold vget
  rw [List.getD_eq_getElem?_getD]
  rw [List.getElem?_replicate]
  split <;> rfl

theorem rowEmpty_vget {md : ModeData α} {x : List α}
    (h : rowEmpty (NumOps.ofField log) md x = true) : ∀ j, vget x j = 0 := by
  intro j
  unfold vget
  rw [List.getD_eq_getElem?_getD]
  cases hj : x[j]? with
  | none => rfl
  | some v =>
    have hmem := List.mem_of_getElem? hj
    cases md with
    | dense Xn Pi =>
      unfold rowEmpty at h
      simp only [List.all_eq_true] at h
      have := h v hmem
      simpa [NumOps.ofField] using this
    | sparse S =>
      unfold rowEmpty at h
      simp only [List.isEmpty_iff] at h
      rw [h] at hmem
      simp at hmem

theorem getD_set_row (A : Mat α) (jj i : Nat) (row : List α) :
    (A.set jj row).getD i [] = if i = jj ∧ jj < A.length then row else A.getD i [] := by
  rw [List.getD_eq_getElem?_getD, List.getElem?_set, List.getD_eq_getElem?_getD]
  by_cases h1 : jj = i
  · subst h1
    by_cases h2 : jj < A.length
    · simp [h2]
    · simp [h2, List.getElem?_eq_none (Nat.le_of_not_lt h2)]
  · have : ¬ (i = jj ∧ jj < A.length) := fun h => h1 h.1.symm
    simp [h1, this]

/-- Safeguards inactive while row `jj` is processed. -/
def nwRowSafe (c : Consts α) (cfg : Cfg α) (alg : Alg) (dir : Dir α) (md : ModeData α)
    (K : Ktensor α) (iteration n : Nat) (acc : RowsAcc α) (jj : Nat) : Bool :=
  let o := NumOps.ofField log
  let R := K.weights.length
  let xp := rowData md K n jj
  if rowEmpty o md xp.1 then true
  else
    let s0 : RowSt α := ⟨acc.A.getD jj [], acc.kktMode, false, 0⟩
    match alg with
    | .pqnr => pqnrRowSafe log c cfg (dir iteration n jj) (mdSparse md) xp.1 xp.2 R cfg.maxinner 0 s0
    | _ =>
      pdnrRowSafe log c cfg (dir iteration n jj) (mdSparse md) xp.1 xp.2 R
        (if cfg.inexact && iteration == c.inexactIteration then c.inexactInner else cfg.maxinner) 0 s0

theorem nwRow_mono (hlog : LogLaws log) (c : Consts α) (hc : 0 ≤ c.suffDecr) (cfg : Cfg α)
    (heps : 0 < cfg.eps) (alg : Alg) (dir : Dir α) (md : ModeData α) (hmd : NonnegMD md)
    (K : Ktensor α) (hK : NonnegK K) (iteration n : Nat) (acc : RowsAcc α) (jj : Nat) (acc' : RowsAcc α)
    (hacc : NonnegM acc.A)
    (hsafe : nwRowSafe log c cfg alg dir md K iteration n acc jj = true)
    (h : nwRow (NumOps.ofField log) c cfg alg dir md K iteration n acc jj = .ok acc') :
    NonnegM acc'.A ∧
    ∀ i, rowObj log md K n K.weights.length acc'.A i ≤ rowObj log md K n K.weights.length acc.A i := by
  obtain ⟨hx, hPi⟩ := rowData_nonneg hmd hK n jj
  unfold nwRow at h
  unfold nwRowSafe at hsafe
  simp only at h hsafe
  split at h
  · next hempty =>
    cases h
    refine ⟨nonnegM_set hacc (fun v hv => by rw [List.mem_replicate] at hv; exact hv.2 ▸ le_rfl), ?_⟩
    intro i
    unfold rowObj
    simp only
    rw [getD_set_row]
    split
    · next hij =>
      rw [hij.1, rowNegLL_zero_x log _ (rowEmpty_vget log hempty), rowNegLL_zero_x log _ (rowEmpty_vget log hempty)]
      rw [Finset.sum_eq_zero (fun r _ => vget_replicate_zero _ r)]
      exact Finset.sum_nonneg fun r _ => vget_nonneg (getD_row_nonneg hacc jj) r
    · exact le_rfl
  · next hne =>
    rw [if_neg hne] at hsafe
    split at h
    · cases h
    · next r hr =>
      cases h
      have hs0 : NonnegL (acc.A.getD jj []) := getD_row_nonneg hacc jj
      have hrow : NonnegL r.m ∧ rowNegLL (NumOps.ofField log) (mdSparse md) (rowData md K n jj).1
          (rowData md K n jj).2 r.m K.weights.length ≤
          rowNegLL (NumOps.ofField log) (mdSparse md) (rowData md K n jj).1 (rowData md K n jj).2
            (acc.A.getD jj []) K.weights.length := by
        cases alg with
        | pqnr => exact pqnrRow_mono log hlog c hc cfg heps _ _ _ _ _ hPi hx _ _ _ r hs0 hsafe hr
        | mu => exact pdnrRow_mono log hlog c hc cfg heps _ _ _ _ _ hPi hx _ _ _ r hs0 hsafe hr
        | pdnr => exact pdnrRow_mono log hlog c hc cfg heps _ _ _ _ _ hPi hx _ _ _ r hs0 hsafe hr
      refine ⟨nonnegM_set hacc hrow.1, ?_⟩
      intro i
      unfold rowObj
      simp only
      rw [getD_set_row]
      split
      · next hij => rw [hij.1]; exact hrow.2
      · exact le_rfl

/-! ### one mode, one outer iteration, whole runs -/

/-- Safeguards inactive while PDNR / PQNR process mode `n`: the clamp is inactive at every row from
which a line search starts, and no column norm of the closing `normalize` is zero. -/
def nwModeSafe (c : Consts α) (cfg : Cfg α) (alg : Alg) (dir : Dir α) (X : Data α) (iteration : Nat)
    (s : NwIt α) (n : Nat) : Bool :=
  let o := NumOps.ofField log
  let M1 := redistribute s.M n
  let A := factor M1 n
  match modeData X M1 n with
  | .error _ => true
  | .ok md =>
    foldSafe (nwRow o c cfg alg dir md M1 iteration n) (nwRowSafe log c cfg alg dir md M1 iteration n)
      (List.range A.length) ⟨A, vget s.kktMode n, false, 0⟩ &&
    (match foldE (nwRow o c cfg alg dir md M1 iteration n) (List.range A.length)
        ⟨A, vget s.kktMode n, false, 0⟩ with
      | .ok r => normPos log (setFactor M1 n r.A) n
      | .error _ => true)

theorem nwMode_mono (hlog : LogLaws log) (c : Consts α) (hc : 0 ≤ c.suffDecr) (cfg : Cfg α)
    (heps : 0 < cfg.eps) (alg : Alg) (dir : Dir α) (X : Data α) (hX : DataWF X) (hXn : NonnegData X)
    (hpos : ∀ e ∈ X.shape, 0 < e) (iteration : Nat) {R : Nat} (s : NwIt α) (n : Nat) (s' : NwIt α)
    (hn : n < X.shape.length) (hs : Good X.shape R s.M)
    (hsafe : nwModeSafe log c cfg alg dir X iteration s n = true)
    (h : nwMode (NumOps.ofField log) c cfg alg dir X iteration s n = .ok s') :
    Good X.shape R s'.M ∧ negLL log X s'.M ≤ negLL log X s.M := by
  obtain ⟨hnn, hsh, hcols⟩ := hs
  have hN := nfactors_of_shape hsh
  unfold nwModeSafe at hsafe
  unfold nwMode at h
  simp only at h hsafe
  have hM2nn := redistribute_nonneg hnn n
  have hM2sh := redistribute_shape hsh n
  have hM2N : (redistribute s.M n).factors.length = s.M.factors.length := redistribute_nfactors _ _
  have hnK : n < s.M.factors.length := hN ▸ hn
  have hM2c : ColsOneBut (redistribute s.M n) n := by
    intro m hm hne r hr
    rw [redistribute_factor_ne s.M (Ne.symm hne)]
    exact hcols m (hM2N ▸ hm) r (by rw [hsh.1, ← hM2sh.1]; exact hr)
  have hM2ll : negLL log X (redistribute s.M n) = negLL log X s.M :=
    negLL_congr log hX fun i hi => redistribute_get s.M n hnK i (by rw [hN]; exact hi)
  split at h
  · cases h
  · next md hmd =>
    rw [hmd] at hsafe
    simp only at hsafe
    split at h
    · cases h
    · next r hr =>
      cases h
      rw [hr, Bool.and_eq_true] at hsafe
      obtain ⟨hrowsafe, hnorm⟩ := hsafe
      have hmdnn := modeData_nonneg hXn hM2nn hmd
      have hA0 : IsMat (factor (redistribute s.M n) n).length (redistribute s.M n).weights.length
          (factor (redistribute s.M n) n) := ⟨rfl, hM2sh.1 ▸ factor_isMat hM2sh n⟩
      have hrA : IsMat (factor (redistribute s.M n) n).length (redistribute s.M n).weights.length r.A :=
        foldE_inv (fun a : RowsAcc α => IsMat (factor (redistribute s.M n) n).length
            (redistribute s.M n).weights.length a.A) _
          (fun a x a' ha hh => nwRow_shape log c cfg alg dir md _ iteration n _ a x a' ha hh)
          _ _ _ hA0 hr
      have hrows : NonnegM r.A ∧ ∀ i,
          rowObj log md (redistribute s.M n) n (redistribute s.M n).weights.length r.A i ≤
          rowObj log md (redistribute s.M n) n (redistribute s.M n).weights.length
            (factor (redistribute s.M n) n) i :=
        by
          have hstep : ∀ (a : RowsAcc α) (x : Nat) (a' : RowsAcc α),
              x ∈ List.range (factor (redistribute s.M n) n).length →
              (NonnegM a.A ∧ ∀ i,
                rowObj log md (redistribute s.M n) n (redistribute s.M n).weights.length a.A i ≤
                rowObj log md (redistribute s.M n) n (redistribute s.M n).weights.length
                  (factor (redistribute s.M n) n) i) →
              nwRowSafe log c cfg alg dir md (redistribute s.M n) iteration n a x = true →
              nwRow (NumOps.ofField log) c cfg alg dir md (redistribute s.M n) iteration n a x = .ok a' →
              (NonnegM a'.A ∧ ∀ i,
                rowObj log md (redistribute s.M n) n (redistribute s.M n).weights.length a'.A i ≤
                rowObj log md (redistribute s.M n) n (redistribute s.M n).weights.length
                  (factor (redistribute s.M n) n) i) := by
            intro a x a' _ ha hsf hh
            have := nwRow_mono log hlog c hc cfg heps alg dir md hmdnn _ hM2nn iteration n a x a' ha.1 hsf hh
            exact ⟨this.1, fun i => le_trans (this.2 i) (ha.2 i)⟩
          exact foldE_safe_inv (fun a : RowsAcc α => NonnegM a.A ∧ ∀ i,
              rowObj log md (redistribute s.M n) n (redistribute s.M n).weights.length a.A i ≤
              rowObj log md (redistribute s.M n) n (redistribute s.M n).weights.length
                (factor (redistribute s.M n) n) i)
            (nwRow (NumOps.ofField log) c cfg alg dir md (redistribute s.M n) iteration n)
            (nwRowSafe log c cfg alg dir md (redistribute s.M n) iteration n)
            (List.range (factor (redistribute s.M n) n).length) hstep
            ⟨factor (redistribute s.M n) n, vget s.kktMode n, false, 0⟩ r
            ⟨factor_nonneg hM2nn n, fun i => le_rfl⟩ hrowsafe hr
      have hR2 : (redistribute s.M n).weights.length = R := hM2sh.1
      have hnM2 : n < (redistribute s.M n).factors.length := hM2N ▸ hnK
      have hdec := fun A hA => negLL_setFactor_rows log X (redistribute s.M n) n hM2sh hnM2 hX hpos
        (redistribute_unit s.M n) hM2c md hmd A hA
      have hll1 : negLL log X (setFactor (redistribute s.M n) n r.A) ≤ negLL log X s.M := by
        rw [hdec r.A (hR2 ▸ hrA), ← hM2ll]
        conv_rhs => rw [← setFactor_self (redistribute s.M n) n]
        rw [hdec _ (hR2 ▸ hA0)]
        apply sumOver_le
        intro i _
        rw [← hR2]
        exact hrows.2 i
      have hSnn : NonnegK (setFactor (redistribute s.M n) n r.A) := by
        unfold setFactor; exact nonnegK_set hM2nn.1 hM2nn.2 hrows.1
      have hSsh : ShapeK X.shape R (setFactor (redistribute s.M n) n r.A) := by
        unfold setFactor; exact shapeK_set hM2sh hM2sh.1 hrA.1 (hR2 ▸ hrA.2)
      have hSN : (setFactor (redistribute s.M n) n r.A).factors.length = s.M.factors.length := by
        simp [setFactor, hM2N]
      have hnS : n < (setFactor (redistribute s.M n) n r.A).factors.length := hSN ▸ hnK
      refine ⟨⟨normalizeMode_nonneg log hSnn n, normalizeMode_shape _ hSsh n, ?_⟩, ?_⟩
      · intro m hm r' hr'
        rw [normalizeMode_nfactors] at hm
        rw [normalizeMode_nweights] at hr'
        by_cases hmn : m = n
        · subst hmn
          apply normalizeMode_colSum_self log hSnn hnS hr'
          unfold normPos at hnorm
          rw [List.all_eq_true] at hnorm
          simpa using hnorm r' (List.mem_range.mpr hr')
        · rw [normalizeMode_factor_ne _ _ (Ne.symm hmn), setFactor_factor_ne _ (Ne.symm hmn),
            redistribute_factor_ne _ (Ne.symm hmn)]
          exact hcols m (hSN ▸ hm) r' (by rw [hsh.1, ← hSsh.1]; exact hr')
      · refine le_trans (le_of_eq ?_) hll1
        exact negLL_congr log hX fun i hi =>
          normalizeMode_get log _ n hnS i (by rw [hSN, hN]; exact hi)

/-- Safeguards inactive during one outer iteration of PDNR / PQNR. -/
def nwOuterSafe (c : Consts α) (cfg : Cfg α) (alg : Alg) (dir : Dir α) (X : Data α) (s : NwSt α) : Bool :=
  if s.done || decide (cfg.maxiters ≤ s.iter) then true
  else foldSafe (nwMode (NumOps.ofField log) c cfg alg dir X s.iter)
    (nwModeSafe log c cfg alg dir X s.iter) (List.range s.M.factors.length)
    ⟨s.M, s.M.factors.map fun _ => 0, true, 0⟩

theorem nwOuter_mono (hlog : LogLaws log) (c : Consts α) (hc : 0 ≤ c.suffDecr) (cfg : Cfg α)
    (heps : 0 < cfg.eps) (alg : Alg) (dir : Dir α) (X : Data α) (hX : DataWF X) (hXn : NonnegData X)
    (hpos : ∀ e ∈ X.shape, 0 < e) {R : Nat} (s s' : NwSt α) (hs : Good X.shape R s.M)
    (hsafe : nwOuterSafe log c cfg alg dir X s = true)
    (h : nwOuter (NumOps.ofField log) c cfg alg dir X s = .ok s') :
    Good X.shape R s'.M ∧ negLL log X s'.M ≤ negLL log X s.M := by
  unfold nwOuter at h
  unfold nwOuterSafe at hsafe
  split at h
  · cases h; exact ⟨hs, le_rfl⟩
  · next hcnd =>
    rw [if_neg hcnd] at hsafe
    split at h
    · cases h
    · next it hit =>
      cases h
      have hN := nfactors_of_shape hs.2.1
      exact foldE_safe_inv (fun a : NwIt α => Good X.shape R a.M ∧ negLL log X a.M ≤ negLL log X s.M)
        _ _ _ (fun a n a' hn ha hsf hh => by
          have := nwMode_mono log hlog c hc cfg heps alg dir X hX hXn hpos _ a n a'
            (by rw [← hN]; exact List.mem_range.mp hn) ha.1 hsf hh
          exact ⟨this.1, le_trans this.2 ha.2⟩) _ _ ⟨hs, le_rfl⟩ hsafe hit

/-- The zero-row patch does nothing: no row of the guess sums to zero. -/
def noZeroRow (K : Ktensor α) : Bool :=
  K.factors.all fun A => A.all fun row => !(NumOps.ofField log).isZero row.sum

theorem zeroRowPatch_inactive (c : Consts α) {K : Ktensor α} (h : noZeroRow log K = true) :
    zeroRowPatch (NumOps.ofField log) c K = K := by
  unfold zeroRowPatch
  unfold noZeroRow at h
  rw [List.all_eq_true] at h
  have : (K.factors.map fun A => A.map fun row =>
      if (NumOps.ofField log).isZero row.sum then row.set 0 c.zeroRowFill else row) = K.factors := by
    conv_rhs => rw [← List.map_id K.factors]
    apply List.map_congr_left
    intro A hA
    have hA' := h A hA
    rw [List.all_eq_true] at hA'
    conv_rhs => rw [id, ← List.map_id A]
    apply List.map_congr_left
    intro row hrow
    have := hA' row hrow
    simp only [Bool.not_eq_true'] at this
    rw [this]
    rfl
  rw [this]

/-- SAFEGUARDS INACTIVE on the first `k` outer iterations of a PDNR / PQNR run from `init` with the
direction service `dir`: no all-zero row in the guess (zero-row patch inactive), no zero column in
the normalised guess, and in every mode of every iteration the `epsDivZero` clamp is inactive at
every row from which a line search starts and no column norm of the closing `normalize` is zero. -/
def nwRunSafe (c : Consts α) (cfg : Cfg α) (alg : Alg) (dir : Dir α) (X : Data α) (init : Ktensor α)
    (k : Nat) : Bool :=
  noZeroRow log init && colsOneB (normalize1 (NumOps.ofField log) init) &&
  iterSafe (nwOuter (NumOps.ofField log) c cfg alg dir X) (nwOuterSafe log c cfg alg dir X) k
    (nwInit (NumOps.ofField log) c init)

theorem nwRun_mono (hlog : LogLaws log) (c : Consts α) (hc : 0 ≤ c.suffDecr) (cfg : Cfg α)
    (heps : 0 < cfg.eps) (alg : Alg) (dir : Dir α) (X : Data α) (hX : DataWF X) (hXn : NonnegData X)
    (hpos : ∀ e ∈ X.shape, 0 < e) {R : Nat} (init : Ktensor α) (hinn : NonnegK init)
    (hish : ShapeK X.shape R init) (k : Nat) (s : NwSt α)
    (hsafe : nwRunSafe log c cfg alg dir X init k = true)
    (h : nwStates (NumOps.ofField log) c cfg alg dir X init k = .ok s) :
    Good X.shape R s.M ∧ negLL log X s.M ≤ negLL log X (normalize1 (NumOps.ofField log) init) := by
  unfold nwRunSafe at hsafe
  rw [Bool.and_eq_true, Bool.and_eq_true] at hsafe
  obtain ⟨⟨hz, hco⟩, hiter⟩ := hsafe
  unfold nwStates at h
  have hinit : nwInit (NumOps.ofField log) c init =
      ⟨normalize1 (NumOps.ofField log) init, [], [], 0, false⟩ := by
    unfold nwInit; rw [zeroRowPatch_inactive log c hz]
  rw [hinit] at h hiter
  have h0 : Good X.shape R (normalize1 (NumOps.ofField log) init) :=
    ⟨normalize1_nonneg log hinn, normalize1_shape _ hish, colsOneB_spec hco⟩
  have hstep : ∀ s0 a a' : NwSt α,
      (Good X.shape R a.M ∧ negLL log X a.M ≤ negLL log X s0.M) →
      nwOuterSafe log c cfg alg dir X a = true →
      nwOuter (NumOps.ofField log) c cfg alg dir X a = .ok a' →
      (Good X.shape R a'.M ∧ negLL log X a'.M ≤ negLL log X s0.M) := by
    intro s0 a a' ha hsf hh
    have := nwOuter_mono log hlog c hc cfg heps alg dir X hX hXn hpos a a' ha.1 hsf hh
    exact ⟨this.1, le_trans this.2 ha.2⟩
  exact iterE_safe_inv
    (fun s0 a : NwSt α => Good X.shape R a.M ∧ negLL log X a.M ≤ negLL log X s0.M)
    (nwOuter (NumOps.ofField log) c cfg alg dir X) (nwOuterSafe log c cfg alg dir X) hstep k
    ⟨normalize1 (NumOps.ofField log) init, [], [], 0, false⟩
    ⟨normalize1 (NumOps.ofField log) init, [], [], 0, false⟩ s ⟨h0, le_rfl⟩ hiter h

/-- The safeguards of the code are inactive on the whole run `cp_apr` makes (a decidable check). -/
def SafeguardsInactive (c : Consts α) (cfg : Cfg α) (alg : Alg) (dir : Dir α) (X : Data α)
    (init : Ktensor α) : Bool :=
  match alg with
  | .mu => muRunSafe log cfg X init cfg.maxiters
  | _ => nwRunSafe log c cfg alg dir X init cfg.maxiters

end Pyttb.CpApr
